(* LayoutProofs.v — the answer computed from any layout equals the layout-free specification,
   provided accelerators only skip blocks without matches (C03). *)
From SigM Require Import Base Layout.
From SigP Require Import BaseProofs.
From Coq Require Import Permutation Lia QArith.

Section LayoutProofs.
  Variables event query : Type.
  Variable matches : query -> event -> bool.
  Variable prune : query -> bool -> block event -> bool.
  Variable value : Type.
  Variable col : query -> event -> value.
  Variable veqb : value -> value -> bool.
  Variable mword : query -> value -> bool.
  Variable ingest_match : query -> event -> bool.

  Notation block := (block event).
  Notation segment := (segment event).
  Notation layout := (layout event).
  Notation answer := (answer event query matches prune value col veqb mword ingest_match).
  Notation search_block := (search_block event query matches value col veqb mword ingest_match).
  Notation dict_search := (dict_search event query value col veqb mword).
  Notation spec_answer := (spec_answer event query matches).
  Notation prune_sound := (prune_sound event query matches prune).
  Notation prune_sound_on := (prune_sound_on event query matches prune).
  Notation paths_ok := (paths_ok event query matches value col veqb mword ingest_match).

  Lemma filter_none : forall (f : event -> bool) l, (forall e, In e l -> f e = false) -> filter f l = [].
  Proof.
    induction l as [|a l IH]; simpl; intros H; auto.
    rewrite (H a (or_introl eq_refl)). apply IH. intros; apply H; auto.
  Qed.

  Lemma filter_flat_map : forall (A : Type) (f : event -> bool) (g : A -> list event) l,
    filter f (flat_map g l) = flat_map (fun x => filter f (g x)) l.
  Proof. induction l as [|a l IH]; simpl; auto. rewrite filter_app, IH. auto. Qed.

  Lemma flat_map_ext_in : forall (A Bt : Type) (f g : A -> list Bt) l,
    (forall x, In x l -> f x = g x) -> flat_map f l = flat_map g l.
  Proof.
    induction l as [|a l IH]; simpl; intros H; auto.
    rewrite (H a (or_introl eq_refl)), IH; auto.
  Qed.

  Lemma filter_ext_in' : forall (f g : event -> bool) l,
    (forall x, In x l -> f x = g x) -> filter f l = filter g l.
  Proof.
    induction l as [|a l IH]; simpl; intros H; auto.
    rewrite (H a (or_introl eq_refl)), IH; auto.
  Qed.

  (* ----- dictionary search = record-level search ----- *)
  Hypothesis veqb_eq : forall x y, veqb x y = true <-> x = y.

  Lemma existsb_veqb : forall x l, existsb (veqb x) l = true <-> In x l.
  Proof.
    intros x l. rewrite existsb_exists. split.
    - intros [y [H E]]. apply veqb_eq in E. subst. auto.
    - intros H. exists x. split; auto. apply veqb_eq. auto.
  Qed.

  Lemma nodupb_in : forall l x, In x (nodupb value veqb l) <-> In x l.
  Proof.
    induction l as [|a l IH]; simpl; intros x; [tauto|].
    destruct (existsb (veqb a) l) eqn:E.
    - rewrite IH. split; auto. intros [<-|H]; auto. apply existsb_veqb. auto.
    - simpl. rewrite IH. tauto.
  Qed.

  Lemma dict_hit_spec : forall q evs e, In e evs ->
    existsb (veqb (col q e)) (filter (mword q) (nodupb value veqb (map (col q) evs))) = mword q (col q e).
  Proof.
    intros q evs e He. destruct (mword q (col q e)) eqn:M.
    - apply existsb_veqb. apply filter_In. split; auto. apply nodupb_in. apply in_map. auto.
    - destruct (existsb _ _) eqn:E; auto. apply existsb_veqb in E. apply filter_In in E.
      destruct E as [_ E]. congruence.
  Qed.

  Lemma dict_search_mword : forall q evs,
    dict_search q evs = filter (fun e => mword q (col q e)) evs.
  Proof.
    intros q evs. unfold Layout.dict_search.
    apply filter_ext_in'. intros e He. apply dict_hit_spec. auto.
  Qed.

  Theorem dict_search_equiv : forall q evs,
    (forall e, In e evs -> matches q e = mword q (col q e)) ->
    dict_search q evs = filter (matches q) evs.
  Proof.
    intros q evs H. rewrite dict_search_mword. apply filter_ext_in'. intros e He. rewrite (H e He). auto.
  Qed.

  (* ----- the answer of a layout is the specification ----- *)
  Lemma search_block_spec : forall q b,
    match b_path event b with
    | PRec => True
    | PDict => forall e, In e (b_events event b) -> matches q e = mword q (col q e)
    | PPqs => forall e, In e (b_events event b) -> ingest_match q e = matches q e
    end ->
    search_block q b = filter (matches q) (b_events event b).
  Proof.
    intros q b H. unfold Layout.search_block. destruct (b_path event b); auto.
    - apply dict_search_equiv. auto.
    - apply filter_ext_in'. auto.
  Qed.

  Lemma answer_filter : forall L q,
    prune_sound_on q L -> paths_ok q L ->
    answer L q = filter (matches q) (all_events event L).
  Proof.
    intros L q PS PO. unfold Layout.answer, all_events.
    rewrite filter_flat_map. apply flat_map_ext_in. intros s Hs.
    unfold answer_seg. rewrite filter_flat_map. apply flat_map_ext_in. intros b Hb.
    assert (SB : search_block q b = filter (matches q) (b_events event b)).
    { apply search_block_spec. specialize (PO s b Hs Hb). destruct (b_path event b); auto. tauto. }
    destruct (prune q (s_open event s) b) eqn:P; auto.
    symmetry. apply filter_none. intros e He. destruct (matches q e) eqn:M; auto.
    rewrite (PS _ _ _ Hs Hb He M) in P. discriminate.
  Qed.

  Lemma prune_sound_global : forall q L, prune_sound q -> prune_sound_on q L.
  Proof. intros q L H s b e _ _ He M. eapply H; eauto. Qed.

  Lemma filter_perm : forall (f : event -> bool) a b, Permutation a b -> Permutation (filter f a) (filter f b).
  Proof.
    intros f a b P. induction P; simpl; auto.
    - destruct (f x); auto.
    - destruct (f x); destruct (f y); auto. apply perm_swap.
    - eapply perm_trans; eauto.
  Qed.

  Theorem answer_is_spec_on : forall L evs q,
    prune_sound_on q L -> paths_ok q L -> valid_layout event L evs ->
    Permutation (answer L q) (spec_answer evs q).
  Proof.
    intros L evs q PS PO V. rewrite (answer_filter L q PS PO). unfold Layout.spec_answer.
    apply filter_perm. exact V.
  Qed.

  Theorem answer_is_spec : forall L evs q,
    prune_sound q -> paths_ok q L -> valid_layout event L evs ->
    Permutation (answer L q) (spec_answer evs q).
  Proof. intros L evs q PS. apply answer_is_spec_on. apply prune_sound_global. auto. Qed.

  (* any two physical organisations of the same events give the same answer *)
  Corollary layout_invariance : forall L1 L2 evs q,
    prune_sound q -> paths_ok q L1 -> paths_ok q L2 ->
    valid_layout event L1 evs -> valid_layout event L2 evs ->
    Permutation (answer L1 q) (answer L2 q).
  Proof.
    intros L1 L2 evs q PS P1 P2 V1 V2.
    eapply perm_trans; [eapply answer_is_spec; eauto|].
    apply Permutation_sym. eapply answer_is_spec; eauto.
  Qed.

  (* converse: if pruning drops a block holding a match, some event of the specification is lost *)
  Theorem unsound_prune_loses_event : forall q o b e,
    In e (b_events event b) -> matches q e = true -> prune q o b = false ->
    let L := [mkSeg event [b] o] in
    ~ Permutation (answer L q) (spec_answer (all_events event L) q).
  Proof.
    intros q o b e He M P L PE. unfold L in PE. unfold Layout.answer, answer_seg, all_events in PE.
    simpl in PE. rewrite P in PE. simpl in PE.
    apply Permutation_nil in PE. unfold Layout.spec_answer in PE.
    assert (H : In e (filter (matches q) ((b_events event b ++ []) ++ []))).
    { apply filter_In. split; auto. apply in_or_app. left. apply in_or_app. auto. }
    rewrite PE in H. inversion H.
  Qed.

  (* NegateMatch on dictionary-encoded blocks: marks of the dictionary search flipped by the record loop =
     the record-level search, with and without NOT *)
  Theorem dict_search_neg_equiv : forall neg q evs,
    dict_search_neg event query value col veqb mword neg q evs
    = rec_search_neg event query value col mword neg q evs.
  Proof.
    intros neg q evs. unfold dict_search_neg, rec_search_neg.
    apply filter_ext_in'. intros e He. rewrite dict_hit_spec; auto.
  Qed.

  (* PRE-FIX documentation: the record loop was skipped, equal only without NOT *)
  Theorem prefix_dict_search_neg_guarded : forall q evs,
    dict_search_neg_prefix event query value col veqb mword false q evs
    = rec_search_neg event query value col mword false q evs.
  Proof.
    intros q evs. unfold dict_search_neg_prefix, rec_search_neg.
    rewrite dict_search_mword. apply filter_ext_in'. intros. destruct (mword q (col q x)); auto.
  Qed.
End LayoutProofs.

(* PRE-FIX witness: two records {w:1},{w:2}, query NOT 1: record loop returns [2], the pre-fix dictionary path [1] *)
Theorem prefix_dict_search_neg_refuted :
  exists evs q,
    dict_search_neg_prefix N N N (fun _ e => e) N.eqb (fun q v => N.eqb q v) true q evs
    <> rec_search_neg N N N (fun _ e => e) (fun q v => N.eqb q v) true q evs.
Proof. exists [1; 2]%N, 1%N. vm_compute. discriminate. Qed.

(* ---------- statistics ---------- *)
Section AggProofs.
  Variables event S : Type.
  Variable merge : S -> S -> S.
  Variable unit : S.
  Variable inj : event -> S.
  Hypothesis merge_assoc : forall a b c, merge a (merge b c) = merge (merge a b) c.
  Hypothesis merge_comm : forall a b, merge a b = merge b a.
  Hypothesis unit_l : forall a, merge unit a = a.

  Notation agg := (agg event S merge unit inj).
  Notation merge_all := (merge_all S merge unit).

  Lemma agg_app : forall a b, agg (a ++ b) = merge (agg a) (agg b).
  Proof.
    induction a as [|x a IH]; intros b; simpl.
    - rewrite unit_l. auto.
    - rewrite IH. apply merge_assoc.
  Qed.

  Lemma merge_all_app : forall a b, merge_all (a ++ b) = merge (merge_all a) (merge_all b).
  Proof.
    induction a as [|x a IH]; intros b; simpl.
    - rewrite unit_l. auto.
    - rewrite IH. apply merge_assoc.
  Qed.

  (* partial results may be merged in the order in which the workers deliver them *)
  Theorem merge_order_irrelevant : forall ps qs, Permutation ps qs -> merge_all ps = merge_all qs.
  Proof.
    intros ps qs P. induction P; simpl; auto.
    - f_equal. auto.
    - rewrite !merge_assoc. f_equal. apply merge_comm.
    - congruence.
  Qed.

  Theorem agg_perm : forall a b, Permutation a b -> agg a = agg b.
  Proof.
    intros a b P. induction P; simpl; auto.
    - f_equal. auto.
    - rewrite !merge_assoc. f_equal. apply merge_comm.
    - congruence.
  Qed.

  Lemma merge_all_agg : forall blocks, merge_all (map agg blocks) = agg (concat blocks).
  Proof. induction blocks as [|b bs IH]; simpl; auto. rewrite agg_app, IH. auto. Qed.

  (* pre-aggregated segment statistics used or not: same value *)
  Lemma seg_stats_spec : forall u blocks, seg_stats event S merge unit inj u blocks = agg (concat blocks).
  Proof. intros [] blocks; simpl; auto. apply merge_all_agg. Qed.

  Theorem stats_answer_is_spec : forall L,
    stats_answer event S merge unit inj L = agg (stats_events event L).
  Proof.
    unfold stats_answer, stats_events. induction L as [|s L IH]; simpl; auto.
    rewrite IH, seg_stats_spec, agg_app. auto.
  Qed.

  Corollary stats_layout_invariance : forall L1 L2,
    Permutation (stats_events event L1) (stats_events event L2) ->
    stats_answer event S merge unit inj L1 = stats_answer event S merge unit inj L2.
  Proof. intros L1 L2 P. rewrite !stats_answer_is_spec. apply agg_perm. auto. Qed.
End AggProofs.

(* ---------- ingest-time window ---------- *)
Lemma skipn_app_exact : forall (A : Type) (a b : list A), skipn (length a) (a ++ b) = b.
Proof. induction a; simpl; auto. Qed.

Lemma cw_last_append : forall c r, cw_last (cw_append c r) = r.
Proof. intros c r. unfold cw_last, cw_append. simpl. apply skipn_app_exact. Qed.

(* after ANY history of the column in the block, the window handed to the ingest-time evaluator is exactly
   the encoding of the record just written: the value if the event has the column, the one back-fill byte if not *)
Theorem window_is_last_record : forall xs x, cw_last (cw_run (xs ++ [x])) = rec_of x.
Proof.
  intros xs x. unfold cw_run. rewrite fold_left_app. simpl. unfold cw_step. apply cw_last_append.
Qed.

(* the assignment in the back-fill loop is needed: without it an event that lacks the column is evaluated
   against the last earlier value of the column followed by back-fill bytes ({status:500},{} -> 500 again) *)
Theorem window_needs_start_update :
  exists xs, cw_last (cw_run_nostart xs) <> rec_of (last xs None)
    /\ firstn 9 (cw_last (cw_run_nostart xs)) = enc_cell (WInt 500).
Proof. exists [Some (WInt 500); None]. split; [vm_compute; discriminate | vm_compute; reflexivity]. Qed.

(* ---------- persistent queries: the segment flag ---------- *)
Section PqsFlagProofs.
  Variable event : Type.
  Variable m : event -> bool.

  Lemma seg_nonempty_acc : forall blocks f,
    fold_left (fun f b => f || block_any event m b) blocks f = f || existsb m (concat blocks).
  Proof.
    induction blocks as [|b bs IH]; intros f; simpl.
    - rewrite orb_false_r. auto.
    - rewrite IH. unfold block_any. rewrite existsb_app. rewrite orb_assoc. auto.
  Qed.

  (* the flag is the OR over the blocks = "some event of the segment matches", whatever the split into blocks *)
  Theorem seg_nonempty_is_or : forall blocks, seg_nonempty event m blocks = existsb m (concat blocks).
  Proof. intros. unfold seg_nonempty. rewrite seg_nonempty_acc. auto. Qed.

  Lemma filter_concat : forall blocks, flat_map (filter m) blocks = filter m (concat blocks).
  Proof. induction blocks as [|b bs IH]; simpl; auto. rewrite filter_app, IH. auto. Qed.

  Lemma filter_nil_of_none : forall l, existsb m l = false -> filter m l = [].
  Proof.
    induction l as [|a l IH]; simpl; intros H; auto.
    apply orb_false_iff in H. destruct H as [H1 H2]. rewrite H1. auto.
  Qed.

  (* the answer of a rotated segment served from the persistent-query results = the union of its blocks' matches
     = the matching events of the segment, for any split into blocks *)
  Theorem pqs_segment_answer_is_union : forall blocks,
    pqs_seg_answer event m (seg_nonempty event m blocks) blocks = filter m (concat blocks).
  Proof.
    intros blocks. unfold pqs_seg_answer. rewrite seg_nonempty_is_or.
    destruct (existsb m (concat blocks)) eqn:E.
    - apply filter_concat.
    - symmetry. apply filter_nil_of_none. auto.
  Qed.

  Corollary pqs_segment_answer_split_invariant : forall b1 b2,
    concat b1 = concat b2 ->
    pqs_seg_answer event m (seg_nonempty event m b1) b1 = pqs_seg_answer event m (seg_nonempty event m b2) b2.
  Proof. intros b1 b2 H. rewrite !pqs_segment_answer_is_union, H. auto. Qed.

  (* the last-block-only flag is right exactly when it agrees with the OR, e.g. when the last block matches *)
  Lemma seg_nonempty_last_spec : forall blocks f,
    fold_left (fun _ b => block_any event m b) blocks f = match blocks with [] => f | _ => block_any event m (last blocks []) end.
  Proof.
    induction blocks as [|b bs IH]; intros f; simpl; auto.
    rewrite IH. destruct bs; auto.
  Qed.

  Theorem seg_nonempty_last_guarded : forall blocks,
    blocks <> [] -> block_any event m (last blocks []) = true ->
    seg_nonempty_last event m blocks = seg_nonempty event m blocks.
  Proof.
    intros blocks NE H. unfold seg_nonempty_last. rewrite seg_nonempty_last_spec.
    destruct blocks as [|b bs]; [congruence|]. rewrite H. symmetry.
    rewrite seg_nonempty_is_or. apply existsb_exists.
    unfold block_any in H. apply existsb_exists in H. destruct H as [x [Hx Mx]].
    exists x. split; auto. apply in_concat. exists (last (b :: bs) []). split; auto.
    apply (@exists_last _ (b :: bs)) in NE. destruct NE as [l' [a ->]]. rewrite last_last. apply in_or_app. right. left. auto.
  Qed.
End PqsFlagProofs.

(* blocks [match],[no match]: the last-block flag is false, the segment would be skipped and the match lost *)
Theorem pqs_last_block_flag_refuted :
  exists (m : N -> bool) blocks,
    pqs_seg_answer N m (seg_nonempty_last N m blocks) blocks <> filter m (concat blocks)
    /\ pqs_seg_answer N m (seg_nonempty N m blocks) blocks = filter m (concat blocks).
Proof. exists (N.eqb 1%N), [[1%N]; [2%N]]. split; [vm_compute; discriminate | vm_compute; reflexivity]. Qed.

(* ---------- range queries on the block range index: layout invariance, composed ---------- *)
From SigM Require Import Prune.
From SigP Require Import PruneProofs.

Section RangeLayout.
  (* an event: its id and the cell of the queried column; a query: operator and literal *)
  Definition rev := (nat * cell)%type.
  Definition rquery := (op * lit)%type.
  Definition rq_val (q : rquery) : Q := match lit_val (snd q) with Some v => v | None => 0%Q end.
  Definition rmatches (q : rquery) (e : rev) : bool := ev_matches (fst q) (rq_val q) (snd e).
  Definition rprune (q : rquery) (_ : bool) (b : block rev) : bool :=
    block_range_pass (cmi_of (map snd (b_events rev b))) (fst q) (snd q).
  Definition ranswer := answer rev rquery rmatches rprune unit (fun _ _ => tt) (fun _ _ => true) (fun _ _ => true) rmatches.

  Definition all_rec (L : layout rev) : Prop :=
    forall s b, In s L -> In b (s_blocks rev s) -> b_path rev b = PRec.
  Definition guard_all (q : rquery) (L : layout rev) : Prop :=
    forall s b, In s L -> In b (s_blocks rev s) -> range_guard (map snd (b_events rev b)) (fst q) (snd q) = true.

  Lemma rprune_sound_on : forall q L, lit_val (snd q) <> None -> guard_all q L ->
    prune_sound_on rev rquery rmatches rprune q L.
  Proof.
    intros [o l] L LV G s b e Hs Hb He M. unfold rprune. simpl in *.
    destruct (lit_val l) as [lv|] eqn:E; [|congruence].
    apply range_prune_sound_guarded with (lv := lv); auto.
    - apply (G s b Hs Hb).
    - exists (snd e). split; [apply in_map; auto|]. unfold rmatches, rq_val in M. simpl in M. rewrite E in M. auto.
  Qed.

  Lemma all_rec_paths_ok : forall q L, all_rec L ->
    paths_ok rev rquery rmatches unit (fun _ _ => tt) (fun _ _ => true) (fun _ _ => true) rmatches q L.
  Proof. intros q L A s b Hs Hb. rewrite (A s b Hs Hb). auto. Qed.

  Theorem range_query_layout_invariance_guarded : forall q L1 L2 evs,
    lit_val (snd q) <> None ->
    guard_all q L1 -> guard_all q L2 -> all_rec L1 -> all_rec L2 ->
    valid_layout rev L1 evs -> valid_layout rev L2 evs ->
    Permutation (ranswer L1 q) (ranswer L2 q).
  Proof.
    intros q L1 L2 evs LV G1 G2 A1 A2 V1 V2. unfold ranswer.
    assert (UE : forall x y : unit, (fun _ _ : unit => true) x y = true <-> x = y)
      by (intros [] []; tauto).
    eapply perm_trans.
    - eapply (answer_is_spec_on rev rquery rmatches rprune unit (fun _ _ => tt) (fun _ _ => true) (fun _ _ => true) rmatches UE L1 evs q);
        auto using rprune_sound_on, all_rec_paths_ok.
    - apply Permutation_sym.
      eapply (answer_is_spec_on rev rquery rmatches rprune unit (fun _ _ => tt) (fun _ _ => true) (fun _ _ => true) rmatches UE L2 evs q);
        auto using rprune_sound_on, all_rec_paths_ok.
  Qed.

  (* without the guard two layouts of the same three events answer n != 5 differently *)
  Theorem range_query_layout_dependence_refuted :
    exists q L1 L2 evs, valid_layout rev L1 evs /\ valid_layout rev L2 evs /\ all_rec L1 /\ all_rec L2
      /\ ~ Permutation (ranswer L1 q) (ranswer L2 q).
  Proof.
    set (e0 := (0%nat, Some (VI 5))). set (e1 := (1%nat, @None num)). set (e2 := (2%nat, Some (VI 5))).
    set (e3 := (3%nat, Some (VI 6))).
    exists (Ne, LInt false 5),
           [mkSeg rev [mkBlock rev [e0; e1; e2] PRec; mkBlock rev [e3] PRec] false],
           [mkSeg rev [mkBlock rev [e0; e2] PRec; mkBlock rev [e1; e3] PRec] false],
           [e0; e1; e2; e3].
    split; [|split; [|split; [|split]]].
    - unfold valid_layout. simpl. apply Permutation_refl.
    - unfold valid_layout. simpl. unfold e0, e1, e2, e3.
      apply perm_skip. apply perm_swap.
    - intros s b [<-|[]] [<-|[<-|[]]]; reflexivity.
    - intros s b [<-|[]] [<-|[<-|[]]]; reflexivity.
    - intro P. apply Permutation_length in P. vm_compute in P. discriminate.
  Qed.
End RangeLayout.

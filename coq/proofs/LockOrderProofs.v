(* LockOrderProofs.v — soundness of the lock-order edges of LockOrder.v and the reason an acyclic order matters:
   goroutines whose nestings all follow one ranking cannot wait for each other in a ring. *)
From Coq Require Import NArith List Bool Lia.
From SigM Require Import LockTrace LockOrder.
From SigP Require Import LockTraceProofs.
Import ListNotations.
Open Scope N_scope.

Local Arguments mstep : simpl never.

(* ---------- edge lists ---------- *)
Lemma edge_eqb_eq : forall a b : edge, edge_eqb a b = true <-> a = b.
Proof.
  intros [a1 a2] [b1 b2]. unfold edge_eqb. cbn [fst snd].
  rewrite andb_true_iff, !N.eqb_eq. split.
  - intros [-> ->]. reflexivity.
  - intro H. inversion H. auto.
Qed.

Lemma emem_In : forall e l, emem e l = true <-> In e l.
Proof.
  intros e l. induction l as [|x r IH]; cbn [emem In].
  - split; [discriminate | tauto].
  - rewrite orb_true_iff, edge_eqb_eq, IH. split; intros [H|H]; subst; auto.
Qed.

Lemma emem_eunion_iff : forall e a b, emem e (eunion a b) = true <-> emem e a = true \/ emem e b = true.
Proof.
  intros e a b. induction a as [|x r IH]; cbn [eunion emem].
  - split; [auto | intros [H|H]; [discriminate H | exact H]].
  - destruct (emem x b) eqn:E; cbn [emem]; rewrite ?orb_true_iff, IH.
    + split.
      * intros [H|H]; auto.
      * intros [[H|H]|H]; auto. apply edge_eqb_eq in H. subst x. auto.
    + tauto.
Qed.

Theorem emem_eunion : forall e a b, emem e (eunion a b) = emem e a || emem e b.
Proof.
  intros e a b. apply eq_true_iff_eq. rewrite orb_true_iff. apply emem_eunion_iff.
Qed.
Print Assumptions emem_eunion.

Definition einc (A B : list edge) : Prop := forall e, emem e A = true -> emem e B = true.

Lemma einc_eunion : forall A A' B B', einc A A' -> einc B B' -> einc (eunion A B) (eunion A' B').
Proof.
  unfold einc. intros A A' B B' HA HB e H.
  apply emem_eunion_iff in H. apply emem_eunion_iff. destruct H as [H|H]; auto.
Qed.

Lemma emem_acq_edges : forall e k o X,
  emem e (acq_edges k o X) = true <-> is_acquire k = true /\ exists h, In h X /\ In e (held_edges o h).
Proof.
  intros e k o X. unfold acq_edges. destruct (is_acquire k).
  - induction X as [|x r IH]; cbn [fold_right].
    + cbn [emem]. split; [discriminate | intros [_ [h [[] _]]]].
    + rewrite emem_eunion_iff, IH, emem_In. split.
      * intros [H|[_ [h [H1 H2]]]].
        -- split; [reflexivity|]. exists x. split; [left; reflexivity | exact H].
        -- split; [reflexivity|]. exists h. split; [right; exact H1 | exact H2].
      * intros [_ [h [[H1|H1] H2]]].
        -- subst h. left. exact H2.
        -- right. split; [reflexivity|]. exists h. auto.
  - cbn [emem]. split; [discriminate | intros [H _]; discriminate H].
Qed.

(* ---------- inclusion of lock-set lists, monotonicity of post ---------- *)
Definition inc (A B : list held) : Prop := forall h, mem h A = true -> mem h B = true.

Lemma inc_refl : forall A, inc A A.
Proof. intros A h H. exact H. Qed.

Lemma inc_trans : forall A B C, inc A B -> inc B C -> inc A C.
Proof. intros A B C H1 H2 h H. auto. Qed.

Lemma inc_union : forall A A' B B', inc A A' -> inc B B' -> inc (union A B) (union A' B').
Proof.
  unfold inc. intros A A' B B' HA HB h H.
  apply mem_union_iff in H. apply mem_union_iff. destruct H as [H|H]; auto.
Qed.

Lemma inc_union_r : forall A B, inc B (union A B).
Proof. intros A B h H. apply mem_union_iff. auto. Qed.

Lemma inc_union_l : forall A B, inc A (union A B).
Proof. intros A B h H. apply mem_union_iff. auto. Qed.

Lemma step_all_mem_inv : forall k o X h',
  mem h' (fst (step_all k o X)) = true -> exists h, mem h X = true /\ mstep h (k, o) = inl h'.
Proof.
  intros k o X h'. induction X as [|x r IH]; cbn [step_all mem]; intros Hm.
  - discriminate Hm.
  - destruct (step_all k o r) as [hs vs]. cbn [fst] in IH.
    destruct (mstep x (k, o)) as [h1|v] eqn:E; cbn [fst] in Hm.
    + apply mem_union_iff in Hm as [Hm|Hm].
      * cbn [mem] in Hm. rewrite orb_false_r in Hm. apply held_eqb_eq in Hm. subst h1.
        exists x. rewrite held_eqb_refl. auto.
      * destruct (IH Hm) as [h [H1 H2]]. exists h. rewrite H1, orb_true_r. auto.
    + destruct (IH Hm) as [h [H1 H2]]. exists h. rewrite H1, orb_true_r. auto.
Qed.

Lemma step_all_mono : forall k o X X', inc X X' -> inc (fst (step_all k o X)) (fst (step_all k o X')).
Proof.
  intros k o X X' H h' Hm. apply step_all_mem_inv in Hm as [h [H1 H2]].
  apply step_all_mem with (h := h); auto.
Qed.

Definition rinc (r r' : res) : Prop :=
  inc (r_norm r) (r_norm r') /\ inc (r_ret r) (r_ret r') /\ inc (r_brk r) (r_brk r') /\ inc (r_cont r) (r_cont r').

Definition post_mono_at (fuel : nat) (s : stm) : Prop :=
  forall X X', inc X X' -> rinc (post fuel s X) (post fuel s X').

Section LOOPMONO.
Variable fuel : nat.
Variables a p : stm.
Hypothesis Ma : post_mono_at fuel a.
Hypothesis Mp : post_mono_at fuel p.

Definition lF (X : list held) : list held := union (r_norm (loop_rp fuel a p X)) X.

Lemma loop_iter_S : forall n X,
  loop_iter fuel a p (S n) X = if subset (lF X) X then (X, true) else loop_iter fuel a p n (lF X).
Proof. intros. reflexivity. Qed.

Lemma loop_iter_O : forall X, loop_iter fuel a p O X = (X, false).
Proof. intros. reflexivity. Qed.

Lemma loop_rp_mono : forall X X', inc X X' -> rinc (loop_rp fuel a p X) (loop_rp fuel a p X').
Proof.
  intros X X' H. unfold loop_rp, loop_ra.
  destruct (Ma X X' H) as (Hn & _ & _ & Hc).
  apply Mp. apply inc_union; assumption.
Qed.

Lemma lF_mono : forall X X', inc X X' -> inc (lF X) (lF X').
Proof.
  intros X X' H. unfold lF. apply inc_union; [|exact H].
  destruct (loop_rp_mono X X' H) as (Hn & _). exact Hn.
Qed.

Lemma lF_infl : forall X, inc X (lF X).
Proof. intro X. unfold lF. apply inc_union_r. Qed.

Lemma loop_iter_infl : forall n X, inc X (fst (loop_iter fuel a p n X)).
Proof.
  induction n as [|n IH]; intro X.
  - rewrite loop_iter_O. apply inc_refl.
  - rewrite loop_iter_S. destruct (subset (lF X) X).
    + apply inc_refl.
    + eapply inc_trans; [apply lF_infl | apply IH].
Qed.

Lemma loop_iter_absorb : forall n X Y, inc X Y -> inc (lF Y) Y -> inc (fst (loop_iter fuel a p n X)) Y.
Proof.
  induction n as [|n IH]; intros X Y H Hc.
  - rewrite loop_iter_O. exact H.
  - rewrite loop_iter_S. destruct (subset (lF X) X).
    + exact H.
    + apply IH; [|exact Hc]. eapply inc_trans; [apply lF_mono; exact H | exact Hc].
Qed.

Lemma loop_iter_mono : forall n X Y, inc X Y ->
  inc (fst (loop_iter fuel a p n X)) (fst (loop_iter fuel a p n Y)).
Proof.
  induction n as [|n IH]; intros X Y H.
  - rewrite !loop_iter_O. exact H.
  - rewrite !loop_iter_S. destruct (subset (lF X) X) eqn:EX; destruct (subset (lF Y) Y) eqn:EY; cbn [fst].
    + exact H.
    + eapply inc_trans; [exact H|]. eapply inc_trans; [apply lF_infl | apply loop_iter_infl].
    + apply loop_iter_absorb.
      * eapply inc_trans; [apply lF_mono; exact H|]. intros h Hm. exact (subset_mem _ _ _ EY Hm).
      * intros h Hm. exact (subset_mem _ _ _ EY Hm).
    + apply IH. apply lF_mono. exact H.
Qed.

Lemma post_loop_mono : post_mono_at fuel (SLoop a p).
Proof.
  intros X0 Y0 H. rewrite !post_loop.
  pose proof (loop_iter_mono fuel X0 Y0 H) as HX.
  destruct (loop_iter fuel a p fuel X0) as [X okx]. destruct (loop_iter fuel a p fuel Y0) as [Y oky].
  cbn [fst] in HX. unfold rinc. cbn [r_norm r_ret r_brk r_cont].
  destruct (Ma X Y HX) as (An & Ar & Ab & Ac).
  destruct (loop_rp_mono X Y HX) as (Pn & Pr & Pb & Pc).
  unfold loop_ra. repeat split; try apply inc_refl; apply inc_union; assumption.
Qed.
End LOOPMONO.

Lemma post_mono : forall fuel s, post_mono_at fuel s.
Proof.
  intros fuel s.
  induction s as [ | k ob | a IHa b IHb | a IHa b IHb | | | | b IHb | b IHb | b IHb | a IHa p IHp ];
    intros X X' H.
  - unfold rinc. cbn [post r_norm r_ret r_brk r_cont]. repeat split; try apply inc_refl. exact H.
  - unfold rinc. cbn [post]. pose proof (step_all_mono k ob X X' H) as Hm.
    destruct (step_all k ob X) as [hs vs]. destruct (step_all k ob X') as [hs' vs'].
    cbn [fst] in Hm. cbn [r_norm r_ret r_brk r_cont]. repeat split; try apply inc_refl. exact Hm.
  - destruct (IHa X X' H) as (An & Ar & Ab & Ac).
    destruct (IHb _ _ An) as (Bn & Br & Bb & Bc).
    unfold rinc. cbn [post r_norm r_ret r_brk r_cont]. repeat split; try apply inc_union; assumption.
  - destruct (IHa X X' H) as (An & Ar & Ab & Ac).
    destruct (IHb X X' H) as (Bn & Br & Bb & Bc).
    unfold rinc, res_union. cbn [post r_norm r_ret r_brk r_cont]. repeat split; apply inc_union; assumption.
  - unfold rinc. cbn [post r_norm r_ret r_brk r_cont]. repeat split; try apply inc_refl. exact H.
  - unfold rinc. cbn [post r_norm r_ret r_brk r_cont]. repeat split; try apply inc_refl. exact H.
  - unfold rinc. cbn [post r_norm r_ret r_brk r_cont]. repeat split; try apply inc_refl. exact H.
  - destruct (IHb X X' H) as (Bn & Br & Bb & Bc).
    unfold rinc. cbn [post r_norm r_ret r_brk r_cont]. repeat split; try apply inc_refl.
    repeat apply inc_union; assumption.
  - destruct (IHb X X' H) as (Bn & Br & Bb & Bc).
    unfold rinc. cbn [post r_norm r_ret r_brk r_cont]. repeat split; try apply inc_refl; try assumption.
    apply inc_union; assumption.
  - destruct (IHb X X' H) as (Bn & Br & Bb & Bc).
    unfold rinc. cbn [post r_norm r_ret r_brk r_cont]. repeat split; try apply inc_refl; try assumption.
    apply inc_union; assumption.
  - apply post_loop_mono; assumption.
Qed.

(* ---------- monotonicity of the edges in the lock sets ---------- *)
Lemma acq_edges_mono : forall k o X X', inc X X' -> einc (acq_edges k o X) (acq_edges k o X').
Proof.
  intros k o X X' H e He. apply emem_acq_edges in He as [Hk [h [H1 H2]]].
  apply emem_acq_edges. split; [exact Hk|]. exists h. split; [|exact H2].
  apply mem_In. apply H. apply mem_In. exact H1.
Qed.

Lemma eedges_loop : forall fuel a p X,
  eedges fuel (SLoop a p) X =
  eunion (eedges fuel a (r_norm (post fuel (SLoop a p) X)))
         (eedges fuel p (union (r_norm (post fuel a (r_norm (post fuel (SLoop a p) X))))
                               (r_cont (post fuel a (r_norm (post fuel (SLoop a p) X)))))).
Proof. intros. reflexivity. Qed.

Lemma eedges_mono : forall fuel s X X', inc X X' -> einc (eedges fuel s X) (eedges fuel s X').
Proof.
  intros fuel s.
  induction s as [ | k ob | a IHa b IHb | a IHa b IHb | | | | b IHb | b IHb | b IHb | a IHa p IHp ];
    intros X X' H.
  - intros e He. exact He.
  - cbn [eedges]. apply acq_edges_mono. exact H.
  - cbn [eedges]. apply einc_eunion.
    + apply IHa. exact H.
    + apply IHb. destruct (post_mono fuel a X X' H) as (Hn & _). exact Hn.
  - cbn [eedges]. apply einc_eunion; [apply IHa | apply IHb]; exact H.
  - intros e He. exact He.
  - intros e He. exact He.
  - intros e He. exact He.
  - cbn [eedges]. apply IHb. exact H.
  - cbn [eedges]. apply IHb. exact H.
  - cbn [eedges]. apply IHb. exact H.
  - rewrite !eedges_loop.
    destruct (post_mono fuel (SLoop a p) X X' H) as (Hn & _).
    apply einc_eunion.
    + apply IHa. exact Hn.
    + apply IHp. destruct (post_mono fuel a _ _ Hn) as (An & _ & _ & Ac). apply inc_union; assumption.
Qed.

(* ---------- the edges of a run ---------- *)
Lemma run_edges_app : forall t1 t2 h,
  run_edges h (t1 ++ t2) =
  run_edges h t1 ++ match mrun h t1 with inl h' => run_edges h' t2 | inr _ => [] end.
Proof.
  induction t1 as [|[k o] r IH]; intros t2 h.
  - reflexivity.
  - cbn [app run_edges mrun]. destruct (mstep h (k, o)) as [h'|v].
    + rewrite IH, app_assoc. reflexivity.
    + rewrite !app_nil_r. reflexivity.
Qed.

Definition esound_at (fuel : nat) (s : stm) : Prop :=
  forall (t : list ev) (o : outc), exec s t o -> forall (X : list held) (h0 : held),
  mem h0 X = true -> r_bad (post fuel s X) = [] ->
  forall e, In e (run_edges h0 t) -> emem e (eedges fuel s X) = true.

(* from any lock set of a closed head set X, the nestings of a run of the loop are those computed from X *)
Lemma loop_edges : forall fuel a p X,
  esound_at fuel a -> esound_at fuel p ->
  subset (union (r_norm (loop_rp fuel a p X)) X) X = true ->
  r_bad (loop_ra fuel a X) = [] -> r_bad (loop_rp fuel a p X) = [] ->
  forall l t o, exec l t o -> l = SLoop a p -> forall h0, mem h0 X = true ->
  forall e, In e (run_edges h0 t) ->
  emem e (eunion (eedges fuel a X)
                 (eedges fuel p (union (r_norm (loop_ra fuel a X)) (r_cont (loop_ra fuel a X))))) = true.
Proof.
  intros fuel a p X Ea Ep Hcl Ba Bp l t o Hex.
  pose proof (post_sound_aux fuel a) as Sa. pose proof (post_sound_aux fuel p) as Sp.
  induction Hex as [ | | | | | | | | | | | | |
                   | a' p'
                   | a' p' t1 t2 t3 o1 o Ha _ Hor Hp _ Hl IHl
                   | a' p' t Ha _
                   | a' p' t Ha _
                   | a' p' t1 t2 o1 Ha _ Hor Hp _ ];
    intros El h0 Hm e Hin; try discriminate El; injection El as Ea' Ep'; subst a' p'.
  - destruct Hin.
  - destruct (Sa _ _ Ha _ _ Hm Ba) as [h1 [R1 M1]].
    assert (M1' : mem h1 (union (r_norm (loop_ra fuel a X)) (r_cont (loop_ra fuel a X))) = true).
    { apply mem_union_iff. destruct Hor as [Ho|Ho]; subst o1; simpl in M1; auto. }
    destruct (Sp _ _ Hp _ _ M1' Bp) as [h2 [R2 M2]]. simpl in M2.
    assert (M2' : mem h2 X = true).
    { apply (subset_mem _ _ _ Hcl). apply mem_union_iff. left. exact M2. }
    rewrite run_edges_app, R1, run_edges_app, R2 in Hin.
    apply in_app_or in Hin as [Hin|Hin]; [|apply in_app_or in Hin as [Hin|Hin]].
    + apply emem_eunion_iff. left. exact (Ea _ _ Ha _ _ Hm Ba _ Hin).
    + apply emem_eunion_iff. right. exact (Ep _ _ Hp _ _ M1' Bp _ Hin).
    + exact (IHl eq_refl h2 M2' e Hin).
  - apply emem_eunion_iff. left. exact (Ea _ _ Ha _ _ Hm Ba _ Hin).
  - apply emem_eunion_iff. left. exact (Ea _ _ Ha _ _ Hm Ba _ Hin).
  - destruct (Sa _ _ Ha _ _ Hm Ba) as [h1 [R1 M1]].
    assert (M1' : mem h1 (union (r_norm (loop_ra fuel a X)) (r_cont (loop_ra fuel a X))) = true).
    { apply mem_union_iff. destruct Hor as [Ho|Ho]; subst o1; simpl in M1; auto. }
    rewrite run_edges_app, R1 in Hin.
    apply in_app_or in Hin as [Hin|Hin].
    + apply emem_eunion_iff. left. exact (Ea _ _ Ha _ _ Hm Ba _ Hin).
    + apply emem_eunion_iff. right. exact (Ep _ _ Hp _ _ M1' Bp _ Hin).
Qed.

Lemma post_loop_norm : forall fuel a p X0 X ok,
  loop_iter fuel a p fuel X0 = (X, ok) ->
  r_norm (post fuel (SLoop a p) X0) = union X (r_brk (loop_ra fuel a X)).
Proof. intros fuel a p X0 X ok E. rewrite post_loop, E. reflexivity. Qed.

Lemma eedges_sound_aux : forall fuel s, esound_at fuel s.
Proof.
  intros fuel s.
  induction s as [ | k ob | a IHa b IHb | a IHa b IHb | | | | b IHb | b IHb | b IHb | a IHa p IHp ];
    intros t o Hex X0 h0 Hmem Hbad e Hin.
  - (* SSkip *)
    apply exec_skip_inv in Hex as [-> ->]. destruct Hin.
  - (* SEv *)
    apply exec_ev_inv in Hex as [-> ->]. cbn [eedges]. cbn [run_edges] in Hin.
    apply emem_acq_edges.
    assert (Hin' : In e (if is_acquire k then held_edges ob h0 else [])).
    { apply in_app_or in Hin as [Hin|Hin]; [exact Hin|].
      destruct (mstep h0 (k, ob)); destruct Hin. }
    destruct (is_acquire k); [|destruct Hin'].
    split; [reflexivity|]. exists h0. split; [apply mem_In; exact Hmem | exact Hin'].
  - (* SSeq *)
    simpl in Hbad. apply app_eq_nil in Hbad as [Ba Bb]. cbn [eedges]. apply emem_eunion_iff.
    apply exec_seq_inv in Hex as [(t1 & t2 & -> & H1 & H2) | [H1 Hne]].
    + destruct (post_sound fuel a _ _ H1 _ _ Hmem Ba) as [h1 [R1 M1]]. simpl in M1.
      rewrite run_edges_app, R1 in Hin. apply in_app_or in Hin as [Hin|Hin].
      * left. exact (IHa _ _ H1 _ _ Hmem Ba _ Hin).
      * right. exact (IHb _ _ H2 _ _ M1 Bb _ Hin).
    + left. exact (IHa _ _ H1 _ _ Hmem Ba _ Hin).
  - (* SAlt *)
    simpl in Hbad. apply app_eq_nil in Hbad as [Ba Bb]. cbn [eedges]. apply emem_eunion_iff.
    apply exec_alt_inv in Hex as [H1 | H1].
    + left. exact (IHa _ _ H1 _ _ Hmem Ba _ Hin).
    + right. exact (IHb _ _ H1 _ _ Hmem Bb _ Hin).
  - (* SRet *)
    apply exec_ret_inv in Hex as [-> ->]. destruct Hin.
  - (* SBreak *)
    apply exec_break_inv in Hex as [-> ->]. destruct Hin.
  - (* SContinue *)
    apply exec_continue_inv in Hex as [-> ->]. destruct Hin.
  - (* SCall *)
    simpl in Hbad. apply exec_call_inv in Hex as [-> [o' H1]]. cbn [eedges].
    exact (IHb _ _ H1 _ _ Hmem Hbad _ Hin).
  - (* SBrk *)
    simpl in Hbad. cbn [eedges]. apply exec_brk_inv in Hex as [[-> H1] | [H1 Hne]];
      exact (IHb _ _ H1 _ _ Hmem Hbad _ Hin).
  - (* SCont *)
    simpl in Hbad. cbn [eedges]. apply exec_cont_inv in Hex as [[-> H1] | [H1 Hne]];
      exact (IHb _ _ H1 _ _ Hmem Hbad _ Hin).
  - (* SLoop *)
    rewrite eedges_loop.
    rewrite post_loop in Hbad.
    destruct (loop_iter fuel a p fuel X0) as [X ok] eqn:E.
    rewrite (post_loop_norm fuel a p X0 X ok E).
    destruct ok; simpl in Hbad; [|discriminate Hbad].
    apply app_eq_nil in Hbad as [Ba Bp].
    apply loop_iter_true in E as [Hsub Hcl].
    pose proof (loop_edges fuel a p X IHa IHp Hcl Ba Bp _ _ _ Hex eq_refl h0 (Hsub _ Hmem) e Hin) as Hl.
    revert Hl. generalize e. fold (einc
      (eunion (eedges fuel a X)
              (eedges fuel p (union (r_norm (loop_ra fuel a X)) (r_cont (loop_ra fuel a X)))))
      (eunion (eedges fuel a (union X (r_brk (loop_ra fuel a X))))
              (eedges fuel p (union (r_norm (post fuel a (union X (r_brk (loop_ra fuel a X)))))
                                    (r_cont (post fuel a (union X (r_brk (loop_ra fuel a X))))))))).
    assert (HX : inc X (union X (r_brk (loop_ra fuel a X)))) by apply inc_union_l.
    apply einc_eunion.
    + apply eedges_mono. exact HX.
    + apply eedges_mono. unfold loop_ra.
      destruct (post_mono fuel a _ _ HX) as (An & _ & _ & Ac). apply inc_union; assumption.
Qed.

(* every nesting that occurs on a monitored run of the skeleton is among the computed edges *)
Theorem eedges_sound : forall (fuel : nat) (s : stm) (t : list ev) (o : outc),
  exec s t o -> forall (S : list held) (h0 : held),
  mem h0 S = true -> r_bad (post fuel s S) = [] ->
  forall e, In e (run_edges h0 t) -> emem e (eedges fuel s S) = true.
Proof.
  intros fuel s t o Hex X h0 Hm Hb e Hin. exact (eedges_sound_aux fuel s t o Hex X h0 Hm Hb e Hin).
Qed.
Print Assumptions eedges_sound.

Theorem fn_edges_sound : forall (fuel : nat) (s : stm),
  analyse fuel s = [] -> forall t o, exec s t o ->
  forall e, In e (run_edges [] t) -> emem e (fn_edges fuel s) = true.
Proof.
  unfold analyse, fn_edges. intros fuel s Hb t o Hex e Hin.
  assert (Hm : mem [] [[]] = true) by reflexivity.
  exact (eedges_sound fuel s t o Hex [[]] [] Hm Hb e Hin).
Qed.
Print Assumptions fn_edges_sound.

Lemma holds_held_edges : forall h o l, holds h o = true -> In (o, l) (held_edges l h).
Proof.
  induction h as [|[o' w] r IH]; intros o l H; cbn [holds] in H.
  - discriminate H.
  - unfold held_edges. cbn [map fst]. apply orb_true_iff in H as [H|H].
    + apply N.eqb_eq in H. subst o'. left. reflexivity.
    + right. apply IH. exact H.
Qed.

(* at every acquisition on a trace, each lock held at that moment precedes the acquired one in the edges *)
Theorem acquisition_is_justified : forall (fuel : nat) (s : stm),
  analyse fuel s = [] -> forall t1 k l t2 o h,
  exec s (t1 ++ (k, l) :: t2) o -> is_acquire k = true -> mrun [] t1 = inl h ->
  justified (fn_edges fuel s) (h, l).
Proof.
  intros fuel s Hb t1 k l t2 o h Hex Hk Hr. unfold justified. cbn [fst snd]. intros ob Hh.
  apply (fn_edges_sound fuel s Hb _ _ Hex).
  rewrite run_edges_app, Hr. apply in_or_app. right.
  cbn [run_edges]. rewrite Hk. apply in_or_app. left.
  apply holds_held_edges. exact Hh.
Qed.
Print Assumptions acquisition_is_justified.

(* ---------- a ranking that increases along every edge: no ring of justified waiters ---------- *)
Lemma rank_ok_edge : forall rank G e, rank_ok rank G = true -> emem e G = true -> rank (fst e) < rank (snd e).
Proof.
  unfold rank_ok. intros rank G e Hr He. rewrite forallb_forall in Hr.
  apply emem_In in He. apply Hr in He. apply N.ltb_lt. exact He.
Qed.

Lemma chain_rank : forall (rank : N -> N) (G : list edge), rank_ok rank G = true ->
  forall (first : waiter), justified G first ->
  forall (l : list waiter) (w : waiter), Forall (justified G) (w :: l) -> chain first (w :: l) ->
  rank (snd w) < rank (snd first).
Proof.
  intros rank G Hr first Jf l. induction l as [|w' r IH]; intros w HF Hc.
  - cbn [chain] in Hc. apply Jf in Hc. apply (rank_ok_edge rank G _ Hr) in Hc. exact Hc.
  - inversion HF as [|x y Jw HF']; subst x y.
    cbn [chain] in Hc. destruct Hc as [Hh Hc].
    pose proof (IH w' HF' Hc) as Hlt.
    inversion HF' as [|x y Jw' _]; subst x y.
    apply Jw' in Hh. apply (rank_ok_edge rank G _ Hr) in Hh. cbn [fst snd] in Hh. lia.
Qed.

Theorem ranked_no_ring : forall (rank : N -> N) (G : list edge),
  rank_ok rank G = true -> forall ws : list waiter,
  Forall (justified G) ws -> Forall (fun w => fst w <> []) ws -> ~ ring ws.
Proof.
  intros rank G Hr ws HF _ Hring. destruct ws as [|w l].
  - exact Hring.
  - unfold ring in Hring.
    assert (Jw : justified G w) by (inversion HF; assumption).
    pose proof (chain_rank rank G Hr w Jw l w HF Hring) as Hlt. lia.
Qed.
Print Assumptions ranked_no_ring.

Theorem acyclic_no_ring : forall G : list edge, acyclic G = true ->
  forall ws : list waiter, Forall (justified G) ws -> Forall (fun w => fst w <> []) ws -> ~ ring ws.
Proof.
  intros G H. exact (ranked_no_ring (compute_rank G) G H).
Qed.
Print Assumptions acyclic_no_ring.

(* monotonicity used to combine the edges of many functions *)
Theorem justified_mono : forall G G' w, (forall e, emem e G = true -> emem e G' = true) -> justified G w -> justified G' w.
Proof.
  unfold justified. intros G G' w H J o Ho. apply H. apply J. exact Ho.
Qed.
Print Assumptions justified_mono.

Example lock_order_examples :
  acyclic [(1, 2); (2, 3); (1, 3)] = true /\ acyclic [(1, 2); (2, 1)] = false /\ acyclic [(5, 5)] = false
  /\ fn_edges 8 (SSeq (SEv KLock 1) (SSeq (SLoop (SCont (SSeq (SEv KRLock 2) (SEv KRUnlock 2))) SSkip) (SEv KUnlock 1))) = [(1, 2)].
Proof.
  split; [|split; [|split]]; vm_compute; reflexivity.
Qed.
Print Assumptions lock_order_examples.

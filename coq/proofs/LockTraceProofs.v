(* LockTraceProofs.v — soundness of the lock-set analysis of LockTrace.v: when `analyse` reports nothing,
   the monitor accepts EVERY trace of the skeleton (any branch choices, any numbers of loop iterations). *)
From Coq Require Import NArith List Bool Lia.
From SigM Require Import LockTrace.
Import ListNotations.
Open Scope N_scope.

(* the result component an outcome lands in *)
Definition sel (o : outc) (r : res) : list held :=
  match o with ONorm => r_norm r | ORet => r_ret r | OBrk => r_brk r | OCont => r_cont r end.

Local Arguments mstep : simpl never.

(* ---------- lock-set lists ---------- *)
Lemma held_eqb_eq : forall a b, held_eqb a b = true <-> a = b.
Proof.
  induction a as [|[o w] a IH]; intros [|[o' w'] b]; simpl; split; intro H;
    try discriminate H; try reflexivity.
  - apply andb_true_iff in H as [H H3]. apply andb_true_iff in H as [H1 H2].
    apply N.eqb_eq in H1. apply Bool.eqb_prop in H2. apply IH in H3. subst. reflexivity.
  - inversion H; subst. rewrite N.eqb_refl, Bool.eqb_reflx. simpl. apply IH. reflexivity.
Qed.

Lemma held_eqb_refl : forall a, held_eqb a a = true.
Proof. intro a. apply held_eqb_eq. reflexivity. Qed.

Lemma mem_In : forall h X, mem h X = true <-> In h X.
Proof.
  intros h X. induction X as [|x r IH]; simpl.
  - split; [discriminate | tauto].
  - rewrite orb_true_iff, held_eqb_eq, IH. split; intros [H|H]; subst; auto.
Qed.

Lemma mem_union_iff : forall h a b, mem h (union a b) = true <-> mem h a = true \/ mem h b = true.
Proof.
  intros h a b. induction a as [|x r IH]; simpl.
  - split; [auto | intros [H|H]; [discriminate H | exact H]].
  - destruct (mem x b) eqn:E; simpl; rewrite ?orb_true_iff, IH.
    + split.
      * intros [H|H]; auto.
      * intros [[H|H]|H]; auto. apply held_eqb_eq in H. subst x. auto.
    + tauto.
Qed.

Lemma mem_union : forall h a b, mem h (union a b) = mem h a || mem h b.
Proof.
  intros h a b. apply eq_true_iff_eq. rewrite orb_true_iff. apply mem_union_iff.
Qed.

Lemma subset_mem : forall a b h, subset a b = true -> mem h a = true -> mem h b = true.
Proof.
  unfold subset. intros a b h Hs Hm. rewrite forallb_forall in Hs. apply mem_In in Hm. apply Hs. exact Hm.
Qed.

(* ---------- step_all ---------- *)
Lemma step_all_mem : forall k o X h h',
  mem h X = true -> mstep h (k, o) = inl h' -> mem h' (fst (step_all k o X)) = true.
Proof.
  intros k o X h h'. induction X as [|x r IH]; cbn [step_all mem]; intros Hm Hs.
  - discriminate Hm.
  - destruct (step_all k o r) as [hs vs]. cbn [fst] in IH. apply orb_true_iff in Hm as [Hm|Hm].
    + apply held_eqb_eq in Hm. subst x. rewrite Hs. cbn [fst].
      apply mem_union_iff. left. cbn [mem]. rewrite held_eqb_refl. reflexivity.
    + destruct (mstep x (k, o)) as [h1|v]; cbn [fst].
      * apply mem_union_iff. right. auto.
      * auto.
Qed.

Lemma step_all_nobad : forall k o X h,
  snd (step_all k o X) = [] -> mem h X = true -> exists h', mstep h (k, o) = inl h'.
Proof.
  intros k o X h. induction X as [|x r IH]; cbn [step_all mem]; intros Hb Hm.
  - discriminate Hm.
  - destruct (step_all k o r) as [hs vs]. cbn [snd] in IH.
    destruct (mstep x (k, o)) as [h1|v] eqn:E; cbn [snd] in Hb.
    + apply orb_true_iff in Hm as [Hm|Hm].
      * apply held_eqb_eq in Hm. subst x. eauto.
      * auto.
    + discriminate Hb.
Qed.

(* ---------- the monitor over concatenated traces ---------- *)
Lemma mrun_app : forall t1 t2 h,
  mrun h (t1 ++ t2) = match mrun h t1 with inl h' => mrun h' t2 | inr v => inr v end.
Proof.
  induction t1 as [|e r IH]; intros t2 h; simpl.
  - reflexivity.
  - destruct (mstep h e); auto.
Qed.

(* ---------- inversion of exec, one lemma per statement form ---------- *)
Lemma exec_skip_inv : forall t o, exec SSkip t o -> t = [] /\ o = ONorm.
Proof. intros t o H. inversion H; subst; auto. Qed.
Lemma exec_ev_inv : forall k ob t o, exec (SEv k ob) t o -> t = [(k, ob)] /\ o = ONorm.
Proof. intros k ob t o H. inversion H; subst; auto. Qed.
Lemma exec_seq_inv : forall a b t o, exec (SSeq a b) t o ->
  (exists t1 t2, t = t1 ++ t2 /\ exec a t1 ONorm /\ exec b t2 o) \/ (exec a t o /\ o <> ONorm).
Proof. intros a b t o H. inversion H; subst; [left; eauto | right; auto]. Qed.
Lemma exec_alt_inv : forall a b t o, exec (SAlt a b) t o -> exec a t o \/ exec b t o.
Proof. intros a b t o H. inversion H; subst; auto. Qed.
Lemma exec_ret_inv : forall t o, exec SRet t o -> t = [] /\ o = ORet.
Proof. intros t o H. inversion H; subst; auto. Qed.
Lemma exec_break_inv : forall t o, exec SBreak t o -> t = [] /\ o = OBrk.
Proof. intros t o H. inversion H; subst; auto. Qed.
Lemma exec_continue_inv : forall t o, exec SContinue t o -> t = [] /\ o = OCont.
Proof. intros t o H. inversion H; subst; auto. Qed.
Lemma exec_call_inv : forall b t o, exec (SCall b) t o -> o = ONorm /\ exists o', exec b t o'.
Proof. intros b t o H. inversion H; subst; eauto. Qed.
Lemma exec_brk_inv : forall b t o, exec (SBrk b) t o ->
  (o = ONorm /\ exec b t OBrk) \/ (exec b t o /\ o <> OBrk).
Proof. intros b t o H. inversion H; subst; auto. Qed.
Lemma exec_cont_inv : forall b t o, exec (SCont b) t o ->
  (o = ONorm /\ exec b t OCont) \/ (exec b t o /\ o <> OCont).
Proof. intros b t o H. inversion H; subst; auto. Qed.

(* ---------- the loop head iteration, as a standalone function ---------- *)
Definition loop_iter (fuel : nat) (a p : stm) : nat -> list held -> list held * bool :=
  fix iter (n : nat) (X : list held) {struct n} : list held * bool :=
    match n with
    | O => (X, false)
    | S n' =>
      let ra := post fuel a X in
      let rp := post fuel p (union (r_norm ra) (r_cont ra)) in
      let X' := union (r_norm rp) X in
      if subset X' X then (X, true) else iter n' X'
    end.

Definition loop_ra (fuel : nat) (a : stm) (X : list held) : res := post fuel a X.
Definition loop_rp (fuel : nat) (a p : stm) (X : list held) : res :=
  post fuel p (union (r_norm (loop_ra fuel a X)) (r_cont (loop_ra fuel a X))).

Lemma post_loop : forall fuel a p X0,
  post fuel (SLoop a p) X0 =
  let '(X, ok) := loop_iter fuel a p fuel X0 in
  mkRes (union X (r_brk (loop_ra fuel a X)))
        (union (r_ret (loop_ra fuel a X)) (r_ret (loop_rp fuel a p X))) [] []
        ((if ok then [] else [VNoFix]) ++ r_bad (loop_ra fuel a X) ++ r_bad (loop_rp fuel a p X)).
Proof. intros. reflexivity. Qed.

Lemma loop_iter_true : forall fuel a p n X0 X,
  loop_iter fuel a p n X0 = (X, true) ->
  (forall h, mem h X0 = true -> mem h X = true) /\
  subset (union (r_norm (loop_rp fuel a p X)) X) X = true.
Proof.
  intros fuel a p n. induction n as [|n IH]; intros X0 X E; simpl in E.
  - discriminate E.
  - fold (loop_iter fuel a p) in E. fold (loop_ra fuel a X0) in E. fold (loop_rp fuel a p X0) in E.
    destruct (subset (union (r_norm (loop_rp fuel a p X0)) X0) X0) eqn:Es.
    + inversion E; subst X. split; auto.
    + apply IH in E as [E1 E2]. split; [|exact E2].
      intros h Hm. apply E1. apply mem_union_iff. right. exact Hm.
Qed.

(* ---------- soundness ---------- *)
Definition sound_at (fuel : nat) (s : stm) : Prop :=
  forall (t : list ev) (o : outc), exec s t o -> forall (X : list held) (h0 : held),
  mem h0 X = true -> r_bad (post fuel s X) = [] ->
  exists h, mrun h0 t = inl h /\ mem h (sel o (post fuel s X)) = true.

Definition loop_exit (fuel : nat) (a p : stm) (X : list held) (o : outc) : list held :=
  match o with
  | ONorm => union X (r_brk (loop_ra fuel a X))
  | ORet => union (r_ret (loop_ra fuel a X)) (r_ret (loop_rp fuel a p X))
  | _ => []
  end.

(* from any lock set of a closed head set X, a run of the loop stays inside what was computed from X *)
Lemma loop_run : forall fuel a p X,
  sound_at fuel a -> sound_at fuel p ->
  subset (union (r_norm (loop_rp fuel a p X)) X) X = true ->
  r_bad (loop_ra fuel a X) = [] -> r_bad (loop_rp fuel a p X) = [] ->
  forall l t o, exec l t o -> l = SLoop a p -> forall h0, mem h0 X = true ->
  exists h, mrun h0 t = inl h /\ mem h (loop_exit fuel a p X o) = true.
Proof.
  intros fuel a p X Sa Sp Hcl Ba Bp l t o Hex.
  induction Hex as [ | | | | | | | | | | | | |
                   | a' p'
                   | a' p' t1 t2 t3 o1 o Ha _ Hor Hp _ Hl IHl
                   | a' p' t Ha _
                   | a' p' t Ha _
                   | a' p' t1 t2 o1 Ha _ Hor Hp _ ];
    intros El h0 Hm; try discriminate El; injection El as Ea Ep; subst a' p'.
  - exists h0. split; [reflexivity|]. unfold loop_exit. apply mem_union_iff. left. exact Hm.
  - destruct (Sa _ _ Ha _ _ Hm Ba) as [h1 [R1 M1]].
    assert (M1' : mem h1 (union (r_norm (loop_ra fuel a X)) (r_cont (loop_ra fuel a X))) = true).
    { apply mem_union_iff. destruct Hor as [Ho|Ho]; subst o1; simpl in M1; auto. }
    destruct (Sp _ _ Hp _ _ M1' Bp) as [h2 [R2 M2]]. simpl in M2.
    assert (M2' : mem h2 X = true).
    { apply (subset_mem _ _ _ Hcl). apply mem_union_iff. left. exact M2. }
    destruct (IHl eq_refl h2 M2') as [h3 [R3 M3]].
    exists h3. split; [|exact M3]. rewrite mrun_app, R1, mrun_app, R2. exact R3.
  - destruct (Sa _ _ Ha _ _ Hm Ba) as [h1 [R1 M1]]. simpl in M1.
    exists h1. split; [exact R1|]. unfold loop_exit. apply mem_union_iff. right. exact M1.
  - destruct (Sa _ _ Ha _ _ Hm Ba) as [h1 [R1 M1]]. simpl in M1.
    exists h1. split; [exact R1|]. unfold loop_exit. apply mem_union_iff. left. exact M1.
  - destruct (Sa _ _ Ha _ _ Hm Ba) as [h1 [R1 M1]].
    assert (M1' : mem h1 (union (r_norm (loop_ra fuel a X)) (r_cont (loop_ra fuel a X))) = true).
    { apply mem_union_iff. destruct Hor as [Ho|Ho]; subst o1; simpl in M1; auto. }
    destruct (Sp _ _ Hp _ _ M1' Bp) as [h2 [R2 M2]]. simpl in M2.
    exists h2. split.
    + rewrite mrun_app, R1. exact R2.
    + unfold loop_exit. apply mem_union_iff. right. exact M2.
Qed.

Lemma post_sound_aux : forall fuel s, sound_at fuel s.
Proof.
  intros fuel s.
  induction s as [ | k ob | a IHa b IHb | a IHa b IHb | | | | b IHb | b IHb | b IHb | a IHa p IHp ];
    intros t o Hex X0 h0 Hmem Hbad.
  - (* SSkip *)
    apply exec_skip_inv in Hex as [-> ->]. exists h0. split; [reflexivity | exact Hmem].
  - (* SEv *)
    apply exec_ev_inv in Hex as [-> ->]. simpl in Hbad |- *.
    pose proof (step_all_nobad k ob X0 h0) as Hnb. pose proof (step_all_mem k ob X0 h0) as Hin.
    destruct (step_all k ob X0) as [hs vs]. simpl in Hbad, Hnb, Hin |- *.
    destruct (Hnb Hbad Hmem) as [h' Hs]. rewrite Hs. exists h'. split; [reflexivity|].
    apply Hin; auto.
  - (* SSeq *)
    simpl in Hbad. apply app_eq_nil in Hbad as [Ba Bb].
    apply exec_seq_inv in Hex as [(t1 & t2 & -> & H1 & H2) | [H1 Hne]].
    + destruct (IHa _ _ H1 _ _ Hmem Ba) as [h1 [R1 M1]]. simpl in M1.
      destruct (IHb _ _ H2 _ _ M1 Bb) as [h2 [R2 M2]].
      exists h2. split.
      * rewrite mrun_app, R1. exact R2.
      * destruct o; simpl in M2 |- *; rewrite ?mem_union_iff; auto.
    + destruct (IHa _ _ H1 _ _ Hmem Ba) as [h1 [R1 M1]].
      exists h1. split; [exact R1|].
      destruct o; simpl in M1 |- *; rewrite ?mem_union_iff; auto; congruence.
  - (* SAlt *)
    simpl in Hbad. apply app_eq_nil in Hbad as [Ba Bb].
    apply exec_alt_inv in Hex as [H1 | H1].
    + destruct (IHa _ _ H1 _ _ Hmem Ba) as [h1 [R1 M1]].
      exists h1. split; [exact R1|].
      destruct o; simpl in M1 |- *; rewrite ?mem_union_iff; auto.
    + destruct (IHb _ _ H1 _ _ Hmem Bb) as [h1 [R1 M1]].
      exists h1. split; [exact R1|].
      destruct o; simpl in M1 |- *; rewrite ?mem_union_iff; auto.
  - (* SRet *)
    apply exec_ret_inv in Hex as [-> ->]. exists h0. split; [reflexivity | exact Hmem].
  - (* SBreak *)
    apply exec_break_inv in Hex as [-> ->]. exists h0. split; [reflexivity | exact Hmem].
  - (* SContinue *)
    apply exec_continue_inv in Hex as [-> ->]. exists h0. split; [reflexivity | exact Hmem].
  - (* SCall *)
    simpl in Hbad. apply exec_call_inv in Hex as [-> [o' H1]].
    destruct (IHb _ _ H1 _ _ Hmem Hbad) as [h1 [R1 M1]].
    exists h1. split; [exact R1|].
    destruct o'; simpl in M1 |- *; rewrite ?mem_union_iff; auto.
  - (* SBrk *)
    simpl in Hbad. apply exec_brk_inv in Hex as [[-> H1] | [H1 Hne]].
    + destruct (IHb _ _ H1 _ _ Hmem Hbad) as [h1 [R1 M1]].
      exists h1. split; [exact R1|]. simpl in M1 |- *. rewrite mem_union_iff. auto.
    + destruct (IHb _ _ H1 _ _ Hmem Hbad) as [h1 [R1 M1]].
      exists h1. split; [exact R1|].
      destruct o; simpl in M1 |- *; rewrite ?mem_union_iff; auto; congruence.
  - (* SCont *)
    simpl in Hbad. apply exec_cont_inv in Hex as [[-> H1] | [H1 Hne]].
    + destruct (IHb _ _ H1 _ _ Hmem Hbad) as [h1 [R1 M1]].
      exists h1. split; [exact R1|]. simpl in M1 |- *. rewrite mem_union_iff. auto.
    + destruct (IHb _ _ H1 _ _ Hmem Hbad) as [h1 [R1 M1]].
      exists h1. split; [exact R1|].
      destruct o; simpl in M1 |- *; rewrite ?mem_union_iff; auto; congruence.
  - (* SLoop *)
    rewrite post_loop in Hbad |- *.
    destruct (loop_iter fuel a p fuel X0) as [X ok] eqn:E.
    destruct ok; simpl in Hbad.
    + apply app_eq_nil in Hbad as [Ba Bp].
      apply loop_iter_true in E as [Hsub Hcl].
      destruct (loop_run fuel a p X IHa IHp Hcl Ba Bp _ _ _ Hex eq_refl h0 (Hsub _ Hmem)) as [h [R M]].
      exists h. split; [exact R|].
      destruct o; simpl in M |- *; exact M.
    + discriminate Hbad.
Qed.

(* every execution from a lock set of S stays inside what the analysis computed, when the analysis reports nothing *)
Theorem post_sound : forall (fuel : nat) (s : stm) (t : list ev) (o : outc),
  exec s t o -> forall (S : list held) (h0 : held),
  mem h0 S = true -> r_bad (post fuel s S) = [] ->
  exists h, mrun h0 t = inl h /\ mem h (sel o (post fuel s S)) = true.
Proof.
  intros fuel s t o Hex X h0 Hm Hb. exact (post_sound_aux fuel s t o Hex X h0 Hm Hb).
Qed.
Print Assumptions post_sound.

Theorem analyse_sound : forall (fuel : nat) (s : stm),
  analyse fuel s = [] -> forall t o, exec s t o -> trace_ok t.
Proof.
  unfold analyse, trace_ok. intros fuel s Hb t o Hex.
  assert (Hm : mem [] [[]] = true) by reflexivity.
  destruct (post_sound fuel s t o Hex [[]] [] Hm Hb) as [h [R _]].
  exists h. exact R.
Qed.
Print Assumptions analyse_sound.

(* the monitor's objections mean what they say *)
Theorem mrun_reacquire_means : forall t h0 o, mrun h0 t = inr (VReacquire o) ->
  exists t1 k t2 h, t = t1 ++ (k, o) :: t2 /\ (k = KLock \/ k = KRLock) /\ mrun h0 t1 = inl h /\ holds h o = true.
Proof.
  induction t as [|e r IH]; intros h0 o H; simpl in H.
  - discriminate H.
  - destruct (mstep h0 e) as [h'|v] eqn:E.
    + destruct (IH _ _ H) as (t1 & k & t2 & h & -> & Hk & R & Hh).
      exists (e :: t1), k, t2, h. simpl. rewrite E. auto.
    + injection H as ->. destruct e as [k ob]. unfold mstep in E.
      destruct k.
      * destruct (holds h0 ob) eqn:Eh; [|discriminate E]. injection E as ->.
        exists [], KLock, r, h0. simpl. auto.
      * destruct (holds h0 ob) eqn:Eh; [|discriminate E]. injection E as ->.
        exists [], KRLock, r, h0. simpl. auto.
      * discriminate E.
      * discriminate E.
      * destruct h0 as [|[l w] h0']; discriminate E.
      * destruct h0 as [|[l w] h0']; discriminate E.
      * discriminate E.
Qed.
Print Assumptions mrun_reacquire_means.

Theorem mrun_block_means : forall t h0 c l, mrun h0 t = inr (VBlockUnderLock c l) ->
  exists t1 k t2 h, t = t1 ++ (k, c) :: t2 /\ (k = KSend \/ k = KRecv) /\ mrun h0 t1 = inl h /\ holds h l = true.
Proof.
  induction t as [|e r IH]; intros h0 c l H; simpl in H.
  - discriminate H.
  - destruct (mstep h0 e) as [h'|v] eqn:E.
    + destruct (IH _ _ _ H) as (t1 & k & t2 & h & -> & Hk & R & Hh).
      exists (e :: t1), k, t2, h. simpl. rewrite E. auto.
    + injection H as ->. destruct e as [k ob]. unfold mstep in E.
      destruct k.
      * destruct (holds h0 ob); discriminate E.
      * destruct (holds h0 ob); discriminate E.
      * discriminate E.
      * discriminate E.
      * destruct h0 as [|[l' w] h0']; [discriminate E|]. injection E as -> ->.
        exists [], KSend, r, ((l, w) :: h0'). simpl. rewrite N.eqb_refl. auto.
      * destruct h0 as [|[l' w] h0']; [discriminate E|]. injection E as -> ->.
        exists [], KRecv, r, ((l, w) :: h0'). simpl. rewrite N.eqb_refl. auto.
      * discriminate E.
Qed.
Print Assumptions mrun_block_means.

(* non-vacuity / sanity: the analysis does object to a recursive read lock and to a send under a lock, and accepts the balanced versions *)
Example analyse_examples :
  analyse 8 (SSeq (SEv KRLock 2) (SSeq (SLoop (SCont (SCall (SSeq (SEv KRLock 2) (SEv KRUnlock 2)))) SSkip) (SEv KRUnlock 2))) <> []
  /\ analyse 8 (SSeq (SEv KLock 9) (SSeq (SEv KSend 10) (SEv KUnlock 9))) <> []
  /\ analyse 8 (SSeq (SEv KLock 9) (SSeq (SEv KUnlock 9) (SEv KSend 10))) = []
  /\ analyse 8 (SLoop (SCont (SSeq (SEv KRLock 2) (SAlt SContinue (SSeq (SEv KRUnlock 2) SBreak)))) SSkip) <> [].
Proof.
  split; [|split; [|split]].
  - vm_compute. discriminate.
  - vm_compute. discriminate.
  - vm_compute. reflexivity.
  - vm_compute. discriminate.
Qed.
Print Assumptions analyse_examples.

(* MetaCacheProofs.v — the lazily loaded search metadata never hands out (or keeps) anything from
   a load that failed: for every sequence of accesses, every file content. *)
From Coq Require Import Lia.
From SigM Require Import Base MetaDecoders MetaCache.
From SigP Require Import BaseProofs MetaDecodersProofs.
Open Scope N_scope.

(* ---------- the reader with its partial result is the reader of MetaDecoders ---------- *)
Lemma bsu_loop_p_collapse : forall chk fuel b off,
  bsu_loop chk fuel b off = collapse (bsu_loop_p chk fuel b off).
Proof.
  intros chk. induction fuel as [|k IH]; intros b off; cbn [bsu_loop bsu_loop_p];
    destruct (Nat.leb (length b) off); auto.
  destruct (chk && Nat.ltb (remaining b off) 26); auto.
  destruct (negb chk && Nat.ltb (length b) (off + 4)); auto.
  destruct (negb chk && Nat.ltb (remaining b (off + 4)) 22); auto.
  destruct (rd_at 2 b (off + 4)); auto.
  destruct (rd_at 8 b (off + 4 + 2)); auto.
  destruct (rd_at 8 b (off + 4 + 10)); auto.
  destruct (rd_at 2 b (off + 4 + 18)); auto.
  destruct (rd_at 2 b (off + 4 + 20)); auto.
  destruct (bsu_cols b (N.to_nat n3) (off + 4 + 22)) as [[cs o']| |]; auto.
  rewrite IH. destruct (bsu_loop_p chk k b o') as [r [[]| |]]; reflexivity.
Qed.

Theorem read_bsu_p_collapse chk b : read_bsu chk b = collapse (read_bsu_p chk b).
Proof. apply bsu_loop_p_collapse. Qed.

(* the current reader: accepted with l, or refused (with some partial list) — never a panic *)
Theorem read_bsu_p_total b :
  (exists l, read_bsu_p true b = (l, DOk tt)) \/ (exists l, read_bsu_p true b = (l, DErr)).
Proof.
  pose proof (read_bsu_no_panic b) as H. rewrite read_bsu_p_collapse in H.
  destruct (read_bsu_p true b) as [l [[]| |]]; cbn in H; eauto. discriminate.
Qed.

Theorem full_parse_read_bsu b l : full_parse b = Some l <-> read_bsu true b = DOk l.
Proof.
  rewrite read_bsu_p_collapse. unfold full_parse.
  destruct (read_bsu_p true b) as [l' [[]| |]]; cbn; split; intros H; inversion H; subst; auto.
Qed.

(* ---------- one step ---------- *)
Arguments read_bsu_p : simpl never.
Lemma mstep_file early f c a :
  fst (fst (mstep early f c a)) = match a with AWrite b => b | _ => f end.
Proof.
  destruct a; cbn; auto; destruct c; cbn; auto; destruct (read_bsu_p true f) as [l [[]| |]]; cbn; auto.
Qed.

(* current code: the new cache content and the answer are the old cache content or the full parse of f *)
Lemma mstep_sound f c a :
  let '(_, c', ans) := mstep false f c a in
  (forall l, c' = Loaded l -> c = Loaded l \/ full_parse f = Some l) /\
  (forall l, ans = Ans l -> c = Loaded l \/ full_parse f = Some l).
Proof.
  unfold full_parse.
  destruct a; cbn; try (split; intros l H; try discriminate; auto).
  - destruct c as [|l0]; cbn.
    + destruct (read_bsu_p true f) as [l [[]| |]]; split; intros l1 H; inversion H; subst; auto.
    + split; intros l1 H; inversion H; subst; auto.
  - destruct c as [|l0]; cbn.
    + destruct (read_bsu_p true f) as [l [[]| |]]; split; intros l1 H; inversion H; subst; auto.
    + split; intros l1 H; inversion H; subst; auto.
Qed.

Lemma versions_head f ops : exists r, versions f ops = f :: r.
Proof. destruct ops as [|[| | |b] r]; cbn; eauto. Qed.

Lemma versions_step f a r :
  versions f (a :: r) = f :: versions (match a with AWrite b => b | _ => f end) r.
Proof. destruct a; reflexivity. Qed.

(* ---------- every answer is the COMPLETE parse of a version of the file ---------- *)
Lemma answers_sound_gen : forall ops f c V,
  (forall l, c = Loaded l -> exists v, In v V /\ full_parse v = Some l) ->
  (forall l, In (Ans l) (fst (mrun false f c ops)) -> exists v, In v (V ++ versions f ops) /\ full_parse v = Some l) /\
  (forall l, snd (snd (mrun false f c ops)) = Loaded l -> exists v, In v (V ++ versions f ops) /\ full_parse v = Some l).
Proof.
  induction ops as [|a r IH]; intros f c V HV.
  - cbn. split; [tauto|]. intros l H. destruct (HV l H) as [v [Hi Hp]]. exists v. split; auto. apply in_or_app; auto.
  - rewrite versions_step. cbn [mrun].
    pose proof (mstep_sound f c a) as S. pose proof (mstep_file false f c a) as F.
    destruct (mstep false f c a) as [[f' c'] ans]. cbn in F. subst f'. destruct S as [S1 S2].
    set (f' := match a with AWrite b => b | _ => f end) in *.
    assert (HV' : forall l, c' = Loaded l -> exists v, In v (V ++ [f]) /\ full_parse v = Some l).
    { intros l H. destruct (S1 l H) as [E|E].
      - destruct (HV l E) as [v [Hi Hp]]. exists v. split; auto. apply in_or_app; auto.
      - exists f. split; auto. apply in_or_app; right; left; auto. }
    destruct (IH f' c' (V ++ [f]) HV') as [I1 I2].
    destruct (mrun false f' c' r) as [l0 fin]. cbn [fst snd] in *.
    replace (V ++ f :: versions f' r) with ((V ++ [f]) ++ versions f' r) by (rewrite <- app_assoc; reflexivity).
    split; auto.
    intros l [H|H]; auto.
    destruct (S2 l H) as [E|E].
    + destruct (HV l E) as [v [Hi Hp]]. exists v. split; auto. apply in_or_app; left. apply in_or_app; auto.
    + exists f. split; auto. apply in_or_app; left. apply in_or_app; right; left; auto.
Qed.

Theorem answers_are_complete_parses : forall ops f l,
  In (Ans l) (fst (mrun false f Unloaded ops)) -> exists v, In v (versions f ops) /\ full_parse v = Some l.
Proof.
  intros ops f l H. destruct (answers_sound_gen ops f Unloaded []) as [A _]; [intros ? E; discriminate|].
  apply (A l H).
Qed.

Theorem cache_holds_complete_parse : forall ops f l,
  snd (snd (mrun false f Unloaded ops)) = Loaded l -> exists v, In v (versions f ops) /\ full_parse v = Some l.
Proof.
  intros ops f l H. destruct (answers_sound_gen ops f Unloaded []) as [_ A]; [intros ? E; discriminate|].
  apply (A l H).
Qed.

(* ---------- an unchanged file: every access answers as in a fresh process ---------- *)
Lemma history_independent_gen : forall ops f c,
  forallb (fun a => negb (is_write a)) ops = true ->
  (c = Unloaded \/ exists l, c = Loaded l /\ full_parse f = Some l) ->
  fst (mrun false f c ops) = map (fresh_answer f) ops /\
  (let c' := snd (snd (mrun false f c ops)) in c' = Unloaded \/ exists l, c' = Loaded l /\ full_parse f = Some l) /\
  fst (snd (mrun false f c ops)) = f.
Proof.
  induction ops as [|a r IH]; intros f c Hw Hc; [cbn; auto|].
  cbn [forallb] in Hw. apply andb_prop in Hw. destruct Hw as [Ha Hr].
  cbn [mrun map].
  assert (S : exists c', mstep false f c a = (f, c', fresh_answer f a) /\
                         (c' = Unloaded \/ exists l, c' = Loaded l /\ full_parse f = Some l)).
  { unfold fresh_answer, full_parse in *. destruct a; cbn in Ha; try discriminate; cbn.
    - destruct Hc as [->|[l [-> E]]].
      + destruct (read_bsu_p true f) as [l [[]| |]]; eauto 6.
      + rewrite E. eauto 6.
    - destruct Hc as [->|[l [-> E]]].
      + destruct (read_bsu_p true f) as [l [[]| |]]; eauto 6.
      + rewrite E. eauto 6.
    - eauto. }
  destruct S as [c' [-> Hc']].
  destruct (IH f c' Hr Hc') as [I1 [I2 I3]].
  destruct (mrun false f c' r) as [l0 fin]. cbn [fst snd] in *. rewrite I1. auto.
Qed.

Theorem history_independent : forall ops f,
  forallb (fun a => negb (is_write a)) ops = true ->
  fst (mrun false f Unloaded ops) = map (fresh_answer f) ops.
Proof. intros ops f H. apply (history_independent_gen ops f Unloaded H). auto. Qed.

(* ---------- a refused file is refused on EVERY access; nothing stays cached ---------- *)
Theorem refused_file_error_is_sticky : forall ops f,
  forallb (fun a => negb (is_write a)) ops = true -> full_parse f = None ->
  (forall a, In a (fst (mrun false f Unloaded ops)) -> a = AnsErr \/ a = NoAns) /\
  snd (mrun false f Unloaded ops) = (f, Unloaded).
Proof.
  intros ops f Hw Hp.
  destruct (history_independent_gen ops f Unloaded Hw) as [I1 [I2 I3]]; auto.
  split.
  - rewrite I1. intros a Hi. apply in_map_iff in Hi. destruct Hi as [x [<- _]].
    unfold fresh_answer. rewrite Hp. destruct x; auto.
  - destruct (mrun false f Unloaded ops) as [l0 [f' c']]. cbn [fst snd] in *. subst f'.
    destruct I2 as [->|[l [_ E]]]; auto. congruence.
Qed.

(* ---------- the variant that stores the reader's result before looking at its error ---------- *)
(* one complete block (no columns, 6 records) followed by the first 5 bytes of the next record *)
Definition wit_file : bytes :=
  [26;0;0;0; 0;0; 9;0;0;0;0;0;0;0; 1;0;0;0;0;0;0;0; 6;0; 0;0;  26;0;0;0;1].

Theorem cache_before_check_refuted :
  exists (f : bytes) (ops : list access) (l : list bsum),
    forallb (fun a => negb (is_write a)) ops = true /\ full_parse f = None /\
    In (Ans l) (fst (mrun true f Unloaded ops)) /\
    fst (mrun true f Unloaded ops) <> map (fresh_answer f) ops /\
    fst (mrun false f Unloaded ops) = map (fresh_answer f) ops.
Proof.
  exists wit_file, [AInfo; ALoad].
  eexists. split; [reflexivity|]. split; [vm_compute; reflexivity|].
  split; [vm_compute; right; left; reflexivity|].
  split; [vm_compute; discriminate | vm_compute; reflexivity].
Qed.

(* ---------- the same statements in terms of the reader of MetaDecoders ---------- *)
Lemma full_parse_none f : read_bsu true f = DErr -> full_parse f = None.
Proof.
  intros H. destruct (full_parse f) as [l|] eqn:E; auto.
  apply full_parse_read_bsu in E. congruence.
Qed.

Theorem answers_are_complete_reads : forall ops f l,
  In (Ans l) (fst (mrun false f Unloaded ops)) -> exists v, In v (versions f ops) /\ read_bsu true v = DOk l.
Proof.
  intros ops f l H. destruct (answers_are_complete_parses ops f l H) as [v [Hi Hp]].
  exists v. split; auto. apply full_parse_read_bsu; auto.
Qed.

Theorem cache_holds_complete_read : forall ops f l,
  snd (snd (mrun false f Unloaded ops)) = Loaded l -> exists v, In v (versions f ops) /\ read_bsu true v = DOk l.
Proof.
  intros ops f l H. destruct (cache_holds_complete_parse ops f l H) as [v [Hi Hp]].
  exists v. split; auto. apply full_parse_read_bsu; auto.
Qed.

Theorem refused_file_reported_on_every_access : forall ops f,
  forallb (fun a => negb (is_write a)) ops = true -> read_bsu true f = DErr ->
  (forall a, In a (fst (mrun false f Unloaded ops)) -> a = AnsErr \/ a = NoAns) /\
  snd (mrun false f Unloaded ops) = (f, Unloaded).
Proof. intros ops f Hw Hr. apply refused_file_error_is_sticky; auto. apply full_parse_none; auto. Qed.

(* non-vacuity: a refused file whose reader returns complete blocks next to the error *)
Theorem refused_file_with_complete_blocks_exists :
  exists (f : bytes) (l : list bsum), l <> [] /\ read_bsu_p true f = (l, DErr) /\ read_bsu true f = DErr.
Proof. exists wit_file. eexists. split; [|split; vm_compute; reflexivity]. discriminate. Qed.

(* MetaDecodersProofs.v — the repaired decoders of the unchecksummed segment files never
   reach a Go panic, for every file content; the code before the repair did (witnesses). *)
From Coq Require Import Lia.
From Coq Require Import ZifyN ZifyNat ZifyBool.
From SigM Require Import Base MetaDecoders.
From SigP Require Import BaseProofs.
Ltac Zify.zify_post_hook ::= Z.div_mod_to_equations.
Open Scope N_scope.

Lemma rd_at_some k b off : (off + k <= length b)%nat -> exists v, rd_at k b off = Some v.
Proof.
  intros H. unfold rd_at. replace (Nat.leb (off + k) (length b)) with true by (symmetry; apply Nat.leb_le; lia).
  eauto.
Qed.

Lemma sl_at_some b off n : (off + n <= length b)%nat -> exists v, sl_at b off n = Some v.
Proof.
  intros H. unfold sl_at. replace (Nat.leb (off + n) (length b)) with true by (symmetry; apply Nat.leb_le; lia).
  eauto.
Qed.

Lemma lift_no_panic {A B} (r : dres A) (f : A -> B) :
  is_panic r = false -> is_panic (match r with DOk x => DOk (f x) | DErr => DErr | DPanic => DPanic end) = false.
Proof. destruct r; auto. Qed.

(* ---------- metric names ---------- *)
Theorem mnm_no_panic : forall fuel b i, is_panic (mnm_loop true fuel b i) = false.
Proof.
  induction fuel as [|k IH]; intros b i; cbn [mnm_loop]; destruct (Nat.leb_spec (length b) i); auto.
  cbn [andb]. unfold remaining.
  destruct (Nat.ltb_spec (length b - i) 2); auto.
  destruct (rd_at_some 2 b i) as [l ->]; [lia|].
  destruct (Nat.ltb_spec (length b - (i + 2)) (N.to_nat l)); auto.
  destruct (sl_at_some b (i + 2) (N.to_nat l)) as [nm ->]; [lia|].
  specialize (IH b (i + 2 + N.to_nat l)%nat).
  destruct (mnm_loop true k b (i + 2 + N.to_nat l)); auto.
Qed.

Corollary read_metric_names_no_panic b : is_panic (read_metric_names true b) = false.
Proof. apply mnm_no_panic. Qed.

(* the repair only changes inputs on which the old code panicked *)
Theorem mnm_fix_conservative : forall fuel b i x,
  mnm_loop false fuel b i = DOk x -> mnm_loop true fuel b i = DOk x.
Proof.
  induction fuel as [|k IH]; intros b i x; cbn [mnm_loop]; destruct (Nat.leb_spec (length b) i); auto.
  cbn [andb]. unfold remaining.
  unfold rd_at. destruct (Nat.leb_spec (i + 2) (length b)); [|discriminate].
  replace (Nat.ltb (length b - i) 2) with false by (symmetry; apply Nat.ltb_ge; lia).
  set (l := le_dec (firstn 2 (skipn i b))).
  unfold sl_at. destruct (Nat.leb_spec (i + 2 + N.to_nat l) (length b)); [|discriminate].
  replace (Nat.ltb (length b - (i + 2)) (N.to_nat l)) with false by (symmetry; apply Nat.ltb_ge; lia).
  destruct (mnm_loop false k b (i + 2 + N.to_nat l)) eqn:E; try discriminate.
  intros [= <-]. rewrite (IH _ _ _ E). reflexivity.
Qed.

Lemma md_skipn_exact {A} k (a b : list A) : length a = k -> skipn k (a ++ b) = b.
Proof. intros <-. rewrite skipn_app, Nat.sub_diag, skipn_all. reflexivity. Qed.

Lemma md_firstn_exact {A} k (a b : list A) : length a = k -> firstn k (a ++ b) = a.
Proof. intros <-. rewrite firstn_app, Nat.sub_diag, firstn_all. cbn [firstn]. apply app_nil_r. Qed.

Lemma mnm_enc_step fuel pre nm rest : N.of_nat (length nm) < 65536 ->
  mnm_loop true (S fuel) (pre ++ le16 (N.of_nat (length nm)) ++ nm ++ rest) (length pre)
  = match mnm_loop true fuel (pre ++ le16 (N.of_nat (length nm)) ++ nm ++ rest) (length pre + 2 + length nm) with
    | DOk ns => DOk (nm :: ns) | e => e end.
Proof.
  intros Hn. set (L := le16 (N.of_nat (length nm))).
  assert (LL : length L = 2%nat) by (unfold L, le16; apply le_enc_length).
  set (b := pre ++ L ++ nm ++ rest).
  assert (Lb : length b = (length pre + (2 + (length nm + length rest)))%nat).
  { unfold b. rewrite !app_length, LL. reflexivity. }
  cbn [mnm_loop]. replace (Nat.leb (length b) (length pre)) with false by (symmetry; apply Nat.leb_gt; lia).
  cbn [andb]. unfold remaining.
  replace (Nat.ltb (length b - length pre) 2) with false by (symmetry; apply Nat.ltb_ge; lia).
  unfold rd_at. replace (Nat.leb (length pre + 2) (length b)) with true by (symmetry; apply Nat.leb_le; lia).
  assert (E : firstn 2 (skipn (length pre) b) = L).
  { unfold b. rewrite md_skipn_exact by reflexivity. apply md_firstn_exact. exact LL. }
  rewrite E. unfold L, le16. rewrite le_dec_enc by (cbn; lia). rewrite Nat2N.id.
  replace (Nat.ltb (length b - (length pre + 2)) (length nm)) with false by (symmetry; apply Nat.ltb_ge; lia).
  unfold sl_at. replace (Nat.leb (length pre + 2 + length nm) (length b)) with true by (symmetry; apply Nat.leb_le; lia).
  assert (E2 : firstn (length nm) (skipn (length pre + 2) b) = nm).
  { unfold b. rewrite (app_assoc pre L). rewrite md_skipn_exact by (rewrite app_length, LL; reflexivity).
    apply md_firstn_exact. reflexivity. }
  rewrite E2. reflexivity.
Qed.

Theorem mnm_roundtrip_gen names : Forall (fun nm => N.of_nat (length nm) < 65536) names ->
  forall pre fuel, (length names < fuel)%nat ->
  mnm_loop true fuel (pre ++ enc_metric_names names) (length pre) = DOk names.
Proof.
  induction 1 as [|nm names Hn Hs IH]; intros pre fuel Hf.
  - unfold enc_metric_names. cbn [map concat]. rewrite app_nil_r.
    destruct fuel; [cbn in Hf; lia|]. cbn [mnm_loop]. rewrite Nat.leb_refl. reflexivity.
  - destruct fuel as [|fuel]; [cbn in Hf; lia|]. cbn [length] in Hf.
    unfold enc_metric_names. cbn [map concat]. fold (enc_metric_names names).
    rewrite <- app_assoc.
    rewrite mnm_enc_step by exact Hn.
    specialize (IH (pre ++ le16 (N.of_nat (length nm)) ++ nm) fuel).
    rewrite !app_length in IH. unfold le16 in IH at 2. rewrite le_enc_length in IH.
    rewrite <- !app_assoc in IH.
    replace (length pre + 2 + length nm)%nat with (length pre + (2 + length nm))%nat by lia.
    rewrite IH by lia. reflexivity.
Qed.

Lemma enc_metric_names_length names : (length names <= length (enc_metric_names names))%nat.
Proof.
  induction names as [|nm names IH]; [cbn; lia|].
  change (enc_metric_names (nm :: names)) with ((le16 (N.of_nat (length nm)) ++ nm) ++ enc_metric_names names).
  rewrite !app_length. unfold le16. rewrite le_enc_length. cbn [length]. lia.
Qed.

Theorem mnm_roundtrip names : Forall (fun nm => N.of_nat (length nm) < 65536) names ->
  read_metric_names true (enc_metric_names names) = DOk names.
Proof.
  intros H. unfold read_metric_names.
  apply (mnm_roundtrip_gen names H [] (S (length (enc_metric_names names)))).
  pose proof (enc_metric_names_length names). lia.
Qed.

Theorem mnm_prefix_refuted : exists b, read_metric_names false b = DPanic /\ read_metric_names true b = DErr.
Proof. exists [252;0;99;112;117]. split; vm_compute; reflexivity. Qed.

(* ---------- metrics block summaries ---------- *)
Theorem mbsu_no_panic : forall fuel b off, is_panic (mbsu_loop true fuel b off) = false.
Proof.
  induction fuel as [|k IH]; intros b off; cbn [mbsu_loop]; destruct (Nat.leb_spec (length b) off); auto.
  cbn [andb]. unfold remaining.
  destruct (Nat.ltb_spec (length b - off) 18); auto.
  destruct (rd_at_some 2 b off) as [x1 ->]; [lia|].
  destruct (rd_at_some 4 b (off + 2)) as [x2 ->]; [lia|].
  destruct (rd_at_some 4 b (off + 10)) as [x3 ->]; [lia|].
  specialize (IH b (off + 18)%nat). destruct (mbsu_loop true k b (off + 18)); auto.
Qed.

Corollary read_mbsu_no_panic b : is_panic (read_mbsu true b) = false.
Proof. unfold read_mbsu. destruct b as [|v r]; auto. destruct (negb _); auto. apply mbsu_no_panic. Qed.

Theorem mbsu_prefix_refuted : exists b, read_mbsu false b = DPanic /\ read_mbsu true b = DErr.
Proof. exists [1;0;0;1;2;3;4;0;0;0]. split; vm_compute; reflexivity. Qed.

(* ---------- block summaries ---------- *)
Lemma bsu_cols_no_panic : forall n b off, (off <= length b)%nat ->
  match bsu_cols b n off with
  | DOk (_, o') => (o' <= length b)%nat
  | DErr => True
  | DPanic => False
  end.
Proof.
  induction n as [|n IH]; intros b off Ho; cbn [bsu_cols]; auto.
  replace (Nat.ltb (length b) off) with false by (symmetry; apply Nat.ltb_ge; lia).
  unfold remaining. destruct (Nat.ltb_spec (length b - off) 2); auto.
  destruct (rd_at_some 2 b off) as [cl ->]; [lia|].
  destruct (Nat.ltb_spec (length b) (off + 2 + N.to_nat cl + 12)); auto.
  destruct (sl_at_some b (off + 2) (N.to_nat cl)) as [nm ->]; [lia|].
  destruct (rd_at_some 8 b (off + 2 + N.to_nat cl)) as [bo ->]; [lia|].
  destruct (rd_at_some 4 b (off + 2 + N.to_nat cl + 8)) as [bl ->]; [lia|].
  specialize (IH b (off + 2 + N.to_nat cl + 12)%nat).
  destruct (bsu_cols b n (off + 2 + N.to_nat cl + 12)) as [[cs o']| |]; auto.
Qed.

Theorem bsu_no_panic : forall fuel b off, is_panic (bsu_loop true fuel b off) = false.
Proof.
  induction fuel as [|k IH]; intros b off; cbn [bsu_loop]; destruct (Nat.leb_spec (length b) off); auto.
  cbn [andb negb]. unfold remaining.
  destruct (Nat.ltb_spec (length b - off) 26); auto.
  destruct (rd_at_some 2 b (off + 4)) as [x1 ->]; [lia|].
  destruct (rd_at_some 8 b (off + 4 + 2)) as [x2 ->]; [lia|].
  destruct (rd_at_some 8 b (off + 4 + 10)) as [x3 ->]; [lia|].
  destruct (rd_at_some 2 b (off + 4 + 18)) as [x4 ->]; [lia|].
  destruct (rd_at_some 2 b (off + 4 + 20)) as [x5 ->]; [lia|].
  pose proof (bsu_cols_no_panic (N.to_nat x5) b (off + 4 + 22)) as C.
  destruct (bsu_cols b (N.to_nat x5) (off + 4 + 22)) as [[cs o']| |]; auto.
  - specialize (IH b o'). destruct (bsu_loop true k b o'); auto.
  - exfalso. apply C. lia.
Qed.

Corollary read_bsu_no_panic b : is_panic (read_bsu true b) = false.
Proof. apply bsu_no_panic. Qed.

Theorem bsu_prefix_refuted : exists b, read_bsu false b = DPanic /\ read_bsu true b = DErr.
Proof. exists [1;2]. split; vm_compute; reflexivity. Qed.

(* ---------- range index ---------- *)
Theorem ri_no_panic : forall fuel b bc, is_panic (ri_loop true fuel b bc) = false.
Proof.
  induction fuel as [|k IH]; intros b bc; cbn [ri_loop]; destruct (Nat.leb_spec (length b) bc); auto.
  cbn [andb]. unfold remaining.
  destruct (Nat.ltb_spec (length b - bc) 2); auto.
  destruct (rd_at_some 2 b bc) as [kl ->]; [lia|].
  destruct (Nat.ltb_spec (length b - (bc + 2)) (N.to_nat kl + 17)); auto.
  destruct (sl_at_some b (bc + 2) (N.to_nat kl)) as [key ->]; [lia|].
  destruct (rd_at_some 1 b (bc + 2 + N.to_nat kl)) as [ty ->]; [lia|].
  destruct (ty <? 3).
  - destruct (rd_at_some 8 b (bc + 2 + N.to_nat kl + 1)) as [mn ->]; [lia|].
    destruct (rd_at_some 8 b (bc + 2 + N.to_nat kl + 1 + 8)) as [mx ->]; [lia|].
    specialize (IH b (bc + 2 + N.to_nat kl + 1 + 16)%nat).
    destruct (ri_loop true k b (bc + 2 + N.to_nat kl + 1 + 16)); auto.
  - specialize (IH b (bc + 2 + N.to_nat kl + 1)%nat).
    destruct (ri_loop true k b (bc + 2 + N.to_nat kl + 1)); auto.
Qed.

Corollary read_range_index_no_panic b : is_panic (read_range_index true b) = false.
Proof. apply ri_no_panic. Qed.

Theorem ri_prefix_refuted : exists b, read_range_index false b = DPanic /\ read_range_index true b = DErr.
Proof. exists [255;0;110;1]. split; vm_compute; reflexivity. Qed.

(* a well-formed single entry is decoded by the fixed code *)
Example ri_roundtrip_example :
  read_range_index true (enc_rentry [110] 1 10 180 ++ enc_rentry [105;100] 0 1 18)
  = DOk [ {| re_key := [110]; re_type := 1; re_minmax := Some (10, 180) |};
          {| re_key := [105;100]; re_type := 0; re_minmax := Some (1, 18) |} ].
Proof. vm_compute. reflexivity. Qed.

(* ---------- bloom record ---------- *)
(* fixed: what the bit set asks the allocator for is bounded by the size of the record *)
Theorem bloom_fixed_alloc_bounded b : snd (read_bloom true b) <= N.of_nat (length b).
Proof.
  unfold read_bloom.
  destruct (rd_be8 b 0) as [m|]; [|cbn; lia].
  destruct (rd_be8 b 8) as [k|]; [|cbn; lia].
  destruct (rd_be8 b 16) as [L|] eqn:E; [|cbn; lia].
  cbn [andb].
  destruct (m =? 0); cbn [orb]; [cbn; lia|].
  destruct (N.ltb_spec (N.of_nat (length b - 24) * 8) L) as [H|H]; [cbn; lia|].
  assert (Hb : bitset_bytes L <= N.of_nat (length b)).
  { unfold bitset_bytes. unfold rd_be8 in E. destruct (Nat.leb_spec (16 + 8) (length b)); [|discriminate]. lia. }
  destruct (N.of_nat (length b - 24) <? bitset_bytes L); cbn [snd]; exact Hb.
Qed.

(* fixed: a bloom that is accepted has m > 0 (no division by zero in Test) *)
Theorem bloom_fixed_m_nonzero b h : fst (read_bloom true b) = DOk h -> bl_m h <> 0.
Proof.
  unfold read_bloom.
  destruct (rd_be8 b 0) as [m|]; [|discriminate].
  destruct (rd_be8 b 8) as [k|]; [|discriminate].
  destruct (rd_be8 b 16) as [L|]; [|discriminate].
  cbn [andb]. destruct (N.eqb_spec m 0); cbn [orb]; [discriminate|].
  destruct (_ <? L); [discriminate|].
  destruct (_ <? bitset_bytes L); [discriminate|].
  cbn [fst]. intros [= <-]. cbn. assumption.
Qed.

(* before the fix: a 32-byte record asks for 35 TB (bit-set length 0x0000FF000000003A) *)
Theorem bloom_prefix_alloc_refuted :
  exists b, length b = 32%nat /\ 1099511627776 <= snd (read_bloom false b) /\ fst (read_bloom true b) = DErr.
Proof.
  exists [0;0;0;0;0;0;0;58; 0;0;0;0;0;0;0;11; 0;0;255;0;0;0;0;58; 1;2;3;4;5;6;7;8].
  split; [reflexivity|]. split; vm_compute; [discriminate|reflexivity].
Qed.

(* before the fix: a bloom with m = 0 was accepted *)
Theorem bloom_prefix_zero_m_refuted :
  exists b h, fst (read_bloom false b) = DOk h /\ bl_m h = 0 /\ fst (read_bloom true b) = DErr.
Proof.
  exists [0;0;0;0;0;0;0;0; 0;0;0;0;0;0;0;11; 0;0;0;0;0;0;0;58; 1;2;3;4;5;6;7;8].
  eexists. split; [vm_compute; reflexivity|]. split; vm_compute; reflexivity.
Qed.

(* MetricsLifeProofs.v — the life cycle of a metrics request (C17): for ALL schedules of the executor,
   the state managers, the puller, CancelQuery, the timeout watchers and the other queries. *)
From Coq Require Import List Arith NArith Bool Lia Permutation Sorted.
From Coq Require Import ZifyN ZifyNat ZifyBool.
From SigM Require Import Base QueryLife MetricsLife.
From SigP Require Import BaseProofs QueryLifeProofs.
Import ListNotations.
Open Scope nat_scope.

(* ------------------------------------------------------------------ *)
(* what one qid sees of the tables                                     *)
(* ------------------------------------------------------------------ *)
(* the unread messages of q's entry in allRunningQueries (None = no entry), q in waitingQueries *)
Definition cv (q : N) (t : st) : option (list msg) := option_map e_chan (lookup q (running t)).
Definition wv (q : N) (t : st) : bool := in_table q (waiting t).

Lemma chan_of_cv q t : chan_of q t = match cv q t with Some c => c | None => [] end.
Proof. unfold chan_of, cv. destruct (lookup q (running t)); reflexivity. Qed.

Lemma cv_none_in_table q t : cv q t = None -> in_table q (running t) = false.
Proof. unfold cv. destruct (lookup q (running t)) eqn:L; [discriminate|]. intros _. apply lookup_none_in_table. exact L. Qed.

Lemma cv_some_in_table q t c : cv q t = Some c -> in_table q (running t) = true.
Proof.
  unfold cv. destruct (lookup q (running t)) eqn:L; [|discriminate]. intros _.
  apply lookup_some in L. destruct L as [Le Lq]. apply in_table_iff. rewrite <- Lq. apply in_map. exact Le.
Qed.

Lemma neqb_neq (a b : N) : a <> b -> (a =? b)%N = false.
Proof. intros H. apply N.eqb_neq. exact H. Qed.

Lemma lookup_upd_other q q' f l : q <> q' -> (forall e, e_qid (f e) = e_qid e) ->
  lookup q (upd_qid q' f l) = lookup q l.
Proof.
  intros NE K. unfold lookup, upd_qid. induction l as [|a l IH]; simpl; auto.
  destruct (has_qid q' a) eqn:E.
  - unfold has_qid in *. rewrite K. apply N.eqb_eq in E. rewrite E.
    rewrite (neqb_neq q' q) by congruence. exact IH.
  - destruct (has_qid q a); auto.
Qed.

Lemma lookup_remove_other q q' l : q <> q' -> lookup q (remove_qid q' l) = lookup q l.
Proof.
  intros NE. unfold lookup, remove_qid. induction l as [|a l IH]; simpl; auto.
  destruct (has_qid q' a) eqn:E; simpl.
  - unfold has_qid in *. apply N.eqb_eq in E. rewrite E. rewrite (neqb_neq q' q) by congruence. exact IH.
  - destruct (has_qid q a); auto.
Qed.

Lemma lookup_remove_same q l : lookup q (remove_qid q l) = None.
Proof.
  destruct (lookup q (remove_qid q l)) eqn:L; auto. exfalso.
  apply lookup_some in L. destruct L as [Le Lq].
  pose proof (in_table_remove_qid q l) as H. apply in_table_false in H. apply H.
  apply in_map_iff. exists e. auto.
Qed.

Lemma in_table_remove_first_other q q' l : q <> q' ->
  in_table q (snd (remove_first q' l)) = in_table q l.
Proof.
  intros NE. unfold in_table. induction l as [|a l IH]; simpl; auto.
  destruct (has_qid q' a) eqn:E; simpl.
  - unfold has_qid in *. apply N.eqb_eq in E. rewrite E. rewrite (neqb_neq q' q) by congruence. reflexivity.
  - destruct (remove_first q' l). simpl in *. rewrite IH. reflexivity.
Qed.

Lemma in_table_remove_first_le q q' l :
  in_table q (snd (remove_first q' l)) = true -> in_table q l = true.
Proof.
  unfold in_table. induction l as [|a l IH]; simpl; auto.
  destruct (has_qid q' a) eqn:E; simpl.
  - intros H. rewrite H. apply orb_true_r.
  - destruct (remove_first q' l). simpl in *. intros H. apply orb_true_iff in H.
    apply orb_true_iff. destruct H; auto.
Qed.

Lemma keeps_qid f : keeps f -> forall e, e_qid (f e) = e_qid e.
Proof. intros K e. destruct (K e) as (_ & H & _). exact H. Qed.

(* ---------- the standing facts about the tables ---------- *)
Record G (mx : nat) (t : st) : Prop := {
  g_inv : Inv mx t;
  g_w : wedged t = false;
  g_dup : dup_free t;
  g_own : watchers_owned t
}.

Lemma G_init mx : G mx init.
Proof. constructor; [apply Inv_init|reflexivity|constructor|intros w []]. Qed.

Lemma G_step mx t o : G mx t -> start_fresh t o -> G mx (fst (step mx t o)).
Proof.
  intros [I W D O] SF. destruct (dup_owned_step mx t o I SF D O) as [D' O'].
  constructor; auto; [apply Inv_step; exact I|apply unwedged_step; auto].
Qed.

Lemma G_running_not_waiting mx t q c : G mx t -> cv q t = Some c -> wv q t = false.
Proof.
  intros g H. apply cv_some_in_table in H. unfold wv.
  destruct (in_table q (waiting t)) eqn:E; auto. exfalso.
  pose proof (g_dup _ _ g) as D. unfold dup_free in D. rewrite map_app in D.
  eapply NoDup_app_disjoint; [exact D| |]; apply in_table_iff; eassumption.
Qed.

(* ------------------------------------------------------------------ *)
(* how each table operation changes the view of every qid              *)
(* ------------------------------------------------------------------ *)
(* an operation that names another qid changes nothing for q *)
Lemma step_other mx t o q q' : wedged t = false -> op_qid o = Some q' -> q <> q' ->
  cv q (fst (step mx t o)) = cv q t /\ wv q (fst (step mx t o)) = wv q t.
Proof.
  intros W OQ NE. unfold step. rewrite W. unfold cv, wv.
  destruct o as [q0 a f| |q0|q0|q0|q0|q0|q0]; simpl in OQ; inversion OQ; subst q0; cbn [fst snd].
  - destruct (existsb (has_qid q') (running t)); [auto|].
    destruct f.
    + unfold run_query. simpl. unfold has_qid at 1. simpl. rewrite (neqb_neq q' q) by congruence.
      rewrite lookup_remove_other by auto. auto.
    + destruct (Nat.leb MAX_WAITING (length (waiting t))); [auto|]. simpl. split; [reflexivity|].
      rewrite in_table_app. unfold in_table at 2. simpl. unfold has_qid. simpl.
      rewrite (neqb_neq q' q) by congruence. rewrite !orb_false_r. reflexivity.
  - unfold cancel. destruct (lookup q' (running t)); simpl.
    + rewrite lookup_upd_other; auto; try (apply keeps_qid, keeps_cancel_entry).
    + pose proof (in_table_remove_first_other q q' (waiting t) NE) as H.
      destruct (remove_first q' (waiting t)). simpl in *. auto.
  - destruct (remove_watcher_q q' (watchers t)) as [[wt|] ws]; simpl; [|auto].
    destruct (lookup q' (running t)) as [e|] eqn:L; simpl; [|auto].
    destruct (has_room e); simpl; [|auto].
    unfold cancel. simpl. rewrite lookup_upd_qid by (apply keeps_qid, keeps_push; reflexivity).
    rewrite L. simpl. rewrite !lookup_upd_other; auto;
      first [apply keeps_qid, keeps_cancel_entry | apply keeps_qid, keeps_push; reflexivity].
  - unfold exec_send. destruct (lookup q' (running t)); [|auto]. destruct (has_room e); [|auto]. simpl.
    rewrite lookup_upd_other; auto.
  - unfold exec_send. destruct (lookup q' (running t)); [|auto]. destruct (has_room e); [|auto]. simpl.
    rewrite lookup_upd_other; auto.
  - destruct (lookup q' (running t)); simpl.
    + rewrite lookup_remove_other; auto.
    + pose proof (in_table_remove_first_other q q' (waiting t) NE) as H.
      destruct (remove_first q' (waiting t)). simpl in *. auto.
  - destruct (lookup q' (running t)); [|auto]. destruct (e_chan e); [auto|]. simpl.
    rewrite lookup_upd_other; auto.
Qed.

(* one iteration of the puller: nothing, or the head of the queue (a qid q0) is admitted *)
Lemma step_pull mx t : G mx t ->
  (forall q, cv q (fst (step mx t Pull)) = cv q t /\ wv q (fst (step mx t Pull)) = wv q t) \/
  (exists q0, wv q0 t = true /\ cv q0 (fst (step mx t Pull)) = Some [READY; RUNNING] /\
     wv q0 (fst (step mx t Pull)) = false /\
     forall q, q <> q0 -> cv q (fst (step mx t Pull)) = cv q t /\ wv q (fst (step mx t Pull)) = wv q t).
Proof.
  intros [I W D O]. unfold step. rewrite W.
  destruct (Nat.ltb (length (running t)) mx); [|left; auto].
  destruct (waiting t) as [|e wq] eqn:Wt; [left; auto|]. right. exists (e_qid e). cbn [fst].
  pose proof (i_fresh _ _ I) as Fr. rewrite Wt in Fr. inversion Fr as [|x l (C1 & C2 & C3 & C4) Fr']; subst.
  unfold run_query. rewrite C3, admit_fresh by auto. cbn [running waiting].
  unfold dup_free in D. rewrite Wt in D.
  assert (NW : in_table (e_qid e) wq = false).
  { apply in_table_false. intros C. rewrite map_app in D. apply NoDup_app_remove_l in D. simpl in D.
    inversion D; subst. auto. }
  unfold cv, wv. rewrite Wt. split; [|split; [|split]].
  - unfold in_table. simpl. unfold has_qid. rewrite N.eqb_refl. reflexivity.
  - cbn [running]. unfold lookup. simpl. unfold has_qid at 1. simpl. rewrite N.eqb_refl. simpl. rewrite C1. reflexivity.
  - exact NW.
  - intros q NE. cbn [running waiting]. split.
    + unfold lookup at 1. simpl. unfold has_qid at 1. simpl. rewrite (neqb_neq (e_qid e) q) by congruence.
      fold (lookup q (remove_qid (e_qid e) (running t))). rewrite lookup_remove_other; auto.
    + unfold in_table at 2. simpl. unfold has_qid at 1. rewrite (neqb_neq (e_qid e) q) by congruence. reflexivity.
Qed.

(* StartQuery(q, forceRun = false) *)
Lemma step_start_ok mx t q : wedged t = false ->
  snd (step mx t (Start q false false)) = OOk ->
  (forall q2, cv q2 (fst (step mx t (Start q false false))) = cv q2 t) /\
  wv q (fst (step mx t (Start q false false))) = true /\
  (forall q2, q2 <> q -> wv q2 (fst (step mx t (Start q false false))) = wv q2 t).
Proof.
  intros W. unfold step. rewrite W.
  destruct (existsb (has_qid q) (running t)); [discriminate|].
  destruct (Nat.leb MAX_WAITING (length (waiting t))); [discriminate|]. intros _. cbn [fst].
  unfold cv, wv. cbn [running waiting]. split; [auto|]. split.
  - rewrite in_table_app. unfold in_table at 2. simpl. unfold has_qid. simpl. rewrite N.eqb_refl.
    apply orb_true_r.
  - intros q2 NE. rewrite in_table_app. unfold in_table at 2. simpl. unfold has_qid. simpl.
    rewrite (neqb_neq q q2) by congruence. rewrite !orb_false_r. reflexivity.
Qed.

Lemma step_start_fail mx t q : wedged t = false ->
  snd (step mx t (Start q false false)) <> OOk -> fst (step mx t (Start q false false)) = t.
Proof.
  intros W. unfold step. rewrite W.
  destruct (existsb (has_qid q) (running t)); [auto|].
  destruct (Nat.leb MAX_WAITING (length (waiting t))); [auto|]. intros H. exfalso. apply H. reflexivity.
Qed.

(* operations that only append to q's channel (or take q out of the queue) *)
Definition ext_on (q : N) (t t' : st) : Prop :=
  (forall c, cv q t = Some c -> exists x, cv q t' = Some (c ++ x)) /\
  (cv q t = None -> cv q t' = None) /\
  (wv q t' = true -> wv q t = true) /\
  (forall q2, q2 <> q -> cv q2 t' = cv q2 t /\ wv q2 t' = wv q2 t).

Lemma ext_on_refl q t : ext_on q t t.
Proof. repeat split; auto. intros c H. exists []. rewrite app_nil_r. exact H. Qed.

Lemma cancel_ext q t : ext_on q t (cancel q t).
Proof.
  unfold ext_on, cancel, cv, wv. destruct (lookup q (running t)) as [e|] eqn:L; cbn [running waiting].
  - rewrite lookup_upd_qid by (apply keeps_qid, keeps_cancel_entry). rewrite L. simpl.
    split; [|split; [discriminate|split; [auto|]]].
    + intros c Hc. inversion Hc; subst. unfold cancel_entry. destruct (has_room e); simpl.
      * exists [CANCELLED]. reflexivity.
      * exists []. rewrite app_nil_r. reflexivity.
    + intros q2 NE. rewrite lookup_upd_other; auto. apply keeps_qid, keeps_cancel_entry.
  - pose proof (in_table_remove_first_le q q (waiting t)) as LE.
    pose proof (fun q2 (NE : q2 <> q) => in_table_remove_first_other q2 q (waiting t) NE) as OT.
    destruct (remove_first q (waiting t)) as [rm wq]. cbn [running waiting snd] in *. rewrite L. simpl.
    split; [discriminate|]. split; [auto|]. split; [exact LE|]. intros q2 NE. split; auto.
Qed.

Lemma step_cancel_ext mx t q : wedged t = false -> ext_on q t (fst (step mx t (Cancel q))).
Proof. intros W. unfold step. rewrite W. simpl. apply cancel_ext. Qed.

Lemma ext_on_trans q a b c : ext_on q a b -> ext_on q b c -> ext_on q a c.
Proof.
  intros (A1 & A2 & A3 & A4) (B1 & B2 & B3 & B4). split; [|split; [|split]].
  - intros x Hx. destruct (A1 x Hx) as [y Hy]. destruct (B1 _ Hy) as [z Hz]. exists (y ++ z).
    rewrite app_assoc. exact Hz.
  - auto.
  - auto.
  - intros q2 NE. destruct (A4 q2 NE), (B4 q2 NE). split; congruence.
Qed.

Lemma upd_push_ext q m t ws dd w :
  ext_on q t (mkS (upd_qid q (push m) (running t)) (waiting t) ws dd (admitted t) (nser t) w).
Proof.
  unfold ext_on, cv, wv. cbn [running waiting].
  rewrite lookup_upd_qid by reflexivity. split; [|split; [|split; [auto|]]].
  - intros c Hc. destruct (lookup q (running t)); simpl in *; [|discriminate]. inversion Hc; subst.
    exists [m]. reflexivity.
  - destruct (lookup q (running t)); simpl; auto. discriminate.
  - intros q2 NE. rewrite lookup_upd_other; auto.
Qed.

Lemma step_fire_ext mx t q : wedged t = false -> ext_on q t (fst (step mx t (Fire q))).
Proof.
  intros W. unfold step. rewrite W.
  destruct (remove_watcher_q q (watchers t)) as [[wt|] ws]; cbn [fst]; [|apply ext_on_refl].
  destruct (lookup q (running t)) as [e|] eqn:L; cbn [fst].
  - destruct (has_room e); cbn [fst]; [|apply ext_on_refl].
    eapply ext_on_trans; [|apply cancel_ext]. apply upd_push_ext.
  - unfold ext_on, cv, wv. cbn [running waiting]. repeat split; auto.
    intros c H. exists []. rewrite app_nil_r. exact H.
Qed.

Lemma step_complete_ext mx t q : wedged t = false -> ext_on q t (fst (step mx t (Complete q))).
Proof.
  intros W. unfold step. rewrite W. cbn [fst]. unfold exec_send.
  destruct (lookup q (running t)); [|apply ext_on_refl]. destruct (has_room e); [|apply ext_on_refl].
  apply upd_push_ext.
Qed.

Lemma step_complete_room mx t q c : wedged t = false -> room_for q t = true -> cv q t = Some c ->
  cv q (fst (step mx t (Complete q))) = Some (c ++ [COMPLETE]).
Proof.
  intros W R H. unfold step. rewrite W. cbn [fst]. unfold exec_send, room_for, cv in *.
  destruct (lookup q (running t)) as [e|] eqn:L; [|discriminate]. rewrite R. cbn [running].
  rewrite lookup_upd_qid by reflexivity. rewrite L. simpl in *. inversion H; subst. reflexivity.
Qed.

(* the reader takes the oldest message *)
Lemma step_recv mx t q m c : wedged t = false -> cv q t = Some (m :: c) ->
  cv q (fst (step mx t (Recv q))) = Some c /\
  (forall q2, wv q2 (fst (step mx t (Recv q))) = wv q2 t) /\
  (forall q2, q2 <> q -> cv q2 (fst (step mx t (Recv q))) = cv q2 t).
Proof.
  intros W H. unfold step. rewrite W. unfold cv in *.
  destruct (lookup q (running t)) as [e|] eqn:L; [|discriminate]. simpl in H. inversion H as [Hc].
  rewrite Hc. cbn [fst running waiting]. rewrite lookup_upd_qid by reflexivity. rewrite L. simpl.
  unfold pop. simpl. rewrite Hc. simpl. split; [reflexivity|]. split; [reflexivity|].
  intros q2 NE. rewrite lookup_upd_other; auto.
Qed.

(* DeleteQuery of a running query *)
Lemma step_delete mx t q c : wedged t = false -> cv q t = Some c ->
  cv q (fst (step mx t (Delete q))) = None /\
  (forall q2, wv q2 (fst (step mx t (Delete q))) = wv q2 t) /\
  (forall q2, q2 <> q -> cv q2 (fst (step mx t (Delete q))) = cv q2 t).
Proof.
  intros W H. unfold step. rewrite W. unfold cv in *.
  destruct (lookup q (running t)) as [e|] eqn:L; [|discriminate]. cbn [fst running waiting].
  rewrite lookup_remove_same. split; [reflexivity|]. split; [reflexivity|].
  intros q2 NE. rewrite lookup_remove_other; auto.
Qed.

(* ------------------------------------------------------------------ *)
(* the invariant of a metrics request (the code: rule = true)          *)
(* ------------------------------------------------------------------ *)
Definition cur_q (pc : mpc) : option N :=
  match pc with PWaitReady q | PApply q => Some q | _ => None end.

Lemma memN_In q l : memN q l = true <-> In q l.
Proof.
  unfold memN. rewrite existsb_exists. split.
  - intros [x [H1 H2]]. apply N.eqb_eq in H2. subst. exact H1.
  - intros H. exists q. split; auto. apply N.eqb_refl.
Qed.

Lemma memN_false q l : memN q l = false <-> ~ In q l.
Proof. rewrite <- memN_In. destruct (memN q l); split; intros; try discriminate; auto. exfalso; auto. Qed.

Lemma removeN_In q q' l : In q (removeN q' l) <-> In q l /\ q <> q'.
Proof.
  unfold removeN. rewrite filter_In. split; intros [H1 H2]; split; auto.
  - apply negb_true_iff in H2. apply N.eqb_neq in H2. exact H2.
  - apply negb_true_iff. apply N.eqb_neq. exact H2.
Qed.

Section Request.
Variable R : list N.     (* the qids of the request *)

Record JV (t : st) (pc : mpc) (todo mgrs flags : list N) : Prop := {
  (* selectors that have not been started: nothing of them exists *)
  j_todo_nd : NoDup todo;
  j_todo : forall q, In q todo -> In q R /\ cv q t = None /\ wv q t = false /\ ~ In q mgrs /\ cur_q pc <> Some q;
  (* a live state manager watches an entry of the running table *)
  j_mgr : forall q, In q mgrs -> In q R /\ cv q t <> None;
  (* every table entry of the request is owned: by a live state manager, or by the executor that waits for READY *)
  j_run : forall q, In q R -> cv q t <> None -> In q mgrs \/ pc = PWaitReady q;
  j_wait : forall q, In q R -> wv q t = true -> pc = PWaitReady q;
  (* a manager whose selector the executor has left has a terminal message in its channel *)
  j_pend : forall q, In q mgrs -> pc <> PApply q -> exists c m, cv q t = Some c /\ In m c /\ is_terminal m = true;
  (* the flag is set by the manager on its way out *)
  j_flag : forall q, In q flags -> ~ In q mgrs;
  (* the first message of an admitted query is READY; nobody else reads before the executor *)
  j_head : forall q, pc = PWaitReady q -> ~ In q mgrs /\ forall c, cv q t = Some c -> exists c', c = READY :: c';
  j_cur : forall q, cur_q pc = Some q -> In q R;
  (* only a query that has had a state manager is ever flagged *)
  j_flag_old : forall q, In q flags -> ~ In q todo /\ pc <> PWaitReady q
}.

(* the tables look the same to every qid of the request *)
Lemma JV_same t t' pc todo mgrs flags :
  (forall q, In q R -> cv q t' = cv q t /\ wv q t' = wv q t) ->
  JV t pc todo mgrs flags -> JV t' pc todo mgrs flags.
Proof.
  intros S [A B C D E F H I K Lf]. constructor; auto.
  - intros q Hq. destruct (B q Hq) as (B1 & B2 & B3 & B4 & B5). destruct (S q B1) as [S1 S2].
    rewrite S1, S2. auto.
  - intros q Hq. destruct (C q Hq) as (C1 & C2). destruct (S q C1) as [S1 S2]. rewrite S1. auto.
  - intros q Hq. destruct (S q Hq) as [S1 S2]. rewrite S1. auto.
  - intros q Hq. destruct (S q Hq) as [S1 S2]. rewrite S2. auto.
  - intros q Hq Hp. destruct (C q Hq) as (C1 & C2). destruct (S q C1) as [S1 S2]. rewrite S1. auto.
  - intros q Hq. destruct (I q Hq) as [I1 I2]. split; auto.
    assert (In q R) by (apply K; subst; reflexivity). destruct (S q H0) as [S1 S2]. rewrite S1. auto.
Qed.

(* something was appended to q's channel, or q was taken out of the queue *)
Lemma JV_ext q t t' pc todo mgrs flags :
  ext_on q t t' -> JV t pc todo mgrs flags -> JV t' pc todo mgrs flags.
Proof.
  intros (X1 & X2 & X3 & X4) [A B C D E F H I K Lf]. constructor; auto.
  - intros q2 Hq. destruct (B q2 Hq) as (B1 & B2 & B3 & B4 & B5). repeat split; auto.
    + destruct (N.eq_dec q2 q) as [->|NE]; [auto|]. destruct (X4 q2 NE) as [S1 S2]. congruence.
    + destruct (N.eq_dec q2 q) as [->|NE].
      * destruct (wv q t') eqn:Wq; auto. rewrite (X3 eq_refl) in B3. discriminate.
      * destruct (X4 q2 NE) as [S1 S2]. congruence.
  - intros q2 Hq. destruct (C q2 Hq) as (C1 & C2). split; auto.
    destruct (N.eq_dec q2 q) as [->|NE].
    + destruct (cv q t) as [c|] eqn:Cq; [|congruence]. destruct (X1 c eq_refl) as [x Hx]. congruence.
    + destruct (X4 q2 NE) as [S1 S2]. congruence.
  - intros q2 Hq Hc. apply D; auto. destruct (N.eq_dec q2 q) as [->|NE].
    + intros Hn. apply Hc. auto.
    + destruct (X4 q2 NE) as [S1 S2]. congruence.
  - intros q2 Hq Hw. apply E; auto. destruct (N.eq_dec q2 q) as [->|NE]; [auto|].
    destruct (X4 q2 NE) as [S1 S2]. congruence.
  - intros q2 Hq Hp. destruct (F q2 Hq Hp) as (c & m & F1 & F2 & F3).
    destruct (N.eq_dec q2 q) as [->|NE].
    + destruct (X1 c F1) as [x Hx]. exists (c ++ x), m. repeat split; auto. apply in_or_app. auto.
    + destruct (X4 q2 NE) as [S1 S2]. exists c, m. repeat split; auto. congruence.
  - intros q2 Hq. destruct (I q2 Hq) as [I1 I2]. split; auto. intros c Hc.
    destruct (N.eq_dec q2 q) as [->|NE].
    + destruct (cv q t) as [c0|] eqn:Cq.
      * destruct (X1 c0 eq_refl) as [x Hx]. destruct (I2 c0 eq_refl) as [c' ->].
        rewrite Hx in Hc. inversion Hc; subst. exists (c' ++ x). reflexivity.
      * rewrite (X2 eq_refl) in Hc. discriminate.
    + destruct (X4 q2 NE) as [S1 S2]. apply I2. congruence.
Qed.

(* the puller admits q0 *)
Lemma JV_admit mx q0 t t' pc todo mgrs flags :
  G mx t' ->
  wv q0 t = true -> cv q0 t' = Some [READY; RUNNING] -> wv q0 t' = false ->
  (forall q, q <> q0 -> cv q t' = cv q t /\ wv q t' = wv q t) ->
  JV t pc todo mgrs flags -> JV t' pc todo mgrs flags.
Proof.
  intros g W0 C0 W0' Oth J. destruct (in_dec N.eq_dec q0 R) as [InR|NotR].
  2:{ apply (JV_same t); auto. intros q Hq. apply Oth. intros ->. auto. }
  destruct J as [A B C D E F H I K Lf].
  pose proof (E q0 InR W0) as PC. destruct (I q0 PC) as [I1 I2].
  constructor; auto.
  - intros q Hq. destruct (B q Hq) as (B1 & B2 & B3 & B4 & B5).
    assert (NE : q <> q0) by (intros ->; apply B5; rewrite PC; reflexivity).
    destruct (Oth q NE) as [S1 S2]. rewrite S1, S2. auto.
  - intros q Hq. destruct (C q Hq) as (C1 & C2). split; auto.
    assert (NE : q <> q0) by (intros ->; auto). destruct (Oth q NE) as [S1 S2]. congruence.
  - intros q Hq Hc. destruct (N.eq_dec q q0) as [->|NE]; [auto|].
    destruct (Oth q NE) as [S1 S2]. apply D; auto. congruence.
  - intros q Hq Hw. destruct (N.eq_dec q q0) as [->|NE]; [congruence|].
    destruct (Oth q NE) as [S1 S2]. apply E; auto. congruence.
  - intros q Hq Hp. assert (NE : q <> q0) by (intros ->; auto).
    destruct (Oth q NE) as [S1 S2]. rewrite S1. auto.
  - intros q Hq. rewrite PC in Hq. inversion Hq; subst q. split; auto.
    intros c Hc. rewrite C0 in Hc. inversion Hc; subst. eexists; reflexivity.
Qed.

(* the state manager of q takes a message that is not terminal *)
Lemma JV_recv q m c t t' pc todo mgrs flags :
  In q mgrs -> cv q t = Some (m :: c) -> is_terminal m = false ->
  cv q t' = Some c -> (forall q2, wv q2 t' = wv q2 t) -> (forall q2, q2 <> q -> cv q2 t' = cv q2 t) ->
  JV t pc todo mgrs flags -> JV t' pc todo mgrs flags.
Proof.
  intros Hm C0 NT C1 Ws Oth [A B C D E F H I K Lf]. constructor; auto.
  - intros q2 Hq. destruct (B q2 Hq) as (B1 & B2 & B3 & B4 & B5).
    assert (NE : q2 <> q) by (intros ->; auto). rewrite Ws, (Oth q2 NE). auto.
  - intros q2 Hq. destruct (C q2 Hq) as (C2 & C3). split; auto.
    destruct (N.eq_dec q2 q) as [->|NE]; [congruence|]. rewrite (Oth q2 NE). auto.
  - intros q2 Hq Hc. destruct (N.eq_dec q2 q) as [->|NE]; [auto|]. apply D; auto. rewrite <- (Oth q2 NE). auto.
  - intros q2 Hq Hw. apply E; auto. rewrite <- Ws. auto.
  - intros q2 Hq Hp. destruct (F q2 Hq Hp) as (c2 & m2 & F1 & F2 & F3).
    destruct (N.eq_dec q2 q) as [->|NE].
    + rewrite C0 in F1. inversion F1; subst c2. destruct F2 as [->|F2]; [congruence|].
      exists c, m2. auto.
    + exists c2, m2. rewrite (Oth q2 NE). auto.
  - intros q2 Hq. destruct (I q2 Hq) as [I1 I2]. split; auto.
    assert (NE : q2 <> q) by (intros ->; auto). rewrite (Oth q2 NE). auto.
Qed.

(* the state manager of q deletes the query and leaves (flags may grow) *)
Lemma JV_delete q t t' pc todo mgrs flags flags' :
  In q mgrs -> cv q t' = None -> (forall q2, wv q2 t' = wv q2 t) -> (forall q2, q2 <> q -> cv q2 t' = cv q2 t) ->
  (forall x, In x flags' -> x = q \/ In x flags) ->
  JV t pc todo mgrs flags -> JV t' pc todo (removeN q mgrs) flags'.
Proof.
  intros Hm C1 Ws Oth Fl [A B C D E F H I K Lf]. constructor; auto.
  - intros q2 Hq. destruct (B q2 Hq) as (B1 & B2 & B3 & B4 & B5).
    assert (NE : q2 <> q) by (intros ->; auto). rewrite Ws, (Oth q2 NE). repeat split; auto.
    rewrite removeN_In. tauto.
  - intros q2 Hq. apply removeN_In in Hq. destruct Hq as [Hq NE]. destruct (C q2 Hq) as (C2 & C3).
    rewrite (Oth q2 NE). auto.
  - intros q2 Hq Hc. destruct (N.eq_dec q2 q) as [->|NE]; [congruence|].
    rewrite (Oth q2 NE) in Hc. destruct (D q2 Hq Hc); auto. left. apply removeN_In. auto.
  - intros q2 Hq Hw. apply E; auto. rewrite <- Ws. auto.
  - intros q2 Hq Hp. apply removeN_In in Hq. destruct Hq as [Hq NE]. rewrite (Oth q2 NE). auto.
  - intros q2 Hq. rewrite removeN_In. intros [Hq2 NE]. destruct (Fl q2 Hq) as [->|Hf]; [auto|].
    apply (H q2 Hf). exact Hq2.
  - intros q2 Hq. destruct (I q2 Hq) as [I1 I2]. split; [rewrite removeN_In; tauto|].
    assert (NE : q2 <> q) by (intros ->; auto). rewrite (Oth q2 NE). auto.
  - intros q2 Hq. destruct (Fl q2 Hq) as [->|Hf]; [|auto]. split.
    + intros X. destruct (B q X) as (_ & _ & _ & B4 & _). auto.
    + intros X. destruct (I q X) as [I1 _]. auto.
Qed.

End Request.

Definition MInv (R : list N) (mx : nat) (s : mst) : Prop :=
  G mx (m_q s) /\ JV R (m_q s) (m_pc s) (m_todo s) (m_mgrs s) (m_flags s).

Lemma MInv_init R mx : NoDup R -> MInv R mx (minit R).
Proof.
  intros ND. split; [apply G_init|]. simpl. constructor; simpl; auto; try (intros; contradiction);
    try (intros; discriminate).
  intros q Hq. repeat split; auto. discriminate.
Qed.

Lemma run1 mx t a : run mx t [a] = fst (step mx t a).
Proof. reflexivity. Qed.
Lemma run2 mx t a b : run mx t [a; b] = fst (step mx (fst (step mx t a)) b).
Proof. reflexivity. Qed.
Lemma run0 mx t : run mx t [] = t.
Proof. reflexivity. Qed.

Lemma start_fresh_not_start t o : (forall q a f, o <> Start q a f) -> start_fresh t o.
Proof. intros H. destruct o; simpl; auto. exfalso. eapply H. reflexivity. Qed.

(* the executor leaves a selector without waiting for anything: every entry is then owned by a manager *)
Lemma JV_leave R t pc pc' todo todo' mgrs flags :
  (forall q, pc <> PWaitReady q) -> (forall q, pc' <> PWaitReady q) -> (forall q, pc' <> PApply q) ->
  (forall q, In q mgrs -> pc = PApply q -> exists c m, cv q t = Some c /\ In m c /\ is_terminal m = true) ->
  (forall q, In q todo' -> In q todo) -> NoDup todo' ->
  JV R t pc todo mgrs flags -> JV R t pc' todo' mgrs flags.
Proof.
  intros NW NW' NA' Pend Sub ND [A B C D E F H I K Lf]. constructor; auto.
  - intros q Hq. destruct (B q (Sub q Hq)) as (B1 & B2 & B3 & B4 & B5). repeat split; auto.
    destruct pc'; simpl; try discriminate; intros X; inversion X; subst;
      [eapply NW'|eapply NA']; reflexivity.
  - intros q Hq Hc. destruct (D q Hq Hc) as [|X]; auto. exfalso. eapply NW. exact X.
  - intros q Hq Hw. exfalso. eapply NW. apply (E q Hq Hw).
  - intros q Hq _. destruct pc; try (apply F; auto; discriminate).
    destruct (N.eq_dec q0 q) as [->|NE]; [apply Pend; auto|]. apply F; auto. congruence.
  - intros q Hq. exfalso. eapply NW'. exact Hq.
  - intros q Hq. destruct pc'; simpl in Hq; try discriminate; exfalso; [eapply NW'|eapply NA']; reflexivity.
  - intros q Hq. destruct (Lf q Hq) as [L1 L2]. split; [intros X; apply L1; auto|apply NW'].
Qed.

Theorem MInv_step R k mx s o : MInv R mx s -> MInv R mx (mstep true k R mx s o).
Proof.
  intros [g J]. unfold MInv, mstep. destruct s as [t pc todo mgrs flags]. cbn [m_q m_pc m_todo m_mgrs m_flags] in *.
  pose proof (g_w _ _ g) as W.
  destruct o as [|q|  |q|q|o'].
  - (* XStep *)
    unfold mdecide. cbn [m_q m_pc m_todo m_mgrs m_flags].
    destruct pc as [|q|q|r].
    + (* PStart *)
      destruct todo as [|q rest].
      * rewrite run0. cbn [m_q m_pc m_todo m_mgrs m_flags]. split; auto.
        eapply JV_leave; try eassumption; try discriminate; auto; try constructor.
      * pose proof J as J0. destruct J as [A B C D E F H I K Lf]. inversion A as [|x l Hni ND]; subst.
        destruct (B q (or_introl eq_refl)) as (B1 & B2 & B3 & B4 & B5).
        destruct (snd (step mx t (Start q false false))) eqn:OUT.
        2-7: (rewrite run0; cbn [m_q m_pc m_todo m_mgrs m_flags]; split; auto;
              eapply (JV_leave R t PStart _ (q :: rest)); try exact J0; try discriminate; auto;
              intros q2 Hq; right; auto).
        rewrite run1. cbn [m_q m_pc m_todo m_mgrs m_flags].
        destruct (step_start_ok mx t q W OUT) as (S1 & S2 & S3).
        split.
        { apply G_step; auto. simpl. rewrite in_table_app. rewrite (cv_none_in_table q t B2). exact B3. }
        set (t' := fst (step mx t (Start q false false))) in *.
        constructor; auto.
        -- intros q2 Hq. destruct (B q2 (or_intror Hq)) as (C1 & C2 & C3 & C4 & C5).
           assert (NE : q2 <> q) by (intros ->; auto). rewrite S1, (S3 q2 NE). repeat split; auto.
           simpl. congruence.
        -- intros q2 Hq. rewrite S1. auto.
        -- intros q2 Hq Hc. rewrite S1 in Hc. destruct (D q2 Hq Hc); auto. discriminate.
        -- intros q2 Hq Hw. destruct (N.eq_dec q2 q) as [->|NE]; [reflexivity|].
           rewrite (S3 q2 NE) in Hw. pose proof (E q2 Hq Hw). discriminate.
        -- intros q2 Hq _. rewrite S1. apply F; auto. discriminate.
        -- intros q2 Hq. inversion Hq; subst q2. split; auto. intros c Hc. rewrite S1 in Hc. congruence.
        -- intros q2 Hq. simpl in Hq. inversion Hq; subst. auto.
        -- intros q2 Hq. destruct (Lf q2 Hq) as [L1 L2]. split; [intros X; apply L1; right; auto|].
           intros X. inversion X; subst. apply L1. left; reflexivity.
    + (* PWaitReady q *)
      destruct J as [A B C D E F H I K Lf]. destruct (I q eq_refl) as [I1 I2].
      assert (InR : In q R) by (apply K; reflexivity).
      destruct (lookup q (running t)) as [e|] eqn:L.
      * assert (CV : cv q t = Some (e_chan e)) by (unfold cv; rewrite L; reflexivity).
        destruct (I2 _ CV) as [c' EC]. rewrite EC. rewrite run1. cbn [m_q m_pc m_todo m_mgrs m_flags].
        rewrite EC in CV. destruct (step_recv mx t q READY c' W CV) as (R1 & R2 & R3).
        split; [apply G_step; auto; apply start_fresh_not_start; discriminate|].
        set (t' := fst (step mx t (Recv q))) in *.
        pose proof (G_running_not_waiting mx t q _ g CV) as NWq.
        constructor; auto.
        -- intros q2 Hq. destruct (B q2 Hq) as (C1 & C2 & C3 & C4 & C5).
           assert (NE : q2 <> q) by (intros ->; apply C5; reflexivity).
           rewrite R2, (R3 q2 NE). repeat split; auto.
           intros [X|X]; [congruence|auto].
        -- intros q2 [<-|Hq]; [split; auto; congruence|]. destruct (C q2 Hq) as [C1 C2]. split; auto.
           destruct (N.eq_dec q2 q) as [->|NE]; [congruence|]. rewrite (R3 q2 NE). auto.
        -- intros q2 Hq Hc. destruct (N.eq_dec q2 q) as [->|NE]; [left; left; reflexivity|].
           rewrite (R3 q2 NE) in Hc. destruct (D q2 Hq Hc) as [|X]; [left; right; auto|congruence].
        -- intros q2 Hq Hw. rewrite R2 in Hw. pose proof (E q2 Hq Hw) as X. inversion X; subst. congruence.
        -- intros q2 [<-|Hq] Hp; [congruence|].
           assert (NE : q2 <> q) by (intros ->; auto). rewrite (R3 q2 NE). apply F; auto. discriminate.
        -- intros q2 Hq [X|X]; [subst q2; destruct (Lf q Hq) as [_ L2]; auto|]. apply (H q2 Hq X).
        -- intros q2 Hq. discriminate.
        -- intros q2 Hq. destruct (Lf q2 Hq) as [L1 L2]. split; auto. discriminate.
      * assert (CV : cv q t = None) by (unfold cv; rewrite L; reflexivity).
        destruct (in_table q (waiting t)) eqn:Wq.
        -- rewrite run0. cbn [m_q m_pc m_todo m_mgrs m_flags]. split; auto. constructor; auto.
        -- rewrite run0. cbn [m_q m_pc m_todo m_mgrs m_flags]. split; auto. constructor; auto.
           ++ intros q2 Hq. destruct (B q2 Hq) as (C1 & C2 & C3 & C4 & C5). repeat split; auto. discriminate.
           ++ intros q2 Hq Hc. destruct (D q2 Hq Hc) as [|X]; auto. inversion X; subst. congruence.
           ++ intros q2 Hq Hw. pose proof (E q2 Hq Hw) as X. inversion X; subst. unfold wv in Hw. congruence.
           ++ intros q2 Hq _. apply F; auto. discriminate.
           ++ intros q2 Hq. discriminate.
           ++ intros q2 Hq. discriminate.
           ++ intros q2 Hq. destruct (Lf q2 Hq) as [L1 L2]. split; auto. discriminate.
    + (* PApply q *)
      assert (InR : In q R) by (apply (j_cur _ _ _ _ _ _ J); reflexivity).
      assert (LEAVE : forall pc', (forall q2, pc' <> PWaitReady q2) -> (forall q2, pc' <> PApply q2) ->
                ~ In q mgrs -> JV R t pc' todo mgrs flags).
      { intros pc' N1 N2 NM. eapply (JV_leave R t (PApply q)); try eassumption; try discriminate; auto.
        - intros q2 Hq X. inversion X; subst. contradiction.
        - apply (j_todo_nd _ _ _ _ _ _ J). }
      assert (SEND : room_for q t = true -> forall pc', (forall q2, pc' <> PWaitReady q2) -> (forall q2, pc' <> PApply q2) ->
                G mx (fst (step mx t (Complete q))) /\ JV R (fst (step mx t (Complete q))) pc' todo mgrs flags).
      { intros RM pc' N1 N2. split; [apply G_step; auto; apply start_fresh_not_start; discriminate|].
        pose proof (step_complete_ext mx t q W) as X.
        pose proof (JV_ext R q _ _ _ _ _ _ X J) as J'.
        eapply (JV_leave R _ (PApply q)); try eassumption; try discriminate; auto.
        - intros q2 Hq Y. inversion Y; subst q2. destruct (j_mgr _ _ _ _ _ _ J q Hq) as [_ NN].
          destruct (cv q t) as [c|] eqn:Cq; [|congruence].
          rewrite (step_complete_room mx t q c W RM Cq). exists (c ++ [COMPLETE]), COMPLETE.
          repeat split; auto. apply in_or_app. right. left. reflexivity.
        - apply (j_todo_nd _ _ _ _ _ _ J). }
      destruct k.
      * (* ExecuteMetricsQuery *)
        destruct (room_for q t) eqn:RM; [|rewrite run0; split; auto].
        rewrite run1. cbn [m_q m_pc m_todo m_mgrs m_flags]. apply SEND; auto; discriminate.
      * (* ExecuteMultipleMetricsQuery *)
        destruct (memN q flags) eqn:FL.
        -- rewrite run0. cbn [m_q m_pc m_todo m_mgrs m_flags]. split; auto. apply LEAVE; try discriminate.
           apply (j_flag _ _ _ _ _ _ J). apply memN_In. exact FL.
        -- destruct (room_for q t) eqn:RM; [|rewrite run0; split; auto].
           rewrite run1. cbn [m_q m_pc m_todo m_mgrs m_flags]. apply SEND; auto; discriminate.
    + (* PDone *) rewrite run0. split; auto.
  - (* MStep q *)
    unfold mdecide. cbn [m_q m_pc m_todo m_mgrs m_flags].
    destruct (memN q mgrs) eqn:MM; [|rewrite run0; split; auto].
    apply memN_In in MM. rewrite chan_of_cv.
    destruct (j_mgr _ _ _ _ _ _ J q MM) as [InR NN]. destruct (cv q t) as [c|] eqn:Cq; [|congruence].
    destruct c as [|m c']; [rewrite run0; split; auto|].
    assert (RECV : is_terminal m = false ->
              G mx (fst (step mx t (Recv q))) /\ JV R (fst (step mx t (Recv q))) pc todo mgrs flags).
    { intros NT. split; [apply G_step; auto; apply start_fresh_not_start; discriminate|].
      destruct (step_recv mx t q m c' W Cq) as (R1 & R2 & R3). eapply JV_recv; eauto. }
    assert (DEL : forall flags', (forall x, In x flags' -> x = q \/ In x flags) ->
              G mx (fst (step mx (fst (step mx t (Recv q))) (Delete q))) /\
              JV R (fst (step mx (fst (step mx t (Recv q))) (Delete q))) pc todo (removeN q mgrs) flags').
    { intros flags' FS. destruct (step_recv mx t q m c' W Cq) as (R1 & R2 & R3).
      assert (g1 : G mx (fst (step mx t (Recv q)))) by (apply G_step; auto; apply start_fresh_not_start; discriminate).
      destruct (step_delete mx _ q c' (g_w _ _ g1) R1) as (D1 & D2 & D3).
      split; [apply G_step; auto; apply start_fresh_not_start; discriminate|].
      apply (JV_delete R q t _ pc todo mgrs flags flags'); auto.
      - intros q2. rewrite D2, R2. reflexivity.
      - intros q2 NE. rewrite (D3 q2 NE), (R3 q2 NE). reflexivity. }
    destruct m; try (rewrite run1; cbn [m_q m_pc m_todo m_mgrs m_flags]; apply RECV; reflexivity);
      rewrite run2; cbn [m_q m_pc m_todo m_mgrs m_flags]; apply DEL; intros x Hx; simpl in Hx; intuition.
  - (* EPull *)
    unfold mdecide. cbn [m_q m_pc m_todo m_mgrs m_flags]. rewrite run1.
    assert (g' : G mx (fst (step mx t Pull))) by (apply G_step; simpl; auto).
    split; auto. destruct (step_pull mx t g) as [S|(q0 & P1 & P2 & P3 & P4)].
    + eapply JV_same; eauto.
    + eapply JV_admit; eauto.
  - (* ECancel q *)
    unfold mdecide. cbn [m_q m_pc m_todo m_mgrs m_flags]. rewrite run1.
    split; [apply G_step; simpl; auto|]. eapply JV_ext; eauto. apply step_cancel_ext; auto.
  - (* EFire q *)
    unfold mdecide. cbn [m_q m_pc m_todo m_mgrs m_flags]. rewrite run1.
    split; [apply G_step; simpl; auto|]. eapply JV_ext; eauto. apply step_fire_ext; auto.
  - (* EOther o' *)
    unfold mdecide. cbn [m_q m_pc m_todo m_mgrs m_flags].
    destruct (other_ok R t o') eqn:OK; [|rewrite run0; split; auto]. rewrite run1.
    unfold other_ok in OK. destruct (op_qid o') as [q'|] eqn:OQ.
    + apply andb_true_iff in OK. destruct OK as [OK1 OK2]. apply negb_true_iff, memN_false in OK1.
      split.
      * apply G_step; auto. destruct o'; simpl; auto. simpl in OQ. inversion OQ; subst.
        apply negb_true_iff in OK2. exact OK2.
      * apply (JV_same R t); auto. intros q Hq. apply (step_other mx t o' q q'); auto. intros ->. auto.
    + destruct o'; simpl in OQ; try discriminate.
      assert (g' : G mx (fst (step mx t Pull))) by (apply G_step; simpl; auto).
      split; auto. destruct (step_pull mx t g) as [S|(q0 & P1 & P2 & P3 & P4)].
      * eapply JV_same; eauto.
      * eapply JV_admit; eauto.
Qed.

Theorem MInv_run R k mx ops : forall s, MInv R mx s -> MInv R mx (mrun true k R mx s ops).
Proof.
  unfold mrun. induction ops as [|o ops IH]; simpl; intros s I; auto. apply IH. apply MInv_step. exact I.
Qed.

Corollary MInv_reach R k mx ops : NoDup R -> MInv R mx (mrun true k R mx (minit R) ops).
Proof. intros ND. apply MInv_run, MInv_init. exact ND. Qed.

(* ------------------------------------------------------------------ *)
(* nothing of an answered request is left                              *)
(* ------------------------------------------------------------------ *)
Lemma clean_of_MInv R mx s : MInv R mx s -> answered s = true -> quiescent s = true -> clean R s = true.
Proof.
  intros [g J] AN QU. unfold answered in AN. destruct (m_pc s) as [| | |r] eqn:PC; try discriminate.
  assert (MG : m_mgrs s = []).
  { destruct (m_mgrs s) as [|q l] eqn:MG; auto. exfalso.
    destruct (j_pend _ _ _ _ _ _ J q (or_introl eq_refl)) as (c & m & C1 & C2 & C3); [discriminate|].
    unfold quiescent in QU. rewrite MG in QU. simpl in QU. apply andb_true_iff in QU. destruct QU as [QU _].
    rewrite chan_of_cv, C1 in QU. destruct c; [contradiction|discriminate]. }
  unfold clean. rewrite MG. simpl. apply forallb_forall. intros q Hq.
  assert (CN : cv q (m_q s) = None).
  { destruct (cv q (m_q s)) eqn:CQ; auto. exfalso.
    destruct (j_run _ _ _ _ _ _ J q Hq) as [X|X]; [congruence|rewrite MG in X; contradiction|discriminate]. }
  assert (WN : wv q (m_q s) = false).
  { destruct (wv q (m_q s)) eqn:WQ; auto. pose proof (j_wait _ _ _ _ _ _ J q Hq WQ). discriminate. }
  pose proof (cv_none_in_table _ _ CN) as RN. unfold wv in WN. rewrite RN, WN. simpl.
  apply negb_true_iff. unfold has_watcher. destruct (existsb (fun w => (snd w =? q)%N) (watchers (m_q s))) eqn:HW; auto.
  exfalso. apply existsb_exists in HW. destruct HW as [w [W1 W2]]. apply N.eqb_eq in W2.
  destruct (g_own _ _ g w W1) as [e [E1 [E2 E3]]].
  apply in_table_false in RN. apply RN. rewrite <- W2, <- E3. apply in_map. exact E1.
Qed.

(* for every request (one selector or many), every MAX_RUNNING_QUERIES and every schedule of the
   executor, the state managers, the puller, CancelQuery, timeouts and other queries: once the
   request has been answered and the managers wait on empty channels, no entry of any of its qids is
   in allRunningQueries or waitingQueries, no state manager and no timeout watcher of it is alive *)
Theorem metrics_no_leak R k mx ops : NoDup R ->
  let s := mrun true k R mx (minit R) ops in
  answered s = true -> quiescent s = true -> clean R s = true.
Proof. intros ND s. apply (clean_of_MInv R mx). apply MInv_reach. exact ND. Qed.

(* the first message an admitted metrics query reads is READY: "Did not receive ready state" is only
   ever the answer to a query that was cancelled while it waited for admission *)
Theorem metrics_not_ready_only_after_cancel_while_waiting R k mx ops q : NoDup R ->
  let s := mrun true k R mx (minit R) ops in
  m_pc s = PWaitReady q -> forall c, cv q (m_q s) = Some c -> exists c', c = READY :: c'.
Proof.
  intros ND s PC c Hc. destruct (MInv_reach R k mx ops ND) as [g J].
  destruct (j_head _ _ _ _ _ _ J q PC) as [_ H]. apply H. exact Hc.
Qed.

(* ---------- the managers do finish: as many steps as there are messages ---------- *)
Lemma mrun_app rule k R mx s a b : mrun rule k R mx s (a ++ b) = mrun rule k R mx (mrun rule k R mx s a) b.
Proof. unfold mrun. apply fold_left_app. Qed.

Lemma mstep_M_dead k R mx s q : memN q (m_mgrs s) = false -> mstep true k R mx s (MStep q) = s.
Proof. intros H. unfold mstep, mdecide. rewrite H. rewrite run0. destruct s; reflexivity. Qed.

Lemma mrun_M_dead k R mx n : forall s q, memN q (m_mgrs s) = false -> mrun true k R mx s (repeat (MStep q) n) = s.
Proof.
  induction n as [|n IH]; simpl; intros s q H; auto. unfold mrun in *. simpl.
  rewrite mstep_M_dead by exact H. apply IH. exact H.
Qed.

(* what the steps of q's manager do not touch *)
Definition same_but (q : N) (s s' : mst) : Prop :=
  m_pc s' = m_pc s /\
  (forall q2, q2 <> q -> cv q2 (m_q s') = cv q2 (m_q s)) /\
  (forall q2, q2 <> q -> (In q2 (m_mgrs s') <-> In q2 (m_mgrs s))) /\
  (In q (m_mgrs s') -> In q (m_mgrs s)).

Lemma same_but_refl q s : same_but q s s.
Proof. repeat split; auto. Qed.

Lemma same_but_trans q a b c : same_but q a b -> same_but q b c -> same_but q a c.
Proof.
  intros (A1 & A2 & A3 & A4) (B1 & B2 & B3 & B4). split; [congruence|]. split; [|split].
  - intros q2 NE. rewrite (B2 q2 NE). auto.
  - intros q2 NE. rewrite (B3 q2 NE). auto.
  - auto.
Qed.

Lemma mstep_M_same_but k R mx s q : MInv R mx s -> same_but q s (mstep true k R mx s (MStep q)).
Proof.
  intros [g J]. pose proof (g_w _ _ g) as W. unfold mstep, mdecide.
  destruct s as [t pc todo mgrs flags]. cbn [m_q m_pc m_todo m_mgrs m_flags] in *.
  destruct (memN q mgrs) eqn:MM; [|rewrite run0; apply same_but_refl].
  rewrite chan_of_cv. destruct (cv q t) as [c|] eqn:Cq; [|rewrite run0; apply same_but_refl].
  destruct c as [|m c']; [rewrite run0; apply same_but_refl|].
  destruct (step_recv mx t q m c' W Cq) as (R1 & R2 & R3).
  assert (g1 : G mx (fst (step mx t (Recv q)))) by (apply G_step; auto; apply start_fresh_not_start; discriminate).
  destruct (step_delete mx _ q c' (g_w _ _ g1) R1) as (D1 & D2 & D3).
  destruct m; (rewrite ?run1, ?run2; unfold same_but; cbn [m_q m_pc m_mgrs]; split; [reflexivity|]; split;
    [intros q2 NE; rewrite ?(D3 q2 NE), ?(R3 q2 NE); reflexivity|]; split;
    [intros q2 NE; try rewrite removeN_In; tauto|try rewrite removeN_In; tauto]).
Qed.

(* q's manager, with a terminal message among the n messages of its channel, is gone after n steps *)
Lemma manager_finishes k R mx n : forall s q c,
  MInv R mx s -> cv q (m_q s) = Some c -> length c = n ->
  (exists m, In m c /\ is_terminal m = true) ->
  let s' := mrun true k R mx s (repeat (MStep q) n) in
  ~ In q (m_mgrs s') /\ same_but q s s' /\ MInv R mx s'.
Proof.
  induction n as [|n IH]; intros s q c I Cq Len [m [M1 M2]].
  - destruct c; [contradiction|discriminate].
  - destruct c as [|m0 c']; [discriminate|]. simpl in Len. apply eq_add_S in Len. rename Len into Len'.
    simpl. unfold mrun. simpl. fold (mrun true k R mx (mstep true k R mx s (MStep q)) (repeat (MStep q) n)).
    pose proof (MInv_step R k mx s (MStep q) I) as I1.
    pose proof (mstep_M_same_but k R mx s q I) as SB1.
    destruct (memN q (m_mgrs s)) eqn:MM.
    2:{ rewrite mstep_M_dead by exact MM. rewrite mrun_M_dead by exact MM.
        split; [apply memN_false; exact MM|]. split; [apply same_but_refl|exact I]. }
    destruct (is_terminal m0) eqn:T0.
    + (* the manager acts on it and leaves *)
      assert (DEAD : memN q (m_mgrs (mstep true k R mx s (MStep q))) = false).
      { unfold mstep, mdecide. rewrite MM, chan_of_cv, Cq.
        destruct m0; try discriminate; cbn [m_mgrs]; apply memN_false; rewrite removeN_In; tauto. }
      rewrite mrun_M_dead by exact DEAD. split; [apply memN_false; exact DEAD|]. split; auto.
    + (* not terminal: one message less, the terminal one is still there *)
      destruct I as [g J]. pose proof (g_w _ _ g) as W.
      destruct (step_recv mx (m_q s) q m0 c' W Cq) as (R1 & R2 & R3).
      assert (Cq1 : cv q (m_q (mstep true k R mx s (MStep q))) = Some c').
      { unfold mstep, mdecide. rewrite MM, chan_of_cv, Cq.
        destruct m0; try discriminate; rewrite run1; cbn [m_q]; exact R1. }
      assert (M' : exists m, In m c' /\ is_terminal m = true).
      { exists m. split; auto. destruct M1 as [->|M1]; [congruence|exact M1]. }
      destruct (IH _ q c' I1 Cq1 Len' M') as (A1 & A2 & A3).
      split; [exact A1|]. split; [|exact A3]. eapply same_but_trans; eauto.
Qed.

Lemma answered_same_but q s s' : same_but q s s' -> answered s = true -> answered s' = true.
Proof. intros (A & _) H. unfold answered in *. rewrite A. exact H. Qed.

(* all managers of the list, one after the other *)
Lemma managers_finish k R mx : forall l s,
  MInv R mx s -> answered s = true ->
  forall s0, (forall q, In q l -> In q (m_mgrs s) -> cv q (m_q s0) = cv q (m_q s)) ->
  let s' := mrun true k R mx s (flat_map (fun q => repeat (MStep q) (length (chan_of q (m_q s0)))) l) in
  MInv R mx s' /\ answered s' = true /\
  (forall q, In q (m_mgrs s') -> In q (m_mgrs s) /\ ~ In q l).
Proof.
  induction l as [|q l IH]; intros s I AN s0 CV.
  - simpl. split; auto.
  - simpl. rewrite mrun_app. set (n := length (chan_of q (m_q s0))).
    assert (STEP : let s1 := mrun true k R mx s (repeat (MStep q) n) in
              ~ In q (m_mgrs s1) /\ same_but q s s1 /\ MInv R mx s1).
    { destruct (memN q (m_mgrs s)) eqn:MM.
      - apply memN_In in MM. destruct I as [g J].
        assert (PA : m_pc s <> PApply q) by (unfold answered in AN; destruct (m_pc s); discriminate).
        destruct (j_pend _ _ _ _ _ _ J q MM PA) as (c & m & C1 & C2 & C3).
        apply (manager_finishes k R mx n s q c); [split; auto|exact C1| |exists m; auto].
        unfold n. rewrite chan_of_cv, (CV q (or_introl eq_refl) MM), C1. reflexivity.
      - rewrite mrun_M_dead by exact MM. split; [apply memN_false; exact MM|]. split; [apply same_but_refl|exact I]. }
    destruct STEP as (S1 & S2 & S3). set (s1 := mrun true k R mx s (repeat (MStep q) n)) in *.
    destruct S2 as (B1 & B2 & B3 & B4).
    assert (AN1 : answered s1 = true) by (unfold answered in *; rewrite B1; exact AN).
    destruct (IH s1 S3 AN1 s0) as (C1 & C2 & C3).
    + intros q2 Hq Hm. destruct (N.eq_dec q2 q) as [->|NE]; [contradiction|].
      rewrite (B2 q2 NE). apply CV; [right; exact Hq|]. apply B3; auto.
    + split; auto. split; auto. intros q2 Hq. destruct (C3 q2 Hq) as [D1 D2].
      destruct (N.eq_dec q2 q) as [->|NE]; [contradiction|]. split; [apply B3; auto|].
      intros [X|X]; [congruence|contradiction].
Qed.

(* for every schedule: once the request has been answered, letting every live state manager take
   the messages that are in its channel (no other step is needed) leaves nothing of the request *)
Theorem metrics_managers_finish R k mx ops : NoDup R ->
  let s := mrun true k R mx (minit R) ops in
  answered s = true -> clean R (mrun true k R mx s (drain_ops s)) = true.
Proof.
  intros ND s AN. pose proof (MInv_reach R k mx ops ND) as I. fold s in I.
  pose proof (managers_finish k R mx (m_mgrs s) s I AN s (fun q _ _ => eq_refl)) as MF.
  unfold drain_ops.
  set (s' := mrun true k R mx s (flat_map (fun q => repeat (MStep q) (length (chan_of q (m_q s)))) (m_mgrs s))) in *.
  destruct MF as (A & B & C).
  apply (clean_of_MInv R mx); auto.
  unfold quiescent. destruct (m_mgrs s') as [|q l] eqn:MG; auto.
  exfalso. destruct (C q) as [X Y]; [left; reflexivity|]. contradiction.
Qed.

(* ------------------------------------------------------------------ *)
(* the tables of a metrics run are tables of a QueryLife run           *)
(* ------------------------------------------------------------------ *)
Lemma mstep_q rule k R mx s o :
  m_q (mstep rule k R mx s o) = run mx (m_q s) (mtrace_step rule k R mx s o).
Proof.
  unfold mstep, mtrace_step. destruct (mdecide rule k R mx s o) as [[[[tops pc] todo] mg] fl]. reflexivity.
Qed.

Lemma mrun_q rule k R mx ops : forall s,
  m_q (mrun rule k R mx s ops) = run mx (m_q s) (mtrace rule k R mx s ops).
Proof.
  induction ops as [|o ops IH]; simpl; intros s; [reflexivity|].
  unfold mrun in *. simpl. rewrite IH, mstep_q, <- run_app. reflexivity.
Qed.

Theorem metrics_tables_are_query_tables rule k R mx ops :
  m_q (mrun rule k R mx (minit R) ops) = run mx init (mtrace rule k R mx (minit R) ops).
Proof. apply mrun_q. Qed.

(* hence every theorem about QueryLife.run holds for the tables of a metrics run; in particular the
   admission limit and the queue limit, whatever the state managers do (even the variant rule = false) *)
Theorem metrics_admission_bound rule k R mx ops :
  nonforced (running (m_q (mrun rule k R mx (minit R) ops))) <= mx /\
  length (waiting (m_q (mrun rule k R mx (minit R) ops))) <= MAX_WAITING.
Proof. rewrite metrics_tables_are_query_tables. split; [apply admission_bound|apply waiting_bound]. Qed.

(* ------------------------------------------------------------------ *)
(* the variant "on CANCELLED / TIMEOUT only flag the query and keep listening" (rule = false)        *)
(* ------------------------------------------------------------------ *)
(* `a + b` (qids 7, 8), MAX_RUNNING_QUERIES = 1: admitted, READY read, manager started, RUNNING read;
   CancelQuery(7); the manager flags the query; the search notices the flag and the executor returns
   "query is cancelled" before SendQueryStateComplete *)
Definition leak_cancel : list mop := [XStep; EPull; XStep; MStep 7; ECancel 7; MStep 7; XStep].
Definition leak_timeout : list mop := [XStep; EPull; XStep; MStep 7; EFire 7; MStep 7; MStep 7; XStep].

Theorem flag_only_manager_leaks_refuted :
  forall w, w = leak_cancel \/ w = leak_timeout ->
  let s := mrun false KMulti [7; 8]%N 1 (minit [7; 8]%N) w in
  m_pc s = PDone RCancelled /\ quiescent s = true /\ clean [7; 8]%N s = false /\
  in_table 7 (running (m_q s)) = true /\ m_mgrs s = [7%N] /\
  (* the admission slot is never given back: a later query of anybody stays in the queue *)
  let s2 := mrun false KMulti [7; 8]%N 1 s (drain_ops s ++ [EOther (Start 9 false false); EPull; EPull]) in
  in_table 9 (waiting (m_q s2)) = true /\ in_table 9 (running (m_q s2)) = false.
Proof. intros w [->| ->]; vm_compute; repeat split; reflexivity. Qed.

(* the same two schedules under the code (rule = true): answered as cancelled, quiescent, clean; the
   hypotheses of metrics_no_leak are satisfiable *)
Theorem metrics_no_leak_witnesses :
  forall w, w = leak_cancel \/ w = leak_timeout ->
  let s := mrun true KMulti [7; 8]%N 1 (minit [7; 8]%N) w in
  m_pc s = PDone RCancelled /\ quiescent s = true /\ clean [7; 8]%N s = true /\
  let s2 := mrun true KMulti [7; 8]%N 1 s [EOther (Start 9 false false); EPull] in
  in_table 9 (running (m_q s2)) = true.
Proof. intros w [->| ->]; vm_compute; repeat split; reflexivity. Qed.

(* with one selector through ExecuteMetricsQuery the variant does no harm on these schedules: the
   executor always sends COMPLETE; the defect needs the early return of ExecuteMultipleMetricsQuery *)
Theorem flag_only_manager_single_selector_witness :
  let s := mrun false KSingle [7%N] 1 (minit [7%N]) leak_cancel in
  let s' := mrun false KSingle [7%N] 1 s (drain_ops s) in
  m_pc s = PDone RCancelled /\ clean [7%N] s' = true.
Proof. vm_compute. repeat split; reflexivity. Qed.

(* the same in terms of the model only *)
Theorem metrics_first_message_is_ready R k mx ops q e : NoDup R ->
  let s := mrun true k R mx (minit R) ops in
  m_pc s = PWaitReady q -> lookup q (running (m_q s)) = Some e -> exists c', e_chan e = READY :: c'.
Proof.
  intros ND s PC L. apply (metrics_not_ready_only_after_cancel_while_waiting R k mx ops q ND PC).
  unfold cv. fold s. rewrite L. reflexivity.
Qed.

(* ------------------------------------------------------------------ *)
(* rule = false: what is left behind stays for ever                    *)
(* ------------------------------------------------------------------ *)
Definition nonfinal (m : msg) : Prop := m <> COMPLETE /\ m <> ERROR.

(* the request has been answered, only q0's manager may be alive, q0 has an entry in the running table
   and no COMPLETE / ERROR is on its way: nobody will ever call DeleteQuery(q0) *)
Definition Stuck (R : list N) (mx : nat) (q0 : N) (s : mst) : Prop :=
  G mx (m_q s) /\ answered s = true /\ In q0 R /\ (forall q, In q (m_mgrs s) -> q = q0) /\
  exists c, cv q0 (m_q s) = Some c /\ Forall nonfinal c.

Lemma cancel_nonfinal q q0 t c : cv q0 t = Some c -> Forall nonfinal c ->
  exists c', cv q0 (cancel q t) = Some c' /\ Forall nonfinal c'.
Proof.
  intros Cq F. destruct (N.eq_dec q0 q) as [->|NE].
  - unfold cancel, cv in *. destruct (lookup q (running t)) as [e|] eqn:L; [|discriminate].
    cbn [running]. rewrite lookup_upd_qid by (apply keeps_qid, keeps_cancel_entry). rewrite L. simpl in *.
    inversion Cq; subst. unfold cancel_entry. destruct (has_room e); simpl.
    + eexists. split; [reflexivity|]. apply Forall_app. split; auto. constructor; [unfold nonfinal; split; discriminate|constructor].
    + eexists. split; [reflexivity|]. exact F.
  - destruct (cancel_ext q t) as (_ & _ & _ & X). destruct (X q0 NE) as [X1 _]. exists c. rewrite X1. auto.
Qed.

Lemma Stuck_step R k mx q0 s o : Stuck R mx q0 s -> Stuck R mx q0 (mstep false k R mx s o).
Proof.
  intros (g & AN & InR & MG & c & Cq & F). unfold Stuck, mstep.
  destruct s as [t pc todo mgrs flags]. cbn [m_q m_pc m_todo m_mgrs m_flags] in *.
  pose proof (g_w _ _ g) as W. unfold answered in AN. cbn [m_pc] in AN.
  destruct pc as [| | |r]; try discriminate.
  assert (SAME : G mx t /\ answered (mkM t (PDone r) todo mgrs flags) = true /\ In q0 R /\
                 (forall q, In q mgrs -> q = q0) /\ exists c, cv q0 t = Some c /\ Forall nonfinal c).
  { split; [exact g|]. split; [reflexivity|]. split; [exact InR|]. split; [exact MG|]. exists c. auto. }
  destruct o as [|q|  |q|q|o']; unfold mdecide; cbn [m_q m_pc m_todo m_mgrs m_flags].
  - rewrite run0. exact SAME.
  - destruct (memN q mgrs) eqn:MM; [|rewrite run0; exact SAME].
    apply memN_In in MM. pose proof (MG q MM) as ->. rewrite chan_of_cv, Cq.
    destruct c as [|m c']; [rewrite run0; exact SAME|].
    inversion F as [|x l [F1 F2] F']; subst.
    destruct (step_recv mx t q0 m c' W Cq) as (R1 & R2 & R3).
    assert (g1 : G mx (fst (step mx t (Recv q0)))) by (apply G_step; auto; apply start_fresh_not_start; discriminate).
    destruct m; try congruence; rewrite run1; cbn [m_q m_pc m_todo m_mgrs m_flags];
      (split; [exact g1|]; split; [reflexivity|]; split; [exact InR|]; split; [exact MG|]; exists c'; auto).
  - rewrite run1. cbn [m_q m_pc m_todo m_mgrs m_flags].
    split; [apply G_step; simpl; auto|]. split; [reflexivity|]. split; [exact InR|]. split; [exact MG|].
    destruct (step_pull mx t g) as [S|(q1 & P1 & P2 & P3 & P4)].
    + exists c. rewrite (proj1 (S q0)). auto.
    + destruct (N.eq_dec q0 q1) as [->|NE].
      * exists [READY; RUNNING]. split; [exact P2|]. repeat (constructor; [unfold nonfinal; split; discriminate|]); constructor.
      * exists c. rewrite (proj1 (P4 q0 NE)). auto.
  - rewrite run1. cbn [m_q m_pc m_todo m_mgrs m_flags].
    split; [apply G_step; simpl; auto|]. split; [reflexivity|]. split; [exact InR|]. split; [exact MG|].
    unfold step. rewrite W. cbn [fst]. apply (cancel_nonfinal q q0 t c); auto.
  - rewrite run1. cbn [m_q m_pc m_todo m_mgrs m_flags].
    split; [apply G_step; simpl; auto|]. split; [reflexivity|]. split; [exact InR|]. split; [exact MG|].
    unfold step. rewrite W.
    destruct (remove_watcher_q q (watchers t)) as [[wt|] ws]; cbn [fst]; [|exists c; auto].
    destruct (lookup q (running t)) as [e|] eqn:L; cbn [fst].
    + destruct (has_room e); cbn [fst]; [|exists c; auto].
      set (t1 := mkS (upd_qid q (push TIMEOUT) (running t)) (waiting t) ws (dead t) (admitted t) (nser t) false).
      assert (C1 : exists c1, cv q0 t1 = Some c1 /\ Forall nonfinal c1).
      { destruct (N.eq_dec q0 q) as [->|NE].
        - unfold cv, t1 in *. cbn [running]. rewrite lookup_upd_qid by reflexivity. rewrite L in *. simpl in *.
          inversion Cq; subst. eexists. split; [reflexivity|]. apply Forall_app. split; auto.
          constructor; [unfold nonfinal; split; discriminate|constructor].
        - exists c. unfold cv, t1 in *. cbn [running]. rewrite lookup_upd_other; auto. }
      destruct C1 as (c1 & C1 & F1). apply (cancel_nonfinal q q0 t1 c1); auto.
    + exists c. unfold cv in *. cbn [running]. auto.
  - destruct (other_ok R t o') eqn:OK; [|rewrite run0; exact SAME]. rewrite run1.
    cbn [m_q m_pc m_todo m_mgrs m_flags]. unfold other_ok in OK. destruct (op_qid o') as [q'|] eqn:OQ.
    + apply andb_true_iff in OK. destruct OK as [OK1 OK2]. apply negb_true_iff, memN_false in OK1.
      split.
      { apply G_step; auto. destruct o'; simpl; auto. simpl in OQ. inversion OQ; subst.
        apply negb_true_iff in OK2. exact OK2. }
      split; [reflexivity|]. split; [exact InR|]. split; [exact MG|]. exists c.
      assert (NE : q0 <> q') by (intros ->; auto).
      rewrite (proj1 (step_other mx t o' q0 q' W OQ NE)). auto.
    + destruct o'; simpl in OQ; try discriminate.
      split; [apply G_step; simpl; auto|]. split; [reflexivity|]. split; [exact InR|]. split; [exact MG|].
      destruct (step_pull mx t g) as [S|(q1 & P1 & P2 & P3 & P4)].
      * exists c. rewrite (proj1 (S q0)). auto.
      * destruct (N.eq_dec q0 q1) as [->|NE].
        -- exists [READY; RUNNING]. split; [exact P2|]. repeat (constructor; [unfold nonfinal; split; discriminate|]); constructor.
        -- exists c. rewrite (proj1 (P4 q0 NE)). auto.
Qed.

Lemma Stuck_run R k mx q0 ops : forall s, Stuck R mx q0 s -> Stuck R mx q0 (mrun false k R mx s ops).
Proof.
  unfold mrun. induction ops as [|o ops IH]; simpl; intros s H; auto. apply IH. apply Stuck_step. exact H.
Qed.

Lemma G_of_live_fresh mx ops : live_fresh mx init ops = true -> G mx (run mx init ops).
Proof.
  intros LF. destruct (live_fresh_reach mx ops LF) as [D O].
  constructor; auto; [apply Inv_reach|apply no_send_on_full_channel_under_lock].
Qed.

(* after either of the two schedules, under the variant: WHATEVER happens later (any schedule, any
   further cancels, timeouts, pulls, traffic of other queries), the entry of qid 7 is still in
   allRunningQueries; with MAX_RUNNING_QUERIES = 1 canRunQuery() is false for good *)
Theorem flag_only_manager_entry_stays_forever : forall w ops,
  w = leak_cancel \/ w = leak_timeout ->
  let s := mrun false KMulti [7; 8]%N 1 (minit [7; 8]%N) (w ++ ops) in
  in_table 7 (running (m_q s)) = true /\ answered s = true /\
  Nat.ltb (length (running (m_q s))) 1 = false.
Proof.
  intros w ops Hw s.
  assert (ST : Stuck [7; 8]%N 1 7%N (mrun false KMulti [7; 8]%N 1 (minit [7; 8]%N) w)).
  { unfold Stuck. split.
    - rewrite mrun_q. apply G_of_live_fresh. destruct Hw as [->| ->]; vm_compute; reflexivity.
    - split; [destruct Hw as [->| ->]; vm_compute; reflexivity|]. split; [left; reflexivity|]. split.
      + destruct Hw as [->| ->]; vm_compute; intros q [<-|[]]; reflexivity.
      + destruct Hw as [->| ->]; vm_compute; eexists; (split; [reflexivity|constructor]). }
  unfold s. rewrite mrun_app. apply (Stuck_run _ KMulti _ _ ops) in ST.
  destruct ST as (g & AN & _ & _ & c & Cq & _). pose proof (cv_some_in_table _ _ _ Cq) as IT.
  split; [exact IT|]. split; [exact AN|].
  apply Nat.ltb_ge. apply in_table_iff in IT. apply in_map_iff in IT. destruct IT as [e [_ He]].
  destruct (running (m_q (mrun false KMulti [7; 8]%N 1 (mrun false KMulti [7; 8]%N 1 (minit [7; 8]%N) w) ops)));
    [contradiction|simpl; lia].
Qed.

(* MetricsPlanProofs.v — a selector query planned on one state of a metrics shard and executed on a later one
   (model: SigM.MetricsPlan).  Main results:
     race_complete              every datapoint the shard held when the requests were built is returned, for ANY
                                sequence of ingests / block rotations / segment rotations / forced flushes between
                                building and executing (the code: segment-aware fix-up)
     race_complete_prefix_guarded    the block-number-only fix-up (before fix 5fd2cca) under its exact guard
     race_sound                 whatever is returned was accepted (any plan, either order of fix-up and hand-over)
     late_fixup_refuted         handing the block numbers to the workers BEFORE the fix-up loses a block
     prefix_segment_race_refuted     the block-number-only fix-up loses a block across a segment rotation *)
From Coq Require Import List NArith Lia Bool.
From SigM Require Import Base MetricsPlan.
From SigP Require Import BaseProofs.
Import ListNotations.
Open Scope N_scope.

(* ---------- well-formed states: a flushed block belongs to the open segment or to a closed, listed one ---------- *)
Definition wf (s : st) : Prop :=
  Forall (fun e => e_suf e = suf s \/ In (e_suf e) (meta s)) (disk s).

Lemma wf_init : wf init.
Proof. constructor. Qed.

Lemma rot_block_cases s :
  (mem s = [] /\ rot_block s = s) \/
  (mem s <> [] /\ rot_block s = mkSt (disk s ++ [(suf s, cur s, mem s)]) (meta s) (suf s) (cur s + 1) []).
Proof. unfold rot_block. destruct (mem s) eqn:E; [left|right]; split; auto. discriminate. Qed.

Lemma rot_block_mem s : mem (rot_block s) = [].
Proof. destruct (rot_block_cases s) as [[E ->]|[_ ->]]; auto. Qed.

Lemma wf_rot_block s : wf s -> wf (rot_block s).
Proof.
  intros W. destruct (rot_block_cases s) as [[_ ->]|[_ ->]]; auto.
  unfold wf in *. cbn. apply Forall_app. split; auto.
Qed.

Lemma wf_step s o : wf s -> wf (step s o).
Proof.
  intros W. destruct o; cbn [step]; try (apply wf_rot_block; assumption).
  - exact W.
  - unfold rot_seg. pose proof (wf_rot_block s W) as W1. destruct (seg_has_data (rot_block s)); auto.
    unfold wf in *. cbn. eapply Forall_impl; [|exact W1]. cbn. intros e [H|H].
    + right. apply in_or_app. right. left. auto.
    + right. apply in_or_app. left. exact H.
Qed.

Lemma wf_run ops : forall s, wf s -> wf (run ops s).
Proof. induction ops as [|o ops IH]; intros s W; cbn; auto. apply IH, wf_step, W. Qed.

(* ---------- reading blocks ---------- *)
Lemma read_blk_app d d' f b : read_blk (d ++ d') f b = read_blk d f b ++ read_blk d' f b.
Proof. unfold read_blk. now rewrite filter_app, map_app, concat_app. Qed.

Lemma read_blk_in d e x : In e d -> In x (e_ids e) -> In x (read_blk d (e_suf e) (e_blk e)).
Proof.
  intros He Hx. unfold read_blk. apply in_concat. exists (e_ids e). split; auto.
  apply in_map. apply filter_In. split; auto. now rewrite !N.eqb_refl.
Qed.

Lemma read_blk_sub d f b x : In x (read_blk d f b) -> In x (concat (map e_ids d)).
Proof.
  unfold read_blk. intros H. apply in_concat in H. destruct H as [l [Hl Hx]].
  apply in_map_iff in Hl. destruct Hl as [e [<- He]]. apply filter_In in He.
  apply in_concat. exists (e_ids e). split; auto. apply in_map. tauto.
Qed.

Lemma blocks_of_in d e : In e d -> In (e_blk e) (blocks_of d (e_suf e)).
Proof. intros H. unfold blocks_of. apply in_map. apply filter_In. split; auto. apply N.eqb_refl. Qed.

(* ---------- what a later state keeps of the state the plan was built on ---------- *)
Definition pos_lt (f b f' b' : N) : Prop := f < f' \/ (f = f' /\ b < b').

Definition rel (s t : st) : Prop :=
  exists new, disk t = disk s ++ new /\
    ((suf t = suf s /\ cur t = cur s /\ incl (mem s) (mem t))
     \/ (incl (mem s) (read_blk new (suf s) (cur s)) /\ pos_lt (suf s) (cur s) (suf t) (cur t))).

Lemma rel_refl s : rel s s.
Proof. exists []. split; [now rewrite app_nil_r|]. left. repeat split; auto. apply incl_refl. Qed.

Lemma rel_rot_block s t : rel s t -> rel s (rot_block t).
Proof.
  intros [new [D R]]. destruct (rot_block_cases t) as [[_ ->]|[Hm ->]]; [exists new; auto|].
  exists (new ++ [(suf t, cur t, mem t)]). cbn. split; [rewrite D; now rewrite app_assoc|].
  right. destruct R as [[Hs [Hc Hi]]|[Hi Hp]].
  - split.
    + rewrite read_blk_app. apply incl_appr. unfold read_blk. cbn. unfold e_suf, e_blk. cbn.
      rewrite Hs, Hc, !N.eqb_refl. cbn. rewrite app_nil_r. exact Hi.
    + right. split; auto. lia.
  - split.
    + rewrite read_blk_app. apply incl_appl. exact Hi.
    + destruct Hp as [Hp|[Hp1 Hp2]]; [left; auto|right; split; auto; lia].
Qed.

Lemma rel_step s t o : rel s t -> rel s (step t o).
Proof.
  intros R. destruct o; cbn [step]; try (apply rel_rot_block; assumption).
  - destruct R as [new [D R]]. exists new. cbn. split; auto.
    destruct R as [[Hs [Hc Hi]]|R]; [left|right; auto]. repeat split; auto. apply incl_appl. exact Hi.
  - unfold rot_seg. pose proof (rel_rot_block s t R) as R1. pose proof (rot_block_mem t) as M1.
    destruct (seg_has_data (rot_block t)); auto.
    destruct R1 as [new [D R1]]. exists new. cbn. split; auto. right.
    destruct R1 as [[Hs [Hc Hi]]|[Hi Hp]].
    + split.
      * rewrite M1 in Hi. eapply incl_tran; [exact Hi|]. apply incl_nil_l.
      * left. lia.
    + split; auto. left. destruct Hp as [Hp|[Hp _]]; lia.
Qed.

Lemma rel_run ops : forall s t, rel s t -> rel s (run ops t).
Proof. induction ops as [|o ops IH]; intros s t R; cbn; auto. apply IH, rel_step, R. Qed.

Lemma suf_rot_block s : suf (rot_block s) = suf s.
Proof. destruct (rot_block_cases s) as [[_ ->]|[_ ->]]; auto. Qed.

Lemma suf_run_noseg ops : forall s, no_seg_rotation ops = true -> suf (run ops s) = suf s.
Proof.
  induction ops as [|o ops IH]; intros s H; cbn; auto.
  cbn in H. apply andb_true_iff in H. destruct H as [Ho H]. rewrite IH by exact H.
  destruct o; cbn; auto using suf_rot_block. discriminate.
Qed.

(* ---------- completeness ---------- *)
Lemma in_exec late sa pl t r x : In r pl -> In x (exec_req late sa t r) -> In x (exec_gen late sa pl t).
Proof. intros Hr Hx. unfold exec_gen. apply in_concat. exists (exec_req late sa t r). split; auto. now apply in_map. Qed.

Lemma open_req_planned s :
  blocks_of (disk s) (suf s) <> [] \/ mem s <> [] ->
  In (mkReq true (suf s) (blocks_of (disk s) (suf s)) (match mem s with [] => [] | _ => [cur s] end)) (plan s).
Proof.
  intros H. unfold plan. apply in_or_app. right.
  destruct (blocks_of (disk s) (suf s)) eqn:B; destruct (mem s) eqn:M; cbn; auto.
  destruct H as [H|H]; congruence.
Qed.

(* both comparisons at once: the segment-aware fix-up (the code) needs no condition, the block-number-only fix-up
   needs race_guard *)
Theorem race_complete_gen : forall sa s ops, wf s -> sa = true \/ race_guard s (run ops s) = true ->
  forall x, In x (all_ids s) -> In x (exec_gen false sa (plan s) (run ops s)).
Proof.
  intros sa s ops W G x Hx. set (t := run ops s) in *.
  assert (R : rel s t) by (apply rel_run, rel_refl).
  destruct R as [new [D R]].
  unfold all_ids in Hx. apply in_app_or in Hx. destruct Hx as [Hx|Hx].
  - (* a flushed block *)
    apply in_concat in Hx. destruct Hx as [l [Hl Hx]]. apply in_map_iff in Hl. destruct Hl as [e [<- He]].
    assert (Het : In e (disk t)) by (rewrite D; apply in_or_app; auto).
    unfold wf in W. rewrite Forall_forall in W. destruct (W e He) as [Hs|Hs].
    + (* of the open segment *)
      eapply in_exec.
      * apply open_req_planned. left. intros E. pose proof (blocks_of_in (disk s) e He) as B.
        rewrite Hs, E in B. exact B.
      * unfold exec_req. cbn. apply in_or_app. right. apply in_concat.
        exists (read_blk (disk t) (suf s) (e_blk e)). split.
        -- apply in_map. unfold fixup. cbn.
           pose proof (blocks_of_in (disk s) e He) as B. rewrite Hs in B.
           destruct (_ && _); auto. apply in_or_app. auto.
        -- rewrite <- Hs. apply read_blk_in; auto.
    + (* of a closed segment *)
      eapply in_exec.
      * unfold plan. apply in_or_app. left. apply in_map_iff.
        exists (e_suf e). split; [reflexivity|exact Hs].
      * unfold exec_req. cbn. apply in_concat.
        exists (read_blk (disk t) (e_suf e) (e_blk e)). split.
        -- apply in_map. apply blocks_of_in. exact He.
        -- apply read_blk_in; auto.
  - (* the in-memory block *)
    assert (Hm : mem s <> []) by (intros E; rewrite E in Hx; exact Hx).
    eapply in_exec; [apply open_req_planned; right; exact Hm|].
    unfold exec_req. cbn. destruct R as [[Hs [Hc Hi]]|[Hi Hp]].
    + apply in_or_app. left. apply Hi, Hx.
    + apply in_or_app. right.
      assert (Hne : (cur t =? cur s) && (negb sa || (suf s =? suf t)) = false).
      { destruct G as [G|G].
        - subst sa. cbn. destruct Hp as [Hp|[Hp1 Hp2]].
          + apply andb_false_iff. right. apply N.eqb_neq. lia.
          + apply andb_false_iff. left. apply N.eqb_neq. lia.
        - apply andb_false_iff. left.
          unfold race_guard in G. destruct (mem s) eqn:M; [congruence|].
          rewrite orb_false_r in G. apply orb_true_iff in G. destruct G as [G|G].
          + apply N.eqb_eq in G. destruct Hp as [Hp|[_ Hp]]; [lia|]. apply N.eqb_neq. lia.
          + now apply negb_true_iff in G. }
      unfold fixup. cbn. destruct (mem s) eqn:M; [congruence|]. cbn. rewrite orb_false_r. rewrite Hne. cbn.
      apply in_concat. exists (read_blk (disk t) (suf s) (cur s)). split.
      * apply in_map. apply in_or_app. right. left. reflexivity.
      * rewrite D, read_blk_app. apply in_or_app. right. apply Hi.
        first [exact Hx | rewrite M; exact Hx | rewrite <- M; exact Hx].
Qed.

(* the code: any operations between building and executing the requests *)
Theorem race_complete : forall s ops, wf s ->
  forall x, In x (all_ids s) -> In x (exec false (plan s) (run ops s)).
Proof. intros s ops W. apply race_complete_gen; auto. Qed.

(* stated over histories: any operations before the plan, any operations between plan and execution *)
Theorem race_complete_histories : forall before between,
  let s := run before init in
  forall x, In x (all_ids s) -> In x (exec false (plan s) (run between s)).
Proof. intros before between s. apply race_complete. apply wf_run, wf_init. Qed.

(* the block-number-only comparison, under its exact guard *)
Theorem race_complete_prefix_guarded : forall before between,
  let s := run before init in
  race_guard s (run between s) = true ->
  forall x, In x (all_ids s) -> In x (exec_prefix (plan s) (run between s)).
Proof. intros before between s G. apply race_complete_gen; auto. apply wf_run, wf_init. Qed.

(* ---------- soundness: nothing is returned that the shard does not hold ---------- *)
Theorem race_sound_gen : forall late sa pl t x, In x (exec_gen late sa pl t) -> In x (all_ids t).
Proof.
  intros late sa pl t x H. unfold exec_gen in H. apply in_concat in H. destruct H as [l [Hl Hx]].
  apply in_map_iff in Hl. destruct Hl as [r [<- _]]. unfold all_ids, exec_req in *.
  assert (K : forall bs, In x (concat (map (read_blk (disk t) (r_suf r)) bs)) -> In x (concat (map e_ids (disk t)))).
  { intros bs Hb. apply in_concat in Hb. destruct Hb as [l [Hl Hb]]. apply in_map_iff in Hl.
    destruct Hl as [b [<- _]]. eapply read_blk_sub; eauto. }
  destruct (r_open r).
  - apply in_app_or in Hx. destruct Hx as [Hx|Hx]; apply in_or_app; [right; auto|left; eauto].
  - apply in_or_app. left. eauto.
Qed.

Theorem race_sound : forall late pl t x, In x (exec late pl t) -> In x (all_ids t).
Proof. intros late pl t x. apply race_sound_gen. Qed.


(* everything a shard holds was ingested *)
Lemma all_ids_step s o x : In x (all_ids (step s o)) -> In x (all_ids s) \/ In x (ingested [o]).
Proof.
  assert (RB : forall s, In x (all_ids (rot_block s)) -> In x (all_ids s)).
  { intros s0 H. destruct (rot_block_cases s0) as [[_ E]|[_ E]]; rewrite E in H; auto.
    unfold all_ids in *. cbn in H. rewrite map_app, concat_app in H. cbn in H. rewrite !app_nil_r in H. exact H. }
  destruct o; cbn [step]; intros H; auto.
  - unfold all_ids in *. cbn in *. rewrite app_nil_r. rewrite app_assoc in H. apply in_app_or in H. tauto.
  - left. unfold rot_seg in H. destruct (seg_has_data (rot_block s)); auto.
    apply RB. unfold all_ids in *. cbn in H. rewrite app_nil_r in H. apply in_or_app. left. exact H.
Qed.

Theorem held_was_ingested : forall ops x, In x (all_ids (run ops init)) -> In x (ingested ops).
Proof.
  assert (G : forall ops s x, In x (all_ids (run ops s)) -> In x (all_ids s) \/ In x (ingested ops)).
  { induction ops as [|o ops IH]; intros s x H; cbn in *; auto.
    destruct (IH _ _ H) as [H1|H1].
    - destruct (all_ids_step s o x H1) as [H2|H2]; auto. right. unfold ingested in *. cbn in *.
      rewrite app_nil_r in H2. apply in_or_app. auto.
    - right. unfold ingested in *. cbn. apply in_or_app. auto. }
  intros ops x H. destruct (G ops init x H) as [H1|H1]; auto. destruct H1.
Qed.

(* ---------- refutations ---------- *)
(* the other order: block numbers handed to the workers before the fix-up.  One datapoint, requests built, block
   rotation, execution: the datapoint is gone *)
Theorem late_fixup_refuted : exists before between x,
  no_seg_rotation between = true /\
  In x (all_ids (run before init)) /\
  existsb (N.eqb x) (exec true (plan (run before init)) (run between (run before init))) = false /\
  existsb (N.eqb x) (exec false (plan (run before init)) (run between (run before init))) = true.
Proof. exists [Ingest [7]], [RotBlock], 7. repeat split; try (vm_compute; reflexivity). cbn. auto. Qed.

(* the block-number-only comparison (before fix 5fd2cca), across a segment rotation that brings the shard back to the
   planned block number: the datapoint is gone; the code (segment-aware) returns it *)
Theorem prefix_segment_race_refuted : exists before between x,
  In x (all_ids (run before init)) /\
  race_guard (run before init) (run between (run before init)) = false /\
  existsb (N.eqb x) (exec_prefix (plan (run before init)) (run between (run before init))) = false /\
  existsb (N.eqb x) (exec false (plan (run before init)) (run between (run before init))) = true.
Proof. exists [Ingest [7]], [RotSeg], 7. repeat split; try (vm_compute; reflexivity). cbn. auto. Qed.

(* the guard of the block-number-only comparison is satisfiable across a segment rotation (non-vacuity): the planned
   block is not the segment's first *)
Example race_guard_segment_rotation_example :
  let before := [Ingest [1]; RotBlock; Ingest [2]] in
  let between := [RotSeg; Ingest [3]] in
  race_guard (run before init) (run between (run before init)) = true /\
  no_seg_rotation between = false /\
  exec_prefix (plan (run before init)) (run between (run before init)) = [3; 1; 2].
Proof. vm_compute. repeat split. Qed.

(* a segment rotation and more between building and executing the requests, the planned block was the segment's
   first: the code returns what the shard held, and the datapoints accepted meanwhile that it can reach *)
Example race_segment_rotation_first_block_example :
  let before := [Ingest [1; 2]] in
  let between := [RotSeg; Ingest [3]; RotBlock; Ingest [4]] in
  exec false (plan (run before init)) (run [RotSeg; Ingest [3]] (run before init)) = [3; 1; 2] /\
  exec false (plan (run before init)) (run between (run before init)) = [4; 1; 2].
Proof. vm_compute. repeat split. Qed.

(* NamesProtoProofs.v — virtualtablenames.txt as a line protocol: what a restart reads from ANY byte prefix of an append,
   that the start-up adoption of the other indexes' segments does not depend on where the append was cut, and what the
   NEXT append does to an unterminated last line (code as it is: glued; repaired writer: every name survives). *)
From SigM Require Import Base SegmetaProto NamesProto.
From SigP Require Import BaseProofs SegmetaProtoProofs.
From Coq Require Import Lia.
Open Scope nat_scope.

(* ---- lines ---- *)
Lemma lines_cons c m : c <> 10%N ->
  lines (c :: m) = match lines m with [] => [[c]] | l :: ls => (c :: l) :: ls end.
Proof. intros H. simpl. destruct (N.eqb_spec c 10); [contradiction|reflexivity]. Qed.

Lemma lines_nl m : lines (10%N :: m) = [] :: lines m.
Proof. reflexivity. Qed.

Lemma lines_nonempty m : m <> [] -> lines m <> [].
Proof.
  destruct m as [|c m]; [congruence|]. intros _. destruct (N.eq_dec c 10) as [->|H].
  - rewrite lines_nl. discriminate.
  - rewrite lines_cons by exact H. destruct (lines m); discriminate.
Qed.

Lemma lines_single m : ~ In 10%N m -> m <> [] -> lines m = [m].
Proof.
  induction m as [|c m IH]; intros H Hne; [congruence|].
  assert (Hc : c <> 10%N) by (intros ->; apply H; left; reflexivity).
  rewrite lines_cons by exact Hc. destruct m as [|d m'].
  - reflexivity.
  - rewrite IH; [reflexivity| intros X; apply H; right; exact X | discriminate].
Qed.

Lemma needs_nl_cons c d m : needs_nl (c :: d :: m) = needs_nl (d :: m).
Proof. reflexivity. Qed.

Lemma needs_nl_snoc x : needs_nl (x ++ [10%N]) = false.
Proof. unfold needs_nl. rewrite last_last. reflexivity. Qed.

(* a file that is empty or ends in "\n": what follows starts a new line *)
Lemma lines_app_terminated f : forall g, needs_nl f = false -> lines (f ++ g) = lines f ++ lines g.
Proof.
  induction f as [|c f IH]; intros g H; [reflexivity|].
  destruct f as [|d f'].
  - unfold needs_nl in H. simpl in H. destruct (N.eqb_spec c 10) as [->|]; [|discriminate]. reflexivity.
  - rewrite needs_nl_cons in H. specialize (IH g H).
    change ((c :: d :: f') ++ g) with (c :: ((d :: f') ++ g)).
    destruct (N.eq_dec c 10) as [->|Hc].
    + rewrite !lines_nl, IH. reflexivity.
    + rewrite !lines_cons by exact Hc. rewrite IH.
      pose proof (lines_nonempty (d :: f') ltac:(discriminate)) as Hn.
      destruct (lines (d :: f')) as [|l ls]; [congruence|]. reflexivity.
Qed.

(* terminating an unterminated last line changes no token *)
Lemma lines_terminate f : needs_nl f = true -> lines (f ++ [10%N]) = lines f.
Proof.
  induction f as [|c f IH]; intros H; [discriminate|].
  destruct f as [|d f'].
  - unfold needs_nl in H. simpl in H. destruct (N.eqb_spec c 10) as [|Hc]; [discriminate|].
    simpl. destruct (N.eqb_spec c 10); [contradiction|reflexivity].
  - rewrite needs_nl_cons in H. specialize (IH H).
    change ((c :: d :: f') ++ [10%N]) with (c :: ((d :: f') ++ [10%N])).
    destruct (N.eq_dec c 10) as [->|Hc].
    + rewrite !lines_nl, IH. reflexivity.
    + rewrite !lines_cons by exact Hc. rewrite IH. reflexivity.
Qed.

Lemma lines_name n : ~ In 10%N n -> lines (n ++ [10%N]) = [n].
Proof. intros H. rewrite (lines_line n [] H). reflexivity. Qed.

Lemma firstn_nonempty {A} (l : list A) k : 0 < k -> l <> [] -> firstn k l <> [].
Proof. destruct k; [lia|]. destruct l; [congruence|]. discriminate. Qed.

Lemma in_firstn {A} (x : A) l : forall k, In x (firstn k l) -> In x l.
Proof. induction l as [|y l IH]; intros [|k] H; simpl in *; try tauto. destruct H; [left; assumption|right; eapply IH; eassumption]. Qed.

Lemma not_in_firstn {A} (x : A) l k : ~ In x l -> ~ In x (firstn k l).
Proof. intros H X. apply H. eapply in_firstn. exact X. Qed.

(* the tokens of a prefix of one record *)
Lemma lines_record_prefix n k : ~ In 10%N n ->
  lines (firstn k (n ++ [10%N])) = if k =? 0 then [] else [firstn k n].
Proof.
  intros H. destruct (Nat.eqb_spec k 0) as [->|Hk]; [reflexivity|].
  destruct (le_lt_dec k (length n)) as [Hle|Hgt].
  - rewrite firstn_app. replace (k - length n) with 0 by lia. rewrite app_nil_r.
    apply lines_single; [apply not_in_firstn; exact H|].
    apply firstn_nonempty; [lia|]. destruct n; [simpl in Hle; lia|discriminate].
  - rewrite firstn_all2 by (rewrite app_length; simpl; lia).
    rewrite (firstn_all2 n) by lia. apply lines_name. exact H.
Qed.

(* ---- (A) every byte prefix of the append of one name: the old tokens, then nothing or a prefix of the name ---- *)
Theorem names_append_prefix_exact f n k :
  needs_nl f = false -> ~ In 10%N n ->
  lines (f ++ firstn k (n ++ [10%N])) = lines f ++ (if k =? 0 then [] else [firstn k n]).
Proof. intros Hf Hn. rewrite lines_app_terminated by exact Hf. rewrite lines_record_prefix by exact Hn. reflexivity. Qed.

Lemma too_long_app mx a b : needs_nl a = false -> too_long mx (a ++ b) = too_long mx a || too_long mx b.
Proof. intros H. unfold too_long. rewrite lines_app_terminated by exact H. apply existsb_app. Qed.

(* ---- (B) ... and never an error ---- *)
Theorem names_never_unreadable f n k mx :
  needs_nl f = false -> ~ In 10%N n -> too_long mx f = false -> length n < mx ->
  read_scan mx (Some (f ++ firstn k (n ++ [10%N])))
  = Some (names_of f ++ (if k =? 0 then [] else [drop_cr (firstn k n)])).
Proof.
  intros Hf Hn Ht Hl. unfold read_scan. rewrite too_long_app by exact Hf. rewrite Ht. simpl.
  unfold too_long, names_of. rewrite lines_record_prefix by exact Hn.
  rewrite lines_app_terminated by exact Hf. rewrite lines_record_prefix by exact Hn. rewrite map_app.
  destruct (k =? 0); simpl; [reflexivity|].
  destruct (Nat.leb_spec mx (length (firstn k n))) as [H|H]; [rewrite firstn_length in H; lia|]. reflexivity.
Qed.

(* ---- adoption ---- *)
Lemma bytes_eqb_eq a : forall b, bytes_eqb a b = true <-> a = b.
Proof.
  unfold bytes_eqb. induction a as [|x a IH]; destruct b as [|y b]; simpl; split; intros H; try congruence; try discriminate.
  - apply andb_true_iff in H. destruct H as [H1 H2]. apply N.eqb_eq in H1. apply IH in H2. congruence.
  - inversion H; subst. apply andb_true_iff. split; [apply N.eqb_refl|apply IH; reflexivity].
Qed.

Lemma memb_In x l : memb x l = true <-> In x l.
Proof.
  induction l as [|y l IH]; simpl; [split; [discriminate|tauto]|].
  rewrite orb_true_iff, bytes_eqb_eq, IH. split; intros [H|H]; auto.
Qed.

Lemma adopt_In names segs s : In s (adopt names segs) <-> In s segs /\ listed names (fst s) = true.
Proof. unfold adopt. apply filter_In. Qed.

(* ---- (C) the segments adopted before the append began are adopted after a crash at ANY byte of it ---- *)
Theorem names_adoption_unaffected f n k mx segs s :
  needs_nl f = false -> ~ In 10%N n -> too_long mx f = false -> length n < mx ->
  In s (adopt (read_scan mx (Some f)) segs) ->
  In s (adopt (read_scan mx (Some (f ++ firstn k (n ++ [10%N])))) segs).
Proof.
  intros Hf Hn Ht Hl H. apply adopt_In in H. destruct H as [Hs Hli]. apply adopt_In. split; [exact Hs|].
  rewrite names_never_unreadable by assumption.
  unfold read_scan in Hli. rewrite Ht in Hli. simpl in *.
  apply memb_In. apply in_or_app. left. apply memb_In. exact Hli.
Qed.

(* ---- (D) a reader that insists on the final newline: the crash between the name and its newline (k = length of the
   name) makes the whole list unreadable and no segment of any index is adopted ---- *)
Theorem names_newline_required_reader_refuted :
  exists f n k segs s,
    needs_nl f = false /\ ~ In 10%N n /\ k = length n /\
    In s (adopt (read_strict (Some f)) segs) /\
    adopt (read_strict (Some (f ++ firstn k (n ++ [10%N])))) segs = [] /\
    In s (adopt (read_scan (256 * 256) (Some (f ++ firstn k (n ++ [10%N])))) segs).
Proof.
  exists [105;100;120;97;10]%N, [110;101;119;99]%N, 4, [([105;100;120;97]%N, 0)], ([105;100;120;97]%N, 0).
  split; [reflexivity|]. split; [simpl; intuition discriminate|]. split; [reflexivity|].
  split; [vm_compute; left; reflexivity|]. split; [vm_compute; reflexivity|]. vm_compute. left. reflexivity.
Qed.

(* ---- the next append ---- *)
Lemma lines_healed f g : lines (f ++ (if needs_nl f then [10%N] else []) ++ g) = lines f ++ lines g.
Proof.
  destruct (needs_nl f) eqn:E.
  - change ([10%N] ++ g) with (10%N :: g). replace (f ++ 10%N :: g) with ((f ++ [10%N]) ++ g) by (rewrite <- app_assoc; reflexivity).
    rewrite lines_app_terminated by apply needs_nl_snoc. rewrite lines_terminate by exact E. reflexivity.
  - simpl. apply lines_app_terminated. exact E.
Qed.

Lemma names_of_record f n : name_ok n -> names_of (f ++ name_record true f n) = names_of f ++ [n].
Proof.
  intros [Hn Hd]. unfold names_of, name_record. simpl andb. rewrite lines_healed. rewrite lines_name by exact Hn.
  rewrite map_app. simpl. rewrite Hd. reflexivity.
Qed.

Lemma needs_nl_record heal f n : needs_nl (f ++ name_record heal f n) = false.
Proof. unfold name_record. rewrite !app_assoc. apply needs_nl_snoc. Qed.

(* no token of the file is lost when what is appended starts a new line, or is nothing *)
Lemma lines_kept f g : needs_nl f = false \/ g = [] \/ (exists g', g = 10%N :: g') -> exists t, lines (f ++ g) = lines f ++ t.
Proof.
  intros [H|[->|[g' ->]]].
  - eexists. apply lines_app_terminated. exact H.
  - exists []. rewrite !app_nil_r. reflexivity.
  - destruct (needs_nl f) eqn:E.
    + exists (lines g'). replace (f ++ 10%N :: g') with ((f ++ [10%N]) ++ g') by (rewrite <- app_assoc; reflexivity).
      rewrite lines_app_terminated by apply needs_nl_snoc. rewrite lines_terminate by exact E. reflexivity.
    + eexists. apply lines_app_terminated. exact E.
Qed.

Lemma record_prefix_shape f n k :
  needs_nl f = false \/ firstn k (name_record true f n) = [] \/ (exists g', firstn k (name_record true f n) = 10%N :: g').
Proof.
  destruct (needs_nl f) eqn:E; [right|left; reflexivity].
  unfold name_record. rewrite E. simpl. destruct k; [left; reflexivity|right; eexists; reflexivity].
Qed.

Lemma names_kept f g x : needs_nl f = false \/ g = [] \/ (exists g', g = 10%N :: g') ->
  In x (names_of f) -> In x (names_of (f ++ g)).
Proof.
  intros H Hx. destruct (lines_kept f g H) as [t Ht]. unfold names_of in *. rewrite Ht, map_app. apply in_or_app. left. exact Hx.
Qed.

(* one process of the repaired writer, cut at ANY byte: every name the file listed, and every name whose record is
   completely inside the cut, is listed *)
Lemma proc_keeps regs : forall file mem k, Forall name_ok regs ->
  (forall x, In x (names_of file) -> In x (names_of (file ++ firstn k (proc_stream true file mem regs)))) /\
  (forall x, In x (reg_done true file mem regs k) -> In x (names_of (file ++ firstn k (proc_stream true file mem regs)))).
Proof.
  induction regs as [|n r IH]; intros file mem k Hok.
  - simpl. rewrite firstn_nil, app_nil_r. split; [auto|intros x []].
  - inversion Hok as [|? ? Hn Hr]; subst. simpl. destruct (memb n mem); [apply IH; exact Hr|].
    set (a := name_record true file n).
    destruct (Nat.leb_spec (length a) k) as [Hle|Hgt].
    + rewrite firstn_app, (firstn_all2 a) by lia. rewrite app_assoc.
      destruct (IH (file ++ a) (n :: mem) (k - length a) Hr) as [I1 I2].
      assert (Hfa : names_of (file ++ a) = names_of file ++ [n]) by (apply names_of_record; exact Hn).
      split.
      * intros x Hx. apply I1. rewrite Hfa. apply in_or_app. left. exact Hx.
      * intros x [<-|Hx]; [apply I1; rewrite Hfa; apply in_or_app; right; left; reflexivity|apply I2; exact Hx].
    + rewrite firstn_app. replace (k - length a) with 0 by lia. rewrite firstn_O, app_nil_r.
      split; [|intros x []]. intros x Hx. apply names_kept; [apply record_prefix_shape|exact Hx].
Qed.

(* ---- (E) repaired writer: ANY starting file (also one a crash left unterminated), any number of generations, each cut
   at ANY byte: a listed name stays listed ---- *)
Theorem names_gens_keep gs : forall file x,
  (forall g, In g gs -> Forall name_ok (fst g)) ->
  In x (names_of file) -> In x (names_of (names_gens true file gs)).
Proof.
  induction gs as [|[regs k] gs IH]; intros file x Hok Hx; [exact Hx|].
  simpl. apply IH; [intros g Hg; apply Hok; right; exact Hg|].
  unfold gen_file. simpl. destruct (proc_keeps regs file (names_of file) k) as [P _]; [apply (Hok (regs, k)); left; reflexivity|].
  apply P. exact Hx.
Qed.

(* ... and a name whose registration completed (its record is inside the cut) is listed after every later generation *)
Theorem names_registered_survives file regs k gs x :
  Forall name_ok regs -> (forall g, In g gs -> Forall name_ok (fst g)) ->
  In x (reg_done true file (names_of file) regs k) ->
  In x (names_of (names_gens true (gen_file true file (regs, k)) gs)).
Proof.
  intros Hr Hg Hx. apply names_gens_keep; [exact Hg|].
  unfold gen_file. simpl. destruct (proc_keeps regs file (names_of file) k Hr) as [_ P]. apply P. exact Hx.
Qed.

(* a process that ran to its end lists every index it flushed into (in-memory names are names of the file) *)
Lemma proc_lists_all regs : forall file mem, Forall name_ok regs ->
  (forall x, memb x mem = true -> In x (names_of file)) ->
  forall x, In x regs -> In x (names_of (file ++ proc_stream true file mem regs)).
Proof.
  induction regs as [|n r IH]; intros file mem Hok Hmem x Hx; [destruct Hx|].
  inversion Hok as [|? ? Hn Hr]; subst. simpl.
  assert (Hall : forall f m y, In y (names_of f) -> In y (names_of (f ++ proc_stream true f m r))).
  { intros f m y Hy. pose proof (proc_keeps r f m (length (proc_stream true f m r)) Hr) as [P _].
    rewrite firstn_all in P. apply P. exact Hy. }
  destruct (memb n mem) eqn:E.
  - destruct Hx as [<-|Hx]; [apply Hall; apply Hmem; exact E|apply IH; assumption].
  - rewrite app_assoc.
    assert (Hfa : names_of (file ++ name_record true file n) = names_of file ++ [n]) by (apply names_of_record; exact Hn).
    destruct Hx as [<-|Hx].
    + apply Hall. rewrite Hfa. apply in_or_app. right. left. reflexivity.
    + apply IH; [exact Hr| |exact Hx]. intros y Hy. simpl in Hy. apply orb_true_iff in Hy. rewrite Hfa. apply in_or_app.
      destruct Hy as [Hy|Hy]; [right; left; apply bytes_eqb_eq in Hy; congruence|left; apply Hmem; exact Hy].
Qed.

Theorem names_repaired_process_lists_every_index file regs x :
  Forall name_ok regs -> In x regs ->
  In x (names_of (file ++ proc_stream true file (names_of file) regs)).
Proof. intros Hok Hx. apply proc_lists_all; [exact Hok| |exact Hx]. intros y Hy. apply memb_In. exact Hy. Qed.

(* the writer that does not look at the end of the file appends the same bytes when the file is terminated *)
Lemma stream_heal_irrelevant regs : forall file mem, needs_nl file = false ->
  proc_stream false file mem regs = proc_stream true file mem regs.
Proof.
  induction regs as [|n r IH]; intros file mem H; [reflexivity|]. simpl. destruct (memb n mem); [apply IH; exact H|].
  assert (E : name_record false file n = name_record true file n) by (unfold name_record; rewrite H; reflexivity).
  rewrite E. f_equal. apply IH. apply needs_nl_record.
Qed.

(* ---- (F) the writer without the check: guarded by "the file it finds is empty or ends in a newline" ---- *)
Theorem names_process_lists_every_index_guarded file regs x :
  needs_nl file = false -> Forall name_ok regs -> In x regs ->
  In x (names_of (file ++ proc_stream false file (names_of file) regs)).
Proof. intros H Hok Hx. rewrite stream_heal_irrelevant by exact H. apply names_repaired_process_lists_every_index; assumption. Qed.

(* ... and refuted without the guard: the crash between write(name) and write("\n") leaves "idxa\nidxb"; the restarted
   process has idxb in memory, registers newc, runs to its end: the file holds the line "idxbnewc", neither name is listed,
   and the unrotated segments of both indexes are not adopted at the next start.  The repaired writer lists both. *)
Theorem names_glued_to_unterminated_line_refuted :
  exists file regs segs,
    Forall name_ok regs /\
    file = [105;100;120;97;10]%N ++ firstn 4 ([105;100;120;98]%N ++ [10%N]) /\
    names_of (file ++ proc_stream false file (names_of file) regs) = [[105;100;120;97]; [105;100;120;98;110;101;119;99]]%N /\
    adopt (read_scan (256 * 256) (Some (file ++ proc_stream false file (names_of file) regs))) segs = [] /\
    adopt (read_scan (256 * 256) (Some (file ++ proc_stream true file (names_of file) regs))) segs = segs.
Proof.
  exists [105;100;120;97;10;105;100;120;98]%N, [[105;100;120;98]; [110;101;119;99]]%N,
         [([105;100;120;98]%N, 0); ([110;101;119;99]%N, 1)].
  split.
  - repeat constructor; simpl; intuition discriminate.
  - split; [reflexivity|]. split; [vm_compute; reflexivity|]. split; vm_compute; reflexivity.
Qed.

(* ---- (G) the repaired writer on ANY file, also one that an earlier crash left without its final newline: a crash at
   any byte of the next record leaves a readable file that still lists every name it listed ---- *)
Theorem names_never_unreadable_any_file f n k mx :
  ~ In 10%N n -> too_long mx f = false -> length n < mx ->
  exists ns, read_scan mx (Some (f ++ firstn k (name_record true f n))) = Some ns /\
             forall x, In x (names_of f) -> In x ns.
Proof.
  intros Hn Ht Hl. destruct (needs_nl f) eqn:E.
  - assert (R : name_record true f n = 10%N :: n ++ [10%N]) by (unfold name_record; rewrite E; reflexivity).
    rewrite R. destruct k.
    + rewrite firstn_O, app_nil_r. unfold read_scan. rewrite Ht. eexists. split; [reflexivity|auto].
    + rewrite firstn_cons.
      replace (f ++ 10%N :: firstn k (n ++ [10%N])) with ((f ++ [10%N]) ++ firstn k (n ++ [10%N]))
        by (rewrite <- app_assoc; reflexivity).
      rewrite names_never_unreadable;
        [|apply needs_nl_snoc|exact Hn|unfold too_long; rewrite lines_terminate by exact E; exact Ht|exact Hl].
      eexists. split; [reflexivity|]. intros x Hx. apply in_or_app. left.
      unfold names_of. rewrite lines_terminate by exact E. exact Hx.
  - assert (R : name_record true f n = n ++ [10%N]) by (unfold name_record; rewrite E; reflexivity).
    rewrite R. rewrite names_never_unreadable by assumption.
    eexists. split; [reflexivity|]. intros x Hx. apply in_or_app. left. exact Hx.
Qed.

Theorem names_adoption_unaffected_any_file f n k mx segs s :
  ~ In 10%N n -> too_long mx f = false -> length n < mx ->
  In s (adopt (read_scan mx (Some f)) segs) ->
  In s (adopt (read_scan mx (Some (f ++ firstn k (name_record true f n)))) segs).
Proof.
  intros Hn Ht Hl H. apply adopt_In in H. destruct H as [Hs Hli]. apply adopt_In. split; [exact Hs|].
  destruct (names_never_unreadable_any_file f n k mx Hn Ht Hl) as [ns [-> Hns]].
  unfold read_scan in Hli. rewrite Ht in Hli. simpl in *. apply memb_In. apply Hns. apply memb_In. exact Hli.
Qed.

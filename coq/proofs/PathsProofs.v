(* PathsProofs.v — lemmas and theorems about the path model (C19). *)
From Coq Require Import Lia.
From Coq Require Import ZifyN ZifyNat ZifyBool.
From SigM Require Import Base Paths.
From SigP Require Import BaseProofs.
Open Scope N_scope.

(* ---------- byte-string equality ---------- *)
Lemma bytes_eqb_eq a : forall b, bytes_eqb a b = true <-> a = b.
Proof.
  unfold bytes_eqb. induction a as [|x a IH]; intros [|y b]; cbn; split; intros E; try discriminate; auto.
  - apply andb_true_iff in E. destruct E as [E1 E2]. apply N.eqb_eq in E1. apply IH in E2. subst. reflexivity.
  - inversion E; subst. apply andb_true_iff. split; [apply N.eqb_refl | apply IH; reflexivity].
Qed.

Lemma bytes_eqb_refl a : bytes_eqb a a = true.
Proof. apply bytes_eqb_eq. reflexivity. Qed.

Lemma is_dotdot_eq s : is_dotdot s = true <-> s = DD.
Proof. apply bytes_eqb_eq. Qed.

Definition normalP (s : list N) : Prop := is_normal s = true.

Lemma normal_not_skip s : normalP s -> is_skip s = false.
Proof. unfold normalP, is_normal. intros H. apply andb_true_iff in H. destruct H as [H _]. now apply negb_true_iff in H. Qed.
Lemma normal_not_dd s : normalP s -> is_dotdot s = false.
Proof. unfold normalP, is_normal. intros H. apply andb_true_iff in H. destruct H as [_ H]. now apply negb_true_iff in H. Qed.
Lemma normal_intro s : is_skip s = false -> is_dotdot s = false -> normalP s.
Proof. unfold normalP, is_normal. intros -> ->. reflexivity. Qed.
Lemma dd_not_skip : is_skip DD = false. Proof. reflexivity. Qed.
Lemma dd_is_dd : is_dotdot DD = true. Proof. reflexivity. Qed.

(* ---------- split / join_slash ---------- *)
Lemma split_nonempty s : split s <> [].
Proof.
  destruct s as [|c r]; cbn; [discriminate|].
  destruct (c =? SL); [discriminate|]. destruct (split r); discriminate.
Qed.

Lemma split_app_slash a b : split (a ++ SL :: b) = split a ++ split b.
Proof.
  induction a as [|c a IH]; cbn [app split].
  - rewrite N.eqb_refl. reflexivity.
  - destruct (c =? SL).
    + rewrite IH. reflexivity.
    + rewrite IH. destruct (split a) as [|h t] eqn:E; [exfalso; eapply split_nonempty; eauto|].
      reflexivity.
Qed.

Lemma split_no_slash x : no_slash x = true -> split x = [x].
Proof.
  induction x as [|c x IH]; cbn; intros H; auto.
  apply andb_true_iff in H. destruct H as [Hc Hx]. apply negb_true_iff in Hc. rewrite Hc.
  rewrite IH by exact Hx. reflexivity.
Qed.

Lemma split_segs_no_slash s : Forall (fun x => no_slash x = true) (split s).
Proof.
  induction s as [|c r IH]; cbn.
  - repeat constructor.
  - destruct (c =? SL) eqn:E.
    + constructor; auto.
    + destruct (split r) as [|h t]; [repeat constructor; cbn; rewrite E; reflexivity|].
      inversion IH; subst. constructor; auto. cbn. rewrite E. cbn. assumption.
Qed.

Lemma split_join_slash l : l <> [] -> Forall (fun x => no_slash x = true) l -> split (join_slash l) = l.
Proof.
  induction l as [|x r IH]; intros Hne Hf; [congruence|].
  inversion Hf as [|? ? Hx Hr]; subst.
  destruct r as [|y r'].
  - cbn. apply split_no_slash. exact Hx.
  - change (join_slash (x :: y :: r')) with (x ++ SL :: join_slash (y :: r')).
    rewrite split_app_slash, IH by (auto; discriminate). rewrite split_no_slash by exact Hx. reflexivity.
Qed.

Lemma join_slash_cons x r : r <> [] -> join_slash (x :: r) = x ++ SL :: join_slash r.
Proof. destruct r; [congruence|reflexivity]. Qed.

Lemma no_slash_app a b : no_slash (a ++ b) = no_slash a && no_slash b.
Proof. unfold no_slash. apply forallb_app. Qed.

(* ---------- the stack machine ---------- *)
Lemma stack_app r acc l1 l2 : stack r acc (l1 ++ l2) = stack r (stack r acc l1) l2.
Proof.
  revert acc. induction l1 as [|s l1 IH]; intros acc; cbn [app stack]; auto.
  destruct (is_skip s); auto. destruct (is_dotdot s); auto.
  destruct acc as [|top acc']; [destruct r; auto|]. destruct (is_dotdot top); auto.
Qed.

Lemma stack_normal r l : Forall normalP l -> forall acc, stack r acc l = rev l ++ acc.
Proof.
  induction 1 as [|s l Hs Hl IH]; intros acc; cbn [stack rev app]; auto.
  rewrite (normal_not_skip s Hs), (normal_not_dd s Hs). rewrite IH. rewrite <- app_assoc. reflexivity.
Qed.

Lemma repeat_snoc {A} (x : A) k : repeat x k ++ [x] = x :: repeat x k.
Proof. induction k; cbn; auto. rewrite IHk. reflexivity. Qed.

Lemma rev_repeat {A} (x : A) k : rev (repeat x k) = repeat x k.
Proof. induction k; cbn; auto. rewrite IHk. apply repeat_snoc. Qed.

(* shape of the stack: normal elements on top of a run of ".." (only when not rooted) *)
Definition shape (rt : bool) (acc : list (list N)) : Prop :=
  exists nb k, acc = nb ++ repeat DD k /\ Forall normalP nb /\ (rt = true -> k = 0%nat).

Lemma shape_nil rt : shape rt [].
Proof. exists [], 0%nat. cbn. repeat split; auto. Qed.

Lemma shape_step rt acc s : shape rt acc -> shape rt (stack rt acc [s]).
Proof.
  intros (nb & k & -> & Hnb & Hk). cbn [stack].
  destruct (is_skip s) eqn:Es; [exists nb, k; auto|].
  destruct (is_dotdot s) eqn:Ed.
  - apply is_dotdot_eq in Ed. subst s.
    destruct nb as [|top nb'].
    + cbn [app]. destruct k as [|k].
      * cbn. destruct rt eqn:Ert.
        -- exists [], 0%nat. cbn. auto.
        -- exists [], 1%nat. cbn. repeat split; auto. discriminate.
      * cbn [repeat]. rewrite dd_is_dd. exists [], (S (S k)). cbn. repeat split; auto.
        intros E. specialize (Hk E). discriminate.
    + cbn [app]. inversion Hnb as [|? ? Ht Hn']; subst.
      rewrite (normal_not_dd top Ht). exists nb', k. auto.
  - exists (s :: nb), k. repeat split; auto. constructor; auto. apply normal_intro; auto.
Qed.

Lemma stack_shape rt l : forall acc, shape rt acc -> shape rt (stack rt acc l).
Proof.
  induction l as [|s l IH]; intros acc H; [exact H|].
  change (s :: l) with ([s] ++ l). rewrite stack_app. apply IH. apply shape_step. exact H.
Qed.

Lemma shape_rooted acc : shape true acc -> Forall normalP acc.
Proof. intros (nb & k & -> & Hnb & Hk). rewrite (Hk eq_refl). cbn. rewrite app_nil_r. exact Hnb. Qed.

Lemma Forall_rev {A} (P : A -> Prop) l : Forall P l -> Forall P (rev l).
Proof. intros H. apply Forall_forall. intros x Hx. apply in_rev in Hx. revert x Hx. apply Forall_forall. exact H. Qed.

Lemma abs_segs_normal p : Forall normalP (abs_segs p).
Proof. unfold abs_segs. apply Forall_rev. apply shape_rooted. apply stack_shape. apply shape_nil. Qed.

(* the run of ".." and the normal part are recovered by the filters used in [ups]/[body] *)
Lemma filter_dd_shape nb k : Forall normalP nb ->
  filter is_dotdot (nb ++ repeat DD k) = repeat DD k /\
  filter (fun s => negb (is_dotdot s)) (nb ++ repeat DD k) = nb.
Proof.
  intros Hnb. rewrite !filter_app. split.
  - replace (filter is_dotdot nb) with (@nil (list N)).
    + cbn. induction k; cbn; auto. f_equal. exact IHk.
    + symmetry. induction Hnb as [|s nb Hs Hn IH]; cbn; auto. rewrite (normal_not_dd s Hs). exact IH.
  - replace (filter (fun s => negb (is_dotdot s)) (repeat DD k)) with (@nil (list N)).
    + rewrite app_nil_r. induction Hnb as [|s nb Hs Hn IH]; cbn; auto. rewrite (normal_not_dd s Hs). cbn. f_equal. exact IH.
    + symmetry. induction k; cbn; auto.
Qed.

Lemma rel_shape name : exists nb, stack false [] (split name) = nb ++ repeat DD (ups name) /\
  Forall normalP nb /\ body name = rev nb.
Proof.
  destruct (stack_shape false (split name) [] (shape_nil false)) as (nb & k & E & Hnb & _).
  exists nb. unfold ups, body. rewrite E.
  destruct (filter_dd_shape nb k Hnb) as [F1 F2]. rewrite F1, F2, repeat_length. auto.
Qed.

(* ---------- clean_spec ---------- *)
(* (1) the cleaned element list: a run of ".." (empty for rooted paths) followed by elements
       that are not "", "." or ".." *)
Theorem clean_segs_spec s : exists k bd,
  segs_of s = repeat DD k ++ bd /\ Forall normalP bd /\ (rooted s = true -> k = 0%nat).
Proof.
  unfold segs_of.
  destruct (stack_shape (rooted s) (split s) [] (shape_nil _)) as (nb & k & E & Hnb & Hk).
  exists k, (rev nb). rewrite E, rev_app_distr, rev_repeat. repeat split; auto. apply Forall_rev. exact Hnb.
Qed.

Lemma normal_nonempty s : normalP s -> s <> [].
Proof. intros H E. subst. discriminate H. Qed.

Lemma segs_no_slash rt l acc : Forall (fun x => no_slash x = true) l -> Forall (fun x => no_slash x = true) acc ->
  Forall (fun x => no_slash x = true) (stack rt acc l).
Proof.
  revert acc. induction l as [|s l IH]; intros acc Hl Ha; cbn [stack]; auto.
  inversion Hl; subst.
  destruct (is_skip s); auto. destruct (is_dotdot s); auto.
  - destruct acc as [|top acc']; [destruct rt; auto|]. inversion Ha; subst. destruct (is_dotdot top); auto.
Qed.

Lemma segs_of_no_slash s : Forall (fun x => no_slash x = true) (segs_of s).
Proof. unfold segs_of. apply Forall_rev. apply segs_no_slash; [apply split_segs_no_slash|constructor]. Qed.

Lemma stack_dd_rel k : forall j, stack false (repeat DD j) (repeat DD k) = repeat DD (k + j).
Proof.
  induction k as [|k IH]; intros j; [reflexivity|].
  replace (S k + j)%nat with (k + S j)%nat by lia.
  rewrite <- (IH (S j)).
  change (repeat DD (S k)) with (DD :: repeat DD k). cbn [stack].
  rewrite dd_not_skip, dd_is_dd.
  destruct j as [|j]; cbn [repeat]; [reflexivity|]. rewrite dd_is_dd. reflexivity.
Qed.

(* cleaning an already clean element list changes nothing *)
Lemma stack_clean_again rt k bd : Forall normalP bd -> (rt = true -> k = 0%nat) ->
  rev (stack rt [] (repeat DD k ++ bd)) = repeat DD k ++ bd.
Proof.
  intros Hbd Hk. rewrite stack_app.
  destruct rt.
  - rewrite (Hk eq_refl). cbn [repeat stack app]. rewrite stack_normal by exact Hbd.
    rewrite app_nil_r, rev_involutive. reflexivity.
  - change (@nil (list N)) with (repeat DD 0) at 1. rewrite stack_dd_rel, Nat.add_0_r.
    rewrite stack_normal by exact Hbd. rewrite rev_app_distr, rev_involutive, rev_repeat. reflexivity.
Qed.

Lemma rooted_join_slash_false l : l <> [] -> Forall (fun x => no_slash x = true) l -> hd [] l <> [] ->
  rooted (join_slash l) = false /\ join_slash l <> [].
Proof.
  destruct l as [|x r]; [congruence|]. intros _ Hf Hx. cbn [hd] in Hx. inversion Hf; subst.
  destruct x as [|c x]; [congruence|].
  assert (Hc : (c =? SL) = false).
  { cbn in H1. apply andb_true_iff in H1. destruct H1 as [H1 _]. now apply negb_true_iff in H1. }
  destruct r; cbn; rewrite Hc; split; auto; discriminate.
Qed.

Lemma clean_rooted s : rooted s = true -> clean s = SL :: join_slash (abs_segs s).
Proof.
  intros Hr. destruct s as [|c s]; [discriminate|]. unfold clean, segs_of, abs_segs. rewrite Hr. reflexivity.
Qed.

Lemma clean_rel s : s <> [] -> rooted s = false ->
  clean s = match segs_of s with [] => [DOT] | _ :: _ => join_slash (segs_of s) end.
Proof.
  intros Hne Hr. destruct s as [|c s]; [congruence|]. unfold clean. rewrite Hr. reflexivity.
Qed.

Lemma abs_segs_no_slash p : Forall (fun x => no_slash x = true) (abs_segs p).
Proof. unfold abs_segs. apply Forall_rev. apply segs_no_slash; [apply split_segs_no_slash|constructor]. Qed.

(* re-reading "/" ++ join_slash of an already clean absolute element list *)
Lemma abs_segs_render bd : Forall normalP bd -> Forall (fun x => no_slash x = true) bd ->
  abs_segs (SL :: join_slash bd) = bd.
Proof.
  intros Hn Hs. unfold abs_segs.
  destruct bd as [|b bd'].
  - reflexivity.
  - change (split (SL :: join_slash (b :: bd'))) with (split ([] ++ SL :: join_slash (b :: bd'))).
    rewrite split_app_slash. rewrite split_join_slash by (auto; discriminate).
    cbn [split app]. change ([] :: b :: bd') with ([[]] ++ (b :: bd')). rewrite stack_app. cbn [stack is_skip].
    apply (stack_clean_again true 0 (b :: bd')); auto.
Qed.

(* for an absolute path, cleaning does not change where it lands *)
Lemma abs_segs_clean p : rooted p = true -> abs_segs (clean p) = abs_segs p.
Proof.
  intros Hr. rewrite clean_rooted by exact Hr.
  apply abs_segs_render; [apply abs_segs_normal | apply abs_segs_no_slash].
Qed.

Lemma rooted_clean p : rooted p = true -> rooted (clean p) = true.
Proof. intros Hr. rewrite clean_rooted by exact Hr. reflexivity. Qed.

(* (2) Clean is idempotent *)
Theorem clean_idempotent s : clean (clean s) = clean s.
Proof.
  destruct s as [|c0 s0]; [reflexivity|].
  set (s := c0 :: s0). assert (Hne : s <> []) by discriminate. clearbody s. clear c0 s0.
  destruct (rooted s) eqn:Er.
  - (* rooted *)
    rewrite (clean_rooted (clean s)) by (apply rooted_clean; exact Er).
    rewrite abs_segs_clean by exact Er. symmetry. apply clean_rooted. exact Er.
  - (* relative *)
    destruct (clean_segs_spec s) as (k & bd & E & Hbd & Hk).
    pose proof (segs_of_no_slash s) as Hns.
    rewrite (clean_rel s Hne Er).
    destruct (segs_of s) as [|x r] eqn:Es.
    + reflexivity.
    + assert (Hhd : hd [] (x :: r) <> []).
      { rewrite E. destruct k; cbn; [|discriminate].
        destruct bd as [|b bd']; [cbn in E; discriminate|]. inversion Hbd; subst. cbn. apply normal_nonempty. assumption. }
      destruct (rooted_join_slash_false (x :: r)) as [Hr Hne2]; auto; [discriminate|].
      rewrite (clean_rel _ Hne2 Hr).
      unfold segs_of. rewrite Hr. rewrite split_join_slash by (auto; discriminate).
      rewrite E. rewrite (stack_clean_again false k bd Hbd) by discriminate.
      rewrite <- E. reflexivity.
Qed.

(* ---------- joining a name to a base ---------- *)
(* simulation: the relative clean of the name (stack false, from []) and the absolute walk from
   the base (stack true, from the base's elements) move in lock step *)
Lemma skipn_S_tail {A} k (l : list A) x r : skipn k l = x :: r -> skipn (S k) l = r.
Proof.
  revert l. induction k as [|k IH]; intros l E.
  - cbn in E. subst. reflexivity.
  - destruct l as [|y l]; [discriminate|]. cbn [skipn] in E. apply IH in E. exact E.
Qed.

Lemma skipn_nil_S {A} k (l : list A) : skipn k l = [] -> skipn (S k) l = [].
Proof.
  revert l. induction k as [|k IH]; intros l E.
  - cbn in E. subst. reflexivity.
  - destruct l as [|y l]; [reflexivity|]. cbn [skipn] in E. apply IH in E. exact E.
Qed.

Lemma Forall_skipn {A} (P : A -> Prop) k l : Forall P l -> Forall P (skipn k l).
Proof.
  revert l. induction k; intros l H; cbn; auto. destruct l; auto. inversion H; auto.
Qed.

Lemma stack_sim accB l : Forall normalP accB -> forall nb k, Forall normalP nb ->
  exists nb' k', Forall normalP nb' /\ (k <= k')%nat /\
    stack false (nb ++ repeat DD k) l = nb' ++ repeat DD k' /\
    stack true (nb ++ skipn k accB) l = nb' ++ skipn k' accB.
Proof.
  intros HB. induction l as [|s l IH]; intros nb k Hnb.
  - exists nb, k. auto.
  - cbn [stack]. destruct (is_skip s) eqn:Es; [apply IH; exact Hnb|].
    destruct (is_dotdot s) eqn:Ed.
    + apply is_dotdot_eq in Ed. subst s.
      destruct nb as [|top nb'].
      * cbn [app].
        assert (E1 : match repeat DD k with
                     | top :: acc' => if is_dotdot top then stack false (DD :: repeat DD k) l else stack false acc' l
                     | [] => stack false [DD] l end = stack false ([] ++ repeat DD (S k)) l).
        { destruct k; cbn [repeat app]; [reflexivity|]. rewrite dd_is_dd. reflexivity. }
        rewrite E1.
        assert (E2 : match skipn k accB with
                     | top :: acc' => if is_dotdot top then stack true (DD :: skipn k accB) l else stack true acc' l
                     | [] => stack true [] l end = stack true ([] ++ skipn (S k) accB) l).
        { destruct (skipn k accB) as [|top rest] eqn:Ek.
          - rewrite (skipn_nil_S k accB Ek). reflexivity.
          - assert (Ht : normalP top).
            { pose proof (Forall_skipn normalP k accB HB) as F. rewrite Ek in F. inversion F; auto. }
            rewrite (normal_not_dd top Ht). rewrite (skipn_S_tail k accB top rest Ek). reflexivity. }
        rewrite E2.
        destruct (IH [] (S k) (Forall_nil _)) as (nb2 & k2 & H1 & H2 & H3 & H4).
        exists nb2, k2. repeat split; auto. lia.
      * cbn [app]. inversion Hnb as [|? ? Ht Hn']; subst.
        rewrite (normal_not_dd top Ht). apply IH. exact Hn'.
    + change (s :: nb ++ repeat DD k) with ((s :: nb) ++ repeat DD k).
      change (s :: nb ++ skipn k accB) with ((s :: nb) ++ skipn k accB).
      apply IH. constructor; auto. apply normal_intro; auto.
Qed.

(* where base/name lands: pop [ups name] elements of the base (stopping at the root), then
   append [body name] *)
Theorem join_resolve b name :
  abs_segs (b ++ SL :: name) =
  firstn (length (abs_segs b) - ups name) (abs_segs b) ++ body name.
Proof.
  unfold abs_segs at 1. rewrite split_app_slash, stack_app.
  set (B := abs_segs b).
  assert (EB : stack true [] (split b) = rev B) by (unfold B, abs_segs; rewrite rev_involutive; reflexivity).
  rewrite EB.
  assert (HB : Forall normalP (rev B)) by (apply Forall_rev; apply abs_segs_normal).
  destruct (stack_sim (rev B) (split name) HB [] 0%nat (Forall_nil _)) as (nb & k & Hnb & _ & H1 & H2).
  cbn [app repeat skipn] in H1, H2. rewrite H2.
  destruct (rel_shape name) as (nb0 & E0 & Hnb0 & Eb).
  rewrite H1 in E0.
  assert (nb = nb0 /\ k = ups name) as [-> ->].
  { destruct (filter_dd_shape nb k Hnb) as [F1 F2]. destruct (filter_dd_shape nb0 (ups name) Hnb0) as [G1 G2].
    rewrite E0 in F1, F2. rewrite G1 in F1. rewrite G2 in F2. split; auto.
    apply (f_equal (@length _)) in F1. rewrite !repeat_length in F1. auto. }
  rewrite rev_app_distr, Eb. f_equal.
  rewrite skipn_rev, rev_involutive. reflexivity.
Qed.

Lemma seg_prefix_app p a b : seg_prefix (p ++ a) (p ++ b) = seg_prefix a b.
Proof. induction p as [|x p IH]; cbn; auto. rewrite bytes_eqb_refl. exact IH. Qed.

Lemma seg_prefix_nil_app a b : seg_prefix a (a ++ b) = true.
Proof. rewrite <- (app_nil_r a) at 1. rewrite seg_prefix_app. reflexivity. Qed.

(* join_confined_iff: base/name is base or below it  <=>  the part of the base that the
   name's leading ".." run pops is re-entered literally by what follows.  In particular a
   name that pops nothing (ups = 0) is always confined, and a name that pops j >= 1 levels
   is confined only if it spells out the last j elements of the base again. *)
Theorem join_confined_iff b name : rooted b = true ->
  confined b (b ++ SL :: name) =
  seg_prefix (skipn (length (abs_segs b) - ups name) (abs_segs b)) (body name).
Proof.
  intros Hr. unfold confined.
  assert (rooted (b ++ SL :: name) = true) as -> by (destruct b; [discriminate|exact Hr]).
  cbn [andb]. rewrite join_resolve.
  set (B := abs_segs b). set (m := (length B - ups name)%nat).
  rewrite <- (firstn_skipn m B) at 1. apply seg_prefix_app.
Qed.

(* never stepping above the start <-> the relative clean has no leading ".." *)
Lemma min_ok_ups_gen l : forall nb k, Forall normalP nb ->
  forall nb' k', stack false (nb ++ repeat DD k) l = nb' ++ repeat DD k' -> Forall normalP nb' ->
  (min_ok (length nb) l = true <-> k' = k).
Proof.
  induction l as [|s l IH]; intros nb k Hnb nb' k' E Hnb'.
  - cbn in E. cbn [min_ok]. split; auto. intros _.
    destruct (filter_dd_shape nb k Hnb) as [F1 _]. destruct (filter_dd_shape nb' k' Hnb') as [G1 _].
    rewrite E in F1. rewrite G1 in F1. apply (f_equal (@length _)) in F1. rewrite !repeat_length in F1. exact F1.
  - cbn [stack] in E. cbn [min_ok].
    destruct (is_skip s) eqn:Es; [apply (IH nb k Hnb nb' k' E Hnb')|].
    destruct (is_dotdot s) eqn:Ed.
    + apply is_dotdot_eq in Ed. subst s.
      destruct nb as [|top nb0].
      * cbn [app length] in *.
        assert (E' : stack false ([] ++ repeat DD (S k)) l = nb' ++ repeat DD k').
        { destruct k; cbn [repeat app] in *; [exact E|]. rewrite dd_is_dd in E. exact E. }
        split; [discriminate|]. intros ->. exfalso.
        destruct (stack_sim [] l (Forall_nil _) [] (S k) (Forall_nil _)) as (nb2 & k2 & Hn2 & Hle & H1 & _).
        rewrite H1 in E'.
        destruct (filter_dd_shape nb2 k2 Hn2) as [F1 _]. destruct (filter_dd_shape nb' k Hnb') as [G1 _].
        rewrite E' in F1. rewrite G1 in F1. apply (f_equal (@length _)) in F1. rewrite !repeat_length in F1. lia.
      * cbn [app length] in *. inversion Hnb as [|? ? Ht Hn0]; subst.
        rewrite (normal_not_dd top Ht) in E. apply (IH nb0 k Hn0 nb' k' E Hnb').
    + change (s :: nb ++ repeat DD k) with ((s :: nb) ++ repeat DD k) in E.
      assert (Hs : Forall normalP (s :: nb)) by (constructor; auto; apply normal_intro; auto).
      apply (IH (s :: nb) k Hs nb' k' E Hnb').
Qed.

Theorem never_negative_iff name : never_negative name = true <-> ups name = 0%nat.
Proof.
  destruct (rel_shape name) as (nb & E & Hnb & _).
  unfold never_negative, stays_within.
  apply (min_ok_ups_gen (split name) [] 0%nat (Forall_nil _) nb (ups name) E Hnb).
Qed.

Corollary join_confined_never_negative b name : rooted b = true ->
  never_negative name = true -> confined b (b ++ SL :: name) = true.
Proof.
  intros Hr Hn. rewrite join_confined_iff by exact Hr.
  apply never_negative_iff in Hn. rewrite Hn, Nat.sub_0_r, skipn_all. reflexivity.
Qed.

(* a name that climbs out and does not spell the popped elements again escapes *)
Corollary join_escapes b name : rooted b = true -> (0 < ups name)%nat ->
  seg_prefix (skipn (length (abs_segs b) - ups name) (abs_segs b)) (body name) = false ->
  confined b (b ++ SL :: name) = false.
Proof. intros Hr _ H. rewrite join_confined_iff by exact Hr. exact H. Qed.

(* filepath.Join(b, name) for a non-empty base is Clean(b + "/" + name) and lands where
   b + "/" + name lands *)
Lemma gojoin2 b name : b <> [] -> gojoin [b; name] = clean (b ++ SL :: name).
Proof. destruct b; [congruence|]. reflexivity. Qed.

Theorem gojoin_confined_iff b name : rooted b = true ->
  confined b (gojoin [b; name]) =
  seg_prefix (skipn (length (abs_segs b) - ups name) (abs_segs b)) (body name).
Proof.
  intros Hr. rewrite gojoin2 by (destruct b; [discriminate|discriminate]).
  assert (Hrp : rooted (b ++ SL :: name) = true) by (destruct b; [discriminate|exact Hr]).
  unfold confined. rewrite rooted_clean by exact Hrp. rewrite abs_segs_clean by exact Hrp.
  rewrite <- join_confined_iff by exact Hr. unfold confined. rewrite Hrp. reflexivity.
Qed.

(* ---------- generic confinement of a path below a directory ---------- *)
Definition is_dir (D : list N) : Prop := rooted D = true /\ exists D', D = D' ++ [SL].

Lemma abs_segs_dir D' r : abs_segs ((D' ++ [SL]) ++ r) = rev (stack true (rev (abs_segs (D' ++ [SL]))) (split r)).
Proof.
  unfold abs_segs. rewrite <- app_assoc. cbn [app]. rewrite !split_app_slash, !stack_app.
  cbn [split stack is_skip]. rewrite rev_involutive. reflexivity.
Qed.

Lemma min_ok_mono l : forall d, min_ok d l = true -> min_ok (S d) l = true.
Proof.
  induction l as [|s l IH]; intros d H; cbn [min_ok] in *; auto.
  destruct (is_skip s); auto. destruct (is_dotdot s); auto.
  destruct d; [discriminate|]. auto.
Qed.

Lemma min_ok_mono_add l d j : min_ok d l = true -> min_ok (j + d) l = true.
Proof. induction j; cbn; auto. intros H. apply min_ok_mono. auto. Qed.

(* an arbitrary element below depth >= 1 is harmless *)
Lemma min_ok_free x l d : min_ok d l = true -> min_ok (S d) (x :: l) = true.
Proof.
  intros H. cbn [min_ok]. destruct (is_skip x); [apply min_ok_mono; exact H|].
  destruct (is_dotdot x); [exact H|]. apply min_ok_mono, min_ok_mono. exact H.
Qed.

Lemma min_ok_normal x l d : normalP x -> min_ok (S d) l = true -> min_ok d (x :: l) = true.
Proof. intros Hx H. cbn [min_ok]. rewrite (normal_not_skip x Hx), (normal_not_dd x Hx). exact H. Qed.

Lemma min_ok_skip x l d : is_skip x = true -> min_ok d l = true -> min_ok d (x :: l) = true.
Proof. intros Hx H. cbn [min_ok]. rewrite Hx. exact H. Qed.

(* from depth d below the base with a stack whose bottom is the base: staying within keeps the base *)
Lemma stack_keeps_base accB l : Forall normalP accB -> forall nb, Forall normalP nb ->
  min_ok (length nb) l = true -> exists nb', stack true (nb ++ accB) l = nb' ++ accB.
Proof.
  intros HB. induction l as [|s l IH]; intros nb Hnb H; cbn [stack min_ok] in *.
  - exists nb. reflexivity.
  - destruct (is_skip s) eqn:Es; [apply IH; auto|].
    destruct (is_dotdot s) eqn:Ed.
    + destruct nb as [|top nb0]; [discriminate|]. cbn [app length] in *.
      inversion Hnb as [|? ? Ht Hn0]; subst. rewrite (normal_not_dd top Ht). apply IH; auto.
    + change (s :: nb ++ accB) with ((s :: nb) ++ accB). apply IH; auto.
      constructor; auto. apply normal_intro; auto.
Qed.

Theorem concat_confined D r : is_dir D -> min_ok 0 (split r) = true -> confined D (D ++ r) = true.
Proof.
  intros [Hr [D' ->]] H. unfold confined.
  assert (rooted ((D' ++ [SL]) ++ r) = true) as ->.
  { destruct D'; cbn in *; auto. }
  cbn [andb]. rewrite abs_segs_dir.
  set (B := abs_segs (D' ++ [SL])).
  destruct (stack_keeps_base (rev B) (split r) (Forall_rev _ _ (abs_segs_normal _)) [] (Forall_nil _) H) as [nb' E].
  cbn [app] in E. rewrite E. rewrite rev_app_distr, rev_involutive. apply seg_prefix_nil_app.
Qed.

(* filepath.Join(D ++ sub ++ "/", name) with sub one normal element: confined to D as long as
   the name stays within one level above the sub-directory *)
Theorem gojoin_subdir_confined D sub name : is_dir D -> normalP sub -> no_slash sub = true ->
  stays_within 1 name = true -> confined D (gojoin [D ++ sub ++ [SL]; name]) = true.
Proof.
  intros HD Hsub Hns Hn.
  assert (Hne : D ++ sub ++ [SL] <> []) by (destruct HD as [Hr _]; destruct D; [discriminate|discriminate]).
  rewrite gojoin2 by exact Hne.
  assert (Hrp : rooted ((D ++ sub ++ [SL]) ++ SL :: name) = true).
  { destruct HD as [Hr _]. destruct D; [discriminate|exact Hr]. }
  unfold confined. rewrite rooted_clean by exact Hrp. rewrite abs_segs_clean by exact Hrp.
  assert (E : (D ++ sub ++ [SL]) ++ SL :: name = D ++ (sub ++ SL :: SL :: name)).
  { rewrite <- !app_assoc. reflexivity. }
  rewrite E.
  pose proof (concat_confined D (sub ++ SL :: SL :: name) HD) as C.
  unfold confined in C. rewrite <- E in C at 1. rewrite Hrp in C. apply C.
  rewrite split_app_slash. rewrite split_no_slash by exact Hns. cbn [app].
  apply min_ok_normal; [exact Hsub|]. exact Hn.
Qed.

(* ---------- normal elements built from literals and suffixes ---------- *)
Lemma bytes_eqb_neq_last x sfx c0 lit : last (x ++ sfx) c0 <> last lit c0 -> bytes_eqb (x ++ sfx) lit = false.
Proof.
  intros H. destruct (bytes_eqb (x ++ sfx) lit) eqn:E; auto. apply bytes_eqb_eq in E. rewrite E in H. congruence.
Qed.

Lemma last_app_ne {A} (x s : list A) d : s <> [] -> last (x ++ s) d = last s d.
Proof.
  intros Hs. induction x as [|a x IH]; cbn [app]; auto.
  cbn [last]. destruct (x ++ s) eqn:E; [destruct x; cbn in E; congruence|]. exact IH.
Qed.

(* x ++ sfx is a normal element when sfx is non-empty and does not end in '.' *)
Lemma normal_with_suffix x sfx : sfx <> [] -> last sfx 0 <> DOT -> normalP (x ++ sfx).
Proof.
  intros Hne Hl. apply normal_intro.
  - unfold is_skip. destruct (x ++ sfx) eqn:E; [destruct x; cbn in E; congruence|]. rewrite <- E.
    unfold is_dot. apply (bytes_eqb_neq_last x sfx 0). rewrite last_app_ne by exact Hne. exact Hl.
  - unfold is_dotdot. apply (bytes_eqb_neq_last x sfx 0). rewrite last_app_ne by exact Hne. exact Hl.
Qed.

Lemma numeral_no_slash s : numeral s = true -> no_slash s = true.
Proof.
  unfold numeral, no_slash. destruct s as [|c s]; [discriminate|]. intros H.
  apply forallb_forall. intros x Hx. pose proof (proj1 (forallb_forall _ _) H x Hx) as Hc. cbv beta in Hc.
  unfold is_digit, SL in *. lia.
Qed.

Lemma numeral_normal s : numeral s = true -> normalP s.
Proof.
  intros H. destruct s as [|c s]; [discriminate|].
  assert (Hc : c <> DOT).
  { unfold numeral in H. cbn [forallb] in H. unfold is_digit, DOT in *. lia. }
  apply normal_intro.
  - cbn. unfold is_dot, bytes_eqb. cbn [list_eqb]. apply N.eqb_neq in Hc. rewrite Hc. reflexivity.
  - unfold is_dotdot, bytes_eqb, DD. cbn [list_eqb]. apply N.eqb_neq in Hc. rewrite Hc. reflexivity.
Qed.

Lemma uuid_no_slash s : uuid_like s = true -> no_slash s = true.
Proof.
  unfold uuid_like, no_slash. destruct s as [|c s]; [discriminate|]. intros H.
  apply forallb_forall. intros x Hx. pose proof (proj1 (forallb_forall _ _) H x Hx) as Hc. cbv beta in Hc.
  unfold uuid_char, is_digit, SL in *. lia.
Qed.

Lemma mem_forall x tbl (P : list N -> bool) : forallb P tbl = true -> mem x tbl = true -> P x = true.
Proof.
  induction tbl as [|y tbl IH]; cbn; [discriminate|]. intros H M.
  apply andb_true_iff in H. destruct H as [Hy Ht]. apply orb_true_iff in M. destruct M as [M|M]; auto.
  apply bytes_eqb_eq in M. subst. exact Hy.
Qed.

(* host id: a single normal path element *)
Definition good_host (H : list N) : Prop := no_slash H = true /\ normalP H.

Ltac norm_app := repeat rewrite <- app_assoc; cbn [app].

(* ---------- per-site theorems ---------- *)
(* lookup upload *)
Theorem site_lookup_upload_guarded D name gz : is_dir D ->
  stays_within 1 (upload_name name gz) = true -> confined D (site_lookup_upload D name gz) = true.
Proof.
  intros HD H. unfold site_lookup_upload, lookups_dir.
  apply gojoin_subdir_confined; auto; reflexivity.
Qed.

(* lookup get / delete: the router hands over one raw element *)
Theorem site_lookup_file_confined D name : is_dir D -> no_slash name = true ->
  confined D (site_lookup_file D name) = true.
Proof.
  intros HD Hn. unfold site_lookup_file, lookups_dir. apply gojoin_subdir_confined; auto; try reflexivity.
  unfold stays_within. rewrite split_no_slash by exact Hn. apply min_ok_free. reflexivity.
Qed.

Theorem site_inputlookup_guarded D f : is_dir D -> stays_within 1 f = true ->
  confined D (site_inputlookup D f) = true.
Proof. intros HD H. unfold site_inputlookup, lookups_dir. apply gojoin_subdir_confined; auto; reflexivity. Qed.

Lemma split3 a b c : split (a ++ SL :: b ++ SL :: c) = split a ++ split b ++ split c.
Proof. rewrite split_app_slash, split_app_slash. reflexivity. Qed.

Theorem site_dashboard_confined D H id : is_dir D -> good_host H -> no_slash id = true ->
  confined D (site_dashboard D H id) = true.
Proof.
  intros HD [Hh1 Hh2] Hid. unfold site_dashboard. apply concat_confined; auto.
  norm_app. rewrite !split_app_slash.
  rewrite (split_no_slash H Hh1), (split_no_slash (id ++ s_json)) by (rewrite no_slash_app, Hid; reflexivity).
  cbn [split app]. cbn -[min_ok].
  apply min_ok_normal; [reflexivity|]. apply min_ok_normal; [exact Hh2|].
  apply min_ok_normal; [reflexivity|]. apply min_ok_normal; [reflexivity|].
  apply min_ok_normal; [|reflexivity]. apply normal_with_suffix; [discriminate|cbn; unfold DOT; lia].
Qed.

Theorem site_scroll_confined D H table id : is_dir D -> good_host H ->
  forallb uuid_like table = true -> scroll_ok table id = true ->
  confined D (site_scroll D H id) = true.
Proof.
  intros HD [Hh1 Hh2] Ht Hm.
  assert (Hid : no_slash id = true) by (apply uuid_no_slash; apply (mem_forall id table uuid_like Ht Hm)).
  unfold site_scroll. apply concat_confined; auto.
  norm_app. rewrite !split_app_slash.
  rewrite (split_no_slash H Hh1), (split_no_slash (id ++ s_csv)) by (rewrite no_slash_app, Hid; reflexivity).
  cbn -[min_ok].
  apply min_ok_normal; [exact Hh2|]. apply min_ok_normal; [reflexivity|].
  apply min_ok_normal; [|reflexivity]. apply normal_with_suffix; [discriminate|cbn; unfold DOT; lia].
Qed.

Theorem site_suffix_file_guarded D H idx sid : is_dir D -> good_host H -> no_slash idx = true -> no_slash sid = true ->
  confined D (site_suffix_file D H idx sid) = true.
Proof.
  intros HD [Hh1 Hh2] Hi Hs. unfold site_suffix_file. apply concat_confined; auto.
  norm_app. rewrite !split_app_slash.
  rewrite (split_no_slash H Hh1), (split_no_slash idx Hi), (split_no_slash (sid ++ s_dotsuffix)) by (rewrite no_slash_app, Hs; reflexivity).
  cbn -[min_ok].
  apply min_ok_normal; [exact Hh2|]. apply min_ok_normal; [reflexivity|].
  apply min_ok_free. apply min_ok_free. reflexivity.
Qed.

Theorem site_segdir_guarded D H idx sid suf : is_dir D -> good_host H -> no_slash idx = true ->
  numeral sid = true -> numeral suf = true ->
  confined D (site_segdir D H idx sid suf) = true.
Proof.
  intros HD [Hh1 Hh2] Hi Hs Hu. unfold site_segdir. apply concat_confined; auto.
  norm_app. rewrite !split_app_slash.
  rewrite (split_no_slash H Hh1), (split_no_slash idx Hi), (split_no_slash sid (numeral_no_slash _ Hs)),
          (split_no_slash suf (numeral_no_slash _ Hu)).
  cbn -[min_ok].
  apply min_ok_normal; [exact Hh2|]. apply min_ok_normal; [reflexivity|].
  apply min_ok_free.
  apply min_ok_normal; [apply numeral_normal; exact Hs|].
  apply min_ok_normal; [apply numeral_normal; exact Hu|]. reflexivity.
Qed.

Theorem site_active_dir_guarded D H idx : is_dir D -> good_host H -> no_slash idx = true ->
  confined D (site_active_dir D H idx) = true.
Proof.
  intros HD [Hh1 Hh2] Hi. unfold site_active_dir. apply concat_confined; auto.
  norm_app. rewrite !split_app_slash.
  rewrite (split_no_slash H Hh1), (split_no_slash idx Hi).
  cbn -[min_ok].
  apply min_ok_normal; [exact Hh2|]. apply min_ok_normal; [reflexivity|].
  apply min_ok_free. reflexivity.
Qed.

Lemma vt_site_confined D H org idx dirname : is_dir D -> good_host H ->
  normalP dirname -> no_slash dirname = true ->
  (org = [] \/ numeral org = true) -> no_slash idx = true ->
  confined D (D ++ s_ingestnodes ++ [SL] ++ H ++ [SL] ++ s_vtabledata ++ [SL] ++ dirname ++ [SL] ++ org_pfx org ++ idx ++ s_json) = true.
Proof.
  intros HD [Hh1 Hh2] Hd1 Hd2 Ho Hi. apply concat_confined; auto.
  assert (Hlast : normalP (idx ++ s_json)) by (apply normal_with_suffix; [discriminate|cbn; unfold DOT; lia]).
  assert (Hlns : no_slash (idx ++ s_json) = true) by (rewrite no_slash_app, Hi; reflexivity).
  destruct Ho as [-> | Ho].
  - cbn [org_pfx]. norm_app. rewrite !split_app_slash.
    rewrite (split_no_slash H Hh1), (split_no_slash dirname Hd2), (split_no_slash _ Hlns).
    cbn -[min_ok].
    apply min_ok_normal; [reflexivity|]. apply min_ok_normal; [exact Hh2|].
    apply min_ok_normal; [reflexivity|]. apply min_ok_normal; [exact Hd1|].
    apply min_ok_normal; [exact Hlast|reflexivity].
  - assert (org_pfx org = org ++ [SL]) as -> by (destruct org; [discriminate|reflexivity]).
    norm_app. rewrite !split_app_slash.
    rewrite (split_no_slash H Hh1), (split_no_slash dirname Hd2), (split_no_slash _ Hlns),
            (split_no_slash org (numeral_no_slash org Ho)).
    cbn -[min_ok].
    apply min_ok_normal; [reflexivity|]. apply min_ok_normal; [exact Hh2|].
    apply min_ok_normal; [reflexivity|]. apply min_ok_normal; [exact Hd1|].
    apply min_ok_normal; [apply numeral_normal; exact Ho|].
    apply min_ok_normal; [exact Hlast|reflexivity].
Qed.

Theorem site_mapping_guarded D H org idx : is_dir D -> good_host H ->
  (org = [] \/ numeral org = true) -> no_slash idx = true ->
  confined D (site_mapping D H org idx) = true.
Proof. intros. unfold site_mapping. apply vt_site_confined; auto; reflexivity. Qed.

Theorem site_alias_guarded D H org idx : is_dir D -> good_host H ->
  (org = [] \/ numeral org = true) -> no_slash idx = true ->
  confined D (site_alias D H org idx) = true.
Proof. intros. unfold site_alias. apply vt_site_confined; auto; reflexivity. Qed.

Theorem site_metrics_confined D H mid suf : is_dir D -> good_host H ->
  numeral mid = true -> numeral suf = true ->
  confined D (site_metrics D H mid suf) = true.
Proof.
  intros HD [Hh1 Hh2] Hm Hs. unfold site_metrics. apply concat_confined; auto.
  norm_app. rewrite !split_app_slash.
  rewrite (split_no_slash H Hh1), (split_no_slash mid (numeral_no_slash _ Hm)), (split_no_slash suf (numeral_no_slash _ Hs)).
  cbn -[min_ok].
  apply min_ok_normal; [exact Hh2|]. apply min_ok_normal; [reflexivity|]. apply min_ok_normal; [reflexivity|].
  apply min_ok_normal; [apply numeral_normal; exact Hm|].
  apply min_ok_normal; [apply numeral_normal; exact Hs|]. reflexivity.
Qed.

Theorem site_tagstree_guarded D H mid suf key : is_dir D -> good_host H ->
  numeral mid = true -> numeral suf = true -> no_slash key = true ->
  confined D (site_tagstree D H mid suf key) = true.
Proof.
  intros HD [Hh1 Hh2] Hm Hs Hk. unfold site_tagstree. apply concat_confined; auto.
  norm_app. rewrite !split_app_slash.
  rewrite (split_no_slash H Hh1), (split_no_slash mid (numeral_no_slash _ Hm)), (split_no_slash suf (numeral_no_slash _ Hs)),
          (split_no_slash key Hk).
  cbn -[min_ok].
  apply min_ok_normal; [exact Hh2|]. apply min_ok_normal; [reflexivity|]. apply min_ok_normal; [reflexivity|].
  apply min_ok_normal; [apply numeral_normal; exact Hm|].
  apply min_ok_normal; [apply numeral_normal; exact Hs|]. apply min_ok_free. reflexivity.
Qed.

Theorem site_usq_confined D H org : is_dir D -> good_host H -> (org = [] \/ numeral org = true) ->
  confined D (site_usq D H org) = true.
Proof.
  intros HD [Hh1 Hh2] Ho. unfold site_usq. apply concat_confined; auto.
  set (tail := match org with [] => [] | _ :: _ => 45 :: org end).
  assert (Hns : no_slash (s_usqinfo ++ tail ++ s_bin) = true).
  { rewrite !no_slash_app. destruct Ho as [-> | Ho]; [reflexivity|].
    subst tail. destruct org as [|c o]; [discriminate|].
    change (no_slash (45 :: c :: o)) with (no_slash (c :: o)). rewrite (numeral_no_slash _ Ho). reflexivity. }
  assert (Hnm : normalP (s_usqinfo ++ tail ++ s_bin)).
  { rewrite app_assoc. apply normal_with_suffix; [discriminate|cbn; unfold DOT; lia]. }
  norm_app. rewrite !split_app_slash.
  rewrite (split_no_slash H Hh1), (split_no_slash _ Hns).
  cbn -[min_ok].
  apply min_ok_normal; [reflexivity|]. apply min_ok_normal; [exact Hh2|]. apply min_ok_normal; [reflexivity|].
  apply min_ok_normal; [exact Hnm|reflexivity].
Qed.

(* ---------- since fix C19-validate-names: the code's validator implies confinement ---------- *)
Lemma safe_no_slash s : safe_component s = true -> no_slash s = true.
Proof.
  unfold safe_component, no_slash. destruct s as [|c s]; [discriminate|]. intros H.
  apply andb_true_iff in H. destruct H as [_ H].
  apply forallb_forall. intros x Hx. pose proof (proj1 (forallb_forall _ _) H x Hx) as Hc.
  unfold safe_char in Hc. apply andb_true_iff in Hc. destruct Hc as [Hc _]. apply andb_true_iff in Hc. tauto.
Qed.

Lemma no_slash_stays1 x : no_slash x = true -> stays_within 1 x = true.
Proof. intros H. unfold stays_within. rewrite split_no_slash by exact H. apply min_ok_free. reflexivity. Qed.

Theorem site_lookup_upload_confined D name gz : is_dir D -> upload_ok name = true ->
  confined D (site_lookup_upload D name gz) = true.
Proof.
  intros HD H. apply site_lookup_upload_guarded; auto. apply no_slash_stays1.
  apply safe_no_slash in H. unfold upload_name.
  destruct (has_suffix (lower name) s_csv || has_suffix (lower name) s_csvgz); auto.
  rewrite no_slash_app, H. destruct gz; reflexivity.
Qed.

Theorem site_inputlookup_confined D f : is_dir D -> inputlookup_ok f = true ->
  confined D (site_inputlookup D f) = true.
Proof.
  intros HD H. unfold inputlookup_ok in H. apply andb_true_iff in H. destruct H as [H _].
  apply site_inputlookup_guarded; auto. apply no_slash_stays1, safe_no_slash, H.
Qed.

Theorem site_bulk_index_confined D H idx sid suf : is_dir D -> good_host H -> index_ok idx = true ->
  numeral sid = true -> numeral suf = true ->
  confined D (site_suffix_file D H idx sid) = true /\
  confined D (site_segdir D H idx sid suf) = true /\
  confined D (site_active_dir D H idx) = true.
Proof.
  intros HD HH Hi Hs Hu. apply safe_no_slash in Hi. repeat split.
  - apply site_suffix_file_guarded; auto. apply numeral_no_slash; auto.
  - apply site_segdir_guarded; auto.
  - apply site_active_dir_guarded; auto.
Qed.

Theorem site_alias_confined D H org idx : is_dir D -> good_host H ->
  (org = [] \/ numeral org = true) -> alias_ok idx = true -> confined D (site_alias D H org idx) = true.
Proof. intros. apply site_alias_guarded; auto. apply safe_no_slash; auto. Qed.

Theorem site_tagstree_confined D H mid suf key : is_dir D -> good_host H ->
  numeral mid = true -> numeral suf = true -> tagkey_ok key = true ->
  confined D (site_tagstree D H mid suf key) = true.
Proof. intros. apply site_tagstree_guarded; auto. apply safe_no_slash; auto. Qed.

(* ---------- refutations: the validators the code applied BEFORE the fix do not confine (kept as
   documentation; for route-parameter sites: what happens without the router's guarantee) ---------- *)
Definition wD : list N := [47;100;47].            (* "/d/" *)
Definition wH : list N := [104].                   (* "h" *)
Definition w_up3 : list N := [46;46;47;46;46;47;46;46;47;120].     (* "../../../x" *)
Definition w_up2csv : list N := [46;46;47;46;46;47;120;46;99;115;118]. (* "../../x.csv" *)
Definition w_up6 : list N := [46;46;47;46;46;47;46;46;47;46;46;47;46;46;47;46;46;47;120]. (* 6 x "../" + "x" *)

Lemma wD_is_dir : is_dir wD.
Proof. split; [reflexivity|]. exists [47;100]. reflexivity. Qed.
Lemma wH_good : good_host wH.
Proof. split; reflexivity. Qed.

Theorem site_lookup_upload_refuted : exists D name gz,
  is_dir D /\ upload_ok_v0 name = true /\ confined D (site_lookup_upload D name gz) = false.
Proof. exists wD, w_up3, false. split; [exact wD_is_dir|]. split; vm_compute; reflexivity. Qed.

Theorem site_lookup_file_unguarded_refuted : exists D name,
  is_dir D /\ confined D (site_lookup_file D name) = false.
Proof. exists wD, w_up3. split; [exact wD_is_dir|]. vm_compute; reflexivity. Qed.

Theorem site_inputlookup_refuted : exists D f,
  is_dir D /\ inputlookup_ok_v0 f = true /\ confined D (site_inputlookup D f) = false.
Proof. exists wD, w_up2csv. split; [exact wD_is_dir|]. split; vm_compute; reflexivity. Qed.

Theorem site_dashboard_unguarded_refuted : exists D H id,
  is_dir D /\ good_host H /\ confined D (site_dashboard D H id) = false.
Proof. exists wD, wH, w_up6. split; [exact wD_is_dir|]. split; [exact wH_good|]. vm_compute; reflexivity. Qed.

Theorem site_bulk_index_refuted : exists D H idx sid suf,
  is_dir D /\ good_host H /\ numeral sid = true /\ numeral suf = true /\
  confined D (site_suffix_file D H idx sid) = false /\
  confined D (site_segdir D H idx sid suf) = false /\
  confined D (site_active_dir D H idx) = false.
Proof.
  exists wD, wH, w_up3, [48], [48]. split; [exact wD_is_dir|]. split; [exact wH_good|].
  repeat split; vm_compute; reflexivity.
Qed.

Theorem site_alias_refuted : exists D H idx,
  is_dir D /\ good_host H /\ confined D (site_alias D H [] idx) = false /\ confined D (site_mapping D H [] idx) = false.
Proof. exists wD, wH, w_up6. split; [exact wD_is_dir|]. split; [exact wH_good|]. split; vm_compute; reflexivity. Qed.

Theorem site_tagstree_refuted : exists D H mid suf key,
  is_dir D /\ good_host H /\ numeral mid = true /\ numeral suf = true /\
  confined D (site_tagstree D H mid suf key) = false.
Proof.
  exists wD, wH, [48], [48], w_up6. split; [exact wD_is_dir|]. split; [exact wH_good|].
  repeat split; vm_compute; reflexivity.
Qed.

(* inputlookup with ALL client options and at every cursor position *)
Theorem inputlookup_open_iff D o cursor f p :
  inputlookup_open D o cursor f = Some p <-> inputlookup_ok f = true /\ p = site_inputlookup D f.
Proof.
  unfold inputlookup_open. destruct (inputlookup_ok f); split.
  - intros E. inversion E. auto.
  - intros [_ ->]. reflexivity.
  - discriminate.
  - intros [E _]. discriminate.
Qed.

Theorem inputlookup_open_confined D o cursor f p : is_dir D ->
  inputlookup_open D o cursor f = Some p -> confined D p = true.
Proof.
  intros HD E. apply inputlookup_open_iff in E. destruct E as [Hok ->].
  apply site_inputlookup_confined; auto.
Qed.

Theorem inputlookup_open_options_irrelevant D o c o' c' f :
  inputlookup_open D o c f = inputlookup_open D o' c' f.
Proof. reflexivity. Qed.

Theorem lookup_upload_open_confined D name gz ow ex p : is_dir D ->
  lookup_upload_open D name gz ow ex = Some p -> confined D p = true.
Proof.
  intros HD. unfold lookup_upload_open. destruct (upload_ok name) eqn:Hok; [|discriminate].
  destruct (ex && negb ow); [discriminate|]. intros E. inversion E. subst.
  apply site_lookup_upload_confined; auto.
Qed.

(* delete-index: expansion, then per-name validation *)
Theorem delete_index_confined D H L expanded p : is_dir D -> good_host H ->
  In p (delete_index_removed D H L expanded) -> confined D p = true.
Proof.
  intros HD HH Hin. unfold delete_index_removed in Hin.
  apply in_map_iff in Hin. destruct Hin as (n & <- & Hn).
  apply filter_In in Hn. destruct Hn as [_ Hn]. apply andb_true_iff in Hn. destruct Hn as [Hok _].
  apply site_active_dir_guarded; auto. apply safe_no_slash. exact Hok.
Qed.

Lemma register_index_safe L name : Forall (fun n => index_ok n = true) L ->
  Forall (fun n => index_ok n = true) (register_index L name).
Proof.
  intros HL. unfold register_index. destruct (index_ok name) eqn:E; auto.
  destruct (mem name L); auto. apply Forall_app. split; auto.
Qed.

Theorem register_all_safe names : forall L, Forall (fun n => index_ok n = true) L ->
  Forall (fun n => index_ok n = true) (fold_left register_index names L).
Proof.
  induction names as [|n names IH]; intros L HL; cbn [fold_left]; auto.
  apply IH. apply register_index_safe. exact HL.
Qed.

(* the validator rejects every witness of the pre-fix refutations, and accepts ordinary names *)
Example validator_rejects_witnesses :
  safe_component w_up3 = false /\ safe_component w_up2csv = false /\ safe_component w_up6 = false /\
  safe_component DD = false /\ safe_component [DOT] = false /\ safe_component [] = false /\
  safe_component [97;92;98] = false /\ safe_component [97;0] = false.
Proof. repeat split; vm_compute; reflexivity. Qed.
Example validator_sat :
  upload_ok [97;46;99;115;118] = true /\ inputlookup_ok [97;46;99;115;118] = true /\
  index_ok [105;45;49;46;120] = true /\ tagkey_ok [46;46;46] = true.
Proof. repeat split; vm_compute; reflexivity. Qed.

Theorem inputlookup_cursor0_refuted : exists D o f p,
  is_dir D /\ il_start o <> 0 /\ inputlookup_open D o (il_start o) f = None /\
  inputlookup_open_cursor0 D o (il_start o) f = Some p /\ confined D p = false.
Proof.
  exists wD, (mk_il 1 1000000000 false false false true), w_up2csv, (site_inputlookup wD w_up2csv).
  split; [exact wD_is_dir|]. split; [discriminate|]. repeat split; vm_compute; reflexivity.
Qed.

Definition w_star_v : list N := [42;118].   (* "*v" *)
Definition w_up3v : list N := [46;46;47;46;46;47;46;46;47;118].   (* "../../../v" *)
Theorem delete_index_reqonly_refuted : exists D H req L p,
  is_dir D /\ good_host H /\ index_ok req = true /\
  delete_index_removed D H L (expand_simple req L) = [] /\
  In p (delete_index_removed_reqonly D H req L (expand_simple req L)) /\ confined D p = false.
Proof.
  exists wD, wH, w_star_v, [w_up3v], (site_active_dir wD wH w_up3v).
  split; [exact wD_is_dir|]. split; [exact wH_good|]. split; [vm_compute; reflexivity|].
  split; [vm_compute; reflexivity|]. split; [vm_compute; left; reflexivity|vm_compute; reflexivity].
Qed.

(* non-vacuity of the guards *)
Example guard_upload_sat : stays_within 1 (upload_name [97;98] false) = true /\ upload_ok [97;98] = true /\ upload_ok_v0 [97;98] = true.
Proof. repeat split; vm_compute; reflexivity. Qed.
Example guard_inputlookup_sat : stays_within 1 [97;46;99;115;118] = true /\ inputlookup_ok [97;46;99;115;118] = true.
Proof. split; vm_compute; reflexivity. Qed.
Example guard_no_slash_sat : no_slash [46;46] = true /\ no_slash [97;45;49] = true.
Proof. split; vm_compute; reflexivity. Qed.
Example guard_scroll_sat : forallb uuid_like [[97;49;45;98]] = true /\ scroll_ok [[97;49;45;98]] [97;49;45;98] = true.
Proof. split; vm_compute; reflexivity. Qed.
Example guard_numeral_sat : numeral [49;50] = true /\ numeral [45;53] = true.
Proof. split; vm_compute; reflexivity. Qed.
(* the guard of the upload theorem is as weak as possible for names that do not re-enter:
   one step more and the same name escapes *)
Example guard_upload_tight : stays_within 1 [46;46;47;46;46;47;120;46;99;115;118] = false /\
  confined wD (site_lookup_upload wD [46;46;47;46;46;47;120;46;99;115;118] false) = false /\
  stays_within 1 [46;46;47;120;46;99;115;118] = true /\
  confined wD (site_lookup_upload wD [46;46;47;120;46;99;115;118] false) = true.
Proof. repeat split; vm_compute; reflexivity. Qed.

(* PipeColsProofs.v — C06: commands that write columns batch by batch (rex, eval) mean the same
   for every batching; a stateless per-batch processor is chunk invariant EXACTLY when it is a
   function of the single record; the per-batch shortcut "no record matched -> IQR untouched" is
   refuted for rex and proved invisible when the capture groups are new columns. *)
From SigM Require Import Base Pipe PipeCols.
From SigP Require Import BaseProofs PipeProofs.
From Coq Require Import Lia Bool.
Open Scope N_scope.

(* ---------- stateless per-batch commands ---------- *)
Lemma batch_cmd_run_from F : forall bs s,
  concat (run_batches_from (batch_cmd F) s bs) = concat (map F bs).
Proof.
  induction bs as [|b bs IH]; intros s; simpl; [reflexivity|]. now rewrite IH.
Qed.

Lemma batch_cmd_run F bs : run (batch_cmd F) bs = concat (map F bs).
Proof. apply batch_cmd_run_from. Qed.

Lemma concat_map_flat_map {A B} (f : A -> list B) : forall bs,
  concat (map (flat_map f) bs) = flat_map f (concat bs).
Proof.
  induction bs as [|b bs IH]; simpl; [reflexivity|]. now rewrite flat_map_app, IH.
Qed.

(* Process() = a function of the single record  ==>  that function applied to the whole stream *)
Theorem batch_cmd_recordwise F f : (forall b, F b = flat_map f b) ->
  forall bs, run (batch_cmd F) bs = flat_map f (concat bs).
Proof.
  intros H bs. rewrite batch_cmd_run. rewrite <- concat_map_flat_map.
  f_equal. apply map_ext. exact H.
Qed.

(* ... and nothing else is chunk invariant: a stateless per-batch processor gives the same rows for
   every batching iff what it does to a batch is what it does to each record alone, concatenated.
   (This is the oracle <cmd>_record_depends_on_its_batch of the harness as a theorem.) *)
Theorem batch_cmd_chunk_inv_iff F :
  chunk_inv (batch_cmd F) <-> (forall b, F b = flat_map (fun r => F [r]) b).
Proof.
  split.
  - intros H.
    assert (H0 : F [] = []).
    { specialize (H []). rewrite !batch_cmd_run in H. simpl in H. rewrite app_nil_r in H. now symmetry. }
    assert (Ha : forall a b, F (a ++ b) = F a ++ F b).
    { intros a b. specialize (H [a; b]). rewrite !batch_cmd_run in H. simpl in H.
      rewrite !app_nil_r in H. now symmetry. }
    induction b as [|r b IH]; simpl; [exact H0|].
    change (r :: b) with ([r] ++ b). now rewrite Ha, IH.
  - intros H bs. rewrite (batch_cmd_recordwise F _ H bs), (batch_cmd_recordwise F _ H [concat bs]).
    simpl. now rewrite app_nil_r.
Qed.

(* a per-batch shortcut is harmless exactly as far as it agrees with the record function on the
   batches it applies to *)
Theorem shortcut_sound q F G f :
  (forall b, F b = flat_map f b) -> (forall b, q b = true -> G b = flat_map f b) ->
  forall bs, run (batch_cmd (shortcut q F G)) bs = flat_map f (concat bs).
Proof.
  intros HF HG. apply batch_cmd_recordwise. intros b. unfold shortcut.
  destruct (q b) eqn:E; [now apply HG | apply HF].
Qed.

(* ---------- columns and records ---------- *)
Fixpoint zipw {A : Type} (F : A -> row -> row) (hs : list A) (b : batch) : batch :=
  match hs with
  | [] => b
  | h :: hs' => match b with [] => [] | r :: b' => F h r :: zipw F hs' b' end
  end.

Lemma write_column_zipw {A} g (k : A -> value) : forall hs b,
  write_column g (map k hs) b = zipw (fun h r => set_field r g (k h)) hs b.
Proof.
  induction hs as [|h hs IH]; intros [|r b]; simpl; try reflexivity. now rewrite IH.
Qed.

Lemma zipw_zipw {A} (F G : A -> row -> row) : forall hs b,
  zipw F hs (zipw G hs b) = zipw (fun h r => F h (G h r)) hs b.
Proof.
  induction hs as [|h hs IH]; intros [|r b]; simpl; try reflexivity. now rewrite IH.
Qed.

Lemma zipw_id {A} : forall (hs : list A) b, zipw (fun _ r => r) hs b = b.
Proof.
  induction hs as [|h hs IH]; intros [|r b]; simpl; try reflexivity. now rewrite IH.
Qed.

Lemma zipw_map {A} (F : A -> row -> row) (k : row -> A) : forall b,
  zipw F (map k b) b = map (fun r => F (k r) r) b.
Proof. induction b as [|r b IH]; simpl; [reflexivity|]. now rewrite IH. Qed.

Lemma append_rex_columns : forall gs j hs b,
  append_known_values (rex_columns j gs hs) b = zipw (fun h r => rex_set j gs h r) hs b.
Proof.
  induction gs as [|g gs IH]; intros j hs b.
  - simpl. symmetry. apply zipw_id.
  - unfold append_known_values in *. simpl. rewrite write_column_zipw, IH, zipw_zipw. reflexivity.
Qed.

(* rexcommand.go Process() on one batch = the record function on every record of the batch *)
Theorem rex_batch_rowwise ext src gs b :
  rex_batch ext false src gs b = map (rex_row ext src gs) b.
Proof.
  destruct b as [|r b]; [reflexivity|].
  unfold rex_batch, read_column. set (bb := r :: b).
  change (map (fun r0 => get r0 src) bb) with (get r src :: map (fun r0 => get r0 src) b).
  cbv iota. simpl andb. cbv iota.
  change (get r src :: map (fun r0 => get r0 src) b) with (map (fun r0 => get r0 src) bb).
  rewrite map_map, append_rex_columns, zipw_map. reflexivity.
Qed.

Lemma flat_map_single {A B} (g : A -> B) l : flat_map (fun r => [g r]) l = map g l.
Proof. induction l as [|x l IH]; simpl; [reflexivity|]. now rewrite IH. Qed.

Theorem rex_spec ext src gs bs :
  run (rex_cmd false src gs ext) bs = map (rex_row ext src gs) (concat bs).
Proof.
  unfold rex_cmd. rewrite (batch_cmd_recordwise _ (fun r => [rex_row ext src gs r])).
  - apply flat_map_single.
  - intros b. rewrite rex_batch_rowwise. symmetry. apply flat_map_single.
Qed.

Theorem rex_chunk_inv ext src gs : chunk_inv (rex_cmd false src gs ext).
Proof. intros bs. rewrite !rex_spec. simpl. now rewrite app_nil_r. Qed.

(* ---------- what a record gets ---------- *)
Lemma field_eqb_spec a b : reflect (a = b) (field_eqb a b).
Proof.
  unfold field_eqb. destruct (list_eqb N.eqb a b) eqn:E; constructor.
  - now apply Nlist_eqb_eq.
  - intro H. apply Nlist_eqb_eq in H. congruence.
Qed.

Lemma get_set_field : forall r g v f,
  get (set_field r g v) f = if field_eqb g f then v else get r f.
Proof.
  induction r as [|[h w] t IH]; intros g v f; simpl.
  - reflexivity.
  - destruct (field_eqb_spec h g) as [->|Hn]; simpl.
    + now destruct (field_eqb g f).
    + rewrite IH. destruct (field_eqb_spec h f) as [->|Hf]; [|reflexivity].
      destruct (field_eqb_spec g f) as [->|]; [easy | reflexivity].
Qed.

Lemma get_rex_set_other f : forall gs j h r,
  existsb (fun g => field_eqb g f) gs = false -> get (rex_set j gs h r) f = get r f.
Proof.
  induction gs as [|g gs IH]; intros j h r H; simpl in *; [reflexivity|].
  apply orb_false_iff in H as [H1 H2]. rewrite IH by exact H2. now rewrite get_set_field, H1.
Qed.

(* a record that does not match: every capture-group column is null afterwards - also a column that
   existed before - and every other column is untouched *)
Theorem rex_row_no_match ext src gs r : ext (get r src) = None ->
  forall f, get (rex_row ext src gs r) f
            = if existsb (fun g => field_eqb g f) gs then VNull else get r f.
Proof.
  intros H f. unfold rex_row. rewrite H. clear H. generalize 0%nat as j. revert r.
  induction gs as [|g gs IH]; intros r j; simpl; [reflexivity|].
  rewrite IH, get_set_field. destruct (field_eqb g f); simpl; now destruct (existsb _ gs).
Qed.

(* a record that matches: group number i holds captured text number i (group names are distinct,
   Go's regexp rejects a pattern that repeats a name) *)
Theorem rex_row_match ext src gs r vs : ext (get r src) = Some vs -> NoDup gs ->
  forall i g, nth_error gs i = Some g -> get (rex_row ext src gs r) g = nth i vs VNull.
Proof.
  intros H Hnd i g Hi. unfold rex_row. rewrite H. clear H.
  change (nth i vs VNull) with (rex_cell (0 + i) (Some vs)). generalize 0%nat as j. revert r i Hi.
  induction Hnd as [|x gs Hx Hnd IH]; intros r i Hi j; [now destruct i|].
  destruct i as [|i]; simpl in *.
  - injection Hi as ->. rewrite get_rex_set_other.
    + rewrite get_set_field. destruct (field_eqb_spec g g); [|easy]. now rewrite Nat.add_0_r.
    + destruct (existsb (fun g0 => field_eqb g0 g) gs) eqn:E; [|reflexivity].
      apply existsb_exists in E as [y [Hy Hyg]]. destruct (field_eqb_spec y g); [subst; easy | easy].
  - rewrite (IH _ i Hi (S j)). now rewrite Nat.add_succ_r.
Qed.

(* ---------- the per-batch shortcut "no record of the batch matched" ---------- *)
Definition no_match_in_batch (ext : value -> option (list value)) (src : field) (b : batch) : bool :=
  forallb is_none (map ext (read_column src b)).

Lemma rex_skip_is_shortcut ext src gs b :
  rex_batch ext true src gs b
  = shortcut (no_match_in_batch ext src) (rex_batch ext false src gs) (fun x => x) b.
Proof.
  unfold shortcut, no_match_in_batch. destruct b as [|r b]; [reflexivity|].
  unfold rex_batch, read_column. simpl.
  destruct (is_none (ext (get r src)) && forallb is_none (map ext (map (fun r0 => get r0 src) b))); reflexivity.
Qed.

(* refuted: "1" matches (captured into the existing column a), "0" does not; the record that does not
   match keeps a = y when it travels alone and loses it when it shares a batch with the other one *)
Definition w_ext (v : value) : option (list value) :=
  match v with VStr [49] => Some [VStr [49]] | _ => None end.
Definition w_s : field := [115].
Definition w_a : field := [97].
Definition w_r1 : row := [(w_s, VStr [49]); (w_a, VStr [120])].
Definition w_r2 : row := [(w_s, VStr [48]); (w_a, VStr [121])].

Theorem rex_skip_refuted :
  exists ext src g bs,
    map (fun r => get r g) (run (rex_cmd true src [g] ext) bs)
    <> map (fun r => get r g) (run (rex_cmd true src [g] ext) [concat bs]).
Proof.
  exists w_ext, w_s, w_a, [[w_r1]; [w_r2]]. vm_compute. discriminate.
Qed.

Corollary rex_skip_not_chunk_inv : exists ext src gs, ~ chunk_inv (rex_cmd true src gs ext).
Proof.
  destruct rex_skip_refuted as (ext & src & g & bs & H).
  exists ext, src, [g]. intros C. apply H. now rewrite (C bs).
Qed.

(* the same stream, the code (no shortcut): null in both batchings *)
Example rex_witness_code :
  map (fun r => get r w_a) (run (rex_cmd false w_s [w_a] w_ext) [[w_r1]; [w_r2]]) = [VStr [49]; VNull]
  /\ map (fun r => get r w_a) (run (rex_cmd true w_s [w_a] w_ext) [[w_r1]; [w_r2]]) = [VStr [49]; VStr [121]]
  /\ map (fun r => get r w_a) (run (rex_cmd true w_s [w_a] w_ext) [[w_r1; w_r2]]) = [VStr [49]; VNull].
Proof. vm_compute. repeat split. Qed.

(* invisible when the capture groups are NEW columns (every unit test of rex): the shortcut gives rows
   with the same cells as the code for every batching *)
Lemma Forall2_row_equiv_refl b : Forall2 row_equiv b b.
Proof. induction b; constructor; [intro; reflexivity | assumption]. Qed.

Lemma forallb_none_all (ext : value -> option (list value)) src : forall b,
  forallb is_none (map ext (read_column src b)) = true ->
  forall r, In r b -> ext (get r src) = None.
Proof.
  induction b as [|x b IH]; simpl; intros H r Hin; [easy|].
  apply andb_true_iff in H as [H1 H2]. destruct Hin as [->|Hin]; [|now apply IH].
  now destruct (ext (get r src)).
Qed.

Lemma rex_skip_batch_guarded ext src gs b :
  (forall r, In r b -> forall g, In g gs -> get r g = VNull) ->
  Forall2 row_equiv (rex_batch ext true src gs b) (rex_batch ext false src gs b).
Proof.
  intros Hfresh. rewrite rex_skip_is_shortcut. unfold shortcut, no_match_in_batch.
  destruct (forallb is_none (map ext (read_column src b))) eqn:E; [|apply Forall2_row_equiv_refl].
  rewrite rex_batch_rowwise.
  pose proof (forallb_none_all ext src b E) as Hn. clear E.
  induction b as [|r b IH]; simpl; constructor.
  - intro f. rewrite (rex_row_no_match ext src gs r) by (apply Hn; now left).
    destruct (existsb (fun g => field_eqb g f) gs) eqn:Ex; [|reflexivity].
    apply existsb_exists in Ex as [g [Hg Hgf]]. destruct (field_eqb_spec g f); [subst|easy].
    apply Hfresh; [now left | exact Hg].
  - apply IH; intros; [apply Hfresh | apply Hn]; try (now right); assumption.
Qed.

Theorem rex_skip_guarded ext src gs bs :
  (forall r, In r (concat bs) -> forall g, In g gs -> get r g = VNull) ->
  Forall2 row_equiv (run (rex_cmd true src gs ext) bs) (run (rex_cmd false src gs ext) bs).
Proof.
  unfold rex_cmd. rewrite !batch_cmd_run. induction bs as [|b bs IH]; intros H; simpl; [constructor|].
  apply Forall2_app.
  - apply rex_skip_batch_guarded. intros r Hr. apply H. simpl. apply in_or_app. now left.
  - apply IH. intros r Hr. apply H. simpl. apply in_or_app. now right.
Qed.

(* the guard is satisfiable with the shortcut taken: new column, second batch without a match *)
Example rex_skip_guard_satisfiable :
  let bs := [[[(w_s, VStr [49])]]; [[(w_s, VStr [48])]]] in
  (forall r, In r (concat bs) -> forall g, In g [w_a] -> get r g = VNull)
  /\ no_match_in_batch w_ext w_s [[(w_s, VStr [48])]] = true.
Proof.
  split; [|reflexivity]. simpl. intros r [<-|[<-|[]]] g [<-|[]]; reflexivity.
Qed.

(* ---------- eval ---------- *)
Lemma zipw_self (F : row -> row -> row) : forall b, zipw F b b = map (fun r => F r r) b.
Proof. induction b as [|r b IH]; simpl; [reflexivity|]. now rewrite IH. Qed.

Theorem eval_batch_rowwise e f b : eval_batch e f b = map (fun r => set_field r f (e r)) b.
Proof.
  unfold eval_batch, append_known_values. simpl. rewrite write_column_zipw. apply zipw_self.
Qed.

Theorem eval_spec e f bs :
  run (eval_cmd e f) bs = map (fun r => set_field r f (e r)) (concat bs).
Proof.
  unfold eval_cmd. rewrite (batch_cmd_recordwise _ (fun r => [set_field r f (e r)])).
  - apply flat_map_single.
  - intros b. rewrite eval_batch_rowwise. symmetry. apply flat_map_single.
Qed.

Theorem eval_chunk_inv e f : chunk_inv (eval_cmd e f).
Proof. intros bs. rewrite !eval_spec. simpl. now rewrite app_nil_r. Qed.

(* PipeMergeProofs.v — C06: a DataProcessor that merges SEVERAL input streams (Pipe.v level D) in a
   chain that is rewound.  The leftovers that the merge hands back to the CachedStreams are part
   of the state a Rewind has to reset: whatever the number of streams, their batching and the
   moment at which the consumer stopped reading, the pass after a Rewind is the first pass. *)
From SigM Require Import Base Pipe.
From SigP Require Import BaseProofs PipeProofs PipeRewindProofs.
From Coq Require Import Lia ZifyN ZifyNat ZifyBool.
Open Scope N_scope.

(* ---------- the merge of the fetched IQRs is a piece of the k-way merge of the whole streams ---------- *)
Section KMerge.
  Variable less : row -> row -> bool.
  Notation total ls := (length (concat ls)).

  (* ---------- min_head ---------- *)
  Lemma min_head_some : forall its i best, best <> None -> min_head less i its best <> None.
  Proof.
    induction its as [|b t IH]; intros i best Hb; simpl; [exact Hb|].
    destruct b as [|r b']; [now apply IH|].
    destruct best as [[bi br]|]; [|congruence].
    destruct (less r br); apply IH; congruence.
  Qed.
  Lemma min_head_none : forall its i, min_head less i its None = None -> concat its = [].
  Proof.
    induction its as [|b t IH]; intros i H; simpl in *; [reflexivity|].
    destruct b as [|r b']; [simpl; now apply (IH (S i))|].
    exfalso. revert H. apply min_head_some. congruence.
  Qed.
  (* the chosen position holds the chosen record *)
  Lemma min_head_nth : forall its i best j r,
    min_head less i its best = Some (j, r) ->
    (best = Some (j, r)) \/ (i <= j /\ exists rest, nth (j - i) its [] = r :: rest)%nat.
  Proof.
    induction its as [|b t IH]; intros i best j r H; simpl in H; [now left|].
    destruct b as [|r0 b'].
    - destruct (IH _ _ _ _ H) as [E|(Hle & rest & E)]; [now left|right].
      split; [lia|]. exists rest. replace (j - i)%nat with (S (j - S i)) by lia. exact E.
    - destruct best as [[bi br]|].
      + destruct (less r0 br).
        * destruct (IH _ _ _ _ H) as [E|(Hle & rest & E)].
          -- inversion E; subst. right. split; [lia|]. exists b'. now rewrite Nat.sub_diag.
          -- right. split; [lia|]. exists rest. replace (j - i)%nat with (S (j - S i)) by lia. exact E.
        * destruct (IH _ _ _ _ H) as [E|(Hle & rest & E)]; [now left|right].
          split; [lia|]. exists rest. replace (j - i)%nat with (S (j - S i)) by lia. exact E.
      + destruct (IH _ _ _ _ H) as [E|(Hle & rest & E)].
        * inversion E; subst. right. split; [lia|]. exists b'. now rewrite Nat.sub_diag.
        * right. split; [lia|]. exists rest. replace (j - i)%nat with (S (j - S i)) by lia. exact E.
  Qed.
  Lemma min_head_nth0 its j r : min_head less O its None = Some (j, r) -> exists rest, nth j its [] = r :: rest.
  Proof.
    intros H. destruct (min_head_nth _ _ _ _ _ H) as [E|(_ & rest & E)]; [discriminate|].
    rewrite Nat.sub_0_r in E. now exists rest.
  Qed.

  (* only the first records matter *)
  Definition same_heads (a b : list batch) : Prop := Forall2 (fun x y => hd_error x = hd_error y) a b.
  Lemma min_head_heads : forall a b, same_heads a b -> forall i best, min_head less i a best = min_head less i b best.
  Proof.
    induction 1 as [|x y a b Hxy _ IH]; intros i best; [reflexivity|]. simpl.
    destruct x as [|rx x'], y as [|ry y']; simpl in Hxy; try discriminate; [apply IH|].
    inversion Hxy; subst. destruct best as [[bi br]|]; [destruct (less ry br)|]; apply IH.
  Qed.

  (* ---------- pop_at ---------- *)
  Lemma total_pop its j r rest : nth j its [] = r :: rest -> total its = S (total (pop_at j its)).
  Proof.
    revert j. induction its as [|b t IH]; intros j H; [destruct j; discriminate|].
    destruct j as [|j]; simpl in *.
    - subst b. simpl. reflexivity.
    - rewrite !app_length. unfold pop_at in IH. rewrite (IH j H). lia.
  Qed.

  (* ---------- fuel ---------- *)
  Lemma kmerge_fuel : forall f1 f2 ls, (total ls <= f1)%nat -> (total ls <= f2)%nat -> kmerge less f1 ls = kmerge less f2 ls.
  Proof.
    induction f1 as [|f1 IH]; intros f2 ls H1 H2.
    - assert (E : concat ls = []) by (destruct (concat ls); [reflexivity | simpl in H1; lia]).
      destruct f2 as [|f2]; [reflexivity|]. simpl.
      destruct (min_head less 0 ls None) as [[j r]|] eqn:Em; [|reflexivity].
      destruct (min_head_nth0 _ _ _ Em) as (rest & En). pose proof (total_pop _ _ _ _ En) as Ht.
      rewrite E in Ht. simpl in Ht. lia.
    - destruct f2 as [|f2].
      + assert (E : concat ls = []) by (destruct (concat ls); [reflexivity | simpl in H2; lia]).
        simpl. destruct (min_head less 0 ls None) as [[j r]|] eqn:Em; [|reflexivity].
        destruct (min_head_nth0 _ _ _ Em) as (rest & En). pose proof (total_pop _ _ _ _ En) as Ht.
        rewrite E in Ht. simpl in Ht. lia.
      + simpl. destruct (min_head less 0 ls None) as [[j r]|] eqn:Em; [|reflexivity].
        destruct (min_head_nth0 _ _ _ Em) as (rest & En). pose proof (total_pop _ _ _ _ En) as Ht.
        f_equal. apply IH; lia.
  Qed.
  Lemma kmerge_all_fuel f ls : (total ls <= f)%nat -> kmerge less f ls = kmerge_all less ls.
  Proof. intros H. unfold kmerge_all. apply kmerge_fuel; lia. Qed.

  Lemma kmerge_all_step ls i r : min_head less O ls None = Some (i, r) ->
    kmerge_all less ls = r :: kmerge_all less (pop_at i ls).
  Proof.
    intros Em. destruct (min_head_nth0 _ _ _ Em) as (rest & En). pose proof (total_pop _ _ _ _ En) as Ht.
    unfold kmerge_all at 1. rewrite Ht. simpl. now rewrite Em.
  Qed.
  Lemma kmerge_all_nil ls : concat ls = [] -> kmerge_all less ls = [].
  Proof. intros E. unfold kmerge_all. now rewrite E. Qed.

  (* ---------- what the merge sees (the fetched IQRs) in front of what the streams still hold ---------- *)
  Definition zipapp (curs tails : list batch) : list batch := map (fun ct => fst ct ++ snd ct) (combine curs tails).
  Definition heads_ok (curs tails : list batch) : Prop := Forall2 (fun c t => c = [] -> t = []) curs tails.

  Lemma heads_ok_length curs tails : heads_ok curs tails -> length curs = length tails.
  Proof. induction 1; simpl; congruence. Qed.
  Lemma heads_zip curs tails : heads_ok curs tails -> same_heads (zipapp curs tails) curs.
  Proof.
    induction 1 as [|c t curs tails Hct _ IH]; [constructor|]. unfold zipapp. simpl. constructor; [|exact IH].
    destruct c; [now rewrite Hct | reflexivity].
  Qed.
  Lemma pop_zip : forall curs tails j r rest, length curs = length tails -> nth j curs [] = r :: rest ->
    pop_at j (zipapp curs tails) = zipapp (pop_at j curs) tails.
  Proof.
    induction curs as [|c curs IH]; intros tails j r rest Hl Hn; [destruct j; discriminate|].
    destruct tails as [|t tails]; [discriminate|]. destruct j as [|j]; simpl in *.
    - subst c. reflexivity.
    - unfold pop_at, zipapp in *. simpl. f_equal. eapply IH; [lia | exact Hn].
  Qed.
  Lemma nth_pop : forall (its : list batch) i k, nth k (pop_at i its) [] = if Nat.eqb k i then tl (nth i its []) else nth k its [].
  Proof.
    induction its as [|b t IH]; intros i k.
    - destruct i, k; simpl; try reflexivity.
      destruct (Nat.eqb k i); reflexivity.
    - destruct i as [|i], k as [|k]; simpl; try reflexivity. apply IH.
  Qed.
  Lemma pop_length (its : list batch) i : length (pop_at i its) = length its.
  Proof. revert i. induction its as [|b t IH]; intros [|i]; simpl; try reflexivity. unfold pop_at in IH. now rewrite IH. Qed.
  Lemma heads_ok_pop : forall curs tails j, heads_ok curs tails -> nth j (pop_at j curs) [] <> [] -> heads_ok (pop_at j curs) tails.
  Proof.
    intros curs tails j H. revert j. induction H as [|c t curs tails Hct Hrest IH]; intros j Hn; [destruct j; constructor|].
    destruct j as [|j]; simpl in *.
    - constructor; [intros E; congruence | exact Hrest].
    - constructor; [exact Hct|]. now apply IH.
  Qed.
  Lemma concat_nil_nth : forall (its : list batch) k, concat its = [] -> nth k its [] = [].
  Proof.
    induction its as [|b t IH]; intros k E; [destruct k; reflexivity|].
    simpl in E. apply app_eq_nil in E. destruct E as [E1 E2]. destruct k; simpl; [exact E1 | now apply IH].
  Qed.

  (* the loop of MergeIQRs produces a piece of the k-way merge of the whole streams *)
  Lemma merge_loop_kmerge : forall fuel curs tails m j curs',
    heads_ok curs tails -> (total curs <= fuel)%nat ->
    merge_loop less fuel curs = (m, j, curs') ->
    kmerge_all less (zipapp curs tails) = m ++ kmerge_all less (zipapp curs' tails)
    /\ nth j curs' [] = [] /\ length curs' = length curs
    /\ (forall k, nth k curs [] = [] -> nth k curs' [] = []).
  Proof.
    induction fuel as [|f IH]; intros curs tails m j curs' H Hf E.
    - simpl in E. inversion E; subst. assert (Ec : concat curs' = []) by (destruct (concat curs'); [reflexivity | simpl in Hf; lia]).
      repeat split; try easy. now apply concat_nil_nth.
    - simpl in E. destruct (min_head less 0 curs None) as [[i r]|] eqn:Em.
      + destruct (min_head_nth0 _ _ _ Em) as (rest & En). pose proof (total_pop _ _ _ _ En) as Ht.
        assert (Hl : length curs = length tails) by (now apply heads_ok_length).
        assert (Ez : kmerge_all less (zipapp curs tails) = r :: kmerge_all less (zipapp (pop_at i curs) tails)).
        { rewrite (kmerge_all_step _ i r).
          - now rewrite (pop_zip _ _ _ r rest).
          - rewrite (min_head_heads _ _ (heads_zip _ _ H)). exact Em. }
        destruct (is_nil (nth i (pop_at i curs) [])) eqn:En2.
        * injection E as E1 E2 E3. subst m j curs'. split; [exact Ez|]. split; [destruct (nth i (pop_at i curs) []); [reflexivity|discriminate]|].
          split; [apply pop_length|]. intros k Hk. rewrite nth_pop. destruct (Nat.eqb k i) eqn:Eki; [|exact Hk].
          apply Nat.eqb_eq in Eki. subst k. rewrite Hk in En. discriminate.
        * destruct (merge_loop less f (pop_at i curs)) as [[m' j'] its2] eqn:El. injection E as E1 E2 E3. subst m j curs'.
          assert (Hp : heads_ok (pop_at i curs) tails).
          { apply heads_ok_pop; [exact H|]. intros Ex. rewrite Ex in En2. discriminate. }
          destruct (IH _ _ _ _ _ Hp ltac:(lia) El) as (K1 & K2 & K3 & K4).
          split; [rewrite Ez, K1; reflexivity|]. split; [exact K2|]. split; [rewrite K3; apply pop_length|].
          intros k Hk. apply K4. rewrite nth_pop. destruct (Nat.eqb k i) eqn:Eki; [|exact Hk].
          apply Nat.eqb_eq in Eki. subst k. rewrite Hk in En. discriminate.
      + inversion E; subst. pose proof (min_head_none _ _ Em) as Ec.
        repeat split; try easy. now apply concat_nil_nth.
  Qed.

  Lemma nth_nonnil_concat (its : list batch) k : nth k its [] <> [] -> concat its <> [].
  Proof. intros H E. apply H. now apply concat_nil_nth. Qed.

  (* the IQR that is reported as used up is one that held records *)
  Lemma merge_loop_exh : forall fuel (curs : list batch) m j curs', (total curs <= fuel)%nat -> concat curs <> [] ->
    merge_loop less fuel curs = (m, j, curs') -> nth j curs [] <> [].
  Proof.
    induction fuel as [|f IH]; intros curs m j curs' Hf Hne E.
    - exfalso. apply Hne. destruct (concat curs); [reflexivity | simpl in Hf; lia].
    - simpl in E. destruct (min_head less 0 curs None) as [[i r]|] eqn:Em.
      + destruct (min_head_nth0 _ _ _ Em) as (rest & En). pose proof (total_pop _ _ _ _ En) as Ht.
        destruct (is_nil (nth i (pop_at i curs) [])) eqn:En2.
        * injection E as E1 E2 E3. subst j. intros Ex. pose proof (eq_trans (eq_sym En) Ex) as Ey. discriminate Ey.
        * destruct (merge_loop less f (pop_at i curs)) as [[m' j'] its2] eqn:El. injection E as E1 E2 E3. subst j'.
          assert (Hn : nth i (pop_at i curs) [] <> []) by (intros Ex; rewrite Ex in En2; discriminate).
          assert (Hle : (total (pop_at i curs) <= f)%nat) by lia.
          pose proof (IH _ _ _ _ Hle (nth_nonnil_concat _ _ Hn) El) as Hj.
          rewrite nth_pop in Hj. destruct (Nat.eqb j i) eqn:Eji; [|exact Hj].
          apply Nat.eqb_eq in Eji. subst j. intros Ex. pose proof (eq_trans (eq_sym En) Ex) as Ey. discriminate Ey.
      + exfalso. apply Hne. now apply (min_head_none _ _ Em).
  Qed.

  (* ---------- the CachedStreams ---------- *)
  Definition cs_inv (c : cstream) : Prop := cs_exh c = true -> cs_rest c = [] /\ cs_unused c = None.
  (* what a stream will still deliver: its leftover, then what the wrapped stream has left *)
  Definition cs_rem (c : cstream) : batch := opt_list (cs_unused c) ++ concat (cs_rest c).
  (* IQRs it will still hand out *)
  Definition cs_mu (c : cstream) : nat := (length (cs_rest c) + if cs_unused c then 1 else 0)%nat.
  Definition mus (cs : list cstream) : nat := fold_right (fun c a => (cs_mu c + a)%nat) O cs.
  Definition count_some (os : list (option batch)) : nat := length (filter (fun o => negb (is_none o)) os).

  Lemma cs_fetch_spec ew c o c1 : cs_inv c -> cs_fetch ew c = (o, c1) ->
    cs_inv c1 /\ cs_unused c1 = None /\ cs_rem c = opt_list o ++ cs_rem c1 /\ (o = None -> cs_rem c1 = [])
    /\ cs_mu c = (cs_mu c1 + if o then 1 else 0)%nat.
  Proof.
    intros Hi E. destruct c as [rest un exh]. unfold cs_inv in Hi. unfold cs_fetch in E. simpl in *. destruct exh.
    - destruct (Hi eq_refl) as [Hr Hu]. subst rest un. inversion E; subst. unfold cs_rem, cs_mu. simpl. repeat split; easy.
    - destruct un as [b|].
      + inversion E; subst. unfold cs_inv, cs_rem, cs_mu. simpl. repeat split; try easy. lia.
      + destruct rest as [|b r].
        * inversion E; subst. unfold cs_inv, cs_rem, cs_mu. simpl. repeat split; easy.
        * inversion E; subst. unfold cs_inv, cs_rem, cs_mu. simpl.
          split; [intros Hx; destruct r; [easy|discriminate]|]. repeat split; try easy; lia.
  Qed.

  Lemma fetch_all_spec ew : forall cs os cs1, Forall cs_inv cs -> fetch_all ew cs = (os, cs1) ->
    Forall cs_inv cs1 /\ Forall (fun c => cs_unused c = None) cs1 /\ length cs1 = length os
    /\ map cs_rem cs = zipapp (map opt_list os) (map cs_rem cs1)
    /\ Forall2 (fun o t => o = None -> t = []) os (map cs_rem cs1)
    /\ mus cs = (mus cs1 + count_some os)%nat.
  Proof.
    induction cs as [|c t IH]; intros os cs1 Hi E.
    - inversion E; subst. repeat split; constructor.
    - simpl in E. destruct (cs_fetch ew c) as [o c1] eqn:Ef. destruct (fetch_all ew t) as [os' t'] eqn:Ea.
      inversion E; subst. inversion Hi; subst.
      destruct (cs_fetch_spec _ _ _ _ H1 Ef) as (A1 & A2 & A3 & A4 & A5).
      destruct (IH _ _ H2 eq_refl) as (B1 & B2 & B3 & B4 & B5 & B6).
      split; [now constructor|]. split; [now constructor|]. split; [simpl; congruence|].
      split; [unfold zipapp in *; simpl; now rewrite A3, B4|]. split; [now constructor|].
      unfold count_some in *. simpl. rewrite A5, B6. destruct o; simpl; lia.
  Qed.

  Lemma first_nil_none_heads : forall os tails i, first_nil i os = None ->
    Forall2 (fun o t => o = None -> t = []) os tails -> heads_ok (map opt_list os) tails.
  Proof.
    intros os tails i Hn H. revert i Hn. induction H as [|o t os tails Hot Hrest IH]; intros i Hn; [constructor|].
    simpl in Hn. destruct o as [[|r b]|]; try discriminate.
    - simpl. constructor; [discriminate | now apply (IH (S i))].
    - simpl. constructor; [intros _; now apply Hot | now apply (IH (S i))].
  Qed.
  Lemma first_nil_spec : forall os i e, first_nil i os = Some e ->
    (i <= e)%nat /\ nth (e - i) os None = Some [].
  Proof.
    induction os as [|o t IH]; intros i e H; [discriminate|]. simpl in H.
    destruct o as [[|r b]|].
    - inversion H; subst. rewrite Nat.sub_diag. split; [lia | reflexivity].
    - destruct (IH _ _ H) as [H1 H2]. split; [lia|]. replace (e - i)%nat with (S (e - S i)) by lia. exact H2.
    - destruct (IH _ _ H) as [H1 H2]. split; [lia|]. replace (e - i)%nat with (S (e - S i)) by lia. exact H2.
  Qed.

  Lemma put_unused_spec : forall os rems cs1 j exh,
    length rems = length os -> length cs1 = length os ->
    Forall (fun c => cs_unused c = None) cs1 -> Forall cs_inv cs1 ->
    (forall i, nth i os (Some []) = None -> nth i rems [] = []) ->
    (forall i, (j + i)%nat = exh -> nth i rems [] = []) ->
    map cs_rem (put_unused j exh os rems cs1) = zipapp rems (map cs_rem cs1)
    /\ Forall cs_inv (put_unused j exh os rems cs1)
    /\ (mus (put_unused j exh os rems cs1)
         + (if (j <=? exh)%nat then match nth (exh - j) os None with Some _ => 1 | None => 0 end else 0)
        = mus cs1 + count_some os)%nat.
  Proof.
    induction os as [|o os IH]; intros rems cs1 j exh L1 L2 Hu Hi Hn He.
    - destruct rems; [|discriminate]. destruct cs1; [|discriminate]. simpl.
      repeat split; try constructor. destruct (j <=? exh)%nat; destruct (exh - j)%nat; reflexivity.
    - destruct rems as [|r rems]; [discriminate|]. destruct cs1 as [|c cs1]; [discriminate|].
      inversion Hu; subst. inversion Hi; subst. simpl in L1, L2.
      destruct (IH rems cs1 (S j) exh ltac:(lia) ltac:(lia) H2 H4
                  (fun i Hx => Hn (S i) Hx) (fun i Hx => He (S i) ltac:(lia))) as (K1 & K2 & K3).
      cbn [put_unused]. split; [|split].
      + cbn [map]. unfold zipapp in *. cbn [combine map fst snd]. rewrite K1. f_equal.
        destruct o as [b|].
        * destruct (Nat.eqb j exh) eqn:Ej.
          -- apply Nat.eqb_eq in Ej. assert (Hr0 : nth O (r :: rems) [] = []) by (apply He; lia). simpl in Hr0. subst r.
             unfold cs_rem, cs_set_unused. simpl. now rewrite H1.
          -- unfold cs_rem, cs_set_unused. simpl. now rewrite H1.
        * assert (Hr0 : nth O (r :: rems) [] = []) by (now apply Hn). simpl in Hr0. subst r. reflexivity.
      + constructor; [|exact K2]. destruct o as [b|]; [|exact H3].
        destruct (Nat.eqb j exh); unfold cs_inv, cs_set_unused in *; simpl; [|discriminate].
        intros Hx. destruct (H3 Hx) as [-> _]. easy.
      + cbn [mus fold_right]. fold (mus (put_unused (S j) exh os rems cs1)). fold (mus cs1).
        unfold count_some in *. cbn [filter].
        destruct o as [b|]; cbn [is_none negb length].
        * destruct (Nat.eqb j exh) eqn:Ej.
          -- apply Nat.eqb_eq in Ej. subst exh. rewrite Nat.leb_refl, Nat.sub_diag. cbn [nth].
             replace (S j <=? j)%nat with false in K3 by (symmetry; apply Nat.leb_gt; lia).
             unfold cs_mu, cs_set_unused in *. simpl. rewrite H1. lia.
          -- apply Nat.eqb_neq in Ej. unfold cs_mu, cs_set_unused in *. simpl. rewrite H1.
             destruct (j <=? exh)%nat eqn:Ele.
             ++ apply Nat.leb_le in Ele. replace (S j <=? exh)%nat with true in K3 by (symmetry; apply Nat.leb_le; lia).
                replace (exh - j)%nat with (S (exh - S j)) by lia. cbn [nth]. lia.
             ++ apply Nat.leb_gt in Ele. replace (S j <=? exh)%nat with false in K3 by (symmetry; apply Nat.leb_gt; lia). lia.
        * destruct (j <=? exh)%nat eqn:Ele.
          -- apply Nat.leb_le in Ele. destruct (Nat.eq_dec j exh) as [->|Hne].
             ++ rewrite Nat.sub_diag. cbn [nth]. replace (S exh <=? exh)%nat with false in K3 by (symmetry; apply Nat.leb_gt; lia). lia.
             ++ replace (S j <=? exh)%nat with true in K3 by (symmetry; apply Nat.leb_le; lia).
                replace (exh - j)%nat with (S (exh - S j)) by lia. cbn [nth]. lia.
          -- apply Nat.leb_gt in Ele. replace (S j <=? exh)%nat with false in K3 by (symmetry; apply Nat.leb_gt; lia). lia.
  Qed.

  Lemma all_none_concat : forall os tails, forallb is_none os = true ->
    Forall2 (fun (o : option batch) (t : batch) => o = None -> t = []) os tails ->
    concat (zipapp (map opt_list os) tails) = [].
  Proof.
    intros os tails Ha H. induction H as [|o t os tails Hot Hrest IH]; [reflexivity|].
    simpl in Ha. apply andb_prop in Ha. destruct Ha as [Ho Ha]. destruct o; [discriminate|].
    unfold zipapp in *. simpl. rewrite (Hot eq_refl). simpl. now apply IH.
  Qed.
  Lemma some_data : forall os i, forallb is_none os = false -> first_nil i os = None -> concat (map opt_list os) <> [].
  Proof.
    induction os as [|o t IH]; intros i Ha Hn; [discriminate|]. simpl in *.
    destruct o as [[|r b]|].
    - discriminate Hn.
    - intros Hx. discriminate Hx.
    - now apply (IH (S i)).
  Qed.
  Lemma nth_opt_list (os : list (option batch)) i d : opt_list d = [] -> nth i (map opt_list os) [] = opt_list (nth i os d).
  Proof. intros Hd. rewrite <- Hd. apply map_nth. Qed.

  Variable ew : bool.

  (* one call of getStreamInput that returns records: a piece of the k-way merge of what the
     streams still hold; the streams hold the rest afterwards and one IQR less *)
  Lemma round_core cs os cs1 : Forall cs_inv cs -> fetch_all ew cs = (os, cs1) ->
    (forallb is_none os = true -> concat (map cs_rem cs) = [])
    /\ (forallb is_none os = false -> forall m exh curs', merge_iqrs less os = (m, exh, curs') ->
          Forall cs_inv (put_unused O exh os curs' cs1)
          /\ kmerge_all less (map cs_rem cs) = m ++ kmerge_all less (map cs_rem (put_unused O exh os curs' cs1))
          /\ (mus (put_unused O exh os curs' cs1) < mus cs)%nat).
  Proof.
    intros Hi Ef. destruct (fetch_all_spec _ _ _ _ Hi Ef) as (B1 & B2 & B3 & B4 & B5 & B6).
    split.
    - intros Ha. rewrite B4. now apply all_none_concat.
    - intros Ha m exh curs' Em. unfold merge_iqrs in Em.
      assert (Hn0 : forall i, nth i os (Some []) = None -> nth i (map opt_list os) [] = []).
      { intros i Hx. rewrite (nth_opt_list os i (Some [])) by reflexivity. now rewrite Hx. }
      destruct (first_nil 0 os) as [e|] eqn:Efn.
      + injection Em as E1 E2 E3. subst m exh curs'.
        destruct (first_nil_spec _ _ _ Efn) as [_ He]. rewrite Nat.sub_0_r in He.
        assert (He0 : nth e (map opt_list os) [] = []).
        { rewrite (nth_opt_list os e None) by reflexivity. now rewrite He. }
        assert (L1 : length (map opt_list os) = length os) by (now rewrite map_length).
        assert (L3 : forall i, (0 + i)%nat = e -> nth i (map opt_list os) [] = []) by (intros i Hx; simpl in Hx; now subst i).
        destruct (put_unused_spec os (map opt_list os) cs1 O e L1 B3 B2 B1 Hn0 L3) as (K1 & K2 & K3).
        split; [exact K2|]. split; [simpl; now rewrite K1, B4|].
        rewrite Nat.sub_0_r in K3. change (0 <=? e)%nat with true in K3. cbv iota in K3. unfold batch in *. rewrite He in K3. lia.
      + pose proof (first_nil_none_heads _ _ _ Efn B5) as Hh.
        destruct (merge_loop_kmerge _ _ _ _ _ _ Hh (le_n _) Em) as (M1 & M2 & M3 & M4).
        pose proof (merge_loop_exh _ _ _ _ _ (le_n _) (some_data _ _ Ha Efn) Em) as Hex.
        assert (L1 : length curs' = length os) by (now rewrite M3, map_length).
        assert (L2 : forall i, nth i os (Some []) = None -> nth i curs' [] = []) by (intros i Hx; apply M4; now apply Hn0).
        assert (L3 : forall i, (0 + i)%nat = exh -> nth i curs' [] = []) by (intros i Hx; simpl in Hx; now subst i).
        destruct (put_unused_spec os curs' cs1 O exh L1 B3 B2 B1 L2 L3) as (K1 & K2 & K3).
        split; [exact K2|]. split; [now rewrite K1, B4|].
        rewrite Nat.sub_0_r in K3. change (0 <=? exh)%nat with true in K3. cbv iota in K3.
        assert (Hex' : nth exh os None <> None).
        { intros Eo. apply Hex. rewrite (nth_opt_list os exh None) by reflexivity. now rewrite Eo. }
        unfold batch in *. destruct (nth exh os None) as [b|] eqn:Eo; [lia|]. now exfalso.
  Qed.

  Lemma takeN_0 {A} (l : list A) : takeN 0 l = [].
  Proof. destruct l; reflexivity. Qed.
  Lemma takeN_nil {A} n : @takeN A n [] = [].
  Proof. reflexivity. Qed.
  Lemma takeN_app {A} : forall (a b : list A) n,
    takeN n (a ++ b) = takeN n a ++ takeN (n - N.of_nat (length (takeN n a))) b.
  Proof.
    induction a as [|x a IH]; intros b n; simpl.
    - now rewrite N.sub_0_r.
    - destruct (n =? 0) eqn:En.
      + apply N.eqb_eq in En. subst n. simpl. now rewrite takeN_0.
      + apply N.eqb_neq in En. cbn [app length]. rewrite IH, Nat2N.inj_succ. do 3 f_equal. lia.
  Qed.
  Lemma ev_rows_cons {S} (b : batch) (s : S) evs fin : ev_rows ((b, s) :: evs) fin = b ++ ev_rows evs fin.
  Proof. unfold ev_rows. simpl. now rewrite app_assoc. Qed.

  (* a whole pass of getStreamInput calls delivers the k-way merge of what the streams hold, cut
     at the limit *)
  Theorem m_events_kmerge limit : forall fuel s, Forall cs_inv (ms_cs s) -> (mus (ms_cs s) < fuel)%nat ->
    ev_rows (fst (m_events less limit ew fuel s)) (snd (m_events less limit ew fuel s))
    = match limit with
      | None => kmerge_all less (map cs_rem (ms_cs s))
      | Some L => takeN (L - ms_ret s) (kmerge_all less (map cs_rem (ms_cs s)))
      end.
  Proof.
    induction fuel as [|f IH]; intros s Hi Hf; [lia|].
    cbn [m_events]. unfold get_stream_input.
    destruct (fetch_all ew (ms_cs s)) as [os cs1] eqn:Ef.
    destruct (round_core _ _ _ Hi Ef) as [R1 R2].
    destruct (forallb is_none os) eqn:Ha.
    - cbn. unfold ev_rows. simpl. rewrite (kmerge_all_nil _ (R1 eq_refl)). destruct limit; reflexivity.
    - destruct (merge_iqrs less os) as [[m exh] curs'] eqn:Em.
      destruct (R2 eq_refl _ _ _ eq_refl) as (Q1 & Q2 & Q3).
      destruct limit as [L|].
      + destruct (L - ms_ret s =? 0) eqn:Et.
        * apply N.eqb_eq in Et. cbn. rewrite Et. unfold ev_rows. simpl. now rewrite takeN_0.
        * set (s' := mkMs (put_unused O exh os curs' cs1) (ms_ret s + N.of_nat (length (takeN (L - ms_ret s) m)))).
          specialize (IH s' Q1 ltac:(simpl; lia)).
          destruct (m_events less (Some L) ew f s') as [evs fin] eqn:Ev. cbn [fst snd] in *.
          rewrite ev_rows_cons, IH. rewrite Q2, takeN_app. simpl. do 2 f_equal. lia.
      + set (s' := mkMs (put_unused O exh os curs' cs1) (ms_ret s + N.of_nat (length m))).
        specialize (IH s' Q1 ltac:(simpl; lia)).
        destruct (m_events less None ew f s') as [evs fin] eqn:Ev. cbn [fst snd] in *.
        rewrite ev_rows_cons, IH. now rewrite Q2.
  Qed.

  Lemma mus_bound : forall cs, (mus cs <= fold_right (fun c a => S (length (cs_rest c)) + a) O cs)%nat.
  Proof.
    induction cs as [|c t IH]; [simpl; lia|]. change (mus (c :: t)) with (cs_mu c + mus t)%nat. cbn [fold_right].
    assert (cs_mu c <= S (length (cs_rest c)))%nat by (unfold cs_mu; destruct (cs_unused c); lia). lia.
  Qed.

  (* the rows a DataProcessor with the input streams [srcs] reads in one pass: the k-way merge of
     the streams' rows, whatever their batches (empty ones included) and EOF convention *)
  Theorem merge_rows_kmerge limit srcs :
    merge_rows less limit ew srcs
    = match limit with
      | None => kmerge_all less (map (@concat row) srcs)
      | Some L => takeN L (kmerge_all less (map (@concat row) srcs))
      end.
  Proof.
    unfold merge_rows. cbn [sinit merge_stream merge_stream_gen].
    set (s0 := mkMs (map (fun a => mkCs a None false) srcs) 0).
    pose proof (m_events_kmerge limit (m_fuel s0) s0) as H.
    destruct (m_events less limit ew (m_fuel s0) s0) as [evs fin]. cbn [fst snd] in H.
    rewrite H.
    - assert (E : map cs_rem (ms_cs s0) = map (@concat row) srcs).
      { subst s0. cbn [ms_cs]. rewrite map_map. apply map_ext. intros a. reflexivity. }
      rewrite E. destruct limit; [|reflexivity]. subst s0. cbn [ms_ret]. now rewrite N.sub_0_r.
    - subst s0. cbn [ms_cs]. apply Forall_forall. intros c Hc. apply in_map_iff in Hc. destruct Hc as (a & <- & _). intros Hx. discriminate.
    - unfold m_fuel. pose proof (mus_bound (ms_cs s0)). lia.
  Qed.
End KMerge.

Section MergeRewind.
  Variable less : row -> row -> bool.
  Variable limit : option N.
  Variable ew : bool.
  Variable srcs : list (list batch).
  Notation M := (merge_stream less limit ew srcs).

  Lemma rewind_all_false : forall (l : list (list batch)) cs,
    rewind_all false l cs = map (fun a => mkCs a None false) l.
  Proof. induction l as [|a t IH]; intros cs; [reflexivity|]. simpl. now rewrite IH. Qed.

  (* CachedStream.Rewind of every stream + numReturned = 0: the state before the first Fetch,
     whatever state the streams were left in (leftovers, exhausted flags, position, counter) *)
  Theorem merge_rewind_is_init (u : sst M) : srewind M u = sinit M.
  Proof. cbn. now rewrite rewind_all_false. Qed.

  (* hence the pass after a Rewind at ANY moment is the first pass *)
  Theorem merge_second_pass_is_first (u : sst M) : strace M (srewind M u) = strace M (sinit M).
  Proof. now rewrite merge_rewind_is_init. Qed.

  Theorem merge_stream_replayable : replayable M (merge_rows less limit ew srcs).
  Proof.
    assert (Hp : pass_ok M (fun _ => True) (merge_rows less limit ew srcs) (sinit M)).
    { unfold pass_ok, merge_rows. cbn [strace merge_stream merge_stream_gen].
      destruct (m_events less limit ew _ _) as [evs fin]. exists evs, fin.
      split; [reflexivity|]. split; [reflexivity|]. split; [apply Forall_forall; easy | exact I]. }
    exists (fun _ => True). split; [exact Hp|].
    intros u _. split; [exact I|]. rewrite merge_rewind_is_init. exact Hp.
  Qed.

  (* every chain of good stages (PipeRewindProofs) behind the merged input delivers the composition
     of the one-pass meanings over the rows of ONE pass of the merge *)
  Theorem merged_chain_meaning stages sems : Forall2 good_stage stages sems ->
    stream_rows (build_chain M stages) = Some (sems_apply sems (merge_rows less limit ew srcs)).
  Proof. intros H. apply replayable_rows. apply chain_replayable; [exact H | apply merge_stream_replayable]. Qed.

  (* the shape of the seeded defect: head stops the merge early, a two-pass command rewinds it *)
  Theorem head_behind_merge_then_two_pass n t :
    stream_rows (build_chain M [RStage (head_proc n) streaming_flags; RStage (twopass_proc t) twopass_flags])
    = Some (tp_sem t (firstn (N.to_nat n) (merge_rows less limit ew srcs))).
  Proof.
    apply (merged_chain_meaning _ [fun R => firstn (N.to_nat n) R; tp_sem t]).
    constructor; [apply good_head|]. constructor; [apply gs_twopass | constructor].
  Qed.
End MergeRewind.


(* ---------- the merge and the chain behind it: one stream or several ---------- *)
Section MergedChains.
  Variable less : row -> row -> bool.

  (* one stream: the merge is the identity *)
  Lemma kmerge_single (l : batch) : kmerge_all less [l] = l.
  Proof.
    induction l as [|x l IH]; [reflexivity|].
    assert (E : kmerge_all less [x :: l] = x :: kmerge_all less (pop_at O [x :: l])) by (apply kmerge_all_step; reflexivity).
    etransitivity; [exact E|]. f_equal. exact IH.
  Qed.

  (* the rows a DataProcessor reads from several streams do not depend on how every stream is cut
     into batches nor on how it reports EOF *)
  Theorem merge_rows_batching_invariant limit ew ew' srcs srcs' : map (@concat row) srcs = map (@concat row) srcs' ->
    merge_rows less limit ew srcs = merge_rows less limit ew' srcs'.
  Proof. intros E. rewrite !merge_rows_kmerge. now rewrite E. Qed.

  (* a chain of good stages behind k streams = the same chain behind ONE stream that delivers the
     merged order, for every batching of the k streams and of the one stream, with any number of
     two-pass commands rewinding the merge at any moment *)
  Theorem merged_chain_equals_single_stream stages sems ew ew' srcs bs : Forall2 good_stage stages sems ->
    concat bs = kmerge_all less (map (@concat row) srcs) ->
    stream_rows (build_chain (merge_stream less None ew srcs) stages)
    = stream_rows (build_chain (src_stream ew' bs) stages).
  Proof.
    intros H E. rewrite (merged_chain_meaning less None ew srcs stages sems H).
    rewrite (rewound_chain_meaning stages sems ew' bs H). now rewrite merge_rows_kmerge, E.
  Qed.

  (* with a row limit on the merge (the merger DP behind parallel sort chains) *)
  Theorem merged_chain_with_limit stages sems ew L srcs : Forall2 good_stage stages sems ->
    stream_rows (build_chain (merge_stream less (Some L) ew srcs) stages)
    = Some (sems_apply sems (takeN L (kmerge_all less (map (@concat row) srcs)))).
  Proof. intros H. rewrite (merged_chain_meaning less (Some L) ew srcs stages sems H). now rewrite merge_rows_kmerge. Qed.

  Theorem head_behind_merge_then_two_pass_meaning n t ew srcs :
    stream_rows (build_chain (merge_stream less None ew srcs)
                   [RStage (head_proc n) streaming_flags; RStage (twopass_proc t) twopass_flags])
    = Some (tp_sem t (firstn (N.to_nat n) (kmerge_all less (map (@concat row) srcs)))).
  Proof. rewrite head_behind_merge_then_two_pass. now rewrite merge_rows_kmerge. Qed.
End MergedChains.

(* ---------- what CachedStream.Rewind has to clear ---------- *)
Definition fk : field := [107].
Definition rk (z : Z) : row := [(fk, VNum z)].
Definition less_k (a b : row) : bool :=
  match get a fk, get b fk with VNum x, VNum y => (x <? y)%Z | _, _ => false end.

(* a Rewind that keeps unusedDataFromLastFetch: the streams {1,2,6} and {3,4,5}, `head 4` in front of
   fillnull.  The first pass merges 1,2,3,4,5 and leaves [6] with the first stream; head stops after
   4 rows.  In the second pass the first stream returns the stale [6] first: 3,4,5,6 instead of
   1,2,3,4.  With the real Rewind (leftover dropped) the rows are those of one stream. *)
Theorem rewind_keeping_leftover_refuted :
  stream_rows (build_chain (merge_stream_gen less_k None false true [[[rk 1; rk 2; rk 6]]; [[rk 3; rk 4; rk 5]]])
                 [RStage (head_proc 4) streaming_flags; RStage (twopass_proc fill0) twopass_flags])
  = Some [rk 3; rk 4; rk 5; rk 6]
  /\ stream_rows (build_chain (merge_stream less_k None false [[[rk 1; rk 2; rk 6]]; [[rk 3; rk 4; rk 5]]])
                 [RStage (head_proc 4) streaming_flags; RStage (twopass_proc fill0) twopass_flags])
  = Some [rk 1; rk 2; rk 3; rk 4]
  /\ stream_rows (build_chain (src_stream false [[rk 1; rk 2; rk 3; rk 4; rk 5; rk 6]])
                 [RStage (head_proc 4) streaming_flags; RStage (twopass_proc fill0) twopass_flags])
  = Some [rk 1; rk 2; rk 3; rk 4].
Proof. repeat split; vm_compute; reflexivity. Qed.

(* the same in every batching of the two streams, e.g. one row per batch *)
Example rewind_keeping_leftover_refuted_single_rows :
  stream_rows (build_chain (merge_stream_gen less_k None true true [[[rk 1]; [rk 2]; [rk 6]]; [[rk 3]; [rk 4]; [rk 5]]])
                 [RStage (head_proc 4) streaming_flags; RStage (twopass_proc fill0) twopass_flags])
  = Some [rk 3; rk 4; rk 5; rk 6].
Proof. vm_compute. reflexivity. Qed.

(* without a consumer that stops early every leftover has been used when the pass ends, and the
   forgetful Rewind goes unnoticed: why no test of the two-pass commands sees it *)
Example rewind_keeping_leftover_unnoticed_when_drained :
  stream_rows (build_chain (merge_stream_gen less_k None false true [[[rk 1; rk 2; rk 6]]; [[rk 3; rk 4; rk 5]]])
                 [RStage (head_proc 6) streaming_flags; RStage (twopass_proc fill0) twopass_flags])
  = Some [rk 1; rk 2; rk 3; rk 4; rk 5; rk 6].
Proof. vm_compute. reflexivity. Qed.

(* PipeProofs.v — C06: pipeline commands are independent of chunking. *)
From SigM Require Import Base Pipe.
From SigP Require Import BaseProofs.
From Coq Require Import Lia ZifyN ZifyNat ZifyBool Permutation.
Ltac Zify.zify_post_hook ::= Z.div_mod_to_equations.
Open Scope N_scope.

(* ---------- the property ---------- *)
Definition chunk_inv (c : command) : Prop := forall bs, run c bs = run c [concat bs].

Lemma chunk_inv_any c : chunk_inv c ->
  forall bs bs', concat bs = concat bs' -> run c bs = run c bs'.
Proof. intros H bs bs' E. rewrite (H bs), (H bs'), E. reflexivity. Qed.

(* ---------- equality tests ---------- *)
Lemma list_eqb_eq {A} (eqb : A -> A -> bool) :
  (forall x y, eqb x y = true <-> x = y) ->
  forall a b, list_eqb eqb a b = true <-> a = b.
Proof.
  intros He a. induction a as [|x a IH]; intros [|y b]; simpl; split; intro H; try easy.
  - apply andb_true_iff in H as [H1 H2]. apply He in H1. apply IH in H2. congruence.
  - inversion H; subst. apply andb_true_iff. split; [now apply He | now apply IH].
Qed.

Lemma Nlist_eqb_eq a b : list_eqb N.eqb a b = true <-> a = b.
Proof. apply list_eqb_eq. intros. apply N.eqb_eq. Qed.

Lemma value_eqb_eq a b : value_eqb a b = true <-> a = b.
Proof.
  destruct a, b; simpl; split; intro H; try easy.
  - apply Z.eqb_eq in H. congruence.
  - inversion H. apply Z.eqb_refl.
  - apply Nlist_eqb_eq in H. congruence.
  - inversion H. now apply Nlist_eqb_eq.
Qed.

Lemma tuple_eqb_eq a b : tuple_eqb a b = true <-> a = b.
Proof. apply list_eqb_eq. apply value_eqb_eq. Qed.

Lemma tuple_eqb_refl a : tuple_eqb a a = true.
Proof. now apply tuple_eqb_eq. Qed.

Lemma tuple_eqb_neq a b : a <> b -> tuple_eqb a b = false.
Proof. intro H. destruct (tuple_eqb a b) eqn:E; [apply tuple_eqb_eq in E; easy | easy]. Qed.

(* ---------- row-by-row commands ---------- *)
Lemma rows_fold_app {S} (f : S -> row -> S * list row) : forall a b s,
  rows_fold f s (a ++ b) =
  (fst (rows_fold f (fst (rows_fold f s a)) b),
   snd (rows_fold f s a) ++ snd (rows_fold f (fst (rows_fold f s a)) b)).
Proof.
  induction a as [|r a IH]; intros b s; simpl.
  - now destruct (rows_fold f s b).
  - destruct (f s r) as [s1 o1]. rewrite IH.
    destruct (rows_fold f s1 a) as [s2 o2]; simpl.
    destruct (rows_fold f s2 b) as [s3 o3]; simpl. now rewrite app_assoc.
Qed.

Lemma row_cmd_run_from {S} (i : S) f fin : forall bs s,
  concat (run_batches_from (row_cmd i f fin) s bs)
  = snd (rows_fold f s (concat bs)) ++ fin (fst (rows_fold f s (concat bs))).
Proof.
  induction bs as [|b bs IH]; intros s; simpl.
  - now rewrite app_nil_r.
  - rewrite rows_fold_app. destruct (rows_fold f s b) as [s1 o1] eqn:E; simpl.
    rewrite IH. now rewrite app_assoc.
Qed.

(* what a row-by-row command computes: a function of the whole row sequence *)
Lemma row_cmd_run {S} (i : S) f fin bs :
  run (row_cmd i f fin) bs
  = snd (rows_fold f i (concat bs)) ++ fin (fst (rows_fold f i (concat bs))).
Proof. apply row_cmd_run_from. Qed.

Theorem row_cmd_chunk_inv {S} (i : S) f fin : chunk_inv (row_cmd i f fin).
Proof.
  intros bs. rewrite !row_cmd_run. simpl. now rewrite app_nil_r.
Qed.

Lemma rowwise_fold f : forall rows s, rows_fold (fun (s : unit) r => (s, f r)) s rows = (s, flat_map f rows).
Proof. induction rows as [|r t IH]; intros s; simpl; [easy|]. now rewrite IH. Qed.

Theorem rowwise_spec f bs : run (rowwise_cmd f) bs = flat_map f (concat bs).
Proof.
  unfold rowwise_cmd. rewrite row_cmd_run, rowwise_fold. simpl. apply app_nil_r.
Qed.

Theorem rowwise_chunk_inv f : chunk_inv (rowwise_cmd f).
Proof. apply row_cmd_chunk_inv. Qed.

(* ---------- head ---------- *)
Lemma takeN_firstn {A} : forall (l : list A) k, takeN k l = firstn (N.to_nat k) l.
Proof.
  induction l as [|x l IH]; intros k; simpl.
  - now rewrite firstn_nil.
  - destruct (N.eqb_spec k 0) as [->|Hk]; [easy|].
    replace (N.to_nat k) with (S (N.to_nat (k - 1))) by lia. simpl. now rewrite IH.
Qed.

Lemma head_run_from n : forall bs sent, sent <= n ->
  concat (run_batches_from (head_cmd n) sent bs) = firstn (N.to_nat (n - sent)) (concat bs).
Proof.
  induction bs as [|b bs IH]; intros sent Hs; simpl.
  - now rewrite firstn_nil.
  - rewrite takeN_firstn. set (k := N.to_nat (n - sent)).
    rewrite firstn_length. rewrite firstn_app.
    destruct (N.leb_spec n (sent + N.of_nat (Nat.min k (length b)))) as [He|He]; simpl.
    + assert (k <= length b)%nat by lia.
      replace (k - length b)%nat with O by lia. simpl. now rewrite !app_nil_r.
    + assert (length b < k)%nat by lia.
      rewrite IH by lia. rewrite firstn_all2 by lia.
      f_equal. f_equal. lia.
Qed.

Theorem head_spec n bs : run (head_cmd n) bs = firstn (N.to_nat n) (concat bs).
Proof.
  unfold run, run_batches. simpl. rewrite head_run_from by lia. now rewrite N.sub_0_r.
Qed.

Theorem head_chunk_inv n : chunk_inv (head_cmd n).
Proof. intros bs. rewrite !head_spec. simpl. now rewrite app_nil_r. Qed.

(* head <bool-expr> *)
Definition out3 {A B C} (x : A * B * C) : C := snd x.

Lemma head_rows_stopped cond o : forall rows sent done,
  done = true \/ h_max o <= sent -> head_rows cond o sent done rows = (sent, done, []).
Proof.
  intros [|r t] sent done H; simpl; [easy|].
  destruct H as [->| H]; [easy|].
  replace (sent <? h_max o) with false by lia. now rewrite orb_true_r.
Qed.

Lemma head_rows_app cond o : forall a b sent done,
  out3 (head_rows cond o sent done (a ++ b))
  = out3 (head_rows cond o sent done a)
    ++ out3 (head_rows cond o (fst (fst (head_rows cond o sent done a)))
                       (snd (fst (head_rows cond o sent done a))) b).
Proof.
  induction a as [|r a IH]; intros b sent done; [easy|].
  simpl. destruct (done || negb (sent <? h_max o)) eqn:Estop.
  - simpl. rewrite head_rows_stopped; [easy|].
    apply orb_true_iff in Estop as [->|E]; [now left|right; lia].
  - assert (Hcont : forall d,
      out3 (let '(s2, d2, out) := head_rows cond o (sent + 1) d (a ++ b) in (s2, d2, r :: out))
      = out3 (let '(s2, d2, out) := head_rows cond o (sent + 1) d a in (s2, d2, r :: out))
        ++ out3 (head_rows cond o
             (fst (fst (let '(s2, d2, out) := head_rows cond o (sent + 1) d a in (s2, d2, r :: out))))
             (snd (fst (let '(s2, d2, out) := head_rows cond o (sent + 1) d a in (s2, d2, r :: out)))) b)).
    { intros d. specialize (IH b (sent + 1) d).
      destruct (head_rows cond o (sent + 1) d (a ++ b)) as [[s2 d2] o2].
      destruct (head_rows cond o (sent + 1) d a) as [[s3 d3] o3]. unfold out3 in *. simpl in *.
      now rewrite IH. }
    assert (Hstop : out3 (sent, true, @nil row)
      = out3 (sent, true, @nil row) ++ out3 (head_rows cond o sent true b)).
    { rewrite head_rows_stopped by now left. easy. }
    destruct (cond r) as [[|]|].
    + apply Hcont.
    + destruct (h_keeplast o); [apply Hcont | apply Hstop].
    + destruct (h_null o); [apply Hcont|]. destruct (h_keeplast o); [apply Hcont | apply Hstop].
Qed.

Lemma head_expr_run_from cond o : forall bs sent done,
  concat (run_batches_from (head_expr_cmd cond o) (sent, done) bs)
  = out3 (head_rows cond o sent done (concat bs)).
Proof.
  induction bs as [|b bs IH]; intros sent done; [easy|].
  cbn [run_batches_from head_expr_cmd step concat].
  destruct done.
  - simpl. rewrite head_rows_stopped by now left. easy.
  - rewrite head_rows_app.
    destruct (head_rows cond o sent false b) as [[s2 d2] o2] eqn:E. simpl fst; simpl snd.
    unfold out3 at 2. simpl snd.
    destruct (d2 || (s2 =? h_max o)) eqn:Ed.
    + simpl. rewrite head_rows_stopped; [easy|].
      apply orb_true_iff in Ed as [->|Ed]; [now left | right; lia].
    + apply orb_false_iff in Ed as [-> Ed]. simpl. now rewrite IH.
Qed.

(* the boolean-expression form computes head_rows on the whole stream *)
Theorem head_expr_stream cond o bs :
  run (head_expr_cmd cond o) bs = out3 (head_rows cond o 0 false (concat bs)).
Proof. apply head_expr_run_from. Qed.

Theorem head_expr_chunk_inv cond o : chunk_inv (head_expr_cmd cond o).
Proof. intros bs. rewrite !head_expr_stream. simpl. now rewrite app_nil_r. Qed.

(* ---------- tail ---------- *)
Lemma lastN_nat {A} n (l : list A) : lastN n l = skipn (length l - N.to_nat n) l.
Proof. unfold lastN. f_equal. lia. Qed.

Lemma lastN_app_ge {A} n (a b : list A) : n <= N.of_nat (length b) -> lastN n (a ++ b) = lastN n b.
Proof.
  intros H. rewrite !lastN_nat, skipn_app, app_length.
  rewrite skipn_all2 by lia. simpl. f_equal. lia.
Qed.

Lemma lastN_app_lt {A} n (a b : list A) : N.of_nat (length b) <= n ->
  lastN n (a ++ b) = lastN (n - N.of_nat (length b)) a ++ b.
Proof.
  intros H. rewrite !lastN_nat, skipn_app, app_length.
  replace (length a + length b - N.to_nat n - length a)%nat with O by lia. simpl.
  f_equal. f_equal. lia.
Qed.

Lemma skipn_skipn' {A} : forall y x (l : list A), skipn x (skipn y l) = skipn (y + x) l.
Proof.
  induction y as [|y IH]; intros x l; [easy|].
  destruct l; simpl; [now rewrite skipn_nil | apply IH].
Qed.

Lemma lastN_lastN {A} m n (a : list A) : m <= n -> lastN m (lastN n a) = lastN m a.
Proof.
  intros H. rewrite !lastN_nat, skipn_length, skipn_skipn'. f_equal. lia.
Qed.

Definition tail_inv (n : N) (fin : option batch) (acc : batch) : Prop :=
  match fin with None => acc = [] | Some f => f = lastN n acc end.

Lemma tail_run_from n : forall bs fin acc, tail_inv n fin acc ->
  concat (run_batches_from (tail_cmd n) fin bs) = rev (lastN n (acc ++ concat bs)).
Proof.
  induction bs as [|b bs IH]; intros fin acc Hi; simpl.
  - rewrite !app_nil_r. destruct fin as [f|]; simpl in Hi; subst; [easy|]. now rewrite lastN_nat.
  - destruct fin as [f|]; simpl in Hi; subst.
    + destruct (N.leb_spec n (N.of_nat (length b))) as [Hl|Hl]; simpl.
      * rewrite (IH _ (acc ++ b)); [now rewrite app_assoc|]. simpl. now rewrite lastN_app_ge.
      * rewrite (IH _ (acc ++ b)); [now rewrite app_assoc|]. simpl.
        rewrite lastN_app_lt by lia. f_equal. apply lastN_lastN. lia.
    + simpl. rewrite (IH _ b); easy.
Qed.

(* tail n = the last n rows of the whole stream, most recent first *)
Theorem tail_spec n bs : run (tail_cmd n) bs = rev (lastN n (concat bs)).
Proof. exact (tail_run_from n bs None [] eq_refl). Qed.

Theorem tail_chunk_inv n : chunk_inv (tail_cmd n).
Proof. intros bs. rewrite !tail_spec. simpl. now rewrite app_nil_r. Qed.

(* ---------- dedup ---------- *)
Theorem dedup_gen_chunk_inv C H o : chunk_inv (dedup_cmd_gen C H o).
Proof. apply row_cmd_chunk_inv. Qed.

Definition plain_dedup (limit : N) (fields : list field) : dedup_opts :=
  {| d_limit := limit; d_fields := fields;
     d_consecutive := false; d_keepempty := false; d_keepevents := false |}.

Lemma row_key_proj C H r : forall fields acc,
  row_key C H fields r acc
  = if existsb is_null (proj fields r) then None
    else Some (fold_left (fun a v => C a (H v)) (proj fields r) acc).
Proof.
  induction fields as [|f t IH]; intros acc; simpl; [easy|].
  destruct (is_null (get r f)); simpl; [easy|]. apply IH.
Qed.

Lemma dget_dincr_same m h :
  dget (dincr m h) h = Some (match dget m h with Some c => c + 1 | None => 1 end).
Proof.
  induction m as [|[k c] m IH]; simpl.
  - now rewrite N.eqb_refl.
  - destruct (N.eqb_spec k h) as [->|Hn]; simpl.
    + now rewrite N.eqb_refl.
    + destruct (N.eqb_spec k h); [easy|]. apply IH.
Qed.

Lemma dget_dincr_other m h h' : h' <> h -> dget (dincr m h) h' = dget m h'.
Proof.
  intros Hn. induction m as [|[k c] m IH]; simpl.
  - destruct (N.eqb_spec h h'); [congruence | easy].
  - destruct (N.eqb_spec k h) as [->|Hk]; simpl.
    + destruct (N.eqb_spec h h'); [congruence | easy].
    + destruct (N.eqb_spec k h'); [easy | apply IH].
Qed.

Section DedupSpec.
  Variable C : N -> N -> N.
  Variable H : value -> N.
  Variable limit : N.
  Variable fields : list field.
  Variable U : list tuple.
  Hypothesis limit_pos : 0 < limit.
  Hypothesis inj_on_U : forall k k', In k U -> In k' U -> comb_key C H k = comb_key C H k' -> k = k'.

  Definition dedup_inv (m : dstate) (seen : list tuple) : Prop :=
    forall k, In k U ->
      dget m (comb_key C H k) = if count_tuple k seen =? 0 then None else Some (count_tuple k seen).

  Lemma dedup_fold_spec : forall rows m seen,
    (forall r, In r rows -> existsb is_null (proj fields r) = false -> In (proj fields r) U) ->
    dedup_inv m seen ->
    snd (rows_fold (dedup_row C H (plain_dedup limit fields)) m rows)
    = dedup_spec_from limit fields seen rows.
  Proof.
    induction rows as [|r rows IH]; intros m seen HU Hinv; [easy|].
    cbn [rows_fold dedup_spec_from].
    unfold dedup_row at 1. cbn [plain_dedup d_fields d_keepevents d_keepempty d_consecutive d_limit].
    rewrite row_key_proj. fold (comb_key C H (proj fields r)).
    destruct (existsb is_null (proj fields r)) eqn:En.
    - specialize (IH m seen).
      destruct (rows_fold (dedup_row C H (plain_dedup limit fields)) m rows) as [s2 o2] eqn:E2.
      simpl. simpl in IH. apply IH; [|easy]. intros; apply HU; [now right | easy].
    - set (k := proj fields r) in *.
      assert (Hk : In k U) by (apply HU; [now left | easy]).
      assert (Hinv' : dedup_inv (dincr m (comb_key C H k)) (k :: seen)).
      { intros k' Hk'. simpl.
        destruct (N.eq_dec (comb_key C H k') (comb_key C H k)) as [Ee|Ee].
        - assert (k' = k) by now apply inj_on_U. subst k'.
          rewrite dget_dincr_same, (Hinv k Hk), tuple_eqb_refl.
          destruct (N.eqb_spec (count_tuple k seen) 0) as [E0|E0].
          + rewrite E0. easy.
          + replace (1 + count_tuple k seen =? 0) with false by lia. f_equal. lia.
        - rewrite dget_dincr_other by easy. rewrite (Hinv k' Hk').
          rewrite tuple_eqb_neq by congruence. easy. }
      specialize (IH (dincr m (comb_key C H k)) (k :: seen)).
      destruct (rows_fold (dedup_row C H (plain_dedup limit fields)) (dincr m (comb_key C H k)) rows) as [s2 o2] eqn:E2.
      simpl in IH. simpl snd.
      rewrite (Hinv k Hk).
      assert (IH' : o2 = dedup_spec_from limit fields (k :: seen) rows).
      { apply IH; [|easy]. intros; apply HU; [now right | easy]. }
      destruct (N.eqb_spec (count_tuple k seen) 0) as [E0|E0].
      + rewrite E0. replace (0 <? limit) with true by lia. simpl. now rewrite IH'.
      + destruct (N.leb_spec limit (count_tuple k seen)).
        * replace (count_tuple k seen <? limit) with false by lia. simpl. easy.
        * replace (count_tuple k seen <? limit) with true by lia. simpl. now rewrite IH'.
  Qed.
End DedupSpec.

Lemma keys_injective_sound C H : forall ks, keys_injective C H ks = true ->
  forall k k', In k ks -> In k' ks -> comb_key C H k = comb_key C H k' -> k = k'.
Proof.
  induction ks as [|a ks IH]; intros Hinj k k' Hk Hk' E; [easy|].
  simpl in Hinj. apply andb_true_iff in Hinj as [Ha Hr].
  rewrite forallb_forall in Ha.
  assert (Haux : forall x, In x ks -> comb_key C H a = comb_key C H x -> a = x).
  { intros x Hx Ex. specialize (Ha x Hx). rewrite Ex, N.eqb_refl in Ha. simpl in Ha.
    now apply tuple_eqb_eq. }
  destruct Hk as [<-|Hk], Hk' as [<-|Hk']; [easy | now apply Haux | | now apply IH].
  symmetry. now apply Haux.
Qed.

(* dedup N f1 f2 .. = the first N rows of every distinct combination of values,
   order kept — provided the XOR keys of the combinations in the input do not collide *)
Theorem dedup_gen_spec_guarded C H limit fields bs :
  0 < limit ->
  keys_injective C H (nonnull_tuples fields (concat bs)) = true ->
  run (dedup_cmd_gen C H (plain_dedup limit fields)) bs = dedup_spec limit fields (concat bs).
Proof.
  intros Hl Hinj. unfold dedup_cmd_gen. rewrite row_cmd_run. rewrite app_nil_r.
  apply (dedup_fold_spec C H limit fields (nonnull_tuples fields (concat bs)) Hl
           (keys_injective_sound C H _ Hinj)).
  - intros r Hr Hn. unfold nonnull_tuples. apply filter_In. split.
    + now apply in_map.
    + now rewrite Hn.
  - intros k _. easy.
Qed.

(* ... and without that guard it is false for EVERY hash function: (x,y) and (y,x) *)
Definition fa : field := [97]. Definition fb : field := [98].
Definition vx : value := VStr [120]. Definition vy : value := VStr [121].
Definition xy_rows : batch := [ [(fa, vx); (fb, vy)]; [(fa, vy); (fb, vx)]; [(fa, vx); (fb, vy)] ].

Lemma dedup_xy_run H : run (dedup_cmd_xor H (plain_dedup 1 [fa; fb])) [xy_rows] = [ [(fa, vx); (fb, vy)] ].
Proof.
  remember (N.lxor (H vx) (H vy)) as h eqn:Eh.
  assert (K1 : row_key N.lxor H [fa; fb] [(fa, vx); (fb, vy)] 0 = Some h) by (subst h; reflexivity).
  assert (K2 : row_key N.lxor H [fa; fb] [(fa, vy); (fb, vx)] 0 = Some h).
  { subst h. cbn. f_equal. apply N.lxor_comm. }
  unfold dedup_cmd_xor, dedup_cmd_gen. rewrite row_cmd_run. unfold xy_rows. cbn [concat app rows_fold].
  unfold dedup_row. cbn [plain_dedup d_fields d_keepevents d_keepempty d_consecutive d_limit].
  rewrite K1, K2. clear K1 K2 Eh.
  cbn [dget dincr]. rewrite !N.eqb_refl. cbn [dget dincr]. rewrite !N.eqb_refl.
  reflexivity.
Qed.

Theorem dedup_xor_refuted : forall H : value -> N, exists fields rows,
  run (dedup_cmd_xor H (plain_dedup 1 fields)) [rows] <> dedup_spec 1 fields rows.
Proof.
  intros H. exists [fa; fb], xy_rows. rewrite dedup_xy_run. vm_compute. discriminate.
Qed.

(* the code (order-sensitive combination of the field hashes) *)
Theorem dedup_chunk_inv H o : chunk_inv (dedup_cmd H o).
Proof. apply dedup_gen_chunk_inv. Qed.
Theorem dedup_xor_chunk_inv H o : chunk_inv (dedup_cmd_xor H o).
Proof. apply dedup_gen_chunk_inv. Qed.

Theorem dedup_spec_guarded H limit fields bs :
  0 < limit ->
  keys_injective fnv_step H (nonnull_tuples fields (concat bs)) = true ->
  run (dedup_cmd H (plain_dedup limit fields)) bs = dedup_spec limit fields (concat bs).
Proof. apply dedup_gen_spec_guarded. Qed.

(* the rows that the XOR key confused are told apart now, for any hash with H x <> H y
   whose two order-sensitive keys differ; e.g. hash = first byte *)
Definition first_byte_hash (v : value) : N := match v with VStr (c :: _) => c | _ => 0 end.
Theorem dedup_xy_fixed :
  keys_injective fnv_step first_byte_hash (nonnull_tuples [fa; fb] xy_rows) = true
  /\ run (dedup_cmd first_byte_hash (plain_dedup 1 [fa; fb])) [xy_rows] = firstn 2 xy_rows
  /\ run (dedup_cmd first_byte_hash (plain_dedup 1 [fa; fb])) [xy_rows] = dedup_spec 1 [fa; fb] xy_rows.
Proof. repeat split; vm_compute; reflexivity. Qed.

(* ---------- top / rare, stats by ---------- *)
Theorem toprare_chunk_inv is_top limit fields countf : chunk_inv (toprare_cmd is_top limit fields countf).
Proof. apply row_cmd_chunk_inv. Qed.

Theorem gstats_chunk_inv by_fields vf countf sumf : chunk_inv (gstats_cmd by_fields vf countf sumf).
Proof. apply row_cmd_chunk_inv. Qed.

Section Monoid.
  Variable m : monoid.
  Variable inj : row -> mcar m.
  Variable render : mcar m -> batch.
  Hypothesis op_assoc : forall a b c, mop m a (mop m b c) = mop m (mop m a b) c.
  Hypothesis op_zero_l : forall a, mop m (mzero m) a = a.
  Hypothesis op_zero_r : forall a, mop m a (mzero m) = a.

  Lemma magg_from : forall b z,
    fold_left (fun a r => mop m a (inj r)) b z = mop m z (magg m inj b).
  Proof.
    unfold magg. induction b as [|r b IH]; intros z; simpl.
    - now rewrite op_zero_r.
    - rewrite IH, (IH (mop m (mzero m) (inj r))), op_zero_l. now rewrite op_assoc.
  Qed.

  Lemma magg_app a b : magg m inj (a ++ b) = mop m (magg m inj a) (magg m inj b).
  Proof. unfold magg at 1. rewrite fold_left_app. apply magg_from. Qed.

  Lemma stats_run_from : forall bs s,
    concat (run_batches_from (stats_cmd m inj render) s bs) = render (mop m s (magg m inj (concat bs))).
  Proof.
    induction bs as [|b bs IH]; intros s; simpl.
    - unfold magg. simpl. now rewrite op_zero_r, app_nil_r.
    - rewrite IH, magg_app. now rewrite op_assoc.
  Qed.

  (* stats = render of the aggregate of the whole stream *)
  Theorem stats_spec bs : run (stats_cmd m inj render) bs = render (magg m inj (concat bs)).
  Proof. unfold run, run_batches. rewrite stats_run_from. simpl. now rewrite op_zero_l. Qed.

  Theorem stats_chunk_inv : chunk_inv (stats_cmd m inj render).
  Proof. intros bs. rewrite !stats_spec. simpl. now rewrite app_nil_r. Qed.

  Hypothesis op_comm : forall a b, mop m a b = mop m b a.

  Lemma magg_cons r b : magg m inj (r :: b) = mop m (inj r) (magg m inj b).
  Proof. change (r :: b) with ([r] ++ b). rewrite magg_app. unfold magg at 1. simpl. now rewrite op_zero_l. Qed.

  Lemma magg_perm a b : Permutation a b -> magg m inj a = magg m inj b.
  Proof.
    induction 1.
    - easy.
    - rewrite !magg_cons. now f_equal.
    - rewrite !magg_cons. rewrite !op_assoc. f_equal. apply op_comm.
    - congruence.
  Qed.

  (* several upstream streams read in any interleaving (fetchFromAnyStream), any batching *)
  Theorem stats_any_interleaving bs bs' :
    Permutation (concat bs) (concat bs') ->
    run (stats_cmd m inj render) bs = run (stats_cmd m inj render) bs'.
  Proof. intros P. rewrite !stats_spec. f_equal. now apply magg_perm. Qed.
End Monoid.

(* ---------- streamstats ---------- *)
(* with the row index running over the whole stream the command is a row machine *)
Theorem streamstats_fixed_chunk_inv o : chunk_inv (streamstats_cmd false o).
Proof. exact (row_cmd_chunk_inv (0%Z, None, []) (ss_row o) (fun _ => [])). Qed.

(* when neither a global window nor reset_on_change is used, the per-batch reset of
   currentIndex / currentBucketKey is invisible *)
Definition ss_index_free (o : ss_opts) : bool :=
  ((ss_window o =? 0) || negb (ss_global o)) && negb (ss_reset_on_change o).

Lemma ss_row_index_free o : ss_index_free o = true -> forall g1 g2 k1 k2 m r,
  snd (fst (ss_row o (g1, k1, m) r)) = snd (fst (ss_row o (g2, k2, m) r))
  /\ snd (ss_row o (g1, k1, m) r) = snd (ss_row o (g2, k2, m) r).
Proof.
  intros Hf g1 g2 k1 k2 m r. unfold ss_row. unfold ss_index_free in Hf.
  apply andb_true_iff in Hf as [Hf Hr]. apply negb_true_iff in Hr. rewrite Hr. simpl andb.
  destruct (ss_window o =? 0) eqn:Ew.
  - destruct (ss_nowindow_row o (ss_get m (proj (ss_by o) r)) (get r (ss_field o))); easy.
  - simpl in Hf. apply negb_true_iff in Hf.
    unfold ss_window_row. rewrite Hf.
    destruct (if ss_current o then _ else _) as [e0 c0].
    destruct (ss_clean (ss_func o) (Z.of_N (ss_window o)) (Z.of_N (w_nproc (ss_get m (proj (ss_by o) r)))) e0 c0) as [e1 c1].
    destruct (ss_func o), (get r (ss_field o)); easy.
Qed.

Lemma ss_fold_index_free o : ss_index_free o = true -> forall b g1 g2 k1 k2 m,
  snd (fst (rows_fold (ss_row o) (g1, k1, m) b)) = snd (fst (rows_fold (ss_row o) (g2, k2, m) b))
  /\ snd (rows_fold (ss_row o) (g1, k1, m) b) = snd (rows_fold (ss_row o) (g2, k2, m) b).
Proof.
  intros Hf. induction b as [|r b IH]; intros g1 g2 k1 k2 m; [easy|]. cbn [rows_fold].
  destruct (ss_row_index_free o Hf g1 g2 k1 k2 m r) as [E1 E2].
  destruct (ss_row o (g1, k1, m) r) as [[[g1' k1'] m1] o1], (ss_row o (g2, k2, m) r) as [[[g2' k2'] m2] o2].
  simpl in E1, E2. subst m2 o2.
  destruct (IH g1' g2' k1' k2' m1) as [E3 E4].
  destruct (rows_fold (ss_row o) (g1', k1', m1) b) as [[[g1'' k1''] m1'] o1'],
           (rows_fold (ss_row o) (g2', k2', m1) b) as [[[g2'' k2''] m2'] o2'].
  simpl in *. now subst.
Qed.

Lemma ss_reset_irrelevant o : ss_index_free o = true -> forall bs g1 g2 k1 k2 m,
  run_batches_from (streamstats_cmd true o) (g1, k1, m) bs
  = run_batches_from (streamstats_cmd false o) (g2, k2, m) bs.
Proof.
  intros Hf. induction bs as [|b bs IH]; intros g1 g2 k1 k2 m; [easy|].
  cbn [run_batches_from streamstats_cmd step snd].
  destruct (ss_fold_index_free o Hf b 0%Z g2 None k2 m) as [E1 E2].
  destruct (rows_fold (ss_row o) (0%Z, None, m) b) as [[[ga ka] ma] oa],
           (rows_fold (ss_row o) (g2, k2, m) b) as [[[gb kb] mb] ob].
  simpl in E1, E2. subst. f_equal. apply IH.
Qed.

(* streamstats as the code runs it, without a global window and without
   reset_on_change: chunk invariant *)
Theorem streamstats_nowindow_chunk_inv o : ss_index_free o = true -> chunk_inv (streamstats_cmd true o).
Proof.
  intros Hf bs. unfold run, run_batches. cbn [init streamstats_cmd].
  rewrite !(ss_reset_irrelevant o Hf _ 0%Z 0%Z None None []).
  apply (streamstats_fixed_chunk_inv o).
Qed.

(* with a global window it is not: the smallest witness is window=1, two rows, cut between them *)
Definition fv : field := [118]. Definition fsv : field := [115; 118].
Definition ss_win (w : N) : ss_opts :=
  {| ss_func := SSum; ss_field := fv; ss_out := fsv; ss_current := true; ss_by := [];
     ss_window := w; ss_global := true; ss_reset_on_change := false |}.

(* reset_on_change: two rows with the same key, cut between them *)
Definition fg : field := [103]. Definition fc : field := [99].
Definition ss_roc : ss_opts :=
  {| ss_func := SCount; ss_field := fv; ss_out := fc; ss_current := true; ss_by := [fg];
     ss_window := 0; ss_global := true; ss_reset_on_change := true |}.
Theorem streamstats_reset_on_change_refuted_thm : exists o bs,
  ss_reset_on_change o = true
  /\ run (streamstats_cmd true o) bs <> run (streamstats_cmd true o) [concat bs]
  /\ map (fun r => get r fc) (run (streamstats_cmd true o) bs) = [VNum 1; VNum 1]
  /\ map (fun r => get r fc) (run (streamstats_cmd true o) [concat bs]) = [VNum 1; VNum 2].
Proof.
  exists ss_roc, [ [[(fg, VStr [112])]]; [[(fg, VStr [112])]] ]. split; [easy|].
  split; [vm_compute; discriminate | split; vm_compute; reflexivity].
Qed.

Theorem streamstats_window_refuted : exists o bs,
  ss_window o <> 0 /\ run (streamstats_cmd true o) bs <> run (streamstats_cmd true o) [concat bs].
Proof.
  exists (ss_win 1), [ [[(fv, VNum 1)]]; [[(fv, VNum 1)]] ]. split; [easy|].
  vm_compute. discriminate.
Qed.

(* the 12-row table of DESIGN §4.1 (v_i = 7 i mod 5), window=3, cut 5+5+2: the rows from
   index 5 on carry sums over more than three rows; un-cut, the model equals the
   documented sliding-window sum *)
Definition ss12 : batch := map (fun i => [(fv, VNum ((7 * Z.of_nat i) mod 5))]) (seq 0 12).
Theorem streamstats_window12 :
  run (streamstats_cmd true (ss_win 3)) [ss12] = window_sum_spec 3 fv fsv ss12
  /\ run (streamstats_cmd true (ss_win 3)) [firstn 5 ss12; firstn 5 (skipn 5 ss12); skipn 10 ss12]
     <> window_sum_spec 3 fv fsv ss12
  /\ map (fun r => get r fsv)
       (run (streamstats_cmd true (ss_win 3)) [firstn 5 ss12; firstn 5 (skipn 5 ss12); skipn 10 ss12])
     = map VNum [0; 2; 6; 7; 8; 8; 10; 14; 15; 18; 18; 20]%Z.
Proof. split; [|split]; vm_compute; [reflexivity | discriminate | reflexivity]. Qed.

(* after the fix the same 12 rows give the sliding-window sum for the cut 5+5+2 as well *)
Theorem streamstats_window12_fixed :
  run (streamstats_cmd false (ss_win 3)) [firstn 5 ss12; firstn 5 (skipn 5 ss12); skipn 10 ss12]
  = window_sum_spec 3 fv fsv ss12.
Proof. vm_compute. reflexivity. Qed.

(* ---------- chains ---------- *)
Definition rebatch_ok (rb : list batch -> list batch) : Prop := forall x, concat (rb x) = concat x.
Definition stage_ok (s : stage) : Prop :=
  match s with Stage c rb => chunk_inv c /\ rebatch_ok rb end.

(* same commands, possibly different re-cutting between the stages *)
Inductive same_cmds : list stage -> list stage -> Prop :=
| same_nil : same_cmds [] []
| same_cons c rb rb' cs cs' : same_cmds cs cs' -> same_cmds (Stage c rb :: cs) (Stage c rb' :: cs').

Theorem chain_chunk_inv : forall cs cs', same_cmds cs cs' ->
  Forall stage_ok cs -> Forall stage_ok cs' ->
  forall bs bs', concat bs = concat bs' ->
  concat (run_chain cs bs) = concat (run_chain cs' bs').
Proof.
  induction 1 as [|c rb rb' cs cs' Hs IH]; intros Hok Hok' bs bs' E; [easy|].
  inversion Hok as [|? ? Hs1 Hr]; inversion Hok' as [|? ? Hs2 Hr']; subst.
  simpl in Hs1, Hs2. destruct Hs1 as [Hc Hrb], Hs2 as [_ Hrb'].
  simpl. apply IH; [easy | easy |].
  rewrite Hrb, Hrb'. now apply chunk_inv_any.
Qed.

Lemma same_cmds_refl cs : same_cmds cs cs.
Proof. induction cs as [|[c rb] cs IH]; constructor; easy. Qed.

(* the chain computes the composition of the stage meanings on the un-cut stream *)
Theorem chain_meaning : forall cs, Forall stage_ok cs ->
  forall bs, concat (run_chain cs bs) = chain_sem cs (concat bs).
Proof.
  induction cs as [|[c rb] cs IH]; intros Hok bs; [easy|].
  inversion Hok as [|? ? Hs1 Hr]; subst. simpl in Hs1. destruct Hs1 as [Hc Hrb]. simpl.
  rewrite IH by easy. rewrite Hrb. f_equal. apply Hc.
Qed.

(* ---------- the Fetch loop ---------- *)
Definition streaming : dpflags := {| is_bottleneck := false; is_twopass := false |}.
Definition bottleneck : dpflags := {| is_bottleneck := true; is_twopass := false |}.

Lemma fetch_streaming_cons c ew all (s : st c) b r :
  fetch (proc_of c) streaming ew all (@mkDp (proc_of c) s (b :: r) false false)
  = FReturn (@mkDp (proc_of c) (fst (fst (step c s b))) r (match r with [] => ew | _ => false end) false)
            (Some (snd (fst (step c s b)))) (snd (step c s b)).
Proof.
  unfold fetch. simpl. destruct (step c s b) as [[s' o] e]. destruct e; reflexivity.
Qed.

Lemma fetch_streaming_nil c ew all (s : st c) exh :
  fetch (proc_of c) streaming ew all (@mkDp (proc_of c) s [] exh false)
  = FReturn (@mkDp (proc_of c) s [] true false) (Some (finish c s)) true.
Proof. unfold fetch. simpl. destruct exh; reflexivity. Qed.

Lemma drive_streaming c ew all : forall rest (s : st c) exh fuel,
  (exh = true -> rest = []) -> (length rest < fuel)%nat ->
  drive (proc_of c) streaming ew all fuel (@mkDp (proc_of c) s rest exh false) = Some (run_batches_from c s rest).
Proof.
  induction rest as [|b r IH]; intros s exh fuel Hex Hf; (destruct fuel as [|k]; [simpl in Hf; lia|]).
  - cbn [drive]. rewrite fetch_streaming_nil. reflexivity.
  - destruct exh; [now specialize (Hex eq_refl)|].
    cbn [drive]. rewrite fetch_streaming_cons. cbn [run_batches_from].
    destruct (step c s b) as [[s' o] e]. cbn [fst snd]. destruct e; [reflexivity|].
    rewrite IH; [reflexivity | | simpl in Hf; lia].
    destruct r; [easy | discriminate].
Qed.

(* streaming processors: the consumer sees exactly the outputs of [run_batches],
   whether the source signals EOF with its last batch or after it *)
Theorem fetch_loop_streaming c ew all :
  dp_run (proc_of c) streaming ew all = Some (run_batches c all).
Proof. unfold dp_run. apply drive_streaming; [discriminate | lia]. Qed.

Definition silent (c : command) : Prop :=
  forall s b, snd (fst (step c s b)) = [] /\ snd (step c s b) = false.

Lemma fetch_pass_bottleneck c ew : forall rest (s : st c) exh,
  (exh = true -> rest = []) ->
  exists d, fetch_pass (proc_of_bottleneck c) bottleneck ew s rest exh false
            = FReturn d (Some (finish c (fold_left (fun s b => fst (fst (step c s b))) rest s))) true.
Proof.
  induction rest as [|b r IH]; intros s exh Hex.
  - simpl. destruct exh; simpl; eexists; reflexivity.
  - destruct exh; [now specialize (Hex eq_refl)|].
    simpl. destruct (step c s b) as [[s' o] e]. simpl.
    apply IH. destruct r; [easy | discriminate].
Qed.

Lemma silent_run_from c : silent c -> forall bs s,
  concat (run_batches_from c s bs) = finish c (fold_left (fun s b => fst (fst (step c s b))) bs s).
Proof.
  intros Hs. induction bs as [|b bs IH]; intros s; simpl; [apply app_nil_r|].
  destruct (Hs s b) as [H1 H2]. destruct (step c s b) as [[s' o] e]. simpl in *. subst.
  apply IH.
Qed.

(* bottleneck processors (tail, sort, stats, top, rare): one Fetch consumes the whole
   input and returns the final result with io.EOF *)
Theorem fetch_loop_bottleneck c ew all : silent c ->
  exists l, dp_run (proc_of_bottleneck c) bottleneck ew all = Some l /\ concat l = run c all.
Proof.
  intros Hs. unfold dp_run.
  destruct (fetch_pass_bottleneck c ew all (init c) false) as [d Hd]; [discriminate|].
  eexists. split.
  - cbn [drive]. unfold fetch. cbn [d_ps d_rest d_exhausted d_first_done].
    change (pinit (proc_of_bottleneck c)) with (init c). rewrite Hd. reflexivity.
  - simpl. rewrite app_nil_r. symmetry. now apply silent_run_from.
Qed.

(* two passes: fillnull without a field list *)
Lemma fillnull_first_pass v ew : forall rest cols exh,
  (exh = true -> rest = []) ->
  exists d out, fetch_pass (fillnull_proc v) fillnull_flags ew (cols, false) rest exh false
            = FPassEnd d out /\ d_ps d = (fold_left batch_cols rest cols, false).
Proof.
  induction rest as [|b r IH]; intros cols exh Hex.
  - simpl. destruct exh; simpl; do 2 eexists; split; reflexivity.
  - destruct exh; [now specialize (Hex eq_refl)|].
    cbn [fetch_pass fillnull_proc fillnull_flags pfinal pprocess is_bottleneck is_twopass negb orb andb fold_left].
    apply IH. destruct r; [easy | discriminate].
Qed.

Lemma fillnull_second_pass v ew all (cols : list field) : forall rest exh fuel,
  (exh = true -> rest = []) -> (length rest < fuel)%nat ->
  drive (fillnull_proc v) fillnull_flags ew all fuel (@mkDp (fillnull_proc v) (cols, true) rest exh true)
  = Some (map (map (fill_row v cols)) rest).
Proof.
  induction rest as [|b r IH]; intros exh fuel Hex Hf; (destruct fuel as [|k]; [simpl in Hf; lia|]).
  - cbn [drive]. unfold fetch. simpl. destruct exh; simpl; reflexivity.
  - destruct exh; [now specialize (Hex eq_refl)|].
    cbn [drive]. unfold fetch. simpl.
    rewrite IH; [reflexivity | | simpl in Hf; lia].
    destruct r; [easy | discriminate].
Qed.

Lemma fetch_pass_second_no_passend p fl ew : forall rest ps exh d o,
  fetch_pass p fl ew ps rest exh true = FPassEnd d o -> False.
Proof.
  induction rest as [|b r IH]; intros ps exh d o H; simpl in H;
  rewrite ?andb_false_r in H;
  repeat match type of H with
         | context [match ?x with _ => _ end] => destruct x eqn:?; try discriminate
         end; eauto.
Qed.

(* the two-pass loop yields every row filled over the columns of the WHOLE input *)
Theorem fetch_loop_fillnull v ew all :
  exists l, dp_run (fillnull_proc v) fillnull_flags ew all = Some l
    /\ concat l = map (fill_row v (fold_left batch_cols all [])) (concat all).
Proof.
  unfold dp_run.
  destruct (fillnull_first_pass v ew all [] false) as (d & out & Hd & Hps); [discriminate|].
  exists (map (map (fill_row v (fold_left batch_cols all []))) all). split.
  - etransitivity; [| apply (fillnull_second_pass v ew all (fold_left batch_cols all []) all false
                 (S (S (length all + length all)))); [discriminate | lia] ].
    cbn [drive]. unfold fetch at 1 3. cbn [d_ps d_rest d_exhausted d_first_done].
    change (pinit (fillnull_proc v)) with (@nil field, false). rewrite Hd.
    rewrite Hps. cbn [prewind fillnull_proc fst].
    destruct (fetch_pass (fillnull_proc v) fillnull_flags ew (fold_left batch_cols all [], true) all false true) eqn:E;
      try reflexivity.
    exfalso. eapply fetch_pass_second_no_passend. exact E.
  - now rewrite concat_map.
Qed.

Lemma batch_cols_concat : forall all cols,
  fold_left batch_cols all cols = batch_cols cols (concat all).
Proof.
  induction all as [|b r IH]; intros cols; [easy|].
  simpl. rewrite IH. unfold batch_cols. now rewrite fold_left_app.
Qed.

(* ... which depends on the row sequence only, not on how it was cut *)
Theorem fetch_loop_fillnull_stream v ew all :
  exists l, dp_run (fillnull_proc v) fillnull_flags ew all = Some l
    /\ concat l = map (fill_row v (batch_cols [] (concat all))) (concat all).
Proof.
  destruct (fetch_loop_fillnull v ew all) as (l & H1 & H2).
  exists l. split; [easy|]. now rewrite <- batch_cols_concat.
Qed.

(* ====================================================================== *)
(* Several upstream streams                                                 *)
(* ====================================================================== *)

(* ---------- commands that need the whole input ---------- *)
Lemma whole_run_from g : forall bs s,
  concat (run_batches_from (whole_cmd g) s bs) = g (s ++ concat bs).
Proof.
  induction bs as [|b bs IH]; intros s; simpl.
  - now rewrite !app_nil_r.
  - rewrite IH. now rewrite app_assoc.
Qed.

Theorem whole_spec g bs : run (whole_cmd g) bs = g (concat bs).
Proof. exact (whole_run_from g bs []). Qed.

Theorem whole_chunk_inv g : chunk_inv (whole_cmd g).
Proof. intros bs. rewrite !whole_spec. simpl. now rewrite app_nil_r. Qed.

(* ---------- the Fetch loop on any two-pass processor ---------- *)
Lemma twopass_first_pass t ew : forall rest (a : tp_S t) exh,
  (exh = true -> rest = []) ->
  exists d out, fetch_pass (twopass_proc t) twopass_flags ew (a, false) rest exh false
            = FPassEnd d out /\ d_ps d = (fold_left (fun a b => fold_left (tp_collect t) b a) rest a, false).
Proof.
  induction rest as [|b r IH]; intros a exh Hex.
  - simpl. destruct exh; simpl; do 2 eexists; split; reflexivity.
  - destruct exh; [now specialize (Hex eq_refl)|].
    cbn [fetch_pass twopass_proc twopass_flags pfinal pprocess is_bottleneck is_twopass negb orb andb fold_left].
    apply IH. destruct r; [easy | discriminate].
Qed.

Lemma twopass_second_pass t ew all (a : tp_S t) : forall rest exh fuel,
  (exh = true -> rest = []) -> (length rest < fuel)%nat ->
  drive (twopass_proc t) twopass_flags ew all fuel (@mkDp (twopass_proc t) (a, true) rest exh true)
  = Some (map (map (tp_apply t a)) rest).
Proof.
  induction rest as [|b r IH]; intros exh fuel Hex Hf; (destruct fuel as [|k]; [simpl in Hf; lia|]).
  - cbn [drive]. unfold fetch. simpl. destruct exh; simpl; reflexivity.
  - destruct exh; [now specialize (Hex eq_refl)|].
    cbn [drive]. unfold fetch. simpl.
    rewrite IH; [reflexivity | | simpl in Hf; lia].
    destruct r; [easy | discriminate].
Qed.

Lemma fold_collect_concat t : forall all (a : tp_S t),
  fold_left (fun a b => fold_left (tp_collect t) b a) all a = fold_left (tp_collect t) (concat all) a.
Proof.
  induction all as [|b r IH]; intros a; [easy|]. simpl. rewrite IH. now rewrite fold_left_app.
Qed.

(* first pass over all batches, rewind, second pass: every row transformed with the
   summary of the WHOLE input, for any batching and both EOF conventions *)
Theorem fetch_loop_twopass t ew all :
  exists l, dp_run (twopass_proc t) twopass_flags ew all = Some l
    /\ concat l = tp_sem t (concat all).
Proof.
  unfold dp_run.
  destruct (twopass_first_pass t ew all (tp_init t) false) as (d & out & Hd & Hps); [discriminate|].
  set (a := fold_left (fun a b => fold_left (tp_collect t) b a) all (tp_init t)) in *.
  exists (map (map (tp_apply t a)) all). split.
  - etransitivity; [| apply (twopass_second_pass t ew all a all false
                 (S (S (length all + length all)))); [discriminate | lia] ].
    cbn [drive]. unfold fetch at 1 3. cbn [d_ps d_rest d_exhausted d_first_done].
    change (pinit (twopass_proc t)) with (tp_init t, false). rewrite Hd.
    rewrite Hps. cbn [prewind twopass_proc fst].
    destruct (fetch_pass (twopass_proc t) twopass_flags ew (a, true) all false true) eqn:E;
      try reflexivity.
    exfalso. eapply fetch_pass_second_no_passend. exact E.
  - rewrite <- concat_map. unfold tp_sem, tp_summary. subst a. now rewrite fold_collect_concat.
Qed.

(* ---------- the planner ---------- *)
Lemma can_parallel_from_sound : forall ks i0 i,
  can_parallel_from false i0 (map flags_of ks) = (true, i) ->
  (i0 <= i)%nat /\ nth_error ks (i - i0) = Some KAgg /\ Forall (fun k => k = KRowwise) (firstn (i - i0) ks)
  /\ Forall (fun k => k <> KTwoPass) (skipn (S (i - i0)) ks).
Proof.
  induction ks as [|k ks IH]; intros i0 i H; [discriminate|].
  destruct k; simpl in H; try discriminate.
  - apply IH in H as (Hle & Hn & Hf & Hs).
    split; [lia|]. replace (i - i0)%nat with (S (i - S i0)) by lia. simpl. split; [easy|]. split; [now constructor | easy].
  - inversion H as [[Hb Hi]]; subst. rewrite Nat.sub_diag. simpl. repeat split; [lia | constructor |].
    apply negb_true_iff in Hb. apply Forall_forall. intros k Hk ->.
    assert (E : existsb i_twopass (map flags_of ks) = true).
    { apply existsb_exists. exists (flags_of KTwoPass). split; [now apply in_map | easy]. }
    congruence.
Qed.

(* the planner splits the chain only in front of an order-insensitive aggregation and only
   over row-wise commands: never over head/dedup/streamstats/tail, a generator, or a
   two-pass command (bin without span, fillnull without fields) — and not at all when a
   two-pass command follows the aggregation (it would rewind the merged chains) *)
Theorem planner_sound ks i :
  can_parallel (map flags_of ks) = (true, i) ->
  nth_error ks i = Some KAgg /\ Forall (fun k => k = KRowwise) (firstn i ks)
  /\ Forall (fun k => k <> KTwoPass) (skipn (S i) ks).
Proof.
  intros H. apply can_parallel_from_sound in H as (_ & Hn & Hf & Hs). now rewrite Nat.sub_0_r in *.
Qed.

(* ---------- the parallel plan for a mergeable aggregation ---------- *)
Lemma flat_map_perm {A B} (f : A -> list B) a b : Permutation a b -> Permutation (flat_map f a) (flat_map f b).
Proof.
  induction 1; simpl.
  - constructor.
  - now apply Permutation_app_head.
  - rewrite !app_assoc. apply Permutation_app_tail. apply Permutation_app_comm.
  - eapply Permutation_trans; eauto.
Qed.

Lemma prefix_sem_perm fs : forall a b, Permutation a b -> Permutation (prefix_sem fs a) (prefix_sem fs b).
Proof.
  unfold prefix_sem. induction fs as [|f fs IH]; intros a b P; simpl; [easy|].
  apply IH. now apply flat_map_perm.
Qed.

Lemma prefix_sem_app fs : forall a b, prefix_sem fs (a ++ b) = prefix_sem fs a ++ prefix_sem fs b.
Proof.
  unfold prefix_sem. induction fs as [|f fs IH]; intros a b; simpl; [easy|].
  rewrite flat_map_app. apply IH.
Qed.

Lemma chain_sem_rowwise fs : forall rows (tl : list stage),
  chain_sem (map (fun f => Stage (rowwise_cmd f) (fun x => x)) fs ++ tl) rows
  = chain_sem tl (prefix_sem fs rows).
Proof.
  unfold prefix_sem. induction fs as [|f fs IH]; intros rows tl; simpl; [easy|].
  rewrite IH. rewrite rowwise_spec. simpl. now rewrite app_nil_r.
Qed.

Section ParallelStats.
  Variable m : monoid.
  Variable inj : row -> mcar m.
  Variable render : mcar m -> batch.
  Hypothesis op_assoc : forall a b c, mop m a (mop m b c) = mop m (mop m a b) c.
  Hypothesis op_zero_l : forall a, mop m (mzero m) a = a.
  Hypothesis op_zero_r : forall a, mop m a (mzero m) = a.
  Hypothesis op_comm : forall a b, mop m a b = mop m b a.

  Lemma single_stats_plan_spec fs bs :
    single_stats_plan m inj render fs bs = render (magg m inj (prefix_sem fs (concat bs))).
  Proof.
    unfold single_stats_plan. rewrite chain_meaning.
    - rewrite chain_sem_rowwise. simpl.
      rewrite (stats_spec m inj render op_assoc op_zero_l op_zero_r). simpl. now rewrite app_nil_r.
    - apply Forall_app. split.
      + apply Forall_forall. intros s Hs. apply in_map_iff in Hs as (f & <- & _). simpl.
        split; [apply rowwise_chunk_inv | easy].
      + constructor; [|constructor]. simpl. split; [|easy].
        apply (stats_chunk_inv m inj render op_assoc op_zero_l op_zero_r).
  Qed.

  Lemma merge_partials fs : forall streams z,
    fold_left (mop m) (map (fun s => magg m inj (prefix_sem fs (concat s))) streams) z
    = mop m z (magg m inj (prefix_sem fs (concat (map (@concat row) streams)))).
  Proof.
    induction streams as [|s r IH]; intros z; simpl.
    - unfold prefix_sem. assert (E : fold_left (fun rs f => flat_map f rs) fs (@nil row) = []).
      { induction fs as [|f fs' IHf]; simpl; easy. }
      rewrite E. unfold magg. simpl. now rewrite op_zero_r.
    - rewrite IH. rewrite prefix_sem_app.
      rewrite (magg_app m inj op_assoc op_zero_l op_zero_r). now rewrite op_assoc.
  Qed.

  (* for EVERY way of dealing the rows to k streams (any k, any order, any batching inside a
     stream) the parallel plan returns what the single chain returns *)
  Theorem parallel_stats_plan_equiv fs streams bs :
    Permutation (concat (map (@concat row) streams)) (concat bs) ->
    parallel_stats_plan m inj render fs streams = single_stats_plan m inj render fs bs.
  Proof.
    intros P. rewrite single_stats_plan_spec. unfold parallel_stats_plan.
    rewrite merge_partials, op_zero_l. f_equal.
    apply (magg_perm m inj op_assoc op_zero_l op_zero_r op_comm).
    now apply prefix_sem_perm.
  Qed.
End ParallelStats.

(* ---------- two-pass commands must not be split ---------- *)
(* splitting is harmless exactly when every chain's own summary transforms its rows like
   the summary of the whole input does *)
Theorem twopass_split_guarded t streams :
  (forall s r, In s streams -> In r s ->
     tp_apply t (tp_summary t s) r = tp_apply t (tp_summary t (concat streams)) r) ->
  tp_split_sem t streams = tp_sem t (concat streams).
Proof.
  intros H. unfold tp_split_sem, tp_sem. rewrite flat_map_concat_map, concat_map. f_equal.
  apply map_ext_in. intros s Hs. apply map_ext_in. intros r Hr. now apply H.
Qed.

Definition flat : field := [108; 97; 116].
(* bin lat bins=2: stream 1 = {0, 50}, stream 2 = {1000, 1050}.  Alone each stream gets span
   100, together span 1000: the row lat=50 is in bin 0-1000 of the single chain and in no
   bin that any split chain produces *)
Definition bin_s1 : batch := [ [(flat, VNum 0)]; [(flat, VNum 50)] ].
Definition bin_s2 : batch := [ [(flat, VNum 1000)]; [(flat, VNum 1050)] ].
Theorem bin_split_refuted_thm :
  tp_sem (bin_tp flat 2) (bin_s1 ++ bin_s2)
    = map (fun s => [(flat, VStr s)]) [ [48;45;49;48;48;48]; [48;45;49;48;48;48];
                                        [49;48;48;48;45;50;48;48;48]; [49;48;48;48;45;50;48;48;48] ]
  /\ tp_split_sem (bin_tp flat 2) [bin_s1; bin_s2]
    = map (fun s => [(flat, VStr s)]) [ [48;45;49;48;48]; [48;45;49;48;48];
                                        [49;48;48;48;45;49;49;48;48]; [49;48;48;48;45;49;49;48;48] ]
  /\ tp_split_sem (bin_tp flat 2) [bin_s1; bin_s2] <> tp_sem (bin_tp flat 2) (concat [bin_s1; bin_s2]).
Proof. repeat split; vm_compute; try reflexivity. discriminate. Qed.

(* fillnull value=0: stream 1 has only column a, stream 2 only column b *)
Definition fn_s1 : batch := [ [(fa, VNum 1)] ].
Definition fn_s2 : batch := [ [(fb, VNum 2)] ].
Theorem fillnull_split_refuted_thm :
  tp_sem (fillnull_tp (VStr [48])) (fn_s1 ++ fn_s2)
    = [ [(fa, VNum 1); (fb, VStr [48])]; [(fb, VNum 2); (fa, VStr [48])] ]
  /\ tp_split_sem (fillnull_tp (VStr [48])) [fn_s1; fn_s2] = [ [(fa, VNum 1)]; [(fb, VNum 2)] ]
  /\ tp_split_sem (fillnull_tp (VStr [48])) [fn_s1; fn_s2]
     <> tp_sem (fillnull_tp (VStr [48])) (concat [fn_s1; fn_s2]).
Proof. repeat split; vm_compute; try reflexivity. discriminate. Qed.

(* the guard is satisfiable: streams with the same value range *)
Example twopass_split_guard_example :
  tp_split_sem (bin_tp flat 2) [bin_s1 ++ bin_s2; bin_s2 ++ bin_s1]
  = tp_sem (bin_tp flat 2) (concat [bin_s1 ++ bin_s2; bin_s2 ++ bin_s1]).
Proof. vm_compute. reflexivity. Qed.

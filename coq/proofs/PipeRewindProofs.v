(* PipeRewindProofs.v — C06: chains of DataProcessors with Rewind (Pipe.v level C).
   A command in front of a two-pass command is rewound and fed its input a second time; the
   chain must compute the two-pass command applied to the ONE-pass meaning of what is in front. *)
From SigM Require Import Base Pipe.
From SigP Require Import BaseProofs PipeProofs.
From Coq Require Import Lia ZifyN ZifyNat ZifyBool Permutation.
Ltac Zify.zify_post_hook ::= Z.div_mod_to_equations.
Open Scope N_scope.

(* ---------- replayable streams ---------- *)
(* a whole pass from the pass-start state u0 delivers the rows R, and every state the consumer
   can hold when it calls Rewind (after any event of the pass, after the EOF) satisfies P *)
Definition pass_ok (s : stream) (P : sst s -> Prop) (R : batch) (u0 : sst s) : Prop :=
  exists evs fin, strace s u0 = Some (evs, fin) /\ ev_rows evs fin = R
    /\ Forall (fun e => P (snd e)) evs /\ P (snd fin).
(* P is kept by Rewind, and a Rewind of a P-state starts a pass that delivers R again *)
Definition replays (s : stream) (P : sst s -> Prop) (R : batch) : Prop :=
  forall u, P u -> P (srewind s u) /\ pass_ok s P R (srewind s u).
(* the stream delivers R in its first pass and in every later pass, whenever it is rewound *)
Definition replayable (s : stream) (R : batch) : Prop :=
  exists P, pass_ok s P R (sinit s) /\ replays s P R.

Lemma replayable_rows s R : replayable s R -> stream_rows s = Some R.
Proof.
  intros (P & (evs & fin & E & Hr & _) & _). unfold stream_rows. rewrite E. now rewrite Hr.
Qed.

(* the batches of a pass *)
Definition olist (o : option batch) : list batch := match o with Some b => [b] | None => [] end.
Definition pass_batches {S} (tr : list (batch * S)) (fin : option batch * S) : list batch :=
  map fst tr ++ olist (fst fin).
Lemma pass_batches_rows {S} (tr : list (batch * S)) fin : concat (pass_batches tr fin) = ev_rows tr fin.
Proof.
  unfold pass_batches, ev_rows. rewrite concat_app. f_equal.
  destruct (fst fin); simpl; now rewrite ?app_nil_r.
Qed.
Definition pass_states {S} (tr : list (batch * S)) (fin : option batch * S) : list S :=
  map snd tr ++ [snd fin].
Lemma pass_states_P {S} (P : S -> Prop) tr fin :
  Forall (fun e => P (snd e)) tr -> P (snd fin) -> forall u, In u (pass_states tr fin) -> P u.
Proof.
  intros Ht Hf u Hin. unfold pass_states in Hin. apply in_app_or in Hin. destruct Hin as [Hin|[<-|[]]]; [|easy].
  apply in_map_iff in Hin. destruct Hin as (e & <- & He). rewrite Forall_forall in Ht. now apply Ht.
Qed.

(* ---------- the source ---------- *)
Lemma src_events_rows ew : forall rest,
  ev_rows (fst (src_events ew rest)) (snd (src_events ew rest)) = concat rest.
Proof.
  induction rest as [|b r IH]; [reflexivity|].
  destruct r as [|b2 r2].
  - simpl. destruct ew; unfold ev_rows; simpl; now rewrite ?app_nil_r.
  - change (src_events ew (b :: b2 :: r2))
      with (let '(evs, fin) := src_events ew (b2 :: r2) in ((b, b2 :: r2) :: evs, fin)).
    destruct (src_events ew (b2 :: r2)) as [evs fin]. unfold ev_rows in *. simpl in *.
    rewrite <- app_assoc. now rewrite IH.
Qed.

Theorem src_replayable ew all : replayable (src_stream ew all) (concat all).
Proof.
  assert (Hp : pass_ok (src_stream ew all) (fun _ => True) (concat all) all).
  { unfold pass_ok. simpl. pose proof (src_events_rows ew all) as H.
    destruct (src_events ew all) as [evs fin]. exists evs, fin. split; [reflexivity|]. split; [exact H|].
    split; [apply Forall_forall; easy | exact I]. }
  exists (fun _ => True). split; [exact Hp|]. intros u _. split; [exact I | exact Hp].
Qed.

(* ---------- a streaming processor whose Rewind resets its state ---------- *)
Section StreamingStage.
  Variable c : command.
  Variable rw : st c -> st c.
  Variable up : stream.
  Notation P := (proc_rw c rw).

  Lemma dp_pass_rw : forall tr fin first (s : st c) u,
    exists evs f,
      dp_pass P streaming_flags up first s u tr fin = RDone evs f
      /\ ev_rows evs f = concat (run_batches_from c s (pass_batches tr fin))
      /\ Forall (fun e => In (c_up (snd e)) (pass_states tr fin)) evs
      /\ In (c_up (snd f)) (pass_states tr fin).
  Proof.
    induction tr as [|[b u'] r IH]; intros fin first s u.
    - unfold pass_batches, pass_states. cbn [dp_pass map app pfinal pprocess proc_rw].
      destruct (fst fin) as [b|] eqn:Ef.
      + cbn [olist run_batches_from]. destruct (step c s b) as [[s' o] e]. destruct e.
        * unfold got_eof. cbn. do 2 eexists. split; [reflexivity|].
          split; [unfold ev_rows; simpl; now rewrite app_nil_r|]. split; [constructor | now left].
        * unfold emit, emits, dp_drain, got_eof, res_cons. cbn. do 2 eexists. split; [reflexivity|].
          split; [unfold ev_rows; simpl; now rewrite !app_nil_r|].
          split; [constructor; [now left | constructor] | now left].
      + unfold dp_drain, got_eof. cbn. do 2 eexists. split; [reflexivity|].
        split; [unfold ev_rows; simpl; now rewrite app_nil_r|]. split; [constructor | now left].
    - unfold pass_batches, pass_states in *. cbn [dp_pass map app pfinal proc_rw pprocess fst snd run_batches_from].
      destruct (step c s b) as [[s' o] e]. destruct e.
      + unfold got_eof. cbn. do 2 eexists. split; [reflexivity|].
        split; [unfold ev_rows; simpl; now rewrite app_nil_r|]. split; [constructor | now left].
      + destruct (IH fin first s' u') as (evs & f & E & Hr & Hs & Hf).
        change (proc_rw c rw) with P. rewrite E. unfold emit, emits, res_cons. cbn.
        do 2 eexists. split; [reflexivity|].
        split; [unfold ev_rows in *; simpl; rewrite <- app_assoc; now rewrite Hr|].
        split; [constructor; [now left|] | now right].
        eapply Forall_impl; [|exact Hs]. intros a Ha. now right.
  Qed.

  Hypothesis c_inv : chunk_inv c.
  Hypothesis rw_resets : forall s, rw s = init c.

  Lemma rw_pass_ok (Q : sst up -> Prop) R u0 first :
    pass_ok up Q R u0 ->
    pass_ok (dp_stream P streaming_flags up) (fun s => Q (c_up s)) (run c [R]) (@mkDpst P (sst up) (init c) u0 first).
  Proof.
    intros (tr & fin & E & Hr & Ht & Hf).
    destruct (dp_pass_rw tr fin first (init c) u0) as (evs & f & E2 & Hr2 & Hs & Hff).
    exists evs, f. split; [|split; [|split]].
    - cbn [strace dp_stream]. unfold dp_trace. cbn [c_up c_ps c_first]. rewrite E. now rewrite E2.
    - etransitivity; [exact Hr2|].
      change (concat (run_batches_from c (init c) (pass_batches tr fin))) with (run c (pass_batches tr fin)).
      rewrite c_inv. now rewrite pass_batches_rows, Hr.
    - eapply Forall_impl; [|exact Hs]. intros a Ha. now apply (pass_states_P Q tr fin).
    - now apply (pass_states_P Q tr fin).
  Qed.

  Theorem stage_streaming R : replayable up R -> replayable (dp_stream P streaming_flags up) (run c [R]).
  Proof.
    intros (Q & Hi & Hrep). exists (fun s => Q (c_up s)). split.
    - now apply rw_pass_ok.
    - intros s Hs. destruct (Hrep _ Hs) as [Hq Hp]. split; [exact Hq|].
      cbn [srewind dp_stream]. cbn [prewind proc_rw]. rewrite rw_resets. now apply rw_pass_ok.
  Qed.
End StreamingStage.

(* ---------- a bottleneck processor that keeps its final result ---------- *)
Section CachedStage.
  Variable c : command.
  Variable seal : st c -> st c.
  Variable out : st c -> option batch.
  Variable up : stream.
  Notation P := (proc_cached c seal out).

  Lemma dp_pass_cached_fresh : forall tr fin first (a : st c) u,
    dp_pass P bottleneck_flags up first (a, false) u tr fin
    = let a' := seal (fold_left (fun s b => fst (fst (step c s b))) (pass_batches tr fin) a) in
      RDone [] (out a', @mkDpst P (sst up) (a', true) (snd fin) first).
  Proof.
    induction tr as [|[b u'] r IH]; intros fin first a u.
    - unfold pass_batches. cbn [dp_pass map app]. cbn [pfinal pprocess proc_cached proc_cached_gen snd].
      destruct (fst fin) as [b|].
      + cbn [olist fold_left]. destruct (step c a b) as [[a1 o] e]. cbn.
        unfold emit, dp_drain, got_eof. cbn. reflexivity.
      + unfold dp_drain, got_eof. cbn. reflexivity.
    - unfold pass_batches in *. cbn [dp_pass map app fst]. cbn [pfinal pprocess proc_cached proc_cached_gen snd fold_left].
      destruct (step c a b) as [[a1 o] e]. cbn [fst]. unfold emit.
      change (proc_cached_gen c seal out (fun s => s)) with P. now rewrite IH.
  Qed.

  Lemma dp_pass_cached_done : forall tr fin first (a : st c) u,
    dp_pass P bottleneck_flags up first (a, true) u tr fin = RDone [] (out a, @mkDpst P (sst up) (a, true) u first).
  Proof. intros [|[b u'] r] fin first a u; reflexivity. Qed.

  Hypothesis c_inv : chunk_inv c.
  Hypothesis c_silent : silent c.
  Hypothesis out_is_finish : forall a, opt_rows (out (seal a)) = finish c a.

  Definition cached_inv (Q : sst up -> Prop) (R : batch) (s : dpst P (sst up)) : Prop :=
    Q (c_up s) /\ exists a, c_ps s = (a, true) /\ opt_rows (out a) = run c [R].

  Theorem stage_cached R : replayable up R -> replayable (dp_stream P bottleneck_flags up) (run c [R]).
  Proof.
    intros (Q & Hi & Hrep). exists (cached_inv Q R). split.
    - destruct Hi as (tr & fin & E & Hr & Ht & Hf).
      eexists [], _. split; [|split; [|split]].
      + cbn [strace dp_stream sinit]. unfold dp_trace. cbn [c_up c_ps c_first pinit proc_cached proc_cached_gen]. rewrite E.
        change (proc_cached_gen c seal out (fun s => s)) with P. rewrite dp_pass_cached_fresh. reflexivity.
      + unfold ev_rows. cbn [map concat app fst]. rewrite out_is_finish.
        rewrite <- (silent_run_from c c_silent).
        change (concat (run_batches_from c (init c) (pass_batches tr fin))) with (run c (pass_batches tr fin)).
        rewrite c_inv. now rewrite pass_batches_rows, Hr.
      + constructor.
      + split; [exact Hf|]. cbn [snd c_ps]. eexists. split; [reflexivity|].
        rewrite out_is_finish. rewrite <- (silent_run_from c c_silent).
        change (concat (run_batches_from c (init c) (pass_batches tr fin))) with (run c (pass_batches tr fin)).
        rewrite c_inv. now rewrite pass_batches_rows, Hr.
    - intros s (Hq & a & Ea & Ha). destruct (Hrep _ Hq) as [Hq' (tr & fin & E & _)].
      assert (Hinv : cached_inv Q R (srewind (dp_stream P bottleneck_flags up) s)).
      { split; [exact Hq'|]. exists a. split; [|exact Ha]. cbn. exact Ea. }
      split; [exact Hinv|].
      eexists [], _. split; [|split; [|split]].
      + cbn [strace dp_stream srewind]. unfold dp_trace. cbn [c_up c_ps c_first prewind proc_cached proc_cached_gen]. rewrite E, Ea.
        change (proc_cached_gen c seal out (fun s => s)) with P. rewrite dp_pass_cached_done. reflexivity.
      + unfold ev_rows. cbn. exact Ha.
      + constructor.
      + cbn [snd]. split; [exact Hq'|]. exists a. split; [reflexivity | exact Ha].
  Qed.
End CachedStage.

(* ---------- a two-pass processor ---------- *)
Section TwoPassStage.
  Variable t : twopass.
  Variable up : stream.
  Notation P := (twopass_proc t).

  Lemma dp_pass_tp_first : forall tr fin (a : tp_S t) u,
    dp_pass P twopass_flags up false (a, false) u tr fin
    = @RPassEnd P (sst up) [] (fold_left (fun a b => fold_left (tp_collect t) b a) (pass_batches tr fin) a, false) (snd fin).
  Proof.
    induction tr as [|[b u'] r IH]; intros fin a u.
    - unfold pass_batches. cbn [dp_pass map app]. cbn [pfinal twopass_proc].
      destruct (fst fin) as [b|]; reflexivity.
    - unfold pass_batches in *. cbn [dp_pass map app fst]. cbn [pfinal twopass_proc pprocess fold_left].
      unfold emit, emits. cbn. now rewrite IH.
  Qed.

  Lemma dp_pass_tp_second : forall tr fin (a : tp_S t) u,
    exists evs f,
      dp_pass P twopass_flags up true (a, true) u tr fin = RDone evs f
      /\ ev_rows evs f = map (tp_apply t a) (concat (pass_batches tr fin))
      /\ Forall (fun e : batch * dpst P (sst up) => c_ps (snd e) = (a, true) /\ c_first (snd e) = true /\ In (c_up (snd e)) (pass_states tr fin)) evs
      /\ c_ps (snd f) = (a, true) /\ c_first (snd f) = true /\ In (c_up (snd f)) (pass_states tr fin).
  Proof.
    induction tr as [|[b u'] r IH]; intros fin a u.
    - unfold pass_batches, pass_states. cbn [dp_pass map app]. cbn [pfinal twopass_proc].
      destruct (fst fin) as [b|].
      + cbn. do 2 eexists. split; [reflexivity|].
        split; [unfold ev_rows; simpl; now rewrite !app_nil_r|].
        split; [constructor; [|constructor]|]; repeat split; now left.
      + cbn. do 2 eexists. split; [reflexivity|]. split; [reflexivity|].
        split; [constructor|]. repeat split; now left.
    - unfold pass_batches, pass_states in *. cbn [dp_pass map app fst snd]. cbn [pfinal twopass_proc pprocess].
      destruct (IH fin a u') as (evs & f & E & Hr & Hs & Hf1 & Hf2 & Hf3).
      unfold emit, emits. cbn. rewrite E. cbn.
      do 2 eexists. split; [reflexivity|].
      split; [unfold ev_rows in *; simpl; rewrite <- app_assoc, Hr; now rewrite map_app|].
      split; [constructor; [repeat split; now left|]|repeat split; try easy; now right].
      eapply Forall_impl; [|exact Hs]. intros x (H1 & H2 & H3). repeat split; try easy. now right.
  Qed.

  Definition tp_inv (Q : sst up -> Prop) (R : batch) (s : dpst P (sst up)) : Prop :=
    Q (c_up s) /\ c_ps s = (tp_summary t R, true) /\ c_first s = true.

  Theorem stage_twopass R : replayable up R -> replayable (dp_stream P twopass_flags up) (tp_sem t R).
  Proof.
    intros (Q & Hi & Hrep). exists (tp_inv Q R).
    assert (Hsecond : forall u0, pass_ok up Q R u0 ->
              exists evs f, dp_pass P twopass_flags up true (tp_summary t R, true) u0
                                    (fst (match strace up u0 with Some x => x | None => ([], (None, u0)) end))
                                    (snd (match strace up u0 with Some x => x | None => ([], (None, u0)) end))
                            = RDone evs f
                /\ ev_rows evs f = tp_sem t R
                /\ Forall (fun e => tp_inv Q R (snd e)) evs /\ tp_inv Q R (snd f)).
    { intros u0 (tr & fin & E & Hr & Ht & Hf). rewrite E. cbn [fst snd].
      destruct (dp_pass_tp_second tr fin (tp_summary t R) u0) as (evs & f & E2 & Hr2 & Hs & Hf1 & Hf2 & Hf3).
      exists evs, f. split; [exact E2|]. split.
      - rewrite Hr2, pass_batches_rows, Hr. reflexivity.
      - split.
        + eapply Forall_impl; [|exact Hs]. intros x (H1 & H2 & H3). split; [|easy].
          now apply (pass_states_P Q tr fin).
        + split; [|easy]. now apply (pass_states_P Q tr fin). }
    split.
    - destruct Hi as (tr & fin & E & Hr & Ht & Hf).
      destruct (Hrep _ Hf) as [Hq2 Hp2].
      destruct (Hsecond _ Hp2) as (evs & f & E2 & Hr2 & Hs2 & Hf2).
      destruct Hp2 as (tr2 & fin2 & E3 & _). rewrite E3 in E2. cbn [fst snd] in E2.
      exists evs, f. split; [|easy].
      cbn [strace dp_stream sinit]. unfold dp_trace. cbn [c_up c_ps c_first pinit twopass_proc]. rewrite E.
      change (mkProc (tp_S t * bool) (tp_init t, false) _ _ _) with P.
      rewrite dp_pass_tp_first. rewrite E3.
      cbn [prewind twopass_proc fst].
      rewrite fold_collect_concat, pass_batches_rows, Hr.
      change (fold_left (tp_collect t) R (tp_init t)) with (tp_summary t R).
      change (mkProc (tp_S t * bool) (tp_init t, false) _ _ _) with P.
      rewrite E2. reflexivity.
    - intros s (Hq & Eps & Ef). destruct (Hrep _ Hq) as [Hq' Hp'].
      split; [split; [exact Hq'|]; cbn; rewrite Eps; easy|].
      destruct (Hsecond _ Hp') as (evs & f & E2 & Hr2 & Hs2 & Hf2).
      destruct Hp' as (tr2 & fin2 & E3 & _). rewrite E3 in E2. cbn [fst snd] in E2.
      exists evs, f. split; [|easy].
      cbn [strace dp_stream srewind]. unfold dp_trace. cbn [c_up c_ps c_first]. rewrite E3, Eps, Ef.
      cbn [prewind twopass_proc fst]. rewrite E2. reflexivity.
  Qed.
End TwoPassStage.

(* ---------- chains of DataProcessors ---------- *)
(* the stages whose Rewind / GetFinalResultIfExists make them deliver their one-pass meaning
   [sem] again in every pass *)
Inductive good_stage : rstage -> (batch -> batch) -> Prop :=
| gs_streaming c rw sem : chunk_inv c -> (forall s, rw s = init c) -> (forall R, sem R = run c [R]) ->
    good_stage (RStage (proc_rw c rw) streaming_flags) sem
| gs_cached c seal out sem : chunk_inv c -> silent c -> (forall a, opt_rows (out (seal a)) = finish c a) ->
    (forall R, sem R = run c [R]) ->
    good_stage (RStage (proc_cached c seal out) bottleneck_flags) sem
| gs_twopass t : good_stage (RStage (twopass_proc t) twopass_flags) (tp_sem t).

Definition sems_apply (sems : list (batch -> batch)) (R : batch) : batch :=
  fold_left (fun r f => f r) sems R.

Theorem chain_replayable : forall stages sems, Forall2 good_stage stages sems ->
  forall src R, replayable src R -> replayable (build_chain src stages) (sems_apply sems R).
Proof.
  induction 1 as [|x y l l' Hg _ IH]; intros src R Hr; [exact Hr|].
  cbn [build_chain fold_left sems_apply]. apply IH. destruct Hg as [c rw sem Hc Hrw Hs | c seal out sem Hc Hsil Ho Hs | t].
  - rewrite Hs. now apply stage_streaming.
  - rewrite Hs. now apply stage_cached.
  - now apply stage_twopass.
Qed.

(* the main theorem: whatever two-pass commands rewind whatever is in front of them, however the
   source cuts its batches and reports EOF, the chain delivers the composition of the one-pass
   meanings of its stages *)
Theorem rewound_chain_meaning stages sems ew bs : Forall2 good_stage stages sems ->
  stream_rows (build_chain (src_stream ew bs) stages) = Some (sems_apply sems (concat bs)).
Proof. intros H. apply replayable_rows. apply chain_replayable; [exact H | apply src_replayable]. Qed.

Theorem rewound_chain_batching_invariant stages sems ew ew' bs bs' : Forall2 good_stage stages sems ->
  concat bs = concat bs' ->
  stream_rows (build_chain (src_stream ew bs) stages) = stream_rows (build_chain (src_stream ew' bs') stages).
Proof. intros H E. rewrite !(rewound_chain_meaning stages sems) by exact H. now rewrite E. Qed.

(* ---------- the processors of the code are good stages ---------- *)
Lemma rows_fold_silent {S} (f : S -> row -> S * list row) : (forall s r, snd (f s r) = []) ->
  forall b s, snd (rows_fold f s b) = [].
Proof.
  intros Hf. induction b as [|r t IH]; intros s; [reflexivity|]. simpl.
  specialize (Hf s r). destruct (f s r) as [s1 o1]. simpl in Hf. subst o1.
  specialize (IH s1). destruct (rows_fold f s1 t) as [s2 o2]. simpl in *. exact IH.
Qed.
Lemma row_cmd_silent {S} (i : S) f fin : (forall s r, snd (f s r) = []) -> silent (row_cmd i f fin).
Proof.
  intros Hf s b. simpl. pose proof (rows_fold_silent f Hf b s) as H.
  destruct (rows_fold f s b) as [s' o]. simpl in *. now subst.
Qed.
Lemma tail_silent n : silent (tail_cmd n).
Proof. intros [f|] b; simpl; [destruct (n <=? N.of_nat (length b))|]; easy. Qed.

Theorem good_head n : good_stage (RStage (head_proc n) streaming_flags) (fun R => firstn (N.to_nat n) R).
Proof.
  apply gs_streaming; [apply head_chunk_inv | reflexivity |].
  intros R. rewrite head_spec. simpl. now rewrite app_nil_r.
Qed.
Theorem good_head_expr cond o :
  good_stage (RStage (head_expr_proc cond o) streaming_flags) (fun R => run (head_expr_cmd cond o) [R]).
Proof. apply gs_streaming; [apply head_expr_chunk_inv | reflexivity | reflexivity]. Qed.
Theorem good_dedup H o : good_stage (RStage (dedup_proc H o) streaming_flags) (fun R => run (dedup_cmd H o) [R]).
Proof. apply gs_streaming; [apply dedup_chunk_inv | reflexivity | reflexivity]. Qed.
Theorem good_streamstats o :
  good_stage (RStage (streamstats_proc o) streaming_flags) (fun R => run (streamstats_cmd false o) [R]).
Proof. apply gs_streaming; [apply streamstats_fixed_chunk_inv | reflexivity | reflexivity]. Qed.
Theorem good_rowwise f : good_stage (RStage (rowwise_proc f) streaming_flags) (flat_map f).
Proof.
  apply gs_streaming; [apply rowwise_chunk_inv | now intros [] |].
  intros R. rewrite rowwise_spec. simpl. now rewrite app_nil_r.
Qed.
Theorem good_tail n : good_stage (RStage (tail_proc n) bottleneck_flags) (fun R => rev (lastN n R)).
Proof.
  apply gs_cached; [apply tail_chunk_inv | apply tail_silent | now intros [f|] |].
  intros R. rewrite tail_spec. simpl. now rewrite app_nil_r.
Qed.
Theorem good_toprare is_top limit fields countf :
  good_stage (RStage (agg_proc (toprare_cmd is_top limit fields countf)) bottleneck_flags)
             (fun R => run (toprare_cmd is_top limit fields countf) [R]).
Proof.
  apply gs_cached; [apply toprare_chunk_inv | now apply row_cmd_silent | reflexivity | reflexivity].
Qed.
Theorem good_gstats by_fields vf countf sumf :
  good_stage (RStage (agg_proc (gstats_cmd by_fields vf countf sumf)) bottleneck_flags)
             (fun R => run (gstats_cmd by_fields vf countf sumf) [R]).
Proof.
  apply gs_cached; [apply gstats_chunk_inv | now apply row_cmd_silent | reflexivity | reflexivity].
Qed.
Theorem good_stats (m : monoid) inj render :
  (forall a b c, mop m a (mop m b c) = mop m (mop m a b) c) ->
  (forall a, mop m (mzero m) a = a) -> (forall a, mop m a (mzero m) = a) ->
  good_stage (RStage (agg_proc (stats_cmd m inj render)) bottleneck_flags) (fun R => render (magg m inj R)).
Proof.
  intros Ha Hl Hr.
  apply gs_cached; [now apply stats_chunk_inv | easy | reflexivity |].
  intros R. rewrite stats_spec by assumption. simpl. now rewrite app_nil_r.
Qed.

(* the two shapes of the seeded defects, spelled out *)
Theorem tail_then_two_pass n t ew bs :
  stream_rows (build_chain (src_stream ew bs)
                 [RStage (tail_proc n) bottleneck_flags; RStage (twopass_proc t) twopass_flags])
  = Some (tp_sem t (rev (lastN n (concat bs)))).
Proof.
  apply (rewound_chain_meaning _ [fun R => rev (lastN n R); tp_sem t]).
  constructor; [apply good_tail|]. constructor; [apply gs_twopass | constructor].
Qed.
Theorem head_then_two_pass n t ew bs :
  stream_rows (build_chain (src_stream ew bs)
                 [RStage (head_proc n) streaming_flags; RStage (twopass_proc t) twopass_flags])
  = Some (tp_sem t (firstn (N.to_nat n) (concat bs))).
Proof.
  apply (rewound_chain_meaning _ [fun R => firstn (N.to_nat n) R; tp_sem t]).
  constructor; [apply good_head|]. constructor; [apply gs_twopass | constructor].
Qed.

(* a command that rewrites rows between tail and the two-pass command is applied once (tail gives
   away copies of its kept result); stats without BY in front of a two-pass command is not doubled *)
Theorem tail_rowwise_then_two_pass n f t ew bs :
  stream_rows (build_chain (src_stream ew bs)
                 [RStage (tail_proc n) bottleneck_flags; RStage (rowwise_proc f) streaming_flags;
                  RStage (twopass_proc t) twopass_flags])
  = Some (tp_sem t (flat_map f (rev (lastN n (concat bs))))).
Proof.
  apply (rewound_chain_meaning _ [fun R => rev (lastN n R); flat_map f; tp_sem t]).
  constructor; [apply good_tail|]. constructor; [apply good_rowwise|].
  constructor; [apply gs_twopass | constructor].
Qed.
Theorem stats_noby_then_two_pass vf countf sumf t ew bs :
  stream_rows (build_chain (src_stream ew bs)
                 [RStage (agg_proc (gstats_cmd [] vf countf sumf)) bottleneck_flags;
                  RStage (twopass_proc t) twopass_flags])
  = Some (tp_sem t (run (gstats_cmd [] vf countf sumf) [concat bs])).
Proof.
  apply (rewound_chain_meaning _ [fun R => run (gstats_cmd [] vf countf sumf) [R]; tp_sem t]).
  constructor; [apply good_gstats|]. constructor; [apply gs_twopass | constructor].
Qed.

(* ---------- what the hypotheses on Rewind exclude ---------- *)
Definition fid : field := [105; 100].
Definition rid (k : Z) : row := [(fid, VNum k)].
Definition fill0 : twopass := fillnull_tp (VStr [48]).

(* a tail whose Rewind clears only the EOF flag accumulates the second run of its input behind
   the (reversed) result of the first: tail 5 over the rows 1,2,3 in front of fillnull keeps 2,1
   of the stale 3,2,1, appends 1,2,3 and reverses again: 3,2,1,1,2 instead of 3,2,1 *)
Theorem tail_rewind_clearing_eof_refuted :
  stream_rows (build_chain (src_stream false [[rid 1; rid 2; rid 3]])
                 [RStage (tail_proc_gen 5 (fun s => (fst s, false))) bottleneck_flags;
                  RStage (twopass_proc fill0) twopass_flags])
  = Some [rid 3; rid 2; rid 1; rid 1; rid 2]
  /\ tp_sem fill0 (rev (lastN 5 [rid 1; rid 2; rid 3])) = [rid 3; rid 2; rid 1].
Proof. split; vm_compute; reflexivity. Qed.

(* with at least TailRows rows in the input the stale rows are pushed out again: the defect needs
   fewer rows than the limit *)
Example tail_rewind_clearing_eof_enough_rows :
  stream_rows (build_chain (src_stream false [[rid 1; rid 2]; [rid 3]])
                 [RStage (tail_proc_gen 2 (fun s => (fst s, false))) bottleneck_flags;
                  RStage (twopass_proc fill0) twopass_flags])
  = Some [rid 3; rid 2].
Proof. vm_compute. reflexivity. Qed.

(* a head whose Rewind keeps numRecordsSent lets nothing through in the second pass *)
Theorem head_rewind_keeping_count_refuted :
  stream_rows (build_chain (src_stream false [[rid 1]; [rid 2]; [rid 3]; [rid 4]])
                 [RStage (proc_rw (head_cmd 2) (fun s => s)) streaming_flags;
                  RStage (twopass_proc fill0) twopass_flags])
  = Some []
  /\ tp_sem fill0 (firstn 2 [rid 1; rid 2; rid 3; rid 4]) = [rid 1; rid 2].
Proof. split; vm_compute; reflexivity. Qed.

(* ---------- known defect: the IQR handed out twice ---------- *)
Theorem alias_two_pass_guarded f t rows : (forall r, f (f r) = f r) ->
  alias_two_pass f t rows = tp_sem t (map f rows).
Proof.
  intros Hf. unfold alias_two_pass, tp_sem. f_equal.
  rewrite map_map. apply map_ext. exact Hf.
Qed.
Definition fvv : field := [118].
Definition incr_v (r : row) : row :=
  match get r fvv with VNum z => set_field r fvv (VNum (z + 1)) | _ => r end.
Theorem alias_two_pass_refuted :
  alias_two_pass incr_v fill0 [[(fvv, VNum 0)]] = [[(fvv, VNum 2)]]
  /\ tp_sem fill0 (map incr_v [[(fvv, VNum 0)]]) = [[(fvv, VNum 1)]].
Proof. split; vm_compute; reflexivity. Qed.
(* the guard holds e.g. for a command that overwrites a column with a constant *)
Example alias_two_pass_guard_satisfiable :
  alias_two_pass (fun r => set_field r fvv (VNum 7)) fill0 [[(fvv, VNum 0)]]
  = tp_sem fill0 (map (fun r => set_field r fvv (VNum 7)) [[(fvv, VNum 0)]]).
Proof. vm_compute. reflexivity. Qed.

(* ---------- known defect: stats without BY extracted twice ---------- *)
Theorem stats_noby_two_pass_guarded c t rows : run c [rows ++ rows] = run c [rows] ->
  stats_noby_two_pass c t rows = tp_sem t (run c [rows]).
Proof. intros H. unfold stats_noby_two_pass, tp_sem. now rewrite H. Qed.
Definition fcnt : field := [99]. Definition fsum : field := [115].
Theorem stats_noby_two_pass_refuted :
  stats_noby_two_pass (gstats_cmd [] fvv fcnt fsum) fill0 [[(fvv, VNum 3)]]
    = [[(fcnt, VNum 2); (fsum, VNum 6)]]
  /\ tp_sem fill0 (run (gstats_cmd [] fvv fcnt fsum) [[[(fvv, VNum 3)]]]) = [[(fcnt, VNum 1); (fsum, VNum 3)]].
Proof. split; vm_compute; reflexivity. Qed.
Example stats_noby_guard_satisfiable :
  run (gstats_cmd [] fvv fcnt fsum) [[] ++ []] = run (gstats_cmd [] fvv fcnt fsum) [[]].
Proof. reflexivity. Qed.

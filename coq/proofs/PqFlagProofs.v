(* PqFlagProofs.v — persistent-query bookkeeping across the open -> rotated hand-over (model: PqFlag.v).
   For EVERY sequence of flushes (blocks with or without matches, in any pattern), rotations and listener passes:
     flag_is_or          : the per-query flag of the open segment = "some flushed block of it has a match";
     books_exact         : a rotated segment keeps its pqmr file iff one of its blocks has a match, and is queued for /
                           on the empty-segments list iff none has;
     search_exact        : the planner's answer (skipping listed segments) = the matching events of every flushed block,
                           in flush order;
     rotation_transparent: rotations and listener passes inserted anywhere change no answer;
   and the refutation of the writer whose flag reflects only the block flushed last. *)
From Coq Require Import List Bool Arith NArith Lia.
From SigM Require Import Base PqFlag PqFlagCheck.
Import ListNotations.
Open Scope nat_scope.

Section Proofs.
Variable event : Type.
Variable matches : event -> bool.

Notation any_match := (any_match event matches).
Notation hits := (hits event matches).
Notation step := (step event matches).
Notation run := (run event matches).
Notation search := (search event matches).
Notation st := (st event).
Notation rseg := (rseg event).

Lemma flag_is_or_from : forall (bs : list (block event)) (f0 : bool),
  fold_left (flag_step event matches true) bs f0 = f0 || existsb any_match bs.
Proof.
  induction bs as [|b bs IH]; intros f0; simpl.
  - now rewrite orb_false_r.
  - rewrite IH. unfold flag_step. now rewrite orb_assoc.
Qed.

Lemma flag_is_or : forall bs : list (block event),
  fold_left (flag_step event matches true) bs false = existsb any_match bs.
Proof. intros bs. now rewrite flag_is_or_from. Qed.

Lemma hits_app : forall a b, hits (a ++ b) = hits a ++ hits b.
Proof. intros a b. unfold PqFlag.hits. now rewrite concat_app, filter_app. Qed.

Lemma filter_nil_existsb : forall b : list event, existsb matches b = false -> filter matches b = [].
Proof.
  induction b as [|e b IH]; simpl; intros H; auto.
  apply orb_false_iff in H. destruct H as [He Hb]. rewrite He. auto.
Qed.

Lemma hits_nil : forall bs, existsb any_match bs = false -> hits bs = [].
Proof.
  induction bs as [|b bs IH]; simpl; intros H; auto.
  apply orb_false_iff in H. destruct H as [Hb Hr].
  unfold PqFlag.hits in *. simpl. rewrite filter_app, (filter_nil_existsb b Hb). simpl. auto.
Qed.

(* the bookkeeping of a rotated segment is the truth about its blocks *)
Definition good_r (r : rseg) : Prop :=
  has_pqmr event r = existsb any_match (rblocks event r)
  /\ (noted event r || queued event r) = negb (existsb any_match (rblocks event r)).

Definition Inv (s : st) : Prop :=
  oflag event (open event s) = existsb any_match (oblocks event (open event s))
  /\ Forall good_r (rot event s).

Lemma existsb_snoc : forall (f : block event -> bool) l x, existsb f (l ++ [x]) = existsb f l || f x.
Proof. intros. rewrite existsb_app. simpl. now rewrite orb_false_r. Qed.

Lemma inv_init : Inv (init event).
Proof. split; simpl; auto. Qed.

Lemma inv_step : forall s o, Inv s -> Inv (step true s o).
Proof.
  intros s o [Hf Hr]. destruct o as [b| |]; simpl.
  - split; simpl; auto. rewrite existsb_snoc, Hf. reflexivity.
  - destruct (oblocks event (open event s)) eqn:Eb.
    + split; auto. now rewrite Eb.
    + split; simpl; auto. apply Forall_app. split; auto. constructor; auto.
      unfold good_r, rotate_seg. simpl. rewrite Eb, Hf. split; auto.
  - split; simpl; auto. apply Forall_forall. intros r Hin. apply in_map_iff in Hin.
    destruct Hin as [r0 [<- Hin0]]. rewrite Forall_forall in Hr. destruct (Hr r0 Hin0) as [H1 H2].
    unfold good_r. simpl. split; auto. now rewrite orb_false_r.
Qed.

Lemma inv_fold : forall ops s, Inv s -> Inv (fold_left (step true) ops s).
Proof. induction ops as [|o ops IH]; simpl; intros s H; auto. apply IH, inv_step, H. Qed.

Theorem inv_run : forall ops, Inv (run true ops).
Proof. intros. apply inv_fold, inv_init. Qed.

Theorem books_exact : forall ops r, In r (rot event (run true ops)) ->
  seg_books event r = (existsb any_match (rblocks event r), negb (existsb any_match (rblocks event r))).
Proof.
  intros ops r Hin. destruct (inv_run ops) as [_ Hr]. rewrite Forall_forall in Hr.
  destruct (Hr r Hin) as [H1 H2]. unfold seg_books. now rewrite H1, H2.
Qed.

(* every block that was flushed is in exactly one segment, in flush order (for either writer) *)
Definition all_blocks (s : st) : list (block event) :=
  flat_map (rblocks event) (rot event s) ++ oblocks event (open event s).

Lemma all_blocks_step : forall acc s o,
  all_blocks (step acc s o) = all_blocks s ++ match o with Flush _ b => [b] | _ => [] end.
Proof.
  intros acc s o. unfold all_blocks. destruct o as [b| |]; simpl.
  - now rewrite app_assoc.
  - destruct (oblocks event (open event s)) eqn:Eb; simpl.
    + now rewrite Eb, !app_nil_r.
    + rewrite flat_map_app. simpl. rewrite !app_nil_r; try rewrite Eb; reflexivity.
  - rewrite app_nil_r. f_equal. induction (rot event s) as [|r rs IH]; simpl; auto. now rewrite IH.
Qed.

Lemma all_blocks_fold : forall acc ops s,
  all_blocks (fold_left (step acc) ops s) = all_blocks s ++ flushed event ops.
Proof.
  induction ops as [|o ops IH]; intros s; simpl.
  - now rewrite app_nil_r.
  - rewrite IH, all_blocks_step. destruct o; simpl; rewrite <- ?app_assoc, ?app_nil_r; simpl; auto.
Qed.

Lemma all_blocks_run : forall acc ops, all_blocks (run acc ops) = flushed event ops.
Proof. intros. unfold PqFlag.run. now rewrite all_blocks_fold. Qed.

Lemma search_inv : forall s, Inv s -> search s = hits (all_blocks s).
Proof.
  intros s [_ Hr]. unfold PqFlag.search, all_blocks. rewrite hits_app. f_equal.
  induction Hr as [|r rs [H1 H2] _ IH]; simpl; auto.
  rewrite hits_app, IH. f_equal. unfold search_rot.
  destruct (noted event r) eqn:En; auto.
  simpl in H2. symmetry. apply hits_nil. destruct (existsb any_match (rblocks event r)); auto.
Qed.

Theorem search_exact : forall ops, search (run true ops) = hits (flushed event ops).
Proof. intros. rewrite search_inv by apply inv_run. now rewrite all_blocks_run. Qed.

Lemma flushed_app : forall a b, flushed event (a ++ b) = flushed event a ++ flushed event b.
Proof. induction a as [|o a IH]; intros b; simpl; auto. destruct o; simpl; rewrite ?IH; auto. Qed.

(* a rotation or a listener pass inserted anywhere changes no answer, before or after it *)
Theorem rotation_transparent : forall ops1 ops2 o,
  (o = Rotate event \/ o = Listen event) ->
  search (run true (ops1 ++ o :: ops2)) = search (run true (ops1 ++ ops2)).
Proof.
  intros ops1 ops2 o Ho. rewrite !search_exact, !flushed_app.
  destruct Ho as [-> | ->]; reflexivity.
Qed.
End Proofs.

(* ---- the instance of the case files ---- *)
Theorem inst_search_exact : forall (m : list N) (ops : list pop),
  model_answer true true m ops = model_answer true false m ops.
Proof. intros. unfold model_answer, prun. apply search_exact. Qed.

Theorem inst_books_exact : forall (m : list N) (ops : list pop),
  Forall (fun r => seg_books N r = (existsb (any_match N (qmatches m)) (rblocks N r),
                                    negb (existsb (any_match N (qmatches m)) (rblocks N r))))
         (rot N (prun true m ops)).
Proof. intros. apply Forall_forall. intros r Hin. eapply books_exact. exact Hin. Qed.

(* The writer whose flag is the value of the LAST flushed block: blocks [1] (match) then [2] (no match), rotation,
   one listener pass: the pqmr file is gone, the segment is on the empty list and the planner's answer loses event 1;
   before the listener pass and while the segment is open the answer is complete; one-block segments and segments
   whose last block matches behave alike under both writers. *)
Theorem last_block_flag_refuted :
  let F := Flush N in let R := Rotate N in let L := Listen N in
  let ans acc ops := search N (qmatches [1%N]) (prun acc [1%N] ops) in
  let books acc ops := map (seg_books N) (rot N (prun acc [1%N] ops)) in
  ans false [F [1%N]; F [2%N]; R; L] = []
  /\ ans true [F [1%N]; F [2%N]; R; L] = [1%N]
  /\ books false [F [1%N]; F [2%N]; R; L] = [(false, true)]
  /\ books true [F [1%N]; F [2%N]; R; L] = [(true, false)]
  /\ ans false [F [1%N]; F [2%N]] = [1%N]
  /\ ans false [F [1%N]; F [2%N]; R] = [1%N]
  /\ ans false [F [2%N]; F [1%N]; R; L] = [1%N]
  /\ ans false [F [1%N]; R; L; F [2%N]; R; L] = [1%N].
Proof. vm_compute. repeat split; reflexivity. Qed.

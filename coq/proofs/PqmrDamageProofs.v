(* PqmrDamageProofs.v — C18: what damage to a pqmr file (no checksum) makes of a persistent query's answer.
   Truncation at any length: every block is answered with the records that match (the reader stops at the short
   record, the searcher raw-searches what the file does not report).  One replaced byte inside a bitset word or a block
   number: the file still parses, every record keeps its place, the damaged record reports the damaged word / block
   number; the blocks the damage does not name are still answered correctly, the block it names is answered from the
   damaged bits (refuted: "served answers are the original ones").  One replaced byte in the length field: the reader
   allocates for the announced length before reading a word; a guard "the announced bits fit into the record" bounds
   the allocation by the record's size and accepts everything the writer produces. *)
From Coq Require Import Lia ZifyN ZifyNat ZifyBool.
From SigM Require Import Base PqmrProto PqmrDamage.
From SigP Require Import BaseProofs PqmrProtoProofs.
Open Scope N_scope.
Ltac Zify.zify_post_hook ::= Z.div_mod_to_equations.

(* ---------- 1: truncation ---------- *)
Theorem pqd_truncation_answer_original : forall (bl : list (N * bitset)) (truth : N -> list N) (k : nat) (nblocks : N),
  wf_blocks bl = true -> (forall b bs, In (b, bs) bl -> set_bits bs = truth b) ->
  forall b, b < nblocks -> pq_answer (firstn k (file_of bl)) nblocks truth b = truth b.
Proof. intros bl truth k nblocks Hwf Ht b Hb. unfold pq_answer. apply pqmr_seg_answer_after_crash; assumption. Qed.

(* ---------- 2: a reader that goes on after the short read ---------- *)
Theorem pqd_tolerant_reader_refuted :
  let bl := [(0, (1, [1])); (1, (2, [2]))] in
  let truth := fun b : N => if N.eqb b 0 then [0] else [1] in
  wf_blocks bl = true /\ (forall b bs, In (b, bs) bl -> set_bits bs = truth b) /\
  pq_answer (firstn 25 (file_of bl)) 2 truth 1 = truth 1 /\
  pq_answer_tolerant (firstn 25 (file_of bl)) 2 truth 1 = [0] /\ truth 1 = [1].
Proof.
  cbv zeta. split; [reflexivity|]. split.
  - intros b bs [H|[H|[]]]; injection H as <- <-; reflexivity.
  - repeat split; vm_compute; reflexivity.
Qed.

(* ---------- list surgery ---------- *)
Lemma set_nth_app_r {A} (a l : list A) j v : set_nth (length a + j) v (a ++ l) = a ++ set_nth j v l.
Proof. induction a as [|x a IH]; [reflexivity|]. cbn [length app Nat.add set_nth]. rewrite IH. reflexivity. Qed.

Lemma set_nth_app_l {A} (a l : list A) : forall j v, (j < length a)%nat -> set_nth j v (a ++ l) = set_nth j v a ++ l.
Proof.
  induction a as [|x a IH]; intros j v H; cbn [length] in H; [lia|].
  destruct j as [|j]; [reflexivity|]. cbn [app set_nth]. rewrite IH by lia. reflexivity.
Qed.

Lemma file_of_app a b : file_of (a ++ b) = file_of a ++ file_of b.
Proof. unfold file_of. apply flat_map_app. Qed.

Lemma file_of_mid pre x post : file_of (pre ++ x :: post) = file_of pre ++ enc_block (fst x) (snd x) ++ file_of post.
Proof. rewrite file_of_app, file_of_cons. reflexivity. Qed.

Lemma wf_blocks_mid pre x post :
  wf_blocks (pre ++ x :: post) = true <-> wf_blocks pre = true /\ wf_block x = true /\ wf_blocks post = true.
Proof. unfold wf_blocks. rewrite forallb_app. cbn [forallb]. rewrite !andb_true_iff. tauto. Qed.

Lemma bytes_ok_set_nth l : forall i v, bytes_ok l -> v < 256 -> bytes_ok (set_nth i v l).
Proof.
  induction l as [|x l IH]; intros i v H Hv; [destruct i; constructor|].
  inversion H as [|? ? Hx Hl]; subst. destruct i as [|i]; cbn [set_nth]; constructor; auto. apply IH; auto.
Qed.

Lemma forallb_set_nth {A} (p : A -> bool) l : forall i x, forallb p l = true -> p x = true -> forallb p (set_nth i x l) = true.
Proof.
  induction l as [|y l IH]; intros i x H Hx; [destruct i; reflexivity|].
  cbn [forallb] in H. apply andb_true_iff in H as [Hy Hl].
  destruct i as [|i]; cbn [set_nth forallb]; apply andb_true_iff; split; auto.
Qed.

(* ---------- a byte list is the encoding of what it decodes to ---------- *)
Lemma le_enc_dec l : bytes_ok l -> le_enc (length l) (le_dec l) = l.
Proof.
  intros H. apply le_dec_inj.
  - apply le_enc_ok.
  - exact H.
  - apply le_enc_length.
  - apply le_dec_enc. apply le_dec_bound. exact H.
Qed.

Lemma bytes_ok_rev l : bytes_ok l -> bytes_ok (rev l).
Proof. apply Forall_rev. Qed.

Lemma be64_ok n : bytes_ok (be64 n).
Proof. unfold be64. apply bytes_ok_rev. apply le_enc_ok. Qed.

Lemma be64_be_dec l : bytes_ok l -> length l = 8%nat -> be64 (be_dec l) = l.
Proof.
  intros H L. unfold be64, be_dec.
  replace 8%nat with (length (rev l)) by (rewrite rev_length; exact L).
  rewrite le_enc_dec by (apply bytes_ok_rev; exact H). apply rev_involutive.
Qed.

Lemma be_dec_bound l : bytes_ok l -> length l = 8%nat -> be_dec l < pow2_64.
Proof.
  intros H L. unfold be_dec. rewrite <- pow256_8. rewrite <- L, <- rev_length.
  apply le_dec_bound. apply bytes_ok_rev. exact H.
Qed.

Lemma le16_le_dec l : bytes_ok l -> length l = 2%nat -> le16 (le_dec l) = l.
Proof. intros H L. unfold le16. rewrite <- L. apply le_enc_dec. exact H. Qed.

(* ---------- one replaced byte of a word / of the words ---------- *)
Lemma word_set_enc i v w : v < 256 -> set_nth i v (be64 w) = be64 (word_set i v w).
Proof.
  intros Hv. unfold word_set. symmetry. apply be64_be_dec.
  - apply bytes_ok_set_nth; [apply be64_ok|exact Hv].
  - rewrite set_nth_length. apply be64_length.
Qed.

Lemma word_set_bound i v w : v < 256 -> word_set i v w < pow2_64.
Proof.
  intros Hv. unfold word_set. apply be_dec_bound.
  - apply bytes_ok_set_nth; [apply be64_ok|exact Hv].
  - rewrite set_nth_length. apply be64_length.
Qed.

Lemma enc_words_cons w ws : enc_words (w :: ws) = be64 w ++ enc_words ws.
Proof. reflexivity. Qed.

Lemma enc_words_set_qr v (r : nat) : v < 256 -> (r < 8)%nat -> forall ws (q : nat), (q < length ws)%nat ->
  set_nth (8 * q + r) v (enc_words ws) = enc_words (set_nth q (word_set r v (nth q ws 0)) ws).
Proof.
  intros Hv Hr. induction ws as [|w ws IH]; intros q Hq; cbn [length] in Hq; [lia|].
  destruct q as [|q].
  - cbn [Nat.mul Nat.add nth set_nth]. rewrite !enc_words_cons.
    rewrite set_nth_app_l by (rewrite be64_length; exact Hr).
    rewrite word_set_enc by exact Hv. reflexivity.
  - cbn [nth set_nth]. rewrite !enc_words_cons.
    replace (8 * S q + r)%nat with (length (be64 w) + (8 * q + r))%nat by (rewrite be64_length; lia).
    rewrite set_nth_app_r. rewrite IH by lia. reflexivity.
Qed.

Lemma enc_words_set i v ws : v < 256 -> (i < 8 * length ws)%nat ->
  set_nth i v (enc_words ws) = enc_words (words_set i v ws).
Proof.
  intros Hv Hi. unfold words_set.
  assert (Hr : (Nat.modulo i 8 < 8)%nat) by (apply Nat.mod_upper_bound; lia).
  assert (Hq : (Nat.div i 8 < length ws)%nat) by (apply Nat.div_lt_upper_bound; lia).
  rewrite <- (enc_words_set_qr v (Nat.modulo i 8) Hv Hr ws (Nat.div i 8) Hq).
  rewrite <- (Nat.div_mod i 8) by lia. reflexivity.
Qed.

Lemma words_set_length i v ws : length (words_set i v ws) = length ws.
Proof. unfold words_set. apply set_nth_length. Qed.

Lemma wf_bitset_words_set len ws i v : v < 256 -> wf_bitset (len, ws) = true -> wf_bitset (len, words_set i v ws) = true.
Proof.
  intros Hv H. destruct (wf_bitset_spec _ H) as (Hl & Hw & Hn & Hs). cbn [fst snd] in *.
  unfold storage_size in Hs. cbn [snd] in Hs.
  unfold wf_bitset, storage_size. cbn [fst snd]. rewrite words_set_length.
  rewrite !andb_true_iff. repeat split.
  - apply N.ltb_lt. exact Hl.
  - unfold words_set. apply forallb_set_nth; [exact Hw|]. apply N.ltb_lt. apply word_set_bound. exact Hv.
  - apply N.eqb_eq. exact Hn.
  - apply N.ltb_lt. exact Hs.
Qed.

Lemma enc_block_split b bs :
  enc_block b bs = (le16 b ++ le16 (storage_size bs) ++ be64 (fst bs)) ++ enc_words (snd bs).
Proof. rewrite enc_block_eq, <- !app_assoc. reflexivity. Qed.

Lemma enc_block_words_set b len ws i v : v < 256 -> (i < 8 * length ws)%nat ->
  set_nth (12 + i) v (enc_block b (len, ws)) = enc_block b (len, words_set i v ws).
Proof.
  intros Hv Hi. rewrite !enc_block_split. cbn [fst snd].
  replace (storage_size (len, words_set i v ws)) with (storage_size (len, ws))
    by (unfold storage_size; cbn [snd]; rewrite words_set_length; reflexivity).
  set (hd := le16 b ++ le16 (storage_size (len, ws)) ++ be64 len).
  replace 12%nat with (length hd) by (unfold hd; rewrite !app_length, !le16_length, be64_length; reflexivity).
  rewrite set_nth_app_r. rewrite enc_words_set by assumption. reflexivity.
Qed.

(* ---------- 3: a replaced byte inside a bitset word: the file parses, the record reports the damaged word ---------- *)
Theorem pqd_word_damage_parse : forall pre b len ws post (i : nat) (v : N),
  wf_blocks (pre ++ (b, (len, ws)) :: post) = true -> (i < 8 * length ws)%nat -> v < 256 ->
  read_pqmr (set_nth (rec_off pre + 12 + i) v (file_of (pre ++ (b, (len, ws)) :: post)))
  = Some (pre ++ (b, (len, words_set i v ws)) :: post).
Proof.
  intros pre b len ws post i v Hwf Hi Hv.
  apply wf_blocks_mid in Hwf as (Hpre & Hx & Hpost).
  unfold rec_off. rewrite file_of_mid. cbn [fst snd].
  rewrite <- Nat.add_assoc. rewrite set_nth_app_r.
  rewrite set_nth_app_l by (rewrite enc_block_length, app_length, be64_length, enc_words_length; cbn [fst snd]; lia).
  rewrite enc_block_words_set by assumption.
  change (enc_block b (len, words_set i v ws)) with
    (enc_block (fst (b, (len, words_set i v ws))) (snd (b, (len, words_set i v ws)))).
  rewrite <- file_of_mid.
  apply pqmr_roundtrip. apply wf_blocks_mid. repeat split; auto.
  unfold wf_block in *. cbn [fst snd] in *. apply andb_true_iff in Hx as [Hb Hbs].
  apply andb_true_iff. split; [exact Hb|]. apply wf_bitset_words_set; assumption.
Qed.

(* ---------- 4: the blocks the damaged record does not name are answered correctly ---------- *)
Theorem pqd_word_damage_other_blocks_original : forall pre b len ws post (i : nat) (v : N) truth nblocks,
  wf_blocks (pre ++ (b, (len, ws)) :: post) = true -> (i < 8 * length ws)%nat -> v < 256 ->
  (forall b' bs, In (b', bs) (pre ++ (b, (len, ws)) :: post) -> set_bits bs = truth b') ->
  forall b', b' < nblocks -> b' <> b ->
  pq_answer (set_nth (rec_off pre + 12 + i) v (file_of (pre ++ (b, (len, ws)) :: post))) nblocks truth b' = truth b'.
Proof.
  intros pre b len ws post i v truth nblocks Hwf Hi Hv Ht b' Hb' Hne.
  unfold pq_answer. rewrite pqd_word_damage_parse by assumption.
  unfold seg_answer, seg_answer_by.
  destruct (lookup_last b' (pre ++ (b, (len, words_set i v ws)) :: post)) as [bs|] eqn:E.
  - apply lookup_last_In in E. apply Ht. apply in_app_iff in E. apply in_app_iff.
    destruct E as [E|[E|E]]; [left; exact E| |right; right; exact E].
    injection E as E1 E2. congruence.
  - apply lookup_last_None in E. pose proof (covered_lt _ nblocks b' Hb' E) as L.
    replace (covered (pre ++ (b, (len, words_set i v ws)) :: post) nblocks =? nblocks) with false
      by (symmetry; apply N.eqb_neq; lia).
    reflexivity.
Qed.

(* ---------- 5: the block the damaged record names is answered from the damaged bits ---------- *)
Lemma lookup_last_absent b l : ~ In b (map fst l) -> lookup_last b l = None.
Proof.
  induction l as [|[b' bs'] r IH]; intros H; [reflexivity|]. cbn [map fst In] in H. cbn [lookup_last].
  rewrite IH by tauto. destruct (N.eqb_spec b' b); [tauto|reflexivity].
Qed.

Lemma lookup_last_mid b x pre post : ~ In b (map fst post) -> lookup_last b (pre ++ (b, x) :: post) = Some x.
Proof.
  intros H. induction pre as [|[b' bs'] pre IH].
  - cbn [app lookup_last]. rewrite lookup_last_absent by exact H. rewrite N.eqb_refl. reflexivity.
  - cbn [app lookup_last]. rewrite IH. reflexivity.
Qed.

Theorem pqd_word_damage_block_served : forall pre b len ws post (i : nat) (v : N) truth nblocks,
  wf_blocks (pre ++ (b, (len, ws)) :: post) = true -> (i < 8 * length ws)%nat -> v < 256 ->
  ~ In b (map fst post) ->
  pq_answer (set_nth (rec_off pre + 12 + i) v (file_of (pre ++ (b, (len, ws)) :: post))) nblocks truth b
  = set_bits (len, words_set i v ws).
Proof.
  intros pre b len ws post i v truth nblocks Hwf Hi Hv Hn.
  unfold pq_answer. rewrite pqd_word_damage_parse by assumption.
  unfold seg_answer, seg_answer_by. rewrite lookup_last_mid by exact Hn. reflexivity.
Qed.

(* ---------- 6: a replaced byte of a block number ---------- *)
Lemma blk_set_enc i v b : v < 256 -> set_nth i v (le16 b) = le16 (blk_set i v b).
Proof.
  intros Hv. unfold blk_set. symmetry. apply le16_le_dec.
  - apply bytes_ok_set_nth; [apply le_enc_ok|exact Hv].
  - rewrite set_nth_length. apply le16_length.
Qed.

Lemma blk_set_bound i v b : v < 256 -> blk_set i v b < 65536.
Proof.
  intros Hv. unfold blk_set. rewrite <- pow256_2.
  rewrite <- (le16_length b), <- (set_nth_length i v (le16 b)).
  apply le_dec_bound. apply bytes_ok_set_nth; [apply le_enc_ok|exact Hv].
Qed.

Theorem pqd_blknum_damage_parse : forall pre b bs post (i : nat) (v : N),
  wf_blocks (pre ++ (b, bs) :: post) = true -> (i < 2)%nat -> v < 256 ->
  read_pqmr (set_nth (rec_off pre + i) v (file_of (pre ++ (b, bs) :: post))) = Some (pre ++ (blk_set i v b, bs) :: post).
Proof.
  intros pre b bs post i v Hwf Hi Hv.
  apply wf_blocks_mid in Hwf as (Hpre & Hx & Hpost).
  unfold rec_off. rewrite file_of_mid. cbn [fst snd].
  rewrite set_nth_app_r.
  rewrite set_nth_app_l by (rewrite enc_block_length; lia).
  rewrite enc_block_eq.
  rewrite set_nth_app_l by (rewrite le16_length; exact Hi).
  rewrite blk_set_enc by exact Hv. rewrite <- enc_block_eq.
  change (enc_block (blk_set i v b) bs) with (enc_block (fst (blk_set i v b, bs)) (snd (blk_set i v b, bs))).
  rewrite <- file_of_mid.
  apply pqmr_roundtrip. apply wf_blocks_mid. repeat split; auto.
  unfold wf_block in *. cbn [fst snd] in *. apply andb_true_iff in Hx as [Hb Hbs].
  apply andb_true_iff. split; [|exact Hbs]. apply N.ltb_lt. apply blk_set_bound. exact Hv.
Qed.

(* ---------- 7, 8: served answers after one replaced byte are not the original ones ---------- *)
Theorem pqd_bitset_byte_damage_served_refuted :
  let bl := [(0, (6, [36])); (1, (6, [63]))] in
  let truth := fun b : N => if N.eqb b 0 then [2; 5] else [0; 1; 2; 3; 4; 5] in
  wf_blocks bl = true /\ (forall b bs, In (b, bs) bl -> set_bits bs = truth b) /\
  pq_answer (set_nth 19 32 (file_of bl)) 2 truth 0 = [5] /\ truth 0 = [2; 5].
Proof.
  cbv zeta. split; [reflexivity|]. split.
  - intros b bs [H|[H|[]]]; injection H as <- <-; reflexivity.
  - repeat split; vm_compute; reflexivity.
Qed.

Theorem pqd_blknum_damage_served_refuted :
  let bl := [(0, (6, [36])); (1, (6, [63]))] in
  let truth := fun b : N => if N.eqb b 0 then [2; 5] else [0; 1; 2; 3; 4; 5] in
  wf_blocks bl = true /\ (forall b bs, In (b, bs) bl -> set_bits bs = truth b) /\
  pq_answer (set_nth 20 0 (file_of bl)) 2 truth 0 = [0; 1; 2; 3; 4; 5] /\ truth 0 = [2; 5] /\
  pq_answer (set_nth 20 0 (file_of bl)) 2 truth 1 = truth 1.
Proof.
  cbv zeta. split; [reflexivity|]. split.
  - intros b bs [H|[H|[]]]; injection H as <- <-; reflexivity.
  - repeat split; vm_compute; reflexivity.
Qed.

(* ---------- 9: the allocation for the announced length ---------- *)
Theorem pqd_length_alloc_unbounded_refuted :
  let payload := be64 6 ++ be64 36 in
  rec_alloc_words payload = 1 /\ 17179869184 <= rec_alloc_words (set_nth 2 1 payload) /\ length (set_nth 2 1 payload) = 16%nat.
Proof. cbv zeta. split; [reflexivity|]. split; [|reflexivity]. vm_compute. discriminate. Qed.

(* ---------- 10, 11: the guard ---------- *)
Theorem pqd_len_guard_bounds_alloc : forall payload, rec_alloc_words_guarded payload <= N.of_nat (length payload) / 8.
Proof.
  intros payload. unfold rec_alloc_words_guarded.
  destruct (len_fits payload) eqn:F; [|apply N.le_0_l].
  unfold len_fits in F. apply andb_true_iff in F as [F1 F2].
  apply Nat.leb_le in F1. apply N.leb_le in F2.
  unfold rec_alloc_words.
  replace (Nat.ltb (length payload) 8) with false by (symmetry; apply Nat.ltb_ge; exact F1).
  cbv zeta. set (len := be_dec (firstn 8 payload)) in *.
  destruct (max_alloc <? 8 * words_needed len); [apply N.le_0_l|].
  unfold words_needed, pow2_64.
  set (L := length payload) in *.
  destruct (N.ltb_spec (18446744073709551616 - 64) len); lia.
Qed.

Theorem pqd_len_guard_accepts_written : forall bs, wf_bitset bs = true -> len_fits (be64 (fst bs) ++ enc_words (snd bs)) = true.
Proof.
  intros bs H. destruct (wf_bitset_spec bs H) as (Hl & _ & Hn & Hs). destruct bs as [len ws]. cbn [fst snd] in *.
  unfold storage_size in Hs. cbn [snd] in Hs.
  unfold len_fits. rewrite (firstn_len_app (be64 len)) by apply be64_length.
  rewrite be_dec_be64 by exact Hl.
  rewrite app_length, be64_length, enc_words_length.
  apply andb_true_iff. split; [apply Nat.leb_le; lia|]. apply N.leb_le.
  unfold words_needed, pow2_64 in *.
  destruct (N.ltb_spec (18446744073709551616 - 64) len); lia.
Qed.

(* PqmrProtoProofs.v — the persistent-query match-results file after a crash: whatever byte prefix of the writer's
   appends is on disk, ReadPqmr reports exactly the blocks whose record is completely there, with the bits that were
   written; so a query answered from the file (raw search for the blocks the file does not report) returns, per block,
   the records that match. *)
From Coq Require Import Lia ZifyN ZifyNat ZifyBool.
From SigM Require Import Base PqmrProto.
From SigP Require Import BaseProofs.
Open Scope N_scope.

(* ---------- lists ---------- *)
Lemma firstn_len_app {A} (a r : list A) n : length a = n -> firstn n (a ++ r) = a.
Proof. intros <-. rewrite firstn_app, Nat.sub_diag, firstn_all. cbn. apply app_nil_r. Qed.
Lemma skipn_len_app {A} (a r : list A) n : length a = n -> skipn n (a ++ r) = r.
Proof. intros <-. rewrite skipn_app, Nat.sub_diag, skipn_all. reflexivity. Qed.

Lemma match_nonempty {A B} (l : list A) (a b : B) : l <> [] -> match l with [] => a | _ :: _ => b end = b.
Proof. destruct l; [congruence|reflexivity]. Qed.
Lemma length_nonempty {A} (l : list A) : (0 < length l)%nat -> l <> [].
Proof. destruct l; cbn; [lia|congruence]. Qed.

(* ---------- big-endian words ---------- *)
Lemma pow256_8 : 256 ^ N.of_nat 8 = pow2_64.
Proof. reflexivity. Qed.
Lemma pow256_2 : 256 ^ N.of_nat 2 = 65536.
Proof. reflexivity. Qed.

Lemma be64_length n : length (be64 n) = 8%nat.
Proof. unfold be64. rewrite rev_length. apply le_enc_length. Qed.
Lemma be_dec_be64 n : n < pow2_64 -> be_dec (be64 n) = n.
Proof. intros H. unfold be_dec, be64. rewrite rev_involutive. apply le_dec_enc. rewrite pow256_8. exact H. Qed.
Lemma le16_length n : length (le16 n) = 2%nat.
Proof. apply le_enc_length. Qed.
Lemma le_dec_le16 n : n < 65536 -> le_dec (le16 n) = n.
Proof. intros H. apply le_dec_enc. rewrite pow256_2. exact H. Qed.

Lemma enc_words_length ws : length (enc_words ws) = (8 * length ws)%nat.
Proof. induction ws as [|w ws IH]; [reflexivity|]. unfold enc_words in *. cbn [flat_map length]. rewrite app_length, be64_length, IH. lia. Qed.

Lemma dec_enc_words ws : forall x, forallb (fun w => w <? pow2_64) ws = true -> dec_words (length ws) (enc_words ws ++ x) = ws.
Proof.
  induction ws as [|w ws IH]; intros x H; [reflexivity|].
  cbn [forallb] in H. apply andb_true_iff in H as [Hw Hws]. apply N.ltb_lt in Hw.
  unfold enc_words. cbn [flat_map length dec_words]. rewrite <- app_assoc.
  rewrite (firstn_len_app (be64 w)) by apply be64_length.
  rewrite (skipn_len_app (be64 w)) by apply be64_length.
  rewrite be_dec_be64 by exact Hw. f_equal. apply IH. exact Hws.
Qed.

(* ---------- well-formed bitsets ---------- *)
Lemma wf_bitset_spec bs : wf_bitset bs = true ->
  fst bs < pow2_64 /\ forallb (fun w => w <? pow2_64) (snd bs) = true /\
  N.of_nat (length (snd bs)) = words_needed (fst bs) /\ storage_size bs < 65536.
Proof.
  unfold wf_bitset. intros H. repeat (apply andb_true_iff in H as [H ?]).
  repeat split; auto; [apply N.ltb_lt|apply N.eqb_eq|apply N.ltb_lt]; assumption.
Qed.

Lemma unmarshal_written bs : wf_bitset bs = true -> unmarshal (be64 (fst bs) ++ enc_words (snd bs)) = UOk bs.
Proof.
  intros H. destruct (wf_bitset_spec bs H) as (Hl & Hw & Hn & _). destruct bs as [len ws]. cbn [fst snd] in *.
  unfold unmarshal.
  rewrite match_nonempty by (apply length_nonempty; rewrite app_length, be64_length; lia).
  assert (L : Nat.ltb (length (be64 len ++ enc_words ws)) 8 = false).
  { apply Nat.ltb_ge. rewrite app_length, be64_length. lia. }
  rewrite L. cbv zeta.
  rewrite (firstn_len_app (be64 len)) by apply be64_length.
  rewrite (skipn_len_app (be64 len)) by apply be64_length.
  rewrite be_dec_be64 by exact Hl. rewrite <- Hn.
  destruct ws as [|w ws].
  - reflexivity.
  - replace (N.of_nat (length (w :: ws)) =? 0) with false by (symmetry; apply N.eqb_neq; cbn [length]; lia).
    rewrite match_nonempty by (apply length_nonempty; rewrite enc_words_length; cbn [length]; lia).
    replace (N.of_nat (length (enc_words (w :: ws))) <? 8 * N.of_nat (length (w :: ws))) with false
      by (symmetry; apply N.ltb_ge; rewrite enc_words_length; lia).
    rewrite Nat2N.id. rewrite <- (app_nil_r (enc_words (w :: ws))). rewrite dec_enc_words by exact Hw. reflexivity.
Qed.

(* ---------- one record of the file ---------- *)
Lemma enc_block_eq b bs : enc_block b bs = le16 b ++ le16 (storage_size bs) ++ (be64 (fst bs) ++ enc_words (snd bs)).
Proof. unfold enc_block, blk_chunks. cbn [concat]. rewrite app_nil_r. reflexivity. Qed.

Lemma payload_length bs : storage_size bs < 65536 ->
  length (be64 (fst bs) ++ enc_words (snd bs)) = N.to_nat (le_dec (le16 (storage_size bs))).
Proof.
  intros H. rewrite le_dec_le16 by exact H. unfold storage_size. rewrite app_length, be64_length, enc_words_length. lia.
Qed.

Lemma enc_block_length b bs : length (enc_block b bs) = (4 + length (be64 (fst bs) ++ enc_words (snd bs)))%nat.
Proof. rewrite enc_block_eq, !app_length, !le16_length. lia. Qed.

Lemma read_loop_S tol f buf rest acc :
  read_loop tol (S f) buf rest acc =
    if Nat.ltb (length rest) 2 then Some (rev acc)
    else
      let blk := le_dec (firstn 2 rest) in
      let r2 := skipn 2 rest in
      if Nat.ltb (length r2) 2 then Some (rev acc)
      else
        let size := N.to_nat (le_dec (firstn 2 r2)) in
        let r3 := skipn 2 r2 in
        let buf1 := resize buf size in
        let got := firstn size r3 in
        let buf2 := got ++ skipn (length got) buf1 in
        if Nat.ltb (length got) size && negb tol then Some (rev acc)
        else match unmarshal (firstn size buf2) with
             | UErr => None
             | UEof => Some (rev acc)
             | UOk bs => read_loop tol f buf2 (skipn size r3) ((blk, bs) :: acc)
             end.
Proof. reflexivity. Qed.

(* a complete record is consumed and reported as written, whatever the buffer held *)
Lemma read_block tol f buf b bs rest acc :
  wf_block (b, bs) = true ->
  exists buf', read_loop tol (S f) buf (enc_block b bs ++ rest) acc = read_loop tol f buf' rest ((b, bs) :: acc).
Proof.
  unfold wf_block. cbn [fst snd]. intros H. apply andb_true_iff in H as [Hb Hbs]. apply N.ltb_lt in Hb.
  destruct (wf_bitset_spec bs Hbs) as (_ & _ & _ & Hsz).
  pose proof (payload_length bs Hsz) as HP.
  set (pay := be64 (fst bs) ++ enc_words (snd bs)) in *.
  rewrite read_loop_S, enc_block_eq. fold pay. rewrite <- !app_assoc.
  replace (Nat.ltb (length (le16 b ++ le16 (storage_size bs) ++ pay ++ rest)) 2) with false
    by (symmetry; apply Nat.ltb_ge; rewrite app_length, le16_length; lia).
  cbv zeta.
  rewrite (firstn_len_app (le16 b)) by apply le16_length.
  rewrite (skipn_len_app (le16 b)) by apply le16_length.
  replace (Nat.ltb (length (le16 (storage_size bs) ++ pay ++ rest)) 2) with false
    by (symmetry; apply Nat.ltb_ge; rewrite app_length, le16_length; lia).
  rewrite (firstn_len_app (le16 (storage_size bs))) by apply le16_length.
  rewrite (skipn_len_app (le16 (storage_size bs))) by apply le16_length.
  rewrite (le_dec_le16 b) by exact Hb.
  rewrite <- HP.
  rewrite (firstn_len_app pay) by reflexivity.
  rewrite (skipn_len_app pay) by reflexivity.
  rewrite Nat.ltb_irrefl. cbn [andb].
  rewrite (firstn_len_app pay) by reflexivity.
  unfold pay at 1. rewrite unmarshal_written by exact Hbs.
  eexists. reflexivity.
Qed.

(* a record that is cut short ends the loop and is not reported *)
Lemma read_torn f buf b bs k acc :
  wf_block (b, bs) = true -> (k < length (enc_block b bs))%nat ->
  read_loop false (S f) buf (firstn k (enc_block b bs)) acc = Some (rev acc).
Proof.
  unfold wf_block. cbn [fst snd]. intros H Hk. apply andb_true_iff in H as [Hb Hbs]. apply N.ltb_lt in Hb.
  destruct (wf_bitset_spec bs Hbs) as (_ & _ & _ & Hsz).
  pose proof (payload_length bs Hsz) as HP.
  rewrite enc_block_length in Hk.
  set (pay := be64 (fst bs) ++ enc_words (snd bs)) in *.
  rewrite read_loop_S, enc_block_eq. fold pay.
  destruct (Nat.ltb_spec (length (firstn k (le16 b ++ le16 (storage_size bs) ++ pay))) 2) as [|H2]; [reflexivity|].
  cbv zeta.
  rewrite firstn_length, !app_length, !le16_length in H2.
  rewrite skipn_firstn_comm. rewrite (skipn_len_app (le16 b)) by apply le16_length.
  destruct (Nat.ltb_spec (length (firstn (k - 2) (le16 (storage_size bs) ++ pay))) 2) as [|H4]; [reflexivity|].
  rewrite firstn_length, !app_length, !le16_length in H4.
  rewrite firstn_firstn. replace (Nat.min 2 (k - 2)) with 2%nat by lia.
  rewrite (firstn_len_app (le16 (storage_size bs))) by apply le16_length.
  rewrite skipn_firstn_comm. rewrite (skipn_len_app (le16 (storage_size bs))) by apply le16_length.
  rewrite <- HP.
  replace (Nat.ltb (length (firstn (length pay) (firstn (k - 2 - 2) pay))) (length pay)) with true
    by (symmetry; apply Nat.ltb_lt; rewrite !firstn_length; lia).
  reflexivity.
Qed.

(* ---------- MAIN: every byte prefix of the writer's file ---------- *)
Lemma file_of_cons x r : file_of (x :: r) = enc_block (fst x) (snd x) ++ file_of r.
Proof. reflexivity. Qed.

Lemma wf_blocks_cons x r : wf_blocks (x :: r) = true -> wf_block x = true /\ wf_blocks r = true.
Proof. unfold wf_blocks. cbn [forallb]. intros H. apply andb_true_iff in H. exact H. Qed.

Lemma read_prefix_from bl : forall fuel buf k acc,
  wf_blocks bl = true -> (length (firstn k (file_of bl)) < fuel)%nat ->
  read_loop false fuel buf (firstn k (file_of bl)) acc = Some (rev acc ++ firstn (complete k bl) bl).
Proof.
  induction bl as [|x r IH]; intros fuel buf k acc Hwf Hfuel.
  - cbn [file_of flat_map complete]. rewrite firstn_nil. cbn [firstn]. rewrite app_nil_r.
    destruct fuel as [|f]; reflexivity.
  - apply wf_blocks_cons in Hwf as [Hx Hr]. destruct x as [b bs]. cbn [fst snd] in *.
    rewrite file_of_cons in *. cbn [fst snd complete] in *.
    destruct fuel as [|f]; [lia|].
    rewrite firstn_app in *.
    destruct (Nat.leb_spec (length (enc_block b bs)) k) as [Hfull|Hpart].
    + rewrite (firstn_all2 (enc_block b bs)) in * by exact Hfull.
      destruct (read_block false f buf b bs (firstn (k - length (enc_block b bs)) (file_of r)) acc Hx) as [buf' ->].
      rewrite IH; auto.
      * cbn [rev firstn]. rewrite <- app_assoc. reflexivity.
      * rewrite app_length in Hfuel. pose proof (enc_block_length b bs). lia.
    + replace (k - length (enc_block b bs))%nat with O by lia. cbn [firstn]. rewrite !app_nil_r.
      apply read_torn; auto.
Qed.

Theorem pqmr_crash_prefix_exact bl k :
  wf_blocks bl = true -> read_pqmr (firstn k (file_of bl)) = Some (firstn (complete k bl) bl).
Proof. intros H. unfold read_pqmr. rewrite read_prefix_from by (auto; lia). reflexivity. Qed.

(* the complete file reads back as written *)
Lemma complete_all bl : complete (length (file_of bl)) bl = length bl.
Proof.
  induction bl as [|x r IH]; [reflexivity|].
  rewrite file_of_cons, app_length. cbn [complete length].
  replace (Nat.leb (length (enc_block (fst x) (snd x))) (length (enc_block (fst x) (snd x)) + length (file_of r))) with true
    by (symmetry; apply Nat.leb_le; lia).
  replace (length (enc_block (fst x) (snd x)) + length (file_of r) - length (enc_block (fst x) (snd x)))%nat
    with (length (file_of r)) by lia.
  rewrite IH. reflexivity.
Qed.

Theorem pqmr_roundtrip bl : wf_blocks bl = true -> read_pqmr (file_of bl) = Some bl.
Proof.
  intros H. rewrite <- (firstn_all (file_of bl)) at 1. rewrite pqmr_crash_prefix_exact by exact H.
  rewrite complete_all, firstn_all. reflexivity.
Qed.

(* ---------- the query answer, per block ---------- *)
Lemma lookup_last_In b l : forall bs, lookup_last b l = Some bs -> In (b, bs) l.
Proof.
  induction l as [|[b' bs'] r IH]; intros bs H; [discriminate|]. cbn [lookup_last] in H.
  destruct (lookup_last b r) as [x|].
  - injection H as <-. right. apply IH. reflexivity.
  - destruct (N.eqb_spec b' b); [|discriminate]. injection H as <-. subst. left. reflexivity.
Qed.

Lemma In_firstn {A} (x : A) l : forall n, In x (firstn n l) -> In x l.
Proof. induction l as [|y l IH]; intros [|n]; cbn; auto; try tauto. intros [H|H]; eauto. Qed.

(* a block of the segment that the file does not report keeps the count of blocks taken from the file below the
   number of blocks of the segment *)
Lemma lookup_last_None b l : lookup_last b l = None -> ~ In b (map fst l).
Proof.
  induction l as [|[b' bs'] r IH]; intros H; [intros []|]. cbn [lookup_last] in H.
  destruct (lookup_last b r) as [x|]; [discriminate|].
  destruct (N.eqb_spec b' b) as [E|E]; [discriminate|].
  cbn [map fst]. intros [H1|H1]; [congruence|]. apply IH; auto.
Qed.

Lemma below_length (l : list N) (n : nat) :
  NoDup l -> (forall x, In x l -> x < N.of_nat n) -> (length l <= n)%nat.
Proof.
  intros ND Hlt.
  assert (I : incl l (map N.of_nat (seq 0 n))).
  { intros x Hx. specialize (Hlt x Hx). apply in_map_iff. exists (N.to_nat x). split; [apply N2Nat.id|].
    apply in_seq. lia. }
  pose proof (NoDup_incl_length ND I) as L. rewrite map_length, seq_length in L. exact L.
Qed.

Lemma covered_lt l nblocks b : b < nblocks -> ~ In b (map fst l) -> covered l nblocks < nblocks.
Proof.
  intros Hb Hn. unfold covered, keys_of.
  set (ks := filter (fun x => x <? nblocks) (nodup N.eq_dec (map fst l))).
  assert (ND : NoDup (b :: ks)).
  { constructor.
    - unfold ks. intros H. apply filter_In in H as [H _]. apply nodup_In in H. contradiction.
    - unfold ks. apply NoDup_filter. apply NoDup_nodup. }
  assert (L : (length (b :: ks) <= N.to_nat nblocks)%nat).
  { apply below_length; [exact ND|]. rewrite N2Nat.id. intros x [<-|Hx]; [exact Hb|].
    unfold ks in Hx. apply filter_In in Hx as [_ Hx]. apply N.ltb_lt. exact Hx. }
  cbn [length] in L. lia.
Qed.

(* MAIN for the query: for every byte prefix of the writer's appends and every block b of the segment, the persistent
   query returns the records of b that match (stored bits if the file reports b, raw search otherwise) *)
Theorem pqmr_seg_answer_after_crash (bl : list (N * bitset)) (truth : N -> list N) (k : nat) (nblocks : N) :
  wf_blocks bl = true ->
  (forall b bs, In (b, bs) bl -> set_bits bs = truth b) ->
  forall b, b < nblocks -> seg_answer (read_pqmr (firstn k (file_of bl))) nblocks truth b = truth b.
Proof.
  intros Hwf Ht b Hb. rewrite pqmr_crash_prefix_exact by exact Hwf. unfold seg_answer, seg_answer_by.
  destruct (lookup_last b (firstn (complete k bl) bl)) as [bs|] eqn:E.
  - apply lookup_last_In in E. apply In_firstn in E. apply Ht. exact E.
  - apply lookup_last_None in E. pose proof (covered_lt _ nblocks b Hb E) as L.
    replace (covered (firstn (complete k bl) bl) nblocks =? nblocks) with false by (symmetry; apply N.eqb_neq; lia).
    reflexivity.
Qed.

(* The rule before the fix (count compared with SegMeta.NumBlocks).  Two flushes of one segment, records 0 resp. 1
   match.  The crash comes after the second flush's .sfm rename and before its pqmr record is complete: the file holds
   block 0's record (20 bytes), the running .sfm says NumBlocks = 1 (the index of the last flushed block), the segment
   has 2 searchable blocks.  One block is taken from the file, 1 = 1, the raw search is skipped: block 1 is not
   searched although record 1 matches.  The code's rule answers it. *)
Theorem pqmr_numblocks_rule_refuted :
  let bl := [(0, (1, [1])); (1, (2, [2]))] in
  let truth := fun b : N => if b =? 0 then [0] else [1] in
  wf_blocks bl = true /\
  (forall b bs, In (b, bs) bl -> set_bits bs = truth b) /\
  seg_answer_numblocks 1 (read_pqmr (firstn 20 (file_of bl))) 2 truth 1 = [] /\
  seg_answer (read_pqmr (firstn 20 (file_of bl))) 2 truth 1 = [1] /\ truth 1 = [1].
Proof.
  cbv zeta. split; [reflexivity|]. split.
  - intros b bs [H|[H|[]]]; injection H as <- <-; reflexivity.
  - repeat split; vm_compute; reflexivity.
Qed.

(* the blocks of completed appends are answered from the file (not only correctly) *)
Theorem pqmr_complete_blocks_reported bl k :
  wf_blocks bl = true ->
  exists l, read_pqmr (firstn k (file_of bl)) = Some l /\ length l = complete k bl /\ l = firstn (length l) bl.
Proof.
  intros H. exists (firstn (complete k bl) bl). split; [apply pqmr_crash_prefix_exact; exact H|].
  assert (L : (complete k bl <= length bl)%nat).
  { clear H. revert k. induction bl as [|x r IH]; intros k; cbn [complete length]; [lia|].
    destruct (Nat.leb _ k); [specialize (IH (k - length (enc_block (fst x) (snd x)))%nat); lia|lia]. }
  rewrite firstn_length. replace (Nat.min (complete k bl) (length bl)) with (complete k bl) by lia. auto.
Qed.

(* ---------- a reader that goes on after a short read of the bitset ---------- *)
(* Two blocks; the crash leaves block 1's blkNum and size on disk (4 of its 20 bytes).  The code stops at the short read
   and does not report block 1.  A reader that tolerates the short read parses the buffer it has - block 0's bytes -
   and reports block 1 with block 0's bits. *)
Theorem pqmr_tolerant_reader_refuted :
  let bl := [(0, (1, [1])); (1, (2, [2]))] in
  wf_blocks bl = true /\
  option_map (lookup_last 1) (read_pqmr (firstn 24 (file_of bl))) = Some None /\
  option_map (fun l => option_map set_bits (lookup_last 1 l)) (read_pqmr_tolerant (firstn 24 (file_of bl))) = Some (Some [0]) /\
  option_map set_bits (lookup_last 1 bl) = Some [1].
Proof. cbv zeta. repeat split; vm_compute; reflexivity. Qed.

(* non-vacuity of the hypotheses: a writer's blocks are well-formed *)
Example wf_example : wf_blocks [(0, (1, [1])); (1, (2, [2])); (2, (130, [5; 0; 3]))] = true.
Proof. reflexivity. Qed.

(* PromqlFormulaProofs.v — lemmas and main theorems about formula evaluation (C09): the operand loop of
   ExecuteMultipleMetricsQuery (resMap, multiSeriesResultCount), one vector-vector node with and without label
   matching, the link to the arithmetic model of Promql.v, and concrete witnesses. *)
From SigM Require Import Base Promql PromqlFormula PromqlCheck.
From SigP Require Import BaseProofs PromqlProofs PromqlNestProofs.
From Coq Require Import List ZArith QArith Lia Bool Arith.
Import ListNotations.
Local Open Scope N_scope.

(* ---------- generic list helpers ---------- *)
Lemma flat_map_ext_in {A B} (f g : A -> list B) l :
  (forall x, In x l -> f x = g x) -> flat_map f l = flat_map g l.
Proof.
  induction l as [|a l IH]; intros H; cbn [flat_map]; [reflexivity|].
  rewrite (H a (or_introl eq_refl)), IH; [reflexivity|]. intros x Hx. apply H. right. exact Hx.
Qed.

Lemma flat_map_single {A B} (g : A -> B) l : flat_map (fun x => [g x]) l = map g l.
Proof. induction l as [|a l IH]; cbn [flat_map map app]; [reflexivity|]. rewrite IH. reflexivity. Qed.

Lemma find_nodup_key {A K} (key : A -> K) (eqb : K -> K -> bool) :
  (forall a b, eqb a b = true <-> a = b) ->
  forall l e, NoDup (map key l) -> In e l -> find (fun e2 => eqb (key e2) (key e)) l = Some e.
Proof.
  intros Heq. induction l as [|a l IH]; intros e Hnd Hin; [destruct Hin|].
  cbn [map] in Hnd. inversion Hnd as [|? ? Hni Hnd']; subst. cbn [find].
  destruct Hin as [->|Hin].
  - rewrite (proj2 (Heq (key e) (key e)) eq_refl). reflexivity.
  - destruct (eqb (key a) (key e)) eqn:E.
    + apply Heq in E. exfalso. apply Hni. rewrite E. apply in_map. exact Hin.
    + apply IH; assumption.
Qed.

Lemma filter_len_one {A} (f : A -> bool) : forall l i a,
  nth_error l i = Some a -> f a = true -> (1 <= length (filter f l))%nat.
Proof.
  induction l as [|x l IH]; intros [|i] a Hn Hf; cbn in Hn; try discriminate.
  - inversion Hn; subst. cbn [filter]. rewrite Hf. cbn. lia.
  - cbn [filter]. specialize (IH i a Hn Hf). destruct (f x); cbn [length]; lia.
Qed.

Lemma filter_len_two {A} (f : A -> bool) : forall l i j a b,
  i <> j -> nth_error l i = Some a -> nth_error l j = Some b -> f a = true -> f b = true ->
  (2 <= length (filter f l))%nat.
Proof.
  induction l as [|x l IH]; intros [|i] [|j] a b Hne Ha Hb Fa Fb; cbn in Ha, Hb; try discriminate; try congruence.
  - inversion Ha; subst. cbn [filter]. rewrite Fa. cbn [length]. pose proof (filter_len_one f l j b Hb Fb). lia.
  - inversion Hb; subst. cbn [filter]. rewrite Fb. cbn [length]. pose proof (filter_len_one f l i a Ha Fa). lia.
  - assert (Hne' : i <> j) by congruence. specialize (IH i j a b Hne' Ha Hb Fa Fb).
    cbn [filter]. destruct (f x); cbn [length]; lia.
Qed.

(* ---------- the operand loop ---------- *)
Section ExecProofs.
Variable run : query -> bool -> vec.

Lemma first_run_app h a b :
  first_run run h (a ++ b) =
  match first_run run h a with Some v => Some v | None => first_run run h b end.
Proof.
  induction a as [|[[k q] g] a IH]; cbn [app first_run]; [reflexivity|].
  destruct (N.eqb k h); [reflexivity|exact IH].
Qed.

(* the loop invariant: resMap agrees with "the first operand with that hash" on the operands seen so far *)
Definition agree (rm : list (N * vec)) (pre : list (N * query * bool)) : Prop :=
  forall h, rm_find h rm = first_run run h pre.

Lemma exec_step_fst_agree rm cnt pre o :
  agree rm pre -> agree (fst (exec_step run (rm, cnt) o)) (pre ++ [o]).
Proof.
  intros Ha h. destruct o as [[k q] g]. rewrite first_run_app. cbn [first_run exec_step].
  destruct (rm_find k rm) as [v|] eqn:Ek; cbn [fst].
  - rewrite Ha. destruct (first_run run h pre) eqn:Eh; [reflexivity|].
    destruct (N.eqb k h) eqn:E; [|reflexivity]. apply N.eqb_eq in E. subst h. rewrite Ha in Ek. congruence.
  - cbn [rm_find]. destruct (N.eqb k h) eqn:E.
    + apply N.eqb_eq in E. subst h. rewrite <- Ha, Ek. reflexivity.
    + rewrite Ha. destruct (first_run run h pre); reflexivity.
Qed.

Lemma exec_step_snd rm cnt pre o post :
  agree rm pre ->
  snd (exec_step run (rm, cnt) o) = (cnt + (if pos_multi run (pre ++ o :: post) o then 1 else 0))%nat.
Proof.
  intros Ha. destruct o as [[k q] g]. unfold pos_multi. cbn [fst snd]. rewrite first_run_app.
  cbn [first_run]. rewrite N.eqb_refl. rewrite <- Ha. cbn [exec_step].
  destruct (rm_find k rm) as [v|]; cbn [snd]; destruct (multi _); lia.
Qed.

Lemma exec_fold_gen : forall post pre rm cnt, agree rm pre ->
  agree (fst (fold_left (exec_step run) post (rm, cnt))) (pre ++ post) /\
  snd (fold_left (exec_step run) post (rm, cnt)) =
    (cnt + length (filter (pos_multi run (pre ++ post)) post))%nat.
Proof.
  induction post as [|o post IH]; intros pre rm cnt Ha.
  - cbn [fold_left fst snd filter length]. rewrite app_nil_r. split; [exact Ha|lia].
  - cbn [fold_left].
    pose proof (exec_step_fst_agree rm cnt pre o Ha) as H1.
    pose proof (exec_step_snd rm cnt pre o post Ha) as H2.
    destruct (exec_step run (rm, cnt) o) as [rm' cnt'] eqn:E. cbn [fst snd] in H1, H2.
    destruct (IH (pre ++ [o]) rm' cnt' H1) as [I1 I2].
    rewrite <- app_assoc in I1, I2. cbn [app] in I1, I2.
    split; [exact I1|]. rewrite I2, H2. cbn [filter].
    destruct (pos_multi run (pre ++ o :: post) o); cbn [length]; lia.
Qed.

Lemma agree_nil : agree [] [].
Proof. intros h. reflexivity. Qed.

(* resMap after the loop: a hash maps to the result of the FIRST operand with that hash *)
Theorem exec_resmap_first_run : forall ops h,
  rm_find h (fst (exec_loop run ops)) = first_run run h ops.
Proof.
  intros ops h. unfold exec_loop. destruct (exec_fold_gen ops [] [] O agree_nil) as [H _]. apply H.
Qed.

(* the count is the number of operand POSITIONS whose result has more than one series *)
Theorem exec_count_is_positions : forall ops,
  snd (exec_loop run ops) = length (filter (pos_multi run ops) ops).
Proof.
  intros ops. unfold exec_loop. destruct (exec_fold_gen ops [] [] O agree_nil) as [_ H]. exact H.
Qed.

Theorem exec_flag_false_iff : forall init ops,
  exec_flag run init ops = false <->
  (init = false \/ (2 <= length (filter (pos_multi run ops) ops))%nat).
Proof.
  intros init ops. unfold exec_flag. rewrite exec_count_is_positions.
  destruct (Nat.ltb_spec 1 (length (filter (pos_multi run ops) ops))) as [H|H].
  - split; [intros _; right; lia | reflexivity].
  - split; [intros E; left; exact E | intros [E|E]; [exact E | lia]].
Qed.

Theorem exec_flag_two_multi_positions : forall init ops i j o1 o2,
  i <> j -> nth_error ops i = Some o1 -> nth_error ops j = Some o2 ->
  pos_multi run ops o1 = true -> pos_multi run ops o2 = true ->
  exec_flag run init ops = false.
Proof.
  intros init ops i j o1 o2 Hne H1 H2 M1 M2. apply exec_flag_false_iff. right.
  exact (filter_len_two (pos_multi run ops) ops i j o1 o2 Hne H1 H2 M1 M2).
Qed.

(* operands with equal hashes are the same operand (hash of the text): a position's result is its own query's result *)
Definition hash_consistent (ops : list (N * query * bool)) : Prop :=
  forall o1 o2, In o1 ops -> In o2 ops -> fst (fst o1) = fst (fst o2) -> o1 = o2.

Lemma first_run_some : forall ops h v, first_run run h ops = Some v ->
  exists o, In o ops /\ fst (fst o) = h /\ v = run (snd (fst o)) (snd o).
Proof.
  induction ops as [|[[k q] g] ops IH]; intros h v H; cbn [first_run] in H; [discriminate|].
  destruct (N.eqb k h) eqn:E.
  - apply N.eqb_eq in E. inversion H; subst. exists (h, q, g). cbn. auto.
  - destruct (IH h v H) as [o [Hi [Hh Hv]]]. exists o. cbn [In]. auto.
Qed.

Lemma first_run_in : forall ops o, In o ops -> first_run run (fst (fst o)) ops <> None.
Proof.
  induction ops as [|[[k q] g] ops IH]; intros o Hin; [destruct Hin|]. cbn [first_run].
  destruct (N.eqb k (fst (fst o))) eqn:E; [discriminate|].
  destruct Hin as [<-|Hin]; [cbn [fst] in E; rewrite N.eqb_refl in E; discriminate|]. apply IH. exact Hin.
Qed.

Theorem pos_multi_own_result : forall ops o, hash_consistent ops -> In o ops ->
  pos_multi run ops o = multi (run (snd (fst o)) (snd o)).
Proof.
  intros ops o Hc Hin. unfold pos_multi.
  destruct (first_run run (fst (fst o)) ops) as [v|] eqn:E.
  - destruct (first_run_some _ _ _ E) as [o' [Hi [Hh Hv]]].
    rewrite (Hc o' o Hi Hin Hh) in Hv. rewrite Hv. reflexivity.
  - exfalso. exact (first_run_in ops o Hin E).
Qed.

(* the variant that counts distinct texts keeps the same resMap *)
Lemma exec_distinct_fst : forall ops rm c1 c2,
  fst (fold_left (exec_step_distinct run) ops (rm, c1)) = fst (fold_left (exec_step run) ops (rm, c2)).
Proof.
  induction ops as [|[[k q] g] ops IH]; intros rm c1 c2; cbn [fold_left]; [reflexivity|].
  cbn [exec_step exec_step_distinct]. destruct (rm_find k rm); apply IH.
Qed.

Theorem exec_distinct_resmap_first_run : forall ops h,
  rm_find h (fst (fold_left (exec_step_distinct run) ops ([], O))) = first_run run h ops.
Proof.
  intros ops h. rewrite (exec_distinct_fst ops [] O O). apply exec_resmap_first_run.
Qed.
End ExecProofs.

(* ---------- one node ---------- *)
Theorem pair_pts_spec : forall op sw l r t v,
  In (t, v) (pair_pts op sw l r) ->
  exists x y, In (t, x) l /\ In (t, y) r /\ fop_sw op sw x y = Some v.
Proof.
  intros op sw l r t v H. unfold pair_pts in H. apply in_flat_map in H.
  destruct H as [[t1 x] [Hl H]]. cbn [fst snd] in H.
  destruct (sample_find t1 r) as [[t2 y]|] eqn:Ef; [|destruct H].
  unfold sample_find in Ef. apply find_some in Ef. destruct Ef as [Hr Et].
  cbn [fst] in Et. apply Z.eqb_eq in Et. subst t2. cbn [snd] in H.
  destruct (fop_sw op sw x y) as [w|] eqn:Eo; [|destruct H].
  destruct H as [H|[]]. inversion H; subst. exists x, y. auto.
Qed.

(* the unconditional form: a left id SHORTER than the left metric name is looked up as the empty id *)
Lemma vv_match_spec_gen : forall op L R id pts,
  In (id, pts) (vv_match op L R) ->
  exists lp rp, In (id, lp) (snd L) /\
                In ((if Nat.leb (length (fst L)) (length id) then fst R ++ label_text (fst L) id else []), rp) (snd R) /\
                pts = pair_pts op false lp rp /\ pts <> [].
Proof.
  intros op L R id pts H. unfold vv_match in H. apply in_flat_map in H.
  destruct H as [[id1 lp] [Hl H]]. cbn [fst snd] in H. cbv zeta in H.
  match type of H with context [find ?f ?l] => destruct (find f l) as [[id2 rp]|] eqn:Ef end; [|destruct H].
  apply find_some in Ef. destruct Ef as [Hr E]. cbn [fst] in E. apply str_eqb_eq in E. cbn [snd] in H.
  destruct (pair_pts op false lp rp) as [|p l] eqn:Ep; [destruct H|].
  destruct H as [H|[]]. injection H as E1 E2. subst id1 pts id2.
  exists lp, rp. unfold label_text. repeat split; [exact Hl | exact Hr | symmetry; exact Ep | discriminate].
Qed.

(* [vv_match_spec] as first stated (no premise) is FALSE: see [vv_match_spec_refuted].  The closest true statements:
   the right-hand ids are not empty (every id is "name{..."), or every left id is at least as long as the left name *)
Theorem vv_match_spec_alt : forall op L R id pts,
  (forall e, In e (snd R) -> fst e <> []) ->
  In (id, pts) (vv_match op L R) ->
  exists lp rp, In (id, lp) (snd L) /\ (length (fst L) <= length id)%nat /\
                In (fst R ++ label_text (fst L) id, rp) (snd R) /\
                pts = pair_pts op false lp rp /\ pts <> [].
Proof.
  intros op L R id pts HR H. destruct (vv_match_spec_gen op L R id pts H) as [lp [rp [H1 [H2 [H3 H4]]]]].
  match type of H2 with context [if ?c then _ else _] => destruct c eqn:E end.
  - apply Nat.leb_le in E. exists lp, rp. auto.
  - exfalso. exact (HR _ H2 eq_refl).
Qed.

Theorem vv_match_spec_alt2 : forall op L R id pts,
  (forall e, In e (snd L) -> (length (fst L) <= length (fst e))%nat) ->
  In (id, pts) (vv_match op L R) ->
  exists lp rp, In (id, lp) (snd L) /\ (length (fst L) <= length id)%nat /\
                In (fst R ++ label_text (fst L) id, rp) (snd R) /\
                pts = pair_pts op false lp rp /\ pts <> [].
Proof.
  intros op L R id pts HL H. destruct (vv_match_spec_gen op L R id pts H) as [lp [rp [H1 [H2 [H3 H4]]]]].
  pose proof (HL _ H1) as Hle. cbn [fst] in Hle.
  match type of H2 with context [if ?c then _ else _] =>
    assert (E : c = true) by (apply Nat.leb_le; exact Hle); rewrite E in H2 end.
  exists lp, rp. auto.
Qed.

Theorem vv_match_spec_refuted :
  ~ (forall op L R id pts,
      In (id, pts) (vv_match op L R) ->
      exists lp rp, In (id, lp) (snd L) /\ (length (fst L) <= length id)%nat /\
                    In (fst R ++ label_text (fst L) id, rp) (snd R) /\
                    pts = pair_pts op false lp rp /\ pts <> []).
Proof.
  intros H.
  assert (Hin : In ([], [(0%Z, 2%Q)]) (vv_match FAdd ([1], [([], [(0%Z, 1%Q)])]) ([], [([], [(0%Z, 1%Q)])]))).
  { vm_compute. left. reflexivity. }
  destruct (H _ _ _ _ _ Hin) as [lp [rp [_ [Hlen _]]]]. cbn in Hlen. lia.
Qed.

(* several series on both sides and no label matching: nothing is paired *)
Theorem vv_free_multi_both_empty : forall op L R,
  (2 <= length (snd L))%nat -> (2 <= length (snd R))%nat -> vv_free op L R = [].
Proof.
  intros op [ln lv] [rn rv] HL HR. cbn [snd] in HL, HR.
  destruct lv as [|a [|b lv]]; cbn [length] in HL; try lia.
  destruct rv as [|c [|d rv]]; cbn [length] in HR; try lia.
  unfold vv_free. cbn [snd]. cbv zeta. destruct (Nat.ltb _ _); reflexivity.
Qed.

(* one series on the right: every left series is paired with it, whatever the labels *)
Theorem vv_free_one_right : forall op ln lv rn rid rp, (1 <= length lv)%nat ->
  vv_free op (ln, lv) (rn, [(rid, rp)]) =
  flat_map (fun e => match pair_pts op false (snd e) rp with [] => [] | l => [(fst e, l)] end) lv.
Proof.
  intros op ln lv rn rid rp H. unfold vv_free. cbn [snd length].
  assert (E : Nat.ltb (length lv) 1 = false) by (apply Nat.ltb_ge; exact H).
  rewrite E. cbv zeta. cbn [snd]. rewrite (proj2 (Nat.leb_le _ _) H). reflexivity.
Qed.

Lemma is_prefix_skipn name : forall id, is_prefix name id = true -> name ++ skipn (length name) id = id.
Proof.
  induction name as [|x p IH]; intros [|y s] H; cbn in *; try reflexivity; try discriminate.
  apply andb_true_iff in H. destruct H as [H1 H2]. apply N.eqb_eq in H1. subst. f_equal. apply IH. exact H2.
Qed.

Lemma pair_pts_self op pts : NoDup (map fst pts) ->
  pair_pts op false pts pts =
  flat_map (fun tv => match fop_apply op (snd tv) (snd tv) with Some x => [(fst tv, x)] | None => [] end) pts.
Proof.
  intros Hnd. unfold pair_pts. apply flat_map_ext_in. intros tv Hin. unfold sample_find.
  rewrite (find_nodup_key (@fst Z Q) Z.eqb Z.eqb_eq pts tv Hnd Hin). reflexivity.
Qed.

(* the same vector on both sides, labels matched: every series is paired with itself *)
Theorem vv_match_self : forall op name v,
  NoDup (map fst v) ->
  (forall e, In e v -> is_prefix name (fst e) = true) ->
  (forall e, In e v -> NoDup (map fst (snd e))) ->
  vv_match op (name, v) (name, v) =
  flat_map (fun e =>
    match flat_map (fun tv => match fop_apply op (snd tv) (snd tv) with Some x => [(fst tv, x)] | None => [] end) (snd e) with
    | [] => []
    | l => [(fst e, l)]
    end) v.
Proof.
  intros op name v Hnd Hpre Hpts. unfold vv_match. cbn [fst snd]. apply flat_map_ext_in. intros e Hin.
  cbv beta zeta. pose proof (Hpre e Hin) as Hp. unfold str, vec in *.
  rewrite (proj2 (Nat.leb_le _ _) (is_prefix_length _ _ Hp)). rewrite (is_prefix_skipn _ _ Hp).
  rewrite (find_nodup_key (@fst (list N) (list (Z * Q))) str_eqb (fun a b => str_eqb_eq a b) v e Hnd Hin).
  rewrite (pair_pts_self op _ (Hpts e Hin)). reflexivity.
Qed.

Lemma Qred_sub_self x : Qred (x - x) = 0%Q.
Proof.
  transitivity (Qred 0); [|reflexivity]. apply Qred_complete. unfold Qminus. apply Qplus_opp_r.
Qed.

(* m - m: one output series per series of m, every sample 0 *)
Theorem vv_match_self_sub : forall name v,
  NoDup (map fst v) ->
  (forall e, In e v -> is_prefix name (fst e) = true) ->
  (forall e, In e v -> NoDup (map fst (snd e))) ->
  (forall e, In e v -> snd e <> []) ->
  vv_match FSub (name, v) (name, v) = map (fun e => (fst e, map (fun tv => (fst tv, 0%Q)) (snd e))) v.
Proof.
  intros name v Hnd Hpre Hpts Hne. rewrite vv_match_self by assumption.
  rewrite <- flat_map_single. apply flat_map_ext_in. intros e Hin.
  assert (E : flat_map (fun tv : Z * Q => match fop_apply FSub (snd tv) (snd tv) with Some x => [(fst tv, x)] | None => [] end) (snd e)
              = map (fun tv : Z * Q => (fst tv, 0%Q)) (snd e)).
  { rewrite <- flat_map_single. apply flat_map_ext_in. intros tv _. cbn [fop_apply]. rewrite Qred_sub_self. reflexivity. }
  rewrite E. destruct (snd e) as [|p l] eqn:Es; [exfalso; exact (Hne e Hin Es)|]. reflexivity.
Qed.

(* ---------- link to the arithmetic model of Promql.v ---------- *)
Definition fop_of (b : binop) : fop := match b with BAdd => FAdd | BSub => FSub | BMul => FMul end.

Lemma pair_pts_bin b l r :
  pair_pts (fop_of b) false l r =
  flat_map (fun tv => match find (fun tv2 => Z.eqb (fst tv2) (fst tv)) r with
                      | Some tv2 => [(fst tv, bin_apply b (snd tv) (snd tv2))]
                      | None => []
                      end) l.
Proof.
  unfold pair_pts. apply flat_map_ext_in. intros tv _. unfold sample_find.
  destruct (find _ r); [|reflexivity]. destruct b; reflexivity.
Qed.

Theorem vv_match_is_run_arith : forall (rmatch : str -> str -> bool) b q1 q2 db,
  forallb (fun e => Nat.leb (length (q_name q1)) (length (fst e))) (run_query rmatch q1 db) = true ->
  vv_match (fop_of b) (q_name q1, run_query rmatch q1 db) (q_name q2, run_query rmatch q2 db)
  = run_arith rmatch b q1 q2 db.
Proof.
  intros rmatch b q1 q2 db Hall. unfold vv_match, run_arith. cbn [fst snd]. apply flat_map_ext_in. intros e Hin.
  cbv beta zeta. rewrite forallb_forall in Hall. rewrite (Hall e Hin). cbv iota.
  destruct (find _ _) as [e2|]; [|reflexivity]. rewrite pair_pts_bin. reflexivity.
Qed.

(* an operand without forced GetAllLabels is the query as it runs alone *)
Theorem run_leaf_is_run_query : forall (rmatch : str -> str -> bool) db q,
  run_leaf rmatch db q false = leaf_shape q (run_query rmatch q db).
Proof.
  intros rmatch db q. rewrite run_query_is_layer1, tracked_is_tracked_with. unfold run_leaf.
  destruct (flags q) as [sel gal]. destruct (first_agg q) as [[fn fields] wo]. cbn [fst snd].
  rewrite orb_false_r. reflexivity.
Qed.

(* except for count without grouping clause, whose entry "name{" exists even without samples, that is the answer itself *)
Theorem run_leaf_is_run_query_not_count : forall (rmatch : str -> str -> bool) db q,
  count_all q = false -> run_leaf rmatch db q false = run_query rmatch q db.
Proof.
  intros rmatch db q H. rewrite run_leaf_is_run_query. unfold leaf_shape. rewrite H.
  destruct (run_query rmatch q db); reflexivity.
Qed.

(* a plain selector already has GetAllLabels *)
Theorem run_leaf_selector_forced : forall (rmatch : str -> str -> bool) db name ms,
  run_leaf rmatch db (QSel name ms) true = run_query rmatch (QSel name ms) db.
Proof.
  intros rmatch db name ms. rewrite run_query_is_layer1, tracked_is_tracked_with. unfold run_leaf.
  cbn [flags first_agg fst snd orb]. unfold leaf_shape. cbn [count_all first_agg].
  destruct (layer1 _ _ _ _ _ _); reflexivity.
Qed.

(* ---------- concrete witnesses ---------- *)
Definition w_db : list series :=
  [ mk_series [109] [([97], [120])] [[(10%Z, 60%Z); (20%Z, 120%Z)]];
    mk_series [109] [([97], [121])] [[(10%Z, 180%Z); (20%Z, 240%Z)]] ].
Definition w_t : ftree := FBin FSub (FLeaf 1 (QSel [109] [])) (FLeaf 1 (QSel [109] [])).

(* m - m through the formula API (init = true): both operand positions are multi-series, labels are matched, one series of zeros per series of m *)
Example formula_self_sub_witness :
  run_formula frag_match true w_t w_db =
  Some [([109;123;97;58;120;44], [(10%Z, 0%Q); (20%Z, 0%Q)]); ([109;123;97;58;121;44], [(10%Z, 0%Q); (20%Z, 0%Q)])].
Proof. vm_compute. reflexivity. Qed.

(* counting distinct query texts instead of positions keeps the flag and loses every series *)
Theorem formula_count_distinct_texts_refuted :
  exists t db o1 o2, nth_error (leaves t) 0 = Some o1 /\ nth_error (leaves t) 1 = Some o2 /\
    pos_multi (run_leaf frag_match db) (leaves t) o1 = true /\ pos_multi (run_leaf frag_match db) (leaves t) o2 = true /\
    exec_flag_distinct (run_leaf frag_match db) true (leaves t) = true /\
    run_formula_distinct frag_match true t db = Some [] /\
    run_formula frag_match true t db <> Some [].
Proof.
  exists w_t, w_db, (1, QSel [109] [], true), (1, QSel [109] [], true).
  repeat split; try (vm_compute; reflexivity). vm_compute. discriminate.
Qed.


(* ---------- nested operations with an empty result (fix 962cee9) ---------- *)
Definition leaf_hashes (g : bool) (t : ftree) : list N := map (fun o => fst (fst o)) (leaves_g g t).

Lemma fside_of_some t v : exists L, fside_of t (Some v) = Some L /\ snd L = v.
Proof. destruct t; cbn; eexists; split; reflexivity. Qed.

(* once every operand has its entry in resMap, no operation of the tree fails -- whatever is empty on the way *)
Theorem feval_total : forall flag rm t g,
  (forall h, In h (leaf_hashes g t) -> rm_find h rm <> None) ->
  feval flag rm t <> None.
Proof.
  intros flag rm t. unfold feval.
  induction t as [h q | op l IHl r IHr | op l IHl c | op c r IHr]; intros g H; cbn [feval_with].
  - apply H. unfold leaf_hashes. cbn. left. reflexivity.
  - assert (Hl : feval_with fside_of flag rm l <> None).
    { apply (IHl true). intros h Hin. apply H. unfold leaf_hashes in *. cbn [leaves_g]. rewrite map_app. apply in_or_app. left. exact Hin. }
    assert (Hr : feval_with fside_of flag rm r <> None).
    { apply (IHr true). intros h Hin. apply H. unfold leaf_hashes in *. cbn [leaves_g]. rewrite map_app. apply in_or_app. right. exact Hin. }
    destruct (feval_with fside_of flag rm l) as [vl|]; [|congruence].
    destruct (feval_with fside_of flag rm r) as [vr|]; [|congruence].
    destruct (fside_of_some l vl) as [L [EL _]]. destruct (fside_of_some r vr) as [R [ER _]].
    rewrite EL, ER. discriminate.
  - assert (Hl : feval_with fside_of flag rm l <> None) by (apply (IHl g); exact H).
    destruct (feval_with fside_of flag rm l) as [vl|]; [|congruence].
    destruct (fside_of_some l vl) as [L [EL _]]. rewrite EL. discriminate.
  - assert (Hr : feval_with fside_of flag rm r <> None) by (apply (IHr g); exact H).
    destruct (feval_with fside_of flag rm r) as [vr|]; [|congruence].
    destruct (fside_of_some r vr) as [R [ER _]]. rewrite ER. discriminate.
Qed.

Lemma first_run_in_hashes (run : query -> bool -> vec) ops h :
  In h (map (fun o : N * query * bool => fst (fst o)) ops) -> first_run run h ops <> None.
Proof.
  induction ops as [|[[k q] g] ops IH]; cbn; [tauto|]. intros [E | Hin].
  - subst k. rewrite N.eqb_refl. discriminate.
  - destruct (k =? h)%N; [discriminate | apply IH; exact Hin].
Qed.

(* a formula never fails: an empty nested result is an empty operand *)
Theorem run_formula_never_fails : forall (rmatch : str -> str -> bool) init t db,
  run_formula rmatch init t db <> None.
Proof.
  intros rmatch init t db. unfold run_formula. apply (feval_total _ _ t false).
  intros h Hin. rewrite exec_resmap_first_run. apply first_run_in_hashes. exact Hin.
Qed.

(* (m{a="zz"} + m{a="zz"}) + m : the inner sum is empty; fixed code: empty answer; pre-fix: the request failed *)
Definition w_zz : query := QSel [109] [mk_m [97] MEq [122; 122]].
Definition w_nested_empty : ftree := FBin FAdd (FBin FAdd (FLeaf 1 w_zz) (FLeaf 1 w_zz)) (FLeaf 2 (QSel [109] [])).
Theorem prefix_nested_empty_operand_refuted :
  exists t db init, run_formula_prefix frag_match init t db = None /\ run_formula frag_match init t db = Some [].
Proof. exists w_nested_empty, w_db, false. split; vm_compute; reflexivity. Qed.

Print Assumptions exec_resmap_first_run.
Print Assumptions feval_total.
Print Assumptions run_formula_never_fails.
Print Assumptions prefix_nested_empty_operand_refuted.
Print Assumptions exec_count_is_positions.
Print Assumptions exec_flag_false_iff.
Print Assumptions exec_flag_two_multi_positions.
Print Assumptions pos_multi_own_result.
Print Assumptions exec_distinct_resmap_first_run.
Print Assumptions pair_pts_spec.
Print Assumptions vv_match_spec_alt.
Print Assumptions vv_match_spec_alt2.
Print Assumptions vv_match_spec_refuted.
Print Assumptions vv_free_multi_both_empty.
Print Assumptions vv_free_one_right.
Print Assumptions vv_match_self.
Print Assumptions vv_match_self_sub.
Print Assumptions vv_match_is_run_arith.
Print Assumptions run_leaf_is_run_query.
Print Assumptions run_leaf_is_run_query_not_count.
Print Assumptions run_leaf_selector_forced.
Print Assumptions formula_self_sub_witness.
Print Assumptions formula_count_distinct_texts_refuted.

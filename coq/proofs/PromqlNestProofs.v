(* PromqlNestProofs.v — nested aggregations (C09): the parser's flag machine, ReorderTagFilters with
   duplicate filters, the selection of a nested query, the outer aggregation layer. *)
From Coq Require Import Lia ZifyN ZifyNat ZifyBool QArith Qabs Permutation.
From SigM Require Import Base Promql.
From SigP Require Import BaseProofs PromqlProofs.
Open Scope Z_scope.

(* ---------- the flag machine agrees with the one-layer definitions ---------- *)
Definition one_layer_state (q : query) : pstate :=
  match q with
  | QSel _ ms => p_init ms
  | QAgg f g _ ms => agg_step f g false (p_init ms)
  end.

Lemma map_fst_pair {A B C} (f : A -> B) (c : C) l : map fst (map (fun x => (f x, c)) l) = map f l.
Proof. rewrite map_map. reflexivity. Qed.

Lemma existsb_matchers_groupkey ms :
  existsb (fun t : tfilter * bool => f_groupkey (fst t) && negb (snd t)) (map (fun m => (of_matcher m, false)) ms) = false.
Proof. induction ms as [|m ms IH]; cbn; [reflexivity | exact IH]. Qed.

Theorem filters_are_steps q : query_filters q = map fst (p_tfs (one_layer_state q)).
Proof.
  destruct q as [n ms | f g n ms]; cbn [one_layer_state query_filters p_init agg_step p_tfs].
  - rewrite map_fst_pair. reflexivity.
  - rewrite map_app, !map_fst_pair. reflexivity.
Qed.

Lemma existsb_map_fst (l : list tfilter) (c : bool) (P : tfilter -> bool) :
  existsb (fun t : tfilter * bool => P (fst t) && negb (snd t)) (map (fun x => (x, c)) l) = negb c && existsb P l.
Proof.
  induction l as [|x l IH]; cbn [map existsb fst snd]; [rewrite andb_false_r; reflexivity|].
  rewrite IH. destruct c, (P x); reflexivity.
Qed.

Lemma existsb_stars_pair w (ks : list str) :
  existsb (fun t : tfilter * bool => f_groupkey (fst t) && negb (snd t)) (map (fun k => (star_filter k w true, false)) ks)
  = existsb (fun t => f_groupkey t) (map (fun k => star_filter k w true) ks).
Proof. induction ks as [|k ks IH]; cbn; [reflexivity|]. reflexivity. Qed.

Lemma existsb_matchers_groupkey' ms : existsb (fun t => f_groupkey t) (map of_matcher ms) = false.
Proof. induction ms as [|m ms IH]; cbn; [reflexivity | exact IH]. Qed.

Theorem flags_are_steps q : flags q = vs_step (one_layer_state q).
Proof.
  destruct q as [n ms | f g n ms].
  - cbn [one_layer_state flags]. unfold vs_step, p_init. cbn [p_sel p_nogrp p_byname p_tfs p_gal p_groupby orb andb negb].
    rewrite existsb_matchers_groupkey. reflexivity.
  - cbn [one_layer_state]. unfold flags, vs_step, agg_step, p_init.
    cbn [p_sel p_nogrp p_byname p_tfs p_gal p_groupby orb andb negb query_filters].
    set (ks := filter (fun k => negb (str_eqb k name_label)) (group_list g)).
    assert (El : length (map (fun m => (of_matcher m, false)) ms ++ map (fun k => (star_filter k (is_without g) true, false)) ks)
                 = length (map of_matcher ms ++ map (fun k => star_filter k (is_without g) true) ks)).
    { rewrite !app_length, !map_length. reflexivity. }
    rewrite El.
    assert (Ee : existsb (fun t : tfilter * bool => f_groupkey (fst t) && negb (snd t))
                   (map (fun m => (of_matcher m, false)) ms ++ map (fun k => (star_filter k (is_without g) true, false)) ks)
                 = existsb (fun t => f_groupkey t) (map of_matcher ms ++ map (fun k => star_filter k (is_without g) true) ks)).
    { rewrite !existsb_app, existsb_matchers_groupkey, existsb_matchers_groupkey', existsb_stars_pair. reflexivity. }
    rewrite Ee.
    destruct (is_without g), f, (Nat.eqb (length (group_list g)) 0); cbn [is_count orb andb negb];
      try reflexivity;
      repeat match goal with |- context [if ?c then _ else _] => destruct c end; cbn; try reflexivity;
      rewrite ?andb_false_r, ?andb_true_r, ?orb_false_r; try reflexivity.
Qed.

Section NestSel.
Variable rmatch : str -> str -> bool.

Theorem tracked_is_tracked_with q db :
  tracked rmatch q db = tracked_with rmatch (fst (flags q)) (snd (flags q)) (query_filters q) (q_name q) db.
Proof. unfold tracked, tracked_with. destruct (flags q) as [s g]. reflexivity. Qed.

Theorem run_query_is_layer1 q db :
  run_query rmatch q db =
  layer1 (q_name q) (fst (fst (first_agg q))) (snd (fst (first_agg q))) (snd (first_agg q)) db (tracked rmatch q db).
Proof.
  unfold run_query, layer1, out_ids, result_at.
  destruct (first_agg q) as [[fn fields] wo]. cbn [fst snd]. reflexivity.
Qed.

End NestSel.

(* ---------- ReorderTagFilters for ANY filter list (duplicates included) ---------- *)
Definition dk_step (acc : list tfilter) (f : tfilter) : list tfilter :=
  if has_fkey (f_key f) acc then acc else acc ++ [f].
(* the first filter of every key, in order *)
Definition dedup_key (l : list tfilter) : list tfilter := fold_left dk_step l [].

Definition nonstar (f : tfilter) : bool := negb (f_is_star f).
Definition key_ne (k : str) (g : tfilter) : bool := negb (str_eqb (f_key g) k).

Lemma has_fkey_app k a b : has_fkey k (a ++ b) = has_fkey k a || has_fkey k b.
Proof. unfold has_fkey. apply existsb_app. Qed.

Lemma has_fkey_one k f : has_fkey k [f] = str_eqb (f_key f) k.
Proof. unfold has_fkey. cbn. apply orb_false_r. Qed.

Lemma str_eqb_sym a b : str_eqb a b = str_eqb b a.
Proof.
  destruct (str_eqb a b) eqn:E1, (str_eqb b a) eqn:E2; try reflexivity.
  - apply str_eqb_eq in E1. subst. rewrite str_eqb_refl in E2. discriminate.
  - apply str_eqb_eq in E2. subst. rewrite str_eqb_refl in E1. discriminate.
Qed.

Lemma has_fkey_filter_ne k k' s : str_eqb k' k = false -> has_fkey k' (filter (key_ne k) s) = has_fkey k' s.
Proof.
  intros Hne. induction s as [|g s IH]; cbn [filter]; [reflexivity|].
  unfold key_ne at 1. destruct (str_eqb (f_key g) k) eqn:E; cbn [negb].
  - rewrite IH. unfold has_fkey at 2. cbn [existsb]. apply str_eqb_eq in E. rewrite E.
    rewrite (str_eqb_sym k k'), Hne. reflexivity.
  - unfold has_fkey in *. cbn [existsb]. rewrite IH. reflexivity.
Qed.

Lemma filter_ne_app k a b : filter (key_ne k) (a ++ b) = filter (key_ne k) a ++ filter (key_ne k) b.
Proof. apply filter_app. Qed.

(* steps on two accumulators that agree outside key k keep agreeing outside key k *)
Lemma dk_chain_mod k l : forall s1 s2,
  filter (key_ne k) s1 = filter (key_ne k) s2 ->
  filter (key_ne k) (fold_left dk_step l s1) = filter (key_ne k) (fold_left dk_step l s2).
Proof.
  induction l as [|f l IH]; intros s1 s2 H; cbn [fold_left]; [exact H|].
  apply IH. unfold dk_step.
  destruct (str_eqb (f_key f) k) eqn:E.
  - assert (Hf : filter (key_ne k) [f] = []) by (cbn; unfold key_ne; rewrite E; reflexivity).
    destruct (has_fkey (f_key f) s1), (has_fkey (f_key f) s2); rewrite ?filter_ne_app, ?Hf, ?app_nil_r; exact H.
  - assert (Hf : filter (key_ne k) [f] = [f]) by (cbn; unfold key_ne; rewrite E; reflexivity).
    rewrite <- (has_fkey_filter_ne k (f_key f) s1 E), <- (has_fkey_filter_ne k (f_key f) s2 E), H.
    destruct (has_fkey (f_key f) (filter (key_ne k) s2)); rewrite ?filter_ne_app, ?Hf, ?H; reflexivity.
Qed.

Lemma filter_filter_ne (P : tfilter -> bool) k x :
  (forall g, P g = true -> str_eqb (f_key g) k = false) -> filter P x = filter P (filter (key_ne k) x).
Proof.
  intros HP. induction x as [|g x IH]; cbn [filter]; [reflexivity|].
  destruct (P g) eqn:Eg.
  - unfold key_ne at 1. rewrite (HP g Eg). cbn [negb filter]. rewrite Eg, IH. reflexivity.
  - destruct (key_ne k g); cbn [filter]; rewrite ?Eg; exact IH.
Qed.

Lemma dk_keeps_keys k l : forall o, has_fkey k o = true -> has_fkey k (fold_left dk_step l o) = true.
Proof.
  induction l as [|f l IH]; intros o H; cbn [fold_left]; [exact H|].
  apply IH. unfold dk_step. destruct (has_fkey (f_key f) o); [exact H|].
  rewrite has_fkey_app, H. reflexivity.
Qed.

Definition not_in (O : list tfilter) (g : tfilter) : bool := negb (has_fkey (f_key g) O).

Lemma chain_swap O k l s1 s2 : has_fkey k O = true ->
  filter (key_ne k) s1 = filter (key_ne k) s2 ->
  filter (not_in O) (fold_left dk_step l s1) = filter (not_in O) (fold_left dk_step l s2).
Proof.
  intros HO H.
  assert (HP : forall g, not_in O g = true -> str_eqb (f_key g) k = false).
  { intros g Hg. unfold not_in in Hg. rewrite negb_true_iff in Hg.
    destruct (str_eqb (f_key g) k) eqn:E; [|reflexivity]. apply str_eqb_eq in E. rewrite E in Hg. congruence. }
  rewrite (filter_filter_ne _ k _ HP), (filter_filter_ne _ k (fold_left dk_step l s2) HP).
  f_equal. apply dk_chain_mod. exact H.
Qed.

Lemma filter_ne_id k s : has_fkey k s = false -> filter (key_ne k) s = s.
Proof.
  induction s as [|g s IH]; cbn [filter]; [reflexivity|].
  unfold has_fkey. cbn [existsb]. rewrite orb_false_iff. intros [H1 H2].
  unfold key_ne at 1. rewrite H1. cbn [negb]. f_equal. apply IH. exact H2.
Qed.

Lemma reorder_gen l : forall o s,
  (forall g, In g s -> has_fkey (f_key g) o = false) ->
  fold_left reorder_step l (o, s) =
  (fold_left dk_step (filter nonstar l) o,
   filter (not_in (fold_left dk_step (filter nonstar l) o)) (fold_left dk_step (filter f_is_star l) s)).
Proof.
  induction l as [|f l IH]; intros o s Hd.
  - cbn. f_equal. symmetry. clear -Hd. induction s as [|g s IH]; cbn; [reflexivity|].
    unfold not_in at 1. rewrite (Hd g (or_introl eq_refl)). cbn [negb]. f_equal. apply IH. intros g' Hg'. apply Hd. right. exact Hg'.
  - cbn [fold_left filter]. unfold reorder_step at 2.
    destruct (f_is_star f) eqn:Es;
      [assert (En : nonstar f = false) by (unfold nonstar; rewrite Es; reflexivity)
      |assert (En : nonstar f = true) by (unfold nonstar; rewrite Es; reflexivity)];
      rewrite En; cbn [negb fold_left].
    + (* a key=* filter *)
      destruct (has_fkey (f_key f) o) eqn:Eo; cbn [orb].
      * (* its key already has a value filter: skipped; in the chain it is filtered out at the end *)
        rewrite (IH o s Hd). f_equal.
        set (O := fold_left dk_step (filter nonstar l) o).
        assert (HO : has_fkey (f_key f) O = true) by (apply dk_keeps_keys; exact Eo).
        apply (chain_swap O (f_key f) _ s (dk_step s f) HO).
        unfold dk_step. destruct (has_fkey (f_key f) s); [reflexivity|].
        rewrite filter_ne_app. cbn [filter]. unfold key_ne at 3. rewrite str_eqb_refl. cbn [negb]. rewrite app_nil_r. reflexivity.
      * destruct (has_fkey (f_key f) s) eqn:Est.
        -- assert (Edk : dk_step s f = s) by (unfold dk_step; rewrite Est; reflexivity).
           rewrite Edk. apply (IH o s Hd).
        -- assert (Edk : dk_step s f = s ++ [f]) by (unfold dk_step; rewrite Est; reflexivity).
           rewrite Edk. apply (IH o (s ++ [f])).
           intros g Hg. apply in_app_iff in Hg. destruct Hg as [Hg|[<-|[]]]; [apply Hd; exact Hg | exact Eo].
    + (* a value filter *)
      destruct (has_fkey (f_key f) o) eqn:Eo.
      * assert (Edk : dk_step o f = o) by (unfold dk_step; rewrite Eo; reflexivity).
        rewrite Edk. apply (IH o s Hd).
      * assert (Edk : dk_step o f = o ++ [f]) by (unfold dk_step; rewrite Eo; reflexivity).
        rewrite Edk.
        change (fun g : tfilter => negb (str_eqb (f_key g) (f_key f))) with (key_ne (f_key f)).
        rewrite (IH (o ++ [f]) (filter (key_ne (f_key f)) s)).
        -- f_equal.
           set (O := fold_left dk_step (filter nonstar l) (o ++ [f])).
           assert (HO : has_fkey (f_key f) O = true).
           { apply dk_keeps_keys. rewrite has_fkey_app, has_fkey_one, str_eqb_refl. apply orb_true_r. }
           apply (chain_swap O (f_key f) _ _ _ HO).
           clear. induction s as [|g s IH]; cbn [filter]; [reflexivity|].
           destruct (key_ne (f_key f) g) eqn:E; cbn [filter]; rewrite ?E, IH; reflexivity.
        -- intros g Hg. apply filter_In in Hg. destruct Hg as [Hg Hk].
           rewrite has_fkey_app, has_fkey_one, (Hd g Hg). cbn [orb].
           unfold key_ne in Hk. rewrite negb_true_iff in Hk. rewrite str_eqb_sym. exact Hk.
Qed.

(* ReorderTagFilters, assumption-free: after the stable sort by key, the value filters are the FIRST value
   filter of every key; the key=* filters are the first key=* filter of every key that has no value filter.
   Duplicates are dropped, and the cached number of value filters is the length of the first list. *)
Theorem reorder_spec tfs :
  reorder tfs =
  (dedup_key (filter nonstar (sort_by_key tfs)),
   filter (not_in (dedup_key (filter nonstar (sort_by_key tfs)))) (dedup_key (filter f_is_star (sort_by_key tfs)))).
Proof. unfold reorder, dedup_key. apply reorder_gen. intros g []. Qed.

Lemma dk_nonempty l : forall o, o <> [] -> fold_left dk_step l o <> [].
Proof.
  induction l as [|f l IH]; intros o H; cbn [fold_left]; [exact H|].
  apply IH. unfold dk_step. destruct (has_fkey (f_key f) o); [exact H|]. destruct o; discriminate.
Qed.

Lemma dedup_key_nil l : dedup_key l = [] <-> l = [].
Proof.
  split; [|intros ->; reflexivity]. destruct l as [|f l]; [reflexivity|].
  unfold dedup_key. cbn [fold_left]. unfold dk_step at 2. cbn. intros H. exfalso. revert H. apply dk_nonempty. discriminate.
Qed.

Lemma filter_nil_forallb {A} (P : A -> bool) l : filter P l = [] <-> forallb (fun x => negb (P x)) l = true.
Proof.
  induction l as [|x l IH]; cbn; [tauto|]. destruct (P x); cbn; [split; discriminate | exact IH].
Qed.

(* "there is a value filter" (numValueFilters > 0, the flag handed to BulkAddStar) holds exactly when some
   filter of the query is not a key=* filter — however many duplicate filters were dropped *)
Theorem reorder_no_value_filter_iff tfs :
  fst (reorder tfs) = [] <-> forallb f_is_star tfs = true.
Proof.
  rewrite reorder_spec. cbn [fst]. rewrite dedup_key_nil, filter_nil_forallb.
  rewrite (forallb_perm _ _ _ (sort_perm tfs)).
  assert (E : forallb (fun x => negb (nonstar x)) tfs = forallb f_is_star tfs).
  { apply forallb_ext_in_local. intros x _. unfold nonstar. apply negb_involutive. }
  rewrite E. tauto.
Qed.

(* keys of the first-per-key list *)
Lemma has_fkey_cons k f l : has_fkey k (f :: l) = str_eqb (f_key f) k || has_fkey k l.
Proof. reflexivity. Qed.

Lemma dk_keys k l : forall o, has_fkey k (fold_left dk_step l o) = has_fkey k o || has_fkey k l.
Proof.
  induction l as [|f l IH]; intros o; cbn [fold_left]; [cbn; rewrite orb_false_r; reflexivity|].
  rewrite IH, has_fkey_cons. unfold dk_step.
  destruct (has_fkey (f_key f) o) eqn:E.
  - destruct (str_eqb (f_key f) k) eqn:Ek; cbn [orb]; [|reflexivity].
    apply str_eqb_eq in Ek. subst k. rewrite E. reflexivity.
  - rewrite has_fkey_app, has_fkey_one, orb_assoc. reflexivity.
Qed.

Lemma dedup_key_keys k l : has_fkey k (dedup_key l) = has_fkey k l.
Proof. unfold dedup_key. rewrite dk_keys. reflexivity. Qed.

Lemma dk_incl l : forall o g, In g (fold_left dk_step l o) -> In g o \/ In g l.
Proof.
  induction l as [|f l IH]; intros o g H; cbn [fold_left] in H; [left; exact H|].
  apply IH in H. destruct H as [H|H]; [|right; right; exact H].
  unfold dk_step in H. destruct (has_fkey (f_key f) o); [left; exact H|].
  apply in_app_iff in H. destruct H as [H|[<-|[]]]; [left; exact H | right; left; reflexivity].
Qed.

Lemma dedup_key_incl l g : In g (dedup_key l) -> In g l.
Proof. intros H. apply dk_incl in H. destruct H as [[]|H]. exact H. Qed.

Lemma dk_nodup_id l : forall o, NoDup (map f_key (o ++ l)) -> fold_left dk_step l o = o ++ l.
Proof.
  induction l as [|f l IH]; intros o Hn; cbn [fold_left]; [rewrite app_nil_r; reflexivity|].
  assert (Hf : has_fkey (f_key f) o = false).
  { apply has_fkey_false. rewrite map_app in Hn. cbn [map] in Hn. apply NoDup_remove_2 in Hn.
    rewrite in_app_iff in Hn. tauto. }
  unfold dk_step. rewrite Hf, IH; rewrite <- app_assoc; [reflexivity | exact Hn].
Qed.

Lemma dedup_key_nodup l : NoDup (map f_key l) -> dedup_key l = l.
Proof. intros H. unfold dedup_key. rewrite dk_nodup_id; [reflexivity | exact H]. Qed.

(* ---------- selection with duplicate key=* filters ---------- *)
Section NestSelect.
Variable rmatch : str -> str -> bool.

Lemma step_filter_flags sel gal nvf name db st f : negb gal && sel = false ->
  step_filter rmatch sel gal nvf name db st f = step_filter rmatch true true nvf name db st f.
Proof. intros H. unfold step_filter. destruct st as [first tr]. rewrite H. cbn [negb andb]. reflexivity. Qed.

Lemma fold_filter_flags sel gal nvf name db l st : negb gal && sel = false ->
  fold_left (step_filter rmatch sel gal nvf name db) l st = fold_left (step_filter rmatch true true nvf name db) l st.
Proof. intros H. apply fold_left_ext. intros a b. apply step_filter_flags. exact H. Qed.

Lemma filter_not_in_nil l : filter (not_in []) l = l.
Proof. induction l as [|g l IH]; cbn; [reflexivity|]. rewrite IH. reflexivity. Qed.

Lemma has_fkey_witness k l : has_fkey k l = true -> exists g, In g l /\ f_key g = k.
Proof.
  unfold has_fkey. rewrite existsb_exists. intros [g [Hg E]]. apply str_eqb_eq in E. eauto.
Qed.

Lemma has_fkey_intro g l : In g l -> has_fkey (f_key g) l = true.
Proof. intros H. apply has_fkey_In. apply in_map. exact H. Qed.

(* the filter loop on  matchers ++ key=* filters ; the key=* filters may repeat keys (two grouping clauses that
   name the same label) and may name matched labels.  [sel], [gal]: any flags but the add_plain mode. *)
Lemma select_core_dup name ms extra sel gal db :
  forallb (fun m => negb (str_eqb (m_val m) star_val)) ms = true ->
  Forall plain_star extra ->
  NoDup (map m_key ms) ->
  negb gal && sel = false ->
  (forall j s', nth_error db j = Some s' -> series_ok name ms s' = true) ->
  (ms = [] -> forall i s, nth_error db i = Some s -> str_eqb (s_name s) name = true ->
     exists f, In f extra /\ has_key (f_key f) s = true) ->
  forall i s, nth_error db i = Some s ->
    forall others stars, reorder (map of_matcher ms ++ extra) = (others, stars) ->
    (tr_mem i (snd (fold_left (step_filter rmatch sel gal (negb (Nat.eqb (length others) 0)) name db)
                              (others ++ stars) (true, []))) = true
     <-> spec_selected rmatch name ms s = true).
Proof.
  intros Gstar Hex Hnd Hfl Gs Hcov i s Hi others0 stars0 Hre.
  rewrite reorder_spec in Hre. injection Hre as <- <-.
  rewrite (fold_filter_flags sel gal _ name db _ _ Hfl).
  set (srt := sort_by_key (map of_matcher ms ++ extra)).
  assert (Po : Permutation (filter nonstar srt) (map of_matcher ms)).
  { eapply perm_trans; [apply perm_filter, sort_perm|]. rewrite filter_app. unfold nonstar.
    rewrite (proj1 (filter_nonstar_matchers ms Gstar)), (proj1 (filter_plain_stars extra Hex)), app_nil_r. auto. }
  assert (Ed : dedup_key (filter nonstar srt) = filter nonstar srt).
  { apply dedup_key_nodup. eapply Permutation_NoDup; [apply Permutation_sym, Permutation_map, Po|].
    rewrite matcher_keys. exact Hnd. }
  rewrite Ed.
  set (others := filter nonstar srt) in *.
  set (stars := filter (not_in others) (dedup_key (filter f_is_star srt))).
  assert (Hst : Forall plain_star stars).
  { apply Forall_forall. intros g Hg. unfold stars in Hg. apply filter_In in Hg. destruct Hg as [Hg _].
    apply dedup_key_incl in Hg. apply filter_In in Hg. destruct Hg as [Hg Hs].
    assert (Hin : In g (map of_matcher ms ++ extra)) by (eapply Permutation_in; [apply sort_perm | exact Hg]).
    apply in_app_iff in Hin. destruct Hin as [Hin|Hin].
    - exfalso. apply in_map_iff in Hin. destruct Hin as [m [<- Hm]].
      rewrite forallb_forall in Gstar. specialize (Gstar m Hm). rewrite negb_true_iff in Gstar.
      unfold f_is_star in Hs. cbn [of_matcher f_val] in Hs. congruence.
    - rewrite Forall_forall in Hex. apply Hex. exact Hin. }
  assert (Hsat : msat rmatch name others db i = spec_selected rmatch name ms s).
  { unfold msat, spec_selected. rewrite Hi.
    destruct (str_eqb (s_name s) name) eqn:En; [cbn [andb] | reflexivity].
    rewrite (forallb_perm _ _ _ Po), forallb_map.
    specialize (Gs _ _ Hi). unfold series_ok in Gs. rewrite En in Gs. cbn [negb orb] in Gs.
    rewrite !andb_true_iff in Gs. destruct Gs as [[Gk _] Gv].
    apply forallb_ext_in_local. intros m Hm.
    rewrite forallb_forall in Gk. specialize (Gk m Hm). unfold has_key in Gk.
    destruct (lookup (m_key m) (s_labels s)) as [v|] eqn:El; [|discriminate].
    apply (sat_matcher rmatch m s v El). destruct (lookup_In _ _ _ El) as [k' Hk'].
    rewrite forallb_forall in Gv. specialize (Gv _ Hk'). cbn [snd] in Gv. destruct v; [discriminate|congruence]. }
  destruct ms as [|m0 ms'].
  - (* no matcher: every filter is a key=* filter, none of them counts as a value filter *)
    assert (Eo : others = []) by (cbn [map] in Po; apply Permutation_sym, Permutation_nil in Po; exact Po).
    unfold stars. rewrite Eo. cbn [app length Nat.eqb negb]. rewrite filter_not_in_nil.
    assert (Hst' : Forall plain_star (dedup_key (filter f_is_star srt))).
    { unfold stars in Hst. rewrite Eo, filter_not_in_nil in Hst. exact Hst. }
    rewrite (fold_stars_add rmatch name db _ Hst'). cbn [tr_mem orb].
    unfold spec_selected. cbn [forallb]. rewrite andb_true_r. rewrite existsb_exists. split.
    + intros [f [_ Hk]]. unfold lab_of in Hk. rewrite Hi in Hk. destruct (str_eqb (s_name s) name); [reflexivity|discriminate].
    + intros En. destruct (Hcov eq_refl i s Hi En) as [f [Hf Hk]].
      assert (Hin : In f (filter f_is_star srt)).
      { apply filter_In. split.
        - eapply Permutation_in; [apply Permutation_sym, sort_perm|]. cbn [map app]. exact Hf.
        - rewrite Forall_forall in Hex. apply (Hex f Hf). }
      pose proof (has_fkey_intro f _ Hin) as Hh. rewrite <- dedup_key_keys in Hh.
      destruct (has_fkey_witness _ _ Hh) as [g [Hg Eg]].
      exists g. split; [exact Hg|]. unfold lab_of. rewrite Hi, En, Eg.
      unfold has_key in Hk. destruct (lookup (f_key f) (s_labels s)); [reflexivity | discriminate].
  - (* at least one matcher: value filters, then the key=* filters only annotate *)
    destruct others as [|f fs] eqn:Eo; [apply Permutation_nil in Po; discriminate|].
    cbn [length Nat.eqb negb]. rewrite fold_left_app. cbn [fold_left].
    assert (HF : Forall (fun f => f_is_star f = false /\ key_total name (f_key f) db) (f :: fs)).
    { apply Forall_forall. intros g Hg. assert (Hin : In g (map of_matcher (m0 :: ms'))) by (eapply Permutation_in; eauto).
      apply in_map_iff in Hin. destruct Hin as [m [<- Hm]]. split.
      - rewrite forallb_forall in Gstar. specialize (Gstar m Hm). rewrite negb_true_iff in Gstar. exact Gstar.
      - intros j s' Hj Hn. specialize (Gs _ _ Hj). unfold series_ok in Gs. rewrite Hn in Gs. cbn [negb orb] in Gs.
        rewrite !andb_true_iff in Gs. destruct Gs as [[Gk _] _]. rewrite forallb_forall in Gk. apply (Gk m Hm). }
    inversion HF as [|? ? [Hs Ht] HF']; subst.
    set (st1 := step_filter rmatch true true true name db (true, []) f).
    assert (H1 : forall j, tr_mem j (snd st1) = msat rmatch name [f] db j).
    { intros j. exact (step_value rmatch true name db true [] f Hs Ht (fun j' H => ltac:(discriminate H)) (fun _ => eq_refl) j). }
    assert (Est : st1 = (false, snd st1)) by (unfold st1, step_filter; reflexivity).
    rewrite Est.
    set (st2 := fold_left (step_filter rmatch true true true name db) fs (false, snd st1)).
    assert (H2 : tr_mem i (snd st2) = msat rmatch name ([f] ++ fs) db i).
    { exact (fold_values rmatch true name db fs [f] (snd st1) HF' H1 i). }
    rewrite (surjective_pairing st2).
    rewrite (fold_stars_keep rmatch name db stars Hst), H2. cbn [app]. rewrite Hsat. tauto.
Qed.

End NestSelect.

(* ---------- the series a nested aggregation reads ---------- *)
Definition grp_stars (g : grouping) : list tfilter :=
  map (fun k => star_filter k (is_without g) true) (filter (fun k => negb (str_eqb k name_label)) (group_list g)).

Lemma nest_filters_shape q :
  nest_filters q = map of_matcher (n_ms q) ++ (grp_stars (n_g2 q) ++ grp_stars (n_g1 q)).
Proof.
  unfold nest_filters, nest_state, agg_step, p_init. cbn [p_tfs].
  rewrite !map_app, !map_fst_pair. rewrite <- app_assoc. reflexivity.
Qed.

Lemma grp_stars_keys g : map f_key (grp_stars g) = filter (fun k => negb (str_eqb k name_label)) (group_list g).
Proof. unfold grp_stars. apply star_keys. Qed.

(* SelectAllSeries = false leaves handleVectorSelector only when the query has at least one tag filter *)
Lemma vs_step_false_filters p gal : vs_step p = (false, gal) -> p_tfs p <> [].
Proof.
  unfold vs_step. destruct (p_sel p); [discriminate|].
  destruct (p_tfs p) as [|t l]; [|discriminate].
  cbn [length Nat.eqb negb existsb]. rewrite andb_false_r. cbn. discriminate.
Qed.

Section NestTheorem.
Variable rmatch : str -> str -> bool.

(* FULL STATEMENT for  fn2 g2 (fn1 g1 (name{ms})) : the nested aggregation reads exactly the series that
   satisfy the matchers — whether or not the two grouping clauses repeat labels (duplicate key=* filters
   are dropped by ReorderTagFilters and do not count as value filters). *)
Theorem nest_select_exact_guarded q db :
  nest_guard q db = true ->
  forall i s, nth_error db i = Some s ->
    (tr_mem i (tracked_nest rmatch q db) = true <-> spec_selected rmatch (n_name q) (n_ms q) s = true).
Proof.
  unfold nest_guard. rewrite !andb_true_iff, negb_true_iff. intros [[Gsel Gfl] Gkeys] i s Hi.
  unfold select_guard in Gsel. rewrite !andb_true_iff in Gsel. destruct Gsel as [[Gstar Gdup] Gdb].
  assert (Gs : forall j s', nth_error db j = Some s' -> series_ok (n_name q) (n_ms q) s' = true).
  { intros j s' Hj. rewrite forallb_forall in Gdb. apply Gdb. eapply nth_error_In; eauto. }
  assert (Gk : forall k, In k (nest_keys q) -> forall j s', nth_error db j = Some s' ->
                 str_eqb (s_name s') (n_name q) = true -> has_key k s' = true).
  { intros k Hk j s' Hj Hn. rewrite forallb_forall in Gkeys. specialize (Gkeys k Hk).
    rewrite forallb_forall in Gkeys. specialize (Gkeys s' (nth_error_In _ _ Hj)). rewrite Hn in Gkeys. exact Gkeys. }
  unfold tracked_nest. destruct (nest_flags q) as [sel gal] eqn:Efl. cbn [fst snd] in Gfl.
  unfold tracked_with. rewrite nest_filters_shape.
  set (grp := grp_stars (n_g2 q) ++ grp_stars (n_g1 q)).
  assert (Hgrp : Forall plain_star grp) by (apply Forall_app; split; apply stars_plain).
  assert (Hgk : map f_key grp = nest_keys q).
  { unfold grp, nest_keys. rewrite map_app, !grp_stars_keys. reflexivity. }
  unfold apply_filters.
  set (added := map (fun k => star_filter k false false)
                    (filter (fun k => negb (mem_str k (map f_key (map of_matcher (n_ms q) ++ grp)))) (all_keys db))).
  set (extra := if sel then grp ++ added else grp).
  assert (Etot : (if sel then (map of_matcher (n_ms q) ++ grp) ++ added else map of_matcher (n_ms q) ++ grp)
                 = map of_matcher (n_ms q) ++ extra).
  { unfold extra. destruct sel; [rewrite <- app_assoc|]; reflexivity. }
  rewrite Etot.
  destruct (reorder (map of_matcher (n_ms q) ++ extra)) as [others stars] eqn:Hre.
  apply (select_core_dup rmatch (n_name q) (n_ms q) extra sel gal db Gstar); try assumption.
  - unfold extra. destruct sel; [apply Forall_app; split; [exact Hgrp | apply stars_plain] | exact Hgrp].
  - apply (nodup_strb_NoDup rmatch), Gdup.
  - (* no matcher: some key=* filter names a label the series carries *)
    intros Ems j s' Hj Hn. destruct sel.
    + (* SelectAllSeries: every tag key of the store has a filter *)
      specialize (Gs _ _ Hj). unfold series_ok in Gs. rewrite Hn in Gs. cbn [negb orb] in Gs.
      rewrite !andb_true_iff in Gs. destruct Gs as [[_ Gl] _].
      destruct (s_labels s') as [|[k0 v0] l] eqn:El; [discriminate|].
      assert (Hk0 : In k0 (all_keys db)).
      { apply (proj2 (all_keys_spec rmatch db)). exists s'. split; [eapply nth_error_In; eauto|]. rewrite El. left. reflexivity. }
      assert (Hhas : has_key k0 s' = true) by (unfold has_key; rewrite El; cbn [lookup]; rewrite str_eqb_refl; reflexivity).
      destruct (mem_str k0 (map f_key (map of_matcher (n_ms q) ++ grp))) eqn:E.
      * apply mem_str_In_ in E. rewrite Ems in E. cbn [map app] in E. apply in_map_iff in E. destruct E as [f [Ef Hf]].
        exists f. split; [unfold extra; apply in_app_iff; left; exact Hf | rewrite Ef; exact Hhas].
      * exists (star_filter k0 false false). split; [|exact Hhas].
        unfold extra. apply in_app_iff. right. unfold added. apply (in_map (fun k => star_filter k false false)). apply filter_In. split; [exact Hk0|].
        rewrite E. reflexivity.
    + (* only the grouping clauses' filters: there is one, and every series of the metric carries its label *)
      pose proof (vs_step_false_filters _ _ Efl) as Hne.
      assert (Hne' : nest_filters q <> []).
      { unfold nest_filters. intros H. apply Hne. destruct (p_tfs (nest_state q)); [reflexivity | discriminate]. }
      rewrite nest_filters_shape, Ems in Hne'. cbn [map app] in Hne'. fold grp in Hne'.
      destruct grp as [|f grp'] eqn:Eg; [congruence|].
      exists f. split; [unfold extra; left; reflexivity|].
      apply (Gk (f_key f)) with (j := j); [rewrite <- Hgk; left; reflexivity | exact Hj | exact Hn].
Qed.

(* wrapping a selector into two aggregation layers does not change which series are read *)
Corollary nest_reads_the_selector q db :
  nest_guard q db = true ->
  forall i s, nth_error db i = Some s ->
    tr_mem i (tracked_nest rmatch q db) = tr_mem i (tracked rmatch (QSel (n_name q) (n_ms q)) db).
Proof.
  intros G i s Hi.
  assert (Gsel : select_guard (n_name q) (n_ms q) db = true).
  { unfold nest_guard in G. rewrite !andb_true_iff in G. tauto. }
  pose proof (nest_select_exact_guarded q db G i s Hi) as H1.
  pose proof (select_exact_guarded rmatch _ _ _ Gsel i s Hi) as H2.
  destruct (tr_mem i (tracked_nest rmatch q db)), (tr_mem i (tracked rmatch (QSel (n_name q) (n_ms q)) db)); try reflexivity.
  - symmetry. apply H2, H1. reflexivity.
  - apply H1, H2. reflexivity.
Qed.

End NestTheorem.

(* ---------- the outer aggregation layer (ApplyAggregationToResults) ---------- *)
From Coq Require Import Lqa.
Open Scope Q_scope.

Lemma fold_qplus l : forall a, fold_left Qplus l a == a + qsum l.
Proof.
  unfold qsum. induction l as [|x l IH]; intros a; cbn [fold_left]; [lra|].
  rewrite IH, (IH (0 + x)). lra.
Qed.

Lemma qsum_cons x l : qsum (x :: l) == x + qsum l.
Proof. unfold qsum at 1. cbn [fold_left]. rewrite fold_qplus. lra. Qed.

Lemma fold_qmin_spec l : forall a,
  (fold_left qmin2 l a = a \/ In (fold_left qmin2 l a) l) /\
  fold_left qmin2 l a <= a /\ forall x, In x l -> fold_left qmin2 l a <= x.
Proof.
  induction l as [|y l IH]; intros a; cbn [fold_left].
  - split; [left; reflexivity|]. split; [lra | intros x []].
  - destruct (IH (qmin2 a y)) as [H1 [H2 H3]].
    assert (Hm : qmin2 a y <= a /\ qmin2 a y <= y /\ (qmin2 a y = a \/ qmin2 a y = y)).
    { unfold qmin2. destruct (Qle_bool a y) eqn:E.
      - apply Qle_bool_iff in E. repeat split; [lra | exact E | left; reflexivity].
      - assert (~ a <= y) by (intros H; apply Qle_bool_iff in H; congruence).
        assert (y < a) by (apply Qnot_le_lt; assumption). repeat split; [lra | lra | right; reflexivity]. }
    destruct Hm as [Ha [Hy Hc]]. split; [|split].
    + destruct H1 as [H1|H1]; [|right; right; exact H1].
      rewrite H1. destruct Hc as [Hc|Hc]; [left; exact Hc | right; left; symmetry; exact Hc].
    + lra.
    + intros x [<-|Hx]; [lra | apply H3; exact Hx].
Qed.

Lemma fold_qmax_spec l : forall a,
  (fold_left qmax2 l a = a \/ In (fold_left qmax2 l a) l) /\
  a <= fold_left qmax2 l a /\ forall x, In x l -> x <= fold_left qmax2 l a.
Proof.
  induction l as [|y l IH]; intros a; cbn [fold_left].
  - split; [left; reflexivity|]. split; [lra | intros x []].
  - destruct (IH (qmax2 a y)) as [H1 [H2 H3]].
    assert (Hm : a <= qmax2 a y /\ y <= qmax2 a y /\ (qmax2 a y = a \/ qmax2 a y = y)).
    { unfold qmax2. destruct (Qle_bool y a) eqn:E.
      - apply Qle_bool_iff in E. repeat split; [lra | exact E | left; reflexivity].
      - assert (~ y <= a) by (intros H; apply Qle_bool_iff in H; congruence).
        assert (a < y) by (apply Qnot_le_lt; assumption). repeat split; [lra | lra | right; reflexivity]. }
    destruct Hm as [Ha [Hy Hc]]. split; [|split].
    + destruct H1 as [H1|H1]; [|right; right; exact H1].
      rewrite H1. destruct Hc as [Hc|Hc]; [left; exact Hc | right; left; symmetry; exact Hc].
    + lra.
    + intros x [<-|Hx]; [lra | apply H3; exact Hx].
Qed.

(* min / max of the outer layer: a member of the group that bounds all members *)
Theorem qmin_list_spec l : l <> [] -> In (qmin_list l) l /\ forall x, In x l -> qmin_list l <= x.
Proof.
  destruct l as [|a l]; [congruence|]. intros _. unfold qmin_list.
  destruct (fold_qmin_spec l a) as [H1 [H2 H3]]. split.
  - destruct H1 as [H1|H1]; [left; symmetry; exact H1 | right; exact H1].
  - intros x [<-|Hx]; [exact H2 | apply H3; exact Hx].
Qed.

Theorem qmax_list_spec l : l <> [] -> In (qmax_list l) l /\ forall x, In x l -> x <= qmax_list l.
Proof.
  destruct l as [|a l]; [congruence|]. intros _. unfold qmax_list.
  destruct (fold_qmax_spec l a) as [H1 [H2 H3]]. split.
  - destruct H1 as [H1|H1]; [left; symmetry; exact H1 | right; exact H1].
  - intros x [<-|Hx]; [exact H2 | apply H3; exact Hx].
Qed.

Lemma qsum_bounds l lo hi : (forall x, In x l -> lo <= x <= hi) ->
  inject_Z (Z.of_nat (length l)) * lo <= qsum l <= inject_Z (Z.of_nat (length l)) * hi.
Proof.
  induction l as [|x l IH]; intros H.
  - change (inject_Z (Z.of_nat (length (@nil Q)))) with 0. unfold qsum. cbn [fold_left]. lra.
  - assert (Hx := H x (or_introl eq_refl)).
    assert (Hl := IH (fun y Hy => H y (or_intror Hy))).
    rewrite qsum_cons. cbn [length]. rewrite Nat2Z.inj_succ. unfold Z.succ. rewrite inject_Z_plus.
    change (inject_Z 1) with 1. lra.
Qed.

(* the members of output group [gid] in the lower layer's result, and their samples at t *)
Definition layer2_members (fields : list str) (without : bool) (r1 : list (str * list (Z * Q))) (gid : str) :=
  filter (fun e => str_eqb (agg_series_id (fst e) fields without) gid) r1.

Lemma layer2_vals_members fields wo r1 gid t :
  layer2_vals fields wo r1 gid t = flat_map (fun e => sample_at t (snd e)) (layer2_members fields wo r1 gid).
Proof.
  unfold layer2_vals, layer2_members. induction r1 as [|e r IH]; cbn [flat_map filter]; [reflexivity|].
  destruct (str_eqb (agg_series_id (fst e) fields wo) gid); cbn [flat_map]; rewrite IH; reflexivity.
Qed.

(* per output group and timestamp the outer aggregation is the aggregate of the samples of the member series
   of the LOWER LAYER'S RESULT (whatever that result is) *)
Theorem layer2_is_group_fold name fn fields wo r1 gid t :
  fn <> ACount ->
  layer2_at name fn fields wo r1 gid t =
  match flat_map (fun e => sample_at t (snd e)) (layer2_members fields wo r1 gid) with
  | [] => None
  | vs => Some (reduce_q fn vs)
  end.
Proof.
  intros Hf. unfold layer2_at. rewrite <- layer2_vals_members.
  destruct fn; try congruence; destruct fields; reflexivity.
Qed.

Theorem layer2_count_is_members name fields wo r1 gid t :
  fields <> [] ->
  layer2_at name ACount fields wo r1 gid t =
  match flat_map (fun e => sample_at t (snd e)) (layer2_members fields wo r1 gid) with
  | [] => None
  | vs => Some (inject_Z (Z.of_nat (length vs)))
  end.
Proof.
  intros Hf. unfold layer2_at. rewrite <- layer2_vals_members. destruct fields; [congruence | reflexivity].
Qed.

Theorem layer2_sum_spec vs : reduce_q ASum vs == qsum vs.
Proof. unfold reduce_q. apply Qred_correct. Qed.

Theorem layer2_avg_eq_sum_div_count name fields wo r1 gid t a :
  fields <> [] ->
  layer2_at name AAvg fields wo r1 gid t = Some a ->
  exists s c, layer2_at name ASum fields wo r1 gid t = Some s /\
              layer2_at name ACount fields wo r1 gid t = Some c /\ 0 < c /\ a == s / c.
Proof.
  intros Hf H.
  rewrite layer2_is_group_fold in H by discriminate.
  rewrite layer2_is_group_fold by discriminate. rewrite (layer2_count_is_members _ _ _ _ _ _ Hf).
  destruct (flat_map (fun e => sample_at t (snd e)) (layer2_members fields wo r1 gid)) as [|v vs]; [discriminate|].
  set (l := v :: vs) in *.
  assert (Ha : a = reduce_q AAvg l) by congruence. subst a.
  exists (reduce_q ASum l), (inject_Z (Z.of_nat (length l))).
  split; [reflexivity|]. split; [reflexivity|]. split.
  - change 0 with (inject_Z 0). rewrite <- Zlt_Qlt. unfold l. cbn [length]. lia.
  - unfold reduce_q. set (c := inject_Z (Z.of_nat (length l))).
    transitivity (qsum l / c); [apply Qred_correct|].
    apply Qdiv_comp; [symmetry; apply Qred_correct | reflexivity].
Qed.

Theorem layer2_min_le_avg_le_max name fields wo r1 gid t mn av mx :
  layer2_at name AMin fields wo r1 gid t = Some mn ->
  layer2_at name AAvg fields wo r1 gid t = Some av ->
  layer2_at name AMax fields wo r1 gid t = Some mx ->
  mn <= av <= mx.
Proof.
  rewrite !layer2_is_group_fold by discriminate.
  destruct (flat_map (fun e => sample_at t (snd e)) (layer2_members fields wo r1 gid)) as [|v vs]; [discriminate|].
  set (l := v :: vs). intros H1 H2 H3.
  assert (E1 : mn = reduce_q AMin l) by congruence.
  assert (E2 : av = reduce_q AAvg l) by congruence.
  assert (E3 : mx = reduce_q AMax l) by congruence. subst mn av mx.
  assert (Hl : l <> []) by discriminate.
  destruct (qmin_list_spec l Hl) as [_ Hmin]. destruct (qmax_list_spec l Hl) as [_ Hmax].
  assert (Hb := qsum_bounds l (qmin_list l) (qmax_list l) (fun x Hx => conj (Hmin x Hx) (Hmax x Hx))).
  assert (Hc : 0 < inject_Z (Z.of_nat (length l))).
  { change 0 with (inject_Z 0). rewrite <- Zlt_Qlt. unfold l. cbn [length]. lia. }
  unfold reduce_q. set (c := inject_Z (Z.of_nat (length l))) in *.
  assert (Ea : Qred (qsum l / c) == qsum l / c) by apply Qred_correct.
  rewrite Ea. split.
  - apply Qle_shift_div_l; [exact Hc|]. lra.
  - apply Qle_shift_div_r; [exact Hc|]. lra.
Qed.

(* ---------- group keys of the outer layer: extraction from the inner layer's OUTPUT id ----------
   The output id of "by" has no trailing comma: name{k1:v1,k2:v2 *)
Close Scope Q_scope.
Open Scope N_scope.

Definition by_id (name : str) (ls : labels) : str := name ++ c_lbrace :: join c_comma (map pair_str ls).

Lemma join_pairs_comma ls : ls <> [] -> join c_comma (map pair_str ls) ++ [c_comma] = body ls.
Proof.
  induction ls as [|p ls IH]; [congruence|]. intros _. rewrite body_cons.
  destruct ls as [|q r].
  - cbn [map join]. reflexivity.
  - change (join c_comma (map pair_str (p :: q :: r))) with (pair_str p ++ c_comma :: join c_comma (map pair_str (q :: r))).
    rewrite <- app_assoc. cbn [app]. rewrite IH by discriminate. reflexivity.
Qed.

Lemma render_is_by_id name ls : ls <> [] -> render_id name ls = by_id name ls ++ [c_comma].
Proof.
  intros H. unfold render_id, by_id. rewrite <- (join_pairs_comma ls H), <- app_assoc. reflexivity.
Qed.

Lemma is_prefix_snoc c s : forall p, (p = [] \/ exists q d, p = q ++ [d] /\ d <> c) ->
  is_prefix p (s ++ [c]) = is_prefix p s.
Proof.
  induction s as [|y s IH]; intros p Hp.
  - destruct p as [|x p']; [reflexivity|]. cbn [app is_prefix].
    destruct Hp as [Hp|[q [d [Hp Hd]]]]; [discriminate|].
    destruct p' as [|x' p'']; [|rewrite andb_false_r; reflexivity].
    destruct q as [|a q']; [|destruct q'; discriminate].
    cbn in Hp. injection Hp as ->. rewrite andb_true_r. apply N.eqb_neq. exact Hd.
  - destruct p as [|x p']; [reflexivity|]. cbn [app is_prefix]. f_equal. apply IH.
    destruct Hp as [Hp|[q [d [Hp Hd]]]]; [discriminate|].
    destruct q as [|a q']; [left; cbn in Hp; congruence|].
    right. exists q', d. cbn in Hp. split; [congruence | exact Hd].
Qed.

Lemma is_prefix_length p : forall s, is_prefix p s = true -> (length p <= length s)%nat.
Proof.
  induction p as [|x p IH]; intros s H; [cbn; lia|]. destruct s as [|y s]; [discriminate|].
  cbn in H. apply andb_true_iff in H. destruct H as [_ H]. apply IH in H. cbn. lia.
Qed.

Lemma skipn_snoc {A} (n : nat) (l : list A) c : (n <= length l)%nat -> skipn n (l ++ [c]) = skipn n l ++ [c].
Proof. revert l. induction n as [|n IH]; intros l H; [reflexivity|]. destruct l; cbn in *; [lia|]. apply IH. lia. Qed.

Lemma find_sub_snoc pat c : (exists q d, pat = q ++ [d] /\ d <> c) -> forall s,
  find_sub pat (s ++ [c]) = match find_sub pat s with Some (b, a) => Some (b, a ++ [c]) | None => None end.
Proof.
  intros Hp. assert (Hp' : pat = [] \/ exists q d, pat = q ++ [d] /\ d <> c) by (right; exact Hp).
  assert (Hne : is_prefix pat [] = false).
  { destruct Hp as [q [d [-> _]]]. destruct q; reflexivity. }
  induction s as [|y s IH].
  - cbn [app]. rewrite find_sub_cons. pose proof (is_prefix_snoc c [] pat Hp') as E. cbn [app] in E. rewrite E, Hne.
    cbn [find_sub]. rewrite Hne. reflexivity.
  - cbn [app]. rewrite !find_sub_cons.
    pose proof (is_prefix_snoc c (y :: s) pat Hp') as E. cbn [app] in E. rewrite E.
    destruct (is_prefix pat (y :: s)) eqn:Ep.
    + f_equal. f_equal. change (y :: s ++ [c]) with ((y :: s) ++ [c]). apply skipn_snoc. apply is_prefix_length. exact Ep.
    + rewrite IH. destruct (find_sub pat s) as [[b a]|]; reflexivity.
Qed.

Lemma upto_snoc c a : upto c (a ++ [c]) = upto c a.
Proof.
  unfold upto. induction a as [|y a IH]; cbn [app split2].
  - rewrite N.eqb_refl. reflexivity.
  - destruct (y =? c); [reflexivity|].
    destruct (split2 c (a ++ [c])) as [u v], (split2 c a) as [u' v']. cbn [fst] in *. congruence.
Qed.

(* a trailing comma does not change what the search for "field:" finds *)
Lemma extract_field_snoc id f : extract_field (id ++ [c_comma]) f = extract_field id f.
Proof.
  unfold extract_field. rewrite find_sub_snoc.
  - destruct (find_sub (f ++ [c_colon]) id) as [[b a]|]; [|reflexivity]. rewrite upto_snoc. reflexivity.
  - exists f, c_colon. split; [reflexivity | discriminate].
Qed.

(* the OUTER layer cuts its group key out of the inner layer's output id: exact under the same guard *)
Theorem group_key_extraction_from_by_id name ls f :
  extract_guard name ls f = true -> extract_field (by_id name ls) f = lookup f ls.
Proof.
  intros G. destruct ls as [|p ls'] eqn:E.
  - change (by_id name []) with (render_id name []). apply group_key_extraction_guarded. exact G.
  - rewrite <- E in *. rewrite <- extract_field_snoc, <- render_is_by_id by (rewrite E; discriminate).
    apply group_key_extraction_guarded. exact G.
Qed.

Lemma join_no_lbrace ls : labels_clean ls = true -> has_byte c_lbrace (join c_comma (map pair_str ls)) = false.
Proof.
  intros H. destruct ls as [|p ls'] eqn:E; [reflexivity|]. rewrite <- E in *.
  pose proof (body_no_lbrace ls H) as Hb. rewrite <- (join_pairs_comma ls) in Hb by (rewrite E; discriminate).
  rewrite has_byte_app in Hb. apply orb_false_iff in Hb. tauto.
Qed.

Lemma metric_of_by_id name ls : clean name = true -> labels_clean ls = true -> metric_of_id (by_id name ls) = name.
Proof.
  intros Hn Hl. unfold metric_of_id, by_id.
  rewrite split_on_app by apply (clean_bytes _ Hn).
  rewrite split_on_clean by (apply join_no_lbrace; exact Hl). reflexivity.
Qed.

Theorem by_fields_of_by_id name ls fields : fields <> [] ->
  forallb (extract_guard name ls) fields = true ->
  agg_series_id (by_id name ls) fields false = by_id name (by_labels ls fields).
Proof.
  intros Hne Hg. unfold agg_series_id. destruct fields as [|f0 fs] eqn:Ef; [congruence|]. rewrite <- Ef in *.
  assert (Hcl : clean name = true /\ labels_clean ls = true).
  { rewrite Ef in Hg. cbn [forallb] in Hg. rewrite andb_true_iff in Hg. destruct Hg as [Hg _].
    unfold extract_guard in Hg. rewrite !andb_true_iff in Hg. tauto. }
  rewrite metric_of_by_id by tauto. unfold by_id at 2. f_equal. f_equal. f_equal.
  clear Hne Ef. unfold extract_pairs, by_labels. induction fields as [|f fields IH]; [reflexivity|].
  cbn [forallb] in Hg. rewrite andb_true_iff in Hg. destruct Hg as [Hf Hg].
  cbn [flat_map]. rewrite map_app, (IH Hg), (group_key_extraction_from_by_id name ls f Hf).
  destruct (lookup f ls); reflexivity.
Qed.

Lemma lookup_by_labels ls f : forall L,
  lookup f (by_labels ls L) = if mem_str f L then lookup f ls else None.
Proof.
  induction L as [|x L IH]; [reflexivity|]. unfold by_labels. cbn [flat_map mem_str]. fold (by_labels ls L).
  destruct (lookup x ls) as [v|] eqn:Ex; cbn [app lookup].
  - destruct (str_eqb x f) eqn:E; cbn [orb]; [apply str_eqb_eq in E; subst x; symmetry; exact Ex | exact IH].
  - rewrite IH. destruct (str_eqb x f) eqn:E; cbn [orb]; [|reflexivity].
    apply str_eqb_eq in E. subst x. rewrite Ex. destruct (mem_str f L); reflexivity.
Qed.

Lemma by_labels_cons ls f L :
  by_labels ls (f :: L) = match lookup f ls with Some v => [(f, v)] | None => [] end ++ by_labels ls L.
Proof. reflexivity. Qed.

Lemma by_labels_twice ls L1 : forall L2,
  by_labels (by_labels ls L1) L2 = by_labels ls (filter (fun f => mem_str f L1) L2).
Proof.
  induction L2 as [|f L2 IH]; [reflexivity|]. rewrite by_labels_cons, lookup_by_labels, IH. cbn [filter].
  destruct (mem_str f L1); [rewrite by_labels_cons; reflexivity | reflexivity].
Qed.

(* nesting two by-clauses: the outer clause applied to the inner clause's output id keeps exactly the labels of
   the outer list that the inner list kept ("sum by (a) (max by (a,b) (m))": {a}; "sum by (c) (max by (a,b) (m))": {}) *)
Theorem by_of_by_composition name ls L1 L2 : L1 <> [] -> L2 <> [] ->
  forallb (extract_guard name ls) L1 = true ->
  forallb (extract_guard name (by_labels ls L1)) L2 = true ->
  agg_series_id (agg_series_id (render_id name ls) L1 false) L2 false =
  by_id name (by_labels ls (filter (fun f => mem_str f L1) L2)).
Proof.
  intros H1 H2 G1 G2. rewrite (by_fields_spec name ls L1 H1 G1).
  change (name ++ c_lbrace :: join c_comma (map pair_str (by_labels ls L1))) with (by_id name (by_labels ls L1)).
  rewrite (by_fields_of_by_id name _ L2 H2 G2), by_labels_twice. reflexivity.
Qed.

(* ---------- witnesses ---------- *)
Definition w_db3 : list series :=
  [ {| s_name := w_m; s_labels := [(w_a, [120]); (w_b, [49])]; s_chunks := [[(10, 60)]%Z] |};
    {| s_name := w_m; s_labels := [(w_a, [120]); (w_b, [50])]; s_chunks := [[(10, 120)]%Z] |};
    {| s_name := w_m; s_labels := [(w_a, [121]); (w_b, [49])]; s_chunks := [[(10, 180)]%Z] |} ].
(* sum by (a) (max by (a, b) (m)) : label a is named in both clauses *)
Definition w_nq : nquery :=
  {| n_f2 := ASum; n_g2 := GBy [w_a]; n_f1 := AMax; n_g1 := GBy [w_a; w_b]; n_name := w_m; n_ms := [] |}.

Example nest_guard_nonvacuous : nest_guard w_nq w_db3 = true.
Proof. vm_compute. reflexivity. Qed.

(* three key=* filters (a, a, b), two kept, NO value filter; the answer is the PromQL answer *)
Example nest_repeated_label_witness :
  let rm := fun _ _ : str => false in
  map f_key (nest_filters w_nq) = [w_a; w_a; w_b] /\
  fst (reorder (nest_filters w_nq)) = [] /\
  map f_key (snd (reorder (nest_filters w_nq))) = [w_a; w_b] /\
  run_nest rm w_nq w_db3 = [([109; 123; 97; 58; 120], [(10%Z, 180%Q)]); ([109; 123; 97; 58; 121], [(10%Z, 180%Q)])].
Proof. vm_compute. repeat split; reflexivity. Qed.

Example extract_guard_by_id_nonvacuous :
  extract_guard w_m (by_labels [(w_a, [120]); (w_b, [49])] [w_a; w_b]) w_a = true /\
  agg_series_id (agg_series_id (render_id w_m [(w_a, [120]); (w_b, [49])]) [w_a; w_b] false) [w_a] false = [109; 123; 97; 58; 120].
Proof. vm_compute. split; reflexivity. Qed.

(* PromqlProofs.v — lemmas and main theorems about the PromQL model (C09). *)
From Coq Require Import Lia ZifyN ZifyNat ZifyBool QArith Permutation.
From SigM Require Import Base Promql.
From SigP Require Import BaseProofs.
Open Scope Z_scope.

(* ---------- strings ---------- *)
Lemma str_eqb_eq a : forall b, str_eqb a b = true <-> a = b.
Proof.
  unfold str_eqb. induction a as [|x a IH]; intros [|y b]; cbn; try (split; [discriminate|discriminate]); try tauto.
  rewrite andb_true_iff, N.eqb_eq, IH. split; [intros [-> ->]; reflexivity | intros H; inversion H; auto].
Qed.
Lemma str_eqb_refl a : str_eqb a a = true.
Proof. apply str_eqb_eq; reflexivity. Qed.
Lemma str_eqb_neq a b : str_eqb a b = false <-> a <> b.
Proof. rewrite <- str_eqb_eq. destruct (str_eqb a b); split; congruence. Qed.

(* ---------- sums, minima, maxima ---------- *)
Lemma fold_add l : forall a, fold_left Z.add l a = a + zsum l.
Proof.
  unfold zsum. induction l as [|x l IH]; intros a; cbn; [lia|].
  rewrite IH, (IH x). lia.
Qed.
Lemma zsum_cons x l : zsum (x :: l) = x + zsum l.
Proof. unfold zsum at 1. cbn. apply fold_add. Qed.
Lemma zsum_app a b : zsum (a ++ b) = zsum a + zsum b.
Proof. induction a as [|x a IH]; cbn [app]; [reflexivity|]. rewrite !zsum_cons, IH. lia. Qed.
Lemma zsum_nil : zsum [] = 0. Proof. reflexivity. Qed.

Lemma fold_min_spec l : forall a,
  let m := fold_left Z.min l a in (m = a \/ In m l) /\ m <= a /\ forall x, In x l -> m <= x.
Proof.
  induction l as [|y l IH]; intros a; cbn.
  - split; [auto|]. split; [lia|]. tauto.
  - destruct (IH (Z.min a y)) as [H1 [H2 H3]]. split; [|split].
    + destruct H1 as [H1|H1]; [|auto]. rewrite H1. destruct (Z.min_spec a y) as [[_ ->]|[_ ->]]; auto.
    + lia.
    + intros x [<-|Hx]; [lia | auto].
Qed.
Lemma fold_max_spec l : forall a,
  let m := fold_left Z.max l a in (m = a \/ In m l) /\ a <= m /\ forall x, In x l -> x <= m.
Proof.
  induction l as [|y l IH]; intros a; cbn.
  - split; [auto|]. split; [lia|]. tauto.
  - destruct (IH (Z.max a y)) as [H1 [H2 H3]]. split; [|split].
    + destruct H1 as [H1|H1]; [|auto]. rewrite H1. destruct (Z.max_spec a y) as [[_ ->]|[_ ->]]; auto.
    + lia.
    + intros x [<-|Hx]; [lia | auto].
Qed.

Lemma zmin_spec l : l <> [] -> In (zmin_list l) l /\ forall x, In x l -> zmin_list l <= x.
Proof.
  destruct l as [|a l]; [congruence|]. intros _. cbn [zmin_list].
  destruct (fold_min_spec l a) as [H1 [H2 H3]]. split.
  - destruct H1 as [->|H1]; [left; reflexivity | right; exact H1].
  - intros x [<-|Hx]; auto.
Qed.
Lemma zmax_spec l : l <> [] -> In (zmax_list l) l /\ forall x, In x l -> x <= zmax_list l.
Proof.
  destruct l as [|a l]; [congruence|]. intros _. cbn [zmax_list].
  destruct (fold_max_spec l a) as [H1 [H2 H3]]. split.
  - destruct H1 as [->|H1]; [left; reflexivity | right; exact H1].
  - intros x [<-|Hx]; auto.
Qed.
Lemma zmin_unique l m : In m l -> (forall x, In x l -> m <= x) -> zmin_list l = m.
Proof.
  intros Hin Hle. assert (Hne : l <> []) by (destruct l; [destruct Hin | congruence]).
  destruct (zmin_spec l Hne) as [H1 H2]. specialize (H2 m Hin). specialize (Hle _ H1). lia.
Qed.
Lemma zmax_unique l m : In m l -> (forall x, In x l -> x <= m) -> zmax_list l = m.
Proof.
  intros Hin Hle. assert (Hne : l <> []) by (destruct l; [destruct Hin | congruence]).
  destruct (zmax_spec l Hne) as [H1 H2]. specialize (H2 m Hin). specialize (Hle _ H1). lia.
Qed.

Lemma zsum_perm l l' : Permutation l l' -> zsum l = zsum l'.
Proof. induction 1; rewrite ?zsum_cons; lia. Qed.
Lemma zmin_perm l l' : Permutation l l' -> zmin_list l = zmin_list l'.
Proof.
  intros P. destruct l as [|a l].
  - apply Permutation_nil in P. subst. reflexivity.
  - assert (Hne : l' <> []) by (intros ->; apply Permutation_sym, Permutation_nil in P; discriminate).
    destruct (zmin_spec l' Hne) as [H1 H2]. apply zmin_unique.
    + eapply Permutation_in; [apply Permutation_sym, P | exact H1].
    + intros x Hx. apply H2. eapply Permutation_in; eauto.
Qed.
Lemma zmax_perm l l' : Permutation l l' -> zmax_list l = zmax_list l'.
Proof.
  intros P. destruct l as [|a l].
  - apply Permutation_nil in P. subst. reflexivity.
  - assert (Hne : l' <> []) by (intros ->; apply Permutation_sym, Permutation_nil in P; discriminate).
    destruct (zmax_spec l' Hne) as [H1 H2]. apply zmax_unique.
    + eapply Permutation_in; [apply Permutation_sym, P | exact H1].
    + intros x Hx. apply H2. eapply Permutation_in; eauto.
Qed.

(* n * min <= sum <= n * max *)
Lemma sum_bounds l lo hi : (forall x, In x l -> lo <= x <= hi) ->
  lo * Z.of_nat (length l) <= zsum l <= hi * Z.of_nat (length l).
Proof.
  induction l as [|x l IH]; intros H; [unfold zsum; cbn; lia|].
  rewrite zsum_cons. cbn [length]. specialize (H x (or_introl eq_refl)) as Hx.
  assert (IH' := IH (fun y Hy => H y (or_intror Hy))). lia.
Qed.

(* ---------- the aggregation stage ---------- *)
(* the selected series that fall into output group gid *)
Definition members (fields : list str) (without : bool) (db : list series) (tr : tracker) (gid : str) : list (list pt) :=
  flat_map (fun e => if str_eqb (agg_series_id (snd e) fields without) gid then [nth_series db (fst e)] else []) tr.

Definition member_vals (ms : list (list pt)) (t : Z) : list Z := flat_map (vals_at t) ms.

Definition entries_of (fn : aggfn) (ms : list (list pt)) (t : Z) : list (Z * Z) :=
  flat_map (fun pts => series_entry fn pts t) ms.

Lemma gid_entries_members fn fields without db tr gid t :
  gid_entries fn fields without db tr gid t = entries_of fn (members fields without db tr gid) t.
Proof.
  unfold gid_entries, entries_of, members. induction tr as [|e tr IH]; [reflexivity|].
  cbn [flat_map]. rewrite flat_map_app, IH. f_equal.
  destruct (str_eqb _ gid); cbn; [rewrite app_nil_r|]; reflexivity.
Qed.

Lemma series_entry_cases fn pts t :
  (vals_at t pts = [] /\ series_entry fn pts t = []) \/
  (vals_at t pts <> [] /\ series_entry fn pts t = [ds_entry fn (vals_at t pts)]).
Proof. unfold series_entry. destruct (vals_at t pts); [left | right]; split; congruence. Qed.

Lemma entries_nil_iff fn ms t : entries_of fn ms t = [] <-> member_vals ms t = [].
Proof.
  unfold entries_of, member_vals. induction ms as [|p ms IH]; cbn [flat_map]; [tauto|].
  destruct (series_entry_cases fn p t) as [[E1 E2]|[E1 E2]]; rewrite E2.
  - rewrite E1. cbn. exact IH.
  - split; [discriminate|]. intros H. apply app_eq_nil in H. tauto.
Qed.

Lemma entries_counts fn ms t : zsum (map snd (entries_of fn ms t)) = Z.of_nat (length (member_vals ms t)).
Proof.
  unfold entries_of, member_vals. induction ms as [|p ms IH]; [reflexivity|].
  cbn [flat_map]. rewrite map_app, zsum_app, app_length, IH.
  destruct (series_entry_cases fn p t) as [[E1 E2]|[E1 E2]]; rewrite E2.
  - rewrite E1. cbn [map length]. rewrite zsum_nil. lia.
  - cbn [map]. rewrite zsum_cons, zsum_nil. unfold ds_entry. cbn [snd length]. lia.
Qed.

Lemma entries_sums fn ms t : fn = ASum \/ fn = AAvg ->
  zsum (map fst (entries_of fn ms t)) = zsum (member_vals ms t).
Proof.
  intros Hfn. unfold entries_of, member_vals. induction ms as [|p ms IH]; [reflexivity|].
  cbn [flat_map]. rewrite map_app, !zsum_app, IH. f_equal.
  destruct (series_entry_cases fn p t) as [[E1 E2]|[E1 E2]]; rewrite E2.
  - rewrite E1. reflexivity.
  - cbn [map]. rewrite zsum_cons, zsum_nil. unfold ds_entry. destruct Hfn as [-> | ->]; cbn [fst]; lia.
Qed.

Lemma in_entries fn ms t e : In e (entries_of fn ms t) <->
  exists pts, In pts ms /\ vals_at t pts <> [] /\ e = ds_entry fn (vals_at t pts).
Proof.
  unfold entries_of. rewrite in_flat_map. split.
  - intros [p [Hp He]]. exists p. split; [exact Hp|].
    destruct (series_entry_cases fn p t) as [[E1 E2]|[E1 E2]]; rewrite E2 in He; [destruct He|].
    destruct He as [<-|[]]. auto.
  - intros [p [Hp [Hne ->]]]. exists p. split; [exact Hp|].
    destruct (series_entry_cases fn p t) as [[E1 E2]|[E1 E2]]; [congruence|]. rewrite E2. left; reflexivity.
Qed.

Lemma in_member_vals ms t x : In x (member_vals ms t) <-> exists pts, In pts ms /\ In x (vals_at t pts).
Proof. unfold member_vals. apply in_flat_map. Qed.

Lemma entries_min ms t : member_vals ms t <> [] ->
  zmin_list (map fst (entries_of AMin ms t)) = zmin_list (member_vals ms t).
Proof.
  intros Hne. destruct (zmin_spec _ Hne) as [Hin Hle]. apply zmin_unique.
  - apply in_member_vals in Hin. destruct Hin as [p [Hp Hx]].
    assert (Hpne : vals_at t p <> []) by (intros E; rewrite E in Hx; destruct Hx).
    destruct (zmin_spec _ Hpne) as [Hpin Hple].
    assert (E : zmin_list (vals_at t p) = zmin_list (member_vals ms t)).
    { specialize (Hple _ Hx). assert (In (zmin_list (vals_at t p)) (member_vals ms t)) by (apply in_member_vals; eauto).
      specialize (Hle _ H). lia. }
    rewrite <- E. apply in_map_iff. exists (ds_entry AMin (vals_at t p)). split; [reflexivity|].
    apply in_entries. eauto.
  - intros x Hx. apply in_map_iff in Hx. destruct Hx as [e [<- He]]. apply in_entries in He.
    destruct He as [p [Hp [Hpne ->]]]. cbn [ds_entry fst]. apply Hle. apply in_member_vals. exists p. split; [exact Hp|].
    apply (zmin_spec _ Hpne).
Qed.

Lemma entries_max ms t : member_vals ms t <> [] ->
  zmax_list (map fst (entries_of AMax ms t)) = zmax_list (member_vals ms t).
Proof.
  intros Hne. destruct (zmax_spec _ Hne) as [Hin Hle]. apply zmax_unique.
  - apply in_member_vals in Hin. destruct Hin as [p [Hp Hx]].
    assert (Hpne : vals_at t p <> []) by (intros E; rewrite E in Hx; destruct Hx).
    destruct (zmax_spec _ Hpne) as [Hpin Hple].
    assert (E : zmax_list (vals_at t p) = zmax_list (member_vals ms t)).
    { specialize (Hple _ Hx). assert (In (zmax_list (vals_at t p)) (member_vals ms t)) by (apply in_member_vals; eauto).
      specialize (Hle _ H). lia. }
    rewrite <- E. apply in_map_iff. exists (ds_entry AMax (vals_at t p)). split; [reflexivity|].
    apply in_entries. eauto.
  - intros x Hx. apply in_map_iff in Hx. destruct Hx as [e [<- He]]. apply in_entries in He.
    destruct He as [p [Hp [Hpne ->]]]. cbn [ds_entry fst]. apply Hle. apply in_member_vals. exists p. split; [exact Hp|].
    apply (zmax_spec _ Hpne).
Qed.

Lemma of_nat_pos n : (0 < n)%nat -> Z.of_nat n = Zpos (Pos.of_nat n).
Proof. intros H. destruct n; [lia|]. rewrite <- Pos.of_nat_succ. reflexivity. Qed.

(* two-level reduction (per series, then across the series of the group) = one fold over all member samples *)
Lemma reduce_is_fold fn ms t : fn <> ACount -> member_vals ms t <> [] ->
  reduce_running fn (entries_of fn ms t) = spec_agg fn (member_vals ms t).
Proof.
  intros Hfn Hne. destruct fn; try congruence; cbn [reduce_running spec_agg].
  - rewrite entries_sums by auto. reflexivity.
  - rewrite entries_min by exact Hne. reflexivity.
  - rewrite entries_max by exact Hne. reflexivity.
  - rewrite entries_counts, entries_sums by auto.
    destruct (member_vals ms t) as [|v vs] eqn:E; [congruence|].
    rewrite of_nat_pos by (cbn; lia). reflexivity.
Qed.

(* the members of the group that have a sample at t (what PromQL's count counts) *)
Definition with_sample (ms : list (list pt)) (t : Z) : list (list pt) :=
  filter (fun pts => match vals_at t pts with [] => false | _ => true end) ms.

Lemma entries_length fn ms t : length (entries_of fn ms t) = length (with_sample ms t).
Proof.
  unfold entries_of, with_sample. induction ms as [|p ms IH]; [reflexivity|].
  cbn [flat_map filter]. rewrite app_length, IH.
  destruct (series_entry_cases fn p t) as [[E1 E2]|[E1 E2]]; rewrite E2.
  - rewrite E1. reflexivity.
  - destruct (vals_at t p); [congruence|]. reflexivity.
Qed.

(* per output group and timestamp the answer is the fold of the member series' samples *)
Theorem agg_is_group_fold name fn fields without db tr gid t :
  fn <> ACount ->
  agg_at name fn fields without db tr gid t =
  match member_vals (members fields without db tr gid) t with
  | [] => None
  | vs => Some (spec_agg fn vs)
  end.
Proof.
  intros Hfn. unfold agg_at. rewrite gid_entries_members.
  set (ms := members fields without db tr gid).
  assert (H : match entries_of fn ms t with [] => None | es => Some (reduce_running fn es) end =
              match member_vals ms t with [] => None | vs => Some (spec_agg fn vs) end).
  { destruct (member_vals ms t) as [|v vs] eqn:E.
    - rewrite (proj2 (entries_nil_iff fn ms t) E). reflexivity.
    - assert (Hne : member_vals ms t <> []) by congruence.
      destruct (entries_of fn ms t) eqn:E2; [apply (proj1 (entries_nil_iff fn ms t)) in E2; congruence|].
      rewrite <- E2, <- E. f_equal. apply reduce_is_fold; assumption. }
  destruct fn; try congruence; destruct fields; exact H.
Qed.

(* count with a grouping clause: the number of member series that have a sample at t *)
Theorem agg_count_is_members name fields without db tr gid t :
  fields <> [] ->
  agg_at name ACount fields without db tr gid t =
  match with_sample (members fields without db tr gid) t with
  | [] => None
  | l => Some (inject_Z (Z.of_nat (length l)))
  end.
Proof.
  intros Hf. unfold agg_at. destruct fields as [|f fs]; [congruence|].
  rewrite gid_entries_members. set (ms := members (f :: fs) without db tr gid).
  pose proof (entries_length ACount ms t) as L.
  destruct (entries_of ACount ms t) eqn:E1; destruct (with_sample ms t) eqn:E2; cbn in L; try lia; [reflexivity|].
  rewrite <- E1. rewrite (entries_length ACount ms t), E2. reflexivity.
Qed.

(* ---------- relations between the aggregation functions (same selected series, same grouping) ---------- *)
Lemma member_vals_length_one ms t :
  forallb (fun pts => Nat.leb (length (vals_at t pts)) 1) ms = true ->
  length (member_vals ms t) = length (with_sample ms t).
Proof.
  unfold member_vals, with_sample. induction ms as [|p ms IH]; [reflexivity|].
  cbn [forallb flat_map filter]. rewrite andb_true_iff, Nat.leb_le. intros [H1 H2].
  rewrite app_length, (IH H2). destruct (vals_at t p) as [|v [|w r]]; cbn in *; lia.
Qed.

Lemma with_sample_nil_iff ms t : with_sample ms t = [] <-> member_vals ms t = [].
Proof.
  unfold member_vals, with_sample. induction ms as [|p ms IH]; cbn [flat_map filter]; [tauto|].
  destruct (vals_at t p) eqn:E; cbn [app]; [exact IH|]. split; discriminate.
Qed.

Lemma avg_div (s : Z) (p : positive) : (Qmake s p == inject_Z s / inject_Z (Zpos p))%Q.
Proof. unfold Qeq, Qdiv, Qmult, Qinv, inject_Z; cbn [Qnum Qden]. lia. Qed.

(* avg = sum / count.  Data hypothesis: a series has at most one sample per second (what PromQL data
   looks like; with the 1 s step of a 300 s window a down-sampling bucket then holds one sample). *)
Theorem avg_eq_sum_div_count name fields without db tr gid t a :
  forallb (fun pts => Nat.leb (length (vals_at t pts)) 1) (members fields without db tr gid) = true ->
  agg_at name AAvg fields without db tr gid t = Some a ->
  exists s c, agg_at name ASum fields without db tr gid t = Some s /\
              c = inject_Z (Z.of_nat (length (with_sample (members fields without db tr gid) t))) /\
              (fields <> [] -> agg_at name ACount fields without db tr gid t = Some c) /\
              (~ c == 0)%Q /\ (a == s / c)%Q.
Proof.
  intros H1 Ha. rewrite agg_is_group_fold in Ha by discriminate.
  set (ms := members fields without db tr gid) in *.
  destruct (member_vals ms t) as [|v vs] eqn:E; [discriminate|]. injection Ha as <-.
  exists (inject_Z (zsum (v :: vs))), (inject_Z (Z.of_nat (length (with_sample ms t)))).
  pose proof (member_vals_length_one ms t H1) as L. rewrite E in L.
  split; [|split; [reflexivity|split; [|split]]].
  - rewrite agg_is_group_fold by discriminate. fold ms. rewrite E. reflexivity.
  - intros Hf. rewrite agg_count_is_members by exact Hf. fold ms.
    destruct (with_sample ms t) eqn:E2; [cbn in L; lia | reflexivity].
  - rewrite <- L. rewrite of_nat_pos by (cbn; lia). unfold Qeq, inject_Z; cbn [Qnum Qden]. lia.
  - rewrite <- L. rewrite of_nat_pos by (cbn; lia). apply avg_div.
Qed.

Lemma qle_lo lo s p : lo * Zpos p <= s -> (inject_Z lo <= Qmake s p)%Q.
Proof. unfold Qle, inject_Z; cbn [Qnum Qden]. lia. Qed.
Lemma qle_hi hi s p : s <= hi * Zpos p -> (Qmake s p <= inject_Z hi)%Q.
Proof. unfold Qle, inject_Z; cbn [Qnum Qden]. lia. Qed.

Lemma vals_bounds vs : vs <> [] -> forall x, In x vs -> zmin_list vs <= x <= zmax_list vs.
Proof. intros Hne x Hx. split; [apply (zmin_spec _ Hne) | apply (zmax_spec _ Hne)]; exact Hx. Qed.

Theorem min_le_avg_le_max name fields without db tr gid t mn av mx :
  agg_at name AMin fields without db tr gid t = Some mn ->
  agg_at name AAvg fields without db tr gid t = Some av ->
  agg_at name AMax fields without db tr gid t = Some mx ->
  (mn <= av)%Q /\ (av <= mx)%Q.
Proof.
  rewrite !agg_is_group_fold by discriminate.
  destruct (member_vals (members fields without db tr gid) t) as [|v vs] eqn:E; [discriminate|].
  intros H1 H2 H3. injection H1 as <-. injection H2 as <-. injection H3 as <-.
  assert (Hne : v :: vs <> []) by discriminate.
  pose proof (sum_bounds (v :: vs) _ _ (vals_bounds _ Hne)) as B.
  rewrite of_nat_pos in B by (cbn; lia).
  split; [apply qle_lo | apply qle_hi]; apply B.
Qed.

(* ---------- the selection does not depend on the aggregation function ---------- *)
Section WithRegex.
Variable rmatch : str -> str -> bool.

Lemma tracked_fn f f' g n ms db : f <> ACount -> f' <> ACount ->
  tracked rmatch (QAgg f g n ms) db = tracked rmatch (QAgg f' g n ms) db.
Proof. intros H H'. unfold tracked, flags. destruct f; destruct f'; try congruence; reflexivity. Qed.

Lemma step_filter_gal gal gal' nvf name db st f :
  step_filter rmatch false gal nvf name db st f = step_filter rmatch false gal' nvf name db st f.
Proof. unfold step_filter. destruct st as [first tr]. rewrite !andb_false_r. reflexivity. Qed.

Lemma fold_step_gal gal gal' nvf name db fs : forall st,
  fold_left (step_filter rmatch false gal nvf name db) fs st =
  fold_left (step_filter rmatch false gal' nvf name db) fs st.
Proof. induction fs as [|f fs IH]; intros st; cbn; [reflexivity|]. rewrite (step_filter_gal gal gal'). apply IH. Qed.

Lemma flags_without f g n ms : is_without g = true -> flags (QAgg f g n ms) = (true, true).
Proof. intros Hw. unfold flags. rewrite Hw. destruct (Nat.eqb (length (group_list g)) 0); destruct f; reflexivity. Qed.

Lemma flags_grouped f g n ms : group_list g <> [] -> is_without g = false ->
  flags (QAgg f g n ms) = (fst (flags (QAgg ASum g n ms)), match f with ACount => true | _ => false end).
Proof.
  intros Hg Hw. unfold flags. cbn [query_filters]. rewrite Hw.
  destruct (group_list g) eqn:E; [congruence|]. cbn [length Nat.eqb negb]. destruct f; reflexivity.
Qed.

(* with a by-clause that names at least one label, or a without-clause, count selects the same series
   (with the same id strings) as the other functions *)
Lemma tracked_count g n ms db f :
  group_list g <> [] ->
  is_without g = true \/ fst (flags (QAgg ASum g n ms)) = false ->
  tracked rmatch (QAgg ACount g n ms) db = tracked rmatch (QAgg f g n ms) db.
Proof.
  intros Hg Hc. destruct (is_without g) eqn:Hw.
  - unfold tracked. rewrite !flags_without by exact Hw. reflexivity.
  - destruct Hc as [Hc|Hc]; [discriminate|].
    unfold tracked. rewrite (flags_grouped ACount g n ms Hg Hw), (flags_grouped f g n ms Hg Hw). rewrite Hc.
    cbn [q_name query_filters].
    destruct (reorder _) as [o s]. f_equal. apply fold_step_gal.
Qed.

(* ---------- the physical layout of the datapoints does not matter ---------- *)
(* two stores hold the same series; the datapoints of each series are cut into blocks / segments
   (chunks) in any way and are read back in any order *)
Definition same_series (s1 s2 : series) : Prop :=
  s_name s1 = s_name s2 /\ s_labels s1 = s_labels s2 /\ Permutation (s_points s1) (s_points s2).

Lemma tree_vals_layout name k db1 db2 : Forall2 same_series db1 db2 ->
  forall i, tree_vals_from name k db1 i = tree_vals_from name k db2 i.
Proof.
  induction 1 as [|s1 s2 d1 d2 [Hn [Hl _]] _ IH]; intros i; cbn; [reflexivity|].
  rewrite Hn, Hl, IH. reflexivity.
Qed.

Lemma key_file_layout k db1 db2 : Forall2 same_series db1 db2 -> key_file_exists k db1 = key_file_exists k db2.
Proof.
  unfold key_file_exists. induction 1 as [|s1 s2 d1 d2 [Hn [Hl _]] _ IH]; cbn; [reflexivity|].
  unfold has_key at 1 3. rewrite Hl, IH. reflexivity.
Qed.

Lemma all_keys_layout db1 db2 : Forall2 same_series db1 db2 -> all_keys db1 = all_keys db2.
Proof.
  unfold all_keys. intros H. generalize (@nil str). induction H as [|s1 s2 d1 d2 [Hn [Hl _]] _ IH]; intros acc; cbn; [reflexivity|].
  rewrite Hl. apply IH.
Qed.

Lemma fold_left_ext {A B} (f g : A -> B -> A) l : (forall a b, f a b = g a b) -> forall a, fold_left f l a = fold_left g l a.
Proof. intros H. induction l as [|x l IH]; intros a; cbn; [reflexivity|]. rewrite H. apply IH. Qed.

Lemma tracked_layout q db1 db2 : Forall2 same_series db1 db2 -> tracked rmatch q db1 = tracked rmatch q db2.
Proof.
  intros H. unfold tracked. destruct (flags q) as [sel gal].
  unfold apply_filters. rewrite (all_keys_layout _ _ H).
  destruct (reorder _) as [o s]. f_equal. apply fold_left_ext. intros [first tr] f.
  unfold step_filter, tree_vals. rewrite (key_file_layout _ _ _ H), (tree_vals_layout _ _ _ _ H). reflexivity.
Qed.

Lemma nth_series_layout db1 db2 : Forall2 same_series db1 db2 ->
  forall i, Permutation (nth_series db1 i) (nth_series db2 i).
Proof.
  unfold nth_series. induction 1 as [|s1 s2 d1 d2 [_ [_ Hp]] _ IH]; intros [|i]; cbn; auto.
Qed.

Lemma perm_filter {A} (f : A -> bool) l l' : Permutation l l' -> Permutation (filter f l) (filter f l').
Proof.
  induction 1; cbn; auto.
  - destruct (f x); auto.
  - destruct (f x), (f y); auto. apply perm_swap.
  - eapply perm_trans; eauto.
Qed.

Lemma vals_at_perm t p1 p2 : Permutation p1 p2 -> Permutation (vals_at t p1) (vals_at t p2).
Proof. intros H. unfold vals_at. apply Permutation_map, perm_filter, H. Qed.

Lemma series_entry_perm fn t p1 p2 : Permutation p1 p2 -> series_entry fn p1 t = series_entry fn p2 t.
Proof.
  intros H. apply (vals_at_perm t) in H. unfold series_entry.
  destruct (vals_at t p1) as [|a l] eqn:E1.
  - apply Permutation_nil in H. rewrite H. reflexivity.
  - destruct (vals_at t p2) as [|b l'] eqn:E2; [apply Permutation_sym, Permutation_nil in H; discriminate|].
    f_equal. unfold ds_entry. rewrite (Permutation_length H). f_equal.
    destruct fn; auto using zsum_perm, zmin_perm, zmax_perm.
Qed.

Lemma agg_at_layout name fn fields without db1 db2 tr gid t : Forall2 same_series db1 db2 ->
  agg_at name fn fields without db1 tr gid t = agg_at name fn fields without db2 tr gid t.
Proof.
  intros H.
  assert (E : forall e : nat * str, series_entry fn (nth_series db1 (fst e)) t = series_entry fn (nth_series db2 (fst e)) t)
    by (intros e; apply series_entry_perm, nth_series_layout, H).
  assert (G : gid_entries fn fields without db1 tr gid t = gid_entries fn fields without db2 tr gid t).
  { unfold gid_entries. induction tr as [|e tr IH]; cbn; [reflexivity|]. rewrite IH, E. reflexivity. }
  assert (I : ids_with_entry fn db1 tr t = ids_with_entry fn db2 tr t).
  { unfold ids_with_entry. apply filter_ext. intros g. generalize tr at 1 2. intros tr0.
    induction tr0 as [|e tr0 IH]; cbn; [reflexivity|]. rewrite IH, E. reflexivity. }
  unfold agg_at. rewrite G, I. reflexivity.
Qed.

(* any partition of the datapoints of the series over blocks and segments gives the same answer *)
Theorem split_invariant q db1 db2 gid t : Forall2 same_series db1 db2 ->
  result_at rmatch q db1 gid t = result_at rmatch q db2 gid t.
Proof.
  intros H. unfold result_at. destruct (first_agg q) as [[fn fields] without].
  rewrite (tracked_layout q _ _ H). apply agg_at_layout, H.
Qed.

Lemma out_ids_layout q db1 db2 : Forall2 same_series db1 db2 -> out_ids rmatch q db1 = out_ids rmatch q db2.
Proof. intros H. unfold out_ids. rewrite (tracked_layout q _ _ H). reflexivity. Qed.

(* ---------- the time range of a query: datapoints are clipped one by one, in any arrival order ---------- *)
Lemma in_range_spec lo hi t : in_range lo hi t = true <-> lo <= t <= hi.
Proof. unfold in_range. rewrite andb_true_iff, !Z.leb_le. tauto. Qed.

Lemma vals_at_clip lo hi t pts :
  vals_at t (clip_pts lo hi pts) = if in_range lo hi t then vals_at t pts else [].
Proof.
  unfold vals_at, clip_pts. induction pts as [|p pts IH]; cbn [filter map].
  - destruct (in_range lo hi t); reflexivity.
  - destruct (Z.eqb (fst p) t) eqn:E.
    + apply Z.eqb_eq in E. rewrite E. destruct (in_range lo hi t) eqn:R.
      * cbn [filter]. rewrite E, Z.eqb_refl. cbn [map]. rewrite IH. reflexivity.
      * exact IH.
    + destruct (in_range lo hi (fst p)); [cbn [filter]; rewrite E|]; exact IH.
Qed.

Lemma series_entry_clip fn lo hi t pts :
  series_entry fn (clip_pts lo hi pts) t = if in_range lo hi t then series_entry fn pts t else [].
Proof. unfold series_entry. rewrite vals_at_clip. destruct (in_range lo hi t); reflexivity. Qed.

Lemma clip_pts_app lo hi a b : clip_pts lo hi (a ++ b) = clip_pts lo hi a ++ clip_pts lo hi b.
Proof. apply filter_app. Qed.

Lemma s_points_clip lo hi s : s_points (clip_series lo hi s) = clip_pts lo hi (s_points s).
Proof.
  unfold s_points. cbn [clip_series s_chunks]. induction (s_chunks s) as [|c cs IH]; [reflexivity|].
  cbn [map concat]. rewrite clip_pts_app, IH. reflexivity.
Qed.

Lemma nth_series_clip lo hi db i : nth_series (clip_db lo hi db) i = clip_pts lo hi (nth_series db i).
Proof.
  unfold nth_series, clip_db. rewrite nth_error_map. destruct (nth_error db i); cbn; [apply s_points_clip|reflexivity].
Qed.

(* the tag search reads names and labels only *)
Definition same_meta (s1 s2 : series) : Prop := s_name s1 = s_name s2 /\ s_labels s1 = s_labels s2.

Lemma tree_vals_meta name k db1 db2 : Forall2 same_meta db1 db2 ->
  forall i, tree_vals_from name k db1 i = tree_vals_from name k db2 i.
Proof.
  induction 1 as [|s1 s2 d1 d2 [Hn Hl] _ IH]; intros i; cbn; [reflexivity|].
  rewrite Hn, Hl, IH. reflexivity.
Qed.

Lemma key_file_meta k db1 db2 : Forall2 same_meta db1 db2 -> key_file_exists k db1 = key_file_exists k db2.
Proof.
  unfold key_file_exists. induction 1 as [|s1 s2 d1 d2 [Hn Hl] _ IH]; cbn; [reflexivity|].
  unfold has_key at 1 3. rewrite Hl, IH. reflexivity.
Qed.

Lemma all_keys_meta db1 db2 : Forall2 same_meta db1 db2 -> all_keys db1 = all_keys db2.
Proof.
  unfold all_keys. intros H. generalize (@nil str). induction H as [|s1 s2 d1 d2 [Hn Hl] _ IH]; intros acc; cbn; [reflexivity|].
  rewrite Hl. apply IH.
Qed.

Lemma tracked_meta q db1 db2 : Forall2 same_meta db1 db2 -> tracked rmatch q db1 = tracked rmatch q db2.
Proof.
  intros H. unfold tracked. destruct (flags q) as [sel gal].
  unfold apply_filters. rewrite (all_keys_meta _ _ H).
  destruct (reorder _) as [o s]. f_equal. apply fold_left_ext. intros [first tr] f.
  unfold step_filter, tree_vals. rewrite (key_file_meta _ _ _ H), (tree_vals_meta _ _ _ _ H). reflexivity.
Qed.

Lemma clip_db_meta lo hi db : Forall2 same_meta (clip_db lo hi db) db.
Proof. induction db as [|s db IH]; cbn; constructor; [split; reflexivity|exact IH]. Qed.

(* a series without a datapoint in the range is still found by the tag search *)
Lemma tracked_clip lo hi q db : tracked rmatch q (clip_db lo hi db) = tracked rmatch q db.
Proof. apply tracked_meta, clip_db_meta. Qed.

Lemma agg_at_clip name fn fields without lo hi db tr gid t :
  agg_at name fn fields without (clip_db lo hi db) tr gid t =
  if in_range lo hi t then agg_at name fn fields without db tr gid t else None.
Proof.
  assert (E : forall e : nat * str, series_entry fn (nth_series (clip_db lo hi db) (fst e)) t =
                                    if in_range lo hi t then series_entry fn (nth_series db (fst e)) t else [])
    by (intros e; rewrite nth_series_clip; apply series_entry_clip).
  assert (G : gid_entries fn fields without (clip_db lo hi db) tr gid t =
              if in_range lo hi t then gid_entries fn fields without db tr gid t else []).
  { unfold gid_entries. induction tr as [|e tr IH]; cbn [flat_map]; [destruct (in_range lo hi t); reflexivity|].
    rewrite IH, E. destruct (in_range lo hi t); [reflexivity|]. destruct (str_eqb _ gid); reflexivity. }
  assert (I : ids_with_entry fn (clip_db lo hi db) tr t =
              if in_range lo hi t then ids_with_entry fn db tr t else []).
  { unfold ids_with_entry. destruct (in_range lo hi t) eqn:R.
    - apply filter_ext. intros g. generalize tr at 1 2. intros tr0.
      induction tr0 as [|e tr0 IH]; cbn [existsb]; [reflexivity|]. rewrite IH, E. reflexivity.
    - generalize (dedup_str (map snd tr)). intros l. induction l as [|g l IH]; cbn [filter]; [reflexivity|].
      assert (X : existsb (fun e : nat * str => str_eqb (snd e) g &&
                  negb (Nat.eqb (length (series_entry fn (nth_series (clip_db lo hi db) (fst e)) t)) 0)) tr = false).
      { clear G IH. induction tr as [|e tr0 IH0]; cbn [existsb]; [reflexivity|]. rewrite IH0, E. cbn. rewrite andb_false_r. reflexivity. }
      rewrite X. exact IH. }
  unfold agg_at. rewrite G, I. destruct (in_range lo hi t); [reflexivity|].
  destruct fn, fields; try reflexivity. destruct (str_eqb gid _); reflexivity.
Qed.

(* the answer over the range [lo, hi] is the answer over all data, restricted to lo <= t <= hi:
   no sample inside the range is lost, none outside is reported, whatever the arrival order of the
   datapoints and however they lie in blocks *)
Theorem range_is_restriction lo hi q db gid t :
  result_at_range rmatch lo hi q db gid t = if in_range lo hi t then result_at rmatch q db gid t else None.
Proof.
  unfold result_at_range, result_at. destruct (first_agg q) as [[fn fields] without].
  rewrite tracked_clip. apply agg_at_clip.
Qed.

Theorem range_split_invariant lo hi q db1 db2 gid t : Forall2 same_series db1 db2 ->
  result_at_range rmatch lo hi q db1 gid t = result_at_range rmatch lo hi q db2 gid t.
Proof. intros H. rewrite !range_is_restriction, (split_invariant q db1 db2 gid t H). reflexivity. Qed.

(* every reported sample lies in the range and is the sample of the unclipped answer *)
Theorem range_samples_inside lo hi q db e t v :
  In e (run_query_range rmatch lo hi q db) -> In (t, v) (snd e) ->
  lo <= t <= hi /\ result_at rmatch q db (fst e) t = Some v.
Proof.
  unfold run_query_range, run_query. intros He Hv. apply in_flat_map in He. destruct He as [gid [_ He]].
  destruct (flat_map _ _) as [|x l] eqn:El in He; [destruct He|]. destruct He as [<-|[]]. cbn [fst snd] in *.
  rewrite <- El in Hv. apply in_flat_map in Hv. destruct Hv as [t' [_ Hv]].
  fold (result_at_range rmatch lo hi q db gid t') in Hv. rewrite range_is_restriction in Hv.
  destruct (in_range lo hi t') eqn:R; [|destruct Hv].
  destruct (result_at rmatch q db gid t') eqn:Er; [|destruct Hv]. destruct Hv as [Hv|[]].
  injection Hv as <- <-. split; [apply in_range_spec, R|exact Er].
Qed.

(* ---------- selection: tag keys, filter ordering ---------- *)
Lemma mem_str_In k l : mem_str k l = true <-> In k l.
Proof.
  induction l as [|x l IH]; cbn; [split; [discriminate|tauto]|].
  rewrite orb_true_iff, IH, str_eqb_eq. tauto.
Qed.
Lemma mem_str_false k l : mem_str k l = false <-> ~ In k l.
Proof. rewrite <- mem_str_In. destruct (mem_str k l); split; congruence. Qed.

Lemma has_fkey_In k l : has_fkey k l = true <-> In k (map f_key l).
Proof.
  unfold has_fkey. rewrite existsb_exists, in_map_iff. split.
  - intros [f [Hf E]]. apply str_eqb_eq in E. eauto.
  - intros [f [E Hf]]. exists f. split; [exact Hf|]. apply str_eqb_eq. exact E.
Qed.
Lemma has_fkey_false k l : has_fkey k l = false <-> ~ In k (map f_key l).
Proof. rewrite <- has_fkey_In. destruct (has_fkey k l); split; congruence. Qed.

Lemma NoDup_app_iff_local {A} (l : list A) x : NoDup l -> ~ In x l -> NoDup (l ++ [x]).
Proof.
  induction 1 as [|y l Hy Hl IH]; intros Hx; cbn; [constructor; [tauto|constructor]|].
  constructor.
  - rewrite in_app_iff. cbn. intros [H|[H|[]]]; [tauto|]. apply Hx. left. auto.
  - apply IH. intros H. apply Hx. right. exact H.
Qed.

Lemma add_keys_spec ks : forall acc, NoDup acc ->
  NoDup (add_keys ks acc) /\ forall k, In k (add_keys ks acc) <-> In k acc \/ In k ks.
Proof.
  induction ks as [|x ks IH]; intros acc Hn; cbn; [split; [exact Hn | intros; tauto]|].
  destruct (mem_str x acc) eqn:E.
  - destruct (IH acc Hn) as [H1 H2]. split; [exact H1|]. intros k. rewrite H2.
    apply mem_str_In in E. split; [tauto|]. intros [H|[<-|H]]; auto.
  - apply mem_str_false in E.
    assert (Hn' : NoDup (acc ++ [x])).
    { apply NoDup_app_iff_local. exact Hn. exact E. }
    destruct (IH _ Hn') as [H1 H2]. split; [exact H1|]. intros k. rewrite H2, in_app_iff. cbn. tauto.
Qed.

Lemma all_keys_spec db : NoDup (all_keys db) /\
  forall k, In k (all_keys db) <-> exists s, In s db /\ In k (map fst (s_labels s)).
Proof.
  unfold all_keys.
  assert (G : forall acc, NoDup acc ->
     NoDup (fold_left (fun acc s => add_keys (map fst (s_labels s)) acc) db acc) /\
     forall k, In k (fold_left (fun acc s => add_keys (map fst (s_labels s)) acc) db acc) <->
               In k acc \/ exists s, In s db /\ In k (map fst (s_labels s))).
  { induction db as [|s db IH]; intros acc Hn; cbn.
    - split; [exact Hn|]. intros k. split; [tauto|]. intros [H|[s [[] _]]]. exact H.
    - destruct (add_keys_spec (map fst (s_labels s)) acc Hn) as [H1 H2].
      destruct (IH _ H1) as [H3 H4]. split; [exact H3|]. intros k. rewrite H4, H2. split.
      + intros [[H|H]|[s' [Hs Hk]]]; eauto.
      + intros [H|[s' [[<-|Hs] Hk]]]; eauto. }
  destruct (G [] (NoDup_nil _)) as [H1 H2]. split; [exact H1|]. intros k. rewrite H2. cbn. tauto.
Qed.

Lemma insert_perm f l : Permutation (insert_by_key f l) (f :: l).
Proof.
  induction l as [|g l IH]; cbn; [auto|].
  destruct (str_ltb (f_key g) (f_key f)); [|auto].
  eapply perm_trans; [apply perm_skip, IH | apply perm_swap].
Qed.
Lemma sort_perm l : Permutation (sort_by_key l) l.
Proof.
  unfold sort_by_key. induction l as [|f l IH]; cbn; [auto|].
  eapply perm_trans; [apply insert_perm | apply perm_skip, IH].
Qed.

(* when all keys are distinct, ReorderTagFilters just splits the sorted list into value filters and stars *)
Lemma reorder_partition_aux l : forall o s,
  NoDup (map f_key (o ++ s ++ l)) ->
  fold_left reorder_step l (o, s) =
  (o ++ filter (fun f => negb (f_is_star f)) l, s ++ filter f_is_star l).
Proof.
  induction l as [|f l IH]; intros o s Hn; cbn [fold_left filter]; [rewrite !app_nil_r; reflexivity|].
  assert (Hf : ~ In (f_key f) (map f_key o) /\ ~ In (f_key f) (map f_key s)).
  { rewrite !map_app in Hn. cbn [map] in Hn.
    rewrite app_assoc in Hn. apply NoDup_remove_2 in Hn. rewrite !in_app_iff in Hn. tauto. }
  destruct Hf as [Ho Hs]. unfold reorder_step at 2.
  rewrite (proj2 (has_fkey_false _ _) Ho).
  destruct (f_is_star f) eqn:Es; cbn [negb orb].
  - rewrite (proj2 (has_fkey_false _ _) Hs). rewrite IH.
    + rewrite <- app_assoc. reflexivity.
    + rewrite <- !app_assoc. cbn [app]. exact Hn.
  - assert (Efs : filter (fun g => negb (str_eqb (f_key g) (f_key f))) s = s).
    { clear -Hs. induction s as [|g s IH]; cbn; [reflexivity|].
      cbn in Hs. destruct (str_eqb (f_key g) (f_key f)) eqn:E.
      - apply str_eqb_eq in E. tauto.
      - cbn. rewrite IH by tauto. reflexivity. }
    rewrite Efs, IH.
    + rewrite <- app_assoc. reflexivity.
    + rewrite <- app_assoc. cbn [app].
      eapply Permutation_NoDup; [|exact Hn]. apply Permutation_map.
      apply Permutation_app_head. apply Permutation_sym, Permutation_middle.
Qed.

Lemma reorder_partition tfs : NoDup (map f_key tfs) ->
  reorder tfs = (filter (fun f => negb (f_is_star f)) (sort_by_key tfs), filter f_is_star (sort_by_key tfs)).
Proof.
  intros Hn. unfold reorder. rewrite reorder_partition_aux; [reflexivity|].
  cbn [app]. eapply Permutation_NoDup; [|exact Hn]. apply Permutation_map, Permutation_sym, sort_perm.
Qed.

(* ---------- selection: the tags tree and the tracker ---------- *)
Definition is_some {A} (o : option A) : bool := match o with Some _ => true | None => false end.

(* value of label k of series i if it belongs to the metric *)
Definition lab_of (name k : str) (db : list series) (i : nat) : option str :=
  match nth_error db i with
  | Some s => if str_eqb (s_name s) name then lookup k (s_labels s) else None
  | None => None
  end.

Lemma cand_val_tree name k (P : str -> bool) db : forall j i,
  cand_val i (filter (fun iv => P (snd iv)) (tree_vals_from name k db j)) =
  if Nat.leb j i then match lab_of name k db (i - j) with
                      | Some v => if P v then Some v else None
                      | None => None
                      end
  else None.
Proof.
  induction db as [|s db IH]; intros j i.
  - cbn. unfold lab_of. destruct (i - j)%nat; cbn; destruct (Nat.leb j i); reflexivity.
  - cbn [tree_vals_from]. rewrite filter_app.
    assert (Hrest : forall n, lab_of name k (s :: db) (S n) = lab_of name k db n) by reflexivity.
    destruct (Nat.leb j i) eqn:Eji.
    + apply Nat.leb_le in Eji. destruct (Nat.eq_dec i j) as [->|Hne].
      * rewrite Nat.sub_diag. unfold lab_of at 1. cbn [nth_error].
        assert (Hno : cand_val j (filter (fun iv => P (snd iv)) (tree_vals_from name k db (S j))) = None).
        { rewrite IH. replace (Nat.leb (S j) j) with false by (symmetry; apply Nat.leb_gt; lia). reflexivity. }
        destruct (str_eqb (s_name s) name); [|cbn; exact Hno].
        destruct (lookup k (s_labels s)) as [v|]; [|cbn; exact Hno].
        cbn [filter snd]. destruct (P v); cbn [app cand_val]; [rewrite Nat.eqb_refl; reflexivity | exact Hno].
      * replace (i - j)%nat with (S (i - S j)) by lia. rewrite Hrest.
        assert (Hr : cand_val i (filter (fun iv => P (snd iv)) (tree_vals_from name k db (S j))) =
                     match lab_of name k db (i - S j) with Some v => if P v then Some v else None | None => None end).
        { rewrite IH. replace (Nat.leb (S j) i) with true by (symmetry; apply Nat.leb_le; lia). reflexivity. }
        destruct (str_eqb (s_name s) name); [|cbn; exact Hr].
        destruct (lookup k (s_labels s)) as [v|]; [|cbn; exact Hr].
        cbn [filter snd]. destruct (P v); cbn [app cand_val]; [|exact Hr].
        replace (Nat.eqb i j) with false by (symmetry; apply Nat.eqb_neq; exact Hne). exact Hr.
    + apply Nat.leb_gt in Eji.
      assert (Hr : cand_val i (filter (fun iv => P (snd iv)) (tree_vals_from name k db (S j))) = None).
      { rewrite IH. replace (Nat.leb (S j) i) with false by (symmetry; apply Nat.leb_gt; lia). reflexivity. }
      destruct (str_eqb (s_name s) name); [|cbn; exact Hr].
      destruct (lookup k (s_labels s)) as [v|]; [|cbn; exact Hr].
      cbn [filter snd]. destruct (P v); cbn [app cand_val]; [|exact Hr].
      replace (Nat.eqb i j) with false by (symmetry; apply Nat.eqb_neq; lia). exact Hr.
Qed.

Lemma cand_val_vals name k P db i :
  cand_val i (filter (fun iv => P (snd iv)) (tree_vals name k db)) =
  match lab_of name k db i with Some v => if P v then Some v else None | None => None end.
Proof. unfold tree_vals. rewrite cand_val_tree. cbn [Nat.leb]. rewrite Nat.sub_0_r. reflexivity. Qed.

Lemma filter_true {A} (l : list A) : filter (fun _ => true) l = l.
Proof. induction l; cbn; congruence. Qed.

Lemma cand_val_vals_all name k db i : cand_val i (tree_vals name k db) = lab_of name k db i.
Proof.
  rewrite <- (filter_true (tree_vals name k db)). rewrite (cand_val_vals name k (fun _ => true)).
  destruct (lab_of name k db i); reflexivity.
Qed.

Lemma tr_mem_app i a b : tr_mem i (a ++ b) = tr_mem i a || tr_mem i b.
Proof. induction a as [|[j x] a IH]; cbn; [reflexivity|]. rewrite IH, orb_assoc. reflexivity. Qed.

Lemma tr_mem_bulk_first name k cand i :
  tr_mem i (bulk_add true name k cand []) = is_some (cand_val i cand).
Proof.
  cbn [bulk_add]. induction cand as [|[j v] cand IH]; cbn; [reflexivity|].
  destruct (Nat.eqb i j); cbn; [reflexivity | exact IH].
Qed.

Lemma tr_mem_bulk_next name k cand tr i :
  tr_mem i (bulk_add false name k cand tr) = tr_mem i tr && is_some (cand_val i cand).
Proof.
  cbn [bulk_add]. induction tr as [|[j x] tr IH]; cbn [flat_map tr_mem fst snd]; [reflexivity|].
  rewrite tr_mem_app, IH. destruct (Nat.eqb i j) eqn:E.
  - apply Nat.eqb_eq in E. subst j. destruct (cand_val i cand); cbn; [rewrite Nat.eqb_refl; reflexivity|].
    rewrite andb_false_r. reflexivity.
  - destruct (cand_val j cand); cbn; [rewrite E|]; reflexivity.
Qed.

Lemma tr_mem_map_same i (g : nat * str -> str) (c : nat * str -> bool) tr :
  tr_mem i (map (fun e => if c e then (fst e, g e) else e) tr) = tr_mem i tr.
Proof. induction tr as [|[j x] tr IH]; cbn; [reflexivity|]. rewrite IH. destruct (c (j, x)); reflexivity. Qed.

Lemma tr_mem_star_keep name k cand : forall tr i, tr_mem i (bulk_add_star true name k cand tr) = tr_mem i tr.
Proof.
  induction cand as [|[j v] cand IH]; intros tr i; cbn [bulk_add_star]; [reflexivity|].
  rewrite IH. destruct (tr_mem j tr); [|reflexivity].
  apply (tr_mem_map_same i (fun e => snd e ++ kv k v) (fun e => Nat.eqb (fst e) j)).
Qed.

Lemma tr_mem_star_add name k cand : forall tr i,
  tr_mem i (bulk_add_star false name k cand tr) = tr_mem i tr || is_some (cand_val i cand).
Proof.
  induction cand as [|[j v] cand IH]; intros tr i; cbn [bulk_add_star cand_val]; [rewrite orb_false_r; reflexivity|].
  rewrite IH. destruct (tr_mem j tr) eqn:Ej.
  - rewrite (tr_mem_map_same i (fun e => snd e ++ kv k v) (fun e => Nat.eqb (fst e) j)).
    destruct (Nat.eqb i j) eqn:E; [|reflexivity]. apply Nat.eqb_eq in E. subst j. rewrite Ej. reflexivity.
  - rewrite tr_mem_app. cbn [tr_mem]. rewrite orb_false_r.
    destruct (Nat.eqb i j); cbn; [rewrite orb_true_r; reflexivity | rewrite orb_false_r; reflexivity].
Qed.

(* ---------- selection: the filter loop ---------- *)
(* what the engine's value filter f accepts: the label must be PRESENT and its value accepted *)
Definition sat (f : tfilter) (s : series) : bool :=
  match lookup (f_key f) (s_labels s) with Some v => accept_val rmatch f v | None => false end.

Definition msat (name : str) (fs : list tfilter) (db : list series) (i : nat) : bool :=
  match nth_error db i with
  | Some s => str_eqb (s_name s) name && forallb (fun f => sat f s) fs
  | None => false
  end.

Definition is_metric name db i := msat name [] db i.

Lemma msat_app name fs gs db i : msat name (fs ++ gs) db i = msat name fs db i && msat name gs db i.
Proof.
  unfold msat. destruct (nth_error db i) as [s|]; [|reflexivity].
  rewrite forallb_app. destruct (str_eqb (s_name s) name); cbn; [reflexivity|reflexivity].
Qed.

Lemma msat_one name f db i :
  is_some (cand_val i (filter (fun iv => accept_val rmatch f (snd iv)) (tree_vals name (f_key f) db))) = msat name [f] db i.
Proof.
  rewrite (cand_val_vals name (f_key f) (accept_val rmatch f)). unfold lab_of, msat, sat.
  destruct (nth_error db i) as [s|]; [|reflexivity]. cbn [forallb].
  destruct (str_eqb (s_name s) name); [|reflexivity].
  destruct (lookup (f_key f) (s_labels s)) as [v|]; [|reflexivity].
  destruct (accept_val rmatch f v); reflexivity.
Qed.

(* every series of the metric carries label k *)
Definition key_total (name k : str) (db : list series) : Prop :=
  forall i s, nth_error db i = Some s -> str_eqb (s_name s) name = true -> has_key k s = true.

Lemma no_metric_if_no_file name k db : key_total name k db -> key_file_exists k db = false ->
  forall i, is_metric name db i = false.
Proof.
  intros Ht Hk i. unfold is_metric, msat. destruct (nth_error db i) as [s|] eqn:E; [|reflexivity].
  destruct (str_eqb (s_name s) name) eqn:En; [|reflexivity]. exfalso.
  specialize (Ht _ _ E En). unfold key_file_exists in Hk.
  assert (existsb (has_key k) db = true) by (apply existsb_exists; exists s; split; [eapply nth_error_In; eauto | exact Ht]).
  congruence.
Qed.

Lemma no_metric_if_no_vals name k db : key_total name k db -> tree_vals name k db = [] ->
  forall i, is_metric name db i = false.
Proof.
  intros Ht Hv i. unfold is_metric, msat. destruct (nth_error db i) as [s|] eqn:E; [|reflexivity].
  destruct (str_eqb (s_name s) name) eqn:En; [|reflexivity]. exfalso.
  specialize (Ht _ _ E En). pose proof (cand_val_vals_all name k db i) as C. rewrite Hv in C. cbn in C.
  unfold lab_of in C. rewrite E, En in C. unfold has_key in Ht. destruct (lookup k (s_labels s)); discriminate.
Qed.

Lemma msat_metric name fs db i : msat name fs db i = true -> is_metric name db i = true.
Proof.
  unfold is_metric, msat. destruct (nth_error db i) as [s|]; [|discriminate].
  destruct (str_eqb (s_name s) name); cbn; [reflexivity | discriminate].
Qed.

Lemma msat_no_metric name fs db i : is_metric name db i = false -> msat name fs db i = false.
Proof. intros H. destruct (msat name fs db i) eqn:E; [apply msat_metric in E; congruence | reflexivity]. Qed.

(* one value filter (=, !=, =~, !~; not the literal "*") on a label every series of the metric carries *)
Lemma step_value nvf name db first tr f :
  f_is_star f = false -> key_total name (f_key f) db ->
  (forall i, tr_mem i tr = true -> is_metric name db i = true) ->
  (first = true -> tr = []) ->
  forall i, tr_mem i (snd (step_filter rmatch true true nvf name db (first, tr) f)) =
            (if first then true else tr_mem i tr) && msat name [f] db i.
Proof.
  intros Hs Ht Hsub Hfirst i. unfold step_filter. cbn [snd negb andb].
  unfold f_is_wild. rewrite Hs. cbn [orb].
  assert (Hskip : (forall j, is_metric name db j = false) ->
                  tr_mem i tr = (if first then true else tr_mem i tr) && msat name [f] db i).
  { intros Hno. rewrite (msat_no_metric name [f] db i (Hno i)), andb_false_r.
    destruct (tr_mem i tr) eqn:E; [|reflexivity]. apply Hsub in E. rewrite Hno in E. discriminate. }
  assert (Hadd : tr_mem i (bulk_add first name (f_key f)
                    (filter (fun iv => accept_val rmatch f (snd iv)) (tree_vals name (f_key f) db)) tr) =
                 (if first then true else tr_mem i tr) && msat name [f] db i).
  { destruct first.
    - rewrite (Hfirst eq_refl), tr_mem_bulk_first, msat_one. reflexivity.
    - rewrite tr_mem_bulk_next, msat_one. reflexivity. }
  destruct (key_file_exists (f_key f) db) eqn:Ek; cbn [negb].
  - destruct (f_is_regex f).
    + destruct (tree_vals name (f_key f) db) eqn:Ev.
      * apply Hskip. apply (no_metric_if_no_vals name (f_key f) db Ht Ev).
      * exact Hadd.
    + exact Hadd.
  - apply Hskip. apply (no_metric_if_no_file name (f_key f) db Ht Ek).
Qed.

Lemma fold_values nvf name db fs : forall done tr,
  Forall (fun f => f_is_star f = false /\ key_total name (f_key f) db) fs ->
  (forall i, tr_mem i tr = msat name done db i) ->
  forall i, tr_mem i (snd (fold_left (step_filter rmatch true true nvf name db) fs (false, tr))) =
            msat name (done ++ fs) db i.
Proof.
  induction fs as [|f fs IH]; intros done tr HF Hinv i; cbn [fold_left].
  - rewrite app_nil_r. apply Hinv.
  - inversion HF as [|? ? [Hs Ht] HF']; subst.
    assert (Hstep : forall j, tr_mem j (snd (step_filter rmatch true true nvf name db (false, tr) f)) =
                              msat name (done ++ [f]) db j).
    { intros j. rewrite (step_value nvf name db false tr f Hs Ht); [| |discriminate].
      - rewrite msat_app, Hinv. reflexivity.
      - intros j' Hj'. rewrite Hinv in Hj'. apply (msat_metric _ _ _ _ Hj'). }
    destruct (step_filter rmatch true true nvf name db (false, tr) f) as [b tr'] eqn:E.
    assert (b = false) by (unfold step_filter in E; injection E as <- _; reflexivity). subst b.
    cbn [snd] in Hstep. rewrite (IH (done ++ [f]) tr' HF' Hstep i), <- app_assoc. reflexivity.
Qed.

(* a key=* filter (of a by/without clause or added by ApplyMetricsQuery) *)
Definition plain_star (f : tfilter) : Prop := f_is_star f = true /\ f_is_regex f = false.

Lemma plain_star_filter k ign grp : plain_star (star_filter k ign grp).
Proof. split; [unfold f_is_star; cbn [star_filter f_val]; apply str_eqb_refl | reflexivity]. Qed.

(* key=* filters after at least one value filter only annotate the id strings *)
Lemma step_star_keep name db b tr f i : plain_star f ->
  tr_mem i (snd (step_filter rmatch true true true name db (b, tr) f)) = tr_mem i tr.
Proof.
  intros [Hs Hr]. unfold step_filter. cbn [snd negb andb]. unfold f_is_wild. rewrite Hs, Hr. cbn [orb].
  destruct (key_file_exists (f_key f) db); cbn [negb]; [|reflexivity].
  destruct (tree_vals name (f_key f) db) eqn:Ev; [reflexivity|]. apply tr_mem_star_keep.
Qed.

Lemma fold_stars_keep name db fs : Forall plain_star fs -> forall b tr i,
  tr_mem i (snd (fold_left (step_filter rmatch true true true name db) fs (b, tr))) = tr_mem i tr.
Proof.
  induction 1 as [|f fs Hf _ IH]; intros b tr i; cbn [fold_left]; [reflexivity|].
  destruct (step_filter rmatch true true true name db (b, tr) f) as [b' tr'] eqn:E.
  rewrite IH. pose proof (step_star_keep name db b tr f i Hf) as H. rewrite E in H. exact H.
Qed.

(* without any value filter the key=* filters collect every series of the metric that has the key *)
Lemma step_star_add name db b tr f i : plain_star f ->
  tr_mem i (snd (step_filter rmatch true true false name db (b, tr) f)) =
  tr_mem i tr || is_some (lab_of name (f_key f) db i).
Proof.
  intros [Hs Hr]. unfold step_filter. cbn [snd negb andb]. unfold f_is_wild. rewrite Hs, Hr. cbn [orb].
  set (k := f_key f).
  destruct (key_file_exists k db) eqn:Ek; cbn [negb].
  - destruct (tree_vals name k db) eqn:Ev.
    + rewrite <- cand_val_vals_all, Ev. cbn. rewrite orb_false_r. reflexivity.
    + rewrite <- Ev, tr_mem_star_add, cand_val_vals_all. reflexivity.
  - assert (lab_of name k db i = None); [|rewrite H; cbn; rewrite orb_false_r; reflexivity].
    unfold lab_of. destruct (nth_error db i) as [s|] eqn:E; [|reflexivity].
    destruct (str_eqb (s_name s) name); [|reflexivity].
    destruct (lookup k (s_labels s)) eqn:El; [|reflexivity]. exfalso.
    unfold key_file_exists in Ek.
    assert (existsb (has_key k) db = true); [|congruence].
    apply existsb_exists. exists s. split; [eapply nth_error_In; eauto|]. unfold has_key. rewrite El. reflexivity.
Qed.

Lemma fold_stars_add name db fs : Forall plain_star fs -> forall b tr i,
  tr_mem i (snd (fold_left (step_filter rmatch true true false name db) fs (b, tr))) =
  tr_mem i tr || existsb (fun f => is_some (lab_of name (f_key f) db i)) fs.
Proof.
  induction 1 as [|f fs Hf _ IH]; intros b tr i; cbn [fold_left existsb]; [rewrite orb_false_r; reflexivity|].
  destruct (step_filter rmatch true true false name db (b, tr) f) as [b' tr'] eqn:E.
  rewrite IH. pose proof (step_star_add name db b tr f i Hf) as H. rewrite E in H. cbn [snd] in H.
  rewrite H, orb_assoc. reflexivity.
Qed.

(* ---------- selection: the theorem ---------- *)
Lemma forallb_perm {A} (f : A -> bool) l l' : Permutation l l' -> forallb f l = forallb f l'.
Proof.
  induction 1; cbn; try congruence.
  - destruct (f x), (f y); reflexivity.
Qed.
Lemma existsb_perm {A} (f : A -> bool) l l' : Permutation l l' -> existsb f l = existsb f l'.
Proof.
  induction 1; cbn; try congruence.
  - destruct (f x), (f y); reflexivity.
Qed.

Lemma forallb_ext_in_local {A} (f g : A -> bool) l : (forall x, In x l -> f x = g x) -> forallb f l = forallb g l.
Proof.
  induction l as [|x l IH]; intros H; cbn; [reflexivity|].
  rewrite (H x (or_introl eq_refl)), IH; [reflexivity|]. intros y Hy. apply H. right. exact Hy.
Qed.

Lemma forallb_map {A B} (g : A -> B) (f : B -> bool) l : forallb f (map g l) = forallb (fun x => f (g x)) l.
Proof. induction l; cbn; congruence. Qed.

Lemma nodup_strb_NoDup l : nodup_strb l = true -> NoDup l.
Proof.
  induction l as [|x l IH]; cbn; [constructor|]. rewrite andb_true_iff, negb_true_iff, mem_str_false.
  intros [H1 H2]. constructor; auto.
Qed.

Lemma NoDup_app_local {A} (l l' : list A) : NoDup l -> NoDup l' -> (forall x, In x l -> ~ In x l') -> NoDup (l ++ l').
Proof.
  induction 1 as [|x l Hx Hl IH]; intros Hl' Hd; cbn; [exact Hl'|].
  constructor.
  - rewrite in_app_iff. intros [H|H]; [tauto|]. apply (Hd x); [left; reflexivity | exact H].
  - apply IH; [exact Hl'|]. intros y Hy. apply Hd. right. exact Hy.
Qed.

Lemma lookup_In k l v : lookup k l = Some v -> exists k', In (k', v) l.
Proof.
  induction l as [|[a w] l IH]; cbn; [discriminate|].
  destruct (str_eqb a k); [intros H; injection H as ->; eauto|].
  intros H. destruct (IH H) as [k' Hk']. eauto.
Qed.

Lemma filter_matchers_ignore ms : filter (fun t => negb (f_ignore t)) (map of_matcher ms) = map of_matcher ms.
Proof. induction ms as [|m ms IH]; cbn; [reflexivity|]. rewrite IH. reflexivity. Qed.

Lemma filter_nonstar_matchers ms : forallb (fun m => negb (str_eqb (m_val m) star_val)) ms = true ->
  filter (fun f => negb (f_is_star f)) (map of_matcher ms) = map of_matcher ms /\
  filter f_is_star (map of_matcher ms) = [].
Proof.
  induction ms as [|m ms IH]; cbn [forallb map filter]; [auto|].
  rewrite andb_true_iff. intros [H1 H2]. destruct (IH H2) as [E1 E2].
  rewrite negb_true_iff in H1.
  assert (Hm : f_is_star (of_matcher m) = false) by (unfold f_is_star; cbn [of_matcher f_val]; exact H1).
  rewrite Hm. cbn [negb]. rewrite E1, E2. auto.
Qed.

Lemma filter_plain_stars fs : Forall plain_star fs ->
  filter (fun f => negb (f_is_star f)) fs = [] /\ filter f_is_star fs = fs.
Proof.
  induction 1 as [|f fs [Hs _] _ [E1 E2]]; cbn [filter]; [auto|].
  rewrite Hs. cbn [negb]. rewrite E1, E2. auto.
Qed.

Lemma sat_matcher m s v : lookup (m_key m) (s_labels s) = Some v -> v <> [] ->
  sat (of_matcher m) s = spec_match rmatch m (s_labels s).
Proof.
  intros Hl Hv. unfold sat, spec_match, label_val, accept_val. cbn [of_matcher f_key f_op f_val]. rewrite Hl.
  destruct (m_op m); try reflexivity; destruct v; congruence.
Qed.

(* the filter loop on  matchers ++ key=* filters  whose keys are pairwise distinct and cover every tag key *)
Lemma select_core name ms extra db :
  forallb (fun m => negb (str_eqb (m_val m) star_val)) ms = true ->
  Forall plain_star extra ->
  NoDup (map f_key (map of_matcher ms ++ extra)) ->
  (forall k, In k (all_keys db) -> In k (map f_key (map of_matcher ms ++ extra))) ->
  (forall j s', nth_error db j = Some s' -> series_ok name ms s' = true) ->
  forall i s, nth_error db i = Some s ->
    forall others stars, reorder (map of_matcher ms ++ extra) = (others, stars) ->
    (tr_mem i (snd (fold_left (step_filter rmatch true true (negb (Nat.eqb (length others) 0)) name db)
                              (others ++ stars) (true, []))) = true
     <-> spec_selected rmatch name ms s = true).
Proof.
  intros Gstar Hex Hnd Hcov Gs i s Hi others0 stars0 Hre.
  rewrite (reorder_partition _ Hnd) in Hre. injection Hre as <- <-.
  set (srt := sort_by_key (map of_matcher ms ++ extra)).
  assert (Po : Permutation (filter (fun f => negb (f_is_star f)) srt) (map of_matcher ms)).
  { eapply perm_trans; [apply perm_filter, sort_perm|]. rewrite filter_app.
    rewrite (proj1 (filter_nonstar_matchers ms Gstar)), (proj1 (filter_plain_stars extra Hex)), app_nil_r. auto. }
  assert (Ps : Permutation (filter f_is_star srt) extra).
  { eapply perm_trans; [apply perm_filter, sort_perm|]. rewrite filter_app.
    rewrite (proj2 (filter_nonstar_matchers ms Gstar)), (proj2 (filter_plain_stars extra Hex)). auto. }
  assert (Hst : Forall plain_star (filter f_is_star srt)).
  { apply Forall_forall. intros f Hf. rewrite Forall_forall in Hex. apply Hex. eapply Permutation_in; eauto. }
  set (stars := filter f_is_star srt) in *.
  set (others := filter (fun f => negb (f_is_star f)) srt) in *.
  assert (Hsat : msat name others db i = spec_selected rmatch name ms s).
  { unfold msat, spec_selected. rewrite Hi.
    destruct (str_eqb (s_name s) name) eqn:En; [cbn [andb] | reflexivity].
    rewrite (forallb_perm _ _ _ Po), forallb_map.
    specialize (Gs _ _ Hi). unfold series_ok in Gs. rewrite En in Gs. cbn [negb orb] in Gs.
    rewrite !andb_true_iff in Gs. destruct Gs as [[Gk _] Gv].
    apply forallb_ext_in_local. intros m Hm.
    rewrite forallb_forall in Gk. specialize (Gk m Hm). unfold has_key in Gk.
    destruct (lookup (m_key m) (s_labels s)) as [v|] eqn:El; [|discriminate].
    apply (sat_matcher m s v El). destruct (lookup_In _ _ _ El) as [k' Hk'].
    rewrite forallb_forall in Gv. specialize (Gv _ Hk'). cbn [snd] in Gv. destruct v; [discriminate|congruence]. }
  destruct ms as [|m0 ms'].
  - (* no matcher: only key=* filters *)
    cbn [map] in Po. apply Permutation_sym, Permutation_nil in Po. rewrite Po. cbn [app length Nat.eqb negb].
    rewrite (fold_stars_add name db stars Hst). cbn [tr_mem orb].
    rewrite (existsb_perm _ _ _ Ps).
    unfold spec_selected. cbn [forallb]. rewrite andb_true_r. rewrite existsb_exists. split.
    + intros [f [_ Hk]]. unfold lab_of in Hk. rewrite Hi in Hk. destruct (str_eqb (s_name s) name); [reflexivity|discriminate].
    + intros En. specialize (Gs _ _ Hi). unfold series_ok in Gs. rewrite En in Gs. cbn [negb orb] in Gs.
      rewrite !andb_true_iff in Gs. destruct Gs as [[_ Gl] _].
      destruct (s_labels s) as [|[k0 v0] l] eqn:El; [discriminate|].
      assert (Hk0 : In k0 (all_keys db)).
      { apply all_keys_spec. exists s. split; [eapply nth_error_In; eauto|]. rewrite El. left. reflexivity. }
      apply Hcov in Hk0. cbn [map app] in Hk0. apply in_map_iff in Hk0. destruct Hk0 as [f [Ef Hf]].
      exists f. split; [exact Hf|].
      unfold lab_of. rewrite Hi, En, El, Ef. cbn [lookup]. rewrite str_eqb_refl. reflexivity.
  - (* at least one matcher: value filters, then annotating stars *)
    destruct others as [|f fs] eqn:Eo; [apply Permutation_nil in Po; discriminate|].
    cbn [length Nat.eqb negb]. rewrite fold_left_app. cbn [fold_left].
    assert (HF : Forall (fun f => f_is_star f = false /\ key_total name (f_key f) db) (f :: fs)).
    { apply Forall_forall. intros g Hg. assert (Hin : In g (map of_matcher (m0 :: ms'))) by (eapply Permutation_in; eauto).
      apply in_map_iff in Hin. destruct Hin as [m [<- Hm]]. split.
      - rewrite forallb_forall in Gstar. specialize (Gstar m Hm). rewrite negb_true_iff in Gstar. exact Gstar.
      - intros j s' Hj Hn. specialize (Gs _ _ Hj). unfold series_ok in Gs. rewrite Hn in Gs. cbn [negb orb] in Gs.
        rewrite !andb_true_iff in Gs. destruct Gs as [[Gk _] _]. rewrite forallb_forall in Gk. apply (Gk m Hm). }
    inversion HF as [|? ? [Hs Ht] HF']; subst.
    set (st1 := step_filter rmatch true true true name db (true, []) f).
    assert (H1 : forall j, tr_mem j (snd st1) = msat name [f] db j).
    { intros j. exact (step_value true name db true [] f Hs Ht (fun j' H => ltac:(discriminate H)) (fun _ => eq_refl) j). }
    assert (Est : st1 = (false, snd st1)) by (unfold st1, step_filter; reflexivity).
    rewrite Est.
    set (st2 := fold_left (step_filter rmatch true true true name db) fs (false, snd st1)).
    assert (H2 : tr_mem i (snd st2) = msat name ([f] ++ fs) db i).
    { exact (fold_values true name db fs [f] (snd st1) HF' H1 i). }
    rewrite (surjective_pairing st2).
    rewrite (fold_stars_keep name db stars Hst), H2. cbn [app]. rewrite Hsat. tauto.
Qed.

Lemma matcher_keys ms : map f_key (map of_matcher ms) = map m_key ms.
Proof. rewrite map_map. reflexivity. Qed.

Lemma star_keys ign grp ks : map f_key (map (fun k => star_filter k ign grp) ks) = ks.
Proof. rewrite map_map. cbn [star_filter f_key]. apply map_id. Qed.

Lemma stars_plain ign grp ks : Forall plain_star (map (fun k => star_filter k ign grp) ks).
Proof. apply Forall_forall. intros f Hf. apply in_map_iff in Hf. destruct Hf as [k [<- _]]. apply plain_star_filter. Qed.

Theorem select_exact_guarded name ms db :
  select_guard name ms db = true ->
  forall i s, nth_error db i = Some s ->
    (tr_mem i (tracked rmatch (QSel name ms) db) = true <-> spec_selected rmatch name ms s = true).
Proof.
  unfold select_guard. rewrite !andb_true_iff. intros [[Gstar Gdup] Gdb] i s Hi.
  assert (Gs : forall j s', nth_error db j = Some s' -> series_ok name ms s' = true).
  { intros j s' Hj. rewrite forallb_forall in Gdb. apply Gdb. eapply nth_error_In; eauto. }
  unfold tracked. cbn [flags query_filters q_name]. unfold apply_filters.
  set (ks := filter (fun k => negb (mem_str k (map f_key (map of_matcher ms)))) (all_keys db)).
  set (extra := map (fun k => star_filter k false false) ks).
  destruct (reorder (map of_matcher ms ++ extra)) as [others stars] eqn:Hre.
  apply (select_core name ms extra db Gstar (stars_plain _ _ ks)); try assumption.
  - rewrite map_app, matcher_keys. unfold extra. rewrite star_keys. apply NoDup_app_local.
    + apply nodup_strb_NoDup, Gdup.
    + apply NoDup_filter, all_keys_spec.
    + intros k Hk Hk'. unfold ks in Hk'. apply filter_In in Hk'. destruct Hk' as [_ Hk'].
      rewrite negb_true_iff, matcher_keys, mem_str_false in Hk'. tauto.
  - intros k Hk. rewrite map_app, in_app_iff. unfold extra. rewrite star_keys.
    destruct (mem_str k (map f_key (map of_matcher ms))) eqn:E; [left; apply mem_str_In; exact E|].
    right. unfold ks. apply filter_In. split; [exact Hk|]. rewrite E. reflexivity.
Qed.

Lemma filter_no_name l : mem_str name_label l = false -> filter (fun k => negb (str_eqb k name_label)) l = l.
Proof.
  induction l as [|x l IH]; cbn; [reflexivity|]. rewrite orb_false_iff. intros [H1 H2].
  rewrite H1. cbn. rewrite (IH H2). reflexivity.
Qed.

(* the same for  fn without (l) (name{ms}) : FULL STATEMENT for the fixed code — every series that satisfies
   the matchers is selected, also when ALL its labels are named in l (refuted for the pre-fix code,
   prefix_without_all_labels_refuted) *)
Theorem select_without_exact_guarded fn l name ms db :
  l <> [] -> without_guard l ms = true -> select_guard name ms db = true ->
  forall i s, nth_error db i = Some s ->
    (tr_mem i (tracked rmatch (QAgg fn (GWithout l) name ms) db) = true <-> spec_selected rmatch name ms s = true).
Proof.
  intros Hl Hw. unfold without_guard in Hw. rewrite !andb_true_iff, negb_true_iff in Hw. destruct Hw as [[Wd Wn] Wm].
  unfold select_guard. rewrite !andb_true_iff. intros [[Gstar Gdup] Gdb] i s Hi.
  assert (Gs : forall j s', nth_error db j = Some s' -> series_ok name ms s' = true).
  { intros j s' Hj. rewrite forallb_forall in Gdb. apply Gdb. eapply nth_error_In; eauto. }
  unfold tracked. rewrite flags_without by reflexivity. cbn [query_filters q_name group_list is_without].
  rewrite (filter_no_name l Wn). unfold apply_filters.
  set (wl := map (fun k => star_filter k true true) l).
  set (ks := filter (fun k => negb (mem_str k (map f_key (map of_matcher ms ++ wl)))) (all_keys db)).
  set (extra := wl ++ map (fun k => star_filter k false false) ks).
  rewrite <- app_assoc. fold extra.
  destruct (reorder (map of_matcher ms ++ extra)) as [others stars] eqn:Hre.
  assert (Hkeys : map f_key (map of_matcher ms ++ wl) = map m_key ms ++ l)
    by (rewrite map_app, matcher_keys; unfold wl; rewrite star_keys; reflexivity).
  assert (Hdisj : forall k, In k (map m_key ms) -> ~ In k l).
  { intros k Hk Hk'. rewrite forallb_forall in Wm. specialize (Wm k Hk'). rewrite negb_true_iff, mem_str_false in Wm. tauto. }
  apply (select_core name ms extra db Gstar); try assumption.
  - unfold extra. apply Forall_app. split; apply stars_plain.
  - rewrite map_app, matcher_keys. unfold extra. rewrite map_app. unfold wl. rewrite !star_keys.
    apply NoDup_app_local; [apply nodup_strb_NoDup, Gdup | apply NoDup_app_local |].
    + apply nodup_strb_NoDup, Wd.
    + apply NoDup_filter, all_keys_spec.
    + intros k Hk Hk'. unfold ks in Hk'. apply filter_In in Hk'. destruct Hk' as [_ Hk'].
      rewrite negb_true_iff, Hkeys, mem_str_false, in_app_iff in Hk'. tauto.
    + intros k Hk Hk'. rewrite in_app_iff in Hk'. destruct Hk' as [Hk'|Hk']; [exact (Hdisj k Hk Hk')|].
      unfold ks in Hk'. apply filter_In in Hk'. destruct Hk' as [_ Hk'].
      rewrite negb_true_iff, Hkeys, mem_str_false, in_app_iff in Hk'. tauto.
  - intros k Hk. rewrite map_app, matcher_keys. unfold extra. rewrite map_app. unfold wl. rewrite !star_keys.
    rewrite !in_app_iff.
    destruct (mem_str k (map f_key (map of_matcher ms ++ wl))) eqn:E.
    + apply mem_str_In in E. rewrite Hkeys, in_app_iff in E. tauto.
    + right. right. unfold ks. apply filter_In. split; [exact Hk|]. rewrite E. reflexivity.
Qed.

End WithRegex.

(* ---------- group-key extraction by substring search ---------- *)
Lemma has_byte_app c a b : has_byte c (a ++ b) = has_byte c a || has_byte c b.
Proof. unfold has_byte. apply existsb_app. Qed.

Lemma prefix_colon c f : forall k2 x, has_byte c f = false -> has_byte c k2 = false ->
  is_prefix (f ++ [c]) (k2 ++ c :: x) = true -> f = k2.
Proof.
  induction f as [|a f IH]; intros [|y k2] x Hf Hk H; cbn in *.
  - reflexivity.
  - rewrite andb_true_r in H. rewrite orb_false_iff in Hk. destruct Hk as [Hk _]. congruence.
  - rewrite orb_false_iff in Hf. destruct Hf as [Hf _]. rewrite andb_true_iff in H. destruct H as [H _].
    rewrite N.eqb_sym in Hf. congruence.
  - rewrite orb_false_iff in Hf, Hk. rewrite andb_true_iff in H. destruct H as [H1 H2].
    apply N.eqb_eq in H1. subst y. f_equal. apply (IH k2 x); tauto.
Qed.

Lemma prefix_cross c d f : forall v2 rest, has_byte c v2 = false -> has_byte d f = false -> c <> d ->
  is_prefix (f ++ [c]) (v2 ++ d :: rest) = false.
Proof.
  induction f as [|a f IH]; intros [|y v2] rest Hv Hf Hcd; cbn in *.
  - apply andb_false_intro1. apply N.eqb_neq. exact Hcd.
  - rewrite orb_false_iff in Hv. destruct Hv as [Hv _]. rewrite Hv. reflexivity.
  - rewrite orb_false_iff in Hf. destruct Hf as [Hf _]. rewrite N.eqb_sym in Hf. rewrite Hf. reflexivity.
  - rewrite orb_false_iff in Hv, Hf. rewrite (IH v2 rest); [apply andb_false_r | tauto | tauto | exact Hcd].
Qed.

Lemma find_sub_cons pat c s :
  find_sub pat (c :: s) =
  if is_prefix pat (c :: s) then Some ([], skipn (length pat) (c :: s))
  else match find_sub pat s with Some (b, a) => Some (c :: b, a) | None => None end.
Proof. reflexivity. Qed.

(* the value found for a field: text after the first occurrence of the pattern, up to the next comma *)
Definition after_pat (pat s : str) : option str :=
  match find_sub pat s with Some (_, a) => Some (upto c_comma a) | None => None end.

Lemma after_pat_skip pat s1 : forall s2,
  (forall a b, s1 = a ++ b -> b <> [] -> is_prefix pat (b ++ s2) = false) ->
  after_pat pat (s1 ++ s2) = after_pat pat s2.
Proof.
  induction s1 as [|c s1 IH]; intros s2 H; [reflexivity|].
  unfold after_pat. cbn [app]. rewrite find_sub_cons.
  pose proof (H [] (c :: s1) eq_refl ltac:(discriminate)) as H0. cbn [app] in H0. rewrite H0.
  assert (IH' := IH s2 (fun a b E Hb => H (c :: a) b ltac:(rewrite E; reflexivity) Hb)).
  unfold after_pat in IH'. destruct (find_sub pat (s1 ++ s2)) as [[b a]|]; exact IH'.
Qed.

Lemma is_prefix_app p x : is_prefix p (p ++ x) = true.
Proof. induction p as [|a p IH]; cbn; [reflexivity|]. rewrite N.eqb_refl. exact IH. Qed.
Lemma skipn_app_len {A} (p x : list A) : skipn (length p) (p ++ x) = x.
Proof. induction p; cbn; auto. Qed.
Lemma upto_clean c v x : has_byte c v = false -> upto c (v ++ c :: x) = v.
Proof.
  unfold upto. induction v as [|y v IH]; cbn; intros H.
  - rewrite N.eqb_refl. reflexivity.
  - rewrite orb_false_iff in H. destruct H as [H1 H2]. rewrite N.eqb_sym in H1. rewrite H1.
    specialize (IH H2). destruct (split2 c (v ++ c :: x)). cbn in *. congruence.
Qed.

Lemma clean_bytes s : clean s = true ->
  has_byte c_colon s = false /\ has_byte c_comma s = false /\ has_byte c_lbrace s = false.
Proof. unfold clean. rewrite !andb_true_iff, !negb_true_iff. tauto. Qed.

Lemma is_suffix_app a l : is_suffix l (a ++ l) = true.
Proof.
  induction a as [|x a IH]; cbn [app].
  - destruct l; cbn [is_suffix]; rewrite str_eqb_refl; reflexivity.
  - cbn [is_suffix]. rewrite IH. apply orb_true_r.
Qed.

Lemma no_occ_in_pair f k v rest :
  has_byte c_colon k = false -> has_byte c_colon v = false ->
  has_byte c_comma f = false -> has_byte c_colon f = false -> f <> [] ->
  str_eqb k f = false -> is_suffix f k = false ->
  forall a b, kv k v = a ++ b -> b <> [] -> is_prefix (f ++ [c_colon]) (b ++ rest) = false.
Proof.
  intros Hk Hv Hfc Hfk Hne Hkf Hsuf a b E Hb. unfold kv in E.
  assert (Hcase2 : forall l, (exists a', k = a' ++ l) -> is_prefix (f ++ [c_colon]) ((l ++ c_colon :: v ++ [c_comma]) ++ rest) = false).
  { intros l [a' Ek]. destruct (is_prefix _ _) eqn:P; [|reflexivity]. exfalso.
    rewrite <- app_assoc in P. cbn [app] in P.
    assert (Hl : has_byte c_colon l = false) by (rewrite Ek, has_byte_app, orb_false_iff in Hk; tauto).
    apply prefix_colon in P; [|exact Hfk|exact Hl]. subst l.
    rewrite Ek, is_suffix_app in Hsuf. discriminate. }
  assert (Hvcase : forall m, (exists m', v = m' ++ m) -> is_prefix (f ++ [c_colon]) ((m ++ [c_comma]) ++ rest) = false).
  { intros m [m' Ev]. rewrite <- app_assoc. cbn [app]. apply prefix_cross; [|exact Hfc|discriminate].
    rewrite Ev, has_byte_app, orb_false_iff in Hv. tauto. }
  symmetry in E. apply app_eq_app in E. destruct E as [l [[Ea Eb]|[Ek Eb]]].
  - (* the cut is inside ":v," *)
    destruct l as [|c l].
    + cbn [app] in Eb. subst b. apply (Hcase2 []). exists k. rewrite app_nil_r. reflexivity.
    + cbn [app] in Eb. injection Eb as Ec Eb. symmetry in Eb. apply app_eq_app in Eb.
      destruct Eb as [m [[E1 E2]|[E1 E2]]].
      * (* l = v ++ m, [44] = m ++ b *)
        destruct m as [|x m]; [cbn in E2; subst b; apply (Hvcase []); exists v; rewrite app_nil_r; reflexivity|].
        cbn in E2. injection E2 as _ E2. symmetry in E2. apply app_eq_nil in E2. tauto.
      * (* v = l ++ m, b = m ++ [44] *)
        subst b. apply Hvcase. exists l. exact E1.
  - subst b. apply Hcase2. exists a. exact Ek.
Qed.

Lemma no_occ_in_name f name rest :
  has_byte c_colon name = false -> has_byte c_lbrace f = false ->
  forall a b, name ++ [c_lbrace] = a ++ b -> b <> [] -> is_prefix (f ++ [c_colon]) (b ++ rest) = false.
Proof.
  intros Hn Hf a b E Hb. symmetry in E. apply app_eq_app in E. destruct E as [l [[Ea Eb]|[Ek Eb]]].
  - destruct l as [|c l].
    + cbn in Eb. subst b. cbn [app]. apply (prefix_cross c_colon c_lbrace f [] rest); [reflexivity|exact Hf|discriminate].
    + cbn in Eb. injection Eb as _ Eb. symmetry in Eb. apply app_eq_nil in Eb. tauto.
  - subst b. rewrite <- app_assoc. cbn [app]. apply prefix_cross; [|exact Hf|discriminate].
    rewrite Ek, has_byte_app, orb_false_iff in Hn. tauto.
Qed.

Lemma after_pat_body f ls :
  labels_clean ls = true -> clean f = true -> f <> [] ->
  forallb (fun p => str_eqb (fst p) f || negb (is_suffix f (fst p))) ls = true ->
  after_pat (f ++ [c_colon]) (body ls) = lookup f ls.
Proof.
  intros Hl Hf Hne Hs. destruct (clean_bytes _ Hf) as [Hf1 [Hf2 Hf3]]. unfold labels_clean in Hl.
  induction ls as [|[k v] ls IH]; [unfold after_pat, body; cbn; destruct f; reflexivity|].
  cbn [forallb fst snd] in Hl, Hs. rewrite andb_true_iff in Hl. rewrite andb_true_iff in Hs.
  destruct Hl as [Hkv Hl]. apply andb_true_iff in Hkv. destruct Hkv as [Hk Hv]. destruct Hs as [Hs1 Hs]. specialize (IH Hl Hs).
  destruct (clean_bytes _ Hk) as [Hk1 _]. destruct (clean_bytes _ Hv) as [Hv1 [Hv2 _]].
  unfold body. cbn [map concat fst snd lookup]. fold (body ls).
  destruct (str_eqb k f) eqn:Ekf.
  - apply str_eqb_eq in Ekf. subst k. unfold after_pat, kv.
    assert (Es : (f ++ c_colon :: v ++ [c_comma]) ++ body ls = (f ++ [c_colon]) ++ v ++ c_comma :: body ls)
      by (rewrite <- !app_assoc; cbn; rewrite <- app_assoc; reflexivity).
    rewrite Es.
    assert (Hfind : find_sub (f ++ [c_colon]) ((f ++ [c_colon]) ++ v ++ c_comma :: body ls) =
                    Some ([], v ++ c_comma :: body ls)).
    { destruct ((f ++ [c_colon]) ++ v ++ c_comma :: body ls) as [|c s] eqn:E.
      - destruct f; discriminate.
      - rewrite find_sub_cons, <- E, is_prefix_app, skipn_app_len. reflexivity. }
    rewrite Hfind. rewrite upto_clean by exact Hv2. reflexivity.
  - cbn [orb] in Hs1. rewrite negb_true_iff in Hs1.
    rewrite after_pat_skip; [exact IH|]. apply no_occ_in_pair; assumption.
Qed.

(* FULL STATEMENT (what grouping needs): extract_field id f = the value of label f in the id.
   Proved under extract_guard; refuted without it (group_key_extraction_refuted). *)
Theorem group_key_extraction_guarded name ls f :
  extract_guard name ls f = true -> extract_field (render_id name ls) f = lookup f ls.
Proof.
  unfold extract_guard. rewrite !andb_true_iff, negb_true_iff, Nat.eqb_neq.
  intros [[[[Hn Hl] Hf] Hne] Hs].
  assert (Hne' : f <> []) by (destruct f; [cbn in Hne; congruence | discriminate]).
  change (extract_field (render_id name ls) f) with (after_pat (f ++ [c_colon]) (render_id name ls)).
  unfold render_id. change (name ++ c_lbrace :: body ls) with (name ++ [c_lbrace] ++ body ls).
  rewrite app_assoc, after_pat_skip.
  - apply after_pat_body; assumption.
  - apply no_occ_in_name; [apply (clean_bytes _ Hn) | apply (clean_bytes _ Hf)].
Qed.

(* witness: id m{ab:x,b:p,  — "b:" is first found inside "ab:" *)
Theorem group_key_extraction_refuted :
  exists name ls f, labels_clean ls = true /\ clean name = true /\ clean f = true /\
    lookup f ls = Some [112%N] /\ extract_field (render_id name ls) f = Some [120%N].
Proof. exists [109%N], [([97;98],[120]); ([98],[112])]%N, [98%N]. vm_compute. repeat split; reflexivity. Qed.

(* ---------- group ids of by / without on well-formed ids ---------- *)
Definition pair_str (p : str * str) : str := fst p ++ c_colon :: snd p.

Lemma split_on_clean c s : has_byte c s = false -> split_on c s = [s].
Proof.
  induction s as [|y s IH]; cbn; [reflexivity|]. rewrite orb_false_iff. intros [H1 H2].
  rewrite N.eqb_sym in H1. rewrite H1, (IH H2). reflexivity.
Qed.
Lemma split_on_app c s1 s2 : has_byte c s1 = false -> split_on c (s1 ++ c :: s2) = s1 :: split_on c s2.
Proof.
  induction s1 as [|y s1 IH]; cbn; [rewrite N.eqb_refl; reflexivity|]. rewrite orb_false_iff. intros [H1 H2].
  rewrite N.eqb_sym in H1. rewrite H1, (IH H2). reflexivity.
Qed.
Lemma split2_app c s1 s2 : has_byte c s1 = false -> split2 c (s1 ++ c :: s2) = (s1, Some s2).
Proof.
  induction s1 as [|y s1 IH]; cbn; [rewrite N.eqb_refl; reflexivity|]. rewrite orb_false_iff. intros [H1 H2].
  rewrite N.eqb_sym in H1. rewrite H1, (IH H2). reflexivity.
Qed.

Lemma pair_has_byte c p : c <> c_colon -> has_byte c (fst p) = false -> has_byte c (snd p) = false ->
  has_byte c (pair_str p) = false.
Proof.
  intros Hc H1 H2. unfold pair_str. rewrite has_byte_app, H1. cbn [orb].
  change (has_byte c (c_colon :: snd p)) with ((c =? c_colon)%N || has_byte c (snd p)).
  rewrite H2, orb_false_r. apply N.eqb_neq. exact Hc.
Qed.

Lemma body_cons p ls : body (p :: ls) = pair_str p ++ c_comma :: body ls.
Proof. unfold body, kv, pair_str. cbn [map concat]. rewrite <- !app_assoc. cbn. rewrite <- app_assoc. reflexivity. Qed.

Lemma split_body ls : labels_clean ls = true -> split_on c_comma (body ls) = map pair_str ls ++ [[]].
Proof.
  unfold labels_clean. induction ls as [|p ls IH]; [reflexivity|]. cbn [forallb]. rewrite !andb_true_iff.
  intros [[Hk Hv] Hl]. rewrite body_cons, split_on_app, (IH Hl); [reflexivity|].
  apply pair_has_byte; [discriminate | apply (clean_bytes _ Hk) | apply (clean_bytes _ Hv)].
Qed.

Lemma body_no_lbrace ls : labels_clean ls = true -> has_byte c_lbrace (body ls) = false.
Proof.
  unfold labels_clean. induction ls as [|p ls IH]; [reflexivity|]. cbn [forallb]. rewrite !andb_true_iff.
  intros [[Hk Hv] Hl]. rewrite body_cons, has_byte_app.
  change (has_byte c_lbrace (c_comma :: body ls)) with ((c_lbrace =? c_comma)%N || has_byte c_lbrace (body ls)).
  rewrite (IH Hl).
  rewrite pair_has_byte; [reflexivity | discriminate | apply (clean_bytes _ Hk) | apply (clean_bytes _ Hv)].
Qed.

Lemma metric_of_render name ls : clean name = true -> labels_clean ls = true ->
  metric_of_id (render_id name ls) = name.
Proof.
  intros Hn Hl. unfold metric_of_id, render_id.
  rewrite split_on_app by apply (clean_bytes _ Hn).
  rewrite split_on_clean by (apply body_no_lbrace; exact Hl). reflexivity.
Qed.

Lemma join_body xs : join c_comma (map pair_str xs ++ [[]]) = body xs.
Proof.
  induction xs as [|p xs IH]; [reflexivity|]. cbn [map app]. rewrite body_cons, <- IH.
  destruct (map pair_str xs ++ [[]]) eqn:E; [destruct (map pair_str xs); discriminate|]. reflexivity.
Qed.

(* GetSeriesIdWithoutFields on a well-formed id: the labels not named in the list, in id order *)
Theorem without_fields_spec name ls fields : clean name = true -> labels_clean ls = true ->
  without_fields (render_id name ls) fields =
  render_id name (filter (fun p => negb (mem_str (fst p) fields)) ls).
Proof.
  intros Hn Hl. destruct fields as [|f0 fs]; [cbn; rewrite filter_true; reflexivity|].
  set (fields := f0 :: fs). unfold without_fields. fold fields.
  assert (Hkeep : forall xs, labels_clean xs = true ->
     filter (fun part => match split2 c_colon part with (k, Some _) => negb (mem_str k fields) | (_, None) => true end)
            (map pair_str xs ++ [[]]) =
     map pair_str (filter (fun p => negb (mem_str (fst p) fields)) xs) ++ [[]]).
  { unfold labels_clean. induction xs as [|p xs IH]; [reflexivity|]. cbn [forallb]. rewrite !andb_true_iff.
    intros [[Hk Hv] Hx]. cbn [map app filter]. unfold pair_str at 1.
    rewrite split2_app by apply (clean_bytes _ Hk). rewrite (IH Hx).
    destruct (negb (mem_str (fst p) fields)); reflexivity. }
  destruct ls as [|p ls].
  - unfold render_id. cbn [body map concat filter].
    change (name ++ [c_lbrace]) with (name ++ c_lbrace :: []).
    rewrite split_on_clean.
    + rewrite split2_app by apply (clean_bytes _ Hn). cbn. reflexivity.
    + rewrite has_byte_app. destruct (clean_bytes _ Hn) as [_ [H _]]. rewrite H. reflexivity.
  - unfold render_id. rewrite body_cons.
    assert (Hp : labels_clean [p] = true /\ labels_clean ls = true).
    { unfold labels_clean in *. cbn [forallb] in *. rewrite andb_true_iff in Hl. rewrite andb_true_r. exact Hl. }
    destruct Hp as [Hp Hls]. unfold labels_clean in Hp. cbn [forallb] in Hp. rewrite andb_true_r, andb_true_iff in Hp.
    destruct Hp as [Hk Hv].
    change (name ++ c_lbrace :: pair_str p ++ c_comma :: body ls) with (name ++ (c_lbrace :: pair_str p) ++ c_comma :: body ls).
    rewrite app_assoc, split_on_app, (split_body ls Hls).
    + cbn [app]. rewrite <- app_assoc. cbn [app]. rewrite split2_app by apply (clean_bytes _ Hn).
      change (pair_str p :: map pair_str ls ++ [[]]) with (map pair_str (p :: ls) ++ [[]]).
      rewrite (Hkeep (p :: ls) Hl), join_body. reflexivity.
    + rewrite has_byte_app. destruct (clean_bytes _ Hn) as [_ [H _]]. rewrite H. cbn.
      apply pair_has_byte; [discriminate | apply (clean_bytes _ Hk) | apply (clean_bytes _ Hv)].
Qed.

(* getAggSeriesId with a by-list on a well-formed id: the named labels that are present, in list order *)
Definition by_labels (ls : labels) (fields : list str) : labels :=
  flat_map (fun f => match lookup f ls with Some v => [(f, v)] | None => [] end) fields.

Theorem by_fields_spec name ls fields : fields <> [] ->
  forallb (extract_guard name ls) fields = true ->
  agg_series_id (render_id name ls) fields false =
  name ++ c_lbrace :: join c_comma (map pair_str (by_labels ls fields)).
Proof.
  intros Hne Hg. unfold agg_series_id. destruct fields as [|f0 fs] eqn:Ef; [congruence|]. rewrite <- Ef in *.
  assert (Hcl : clean name = true /\ labels_clean ls = true).
  { rewrite Ef in Hg. cbn [forallb] in Hg. rewrite andb_true_iff in Hg. destruct Hg as [Hg _].
    unfold extract_guard in Hg. rewrite !andb_true_iff in Hg. tauto. }
  rewrite metric_of_render by tauto. f_equal. f_equal. f_equal.
  clear Hne Ef. unfold extract_pairs, by_labels. induction fields as [|f fields IH]; [reflexivity|].
  cbn [forallb] in Hg. rewrite andb_true_iff in Hg. destruct Hg as [Hf Hg].
  cbn [flat_map]. rewrite map_app, (IH Hg), (group_key_extraction_guarded name ls f Hf).
  destruct (lookup f ls); reflexivity.
Qed.

Lemma lookup_nodup ls : NoDup (map fst ls) -> forall k v, In (k, v) ls <-> lookup k ls = Some v.
Proof.
  induction ls as [|[a w] ls IH]; intros Hn k v; cbn; [split; [tauto|discriminate]|].
  inversion Hn as [|? ? Ha Hn']; subst. destruct (str_eqb a k) eqn:E.
  - apply str_eqb_eq in E. subst a. split.
    + intros [H|H]; [congruence|]. exfalso. apply Ha. apply in_map_iff. exists (k, v). auto.
    + intros H. left. congruence.
  - apply str_eqb_neq in E. rewrite <- (IH Hn'). split; [intros [H|H]; [congruence|exact H] | auto].
Qed.

(* grouping by all labels of the id (in id order) gives the id's own label list back *)
Theorem by_all_labels_identity name ls : ls <> [] -> NoDup (map fst ls) ->
  forallb (extract_guard name ls) (map fst ls) = true ->
  agg_series_id (render_id name ls) (map fst ls) false =
  name ++ c_lbrace :: join c_comma (map pair_str ls).
Proof.
  intros Hne Hn Hg. rewrite by_fields_spec; [|destruct ls; [congruence|discriminate]|exact Hg].
  f_equal. f_equal. f_equal. unfold by_labels.
  assert (H : forall sub, (forall p, In p sub -> In p ls) ->
     flat_map (fun f => match lookup f ls with Some v => [(f, v)] | None => [] end) (map fst sub) = sub).
  { induction sub as [|[k v] sub IH]; intros Hs; [reflexivity|]. cbn [map flat_map fst].
    rewrite (proj1 (lookup_nodup ls Hn k v) (Hs _ (or_introl eq_refl))). cbn [app]. f_equal.
    apply IH. intros p Hp. apply Hs. right. exact Hp. }
  rewrite H by auto. reflexivity.
Qed.

(* witness (confirmed on the real code): labels a, ab, b, ba — the group id reports b = value of ab *)
Theorem by_all_labels_identity_refuted :
  exists name ls, ls <> [] /\ NoDup (map fst ls) /\ clean name = true /\ labels_clean ls = true /\
    agg_series_id (render_id name ls) (map fst ls) false <> name ++ c_lbrace :: join c_comma (map pair_str ls).
Proof.
  exists [109%N], [([97],[49]); ([97;98],[120]); ([98],[112]); ([98;97],[117])]%N.
  split; [discriminate|]. split.
  - repeat constructor; cbn; intuition discriminate.
  - split; [reflexivity|]. split; [reflexivity|]. vm_compute. discriminate.
Qed.

Lemma mem_str_In_ k l : mem_str k l = true <-> In k l.
Proof. exact (mem_str_In (fun _ _ => true) k l). Qed.
Lemma mem_str_false_ k l : mem_str k l = false <-> ~ In k l.
Proof. exact (mem_str_false (fun _ _ => true) k l). Qed.

(* by L  and  without (all keys \ L)  keep the same labels (all series of a metric share the key set) *)
Theorem by_without_dual name ls fields :
  NoDup (map fst ls) -> fields <> [] ->
  forallb (extract_guard name ls) fields = true ->
  let rest := filter (fun k => negb (mem_str k fields)) (map fst ls) in
  exists l1 l2,
    agg_series_id (render_id name ls) fields false = name ++ c_lbrace :: join c_comma (map pair_str l1) /\
    agg_series_id (render_id name ls) rest true = render_id name l2 /\
    forall k v, In (k, v) l1 <-> In (k, v) l2.
Proof.
  intros Hn Hne Hg rest.
  assert (Hcl : clean name = true /\ labels_clean ls = true).
  { destruct fields as [|f0 fs]; [congruence|]. cbn [forallb] in Hg. rewrite andb_true_iff in Hg. destruct Hg as [Hg _].
    unfold extract_guard in Hg. rewrite !andb_true_iff in Hg. tauto. }
  exists (by_labels ls fields), (filter (fun p => negb (mem_str (fst p) rest)) ls).
  split; [apply by_fields_spec; assumption|]. split.
  - unfold agg_series_id. apply without_fields_spec; tauto.
  - intros k v. unfold by_labels. rewrite in_flat_map, filter_In. split.
    + intros [f [Hf Hin]]. destruct (lookup f ls) as [w|] eqn:El; [|destruct Hin].
      destruct Hin as [E|[]]. injection E as <- <-. split; [apply (lookup_nodup ls Hn); exact El|].
      cbn [fst]. rewrite negb_true_iff, mem_str_false_. unfold rest. rewrite filter_In, negb_true_iff, mem_str_false_. tauto.
    + intros [Hin Hm]. cbn [fst] in Hm. rewrite negb_true_iff, mem_str_false_ in Hm. unfold rest in Hm.
      rewrite filter_In, negb_true_iff, mem_str_false_ in Hm.
      assert (Hk : In k (map fst ls)) by (apply in_map_iff; exists (k, v); auto).
      assert (Hf : In k fields).
      { destruct (mem_str k fields) eqn:E; [apply mem_str_In_; exact E|]. apply mem_str_false_ in E. tauto. }
      exists k. split; [exact Hf|]. rewrite (proj1 (lookup_nodup ls Hn k v) Hin). left. reflexivity.
Qed.

(* ---------- refutations with concrete witnesses (all confirmed on the real code) ---------- *)
Open Scope N_scope.
Definition w_m : str := [109].    (* "m" *)
Definition w_n : str := [110].    (* "n" *)
Definition w_a : str := [97].
Definition w_b : str := [98].
Definition w_db1 : list series := [ {| s_name := w_m; s_labels := [(w_a, [49])]; s_chunks := [[(10, 60)]%Z] |} ].
Definition mk (k : str) (op : mop) (v : str) : matcher := {| m_key := k; m_op := op; m_val := v |}.

(* series m{a="1"}; PromQL selects it with b!="2", b="" and b=~".*" (absent label = ""); the engine does not *)
Theorem select_absent_label_refuted (rmatch : str -> str -> bool) :
  rmatch [46; 42] [] = true ->
  exists db s, nth_error db 0 = Some s /\
    Forall (fun m => spec_selected rmatch w_m [m] s = true /\ tr_mem 0 (tracked rmatch (QSel w_m [m]) db) = false)
           [mk w_b MNe [50]; mk w_b MEq []; mk w_b MRe [46; 42]].
Proof.
  intros Hr. exists w_db1, {| s_name := w_m; s_labels := [(w_a, [49])]; s_chunks := [[(10, 60)]%Z] |}.
  split; [reflexivity|]. repeat constructor; try reflexivity.
  unfold spec_selected, spec_match. cbn. rewrite Hr. reflexivity.
Qed.

(* the guard of the selection theorem is satisfiable *)
Example select_guard_nonvacuous :
  select_guard w_m [mk w_a MNe [50]; mk w_b MRe [120; 46; 42]]
    [ {| s_name := w_m; s_labels := [(w_a, [49]); (w_b, [120; 121])]; s_chunks := [] |};
      {| s_name := w_n; s_labels := [(w_a, [49])]; s_chunks := [] |} ] = true.
Proof. reflexivity. Qed.

Example extract_guard_nonvacuous : extract_guard w_m [([97;98],[120]); (w_b,[112])] [97;98] = true /\
                                   extract_guard w_m [([97;98],[120]); (w_b,[112])] w_b = false.
Proof. split; reflexivity. Qed.

(* ---------- vector arithmetic (fixed code: fixes/C09-arith-missing-sample) ---------- *)
Section Arith.
Variable rmatch : str -> str -> bool.

Definition pair_samples (op : binop) (l1 l2 : list (Z * Q)) : list (Z * Q) :=
  flat_map (fun tv => match find (fun tv2 => Z.eqb (fst tv2) (fst tv)) l2 with
                      | Some tv2 => [(fst tv, bin_apply op (snd tv) (snd tv2))]
                      | None => []
                      end) l1.

Lemma in_pair_samples op l1 l2 t v : In (t, v) (pair_samples op l1 l2) ->
  exists x y, In (t, x) l1 /\ In (t, y) l2 /\ v = bin_apply op x y.
Proof.
  unfold pair_samples. rewrite in_flat_map. intros [[t1 x] [H1 H]]. cbn [fst snd] in H.
  destruct (find _ l2) as [[t2 y]|] eqn:F; [|destruct H]. destruct H as [E|[]]. injection E as <- <-.
  apply find_some in F. destruct F as [F1 F2]. cbn [fst] in F2. apply Z.eqb_eq in F2. subst t2.
  exists x, y. auto.
Qed.

Lemma pair_samples_times op l1 l2 t : In t (map fst (pair_samples op l1 l2)) <->
  In t (map fst l1) /\ In t (map fst l2).
Proof.
  split.
  - intros H. apply in_map_iff in H. destruct H as [[t' v] [<- H]]. apply in_pair_samples in H.
    destruct H as [x [y [H1 [H2 _]]]]. cbn [fst]. split; apply in_map_iff; [exists (t', x) | exists (t', y)]; auto.
  - intros [H1 H2]. apply in_map_iff in H1. destruct H1 as [[t1 x] [E1 H1]]. cbn [fst] in E1. subst t1.
    apply in_map_iff in H2. destruct H2 as [[t2 y] [E2 H2]]. cbn [fst] in E2. subst t2.
    destruct (find (fun tv2 => Z.eqb (fst tv2) t) l2) as [[t2 y']|] eqn:F.
    + apply in_map_iff. exists (t, bin_apply op x y'). split; [reflexivity|].
      unfold pair_samples. apply in_flat_map. exists (t, x). split; [exact H1|]. cbn [fst snd]. rewrite F. left. reflexivity.
    + exfalso. pose proof (find_none _ _ F (t, y) H2) as Hn. cbn [fst] in Hn. rewrite Z.eqb_refl in Hn. discriminate.
Qed.

Lemma run_arith_in op q1 q2 db e : In e (run_arith rmatch op q1 q2 db) ->
  exists e1 e2, In e1 (run_query rmatch q1 db) /\ In e2 (run_query rmatch q2 db) /\
    fst e = fst e1 /\ fst e2 = q_name q2 ++ skipn (length (q_name q1)) (fst e1) /\
    snd e = pair_samples op (snd e1) (snd e2) /\ snd e <> [].
Proof.
  unfold run_arith. rewrite in_flat_map. intros [e1 [H1 H]].
  destruct (find _ (run_query rmatch q2 db)) as [e2|] eqn:F; [|destruct H].
  apply find_some in F. destruct F as [F1 F2]. apply str_eqb_eq in F2.
  fold (pair_samples op (snd e1) (snd e2)) in H.
  destruct (pair_samples op (snd e1) (snd e2)) as [|p l] eqn:E; [destruct H|].
  destruct H as [<-|[]]. exists e1, e2. cbn [fst snd]. repeat split; try assumption; try (symmetry; exact E). discriminate.
Qed.

(* every output series of  q1 op q2  comes from a left series whose label text (the id minus the metric
   name) also names a right series; it has a sample exactly where BOTH series have one *)
Theorem vector_arith_matches_labels op q1 q2 db e :
  In e (run_arith rmatch op q1 q2 db) ->
  exists e1 e2, In e1 (run_query rmatch q1 db) /\ In e2 (run_query rmatch q2 db) /\
    fst e = fst e1 /\
    fst e2 = q_name q2 ++ skipn (length (q_name q1)) (fst e1) /\
    forall t, In t (map fst (snd e)) <-> In t (map fst (snd e1)) /\ In t (map fst (snd e2)).
Proof.
  intros H. destruct (run_arith_in _ _ _ _ _ H) as [e1 [e2 [H1 [H2 [H3 [H4 [H5 _]]]]]]].
  exists e1, e2. split; [exact H1|]. split; [exact H2|]. split; [exact H3|]. split; [exact H4|].
  intros t. rewrite H5. apply pair_samples_times.
Qed.

(* FULL STATEMENT (fixed code): every output sample is  left op right  of samples at the same timestamp *)
Theorem vector_arith_value op q1 q2 db e t v :
  In e (run_arith rmatch op q1 q2 db) -> In (t, v) (snd e) ->
  exists e1 e2 x y, In e1 (run_query rmatch q1 db) /\ In e2 (run_query rmatch q2 db) /\ fst e = fst e1 /\
    fst e2 = q_name q2 ++ skipn (length (q_name q1)) (fst e1) /\
    In (t, x) (snd e1) /\ In (t, y) (snd e2) /\ v = bin_apply op x y.
Proof.
  intros H Hv. destruct (run_arith_in _ _ _ _ _ H) as [e1 [e2 [H1 [H2 [H3 [H4 [H5 _]]]]]]].
  rewrite H5 in Hv. apply in_pair_samples in Hv. destruct Hv as [x [y [Hx [Hy Ev]]]].
  exists e1, e2, x, y. repeat split; assumption.
Qed.
End Arith.

(* witnesses: (1) m{a="1",b="p"} and n{a="1",b="p"} are not paired by  m{b!="zz"} + n  because the left id
   lists b first (still the code's behaviour); (2) PRE-FIX: a right-hand sample missing at t=20 was taken
   as 0; the fixed code has no output sample there *)
Definition w_db2 : list series :=
  [ {| s_name := w_m; s_labels := [(w_a, [49]); (w_b, [112])]; s_chunks := [[(10, 60); (20, 120)]%Z] |};
    {| s_name := w_n; s_labels := [(w_a, [49]); (w_b, [112])]; s_chunks := [[(10, 240)]%Z] |} ].

Theorem arith_label_order_refuted :
  let rm := fun _ _ : str => false in
  map fst (run_query rm (QSel w_m [mk w_b MNe [122; 122]]) w_db2) = [[109; 123; 98; 58; 112; 44; 97; 58; 49; 44]] /\
  map fst (run_query rm (QSel w_n []) w_db2) = [[110; 123; 97; 58; 49; 44; 98; 58; 112; 44]] /\
  run_arith rm BAdd (QSel w_m [mk w_b MNe [122; 122]]) (QSel w_n []) w_db2 = [].
Proof. vm_compute. repeat split; reflexivity. Qed.

Theorem prefix_arith_missing_sample_refuted :
  let rm := fun _ _ : str => false in
  map (fun e => map fst (snd e)) (run_query rm (QSel w_n []) w_db2) = [[10%Z]] /\
  map (fun e => map fst (snd e)) (run_arith_prefix rm BMul (QSel w_m []) (QSel w_n []) w_db2) = [[10%Z; 20%Z]].
Proof. vm_compute. split; reflexivity. Qed.

Example fixed_arith_no_sample_without_right :
  map (fun e => map fst (snd e)) (run_arith (fun _ _ => false) BMul (QSel w_m []) (QSel w_n []) w_db2) = [[10%Z]].
Proof. vm_compute. reflexivity. Qed.

(* PRE-FIX: the only series m{a="1"} satisfies the (empty) matcher list and was not found by
   sum without (a) (m); the fixed code finds it *)
Theorem prefix_without_all_labels_refuted :
  let rm := fun _ _ : str => false in
  spec_selected rm w_m [] {| s_name := w_m; s_labels := [(w_a, [49])]; s_chunks := [[(10, 60)]%Z] |} = true /\
  tracked_prefix rm (QAgg ASum (GWithout [w_a]) w_m []) w_db1 = [] /\
  run_query rm (QAgg ASum (GWithout [w_a]) w_m []) w_db1 = [([109; 123], [(10%Z, 60%Q)])].
Proof. vm_compute. repeat split; reflexivity. Qed.

Example without_guard_nonvacuous : without_guard [w_a] [mk w_b MNe [50]] = true.
Proof. reflexivity. Qed.


(* ---------- block / segment pruning by the time range is invisible ---------- *)
(* a block is skipped when CheckRangeOverLap(LowTs, HighTs) fails; [bounds] are ANY bounds of the
   timestamps in the block (the block summary covers all series of the block) *)
Theorem block_pruning_sound (lo hi : Z) (bounds : Z * Z) (pts : list pt) :
  (forall p, In p pts -> (fst bounds <= fst p <= snd bounds)%Z) ->
  read_block lo hi bounds pts = clip_pts lo hi pts.
Proof.
  intros Hb. unfold read_block. destruct (range_overlap lo hi (fst bounds) (snd bounds)) eqn:O; [reflexivity|].
  unfold clip_pts. induction pts as [|p pts IH]; [reflexivity|]. cbn [filter].
  assert (R : in_range lo hi (fst p) = false).
  { specialize (Hb p (or_introl eq_refl)). unfold range_overlap in O. unfold in_range.
    destruct (Z.leb_spec lo (fst p)), (Z.leb_spec (fst p) hi); try reflexivity. exfalso.
    destruct (Z.leb_spec lo (fst bounds)), (Z.leb_spec (fst bounds) hi), (Z.leb_spec lo (snd bounds)),
      (Z.leb_spec (snd bounds) hi), (Z.leb_spec (fst bounds) lo), (Z.leb_spec hi (snd bounds)); cbn in O; try discriminate; lia. }
  rewrite R. apply IH. intros q Hq. apply Hb. right. exact Hq.
Qed.

(* the check is not vacuous: a block around the range, and one that only touches its end, are read *)
Example range_overlap_examples :
  (range_overlap 10 20 5 30 = true /\ range_overlap 10 20 20 40 = true /\ range_overlap 10 20 21 40 = false)%Z.
Proof. repeat split. Qed.

(* ---------- the relations for whole queries (same selector, same grouping clause) ---------- *)
Section Queries.
Variable rmatch : str -> str -> bool.

Theorem min_le_avg_le_max_query g n ms db gid t mn av mx :
  result_at rmatch (QAgg AMin g n ms) db gid t = Some mn ->
  result_at rmatch (QAgg AAvg g n ms) db gid t = Some av ->
  result_at rmatch (QAgg AMax g n ms) db gid t = Some mx ->
  (mn <= av)%Q /\ (av <= mx)%Q.
Proof.
  unfold result_at. cbn [first_agg q_name].
  rewrite (tracked_fn rmatch AMin AAvg), (tracked_fn rmatch AMax AAvg) by discriminate.
  apply min_le_avg_le_max.
Qed.

Theorem avg_eq_sum_div_count_query g n ms db gid t a :
  group_list g <> [] ->
  is_without g = true \/ fst (flags (QAgg ASum g n ms)) = false ->
  forallb (fun pts => Nat.leb (length (vals_at t pts)) 1)
          (members (group_list g) (is_without g) db (tracked rmatch (QAgg AAvg g n ms) db) gid) = true ->
  result_at rmatch (QAgg AAvg g n ms) db gid t = Some a ->
  exists s c, result_at rmatch (QAgg ASum g n ms) db gid t = Some s /\
              result_at rmatch (QAgg ACount g n ms) db gid t = Some c /\
              (~ c == 0)%Q /\ (a == s / c)%Q.
Proof.
  intros Hg Hc Hd. unfold result_at. cbn [first_agg q_name].
  rewrite (tracked_fn rmatch ASum AAvg) by discriminate.
  rewrite (tracked_count rmatch g n ms db AAvg Hg Hc).
  intros Ha. destruct (avg_eq_sum_div_count _ _ _ _ _ _ _ _ Hd Ha) as [s [c [H1 [H2 [H3 [H4 H5]]]]]].
  exists s, c. repeat split; try assumption. apply H3. exact Hg.
Qed.
End Queries.

(* ProtoProofs.v — C16 lemmas and theorems about SigM.Proto. *)
From SigM Require Import Base Proto.
From SigP Require Import BaseProofs.
From Coq Require Import Lia ZifyN ZifyNat ZifyBool String.
Ltac Zify.zify_post_hook ::= Z.div_mod_to_equations.
Open Scope N_scope.

(* ================= 1. unit logic ================= *)

Lemma wrap64_small n : n < 18446744073709551616 -> wrap64 n = n.
Proof. intros H. unfold wrap64. apply N.mod_small. exact H. Qed.

Lemma u64_nonneg z : (0 <= z < 18446744073709551616)%Z -> u64 z = Z.to_N z.
Proof. intros H. unfold u64. rewrite Z.mod_small by exact H. reflexivity. Qed.

Lemma u64_of_N n : n < 18446744073709551616 -> u64 (Z.of_N n) = n.
Proof. intros H. rewrite u64_nonneg by lia. lia. Qed.

(* seconds: every value below the milli threshold is multiplied by 1000 *)
Lemma str_seconds s : s < MILLI_T -> str_ts_ms s = instant_ms USec s.
Proof.
  intros H. unfold str_ts_ms, is_time_in_nano, is_time_in_milli, MILLI_T, NANO_T, instant_ms in *.
  destruct (N.leb_spec 1000000000000000000 s); [lia|].
  destruct (N.leb_spec 99999999999 s); [lia|].
  apply wrap64_small. lia.
Qed.

Lemma num_seconds s : s < MILLI_T -> num_ts_ms (Z.of_N s) = instant_ms USec s.
Proof.
  intros H. unfold num_ts_ms, MILLI_T in *. rewrite u64_of_N by lia.
  unfold is_time_in_milli, MILLI_T, instant_ms.
  destruct (N.leb_spec 99999999999 s); [lia|]. apply wrap64_small. lia.
Qed.

Lemma str_millis m : MILLI_T <= m -> m < NANO_T -> str_ts_ms m = instant_ms UMilli m.
Proof.
  intros H1 H2. unfold str_ts_ms, is_time_in_nano, is_time_in_milli, MILLI_T, NANO_T, instant_ms in *.
  destruct (N.leb_spec 1000000000000000000 m); [lia|].
  destruct (N.leb_spec 99999999999 m); [reflexivity|lia].
Qed.

Lemma num_millis m : MILLI_T <= m -> m < 9223372036854775808 -> num_ts_ms (Z.of_N m) = instant_ms UMilli m.
Proof.
  intros H1 H2. unfold num_ts_ms, MILLI_T in *. rewrite u64_of_N by lia.
  unfold is_time_in_milli, MILLI_T, instant_ms.
  destruct (N.leb_spec 99999999999 m); [reflexivity|lia].
Qed.

Lemma str_nanos n : NANO_T <= n -> str_ts_ms n = instant_ms UNano n.
Proof.
  intros H. unfold str_ts_ms, is_time_in_nano, is_time_in_milli, MILLI_T, NANO_T, instant_ms in *.
  destruct (N.leb_spec 1000000000000000000 n); [|lia].
  destruct (N.leb_spec 99999999999 (n / 1000000)); [reflexivity|lia].
Qed.

(* the three classes partition N, with the stated boundaries, and the string reader
   normalises every value according to its class *)
Lemma unit_partition v :
  (v < MILLI_T /\ str_unit_class v = USec) \/
  (MILLI_T <= v < NANO_T /\ str_unit_class v = UMilli) \/
  (NANO_T <= v /\ str_unit_class v = UNano).
Proof.
  unfold str_unit_class, is_time_in_nano, is_time_in_milli, MILLI_T, NANO_T.
  destruct (N.leb_spec 1000000000000000000 v); [right; right; split; [lia|reflexivity]|].
  destruct (N.leb_spec 99999999999 v); [right; left; split; [lia|reflexivity]|].
  left. split; [lia|reflexivity].
Qed.

Lemma str_by_class v : str_ts_ms v = instant_ms (str_unit_class v) v.
Proof.
  destruct (unit_partition v) as [[H E]|[[H E]|[H E]]]; rewrite E.
  - apply str_seconds, H.
  - apply str_millis; lia.
  - apply str_nanos, H.
Qed.

Lemma num_by_class v : v < 9223372036854775808 ->
  num_ts_ms (Z.of_N v) = instant_ms (num_unit_class v) v.
Proof.
  intros Hv. unfold num_unit_class. destruct (is_time_in_milli v) eqn:E.
  - apply num_millis; [|exact Hv]. unfold is_time_in_milli in E. lia.
  - apply num_seconds. unfold is_time_in_milli in E. lia.
Qed.

Definition unit_partition_stmt : Prop :=
  (forall v, (v < MILLI_T /\ str_unit_class v = USec) \/
             (MILLI_T <= v < NANO_T /\ str_unit_class v = UMilli) \/
             (NANO_T <= v /\ str_unit_class v = UNano)) /\
  (forall v, str_ts_ms v = instant_ms (str_unit_class v) v) /\
  (forall v, v < 9223372036854775808 -> num_ts_ms (Z.of_N v) = instant_ms (num_unit_class v) v) /\
  MILLI_T = 99999999999 /\ NANO_T = 1000000000000000000 /\
  str_unit_class 99999999998 = USec /\ str_unit_class 99999999999 = UMilli /\
  str_unit_class 999999999999999999 = UMilli /\ str_unit_class 1000000000000000000 = UNano /\
  num_unit_class 99999999998 = USec /\ num_unit_class 1000000000000000000 = UMilli.

Lemma unit_partition_all : unit_partition_stmt.
Proof.
  unfold unit_partition_stmt. split; [exact unit_partition|].
  split; [exact str_by_class|]. split; [exact num_by_class|].
  repeat split; reflexivity.
Qed.

(* values of a unit outside its class are read as another instant (boundary witnesses):
   a millisecond instant of 1973, a microsecond value, a numeric nanosecond value *)
Lemma unit_misread :
  str_ts_ms 99999999998 <> instant_ms UMilli 99999999998 /\
  str_ts_ms 1600000000123456 <> 1600000000123456 / 1000 /\
  num_ts_ms 1600000000123456789 <> instant_ms UNano 1600000000123456789 /\
  str_ts_ms 999999999999999999 <> instant_ms UNano 999999999999999999 /\
  str_ts_ms 0 = 0.
Proof. repeat split; vm_compute; congruence. Qed.

(* metric readers: seconds resolution (uint32) *)
Lemma u32_small n : n < 4294967296 -> u32 (Z.of_N n) = n.
Proof. intros H. unfold u32. rewrite Z.mod_small by lia. lia. Qed.

Lemma otsdb_seconds s : s < 4294967296 -> otsdb_ts (Z.of_N s) = s.
Proof.
  intros H. unfold otsdb_ts. rewrite u64_of_N by lia.
  unfold is_time_in_milli, MILLI_T. destruct (N.leb_spec 99999999999 s); [lia|]. apply u32_small, H.
Qed.

Lemma otsdb_millis m : MILLI_T <= m -> m / 1000 < 4294967296 -> otsdb_ts (Z.of_N m) = m / 1000.
Proof.
  intros H1 H2. unfold otsdb_ts, MILLI_T in *. rewrite u64_of_N by lia.
  unfold is_time_in_milli, MILLI_T. destruct (N.leb_spec 99999999999 m); [|lia].
  rewrite Z.quot_div_nonneg by lia. rewrite <- (u32_small (m / 1000)) by exact H2. f_equal. lia.
Qed.

Lemma prom_millis m : MILLI_T <= m -> m / 1000 < 4294967296 -> prom_ts (Z.of_N m) = m / 1000.
Proof.
  intros H1 H2. unfold prom_ts, MILLI_T in *. rewrite u64_of_N by lia.
  unfold is_time_in_nano, is_time_in_milli, MILLI_T, NANO_T.
  destruct (N.leb_spec 1000000000000000000 m); [lia|].
  destruct (N.leb_spec 99999999999 m); [|lia].
  rewrite Z.quot_div_nonneg by lia. rewrite <- (u32_small (m / 1000)) by exact H2. f_equal. lia.
Qed.

Lemma prom_nanos n : NANO_T <= n -> n < 9223372036854775808 -> n / 1000000000 < 4294967296 ->
  prom_ts (Z.of_N n) = n / 1000000000.
Proof.
  intros H1 H2 H3. unfold prom_ts, NANO_T in *. rewrite u64_of_N by lia.
  unfold is_time_in_nano, NANO_T.
  destruct (N.leb_spec 1000000000000000000 n); [|lia].
  rewrite Z.quot_div_nonneg by lia.
  rewrite <- (u32_small (n / 1000000000)) by lia. f_equal. lia.
Qed.

Lemma prom_seconds s : s < 4294967296 -> prom_ts (Z.of_N s) = s.
Proof.
  intros H. unfold prom_ts. rewrite u64_of_N by lia.
  unfold is_time_in_nano, is_time_in_milli, MILLI_T, NANO_T.
  destruct (N.leb_spec 1000000000000000000 s); [lia|].
  destruct (N.leb_spec 99999999999 s); [lia|]. apply u32_small, H.
Qed.

Lemma norm_seconds_ranges :
  (forall s, 0 < s <= 1000000000000 -> s < 4294967296 -> norm_int_to_seconds (Z.of_N s) = Some s) /\
  (forall m, 1000000000000 < m <= 1000000000000000000 -> m / 1000 < 4294967296 ->
             norm_int_to_seconds (Z.of_N m) = Some (m / 1000)) /\
  (forall n, 1000000000000000000 < n -> n < 9223372036854775808 -> n / 1000000000 < 4294967296 ->
             norm_int_to_seconds (Z.of_N n) = Some (n / 1000000000)) /\
  (forall z, (z <= 0)%Z -> norm_int_to_seconds z = None).
Proof.
  repeat split.
  - intros s H1 H2. unfold norm_int_to_seconds.
    destruct (Z.ltb_spec 1000000000000000000 (Z.of_N s)); [lia|].
    destruct (Z.ltb_spec 1000000000000 (Z.of_N s)); [lia|].
    destruct (Z.ltb_spec 0 (Z.of_N s)); [|lia]. f_equal. apply u32_small, H2.
  - intros m H1 H2. unfold norm_int_to_seconds.
    destruct (Z.ltb_spec 1000000000000000000 (Z.of_N m)); [lia|].
    destruct (Z.ltb_spec 1000000000000 (Z.of_N m)); [|lia].
    f_equal. rewrite Z.quot_div_nonneg by lia. rewrite <- (u32_small (m / 1000)) by exact H2. f_equal. lia.
  - intros n H1 H2 H3. unfold norm_int_to_seconds.
    destruct (Z.ltb_spec 1000000000000000000 (Z.of_N n)); [|lia].
    f_equal. rewrite Z.quot_div_nonneg by lia. rewrite <- (u32_small (n / 1000000000)) by lia. f_equal. lia.
  - intros z H. unfold norm_int_to_seconds.
    destruct (Z.ltb_spec 1000000000000000000 z); [lia|].
    destruct (Z.ltb_spec 1000000000000 z); [lia|].
    destruct (Z.ltb_spec 0 z); [lia|reflexivity].
Qed.

(* float64 of an integer *)
Lemma f64_round_pos_small p : p < 9007199254740992 -> f64_round_pos p = p.
Proof.
  intros H. unfold f64_round_pos.
  destruct (N.eq_dec p 0) as [->|Hp]; [reflexivity|].
  assert (N.size p <= 53).
  { rewrite N.size_log2 by exact Hp.
    assert (N.log2 p < 53) by (apply N.log2_lt_pow2; [lia|exact H]). lia. }
  destruct (N.leb_spec (N.size p) 53); [reflexivity|lia].
Qed.

Lemma f64_round_small z : (Z.abs z < 9007199254740992)%Z -> f64_round z = z.
Proof.
  intros H. destruct z as [|p|p]; cbn [f64_round]; [reflexivity| |].
  - rewrite f64_round_pos_small by lia. reflexivity.
  - rewrite f64_round_pos_small by lia. reflexivity.
Qed.

Lemma f64_text_small z : (Z.abs z < 9007199254740992)%Z -> f64_text z = z.
Proof.
  intros H. destruct z as [|p|p]; cbn [f64_text]; [reflexivity| |]; unfold f64_text_pos.
  - destruct (N.ltb_spec (N.pos p) 9007199254740992); [reflexivity|lia].
  - destruct (N.ltb_spec (N.pos p) 9007199254740992); [reflexivity|lia].
Qed.

Lemma f64_round_witness : f64_text 9007199254740993 = 9007199254740992%Z /\
                          f64_text 9007199254740992 = 9007199254740992%Z /\
                          f64_text 9007199254740995 = 9007199254740996%Z /\
                          f64_text (-9007199254740993) = (-9007199254740992)%Z /\
                          f64_round 4611686018427387905 = 4611686018427387904%Z /\
                          f64_text 4611686018427387905 = 4611686018427388000%Z.
Proof. repeat split; vm_compute; reflexivity. Qed.

(* ================= 2. association lists ================= *)

Lemma bytes_eqb_refl a : bytes_eqb a a = true.
Proof. unfold bytes_eqb. induction a as [|x a IH]; cbn; [reflexivity|]. rewrite N.eqb_refl. exact IH. Qed.

Lemma bytes_eqb_eq a : forall b, bytes_eqb a b = true <-> a = b.
Proof.
  unfold bytes_eqb. induction a as [|x a IH]; intros [|y b]; cbn; split; intros H; try reflexivity; try discriminate.
  - apply andb_true_iff in H as [H1 H2]. apply N.eqb_eq in H1. apply IH in H2. congruence.
  - injection H as -> ->. rewrite N.eqb_refl. apply IH. reflexivity.
Qed.

Lemma bytes_eqb_neq a b : a <> b -> bytes_eqb a b = false.
Proof. intros H. destruct (bytes_eqb a b) eqn:E; [apply bytes_eqb_eq in E; contradiction|reflexivity]. Qed.

Lemma bytes_eqb_sym a b : bytes_eqb a b = bytes_eqb b a.
Proof.
  destruct (bytes_eqb a b) eqn:E.
  - apply bytes_eqb_eq in E. subst. symmetry. apply bytes_eqb_refl.
  - destruct (bytes_eqb b a) eqn:E'; [|reflexivity]. apply bytes_eqb_eq in E'. subst.
    rewrite bytes_eqb_refl in E. discriminate.
Qed.

Lemma bytes_eqb_app p a b : bytes_eqb (p ++ a) (p ++ b) = bytes_eqb a b.
Proof. unfold bytes_eqb. induction p as [|x p IH]; cbn; [reflexivity|]. rewrite N.eqb_refl. exact IH. Qed.

Lemma prefix_eqb_app p k : prefix_eqb p (p ++ k) = true.
Proof. induction p as [|x p IH]; cbn; [reflexivity|]. rewrite N.eqb_refl. exact IH. Qed.

Lemma prefix_eqb_false_neq p k s : prefix_eqb p s = false -> bytes_eqb (p ++ k) s = false.
Proof.
  intros H. apply bytes_eqb_neq. intros <-. rewrite prefix_eqb_app in H. discriminate.
Qed.

Lemma lookup_app k a b :
  lookup k (a ++ b) = match lookup k a with Some v => Some v | None => lookup k b end.
Proof.
  induction a as [|[k' v] a IH]; cbn; [reflexivity|].
  destruct (bytes_eqb k' k); [reflexivity|exact IH].
Qed.

Lemma lookup_none_iff k e : lookup k e = None <-> forallb (fun f => negb (bytes_eqb (fst f) k)) e = true.
Proof.
  induction e as [|[k' v] e IH]; cbn; [tauto|].
  destruct (bytes_eqb k' k); cbn; [split; discriminate|exact IH].
Qed.

Lemma lookup_add_prefix_same p k e : lookup (p ++ k) (add_prefix p e) = lookup k e.
Proof.
  unfold add_prefix. induction e as [|[k' v] e IH]; cbn; [reflexivity|].
  rewrite bytes_eqb_app. destruct (bytes_eqb k' k); [reflexivity|exact IH].
Qed.

Lemma lookup_add_prefix_other p s e : prefix_eqb p s = false -> lookup s (add_prefix p e) = None.
Proof.
  intros H. unfold add_prefix. induction e as [|[k' v] e IH]; cbn; [reflexivity|].
  rewrite (prefix_eqb_false_neq p k' s H). exact IH.
Qed.

Lemma lookup_map_prefix p (g : sval -> sval) k e :
  lookup (p ++ k) (map (fun kv => (p ++ fst kv, g (snd kv))) e) = option_map g (lookup k e).
Proof.
  induction e as [|[k' v] e IH]; cbn; [reflexivity|].
  rewrite bytes_eqb_app. destruct (bytes_eqb k' k); [reflexivity|exact IH].
Qed.

Lemma lookup_map_prefix_other p (g : sval -> sval) s e :
  prefix_eqb p s = false -> lookup s (map (fun kv => (p ++ fst kv, g (snd kv))) e) = None.
Proof.
  intros H. induction e as [|[k' v] e IH]; cbn; [reflexivity|].
  rewrite (prefix_eqb_false_neq p k' s H). exact IH.
Qed.

Lemma lookup_map_val (g : sval -> sval) k e :
  lookup k (map (fun kv => (fst kv, g (snd kv))) e) = option_map g (lookup k e).
Proof.
  induction e as [|[k' v] e IH]; cbn; [reflexivity|].
  destruct (bytes_eqb k' k); [reflexivity|exact IH].
Qed.

Lemma lookup_map_set k k' v m :
  lookup k (map_set k' v m) = if bytes_eqb k' k then Some v else lookup k m.
Proof.
  induction m as [|[k0 v0] m IH]; cbn.
  - destruct (bytes_eqb k' k); reflexivity.
  - destruct (bytes_eqb k0 k') eqn:E0; cbn.
    + apply bytes_eqb_eq in E0. subst k0. destruct (bytes_eqb k' k); reflexivity.
    + destruct (bytes_eqb k0 k) eqn:E1.
      * apply bytes_eqb_eq in E1. subst k0. rewrite bytes_eqb_sym, E0. reflexivity.
      * exact IH.
Qed.

Lemma lookup_map_set_all k kvs : forall m,
  lookup k (map_set_all kvs m) =
  match lookup k (map_set_all kvs []) with Some v => Some v | None => lookup k m end.
Proof.
  unfold map_set_all. induction kvs as [|[k' v] kvs IH]; intros m; cbn [fold_left fst snd]; [reflexivity|].
  rewrite (IH (map_set k' v m)). rewrite (IH (map_set k' v [])).
  match goal with |- context [match ?X with Some _ => _ | None => _ end] => destruct X end; [reflexivity|].
  rewrite !lookup_map_set. cbn. destruct (bytes_eqb k' k); reflexivity.
Qed.

(* a key that no pair carries is not in the folded map *)
Lemma lookup_map_set_all_none k kvs :
  forallb (fun f => negb (bytes_eqb (fst f) k)) kvs = true -> lookup k (map_set_all kvs []) = None.
Proof.
  assert (G : forall m, forallb (fun f => negb (bytes_eqb (fst f) k)) kvs = true ->
                        lookup k m = None -> lookup k (map_set_all kvs m) = None).
  { unfold map_set_all. induction kvs as [|[k' v] kvs IH]; intros m H Hm; cbn [fold_left fst snd]; [exact Hm|].
    cbn in H. apply andb_true_iff in H as [H1 H2]. apply IH; [exact H2|].
    rewrite lookup_map_set. apply negb_true_iff in H1. rewrite H1. exact Hm. }
  intros H. apply G; [exact H|reflexivity].
Qed.

(* for a list without repeated keys the folded map is the list itself *)
Lemma lookup_map_set_all_nodup k kvs :
  NoDup (map fst kvs) -> lookup k (map_set_all kvs []) = lookup k kvs.
Proof.
  induction kvs as [|[k' v] kvs IH]; intros Hnd; [reflexivity|].
  inversion Hnd as [|? ? Hnin Hnd']; subst.
  change (map_set_all ((k', v) :: kvs) []) with (map_set_all kvs (map_set k' v [])).
  rewrite lookup_map_set_all. rewrite (IH Hnd'). cbn.
  destruct (bytes_eqb k' k) eqn:E.
  - apply bytes_eqb_eq in E. subst k'.
    assert (lookup k kvs = None) as ->; [|reflexivity].
    apply lookup_none_iff. apply forallb_forall. intros [k1 v1] Hin. cbn.
    apply negb_true_iff. apply bytes_eqb_neq. intros ->. apply Hnin.
    apply in_map_iff. exists (k, v1). split; [reflexivity|exact Hin].
  - destruct (lookup k kvs); reflexivity.
Qed.

(* ================= 3. the time pipeline ================= *)

Definition plain_index (index : bytes) : Prop := prefix_eqb p_jaeger index = false.

Lemma index_ts_key_plain index : plain_index index -> index_ts_key index = k_timestamp.
Proof. unfold plain_index, index_ts_key. intros ->. reflexivity. Qed.

(* the time set by GetNewPLE or by a decoder never survives ProcessIndexRequestPle *)
Lemma final_ts_ignores_decoder x e index dec dec' now0 now0' tsNow clock :
  final_ts x e index dec now0 tsNow clock = final_ts x e index dec' now0' tsNow clock.
Proof. reflexivity. Qed.

Lemma final_ts_no_key x e index dec now0 tsNow clock :
  lookup (index_ts_key index) e = None -> final_ts x e index dec now0 tsNow clock = tsNow.
Proof. intros H. unfold final_ts, index_req_ts, extract_ts. rewrite H. reflexivity. Qed.

Lemma final_ts_num x e index dec now0 tsNow clock z :
  lookup (index_ts_key index) e = Some (SInt z) -> in_int64 z = true -> num_ts_ms z <> 0 ->
  final_ts x e index dec now0 tsNow clock = num_ts_ms z.
Proof.
  intros H Hi Hz. unfold final_ts, index_req_ts, extract_ts, int_lit_ts. rewrite H, Hi.
  destruct (N.eqb_spec (num_ts_ms z) 0); [contradiction|reflexivity].
Qed.

(* a number spelled with a fraction or an exponent goes through the float reader *)
Lemma final_ts_dec x e index dec now0 tsNow clock m ex :
  lookup (index_ts_key index) e = Some (SDec m ex) -> flt_ts_ms (dec_u64 m ex) <> 0 ->
  final_ts x e index dec now0 tsNow clock = flt_ts_ms (dec_u64 m ex).
Proof.
  intros H Hz. unfold final_ts, index_req_ts, extract_ts. rewrite H.
  destruct (N.eqb_spec (flt_ts_ms (dec_u64 m ex)) 0); [contradiction|reflexivity].
Qed.

Lemma final_ts_bigint x e index dec now0 tsNow clock z :
  lookup (index_ts_key index) e = Some (SInt z) -> in_int64 z = false -> flt_ts_ms (dec_u64 z 0) <> 0 ->
  final_ts x e index dec now0 tsNow clock = flt_ts_ms (dec_u64 z 0).
Proof.
  intros H Hi Hz. unfold final_ts, index_req_ts, extract_ts, int_lit_ts. rewrite H, Hi.
  destruct (N.eqb_spec (flt_ts_ms (dec_u64 z 0)) 0); [contradiction|reflexivity].
Qed.

(* the unit step on the value a reader returned: the instant of its class, never 0 for t > 0 *)
Lemma flt_ts_by_class t : 0 < t -> t < 18446744073709551616 ->
  flt_ts_ms t = instant_ms (num_unit_class t) t /\ flt_ts_ms t <> 0.
Proof.
  intros H0 H1. unfold flt_ts_ms, num_unit_class. destruct (is_time_in_milli t) eqn:E; unfold instant_ms.
  - split; [reflexivity|lia].
  - unfold is_time_in_milli, MILLI_T in E. rewrite wrap64_small by lia. split; [reflexivity|lia].
Qed.

Lemma final_ts_str x e index dec now0 tsNow clock s v :
  lookup (index_ts_key index) e = Some (SStr s) -> parse_uint s = Some v -> str_ts_ms v <> 0 ->
  final_ts x e index dec now0 tsNow clock = str_ts_ms v.
Proof.
  intros H Hp Hz. unfold final_ts, index_req_ts, extract_ts. rewrite H, Hp.
  destruct (N.eqb_spec (str_ts_ms v) 0); [contradiction|reflexivity].
Qed.

(* ranges in which a (unit, value) pair on the wire denotes the instant the reader computes *)
Definition in_range_num (u : tunit) (v : N) : bool :=
  match u with
  | USec => (0 <? v) && (v <? MILLI_T)
  | UMilli => (MILLI_T <=? v) && (v <? 9223372036854775808)
  | UNano => false
  end.
Definition in_range_str (u : tunit) (v : N) : bool :=
  match u with
  | USec => (0 <? v) && (v <? MILLI_T)
  | UMilli => (MILLI_T <=? v) && (v <? NANO_T)
  | UNano => (NANO_T <=? v) && (v <? 18446744073709551616)
  end.

Lemma in_range_num_ok u v : in_range_num u v = true ->
  num_ts_ms (Z.of_N v) = instant_ms u v /\ instant_ms u v <> 0.
Proof.
  destruct u; cbn [in_range_num]; intros H; try discriminate.
  - apply andb_true_iff in H as [H1 H2]. rewrite num_seconds by lia. unfold instant_ms. lia.
  - apply andb_true_iff in H as [H1 H2]. rewrite num_millis by lia. unfold instant_ms, MILLI_T in *. lia.
Qed.

Lemma in_range_str_ok u v : in_range_str u v = true ->
  str_ts_ms v = instant_ms u v /\ instant_ms u v <> 0.
Proof.
  destruct u; cbn [in_range_str]; intros H; apply andb_true_iff in H as [H1 H2].
  - rewrite str_seconds by lia. unfold instant_ms. lia.
  - rewrite str_millis by lia. unfold instant_ms, MILLI_T in *. lia.
  - rewrite str_nanos by lia. unfold instant_ms, NANO_T in *. lia.
Qed.

(* ================= 4. Elasticsearch bulk / doc ================= *)

Lemma in_range_num_int64 u v : in_range_num u v = true -> in_int64 (Z.of_N v) = true.
Proof.
  unfold in_int64. destruct u; cbn [in_range_num]; intros H; try discriminate;
  apply andb_true_iff in H as [H1 H2]; unfold MILLI_T in *; lia.
Qed.

Theorem es_time_num x u v attrs index dec now0 tsNow clock :
  plain_index index -> in_range_num u v = true ->
  final_ts x (es_build (WNum (Z.of_N v)) attrs) index dec now0 tsNow clock = instant_ms u v.
Proof.
  intros Hi Hr. destruct (in_range_num_ok u v Hr) as [E Hnz].
  rewrite (final_ts_num x _ index dec now0 tsNow clock (Z.of_N v)).
  - exact E.
  - rewrite (index_ts_key_plain index Hi). unfold es_build, ts_field. cbn [app lookup].
    rewrite bytes_eqb_refl. reflexivity.
  - apply (in_range_num_int64 u v Hr).
  - rewrite E. exact Hnz.
Qed.

(* ---- the time key follows the REAL index: aliases and jaeger-* indices (ES bulk) ---- *)
Definition jaeger_index (index : bytes) : Prop := prefix_eqb p_jaeger index = true.

Lemma index_ts_key_jaeger index : jaeger_index index -> index_ts_key index = k_jaeger_ts.
Proof. unfold jaeger_index, index_ts_key. intros ->. reflexivity. Qed.

Lemma lookup_jaeger_key_es_build t attrs :
  lookup k_jaeger_ts (es_build t attrs) = lookup k_jaeger_ts attrs.
Proof.
  unfold es_build, ts_field. destruct t; cbn [app lookup]; try reflexivity;
  change (bytes_eqb k_timestamp k_jaeger_ts) with false; reflexivity.
Qed.

(* a document sent under ANY name (index or alias) that resolves to a plain index is stored with
   the time its `timestamp` carries, whatever else the document holds *)
Theorem es_route_plain_time_num x al name u v attrs dec now0 tsNow clock :
  plain_index (real_index al name) -> in_range_num u v = true ->
  final_ts x (es_build (WNum (Z.of_N v)) attrs) (real_index al name) dec now0 tsNow clock = instant_ms u v.
Proof. intros Hi Hr. apply es_time_num; assumption. Qed.

(* a document sent under any name that resolves to a jaeger-* index is stored with the time its
   `startTimeMillis` carries; a `timestamp` field of the document plays no role *)
Theorem es_route_jaeger_time_num x al name u v t attrs dec now0 tsNow clock :
  jaeger_index (real_index al name) -> lookup k_jaeger_ts attrs = Some (SInt (Z.of_N v)) ->
  in_range_num u v = true ->
  final_ts x (es_build t attrs) (real_index al name) dec now0 tsNow clock = instant_ms u v.
Proof.
  intros Hj Hl Hr. destruct (in_range_num_ok u v Hr) as [E Hnz].
  rewrite (final_ts_num x _ (real_index al name) dec now0 tsNow clock (Z.of_N v)).
  - exact E.
  - rewrite (index_ts_key_jaeger _ Hj), lookup_jaeger_key_es_build. exact Hl.
  - apply (in_range_num_int64 u v Hr).
  - rewrite E. exact Hnz.
Qed.

(* without the key of its real index the document gets the arrival time *)
Theorem es_route_jaeger_no_time x al name t attrs dec now0 tsNow clock :
  jaeger_index (real_index al name) -> lookup k_jaeger_ts attrs = None ->
  final_ts x (es_build t attrs) (real_index al name) dec now0 tsNow clock = tsNow.
Proof.
  intros Hj Hl. apply final_ts_no_key. rewrite (index_ts_key_jaeger _ Hj), lookup_jaeger_key_es_build. exact Hl.
Qed.

(* the requested name matters only through what it resolves to *)
Theorem es_route_name_irrelevant x al n1 n2 e dec now0 tsNow clock :
  real_index al n1 = real_index al n2 ->
  final_ts x e (real_index al n1) dec now0 tsNow clock = final_ts x e (real_index al n2) dec now0 tsNow clock.
Proof. intros ->. reflexivity. Qed.

Example es_route_alias_resolves :
  real_index [(s2b "spans-write", s2b "jaeger-span")] (s2b "spans-write") = s2b "jaeger-span"
  /\ jaeger_index (real_index [(s2b "spans-write", s2b "jaeger-span")] (s2b "spans-write"))
  /\ plain_index (s2b "spans-write").
Proof. repeat split; vm_compute; reflexivity. Qed.


(* ANY numeric spelling: fraction, exponent, or an integer literal beyond int64.  With t the
   value the float reader returns (uint64 of the nearest float64), the stored time is the
   instant of t's unit class -- it does not depend on the arrival time *)
Theorem es_time_dec x m ex attrs index dec now0 tsNow clock :
  plain_index index -> 0 < dec_u64 m ex -> dec_u64 m ex < 18446744073709551616 ->
  final_ts x (es_build (WDec m ex) attrs) index dec now0 tsNow clock =
  instant_ms (num_unit_class (dec_u64 m ex)) (dec_u64 m ex).
Proof.
  intros Hi H0 H1. destruct (flt_ts_by_class _ H0 H1) as [E Hnz].
  rewrite (final_ts_dec x _ index dec now0 tsNow clock m ex).
  - exact E.
  - rewrite (index_ts_key_plain index Hi). unfold es_build, ts_field. cbn [app lookup].
    rewrite bytes_eqb_refl. reflexivity.
  - exact Hnz.
Qed.

Theorem es_time_bigint x z attrs index dec now0 tsNow clock :
  plain_index index -> in_int64 z = false -> 0 < dec_u64 z 0 -> dec_u64 z 0 < 18446744073709551616 ->
  final_ts x (es_build (WNum z) attrs) index dec now0 tsNow clock =
  instant_ms (num_unit_class (dec_u64 z 0)) (dec_u64 z 0).
Proof.
  intros Hi Hz H0 H1. destruct (flt_ts_by_class _ H0 H1) as [E Hnz].
  rewrite (final_ts_bigint x _ index dec now0 tsNow clock z).
  - exact E.
  - rewrite (index_ts_key_plain index Hi). unfold es_build, ts_field. cbn [app lookup].
    rewrite bytes_eqb_refl. reflexivity.
  - exact Hz.
  - exact Hnz.
Qed.

(* what the float reader returns for some spellings of 2024-04-29T01:01:30.251Z and others *)
Lemma dec_u64_values :
  dec_u64 1714352490251 (-3) = 1714352490 /\              (* 1714352490.251     seconds, fraction cut *)
  dec_u64 1714352490251 0 = 1714352490251 /\              (* 1.714352490251e12  milliseconds *)
  dec_u64 17143524902515 (-1) = 1714352490251 /\          (* 1714352490251.5 *)
  dec_u64 1714352490 0 = 1714352490 /\                    (* 1.71435249e9 *)
  dec_u64 17143524909999999999 (-10) = 1714352491 /\      (* 1714352490.9999999999 is the double 1714352491 *)
  dec_u64 9223372036854775808 0 = 9223372036854775808 /\  (* 2^63, beyond int64 *)
  dec_u64 9223372036854775809 0 = 9223372036854775808 /\
  dec_u64 9007199254740993 0 = 9007199254740992.
Proof. repeat split; vm_compute; reflexivity. Qed.

(* the instant a fractional-seconds number denotes is NOT what is stored: the fraction is cut *)
Theorem es_fractional_seconds_refuted : exists m ex,
  dec_true_ms m ex = 1714352490251 /\
  instant_ms (num_unit_class (dec_u64 m ex)) (dec_u64 m ex) = 1714352490000.
Proof. exists 1714352490251%Z, (-3)%Z. split; vm_compute; reflexivity. Qed.

(* guarded: when the float reader returns the exact integer part and the number is in the
   millisecond class (or has no fraction), the stored time is the denoted instant *)
Theorem es_time_dec_exact_guarded m ex :
  dec_u64 m ex = dec_floor m ex -> (is_time_in_milli (dec_floor m ex) = true \/ dec_floor m (ex + 3) = dec_floor m ex * 1000) ->
  instant_ms (num_unit_class (dec_u64 m ex)) (dec_u64 m ex) = dec_true_ms m ex.
Proof.
  intros E H. rewrite E. unfold dec_true_ms, num_unit_class.
  destruct (is_time_in_milli (dec_floor m ex)) eqn:C; cbn [instant_ms]; [reflexivity|].
  destruct H as [H|H]; [discriminate|]. rewrite H. reflexivity.
Qed.

Theorem es_time_str x u s v attrs index dec now0 tsNow clock :
  plain_index index -> parse_uint s = Some v -> in_range_str u v = true ->
  final_ts x (es_build (WStr s) attrs) index dec now0 tsNow clock = instant_ms u v.
Proof.
  intros Hi Hp Hr. destruct (in_range_str_ok u v Hr) as [E Hnz].
  rewrite (final_ts_str x _ index dec now0 tsNow clock s v).
  - exact E.
  - rewrite (index_ts_key_plain index Hi). unfold es_build, ts_field. cbn [app lookup].
    rewrite bytes_eqb_refl. reflexivity.
  - exact Hp.
  - rewrite E. exact Hnz.
Qed.

Theorem es_time_absent x attrs index dec now0 tsNow clock :
  plain_index index -> lookup k_timestamp attrs = None ->
  final_ts x (es_build WNone attrs) index dec now0 tsNow clock = tsNow.
Proof.
  intros Hi Hn. apply final_ts_no_key. rewrite (index_ts_key_plain index Hi). exact Hn.
Qed.

(* the document's fields are stored as sent *)
Theorem es_fields t attrs : stored_fields (es_build t attrs) = stored_fields attrs.
Proof.
  unfold stored_fields, es_build. rewrite filter_app.
  destruct t; cbn [ts_field filter visible fst snd app]; try rewrite bytes_eqb_refl; reflexivity.
Qed.

Theorem es_field_kept t attrs k v :
  In (k, v) attrs -> k <> k_timestamp -> In (k, v) (stored_fields (es_build t attrs)).
Proof.
  intros Hin Hk. rewrite es_fields. unfold stored_fields. apply filter_In. split; [exact Hin|].
  unfold visible. cbn [fst snd]. rewrite (bytes_eqb_neq k k_timestamp Hk). reflexivity.
Qed.

(* and nothing else is stored *)
Theorem es_field_only t attrs k v :
  In (k, v) (stored_fields (es_build t attrs)) -> In (k, v) attrs.
Proof. rewrite es_fields. unfold stored_fields. intros H. apply filter_In in H. tauto. Qed.

(* ================= 5. Splunk HEC ================= *)

(* envelope keys (host, source, sourcetype, extra root keys) that are neither the
   timestamp key nor inside the "event." name space *)
Definition hec_plain_keys (h : hec) : bool :=
  forallb (fun f => negb (bytes_eqb (fst f) k_timestamp) && negb (prefix_eqb p_event (fst f)))
          (h_meta h ++ h_root h).

Lemma hec_plain_split h : hec_plain_keys h = true ->
  forallb (fun f => negb (bytes_eqb (fst f) k_timestamp)) (h_meta h) = true /\
  forallb (fun f => negb (bytes_eqb (fst f) k_timestamp)) (h_root h) = true /\
  forallb (fun f => negb (prefix_eqb p_event (fst f))) (h_meta h) = true /\
  forallb (fun f => negb (prefix_eqb p_event (fst f))) (h_root h) = true.
Proof.
  unfold hec_plain_keys. rewrite forallb_app. intros H. apply andb_true_iff in H as [H1 H2].
  repeat split; apply forallb_forall; intros f Hf;
    [ rewrite forallb_forall in H1; specialize (H1 f Hf)
    | rewrite forallb_forall in H2; specialize (H2 f Hf)
    | rewrite forallb_forall in H1; specialize (H1 f Hf)
    | rewrite forallb_forall in H2; specialize (H2 f Hf) ];
    apply andb_true_iff in H1 || apply andb_true_iff in H2; tauto.
Qed.

Lemma lookup_ts_mapval (g : sval -> sval) e :
  forallb (fun f => negb (bytes_eqb (fst f) k_timestamp)) e = true ->
  lookup k_timestamp (map (fun kv => (fst kv, g (snd kv))) e) = None.
Proof. intros H. rewrite lookup_map_val. apply lookup_none_iff in H. rewrite H. reflexivity. Qed.

(* whatever "time" the HEC envelope carries, the stored time is the arrival time *)
Theorem hec_time_always_arrival x h index dec now0 tsNow clock :
  plain_index index -> hec_plain_keys h = true ->
  final_ts x (hec_build h) index dec now0 tsNow clock = tsNow.
Proof.
  intros Hi Hk. apply final_ts_no_key. rewrite (index_ts_key_plain index Hi).
  destruct (hec_plain_split h Hk) as (M1 & R1 & _ & _).
  unfold hec_build. rewrite !lookup_app.
  destruct (h_time h); cbn [lookup];
  change (bytes_eqb k_index k_timestamp) with false; change (bytes_eqb k_time k_timestamp) with false; cbn iota.
  all: 
  rewrite (lookup_ts_mapval via_f64 _ M1), (lookup_ts_mapval via_f64 _ R1);
  (destruct (h_event h) as [s0|fs]; [reflexivity|]);
  apply lookup_map_prefix_other; reflexivity.
Qed.

(* the instant carried by the envelope: "time" in epoch seconds *)
Definition hec_carried_ms (h : hec) : option N :=
  match h_time h with Some (SInt s) => Some (Z.to_N s * 1000) | _ => None end.

Theorem hec_time_guarded x h index dec now0 tsNow clock :
  plain_index index -> hec_plain_keys h = true -> h_time h = None ->
  final_ts x (hec_build h) index dec now0 tsNow clock =
  match hec_carried_ms h with Some t => t | None => tsNow end.
Proof.
  intros Hi Hk Ht. rewrite hec_time_always_arrival by assumption.
  unfold hec_carried_ms. rewrite Ht. reflexivity.
Qed.

Definition hec_witness : hec :=
  {| h_time := Some (SInt 1600000000); h_index := s2b "main"; h_meta := []; h_root := [];
     h_event := HObj [(s2b "big", SInt 9007199254740993)] |}.

Theorem hec_time_refuted : exists h tsNow,
  hec_plain_keys h = true /\
  final_ts no_ext (hec_build h) (h_index h) None tsNow tsNow tsNow <>
  match hec_carried_ms h with Some t => t | None => tsNow end.
Proof. exists hec_witness, 1790000000000. split; [reflexivity|]. vm_compute. congruence. Qed.

(* fields of the event object: column "event.<k>", value through float64 *)
Theorem hec_field_column h fs k v :
  h_event h = HObj fs -> hec_plain_keys h = true -> lookup k fs = Some v ->
  lookup (p_event ++ k) (hec_build h) = Some (via_f64 v).
Proof.
  intros He Hk Hl. destruct (hec_plain_split h Hk) as (_ & _ & M2 & R2).
  unfold hec_build. rewrite !lookup_app.
  assert (G : forall e, forallb (fun f => negb (prefix_eqb p_event (fst f))) e = true ->
                        lookup (p_event ++ k) (map (fun kv => (fst kv, via_f64 (snd kv))) e) = None).
  { intros e H. rewrite lookup_map_val.
    assert (lookup (p_event ++ k) e = None) as ->; [|reflexivity].
    apply lookup_none_iff. apply forallb_forall. intros f Hf. rewrite forallb_forall in H.
    specialize (H f Hf). apply negb_true_iff in H. apply negb_true_iff. apply bytes_eqb_neq.
    intros E. rewrite E, prefix_eqb_app in H. discriminate. }
  destruct (h_time h); cbn [lookup];
  change (bytes_eqb k_index (p_event ++ k)) with false; change (bytes_eqb k_time (p_event ++ k)) with false; cbn iota;
  rewrite (G _ M2), (G _ R2); rewrite He;
  rewrite (lookup_map_prefix p_event via_f64); rewrite Hl; reflexivity.
Qed.

Definition exact53 (v : sval) : bool :=
  match v with SInt z => (Z.abs z <? 9007199254740992)%Z | _ => true end.

Lemma via_f64_exact v : exact53 v = true -> via_f64 v = v.
Proof.
  destruct v; cbn; intros H; try reflexivity. rewrite f64_text_small by lia. reflexivity.
Qed.

Theorem hec_fields_guarded h fs k v :
  h_event h = HObj fs -> hec_plain_keys h = true -> lookup k fs = Some v -> exact53 v = true ->
  lookup (p_event ++ k) (hec_build h) = Some v.
Proof.
  intros He Hk Hl Hx. rewrite (hec_field_column h fs k v He Hk Hl). rewrite via_f64_exact by exact Hx. reflexivity.
Qed.

Theorem hec_fields_refuted : exists h fs k v,
  h_event h = HObj fs /\ hec_plain_keys h = true /\ lookup k fs = Some v /\
  lookup (p_event ++ k) (hec_build h) <> Some v.
Proof.
  exists hec_witness, [(s2b "big", SInt 9007199254740993)], (s2b "big"), (SInt 9007199254740993).
  repeat split; vm_compute; congruence.
Qed.

Lemma col_prefix_injective (p k1 k2 : bytes) : p ++ k1 = p ++ k2 -> k1 = k2.
Proof. apply app_inv_head. Qed.

(* ================= 6. Loki ================= *)

Lemma lookup_loki_apply k m l :
  lookup k (loki_apply m l) =
  match lookup k (map_set_all (ll_meta l) []) with
  | Some v => Some v
  | None => if bytes_eqb k_line k then Some (SStr (ll_line l))
            else if bytes_eqb k_timestamp k then Some (SStr (ll_ts l))
            else lookup k m
  end.
Proof. unfold loki_apply. rewrite lookup_map_set_all, !lookup_map_set. reflexivity. Qed.

Lemma loki_stream_nth m pre l post :
  nth_error (loki_stream m (pre ++ l :: post)) (List.length pre) = Some (loki_apply (fold_left loki_apply pre m) l).
Proof.
  revert m. induction pre as [|l0 pre IH]; intros m; cbn; [reflexivity|]. apply IH.
Qed.

Lemma loki_stream_length m ls : List.length (loki_stream m ls) = List.length ls.
Proof. revert m. induction ls as [|l ls IH]; intros m; cbn; [reflexivity|]. rewrite IH. reflexivity. Qed.

Definition ev_equiv (a b : event) : Prop := forall k, lookup k a = lookup k b.

(* lines without structured metadata leave nothing behind *)
Lemma loki_no_meta_prefix pre : Forall (fun l0 => ll_meta l0 = []) pre ->
  forall m l, ev_equiv (loki_apply (fold_left loki_apply pre m) l) (loki_apply m l).
Proof.
  induction 1 as [|l0 pre H0 _ IH]; intros m l k; cbn [fold_left]; [reflexivity|].
  rewrite (IH (loki_apply m l0) l k). rewrite !lookup_loki_apply. rewrite H0.
  change (map_set_all [] []) with (@nil field). cbn [lookup].
  destruct (lookup k (map_set_all (ll_meta l) [])); [reflexivity|].
  destruct (bytes_eqb k_line k); [reflexivity|].
  destruct (bytes_eqb k_timestamp k); reflexivity.
Qed.

(* every line of every stream is stored as its own labels + time + text + metadata say *)
Lemma loki_build_nth labels pre l post :
  nth_error (loki_build labels (pre ++ l :: post)) (List.length pre) = Some (loki_line_spec labels l).
Proof.
  unfold loki_build. rewrite map_app. cbn [map].
  rewrite nth_error_app2 by (rewrite map_length; lia). rewrite map_length, Nat.sub_diag. reflexivity.
Qed.

Theorem loki_fields labels pre l post :
  nth_error (loki_build labels (pre ++ l :: post)) (List.length pre) = Some (loki_line_spec labels l).
Proof. apply loki_build_nth. Qed.

Definition loki_w1 : loki_line := {| ll_ts := s2b "1600000000123456789"; ll_line := s2b "one"; ll_meta := [(s2b "trace", SStr (s2b "T1"))] |}.
Definition loki_w2 : loki_line := {| ll_ts := s2b "1600000001123456789"; ll_line := s2b "two"; ll_meta := [] |}.

(* regression witness of the repaired defect: line two is stored without the metadata of line one *)
Lemma loki_fixed_no_carry :
  exists e, nth_error (loki_build [(s2b "job", SStr (s2b "j"))] [loki_w1; loki_w2]) 1 = Some e /\
            lookup (s2b "trace") e = None /\ lookup (s2b "job") e = Some (SStr (s2b "j")).
Proof. eexists. split; [vm_compute; reflexivity|]. split; vm_compute; reflexivity. Qed.

(* time of a line: its own timestamp string, unless its metadata has a "timestamp" key *)
Theorem loki_time_guarded x labels pre l post index dec now0 tsNow clock u v :
  plain_index index ->
  lookup k_timestamp (map_set_all (ll_meta l) []) = None ->
  parse_uint (ll_ts l) = Some v -> in_range_str u v = true ->
  exists e, nth_error (loki_build labels (pre ++ l :: post)) (List.length pre) = Some e /\
            final_ts x e index dec now0 tsNow clock = instant_ms u v.
Proof.
  intros Hi Hm Hp Hr. rewrite loki_build_nth. eexists. split; [reflexivity|].
  destruct (in_range_str_ok u v Hr) as [E Hnz].
  rewrite (final_ts_str x _ index dec now0 tsNow clock (ll_ts l) v).
  - exact E.
  - rewrite (index_ts_key_plain index Hi). unfold loki_line_spec. rewrite lookup_loki_apply, Hm.
    change (bytes_eqb k_line k_timestamp) with false. cbn iota. rewrite bytes_eqb_refl. reflexivity.
  - exact Hp.
  - rewrite E. exact Hnz.
Qed.

(* ---- PRE-FIX documentation: [loki_build_prefix], one map per stream ---- *)
(* guarded: if no earlier line of the stream carried structured metadata, line number |pre|
   was stored as a fresh map per line would store it *)
Theorem prefix_loki_fields_guarded labels pre l post :
  Forall (fun l0 => ll_meta l0 = []) pre ->
  exists e, nth_error (loki_build_prefix labels (pre ++ l :: post)) (List.length pre) = Some e /\
            ev_equiv e (loki_line_spec labels l).
Proof.
  intros H. unfold loki_build_prefix. rewrite loki_stream_nth. eexists. split; [reflexivity|].
  apply loki_no_meta_prefix, H.
Qed.

(* the defect, for every stream: a metadata pair of line i that line i+1 does not set
   itself was stored with line i+1 *)
Theorem prefix_loki_metadata_carried labels pre l1 l2 post k v :
  lookup k (map_set_all (ll_meta l1) []) = Some v ->
  lookup k (map_set_all (ll_meta l2) []) = None ->
  bytes_eqb k_line k = false -> bytes_eqb k_timestamp k = false ->
  exists e, nth_error (loki_build_prefix labels (pre ++ l1 :: l2 :: post)) (S (List.length pre)) = Some e /\
            lookup k e = Some v.
Proof.
  intros H1 H2 Hl Ht. unfold loki_build_prefix.
  replace (pre ++ l1 :: l2 :: post) with ((pre ++ [l1]) ++ l2 :: post) by (rewrite <- app_assoc; reflexivity).
  replace (S (List.length pre)) with (List.length (pre ++ [l1])) by (rewrite app_length; cbn; lia).
  rewrite loki_stream_nth. eexists. split; [reflexivity|].
  rewrite fold_left_app. cbn [fold_left].
  rewrite lookup_loki_apply, H2, Hl, Ht. rewrite lookup_loki_apply, H1. reflexivity.
Qed.

Theorem prefix_loki_fields_refuted : exists labels l1 l2 e k,
  nth_error (loki_build_prefix labels [l1; l2]) 1 = Some e /\
  lookup k e <> lookup k (loki_line_spec labels l2).
Proof.
  exists [(s2b "job", SStr (s2b "j"))], loki_w1, loki_w2.
  eexists. exists (s2b "trace"). split; [vm_compute; reflexivity|]. vm_compute. congruence.
Qed.

(* ================= 7. OTLP logs ================= *)

Lemma otlp_log_no_ts_key res sc r : lookup k_timestamp (otlp_log_build res sc r) = None.
Proof.
  unfold otlp_log_build. rewrite !lookup_app.
  rewrite (lookup_add_prefix_other (s2b "resource.attributes.")) by reflexivity.
  rewrite (lookup_add_prefix_other (s2b "scope.attributes.")) by reflexivity.
  rewrite (lookup_add_prefix_other (s2b "attributes.")) by reflexivity.
  reflexivity.
Qed.

(* every OTLP log record is stored with the arrival time, whatever time it carried *)
Theorem otlp_log_time_always_arrival x res sc r index now0 tsNow clock :
  plain_index index ->
  final_ts x (otlp_log_build res sc r) index (otlp_log_dec r) now0 tsNow clock = tsNow.
Proof.
  intros Hi. apply final_ts_no_key. rewrite (index_ts_key_plain index Hi). apply otlp_log_no_ts_key.
Qed.

(* the time the record carries, at the store's resolution; 0 = none *)
Definition otlp_carried_ms (r : otlp_rec) : N := o_time r / 1000000.

Theorem otlp_log_time_guarded x res sc r index now0 tsNow clock :
  plain_index index -> otlp_carried_ms r = 0 ->
  final_ts x (otlp_log_build res sc r) index (otlp_log_dec r) now0 tsNow clock =
  if 0 <? otlp_carried_ms r then otlp_carried_ms r else tsNow.
Proof.
  intros Hi H0. rewrite otlp_log_time_always_arrival by exact Hi. rewrite H0. reflexivity.
Qed.

(* before ProcessIndexRequestPle re-extracts, the PLE does hold the record's time *)
Theorem otlp_log_decoder_stage x res sc r now0 clock :
  0 < otlp_carried_ms r ->
  decoder_set (otlp_log_dec r) (ple_new x (otlp_log_build res sc r) k_timestamp now0 clock) = otlp_carried_ms r.
Proof.
  intros H. unfold decoder_set, otlp_log_dec, otlp_carried_ms in *.
  destruct (N.ltb_spec 0 (o_time r / 1000000)); [reflexivity|lia].
Qed.

Definition otlp_w_res : otlp_res := {| r_attrs := []; r_dropped := 0; r_schema := [] |}.
Definition otlp_w_sc : otlp_scope := {| sc_name := []; sc_version := []; sc_attrs := []; sc_dropped := 0; sc_schema := [] |}.
Definition otlp_w_rec : otlp_rec :=
  {| o_time := 1600000000123456789; o_observed := 0; o_sevnum := 9; o_sevtext := s2b "INFO"; o_body := SStr (s2b "hello");
     o_attrs := []; o_dropped := 0; o_flags := 0; o_trace := []; o_span := [] |}.

Theorem otlp_log_time_refuted : exists res sc r tsNow,
  final_ts no_ext (otlp_log_build res sc r) (s2b "otel-logs") (otlp_log_dec r) tsNow tsNow tsNow <>
  (if 0 <? otlp_carried_ms r then otlp_carried_ms r else tsNow).
Proof. exists otlp_w_res, otlp_w_sc, otlp_w_rec, 1790000000000. vm_compute. congruence. Qed.

(* attribute -> column: three disjoint name spaces, each injective, every scalar kept *)
Theorem otlp_log_record_attr res sc r k :
  lookup (s2b "attributes." ++ k) (otlp_log_build res sc r) = lookup k (map_set_all (o_attrs r) []).
Proof.
  unfold otlp_log_build. rewrite !lookup_app.
  rewrite (lookup_add_prefix_other (s2b "resource.attributes.")) by reflexivity.
  rewrite (lookup_add_prefix_other (s2b "scope.attributes.")) by reflexivity.
  rewrite lookup_add_prefix_same.
  cbn [lookup].
  repeat match goal with |- context [bytes_eqb ?a (s2b "attributes." ++ k)] =>
    change (bytes_eqb a (s2b "attributes." ++ k)) with false end.
  cbn iota.
  destruct (lookup k (map_set_all (o_attrs r) [])); reflexivity.
Qed.

Theorem otlp_log_resource_attr res sc r k :
  lookup (s2b "resource.attributes." ++ k) (otlp_log_build res sc r) = lookup k (map_set_all (r_attrs res) []).
Proof.
  unfold otlp_log_build. rewrite !lookup_app. rewrite lookup_add_prefix_same.
  destruct (lookup k (map_set_all (r_attrs res) [])) eqn:E; [reflexivity|].
  cbn [lookup].
  repeat match goal with |- context [bytes_eqb ?a (s2b "resource.attributes." ++ k)] =>
    change (bytes_eqb a (s2b "resource.attributes." ++ k)) with false end.
  cbn iota.
  rewrite (lookup_add_prefix_other (s2b "scope.attributes.")) by reflexivity.
  rewrite (lookup_add_prefix_other (s2b "attributes.")) by reflexivity.
  reflexivity.
Qed.

Theorem otlp_log_scope_attr res sc r k :
  lookup (s2b "scope.attributes." ++ k) (otlp_log_build res sc r) = lookup k (map_set_all (sc_attrs sc) []).
Proof.
  unfold otlp_log_build. rewrite !lookup_app.
  rewrite (lookup_add_prefix_other (s2b "resource.attributes.")) by reflexivity.
  cbn [lookup].
  repeat match goal with |- context [bytes_eqb ?a (s2b "scope.attributes." ++ k)] =>
    change (bytes_eqb a (s2b "scope.attributes." ++ k)) with false end.
  cbn iota.
  rewrite lookup_add_prefix_same.
  destruct (lookup k (map_set_all (sc_attrs sc) [])) eqn:E; [reflexivity|].
  rewrite (lookup_add_prefix_other (s2b "attributes.")) by reflexivity.
  reflexivity.
Qed.

Theorem otlp_log_ids res sc r :
  o_trace r <> [] -> o_span r <> [] ->
  lookup (s2b "trace_id") (otlp_log_build res sc r) = Some (SStr (o_trace r)) /\
  lookup (s2b "span_id") (otlp_log_build res sc r) = Some (SStr (o_span r)) /\
  lookup (s2b "time_unix_nano") (otlp_log_build res sc r) = Some (SInt (Z.of_N (o_time r))) /\
  lookup (s2b "body") (otlp_log_build res sc r) = Some (o_body r).
Proof.
  intros Ht Hs. unfold otlp_log_build. rewrite !lookup_app.
  repeat split;
  rewrite ?(lookup_add_prefix_other (s2b "resource.attributes.")) by reflexivity;
  rewrite ?(lookup_add_prefix_other (s2b "scope.attributes.")) by reflexivity;
  rewrite ?(lookup_add_prefix_other (s2b "attributes.")) by reflexivity;
  cbn [lookup];
  repeat match goal with |- context [bytes_eqb (s2b ?a) (s2b ?b)] =>
    let c := eval vm_compute in (bytes_eqb (s2b a) (s2b b)) in
    change (bytes_eqb (s2b a) (s2b b)) with c end;
  cbn iota; try reflexivity.
  - unfold id_or_attr. destruct (o_trace r); [contradiction|reflexivity].
  - unfold id_or_attr. destruct (o_span r); [contradiction|reflexivity].
Qed.

(* ---- the two trace-context identifiers of a log record, each on its own ---- *)
Ltac otlp_fixed_lookup :=
  unfold otlp_log_build; rewrite !lookup_app;
  rewrite ?(lookup_add_prefix_other (s2b "resource.attributes.")) by reflexivity;
  rewrite ?(lookup_add_prefix_other (s2b "scope.attributes.")) by reflexivity;
  rewrite ?(lookup_add_prefix_other (s2b "attributes.")) by reflexivity;
  cbn [lookup];
  repeat match goal with |- context [bytes_eqb (s2b ?a) (s2b ?b)] =>
    let c := eval vm_compute in (bytes_eqb (s2b a) (s2b b)) in
    change (bytes_eqb (s2b a) (s2b b)) with c end;
  cbn iota.

Lemma id_or_attr_spec id name attrs :
  id_or_attr id name attrs = otlp_id_spec id (lookup name (map_set_all attrs [])).
Proof. unfold id_or_attr, otlp_id_spec. destruct id; reflexivity. Qed.

Lemma otlp_log_lookup_trace res sc r :
  lookup (s2b "trace_id") (otlp_log_build res sc r) =
  Some (SStr (otlp_id_spec (o_trace r) (otlp_rec_attr (s2b "trace_id") r))).
Proof. otlp_fixed_lookup. rewrite id_or_attr_spec. reflexivity. Qed.

Lemma otlp_log_lookup_span res sc r :
  lookup (s2b "span_id") (otlp_log_build res sc r) =
  Some (SStr (otlp_id_spec (o_span r) (otlp_rec_attr (s2b "span_id") r))).
Proof. otlp_fixed_lookup. rewrite id_or_attr_spec. reflexivity. Qed.

(* for EVERY record: each stored identifier is a function of its own field and of the attribute of the
   same name, nothing else *)
Theorem otlp_log_ids_any res sc r :
  lookup (s2b "trace_id") (otlp_log_build res sc r) =
    Some (SStr (otlp_id_spec (o_trace r) (otlp_rec_attr (s2b "trace_id") r))) /\
  lookup (s2b "span_id") (otlp_log_build res sc r) =
    Some (SStr (otlp_id_spec (o_span r) (otlp_rec_attr (s2b "span_id") r))).
Proof. split; [apply otlp_log_lookup_trace | apply otlp_log_lookup_span]. Qed.

(* an identifier in its own field is stored as it is -- no condition on the other identifier or on any attribute *)
Theorem otlp_log_id_own_field res sc r :
  (o_trace r <> [] -> lookup (s2b "trace_id") (otlp_log_build res sc r) = Some (SStr (o_trace r))) /\
  (o_span r <> [] -> lookup (s2b "span_id") (otlp_log_build res sc r) = Some (SStr (o_span r))).
Proof.
  split; intros H.
  - rewrite otlp_log_lookup_trace. unfold otlp_id_spec. destruct (o_trace r); [contradiction|reflexivity].
  - rewrite otlp_log_lookup_span. unfold otlp_id_spec. destruct (o_span r); [contradiction|reflexivity].
Qed.

(* an identifier carried only as an attribute reaches the stored field -- no condition on the other identifier *)
Theorem otlp_log_id_from_attribute res sc r v :
  (o_trace r = [] -> otlp_rec_attr (s2b "trace_id") r = Some v ->
   lookup (s2b "trace_id") (otlp_log_build res sc r) = Some (SStr (fmt_v v))) /\
  (o_span r = [] -> otlp_rec_attr (s2b "span_id") r = Some v ->
   lookup (s2b "span_id") (otlp_log_build res sc r) = Some (SStr (fmt_v v))).
Proof.
  split; intros H Ha.
  - rewrite otlp_log_lookup_trace, H, Ha. reflexivity.
  - rewrite otlp_log_lookup_span, H, Ha. reflexivity.
Qed.

Theorem otlp_log_id_absent res sc r :
  (o_trace r = [] -> otlp_rec_attr (s2b "trace_id") r = None ->
   lookup (s2b "trace_id") (otlp_log_build res sc r) = Some (SStr [])) /\
  (o_span r = [] -> otlp_rec_attr (s2b "span_id") r = None ->
   lookup (s2b "span_id") (otlp_log_build res sc r) = Some (SStr [])).
Proof.
  split; intros H Ha.
  - rewrite otlp_log_lookup_trace, H, Ha. reflexivity.
  - rewrite otlp_log_lookup_span, H, Ha. reflexivity.
Qed.

(* two records (of any resources / scopes) that agree on ONE identifier's field and attribute store the same
   value for it, however they differ in the other identifier and everywhere else *)
Theorem otlp_log_ids_independent res sc r res' sc' r' :
  (o_trace r = o_trace r' -> otlp_rec_attr (s2b "trace_id") r = otlp_rec_attr (s2b "trace_id") r' ->
   lookup (s2b "trace_id") (otlp_log_build res sc r) = lookup (s2b "trace_id") (otlp_log_build res' sc' r')) /\
  (o_span r = o_span r' -> otlp_rec_attr (s2b "span_id") r = otlp_rec_attr (s2b "span_id") r' ->
   lookup (s2b "span_id") (otlp_log_build res sc r) = lookup (s2b "span_id") (otlp_log_build res' sc' r')).
Proof.
  split; intros H Ha.
  - rewrite !otlp_log_lookup_trace, H, Ha. reflexivity.
  - rewrite !otlp_log_lookup_span, H, Ha. reflexivity.
Qed.

(* the fall-back reads the attribute, it does not consume it *)
Theorem otlp_log_id_attr_kept res sc r :
  lookup (s2b "attributes.trace_id") (otlp_log_build res sc r) = otlp_rec_attr (s2b "trace_id") r /\
  lookup (s2b "attributes.span_id") (otlp_log_build res sc r) = otlp_rec_attr (s2b "span_id") r.
Proof.
  split.
  - exact (otlp_log_record_attr res sc r (s2b "trace_id")).
  - exact (otlp_log_record_attr res sc r (s2b "span_id")).
Qed.

(* all 16 ways of carrying the two identifiers, any values *)
Theorem otlp_log_ids_sixteen res sc tm sm tf ta sf sa :
  tm < 4 -> sm < 4 ->
  lookup (s2b "trace_id") (otlp_log_build res sc (otlp_id_rec tm sm tf ta sf sa)) =
    Some (SStr (otlp_id_carried tm tf ta)) /\
  lookup (s2b "span_id") (otlp_log_build res sc (otlp_id_rec tm sm tf ta sf sa)) =
    Some (SStr (otlp_id_carried sm sf sa)).
Proof.
  intros Ht Hs.
  assert (Et : tm = 0 \/ tm = 1 \/ tm = 2 \/ tm = 3) by lia.
  assert (Es : sm = 0 \/ sm = 1 \/ sm = 2 \/ sm = 3) by lia.
  rewrite otlp_log_lookup_trace, otlp_log_lookup_span. unfold otlp_rec_attr.
  destruct Et as [->|[->|[->| ->]]]; destruct Es as [->|[->|[->| ->]]];
    cbn; destruct tf; destruct sf; split; reflexivity.
Qed.

(* the function with ONE guard for both fall-backs is the same on records that carry both identifiers the same
   way (both in their fields, or neither in its field) ... *)
Theorem otlp_ids_one_guard_same_on_uniform r :
  (o_trace r <> [] /\ o_span r <> []) \/ (o_trace r = [] /\ o_span r = []) ->
  otlp_ids_one_guard r =
  (otlp_id_spec (o_trace r) (otlp_rec_attr (s2b "trace_id") r), otlp_id_spec (o_span r) (otlp_rec_attr (s2b "span_id") r)).
Proof.
  unfold otlp_ids_one_guard, otlp_id_spec. intros [[Ht Hs]|[Ht Hs]].
  - destruct (o_trace r); [contradiction|]. destruct (o_span r); [contradiction|]. reflexivity.
  - rewrite Ht, Hs. destruct (otlp_rec_attr (s2b "span_id") r); reflexivity.
Qed.

(* ... and a different function on records that carry them differently: a span id in its own field is overwritten,
   a span id carried as an attribute next to a trace id field is not taken *)
Theorem otlp_ids_one_guard_differs : exists r1 r2,
  o_span r1 <> [] /\ snd (otlp_ids_one_guard r1) <> o_span r1 /\
  o_span r2 = [] /\ otlp_rec_attr (s2b "span_id") r2 = Some (SStr (s2b "b7ad6b7169203331")) /\
  snd (otlp_ids_one_guard r2) = [].
Proof.
  exists (otlp_id_rec 1 2 [] (s2b "0af7651916cd43dd8448eb211c80319c") (s2b "deadbeef00112233") (s2b "b7ad6b7169203331")),
         (otlp_id_rec 0 1 (s2b "0af7651916cd43dd8448eb211c80319c") [] [] (s2b "b7ad6b7169203331")).
  vm_compute. repeat split; congruence.
Qed.

(* ================= 8. OTLP traces ================= *)

Definition span_fixed (s : span) : event :=
  map_set_all
    [(s2b "trace_id", SStr (sp_trace s)); (s2b "span_id", SStr (sp_span s));
     (s2b "parent_span_id", SStr (sp_parent s)); (s2b "service", SStr (sp_service s));
     (s2b "trace_state", SStr (sp_state s)); (s2b "name", SStr (sp_name s));
     (s2b "kind", SStr (span_kind_name (sp_kind s)));
     (s2b "start_time", SInt (Z.of_N (sp_start s))); (s2b "end_time", SInt (Z.of_N (sp_end s)));
     (s2b "duration", SInt (Z.of_N (wrap64 (sp_end s + 18446744073709551616 - sp_start s))));
     (s2b "dropped_attributes_count", SInt (Z.of_N (sp_datt s)));
     (s2b "dropped_events_count", SInt (Z.of_N (sp_dev s)));
     (s2b "dropped_links_count", SInt (Z.of_N (sp_dlink s)));
     (s2b "status", SStr (status_name (sp_status s)))] [].

Lemma span_build_eq s :
  span_build s = map_set_all (sp_attrs s) (span_fixed s) ++ [(s2b "events", SStr (s2b "null")); (s2b "links", SStr (s2b "[]"))].
Proof. reflexivity. Qed.

Lemma span_fixed_no_ts s : lookup k_timestamp (span_fixed s) = None.
Proof. reflexivity. Qed.

(* a span is stored with the arrival time unless one of its attributes is called "timestamp" *)
Theorem span_time_always_arrival x s index dec now0 tsNow clock :
  plain_index index -> lookup k_timestamp (map_set_all (sp_attrs s) []) = None ->
  final_ts x (span_build s) index dec now0 tsNow clock = tsNow.
Proof.
  intros Hi Ha. apply final_ts_no_key. rewrite (index_ts_key_plain index Hi).
  rewrite span_build_eq, lookup_app, lookup_map_set_all, Ha, span_fixed_no_ts. reflexivity.
Qed.

Definition span_carried_ms (s : span) : N := sp_start s / 1000000.

Definition span_w : span :=
  {| sp_trace := s2b "0102030405060708090a0b0c0d0e0f10"; sp_span := s2b "0102030405060708"; sp_parent := [];
     sp_service := s2b "svc"; sp_state := []; sp_name := s2b "op"; sp_kind := 2;
     sp_start := 1600000000123456789; sp_end := 1600000000223456789;
     sp_datt := 0; sp_dev := 0; sp_dlink := 0; sp_status := Some 1; sp_attrs := [] |}.

Theorem span_time_refuted : exists s tsNow,
  final_ts no_ext (span_build s) (s2b "traces") None tsNow tsNow tsNow <>
  (if 0 <? span_carried_ms s then span_carried_ms s else tsNow).
Proof. exists span_w, 1790000000000. vm_compute. congruence. Qed.

(* attributes live in the root name space of the span document: an attribute is stored
   under its own name, and it replaces a span field of the same name *)
Theorem span_attr_column s k v :
  lookup k (map_set_all (sp_attrs s) []) = Some v -> lookup k (span_build s) = Some v.
Proof. intros H. rewrite span_build_eq, lookup_app, lookup_map_set_all, H. reflexivity. Qed.

Theorem span_ids_guarded s :
  lookup (s2b "trace_id") (map_set_all (sp_attrs s) []) = None ->
  lookup (s2b "span_id") (map_set_all (sp_attrs s) []) = None ->
  lookup (s2b "start_time") (map_set_all (sp_attrs s) []) = None ->
  lookup (s2b "trace_id") (span_build s) = Some (SStr (sp_trace s)) /\
  lookup (s2b "span_id") (span_build s) = Some (SStr (sp_span s)) /\
  lookup (s2b "start_time") (span_build s) = Some (SInt (Z.of_N (sp_start s))).
Proof.
  intros H1 H2 H3. rewrite span_build_eq.
  repeat split; rewrite lookup_app, (lookup_map_set_all _ _ (span_fixed s)), ?H1, ?H2, ?H3; reflexivity.
Qed.

(* ---- whole requests: nothing is carried from one resource / scope / record to the next ---- *)

Lemma trace_request_app a b : trace_request (a ++ b) = trace_request a ++ trace_request b.
Proof. induction a as [|r a IH]; cbn; [reflexivity|]. rewrite IH, app_assoc. reflexivity. Qed.

(* the spans of a resource are stored with the service name of THEIR resource, whatever
   resources precede or follow it in the export request *)
Theorem trace_request_own_service pre r post :
  trace_request (pre ++ r :: post) =
  trace_request pre ++
  map (fun s => span_build (set_service (service_scan [] (rs_attrs r)) s)) (rs_spans r) ++
  trace_request post.
Proof. rewrite trace_request_app. reflexivity. Qed.

Lemma service_scan_absent init attrs :
  forallb (fun f => negb (bytes_eqb (fst f) k_service_name)) attrs = true -> service_scan init attrs = init.
Proof.
  unfold service_scan. revert init. induction attrs as [|[k v] attrs IH]; intros init H; cbn; [reflexivity|].
  cbn in H. apply andb_true_iff in H as [H1 H2]. apply negb_true_iff in H1. rewrite H1. apply IH, H2.
Qed.

Lemma span_build_service s svc : lookup (s2b "service") (map_set_all (sp_attrs s) []) = None ->
  lookup (s2b "service") (span_build (set_service svc s)) = Some (SStr svc).
Proof.
  intros H. rewrite span_build_eq, lookup_app. cbn [set_service sp_attrs].
  rewrite (lookup_map_set_all _ _ (span_fixed _)), H. reflexivity.
Qed.

(* a resource without a service.name attribute: its spans have the empty service name *)
Theorem trace_service_not_inherited pre r post s :
  forallb (fun f => negb (bytes_eqb (fst f) k_service_name)) (rs_attrs r) = true ->
  In s (rs_spans r) -> lookup (s2b "service") (map_set_all (sp_attrs s) []) = None ->
  exists e, In e (trace_request (pre ++ r :: post)) /\ e = span_build (set_service [] s) /\
            lookup (s2b "service") e = Some (SStr []).
Proof.
  intros Hn Hin Ha. exists (span_build (set_service [] s)). split; [|split; [reflexivity|apply span_build_service, Ha]].
  rewrite trace_request_own_service. apply in_or_app. right. apply in_or_app. left.
  rewrite (service_scan_absent [] _ Hn). apply in_map_iff. exists s. split; [reflexivity|exact Hin].
Qed.

Definition span_w0 : span := set_service [] span_w.
(* what the loop would do with the variable declared outside (the inherited-service mutant) *)
Theorem trace_request_carried_differs : exists rs,
  trace_request_carried [] rs <> trace_request rs.
Proof.
  exists [ {| rs_attrs := [(k_service_name, SStr (s2b "checkout"))]; rs_spans := [span_w0] |};
           {| rs_attrs := []; rs_spans := [span_w0] |} ].
  vm_compute. congruence.
Qed.

Lemma logs_request_recs_app a b : logs_request_recs (a ++ b) = logs_request_recs a ++ logs_request_recs b.
Proof. unfold logs_request_recs. apply flat_map_app. Qed.

(* every record of an export request is stored as its own (resource, scope, record) triple says *)
Theorem logs_request_independent pre res scs post :
  logs_request (pre ++ (res, scs) :: post) =
  logs_request pre ++
  flat_map (fun sl => map (fun r => otlp_log_build res (fst sl) r) (snd sl)) scs ++
  logs_request post.
Proof.
  unfold logs_request. rewrite logs_request_recs_app, map_app. f_equal.
  change ((res, scs) :: post) with ([(res, scs)] ++ post). rewrite logs_request_recs_app, map_app. f_equal.
  unfold logs_request_recs. cbn [flat_map fst snd]. rewrite app_nil_r.
  induction scs as [|sl scs IH]; cbn [flat_map]; [reflexivity|].
  rewrite map_app, IH, map_map. reflexivity.
Qed.

(* ================= 9. metrics ================= *)

Theorem otsdb_seconds_point (name : bytes) tags s v : name <> [] -> 0 < s < 4294967296 ->
  otsdb_build name tags (Z.of_N s) v = Some {| d_name := name; d_tags := tags; d_ts := s; d_val := v |}.
Proof.
  intros Hn Hs. unfold otsdb_build. rewrite otsdb_seconds by lia.
  destruct name; [contradiction|]. destruct (N.ltb_spec 0 s); [reflexivity|lia].
Qed.

Theorem otsdb_millis_point (name : bytes) tags m v : name <> [] -> MILLI_T <= m -> m / 1000 < 4294967296 ->
  otsdb_build name tags (Z.of_N m) v = Some {| d_name := name; d_tags := tags; d_ts := m / 1000; d_val := v |}.
Proof.
  intros Hn H1 H2. unfold otsdb_build. rewrite otsdb_millis by assumption.
  destruct name; [contradiction|]. unfold MILLI_T in H1.
  destruct (N.ltb_spec 0 (m / 1000)); [reflexivity|lia].
Qed.

Lemma prom_name_tags_only (labels : list tag) : forallb (fun kv => negb (bytes_eqb (fst kv) k_name)) labels = true ->
  forall acc : bytes, fold_left (fun acc kv => if bytes_eqb (fst kv) k_name then snd kv else acc) labels acc = acc.
Proof.
  induction labels as [|[k v] labels IH]; intros H acc; cbn; [reflexivity|].
  cbn in H. apply andb_true_iff in H as [H1 H2]. apply negb_true_iff in H1. rewrite H1. apply IH, H2.
Qed.

Lemma filter_all {A} (f : A -> bool) l : forallb f l = true -> filter f l = l.
Proof.
  induction l as [|a l IH]; cbn; [reflexivity|]. intros H. apply andb_true_iff in H as [H1 H2].
  rewrite H1, IH by exact H2. reflexivity.
Qed.

(* a remote-write series {__name__ = nm, tags} with a millisecond sample time *)
Theorem prom_point (nm : bytes) tags m v :
  nm <> [] -> forallb (fun kv => negb (bytes_eqb (fst kv) k_name)) tags = true ->
  MILLI_T <= m -> m / 1000 < 4294967296 ->
  prom_build ((k_name, nm) :: tags) (Z.of_N m) v =
  Some {| d_name := nm; d_tags := tags; d_ts := m / 1000; d_val := v |}.
Proof.
  intros Hn Ht H1 H2. unfold prom_build, prom_name, prom_tags. cbn [fold_left filter fst snd].
  rewrite bytes_eqb_refl. cbn [negb]. rewrite prom_name_tags_only by exact Ht.
  rewrite filter_all by exact Ht. rewrite prom_millis by assumption.
  destruct nm; [contradiction|reflexivity].
Qed.

Theorem prom_time_refuted : exists m, m < MILLI_T /\ prom_ts (Z.of_N m) <> m / 1000.
Proof. exists 99999999998. split; [reflexivity|]. vm_compute. congruence. Qed.

Lemma sanitize_word s : forallb is_word s = true -> sanitize s = s.
Proof.
  unfold sanitize. induction s as [|b s IH]; cbn; [reflexivity|]. intros H.
  apply andb_true_iff in H as [H1 H2]. rewrite H1, IH by exact H2. reflexivity.
Qed.

(* the value a number data point carries *)
Definition mnum_dyad (v : mnum) : dyad := match v with MDouble d => d | MInt z => dy_int z end.
(* every double; integers that float64 holds exactly *)
Definition mnum_exact (v : mnum) : bool :=
  match v with MDouble _ => true | MInt z => (Z.abs z <? 9007199254740992)%Z end.

Lemma otlp_metric_val_exact v : mnum_exact v = true -> otlp_metric_val v = mnum_dyad v.
Proof.
  destruct v as [d|z]; cbn; intros H; [reflexivity|]. rewrite f64_round_small by lia. reflexivity.
Qed.

(* gauge/sum point with word-only names, string attributes and a nanosecond time: the
   stored point has the value the data point carries (as_double or as_int) *)
Theorem otlp_metric_point (name : bytes) (tags : list tag) n v :
  name <> [] -> forallb is_word name = true ->
  NANO_T <= n -> n < 9223372036854775808 -> n / 1000000000 < 4294967296 ->
  mnum_exact v = true ->
  exists tg, otlp_metric_build name (map (fun kv => (fst kv, SStr (snd kv))) tags) n v =
    Some {| d_name := name; d_tags := tg; d_ts := n / 1000000000; d_val := mnum_dyad v |}.
Proof.
  intros Hn Hw H1 H2 H3 Hd. unfold otlp_metric_build, otlp_metric_ts.
  rewrite sanitize_word by exact Hw. rewrite prom_nanos by assumption.
  rewrite otlp_metric_val_exact by exact Hd. destruct name; [contradiction|].
  unfold NANO_T in H1. destruct (N.ltb_spec 0 (n / 1000000000)); [|lia]. eexists. reflexivity.
Qed.

(* regression witnesses of the repaired defects *)
Lemma otlp_metric_fixed_values :
  otlp_metric_val (MDouble {| dy_num := 15; dy_den := 1 |}) = {| dy_num := 15; dy_den := 1 |} /\
  otlp_metric_val (MInt 42) = dy_int 42 /\ otlp_metric_val (MInt (-7)) = dy_int (-7).
Proof. repeat split; reflexivity. Qed.

(* ---- PRE-FIX documentation: [otlp_metric_val_prefix], the value through uint64 ---- *)
Definition dy_exact_uint (d : dyad) : bool := (dy_den d =? 0) && (0 <=? dy_num d)%Z && (dy_num d <? 9007199254740992)%Z.

Lemma prefix_otlp_metric_val_guarded d : dy_exact_uint d = true -> otlp_metric_val_prefix (MDouble d) = d.
Proof.
  destruct d as [n e]. unfold dy_exact_uint. cbn. intros H.
  apply andb_true_iff in H as [H H3]. apply andb_true_iff in H as [H1 H2].
  apply N.eqb_eq in H1. subst e. unfold otlp_metric_val_prefix, dy_trunc, dy_int. cbn.
  rewrite Z.quot_1_r. rewrite f64_round_small by lia. reflexivity.
Qed.

Theorem prefix_otlp_metric_value_refuted :
  otlp_metric_val_prefix (MDouble {| dy_num := 15; dy_den := 1 |}) <> {| dy_num := 15; dy_den := 1 |} /\
  otlp_metric_val_prefix (MInt 42) <> dy_int 42.
Proof. split; vm_compute; congruence. Qed.

Theorem otlp_metric_key_collision : exists k1 k2, k1 <> k2 /\ sanitize k1 = sanitize k2.
Proof. exists (s2b "a.b"), (s2b "a_b"). split; vm_compute; congruence. Qed.

(* non-vacuity of the guards *)
Example guards_satisfiable :
  in_range_num USec 1600000000 = true /\ in_range_num UMilli 1600000000123 = true /\
  in_range_str UNano 1600000000123456789 = true /\
  parse_uint (s2b "1600000000123456789") = Some 1600000000123456789 /\
  plain_index (s2b "c16es") /\
  hec_plain_keys {| h_time := None; h_index := s2b "main"; h_meta := [(s2b "host", SStr (s2b "h"))]; h_root := [];
                    h_event := HObj [(s2b "n", SInt 42)] |} = true /\
  exact53 (SInt 42) = true /\
  otlp_carried_ms {| o_time := 0; o_observed := 0; o_sevnum := 0; o_sevtext := []; o_body := SStr [];
                     o_attrs := []; o_dropped := 0; o_flags := 0; o_trace := []; o_span := [] |} = 0 /\
  mnum_exact (MInt 42) = true /\ dy_exact_uint (dy_int 7) = true.
Proof. repeat split; reflexivity. Qed.

(* ================= 10. packaged statements for props/C16.v ================= *)

Lemma ts_seconds_all s : s < MILLI_T ->
  str_ts_ms s = s * 1000 /\ num_ts_ms (Z.of_N s) = s * 1000.
Proof. intros H. split; [apply (str_seconds s H)|apply (num_seconds s H)]. Qed.

Lemma ts_millis_all m : MILLI_T <= m ->
  (m < NANO_T -> str_ts_ms m = m) /\ (m < 9223372036854775808 -> num_ts_ms (Z.of_N m) = m).
Proof. intros H. split; intros H2; [apply (str_millis m H H2)|apply (num_millis m H H2)]. Qed.

Lemma ts_nanos_all n : NANO_T <= n -> str_ts_ms n = n / 1000000.
Proof. apply str_nanos. Qed.

Lemma metric_ts_all :
  (forall s, s < 4294967296 -> otsdb_ts (Z.of_N s) = s /\ prom_ts (Z.of_N s) = s) /\
  (forall m, MILLI_T <= m -> m / 1000 < 4294967296 ->
             otsdb_ts (Z.of_N m) = m / 1000 /\ (m < NANO_T -> prom_ts (Z.of_N m) = m / 1000)) /\
  (forall n, NANO_T <= n -> n < 9223372036854775808 -> n / 1000000000 < 4294967296 ->
             prom_ts (Z.of_N n) = n / 1000000000 /\ otlp_metric_ts (Z.of_N n) = n / 1000000000).
Proof.
  repeat split.
  - apply otsdb_seconds; assumption.
  - apply prom_seconds; assumption.
  - apply otsdb_millis; assumption.
  - intros _. apply prom_millis; assumption.
  - apply prom_nanos; assumption.
  - apply prom_nanos; assumption.
Qed.

Lemma es_time_all x attrs index dec now0 tsNow clock : plain_index index ->
  (forall u v, in_range_num u v = true ->
     final_ts x (es_build (WNum (Z.of_N v)) attrs) index dec now0 tsNow clock = instant_ms u v) /\
  (forall u s v, parse_uint s = Some v -> in_range_str u v = true ->
     final_ts x (es_build (WStr s) attrs) index dec now0 tsNow clock = instant_ms u v) /\
  (lookup k_timestamp attrs = None ->
     final_ts x (es_build WNone attrs) index dec now0 tsNow clock = tsNow).
Proof.
  intros Hi. repeat split.
  - intros u v H. apply es_time_num; assumption.
  - intros u s v Hp H. apply es_time_str; assumption.
  - intros H. apply es_time_absent; assumption.
Qed.

Lemma otlp_log_fields_all res sc r :
  (forall k, lookup (s2b "attributes." ++ k) (otlp_log_build res sc r) = lookup k (map_set_all (o_attrs r) [])) /\
  (forall k, lookup (s2b "resource.attributes." ++ k) (otlp_log_build res sc r) = lookup k (map_set_all (r_attrs res) [])) /\
  (forall k, lookup (s2b "scope.attributes." ++ k) (otlp_log_build res sc r) = lookup k (map_set_all (sc_attrs sc) [])) /\
  (forall (p k1 k2 : bytes), p ++ k1 = p ++ k2 -> k1 = k2).
Proof.
  repeat split.
  - apply otlp_log_record_attr.
  - apply otlp_log_resource_attr.
  - apply otlp_log_scope_attr.
  - apply col_prefix_injective.
Qed.

Lemma otsdb_point_all (name : bytes) tags v : name <> [] ->
  (forall s, 0 < s < 4294967296 ->
     otsdb_build name tags (Z.of_N s) v = Some {| d_name := name; d_tags := tags; d_ts := s; d_val := v |}) /\
  (forall m, MILLI_T <= m -> m / 1000 < 4294967296 ->
     otsdb_build name tags (Z.of_N m) v = Some {| d_name := name; d_tags := tags; d_ts := m / 1000; d_val := v |}).
Proof.
  intros Hn. split; [intros s Hs; apply otsdb_seconds_point; assumption|
                     intros m H1 H2; apply otsdb_millis_point; assumption].
Qed.

(* ================= 12. Elasticsearch single-document requests ================= *)
(* ProcessPutPostSingleDocRequest: decode (numbers kept as literals), "_id" and "_type" assigned, marshal *)

Lemma lookup_filter_key (q : bytes -> bool) k e :
  lookup k (filter (fun f : field => q (fst f)) e) = if q k then lookup k e else None.
Proof.
  induction e as [|[k' v] e IH]; cbn [filter fst]; [destruct (q k); reflexivity|].
  destruct (q k') eqn:Q; cbn [lookup].
  - destruct (bytes_eqb k' k) eqn:E; [apply bytes_eqb_eq in E; subst k'; rewrite Q; reflexivity|exact IH].
  - destruct (bytes_eqb k' k) eqn:E; [apply bytes_eqb_eq in E; subst k'; rewrite IH, Q; reflexivity|exact IH].
Qed.

(* decoding a document without repeated keys into a Go map keeps every member, its value treated by [num] *)
Lemma lookup_doc_decode (num : sval -> sval) doc k :
  NoDup (map fst doc) -> lookup k (doc_decode num doc) = option_map num (lookup k doc).
Proof.
  intros Hnd. unfold doc_decode. rewrite lookup_map_set_all_nodup.
  - apply lookup_map_val.
  - rewrite map_map. cbn [fst]. exact Hnd.
Qed.

(* the keys the handler assigns *)
Theorem doc_id_stored num gen q t attrs :
  lookup k_id (doc_build_with num gen q t attrs) = Some (SStr (doc_id gen q)).
Proof.
  unfold doc_build_with. destruct (dq_type q) as [|b ty].
  - rewrite lookup_map_set, bytes_eqb_refl. reflexivity.
  - rewrite !lookup_map_set.
    change (bytes_eqb k_type k_id) with false. cbn iota. rewrite bytes_eqb_refl. reflexivity.
Qed.

Theorem doc_type_stored num gen q t attrs :
  dq_type q <> [] -> lookup k_type (doc_build_with num gen q t attrs) = Some (SStr (dq_type q)).
Proof.
  intros H. unfold doc_build_with. destruct (dq_type q) as [|b ty]; [contradiction|].
  rewrite lookup_map_set, bytes_eqb_refl. reflexivity.
Qed.

(* every other key is the decoded document's *)
Lemma doc_lookup_other num gen q t attrs k : k <> k_id -> k <> k_type ->
  lookup k (doc_build_with num gen q t attrs) = lookup k (doc_decode num (es_build t attrs)).
Proof.
  intros H1 H2. unfold doc_build_with.
  assert (E1 : bytes_eqb k_id k = false) by (apply bytes_eqb_neq; congruence).
  assert (E2 : bytes_eqb k_type k = false) by (apply bytes_eqb_neq; congruence).
  destruct (dq_type q); rewrite ?lookup_map_set, ?E2, ?lookup_map_set, E1; reflexivity.
Qed.

(* MAIN: a document sent through a single-document request is stored with the fields the bulk protocol
   stores for it: same keys, same values, number literals verbatim *)
Theorem doc_fields_equal_bulk gen q t attrs k :
  NoDup (map fst (es_build t attrs)) -> k <> k_id -> k <> k_type ->
  lookup k (doc_build gen q t attrs) = lookup k (es_build t attrs).
Proof.
  intros Hnd H1 H2. unfold doc_build. rewrite doc_lookup_other by assumption.
  rewrite lookup_doc_decode by exact Hnd. unfold keep_literal. destruct (lookup k (es_build t attrs)); reflexivity.
Qed.

Lemma extract_ts_lookup x e e' key clock :
  lookup key e = lookup key e' -> extract_ts x e key clock = extract_ts x e' key clock.
Proof. intros H. unfold extract_ts. rewrite H. reflexivity. Qed.

Lemma index_ts_key_not_meta index : index_ts_key index <> k_id /\ index_ts_key index <> k_type.
Proof. unfold index_ts_key. destruct (prefix_eqb p_jaeger index); split; vm_compute; discriminate. Qed.

(* ... and with the same time, whatever the index (plain, jaeger-*, alias) and the clock *)
Theorem doc_time_equal_bulk x gen q t attrs index dec now0 tsNow clock :
  NoDup (map fst (es_build t attrs)) ->
  final_ts x (doc_build gen q t attrs) index dec now0 tsNow clock =
  final_ts x (es_build t attrs) index dec now0 tsNow clock.
Proof.
  intros Hnd. unfold final_ts, index_req_ts.
  destruct (index_ts_key_not_meta index) as [H1 H2].
  rewrite (extract_ts_lookup x (doc_build gen q t attrs) (es_build t attrs)); [reflexivity|].
  apply doc_fields_equal_bulk; assumption.
Qed.

Lemma lookup_stored_fields k e :
  lookup k (stored_fields e) = if negb (bytes_eqb k k_timestamp) then lookup k e else None.
Proof. unfold stored_fields. exact (lookup_filter_key (fun k0 => negb (bytes_eqb k0 k_timestamp)) k e). Qed.

Lemma lookup_stored_fields_doc k e :
  lookup k (stored_fields_doc e) =
  if negb (bytes_eqb k k_timestamp) && negb (bytes_eqb k k_id) && negb (bytes_eqb k k_type) then lookup k e else None.
Proof.
  unfold stored_fields_doc.
  exact (lookup_filter_key (fun k0 => negb (bytes_eqb k0 k_timestamp) && negb (bytes_eqb k0 k_id) && negb (bytes_eqb k0 k_type)) k e).
Qed.

(* what a search returns: the bulk record; "_id" and "_type" are not shown *)
Theorem doc_stored_equal_bulk gen q t attrs k :
  NoDup (map fst (es_build t attrs)) -> k <> k_id -> k <> k_type ->
  lookup k (store_cols (stored_fields_doc (doc_build gen q t attrs))) =
  lookup k (store_cols (stored_fields (es_build t attrs))).
Proof.
  intros Hnd H1 H2. unfold store_cols. rewrite !lookup_map_val. f_equal.
  rewrite lookup_stored_fields_doc, lookup_stored_fields.
  rewrite (bytes_eqb_neq k k_id H1), (bytes_eqb_neq k k_type H2). cbn [negb]. rewrite !andb_true_r.
  rewrite doc_fields_equal_bulk by assumption. reflexivity.
Qed.

Theorem doc_meta_hidden e :
  lookup k_id (stored_fields_doc e) = None /\ lookup k_type (stored_fields_doc e) = None.
Proof. rewrite !lookup_stored_fields_doc. split; reflexivity. Qed.

(* the variants of the request (no id / id / _create / _update / document type / refresh, any generated id)
   differ in "_id" and "_type" only *)
Theorem doc_variants_agree num gen gen' q q' t attrs k : k <> k_id -> k <> k_type ->
  lookup k (doc_build_with num gen q t attrs) = lookup k (doc_build_with num gen' q' t attrs).
Proof. intros H1 H2. rewrite !doc_lookup_other by assumption. reflexivity. Qed.

Theorem doc_id_of_url gen q b i : dq_id q = Some (b :: i) -> doc_id gen q = b :: i.
Proof. unfold doc_id. intros ->. reflexivity. Qed.
Theorem doc_id_generated gen q : dq_id q = None \/ dq_id q = Some [] -> doc_id gen q = gen.
Proof. unfold doc_id. intros [-> | ->]; reflexivity. Qed.

Lemma doc_decode_ext (num num' : sval -> sval) doc :
  (forall k v, In (k, v) doc -> num v = num' v) -> doc_decode num doc = doc_decode num' doc.
Proof.
  intros H. unfold doc_decode. f_equal. apply map_ext_in. intros [k v] Hin. cbn [fst snd].
  rewrite (H k v Hin). reflexivity.
Qed.

(* a decoder that goes through float64 is the same function on documents whose integers are below 2^53 ... *)
Theorem doc_f64_same_when_exact gen q t attrs :
  (forall k v, In (k, v) (es_build t attrs) -> exact53 v = true) ->
  doc_build_f64 gen q t attrs = doc_build gen q t attrs.
Proof.
  intros H. unfold doc_build_f64, doc_build, doc_build_with.
  rewrite (doc_decode_ext via_f64 keep_literal); [reflexivity|].
  intros k v Hin. unfold keep_literal. apply via_f64_exact. exact (H k v Hin).
Qed.

Definition doc_witness_attrs : event :=
  [(s2b "order_id", SInt 9007199254740993); (s2b "span_start_ns", SInt 1714352490251123457); (s2b "small", SInt 42)].
Definition doc_witness_q : doc_req := {| dq_route := RDoc; dq_id := None; dq_type := []; dq_refresh := false |}.

(* ... and a different one above: the two ES protocols would disagree on 64-bit ids and nanosecond epochs *)
Theorem doc_f64_refuted : exists gen q t attrs k,
  NoDup (map fst (es_build t attrs)) /\ k <> k_id /\ k <> k_type /\
  lookup k (doc_build_f64 gen q t attrs) <> lookup k (es_build t attrs).
Proof.
  exists [], doc_witness_q, WNone, doc_witness_attrs, (s2b "order_id").
  split; [|repeat split; vm_compute; congruence].
  vm_compute. repeat constructor; cbn; intuition congruence.
Qed.

Lemma doc_f64_witness_values :
  lookup (s2b "order_id") (doc_build_f64 [] doc_witness_q WNone doc_witness_attrs) = Some (SInt 9007199254740992) /\
  lookup (s2b "span_start_ns") (doc_build_f64 [] doc_witness_q WNone doc_witness_attrs) = Some (SInt 1714352490251123500) /\
  lookup (s2b "small") (doc_build_f64 [] doc_witness_q WNone doc_witness_attrs) = Some (SInt 42) /\
  lookup (s2b "order_id") (doc_build [] doc_witness_q WNone doc_witness_attrs) = Some (SInt 9007199254740993) /\
  lookup (s2b "span_start_ns") (doc_build [] doc_witness_q WNone doc_witness_attrs) = Some (SInt 1714352490251123457).
Proof. repeat split; vm_compute; reflexivity. Qed.

(* the time as well: a millisecond value above 2^53 moves *)
Theorem doc_f64_time_refuted : exists gen q t attrs index,
  NoDup (map fst (es_build t attrs)) /\
  final_ts no_ext (doc_build_f64 gen q t attrs) index None 5 5 5 <> final_ts no_ext (es_build t attrs) index None 5 5 5.
Proof.
  exists [], doc_witness_q, (WNum 999999999999999999), [(s2b "cid", SStr (s2b "t"))], (s2b "ix").
  split; [|vm_compute; congruence].
  vm_compute. repeat constructor; cbn; intuition congruence.
Qed.

(* ----- the number a column holds (parseRawJsonObject): int64 or float64 ----- *)
Theorem store_val_int64 z : in_int64 z = true -> store_val (SInt z) = SInt z.
Proof. intros H. unfold store_val. rewrite H. reflexivity. Qed.

Theorem store_val_not_int v : (forall z, v <> SInt z) -> store_val v = v.
Proof. destruct v; intros H; try reflexivity. exfalso. exact (H z eq_refl). Qed.

(* integers of the unsigned 64-bit range above int64 are rounded to 53 bits *)
Theorem store_val_uint64_refuted : exists z, (9223372036854775808 <= z < 18446744073709551616)%Z /\
  store_val (SInt z) <> SInt z.
Proof. exists 9223372036854775809%Z. split; [lia|vm_compute; congruence]. Qed.

Lemma store_val_values :
  store_val (SInt 9223372036854775809) = SInt 9223372036854775808 /\
  store_val (SInt 18446744073709551615) = SInt 18446744073709551616 /\
  store_val (SInt 9223372036854775807) = SInt 9223372036854775807 /\
  store_val (SInt (-9223372036854775808)) = SInt (-9223372036854775808) /\
  store_val (SInt 100000000000000000000001) = SInt 100000000000000008388608.
Proof. repeat split; vm_compute; reflexivity. Qed.

Lemma doc_guards_satisfiable :
  NoDup (map fst (es_build (WNum 1600000000123) doc_witness_attrs)) /\
  (forall k v, In (k, v) (es_build WNone [(s2b "small", SInt 42); (s2b "note", SStr (s2b "x"))]) -> exact53 v = true) /\
  in_int64 9007199254740993 = true.
Proof.
  split; [vm_compute; repeat constructor; cbn; intuition congruence|].
  split; [|reflexivity].
  intros k v [H|[H|[]]]; inversion H; reflexivity.
Qed.

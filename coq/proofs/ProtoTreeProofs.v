(* ProtoTreeProofs.v — C16: the JSON flattener (ProtoTree.v) keeps every leaf of an event under its path; the only
   name it treats specially is the timestamp key AT THE ROOT. *)
From SigM Require Import Base Proto ProtoTree.
From SigP Require Import BaseProofs ProtoProofs.
From Coq Require Import Lia ZifyN ZifyNat ZifyBool String.
Open Scope N_scope.
(* the decimal text of an array position never has to be computed in these proofs *)
Local Opaque N_dec.

(* ---------- induction over trees ---------- *)
Section jval_ind2.
  Variable P : jval -> Prop.
  Hypothesis HL : forall s, P (JL s).
  Hypothesis HO : forall ms, Forall (fun kx => P (snd kx)) ms -> P (JO ms).
  Hypothesis HA : forall xs, Forall P xs -> P (JA xs).
  Fixpoint jval_ind2 (v : jval) : P v :=
    match v with
    | JL s => HL s
    | JO ms => HO ms ((fix go (ms : list (bytes * jval)) : Forall (fun kx => P (snd kx)) ms :=
                         match ms with
                         | [] => Forall_nil _
                         | kx :: r => Forall_cons kx (jval_ind2 (snd kx)) (go r)
                         end) ms)
    | JA xs => HA xs ((fix go (xs : list jval) : Forall P xs :=
                         match xs with
                         | [] => Forall_nil _
                         | x :: r => Forall_cons x (jval_ind2 x) (go r)
                         end) xs)
    end.
End jval_ind2.

(* ---------- the nested loops are the stand-alone loops ---------- *)
Lemma flat_gen_JO skip cur ms : flat_gen skip cur (JO ms) = flat_members skip cur ms.
Proof.
  induction ms as [|[k x] r IH]; [reflexivity|].
  simpl. f_equal. exact IH.
Qed.

Lemma flat_gen_JA_from skip cur xs : forall i,
  (fix elems (i0 : N) (xs0 : list jval) {struct xs0} : event :=
     match xs0 with
     | [] => []
     | x :: r => flat_gen skip (join_key cur (N_dec i0)) x ++ elems (i0 + 1) r
     end) i xs = flat_elems skip cur i xs.
Proof.
  induction xs as [|x r IH]; intros i; [reflexivity|].
  simpl. f_equal. apply IH.
Qed.

Lemma flat_gen_JA skip cur xs : flat_gen skip cur (JA xs) = flat_elems skip cur 0 xs.
Proof. simpl. apply flat_gen_JA_from. Qed.

Lemma flat_members_app skip cur a b :
  flat_members skip cur (a ++ b) = flat_members skip cur a ++ flat_members skip cur b.
Proof.
  induction a as [|[k x] r IH]; [reflexivity|]. simpl. rewrite IH, app_assoc. reflexivity.
Qed.

(* ---------- the flattener = every leaf under its path, minus the skipped column names ---------- *)
Theorem flat_gen_filter : forall v skip cur,
  flat_gen skip cur v = filter (fun f => negb (skip (fst f))) (dotted cur v).
Proof.
  intros v skip. induction v as [s|ms IH|xs IH] using jval_ind2; intros cur.
  - unfold dotted. simpl. destruct (skip cur); reflexivity.
  - unfold dotted. rewrite !flat_gen_JO.
    induction IH as [|[k x] r Hx _ IHr]; [reflexivity|].
    simpl. rewrite filter_app. f_equal; [apply Hx|apply IHr].
  - unfold dotted. rewrite !flat_gen_JA. generalize 0 as i.
    induction IH as [|x r Hx _ IHr]; intros i; [reflexivity|].
    simpl. rewrite filter_app. f_equal; [apply Hx|apply IHr].
Qed.

Corollary flat_filter ts cur v :
  flat ts cur v = filter (fun f => negb (bytes_eqb (fst f) ts)) (dotted cur v).
Proof. apply flat_gen_filter. Qed.

(* the flattened model of Proto.v (events as dotted lists, [stored_fields]) is the flattener applied to the tree *)
Corollary flatten_stored_fields doc : flatten k_timestamp doc = stored_fields (dot doc).
Proof. unfold flatten, dot, stored_fields. rewrite flat_filter. reflexivity. Qed.

Lemma flatten_flat_doc e : flatten k_timestamp (leaves e) = stored_fields e.
Proof.
  unfold flatten, flat. rewrite flat_gen_JO.
  induction e as [|[k v] r IH]; [reflexivity|].
  simpl. unfold stored_fields in *. simpl. unfold visible at 1. simpl.
  destruct (bytes_eqb k k_timestamp); simpl; rewrite IH; reflexivity.
Qed.

(* ---------- every leaf is stored ---------- *)
Lemma flat_members_in skip cur f k x : forall ms,
  In (k, x) ms -> In f (flat_gen skip (join_key cur k) x) -> In f (flat_members skip cur ms).
Proof.
  induction ms as [|[k' x'] r IH]; intros Hin Hf; [contradiction|].
  simpl. apply in_or_app. destruct Hin as [E|Hin].
  - inversion E; subst. left. exact Hf.
  - right. apply IH; assumption.
Qed.

Lemma succ_shift j i : j + N.of_nat (S i) = j + 1 + N.of_nat i.
Proof. rewrite Nat2N.inj_succ, <- N.add_1_l, N.add_assoc. reflexivity. Qed.

Lemma flat_elems_in skip cur f x : forall xs i j,
  nth_error xs i = Some x -> In f (flat_gen skip (join_key cur (N_dec (j + N.of_nat i))) x) ->
  In f (flat_elems skip cur j xs).
Proof.
  induction xs as [|x' r IH]; intros i j Hn Hf.
  - destruct i; discriminate.
  - simpl. apply in_or_app. destruct i as [|i].
    + simpl in Hn. inversion Hn; subst. left. rewrite N.add_0_r in Hf. exact Hf.
    + right. apply (IH i (j + 1)); [exact Hn|].
      rewrite <- succ_shift. exact Hf.
Qed.

Lemma path_of_cons cur k ks : path_of cur (k :: ks) = path_of (join_key cur k) ks.
Proof. reflexivity. Qed.

Theorem leaf_stored_gen v ks s : Leaf v ks s -> forall skip cur,
  skip (path_of cur ks) = false -> In (path_of cur ks, s) (flat_gen skip cur v).
Proof.
  induction 1 as [s|ms k x ks s Hin _ IH|xs i x ks s Hn _ IH]; intros skip cur Hs.
  - simpl in *. rewrite Hs. left. reflexivity.
  - rewrite flat_gen_JO. rewrite path_of_cons in *.
    eapply flat_members_in; [exact Hin|]. apply IH. exact Hs.
  - rewrite flat_gen_JA. rewrite path_of_cons in *.
    eapply (flat_elems_in skip cur _ x xs i 0); [exact Hn|].
    rewrite N.add_0_l. apply IH. exact Hs.
Qed.

(* THE CODE: a leaf is stored under its path unless that PATH is the timestamp key -- whatever its own name *)
Theorem leaf_stored ts cur v ks s :
  Leaf v ks s -> path_of cur ks <> ts -> In (path_of cur ks, s) (flat ts cur v).
Proof.
  intros HL Hne. apply leaf_stored_gen; [exact HL|]. apply bytes_eqb_neq. exact Hne.
Qed.

(* ---------- nothing else is stored ---------- *)
Lemma flat_members_inv skip cur f : forall ms,
  In f (flat_members skip cur ms) -> exists k x, In (k, x) ms /\ In f (flat_gen skip (join_key cur k) x).
Proof.
  induction ms as [|[k x] r IH]; intros H; [contradiction|].
  simpl in H. apply in_app_or in H. destruct H as [H|H].
  - exists k, x. split; [left; reflexivity|exact H].
  - destruct (IH H) as (k' & x' & Hin & Hf). exists k', x'. split; [right; exact Hin|exact Hf].
Qed.

Lemma flat_elems_inv skip cur f : forall xs j,
  In f (flat_elems skip cur j xs) ->
  exists i x, nth_error xs i = Some x /\ In f (flat_gen skip (join_key cur (N_dec (j + N.of_nat i))) x).
Proof.
  induction xs as [|x r IH]; intros j H; [contradiction|].
  simpl in H. apply in_app_or in H. destruct H as [H|H].
  - exists O, x. split; [reflexivity|]. rewrite N.add_0_r. exact H.
  - destruct (IH _ H) as (i & x' & Hn & Hf). exists (S i), x'. split; [exact Hn|].
    rewrite succ_shift. exact Hf.
Qed.

Theorem stored_is_leaf_gen : forall v skip cur p s,
  In (p, s) (flat_gen skip cur v) -> exists ks, Leaf v ks s /\ p = path_of cur ks /\ skip p = false.
Proof.
  intros v skip. induction v as [s0|ms IH|xs IH] using jval_ind2; intros cur p s H.
  - simpl in H. destruct (skip cur) eqn:E; [contradiction|].
    destruct H as [H|[]]. inversion H; subst. exists []. repeat split; [constructor|exact E].
  - rewrite flat_gen_JO in H. apply flat_members_inv in H. destruct H as (k & x & Hin & Hf).
    rewrite Forall_forall in IH. destruct (IH _ Hin _ _ _ Hf) as (ks & HL & Hp & Hs).
    exists (k :: ks). split; [econstructor; eassumption|]. split; assumption.
  - rewrite flat_gen_JA in H. apply flat_elems_inv in H. destruct H as (i & x & Hn & Hf).
    rewrite N.add_0_l in Hf.
    rewrite Forall_forall in IH. destruct (IH _ (nth_error_In _ _ Hn) _ _ _ Hf) as (ks & HL & Hp & Hs).
    exists (N_dec (N.of_nat i) :: ks). split; [econstructor; eassumption|]. split; assumption.
Qed.

Theorem stored_is_leaf ts cur v p s :
  In (p, s) (flat ts cur v) -> exists ks, Leaf v ks s /\ p = path_of cur ks /\ p <> ts.
Proof.
  intros H. destruct (stored_is_leaf_gen _ _ _ _ _ H) as (ks & HL & Hp & Hs).
  exists ks. repeat split; try assumption.
  intros E. subst p. rewrite E in Hs. rewrite bytes_eqb_refl in Hs. discriminate.
Qed.

Corollary ts_key_never_a_column ts doc s : ~ In (ts, s) (flatten ts doc).
Proof.
  intros H. destruct (stored_is_leaf _ _ _ _ _ H) as (ks & _ & _ & Hne). apply Hne. reflexivity.
Qed.

(* ---------- a path below the root is never the timestamp key ---------- *)
Lemma join_key_dot cur k : cur <> [] -> In 46 (join_key cur k).
Proof.
  destruct cur as [|c r]; [congruence|]. intros _. unfold join_key.
  apply in_or_app. right. left. reflexivity.
Qed.

Lemma join_key_keeps_dot cur k : In 46 cur -> In 46 (join_key cur k).
Proof.
  intros H. destruct cur as [|c r]; [contradiction|]. unfold join_key. apply in_or_app. left. exact H.
Qed.

Lemma path_of_keeps_dot ks : forall cur, In 46 cur -> In 46 (path_of cur ks).
Proof.
  induction ks as [|k r IH]; intros cur H; [exact H|].
  rewrite path_of_cons. apply IH. apply join_key_keeps_dot. exact H.
Qed.

Lemma nested_path_has_dot k1 k2 ks : k1 <> [] -> In 46 (path_of [] (k1 :: k2 :: ks)).
Proof.
  intros H. rewrite !path_of_cons. apply path_of_keeps_dot.
  simpl (join_key [] k1). apply join_key_dot. exact H.
Qed.

Lemma k_timestamp_no_dot : ~ In 46 k_timestamp.
Proof. intros H. vm_compute in H. intuition discriminate. Qed.

(* every leaf BELOW the root -- inside an object, inside an object in an array, at any depth -- is stored under its
   path, WHATEVER ITS OWN NAME (no premise on the last key: it may be the timestamp key itself, or any other name) *)
Theorem nested_leaf_stored ts doc k1 k2 ks s :
  ~ In 46 ts -> k1 <> [] ->
  Leaf (JO doc) (k1 :: k2 :: ks) s ->
  In (path_of [] (k1 :: k2 :: ks), s) (flatten ts doc).
Proof.
  intros Hts Hk HL. unfold flatten. apply leaf_stored; [exact HL|].
  intros E. apply Hts. rewrite <- E. apply nested_path_has_dot. exact Hk.
Qed.

Corollary nested_leaf_stored_default doc k1 k2 ks s :
  k1 <> [] -> Leaf (JO doc) (k1 :: k2 :: ks) s ->
  In (path_of [] (k1 :: k2 :: ks), s) (flatten k_timestamp doc).
Proof. apply nested_leaf_stored. exact k_timestamp_no_dot. Qed.

(* a root member that is a scalar: stored under its own name unless it IS the timestamp key *)
Theorem root_leaf_stored ts doc k s :
  Leaf (JO doc) [k] s -> k <> ts -> In (k, s) (flatten ts doc).
Proof.
  intros HL Hne. unfold flatten.
  change (In (path_of [] [k], s) (flat ts [] (JO doc))). apply leaf_stored; [exact HL|exact Hne].
Qed.

(* ---------- the event time looks at the scalar members of the root only ---------- *)
Definition containers_only (tree : jattrs) : bool :=
  forallb (fun kx => match snd kx with JL _ => false | _ => true end) tree.

Lemma jroot_app a b : jroot (a ++ b) = jroot a ++ jroot b.
Proof. unfold jroot. apply flat_map_app. Qed.

Lemma jroot_leaves e : jroot (leaves e) = e.
Proof.
  induction e as [|[k v] r IH]; [reflexivity|]. unfold jroot, leaves in *. simpl. rewrite IH. reflexivity.
Qed.

Lemma jroot_containers tree : containers_only tree = true -> jroot tree = [].
Proof.
  induction tree as [|[k v] r IH]; intros H; [reflexivity|].
  simpl in H. apply andb_true_iff in H. destruct H as [Hv Hr].
  unfold jroot in *. simpl. destruct v; [discriminate| |]; simpl; apply IH; exact Hr.
Qed.

(* whatever hangs below the root -- fields called like the timestamp key included -- has no influence on the time *)
Theorem tree_time_root_only x e tree index dec now0 tsNow clock :
  containers_only tree = true ->
  final_ts x (jroot (leaves e ++ tree)) index dec now0 tsNow clock = final_ts x e index dec now0 tsNow clock.
Proof.
  intros H. rewrite jroot_app, jroot_leaves, (jroot_containers _ H), app_nil_r. reflexivity.
Qed.

(* ---------- the comparison with the member's OWN name is a different function ---------- *)
Definition leafname_doc : jattrs := [(s2b "event", JO [(s2b "timestamp", JL (SInt 1))])].

Theorem leafname_refuted :
  exists doc ks s, Leaf (JO doc) ks s /\ path_of [] ks <> k_timestamp /\
    In (path_of [] ks, s) (flatten k_timestamp doc) /\
    ~ In (path_of [] ks, s) (flat_leafname k_timestamp [] (JO doc)).
Proof.
  exists leafname_doc, [s2b "event"; s2b "timestamp"], (SInt 1).
  assert (HL : Leaf (JO leafname_doc) [s2b "event"; s2b "timestamp"] (SInt 1)).
  { eapply Leaf_member; [left; reflexivity|].
    eapply Leaf_member; [left; reflexivity|]. constructor. }
  split; [exact HL|]. split; [intros E; vm_compute in E; discriminate|].
  split; [apply nested_leaf_stored_default; [intros E; vm_compute in E; discriminate|exact HL]|].
  intros H. vm_compute in H. exact H.
Qed.

Theorem leafname_values :
  flatten k_timestamp leafname_doc = [(s2b "event.timestamp", SInt 1)] /\
  flat_leafname k_timestamp [] (JO leafname_doc) = [] /\
  flatten k_timestamp [(s2b "items", JA [JO [(s2b "timestamp", JL (SStr (s2b "t"))); (s2b "sku", JL (SInt 7))]])]
    = [(s2b "items.0.timestamp", SStr (s2b "t")); (s2b "items.0.sku", SInt 7)] /\
  flatten k_timestamp [(k_timestamp, JL (SInt 1600000000)); (s2b "a", JO [(k_timestamp, JL (SInt 5))])]
    = [(s2b "a.timestamp", SInt 5)] /\
  flatten k_timestamp [(k_timestamp, JO [(s2b "a", JL (SInt 1))])] = [(s2b "timestamp.a", SInt 1)].
Proof. vm_compute. repeat split; reflexivity. Qed.

(* on an event without nesting the two functions are the same: flat events do not tell them apart *)
Theorem leafname_same_on_flat_events ts e :
  flat_leafname ts [] (JO (leaves e)) = flatten ts (leaves e).
Proof.
  unfold flatten, flat. rewrite flat_gen_JO.
  induction e as [|[k v] r IH]; [reflexivity|].
  simpl in *. rewrite IH. destruct (bytes_eqb k ts); reflexivity.
Qed.

(* ---------- OTLP logs: a kvlist body ---------- *)
Lemma body_field_present res sc r : In (k_body, o_body r) (otlp_log_build res sc r).
Proof.
  unfold otlp_log_build. rewrite !in_app_iff. right. right. right. left.
  simpl. do 6 right. left. reflexivity.
Qed.

Theorem kvbody_leaf_stored res sc r body ks s :
  Leaf (JO body) ks s -> In (path_of k_body ks, s) (otlp_log_build_kvbody res sc r body).
Proof.
  intros HL. unfold otlp_log_build_kvbody. apply in_flat_map.
  exists (k_body, o_body r). split; [apply body_field_present|].
  replace (bytes_eqb (fst (k_body, o_body r)) k_body) with true by (symmetry; apply bytes_eqb_refl).
  unfold dotted. apply leaf_stored_gen; [exact HL|reflexivity].
Qed.

(* the one corner where a path below the root IS the timestamp key: a root member with the EMPTY name (currKey == ""
   is also the test for "at the root"): {"":{"timestamp":5,"y":2}} -> column y only (observed on the real code) *)
Example empty_root_key_corner :
  flatten k_timestamp [([], JO [(k_timestamp, JL (SInt 5)); (s2b "y", JL (SInt 2))])] = [(s2b "y", SInt 2)] /\
  path_of [] [[]; k_timestamp] = k_timestamp.
Proof. vm_compute. split; reflexivity. Qed.

(* ---------- names that collide with the record's OWN root fields (spans, Loki lines): known findings ---------- *)
Definition collide_span (attrs : event) : span :=
  {| sp_trace := s2b "0af7651916cd43dd8448eb211c80319c"; sp_span := s2b "b7ad6b7169203331"; sp_parent := [];
     sp_service := s2b "svc"; sp_state := []; sp_name := s2b "GET /x"; sp_kind := 2;
     sp_start := 1650000000000000000; sp_end := 1650000000001500000; sp_datt := 0; sp_dev := 0; sp_dlink := 0;
     sp_status := Some 0; sp_attrs := attrs |}.

Theorem span_attribute_replaces_field :
  exists attrs, lookup (s2b "name") (span_build (collide_span attrs)) <> Some (SStr (sp_name (collide_span attrs))) /\
                lookup (s2b "name") (span_build (collide_span attrs)) = Some (SStr (s2b "alice")).
Proof.
  exists [(s2b "name", SStr (s2b "alice"))]. split; [intros E; vm_compute in E; discriminate|reflexivity].
Qed.

Theorem span_attribute_timestamp_becomes_time :
  exists attrs, forall tsNow,
    final_ts no_ext (span_build (collide_span attrs)) (s2b "traces") None tsNow tsNow tsNow = 1400000001000 /\
    lookup k_timestamp (stored_fields (span_build (collide_span attrs))) = None.
Proof.
  exists [(k_timestamp, SInt 1400000001)]. intros tsNow. split; reflexivity.
Qed.

Definition collide_line (meta : event) : loki_line :=
  {| ll_ts := s2b "1600000002000000000"; ll_line := s2b "text"; ll_meta := meta |}.

Theorem loki_label_named_line_lost :
  exists labels e, loki_build labels [collide_line []] = [e] /\
    lookup k_line labels = Some (SStr (s2b "L7")) /\ lookup k_line e = Some (SStr (s2b "text")) /\
    forall k, lookup k e = Some (SStr (s2b "L7")) -> False.
Proof.
  exists [(s2b "job", SStr (s2b "j")); (k_line, SStr (s2b "L7"))]. eexists. split; [reflexivity|].
  split; [reflexivity|]. split; [reflexivity|].
  intros k H. vm_compute in H.
  repeat match type of H with
  | (if ?b then _ else _) = _ => destruct b; try discriminate
  end.
Qed.

Theorem loki_metadata_replaces_record_field :
  (exists e, loki_build [] [collide_line [(k_timestamp, SStr (s2b "1400000000"))]] = [e] /\
             forall tsNow, final_ts no_ext e (s2b "loki-index") None tsNow tsNow tsNow = 1400000000000) /\
  (exists e, loki_build [] [collide_line [(k_line, SStr (s2b "other"))]] = [e] /\
             lookup k_line e = Some (SStr (s2b "other"))).
Proof.
  split; eexists; (split; [reflexivity|]); [intros tsNow|]; reflexivity.
Qed.

(* PruneProofs.v — soundness of the block micro-index decisions of Prune.v (C03). *)
From SigM Require Import Base Prune.
From SigP Require Import BaseProofs.
From Coq Require Import QArith Lqa Lia ZifyBool.
Open Scope Z_scope.

(* ---------- booleans on Q ---------- *)
Lemma Qltb_lt : forall a b, Qltb a b = true <-> (a < b)%Q.
Proof.
  intros a b. unfold Qltb. rewrite negb_true_iff. split; intro H.
  - apply Qnot_le_lt. intro L. apply Qle_bool_iff in L. congruence.
  - destruct (Qle_bool b a) eqn:E; auto. apply Qle_bool_iff in E. exfalso. eapply Qlt_not_le; eauto.
Qed.

Lemma Qltb_false : forall a b, Qltb a b = false <-> (b <= a)%Q.
Proof.
  intros a b. split; intro H.
  - apply Qnot_lt_le. intro L. apply Qltb_lt in L. congruence.
  - destruct (Qltb a b) eqn:E; auto. apply Qltb_lt in E. exfalso. eapply Qlt_not_le; eauto.
Qed.

(* ---------- the comparison of the specification on integers ---------- *)
Definition cmpZ (o : op) (a b : Z) : bool :=
  match o with
  | Eq => a =? b | Ne => negb (a =? b) | Lt => a <? b | Le => a <=? b
  | Gt => b <? a | Ge => b <=? a | OpOther => false
  end.

Lemma cmp_spec_inject : forall o a b, cmp_spec o (inject_Z a) (inject_Z b) = true -> cmpZ o a b = true.
Proof.
  intros o a b H. destruct o; simpl in *.
  - apply Qeq_bool_iff in H. apply (proj1 (inject_Z_injective a b)) in H. lia.
  - rewrite negb_true_iff in *. destruct (Z.eqb_spec a b); auto. subst.
    assert (Qeq_bool (inject_Z b) (inject_Z b) = true) by (apply Qeq_bool_iff; reflexivity). congruence.
  - apply Qltb_lt in H. rewrite <- Zlt_Qlt in H. lia.
  - apply Qle_bool_iff in H. rewrite <- Zle_Qle in H. lia.
  - apply Qltb_lt in H. rewrite <- Zlt_Qlt in H. lia.
  - apply Qle_bool_iff in H. rewrite <- Zle_Qle in H. lia.
  - discriminate.
Qed.

(* does{Uint,Int}PassRangeFilter keeps every block that holds a value satisfying the comparison *)
Lemma pass_rangeZ_sound : forall o l mn mx v,
  mn <= v <= mx -> cmpZ o v l = true -> pass_rangeZ o l mn mx = true.
Proof.
  intros o l mn mx v B H. destruct o; simpl in *; try lia.
  destruct (Z.eqb_spec mn mx); destruct (Z.eqb_spec l mn); simpl; auto. lia.
Qed.

(* doesFloatPassRangeFilter *)
Lemma pass_rangeQ_sound : forall o l mn mx v,
  (mn <= v)%Q -> (v <= mx)%Q -> cmp_spec o v l = true -> pass_rangeQ o l mn mx = true.
Proof.
  intros o l mn mx v B1 B2 H. destruct o; simpl in *.
  - apply Qeq_bool_iff in H. apply andb_true_iff; split; apply Qle_bool_iff; lra.
  - destruct (Qeq_bool mn mx) eqn:E1; destruct (Qeq_bool l mn) eqn:E2; simpl; auto.
    apply Qeq_bool_iff in E1, E2. rewrite negb_true_iff in H.
    assert (Qeq_bool v l = true) by (apply Qeq_bool_iff; lra). congruence.
  - apply Qltb_lt in H. apply orb_true_iff. left. apply Qltb_lt. lra.
  - apply Qle_bool_iff in H. apply orb_true_iff. left. apply Qle_bool_iff. lra.
  - apply Qltb_lt in H. apply orb_true_iff. right. apply Qltb_lt. lra.
  - apply Qle_bool_iff in H. apply orb_true_iff. right. apply Qle_bool_iff. lra.
  - reflexivity.
Qed.

(* ---------- invariant of updateRangeIndex ---------- *)
Definition lo (r : numbers) : Q :=
  match nt r with RUint => inject_Z (umin r) | RInt => inject_Z (imin r) | RFloat => fmin r end.
Definition hi (r : numbers) : Q :=
  match nt r with RUint => inject_Z (umax r) | RInt => inject_Z (imax r) | RFloat => fmax r end.

Definition tyok (t : ntype) (v : Prune.num) : Prop :=
  match t, v with
  | RUint, VU _ => True | RUint, _ => False
  | RInt, VF _ => False | RInt, _ => True
  | RFloat, _ => True
  end.

Definition covers (r : numbers) (v : Prune.num) : Prop := tyok (nt r) v /\ (lo r <= qval v)%Q /\ (qval v <= hi r)%Q.

Definition Inv (r : numbers) (seen : list Prune.num) : Prop :=
  (lo r <= hi r)%Q
  /\ (nt r = RUint -> 0 <= umin r /\ umax r < two63)
  /\ forall v, In v seen -> covers r v.

Lemma wrap_id : forall z, - two63 <= z < two63 -> wrap_i64 z = z.
Proof. intros z H. unfold wrap_i64, two63, two64 in *. rewrite Z.mod_small; lia. Qed.

Lemma upd_i_spec : forall r v, imin r <= imax r ->
  let r' := upd_i r v in
  nt r' = nt r /\ imin r' = Z.min (imin r) v /\ imax r' = Z.max (imax r) v
  /\ fmin r' = fmin r /\ fmax r' = fmax r /\ umin r' = umin r /\ umax r' = umax r.
Proof.
  intros r v H. unfold upd_i. destruct (Z.ltb_spec v (imin r)); [|destruct (Z.ltb_spec (imax r) v)];
  simpl; repeat split; lia.
Qed.

Lemma upd_u_spec : forall r v, umin r <= umax r ->
  let r' := upd_u r v in
  nt r' = nt r /\ umin r' = Z.min (umin r) v /\ umax r' = Z.max (umax r) v.
Proof.
  intros r v H. unfold upd_u. destruct (Z.ltb_spec v (umin r)); [|destruct (Z.ltb_spec (umax r) v)];
  simpl; repeat split; lia.
Qed.

Lemma upd_f_spec : forall r v, (fmin r <= fmax r)%Q ->
  let r' := upd_f r v in
  nt r' = nt r /\ (fmin r' <= fmin r)%Q /\ (fmax r <= fmax r')%Q
  /\ (fmin r' <= v)%Q /\ (v <= fmax r')%Q /\ (fmin r' <= fmax r')%Q.
Proof.
  intros r v H. unfold upd_f.
  destruct (Qltb v (fmin r)) eqn:E1.
  - apply Qltb_lt in E1. simpl. repeat split; lra.
  - apply Qltb_false in E1. destruct (Qltb (fmax r) v) eqn:E2.
    + apply Qltb_lt in E2. simpl. repeat split; lra.
    + apply Qltb_false in E2. simpl. repeat split; lra.
Qed.

Lemma covers_widen : forall r r' v,
  (forall w, tyok (nt r) w -> tyok (nt r') w) -> (lo r' <= lo r)%Q -> (hi r <= hi r')%Q ->
  covers r v -> covers r' v.
Proof. intros r r' v T L H [A [B C]]. split; [auto | split; lra]. Qed.

Lemma Zq_le : forall a b, a <= b -> (inject_Z a <= inject_Z b)%Q.
Proof. intros. rewrite <- Zle_Qle. auto. Qed.

(* one more value keeps the invariant *)
Lemma upd_inv : forall r seen v, wf_num v = true -> Inv r seen ->
  exists r', upd_range (Some r) v = Some r' /\ Inv r' (v :: seen).
Proof.
  intros r seen v W [O [U C]]. unfold upd_range. eexists. split; [reflexivity|].
  unfold lo, hi in O.
  destruct v as [z|z|q]; simpl in W.
  - (* int64 value *)
    unfold add_int. destruct (nt r) eqn:T.
    + (* unsigned entry becomes signed *)
      destruct (U eq_refl) as [U0 U1].
      assert (Hmm : umin r <= umax r) by (rewrite <- Zle_Qle in O; auto).
      set (r0 := mkNum RInt 0 0 (wrap_i64 (umin r)) (wrap_i64 (umax r)) 0 0).
      assert (W0 : wrap_i64 (umin r) = umin r) by (apply wrap_id; unfold two63 in *; lia).
      assert (W1 : wrap_i64 (umax r) = umax r) by (apply wrap_id; unfold two63 in *; lia).
      assert (H0 : imin r0 <= imax r0) by (simpl; lia).
      destruct (upd_i_spec r0 z H0) as [N [I1 [I2 _]]]. simpl in I1, I2.
      split; [|split].
      * unfold lo, hi. rewrite N. simpl. apply Zq_le. lia.
      * rewrite N. simpl. discriminate.
      * intros w [<-|Hw].
        { split; [rewrite N; simpl; auto|]. unfold lo, hi. rewrite N. simpl. split; apply Zq_le; lia. }
        { apply (covers_widen r); auto.
          - intros w0. rewrite N, T. simpl. destruct w0; auto.
          - unfold lo. rewrite N, T. simpl. apply Zq_le. lia.
          - unfold hi. rewrite N, T. simpl. apply Zq_le. lia. }
    + assert (Hmm : imin r <= imax r) by (rewrite <- Zle_Qle in O; auto).
      destruct (upd_i_spec r z Hmm) as [N [I1 [I2 _]]].
      split; [|split].
      * unfold lo, hi. rewrite N, T. apply Zq_le. lia.
      * rewrite N, T. discriminate.
      * intros w [<-|Hw].
        { split; [rewrite N, T; simpl; auto|]. unfold lo, hi. rewrite N, T. simpl. split; apply Zq_le; lia. }
        { apply (covers_widen r); auto.
          - intros w0. rewrite N. auto.
          - unfold lo. rewrite N, T. apply Zq_le. lia.
          - unfold hi. rewrite N, T. apply Zq_le. lia. }
    + destruct (upd_f_spec r (inject_Z z) O) as [N [F1 [F2 [F3 [F4 F5]]]]].
      split; [|split].
      * unfold lo, hi. rewrite N, T. auto.
      * rewrite N, T. discriminate.
      * intros w [<-|Hw].
        { split; [rewrite N, T; simpl; auto|]. unfold lo, hi. rewrite N, T. simpl. split; auto. }
        { apply (covers_widen r); auto.
          - intros w0. rewrite N. auto.
          - unfold lo. rewrite N, T. auto.
          - unfold hi. rewrite N, T. auto. }
  - (* uint64 value *)
    unfold add_uint. destruct (nt r) eqn:T.
    + destruct (U eq_refl) as [U0 U1].
      assert (Hmm : umin r <= umax r) by (rewrite <- Zle_Qle in O; auto).
      destruct (upd_u_spec r z Hmm) as [N [I1 I2]].
      split; [|split].
      * unfold lo, hi. rewrite N, T. apply Zq_le. lia.
      * intros _. rewrite I1, I2. unfold two63 in *. lia.
      * intros w [<-|Hw].
        { split; [rewrite N, T; simpl; auto|]. unfold lo, hi. rewrite N, T. simpl. split; apply Zq_le; lia. }
        { apply (covers_widen r); auto.
          - intros w0. rewrite N. auto.
          - unfold lo. rewrite N, T. apply Zq_le. lia.
          - unfold hi. rewrite N, T. apply Zq_le. lia. }
    + assert (Hmm : imin r <= imax r) by (rewrite <- Zle_Qle in O; auto).
      assert (Wz : wrap_i64 z = z) by (apply wrap_id; unfold two63 in *; lia).
      rewrite Wz.
      destruct (upd_i_spec r z Hmm) as [N [I1 [I2 _]]].
      split; [|split].
      * unfold lo, hi. rewrite N, T. apply Zq_le. lia.
      * rewrite N, T. discriminate.
      * intros w [<-|Hw].
        { split; [rewrite N, T; simpl; auto|]. unfold lo, hi. rewrite N, T. simpl. split; apply Zq_le; lia. }
        { apply (covers_widen r); auto.
          - intros w0. rewrite N. auto.
          - unfold lo. rewrite N, T. apply Zq_le. lia.
          - unfold hi. rewrite N, T. apply Zq_le. lia. }
    + destruct (upd_f_spec r (inject_Z z) O) as [N [F1 [F2 [F3 [F4 F5]]]]].
      split; [|split].
      * unfold lo, hi. rewrite N, T. auto.
      * rewrite N, T. discriminate.
      * intros w [<-|Hw].
        { split; [rewrite N, T; simpl; auto|]. unfold lo, hi. rewrite N, T. simpl. split; auto. }
        { apply (covers_widen r); auto.
          - intros w0. rewrite N. auto.
          - unfold lo. rewrite N, T. auto.
          - unfold hi. rewrite N, T. auto. }
  - (* float64 value *)
    unfold add_float.
    set (r0 := match nt r with
               | RUint => mkNum RFloat 0 0 0 0 (inject_Z (umin r)) (inject_Z (umax r))
               | RInt => mkNum RFloat 0 0 0 0 (inject_Z (imin r)) (inject_Z (imax r))
               | RFloat => r
               end).
    assert (R0 : nt r0 = RFloat /\ fmin r0 = lo r /\ fmax r0 = hi r).
    { unfold r0, lo, hi. destruct (nt r) eqn:T; simpl; auto. }
    destruct R0 as [T0 [L0 H0]].
    assert (O0 : (fmin r0 <= fmax r0)%Q) by (rewrite L0, H0; unfold lo, hi; auto).
    destruct (upd_f_spec r0 q O0) as [N [F1 [F2 [F3 [F4 F5]]]]].
    split; [|split].
    + unfold lo, hi. rewrite N, T0. auto.
    + rewrite N, T0. discriminate.
    + intros w [<-|Hw].
      { split; [rewrite N, T0; simpl; auto|]. unfold lo, hi. rewrite N, T0. simpl. split; auto. }
      { apply (covers_widen r); auto.
        - intros w0 _. rewrite N, T0. simpl. auto.
        - unfold lo at 1. rewrite N, T0. rewrite <- L0. auto.
        - unfold hi at 2. rewrite N, T0. rewrite <- H0. auto. }
Qed.

Lemma upd_first : forall v, wf_num v = true ->
  exists r', upd_range None v = Some r' /\ Inv r' [v].
Proof.
  intros v W. unfold upd_range. eexists. split; [reflexivity|].
  destruct v as [z|z|q]; simpl in *; (split; [|split]).
  - unfold lo, hi; simpl. apply Qle_refl.
  - simpl. discriminate.
  - intros w [<-|[]]. split; simpl; auto. unfold lo, hi; simpl. split; apply Qle_refl.
  - unfold lo, hi; simpl. apply Qle_refl.
  - simpl. intros _. lia.
  - intros w [<-|[]]. split; simpl; auto. unfold lo, hi; simpl. split; apply Qle_refl.
  - unfold lo, hi; simpl. apply Qle_refl.
  - simpl. discriminate.
  - intros w [<-|[]]. split; simpl; auto. unfold lo, hi; simpl. split; apply Qle_refl.
Qed.

Lemma fold_inv : forall vs r seen, forallb wf_num vs = true -> Inv r seen ->
  exists r', fold_left upd_range vs (Some r) = Some r' /\ Inv r' (rev vs ++ seen).
Proof.
  induction vs as [|v vs IH]; intros r seen W I; simpl in *.
  - eauto.
  - apply andb_true_iff in W. destruct W as [W1 W2].
    destruct (upd_inv r seen v W1 I) as [r1 [E1 I1]]. rewrite E1.
    destruct (IH r1 (v :: seen) W2 I1) as [r2 [E2 I2]].
    exists r2. split; auto. rewrite <- app_assoc. simpl. auto.
Qed.

(* the range entry of a block covers every value of the block, whatever the order of arrival *)
Theorem range_of_covers : forall vs, forallb wf_num vs = true -> vs <> [] ->
  exists r, range_of vs = Some r /\ forall v, In v vs -> covers r v.
Proof.
  intros vs W NE. destruct vs as [|v vs]; [congruence|]. unfold range_of. simpl in *.
  apply andb_true_iff in W. destruct W as [W1 W2].
  destruct (upd_first v W1) as [r1 [E1 I1]]. rewrite E1.
  destruct (fold_inv vs r1 [v] W2 I1) as [r2 [E2 [_ [_ C]]]].
  exists r2. split; auto. intros w Hw. apply C. apply in_or_app.
  destruct Hw as [<-|Hw]; [right; simpl; auto | left; apply in_rev in Hw; auto].
Qed.

(* the range entry of a block whose column was consolidated from numbers and numeric strings covers every value
   the readers return: the numbers that arrived as numbers and those parsed out of strings at the flush *)
Lemma stored_values_in : forall cs vs svs v,
  stored_values cs = Some vs -> str_vals cs = Some svs -> In v vs -> In v (natives cs) \/ In v svs.
Proof.
  induction cs as [|c cs IH]; simpl; intros vs svs v SV ST Hv.
  - inversion SV; subst. inversion Hv.
  - destruct c as [x|str|].
    + destruct (stored_values cs) as [vs'|] eqn:E; simpl in SV; inversion SV; subst.
      destruct Hv as [<-|Hv]; [left; left; auto|].
      destruct (IH vs' svs v eq_refl ST Hv); auto. left. right. auto.
    + destruct (str_num str) as [x|]; [|discriminate].
      destruct (stored_values cs) as [vs'|] eqn:E; [|discriminate].
      destruct (str_vals cs) as [svs'|] eqn:E2; [|discriminate].
      inversion SV; inversion ST; subst.
      destruct Hv as [<-|Hv]; [right; left; auto|].
      destruct (IH vs' svs' v eq_refl eq_refl Hv); auto. right. right. auto.
    + eauto.
Qed.

Theorem range_index_covers_consolidated : forall cs vs svs,
  stored_values cs = Some vs -> str_vals cs = Some svs ->
  forallb wf_num (natives cs ++ svs) = true -> vs <> [] ->
  exists r, block_index cs = Some r /\ forall v, In v vs -> covers r v.
Proof.
  intros cs vs svs SV ST W NE. unfold block_index. rewrite ST. unfold range_of.
  rewrite <- fold_left_app.
  assert (NE2 : natives cs ++ svs <> []).
  { destruct vs as [|v vs]; [congruence|].
    destruct (stored_values_in cs (v :: vs) svs v SV ST (or_introl eq_refl)) as [H|H];
      intro E; apply app_eq_nil in E; destruct E as [E1 E2]; [rewrite E1 in H | rewrite E2 in H]; inversion H. }
  destruct (range_of_covers _ W NE2) as [r [R C]]. exists r. split; [exact R|].
  intros v Hv. apply C. apply in_or_app. eapply stored_values_in; eauto.
Qed.

(* an entry built from the native numbers only does not do: {1,2,3,"50"}, val > 10 *)
Theorem native_only_index_refuted :
  exists cs vs r v, stored_values cs = Some vs /\ range_of (natives cs) = Some r /\ In v vs
    /\ cmp_spec Gt (qval v) (inject_Z 10) = true
    /\ check_range r Gt (LInt false 10) = false
    /\ (exists r', block_index cs = Some r' /\ check_range r' Gt (LInt false 10) = true).
Proof.
  exists [RNum (VI 1); RNum (VI 2); RNum (VI 3); RStr [53; 48]%N], [VI 1; VI 2; VI 3; VI 50].
  eexists. exists (VI 50). split; [reflexivity|]. split; [reflexivity|].
  split; [simpl; auto|]. split; [vm_compute; reflexivity|]. split; [vm_compute; reflexivity|].
  eexists. split; [reflexivity | vm_compute; reflexivity].
Qed.

Lemma range_of_nil : forall vs, range_of vs = None -> vs = [].
Proof.
  intros [|v vs] H; auto. unfold range_of in H. simpl in H.
  assert (forall l r, fold_left upd_range l (Some r) <> None).
  { induction l; simpl; intros; [discriminate | apply IHl]. }
  exfalso. eapply H0. unfold upd_range in H. exact H.
Qed.

Lemma in_present : forall cs v, In (Some v) cs <-> In v (present cs).
Proof.
  induction cs as [|c cs IH]; simpl; intros v; [tauto|].
  destruct c as [w|]; simpl; rewrite <- IH.
  - split; intros [H|H]; auto; [inversion H; auto | subst; auto].
  - split; [intros [H|H]; [discriminate | auto] | auto].
Qed.

(* ---------- range pruning: guarded soundness ---------- *)
Theorem range_prune_sound_guarded : forall cs o l lv,
  range_guard cs o l = true -> lit_val l = Some lv ->
  (exists c, In c cs /\ ev_matches o lv c = true) ->
  block_range_pass (cmi_of cs) o l = true.
Proof.
  intros cs o l lv G LV [c [Hc M]].
  unfold range_guard in G. apply andb_true_iff in G. destruct G as [G G3].
  apply andb_true_iff in G. destruct G as [G1 G2].
  assert (CP : forall v, c = Some v -> In v (present cs)) by (intros v ->; apply in_present; auto).
  assert (NONE : c = None -> is_ne o = true /\ False).
  { intros ->. simpl in M. split; auto. rewrite M in G3. simpl in G3.
    unfold all_present in G3. rewrite forallb_forall in G3. specialize (G3 _ Hc). discriminate. }
  unfold cmi_of in *. destruct (range_of (present cs)) as [r|] eqn:R.
  - destruct c as [v|]; [|destruct (NONE eq_refl) as [_ []]].
    assert (PN : present cs <> []) by (intro E; specialize (CP v eq_refl); rewrite E in CP; inversion CP).
    destruct (range_of_covers _ G1 PN) as [r' [R' C]]. rewrite R in R'. inversion R'; subst r'.
    destruct (C v (CP v eq_refl)) as [T [B1 B2]].
    simpl in M. simpl. unfold check_range.
    assert (IC : is_cmp o = true) by (destruct o; simpl in *; auto; discriminate).
    rewrite IC. simpl in G2. unfold lit_val in LV. unfold lo, hi in *.
    destruct (nt r) eqn:NT.
    + destruct (conv_uint l) as [x|] eqn:CU; [|discriminate].
      destruct l as [s z| |]; simpl in CU; try discriminate. destruct s; try discriminate.
      match type of CU with context [if ?c then _ else _] => destruct c end; inversion CU; try subst x.
      simpl in LV. inversion LV; subst lv.
      destruct v as [a|a|a]; simpl in T; try contradiction. simpl in *.
      apply pass_rangeZ_sound with (v := a).
      * rewrite <- Zle_Qle in B1, B2. lia.
      * apply cmp_spec_inject; auto.
    + destruct (conv_int l) as [x|] eqn:CU; [|discriminate].
      destruct l as [s z| |]; simpl in CU; try discriminate.
      match type of CU with context [if ?c then _ else _] => destruct c end; inversion CU; try subst x.
      simpl in LV. inversion LV; subst lv.
      destruct v as [a|a|a]; simpl in T; try contradiction; simpl in *;
      (apply pass_rangeZ_sound with (v := a);
       [ rewrite <- Zle_Qle in B1, B2; lia | apply cmp_spec_inject; auto ]).
    + rewrite LV. apply pass_rangeQ_sound with (v := qval v); auto.
  - apply range_of_nil in R. destruct c as [v|].
    + specialize (CP v eq_refl). rewrite R in CP. inversion CP.
    + simpl. simpl in M. auto.
Qed.

(* the full statement (no guard): what C03 asks of the range index *)
Definition range_prune_sound_full : Prop := forall cs o l lv,
  lit_val l = Some lv ->
  (exists c, In c cs /\ ev_matches o lv c = true) ->
  block_range_pass (cmi_of cs) o l = true.

(* (a) decimal literal against an integer-typed range entry: ParseInt fails, block pruned *)
Theorem range_prune_decimal_literal_refuted :
  exists cs o l lv, lit_val l = Some lv
    /\ (exists c, In c cs /\ ev_matches o lv c = true)
    /\ block_range_pass (cmi_of cs) o l = false.
Proof.
  exists [Some (VI 2); Some (VI 3); Some (VI (-2))], Lt, (LDec (5 # 2)), (5 # 2)%Q.
  split; [reflexivity|]. split; [|vm_compute; reflexivity].
  exists (Some (VI 2)). split; [simpl; auto | vm_compute; reflexivity].
Qed.

(* (b) != with min = max = literal prunes the block although a record without the field matches;
   with another block mate the same record is kept *)
Theorem neq_prune_absent_field_refuted :
  (exists cs o l lv, lit_val l = Some lv
    /\ (exists c, In c cs /\ ev_matches o lv c = true)
    /\ block_range_pass (cmi_of cs) o l = false)
  /\ block_range_pass (cmi_of [Some (VI 5); None; Some (VI 6)]) Ne (LInt false 5) = true.
Proof.
  split; [|vm_compute; reflexivity].
  exists [Some (VI 5); None; Some (VI 5)], Ne, (LInt false 5), (inject_Z 5).
  split; [reflexivity|]. split; [|vm_compute; reflexivity].
  exists None. split; [simpl; auto | reflexivity].
Qed.

Corollary range_prune_sound_full_refuted : ~ range_prune_sound_full.
Proof.
  intro H. destruct range_prune_decimal_literal_refuted as [cs [o [l [lv [A [B C]]]]]].
  rewrite (H cs o l lv A B) in C. discriminate.
Qed.

(* the guard is satisfiable on a block with absent fields, mixed int/float values and a decimal literal *)
Example range_guard_nonvacuous :
  range_guard [Some (VI 2); None; Some (VF (5 # 2)); Some (VI (-7))] Lt (LDec (5 # 2)) = true
  /\ range_guard [Some (VI 5); Some (VI 5)] Ne (LInt false 5) = true.
Proof. split; vm_compute; reflexivity. Qed.

(* ---------- bloom ---------- *)
Lemma lower_b_space : forall c, (lower_b c =? 32)%N = (c =? 32)%N.
Proof. intros c. unfold lower_b, is_upper. destruct (_ && _)%bool eqn:?; lia. Qed.

Lemma lower_no_upper : forall w, has_upper w = false -> lower w = w.
Proof.
  induction w as [|c w IH]; simpl; intros H; auto.
  apply orb_false_iff in H. destruct H as [H1 H2]. unfold lower_b. rewrite H1. f_equal. auto.
Qed.

Lemma split_sp_nonnil : forall w, split_sp w <> [].
Proof. induction w as [|c w IH]; simpl; [discriminate|]. destruct (c =? 32)%N; [discriminate|]. destruct (split_sp w); discriminate. Qed.

Lemma has_upper_piece : forall w p, In p (split_sp w) -> has_upper p = true -> has_upper w = true.
Proof.
  induction w as [|c w IH]; simpl; intros p H U.
  - destruct H as [<-|[]]. discriminate.
  - destruct (c =? 32)%N eqn:E.
    + destruct H as [<-|H]; [discriminate|]. rewrite (IH p H U). apply orb_true_r.
    + destruct (split_sp w) as [|p0 t] eqn:S; [exfalso; eapply split_sp_nonnil; eauto|].
      destruct H as [<-|H].
      * simpl in U. apply orb_true_iff in U. destruct U as [U|U]; [rewrite U; auto|].
        rewrite (IH p0 (or_introl eq_refl) U). apply orb_true_r.
      * rewrite (IH p (or_intror H) U). apply orb_true_r.
Qed.

Lemma split_single : forall w, length (split_sp w) = 1%nat -> split_sp w = [w].
Proof.
  induction w as [|c w IH]; simpl; intros H; auto.
  destruct (c =? 32)%N.
  - simpl in H. destruct (split_sp w) eqn:S; [exfalso; eapply split_sp_nonnil; eauto | discriminate].
  - destruct (split_sp w) as [|p t] eqn:S; [exfalso; eapply split_sp_nonnil; eauto|].
    simpl in H. destruct t; [|discriminate]. specialize (IH eq_refl). inversion IH. reflexivity.
Qed.

(* membership in the token list, by part *)
Lemma in_tokens : forall w x,
  In x (tokens w) <->
  w = x
  \/ In x (flat_map (fun p => p :: (if has_upper w then [lower p] else [])) (removelast (split_sp w)))
  \/ In x (if Nat.ltb 1 (length (split_sp w)) && nonempty (last (split_sp w) [])
           then [last (split_sp w) []; lower (last (split_sp w) [])] else [])
  \/ In x (if has_upper w then [lower w] else []).
Proof. intros w x. unfold tokens. simpl. rewrite !in_app_iff. tauto. Qed.

(* every non-empty piece between spaces is added as written and lower-cased *)
Lemma tokens_piece : forall w p, In p (split_sp w) -> p <> [] ->
  In p (tokens w) /\ In (lower p) (tokens w).
Proof.
  intros w p H NE. rewrite !in_tokens.
  assert (PN : split_sp w <> []) by apply split_sp_nonnil.
  destruct (Nat.eq_dec (length (split_sp w)) 1) as [L1|L1].
  - (* no sub-words: the piece is the whole word *)
    apply split_single in L1. rewrite L1 in H.
    destruct H as [<-|[]]. split; [left; auto|].
    destruct (has_upper w) eqn:HU.
    + right. right. right. left. auto.
    + rewrite (lower_no_upper _ HU). left. auto.
  - assert (LT : Nat.ltb 1 (length (split_sp w)) = true).
    { apply Nat.ltb_lt. destruct (split_sp w) as [|a [|b t]]; simpl in *; try congruence; lia. }
    rewrite LT. simpl andb.
    rewrite (app_removelast_last [] PN) in H. apply in_app_or in H. destruct H as [H|[<-|[]]].
    + (* a piece followed by a space *)
      split.
      * right. left. apply in_flat_map. exists p. split; auto. left. auto.
      * destruct (has_upper w) eqn:HU.
        { right. left. apply in_flat_map. exists p. split; auto. right. left. auto. }
        { assert (has_upper p = false).
          { destruct (has_upper p) eqn:UP; auto.
            assert (In p (split_sp w)) by (rewrite (app_removelast_last [] PN); apply in_or_app; auto).
            rewrite (has_upper_piece w p H0 UP) in HU. discriminate. }
          rewrite (lower_no_upper _ H0). right. left. apply in_flat_map. exists p. split; auto. left. auto. }
    + (* the last piece *)
      destruct (last (split_sp w) []) eqn:LS; [congruence|]. simpl nonempty. cbv iota.
      split; right; right; left; simpl; auto.
Qed.

Lemma tokens_full : forall w, In w (tokens w) /\ In (lower w) (tokens w).
Proof.
  intros w. rewrite !in_tokens. split; [left; auto|].
  destruct (has_upper w) eqn:HU.
  - right. right. right. left. auto.
  - rewrite (lower_no_upper _ HU). left. auto.
Qed.

(* what match_prefix consumed *)
Lemma ceq_lower : forall ci x y, ceq ci x y = true -> (if ci then lower_b x = lower_b y else x = y).
Proof. intros [] x y H; unfold ceq in H; lia. Qed.

Definition eqv (ci : bool) (a b : bytes) : Prop := if ci then lower a = lower b else a = b.

Lemma match_first_piece : forall ci n h rest,
  forallb (fun c => negb (c =? 32)%N) n = true -> n <> [] ->
  match_prefix ci n h = Some rest ->
  match rest with [] => True | c :: _ => (c =? 32)%N = true end ->
  exists p t, split_sp h = p :: t /\ eqv ci n p.
Proof.
  intros ci n. induction n as [|x n IH]; intros h rest NS NE M R; [congruence|].
  destruct h as [|y h]; simpl in M; [discriminate|].
  destruct (ceq ci x y) eqn:C; [|discriminate].
  simpl in NS. apply andb_true_iff in NS. destruct NS as [NS1 NS2].
  assert (Y : (y =? 32)%N = false).
  { apply ceq_lower in C. destruct ci.
    - rewrite <- lower_b_space. rewrite <- C. rewrite lower_b_space. rewrite negb_true_iff in NS1. auto.
    - subst. rewrite negb_true_iff in NS1. auto. }
  simpl. rewrite Y.
  destruct n as [|x' n'].
  - simpl in M. inversion M; subst rest.
    destruct (split_sp h) as [|p t] eqn:S; [exfalso; eapply split_sp_nonnil; eauto|].
    assert (p = []).
    { destruct h as [|c h']; simpl in S.
      - inversion S; auto.
      - rewrite R in S. inversion S; auto. }
    subst p. exists [y], t. split; auto.
    apply ceq_lower in C. unfold eqv. destruct ci; simpl; congruence.
  - destruct (IH h rest NS2 ltac:(discriminate) M R) as [p [t [S E]]].
    rewrite S. exists (y :: p), t. split; auto.
    apply ceq_lower in C. unfold eqv in *. destruct ci; simpl in *; congruence.
Qed.

Lemma scan_piece : forall ci n h b,
  forallb (fun c => negb (c =? 32)%N) n = true -> n <> [] ->
  scan ci n b h = true ->
  exists p, eqv ci n p /\ (if b then In p (split_sp h) else In p (tl (split_sp h))).
Proof.
  intros ci n h. induction h as [|c h IH]; intros b NS NE S; simpl in S.
  - destruct n; [congruence|]. simpl in S. rewrite andb_false_r in S. discriminate.
  - apply orb_true_iff in S. destruct S as [S|S].
    + apply andb_true_iff in S. destruct S as [B S]. subst b.
      destruct (match_prefix ci n (c :: h)) as [rest|] eqn:M; [|discriminate].
      destruct (match_first_piece ci n (c :: h) rest NS NE M) as [p [t [SP E]]].
      { destruct rest; auto. }
      exists p. split; auto. rewrite SP. left. auto.
    + destruct (IH _ NS NE S) as [p [E I]]. exists p. split; auto.
      simpl. destruct (c =? 32)%N eqn:C.
      * simpl. destruct b; simpl; auto.
      * destruct (split_sp h) as [|p0 t] eqn:SP; [exfalso; eapply split_sp_nonnil; eauto|].
        simpl in I. destruct b; simpl; auto.
Qed.

Lemma eqv_nonnil : forall ci n p, eqv ci n p -> n <> [] -> p <> [].
Proof. intros ci n p E NE ->. unfold eqv in E. destruct ci; destruct n; simpl in *; congruence. Qed.

Section Bloom.
  (* the bloom filter library: any structure without false negatives *)
  Variable B : Type.
  Variable bempty : B.
  Variable badd : B -> bytes -> B.
  Variable btest : B -> bytes -> bool.
  Hypothesis add_hit : forall b w, btest (badd b w) w = true.
  Hypothesis add_mono : forall b w x, btest b x = true -> btest (badd b w) x = true.

  (* the bloom of a block column: every value of the column went through addToBlockBloomBothCases *)
  Definition bloom_of (vals : list bytes) : B :=
    fold_left (fun b v => fold_left badd (tokens v) b) vals bempty.

  Lemma fold_add_mono : forall ts b x, btest b x = true -> btest (fold_left badd ts b) x = true.
  Proof. induction ts; simpl; auto. Qed.

  Lemma fold_add_hit : forall ts b x, In x ts -> btest (fold_left badd ts b) x = true.
  Proof.
    induction ts as [|t ts IH]; simpl; intros b x H; [contradiction|].
    destruct H as [<-|H]; [apply fold_add_mono; auto | auto].
  Qed.

  Lemma fold_vals_mono : forall vals b x, btest b x = true ->
    btest (fold_left (fun b v => fold_left badd (tokens v) b) vals b) x = true.
  Proof. induction vals as [|a vals IH]; intros b x H; cbn [fold_left]; auto. apply IH. apply fold_add_mono. auto. Qed.

  Lemma bloom_of_hit : forall vals v x, In v vals -> In x (tokens v) -> btest (bloom_of vals) x = true.
  Proof.
    unfold bloom_of. intros vals. generalize bempty.
    induction vals as [|a vals IH]; intros b v x H T; [inversion H|].
    cbn [fold_left]. destruct H as [<-|H].
    - apply fold_vals_mono. apply fold_add_hit. auto.
    - apply IH with (v := v); auto.
  Qed.

  (* word search (MatchWords / free text): the record-level check IsSubWordPresent accepts the record
     => the probed key is in the block's filter.  [key] is the needle the record check uses: lower-cased
     when the search is case-insensitive. *)
  Theorem bloom_word_sound : forall vals v key ci,
    In v vals ->
    forallb (fun c => negb (c =? 32)%N) key = true -> key <> [] ->
    (ci = true -> lower key = key) ->
    is_subword v key ci = true ->
    btest (bloom_of vals) key = true.
  Proof.
    intros vals v key ci Hv NS NE LK S. unfold is_subword in S.
    destruct (Nat.ltb (length v) (length key)); [discriminate|].
    destruct (scan_piece ci key v true NS NE S) as [p [E I]].
    assert (PN : p <> []) by (eapply eqv_nonnil; eauto).
    destruct (tokens_piece v p I PN) as [T1 T2].
    apply bloom_of_hit with (v := v); auto.
    unfold eqv in E. destruct ci.
    - rewrite <- (LK eq_refl). rewrite E. auto.
    - subst. auto.
  Qed.

  (* column = "value" (fopOnString Equals, whole value) *)
  Lemma eq_ci_eqv : forall ci a b, eq_ci ci a b = true -> eqv ci a b.
  Proof.
    intros ci. induction a as [|x a IH]; destruct b as [|y b]; simpl; intros H; try discriminate.
    - unfold eqv. destruct ci; auto.
    - apply andb_true_iff in H. destruct H as [C H]. apply ceq_lower in C. specialize (IH _ H).
      unfold eqv in *. destruct ci; simpl; congruence.
  Qed.

  Theorem bloom_equals_sound : forall vals v key ci,
    In v vals -> (ci = true -> lower key = key) ->
    eq_ci ci key v = true ->
    btest (bloom_of vals) key = true.
  Proof.
    intros vals v key ci Hv LK E. apply eq_ci_eqv in E.
    destruct (tokens_full v) as [T1 T2].
    apply bloom_of_hit with (v := v); auto.
    unfold eqv in E. destruct ci.
    - rewrite <- (LK eq_refl). rewrite E. auto.
    - subst. auto.
  Qed.

  (* block decision for a text query whose keys are single words, And/Or, on rotated segments:
     a block holding a record that the record check accepts for every (And) / some (Or) word survives *)
  Definition rec_accepts (ci : bool) (o : lop) (keys : list (bytes * option bytes)) (v : bytes) : bool :=
    match o with
    | LAnd => forallb (fun k => is_subword v (fst k) ci) keys
    | LOr => existsb (fun k => is_subword v (fst k) ci) keys
    end.

  Definition keys_ok (ci : bool) (keys : list (bytes * option bytes)) : Prop :=
    forall k, In k keys ->
      forallb (fun c => negb (c =? 32)%N) (fst k) = true /\ fst k <> [] /\ (ci = true -> lower (fst k) = fst k).

  Theorem bloom_prune_sound : forall vals v q ci,
    In v vals -> keys_ok ci (tq_keys q) ->
    rec_accepts ci (tq_op q) (tq_keys q) v = true ->
    text_pass_rotated (btest (bloom_of vals)) q = true
    /\ text_pass_unrotated (btest (bloom_of vals)) q = true.
  Proof.
    intros vals v q ci Hv KO R.
    assert (P : forall k, In k (tq_keys q) -> is_subword v (fst k) ci = true ->
                probe (btest (bloom_of vals)) k = true).
    { intros k Hk S. destruct (KO k Hk) as [A [Bq C]]. unfold probe.
      rewrite (bloom_word_sound vals v (fst k) ci Hv A Bq C S). auto. }
    assert (ALL : forall o, rec_accepts ci o (tq_keys q) v = true ->
                  bloom_pass_allcol (btest (bloom_of vals)) (tq_keys q) o = true
                  /\ bloom_pass_forcol (btest (bloom_of vals)) (tq_keys q) o = true).
    { intros o RA. destruct o; simpl in *.
      - assert (forallb (probe (btest (bloom_of vals))) (tq_keys q) = true).
        { apply forallb_forall. intros k Hk. apply P; auto. rewrite forallb_forall in RA. auto. }
        auto.
      - split; auto. apply existsb_exists in RA. destruct RA as [k [Hk S]].
        destruct (tq_keys q) eqn:K; [contradiction|]. rewrite <- K in *.
        apply existsb_exists. exists k. split; auto. }
    destruct (ALL _ R) as [A1 A2].
    unfold text_pass_rotated, text_pass_unrotated.
    destruct (tq_wild_value q); destruct (tq_negate q); simpl; auto. destruct (tq_wild_col q); auto.
  Qed.

  (* NOT bypasses the bloom whatever the filter holds, on rotated and on open segments *)
  Theorem negate_bypass : forall test q, tq_negate q = true ->
    text_pass_rotated test q = true /\ text_pass_unrotated test q = true.
  Proof. intros test q H. unfold text_pass_rotated, text_pass_unrotated. rewrite H. rewrite !orb_true_r. auto. Qed.

  Theorem wildcard_bypass : forall test q, tq_wild_value q = true ->
    text_pass_rotated test q = true /\ text_pass_unrotated test q = true.
  Proof. intros test q H. unfold text_pass_rotated, text_pass_unrotated. rewrite H. auto. Qed.
End Bloom.

(* exact set: a bloom without false positives (legal instance of the section hypotheses) *)
Definition set_add (b : list bytes) (w : bytes) : list bytes := w :: b.
Definition set_test (b : list bytes) (w : bytes) : bool := mem_bytes w b.

Lemma bytes_eqb_refl : forall w, bytes_eqb w w = true.
Proof. induction w as [|c w IH]; simpl; auto. unfold bytes_eqb in *. simpl. rewrite N.eqb_refl. auto. Qed.

Lemma set_add_hit : forall b w, set_test (set_add b w) w = true.
Proof. intros. unfold set_test, set_add. simpl. rewrite bytes_eqb_refl. auto. Qed.
Lemma set_add_mono : forall b w x, set_test b x = true -> set_test (set_add b w) x = true.
Proof. intros b w x H. unfold set_test, set_add in *. simpl. rewrite H. apply orb_true_r. Qed.

(* (d) a quoted phrase is probed as ONE key; a phrase that is part of a longer value was never added:
   the record check accepts the record, the (exact) filter says no *)
Theorem bloom_prune_phrase_refuted :
  exists v key, is_subword v key true = true
    /\ set_test (bloom_of (list bytes) [] set_add [v]) key = false.
Proof.
  (* "plain text here" / "plain text" *)
  exists [112;108;97;105;110;32;116;101;120;116;32;104;101;114;101]%N,
         [112;108;97;105;110;32;116;101;120;116]%N.
  split; vm_compute; reflexivity.
Qed.

(* PRE-FIX documentation: the open-segment check had no NOT bypass: a block without the word was dropped
   although every record of it satisfies NOT word; the rotated check kept it *)
Theorem prefix_unrotated_negate_refuted :
  exists vals q, tq_negate q = true
    /\ (forall v, In v vals -> rec_accepts true (tq_op q) (tq_keys q) v = false)
    /\ text_pass_unrotated_prefix (set_test (bloom_of (list bytes) [] set_add vals)) q = false
    /\ text_pass_rotated (set_test (bloom_of (list bytes) [] set_add vals)) q = true.
Proof.
  (* block {w:"beta"}, query NOT alpha *)
  exists [[98;101;116;97]]%N, (mkTQ [([97;108;112;104;97]%N, None)] LAnd false true true).
  split; [reflexivity|]. split; [|split; vm_compute; reflexivity].
  intros v [<-|[]]. vm_compute. reflexivity.
Qed.

(* without NOT the pre-fix check is the current one *)
Theorem prefix_unrotated_guarded : forall test q, tq_negate q = false ->
  text_pass_unrotated_prefix test q = text_pass_unrotated test q.
Proof. intros test q H. unfold text_pass_unrotated_prefix, text_pass_unrotated. rewrite H, orb_false_r. auto. Qed.

(* QueryAdmitProofs.v — which admission counts keep MAX_RUNNING_QUERIES (C17), for ALL op sequences. *)
From Coq Require Import List Arith NArith Bool Lia Permutation Sorted.
From Coq Require Import ZifyN ZifyNat ZifyBool.
From SigM Require Import Base QueryLife QueryAdmit.
From SigP Require Import BaseProofs QueryLifeProofs.
Import ListNotations.
Open Scope nat_scope.

(* the code's step is the instance "count every entry" *)
Theorem step_cnt_entries mx s o : step_cnt count_entries mx s o = step mx s o.
Proof.
  destruct o; reflexivity.
Qed.

Theorem run_cnt_entries mx ops : forall s, run_cnt count_entries mx s ops = run mx s ops.
Proof.
  unfold run_cnt, run. induction ops as [|o ops IH]; simpl; intros s; auto.
  rewrite step_cnt_entries. apply IH.
Qed.

(* a count is SAFE when no entry of the table escapes it *)
Definition counts_every_entry (cnt : list entry -> nat) : Prop := forall l, length l <= cnt l.

Lemma Inv_step_cnt cnt mx s o : counts_every_entry cnt -> Inv mx s -> Inv mx (fst (step_cnt cnt mx s o)).
Proof.
  intros H I.
  destruct o as [q a f| |q|q|q|q|q|q];
    try (change (Inv mx (fst (step mx s (Start q a f)))); apply Inv_step; exact I);
    try (apply (Inv_step mx s (Cancel q)); exact I);
    try (apply (Inv_step mx s (Fire q)); exact I);
    try (apply (Inv_step mx s (Complete q)); exact I);
    try (apply (Inv_step mx s (Fail q)); exact I);
    try (apply (Inv_step mx s (Delete q)); exact I);
    try (apply (Inv_step mx s (Recv q)); exact I).
  unfold step_cnt. destruct (wedged s); [exact I|].
  destruct (Nat.ltb (cnt (running s)) mx) eqn:E; [|exact I].
  apply Nat.ltb_lt in E.
  destruct (waiting s) as [|e wq] eqn:W; [exact I|]. simpl.
  destruct (Inv_pop mx s e wq (watchers s) false I W) as (I0 & (F1 & F2 & F3 & F4) & Hni & Hlt).
  pose proof (H (running s)) as Hc.
  apply Inv_admit; simpl; auto. right. lia.
Qed.

Lemma Inv_run_cnt cnt mx ops : counts_every_entry cnt -> forall s, Inv mx s -> Inv mx (run_cnt cnt mx s ops).
Proof.
  intros H. unfold run_cnt. induction ops as [|o ops IH]; simpl; intros s I; auto.
  apply IH. apply Inv_step_cnt; auto.
Qed.

(* every count that misses no entry keeps the admission limit, the queue limit, one entry per qid
   and the arrival order of admissions, for all op sequences and every limit *)
Theorem safe_count_keeps_limits cnt mx ops : counts_every_entry cnt ->
  let s := run_cnt cnt mx init ops in
  nonforced (running s) <= mx /\
  length (waiting s) <= MAX_WAITING /\
  NoDup (map e_qid (running s)) /\
  StronglySorted lt (rev (admitted s) ++ map e_ser (waiting s)).
Proof.
  intros H s. pose proof (Inv_run_cnt cnt mx ops H init (Inv_init mx)) as I. fold s in I.
  destruct I. auto.
Qed.

Lemma counts_every_entry_code : counts_every_entry count_entries.
Proof. intros l. unfold count_entries. lia. Qed.

(* the getter's value is the table size in every reachable state, cancelled entries included *)
Theorem active_count_is_table_size mx ops :
  let s := run mx init ops in
  active_count s = length (running s) /\
  count_uncancelled (running s) <= active_count s.
Proof.
  intros s. unfold active_count, count_entries, count_uncancelled. split; auto.
  apply filter_length_le.
Qed.

(* a table at the limit admits nobody, whatever the flags of its entries *)
Theorem full_table_admits_nothing mx s : mx <= length (running s) -> step mx s Pull = (s, ONone) \/ step mx s Pull = (s, OBlocked).
Proof.
  intros H. unfold step. destruct (wedged s); auto.
  apply Nat.ltb_ge in H. rewrite H. auto.
Qed.

(* as soon as a slot is free the OLDEST waiting query gets it: it leaves the head of the queue,
   enters the table with READY, RUNNING in its channel, and the table grows by at most one *)
Theorem free_slot_admits_head mx ops e wq :
  let s := run mx init ops in
  length (running s) < mx -> waiting s = e :: wq ->
  let s' := fst (step mx s Pull) in
  waiting s' = wq /\ admitted s' = e_ser e :: admitted s /\
  length (running s') <= S (length (running s)) /\
  exists e', In e' (running s') /\ e_ser e' = e_ser e /\ e_qid e' = e_qid e /\
             e_cancelled e' = false /\ e_chan e' = [READY; RUNNING].
Proof.
  intros s Hlen W s'.
  pose proof (Inv_reach mx ops) as I. fold s in I.
  pose proof (no_send_on_full_channel_under_lock mx ops) as Wd. fold s in Wd.
  assert (F : fresh e).
  { pose proof (i_fresh _ _ I) as Fr. rewrite W in Fr. inversion Fr; auto. }
  destruct F as (Fc & Fl & Fcan & Ff).
  unfold s', step. rewrite Wd. apply Nat.ltb_lt in Hlen. rewrite Hlen. rewrite W.
  cbn [fst]. unfold run_query. rewrite Fcan. rewrite admit_fresh; auto.
  cbn [running waiting admitted]. repeat split; auto.
  - simpl. pose proof (remove_qid_length (e_qid e) (running s)). lia.
  - exists (push RUNNING (push READY e)). split; [left; reflexivity|].
    simpl. rewrite Fc. auto.
Qed.

(* ---------- the count that forgets cancelled entries ---------- *)
(* limit 2: three queued starts, two pulls (table full, one waiting), the first query is cancelled
   and its handler has not called DeleteQuery yet, one more pull: three entries in the table *)
Theorem uncancelled_count_refuted :
  exists ops, nonforced (running (run_cnt count_uncancelled 2 init ops)) = 3 /\
              nonforced (running (run 2 init ops)) = 2 /\
              length (waiting (run 2 init ops)) = 1.
Proof. exists (saturate_cancel_pull 2 1). vm_compute. auto. Qed.

(* the same for a timeout instead of a cancel *)
Theorem uncancelled_count_timeout_refuted :
  exists ops, nonforced (running (run_cnt count_uncancelled 1 init ops)) = 2 /\
              nonforced (running (run 1 init ops)) = 1.
Proof.
  exists [Start 1 false false; Start 2 false false; Pull; Fire 1; Pull]. vm_compute. auto.
Qed.

(* every limit up to 6 and every number k <= limit of cancelled-but-undeleted queries: the table
   holds limit + k entries under the uncancelled count and exactly limit under the code's count *)
Definition overshoot_grid : bool :=
  forallb (fun mx => forallb (fun k =>
      Nat.eqb (nonforced (running (run_cnt count_uncancelled mx init (saturate_cancel_pull mx k)))) (mx + k)
      && Nat.eqb (nonforced (running (run mx init (saturate_cancel_pull mx k)))) mx
      && Nat.eqb (length (waiting (run mx init (saturate_cancel_pull mx k)))) k)
    (seq 1 mx)) (seq 1 6).
Theorem uncancelled_count_overshoots_by_every_cancelled_query : overshoot_grid = true.
Proof. vm_compute. reflexivity. Qed.

Theorem uncancelled_count_misses_entries : ~ counts_every_entry count_uncancelled.
Proof.
  intros H. specialize (H [mkE 0 1%N false false true [] []]). vm_compute in H. lia.
Qed.

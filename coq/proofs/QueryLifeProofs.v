(* QueryLifeProofs.v — invariants of the query life-cycle model (C17), for ALL op sequences. *)
From Coq Require Import List Arith NArith Bool Lia Permutation Sorted.
From Coq Require Import ZifyN ZifyNat ZifyBool.
From SigM Require Import Base QueryLife.
From SigP Require Import BaseProofs.
Import ListNotations.
Open Scope nat_scope.

(* ------------------------------------------------------------------ *)
(* generic list facts                                                  *)
(* ------------------------------------------------------------------ *)
Lemma filter_length_le {A} (p : A -> bool) l : length (filter p l) <= length l.
Proof. induction l; simpl; [lia|]. destruct (p a); simpl; lia. Qed.

Lemma filter_filter_le {A} (p q : A -> bool) l :
  length (filter p (filter q l)) <= length (filter p l).
Proof.
  induction l; simpl; [lia|]. destruct (q a); simpl; destruct (p a); simpl; lia.
Qed.

Lemma find_some_app {A} (p : A -> bool) l r x : find p l = Some x -> find p (l ++ r) = Some x.
Proof. induction l; simpl; [discriminate|]. destruct (p a); auto. Qed.

Lemma filter_partition_perm {A} (p : A -> bool) l :
  Permutation (filter (fun x => negb (p x)) l ++ filter p l) l.
Proof.
  induction l; simpl; [constructor|].
  destruct (p a); simpl.
  - eapply Permutation_trans; [apply Permutation_sym, Permutation_middle|]. constructor. exact IHl.
  - constructor. exact IHl.
Qed.

Lemma NoDup_app_remove_l {A} (l1 l2 : list A) : NoDup (l1 ++ l2) -> NoDup l2.
Proof. induction l1; simpl; auto. intros H. inversion H; auto. Qed.

Lemma NoDup_app_disjoint {A} (l1 l2 : list A) a : NoDup (l1 ++ l2) -> In a l1 -> In a l2 -> False.
Proof.
  induction l1; simpl; intros ND H1 H2; [contradiction|].
  inversion ND; subst. destruct H1 as [H1|H1].
  - subst. apply H3. apply in_or_app. auto.
  - auto.
Qed.

(* ------------------------------------------------------------------ *)
(* entry transformers                                                  *)
(* ------------------------------------------------------------------ *)
(* what the per-entry functions never touch *)
Definition keeps (f : entry -> entry) : Prop :=
  forall e, e_ser (f e) = e_ser e /\ e_qid (f e) = e_qid e /\ e_forced (f e) = e_forced e
            /\ exists ext, e_log (f e) = ext ++ e_log e /\ Forall (fun m => is_start_msg m = false) ext.

Lemma keeps_push m : is_start_msg m = false -> keeps (push m).
Proof. intros H e. repeat split. exists [m]. split; [reflexivity|]. constructor; auto. Qed.
Lemma keeps_pop : keeps pop.
Proof. intros e. repeat split. exists []. split; [reflexivity|constructor]. Qed.
Lemma keeps_set_cancelled : keeps set_cancelled.
Proof. intros e. repeat split. exists []. split; [reflexivity|constructor]. Qed.
Lemma keeps_cancel_entry : keeps cancel_entry.
Proof.
  intros e. unfold cancel_entry. destruct (has_room e).
  - repeat split. exists [CANCELLED]. split; [reflexivity|]. constructor; auto.
  - apply keeps_set_cancelled.
Qed.

Lemma upd_qid_length q f l : length (upd_qid q f l) = length l.
Proof. apply map_length. Qed.

Lemma in_upd_qid q f l e' :
  In e' (upd_qid q f l) -> exists e, In e l /\ e' = (if has_qid q e then f e else e).
Proof. unfold upd_qid. rewrite in_map_iff. intros [e [H1 H2]]. exists e. auto. Qed.

Lemma in_upd_qid_fwd q f l e :
  In e l -> In (if has_qid q e then f e else e) (upd_qid q f l).
Proof. intros H. unfold upd_qid. apply in_map_iff. exists e. auto. Qed.

Lemma map_qid_upd q f l : keeps f -> map e_qid (upd_qid q f l) = map e_qid l.
Proof.
  intros K. unfold upd_qid. rewrite map_map. apply map_ext. intros e.
  destruct (has_qid q e); auto. apply K.
Qed.
Lemma map_ser_upd q f l : keeps f -> map e_ser (upd_qid q f l) = map e_ser l.
Proof.
  intros K. unfold upd_qid. rewrite map_map. apply map_ext. intros e.
  destruct (has_qid q e); auto. apply K.
Qed.
Lemma nonforced_upd q f l : keeps f -> nonforced (upd_qid q f l) = nonforced l.
Proof.
  intros K. unfold nonforced, upd_qid. induction l; simpl; auto.
  assert (E : e_forced (if has_qid q a then f a else a) = e_forced a).
  { destruct (has_qid q a); auto. apply K. }
  rewrite E. destruct (e_forced a); simpl; auto.
Qed.

Lemma nonforced_le_length l : nonforced l <= length l.
Proof. apply filter_length_le. Qed.
Lemma nonforced_remove_qid q l : nonforced (remove_qid q l) <= nonforced l.
Proof. unfold nonforced, remove_qid. apply filter_filter_le. Qed.
Lemma remove_qid_length q l : length (remove_qid q l) <= length l.
Proof. apply filter_length_le. Qed.

Lemma remove_first_spec q l :
  let '(x, r) := remove_first q l in
  Permutation (opt_cons x r) l /\ length r <= length l /\
  (forall e, In e r -> In e l) /\ (forall e, x = Some e -> In e l) /\
  (forall e, In e l -> In e r \/ x = Some e) /\
  (exists a b, l = a ++ opt_cons x b /\ r = a ++ b).
Proof.
  induction l as [|a l IH]; simpl.
  - repeat split; auto; try (intros; discriminate). exists [], []. auto.
  - destruct (has_qid q a).
    + simpl. split; [reflexivity|]. split; [lia|]. split; [intros e H; right; exact H|].
      split; [intros e H; inversion H; subst; left; reflexivity|].
      split; [intros e [H|H]; [right; subst; reflexivity|left; exact H]|].
      exists [], l. auto.
    + destruct (remove_first q l) as [x r]. destruct IH as (P & L & I1 & I2 & I3 & a0 & b0 & E1 & E2).
      split; [|split; [|split; [|split; [|split]]]].
      * destruct x; simpl in *.
        -- eapply Permutation_trans; [apply perm_swap|]. constructor. exact P.
        -- constructor. exact P.
      * simpl. lia.
      * intros e [H|H]; [left; exact H|right; apply I1; exact H].
      * intros e H. right. apply I2. exact H.
      * intros e [H|H]; [left; left; exact H|]. destruct (I3 e H); [left; right; auto|right; auto].
      * exists (a :: a0), b0. subst. auto.
Qed.

Lemma send_locked_keeps m e w e' w' :
  is_start_msg m = false ->
  send_locked m (e, w) = (e', w') ->
  e_ser e' = e_ser e /\ e_qid e' = e_qid e /\ e_forced e' = e_forced e /\ e_cancelled e' = e_cancelled e.
Proof.
  unfold send_locked. intros _ H. destruct w; [inversion H; subst; auto|].
  destruct (has_room e); inversion H; subst; simpl; auto.
Qed.

(* admission of a fresh entry: both messages fit, nothing blocks *)
Lemma admit_fresh e : e_chan e = [] ->
  send_locked RUNNING (send_locked READY (e, false)) = (push RUNNING (push READY e), false).
Proof.
  intros H. unfold send_locked at 2. unfold has_room. rewrite H. simpl.
  unfold send_locked, has_room. simpl. rewrite H. simpl. reflexivity.
Qed.

(* ------------------------------------------------------------------ *)
(* the invariant                                                       *)
(* ------------------------------------------------------------------ *)
Definition fresh (e : entry) : Prop :=
  e_chan e = [] /\ e_log e = [] /\ e_cancelled e = false /\ e_forced e = false.

Definition sers (s : st) : list nat := map e_ser (insts s).

(* message log of a query instance, oldest first: READY, RUNNING at most once and only at the very
   beginning (an instance that was cancelled while waiting has just CANCELLED) *)
Definition log_ok (e : entry) : Prop :=
  exists rest, Forall (fun m => is_start_msg m = false) rest /\
               (e_log e = rest \/ e_log e = rest ++ [RUNNING; READY]).

Record Inv (mx : nat) (s : st) : Prop := {
  i_adm : nonforced (running s) <= mx;
  i_wait : length (waiting s) <= MAX_WAITING;
  i_fresh : Forall fresh (waiting s);
  i_qids : NoDup (map e_qid (running s));
  i_sers : NoDup (sers s);
  i_nser : Forall (fun i => i < nser s) (sers s);
  i_fifo : StronglySorted lt (rev (admitted s) ++ map e_ser (waiting s));
  i_adm_lt : Forall (fun i => i < nser s) (admitted s);
  i_log : Forall log_ok (insts s);
  i_started : Forall (fun e => e_log e <> []) (running s)
}.

Lemma Inv_init mx : Inv mx init.
Proof.
  constructor; unfold sers, insts; simpl.
  - apply Nat.le_0_l.
  - apply Nat.le_0_l.
  - constructor.
  - constructor.
  - constructor.
  - constructor.
  - constructor.
  - constructor.
  - constructor.
  - constructor.
Qed.

(* ---------- pieces used by several ops ---------- *)
Lemma NoDup_remove_qid_cons q (e : entry) l :
  e_qid e = q -> NoDup (map e_qid l) -> NoDup (map e_qid (e :: remove_qid q l)).
Proof.
  intros Hq H. simpl. constructor.
  - rewrite in_map_iff. intros [x [Hx Hin]]. unfold remove_qid in Hin. apply filter_In in Hin.
    destruct Hin as [_ Hn]. unfold has_qid in Hn. rewrite Hx, Hq in Hn.
    rewrite N.eqb_refl in Hn. discriminate.
  - unfold remove_qid. clear Hq. induction l; simpl; [constructor|].
    simpl in H. inversion H; subst. destruct (negb (has_qid q a)); simpl; auto.
    constructor; auto. rewrite in_map_iff. intros [x [Hx Hin]]. apply filter_In in Hin.
    apply H2. apply in_map_iff. exists x. tauto.
Qed.

Lemma NoDup_remove_qid q l : NoDup (map e_qid l) -> NoDup (map e_qid (remove_qid q l)).
Proof.
  intros H. unfold remove_qid. induction l; simpl; [constructor|].
  simpl in H. inversion H; subst. destruct (negb (has_qid q a)); simpl; auto.
  constructor; auto. rewrite in_map_iff. intros [x [Hx Hin]]. apply filter_In in Hin.
  apply H2. apply in_map_iff. exists x. tauto.
Qed.

Lemma sorted_app_inv_r l r : StronglySorted lt (l ++ r) -> StronglySorted lt r.
Proof. induction l; simpl; auto. intros H. inversion H; auto. Qed.

Lemma sorted_remove_mid (a : list nat) x b :
  StronglySorted lt (a ++ x :: b) -> StronglySorted lt (a ++ b).
Proof.
  induction a; simpl; intros H.
  - inversion H; auto.
  - inversion H; subst. constructor; auto.
    rewrite Forall_forall in *. intros y Hy. apply H3. rewrite in_app_iff in *. simpl. tauto.
Qed.

Lemma log_ok_keeps_gen f e : keeps f -> log_ok e -> log_ok (f e).
Proof.
  intros K [rest [F H]]. destruct (K e) as (_ & _ & _ & ext & E & Fe).
  exists (ext ++ rest). split; [apply Forall_app; auto|].
  rewrite E. destruct H as [H|H]; rewrite H; [left; reflexivity|right; rewrite app_assoc; reflexivity].
Qed.

Lemma log_ok_keeps f e : keeps f -> log_ok e -> e_log e <> [] -> log_ok (f e).
Proof. intros K H _. apply log_ok_keeps_gen; auto. Qed.


Lemma keeps_log_nonempty f e : keeps f -> e_log e <> [] -> e_log (f e) <> [].
Proof.
  intros K H. destruct (K e) as (_ & _ & _ & ext & E & _). rewrite E.
  intros C. apply app_eq_nil in C. tauto.
Qed.

Lemma Forall_upd_qid (P : entry -> Prop) q f l :
  (forall e, In e l -> P e -> P (f e)) -> Forall P l -> Forall P (upd_qid q f l).
Proof.
  intros H F. rewrite Forall_forall in *. intros e' Hin.
  apply in_upd_qid in Hin. destruct Hin as [e [Hin E]]. subst.
  destruct (has_qid q e); auto.
Qed.

(* ---------- running entries updated in place (exec_send, Recv, TIMEOUT) ---------- *)
Lemma Inv_upd mx s q f ws w : keeps f -> Inv mx s ->
  Inv mx (mkS (upd_qid q f (running s)) (waiting s) ws (dead s) (admitted s) (nser s) w).
Proof.
  intros K I. destruct I. constructor; unfold sers, insts in *; simpl; auto.
  - rewrite nonforced_upd; auto.
  - rewrite map_qid_upd; auto.
  - rewrite map_app in *. rewrite map_ser_upd; auto.
  - rewrite map_app in *. rewrite map_ser_upd; auto.
  - apply Forall_app in i_log0. destruct i_log0 as [L1 L2]. apply Forall_app. split; auto.
    rewrite Forall_forall in *. intros e' Hin. apply in_upd_qid in Hin. destruct Hin as [e [Hin E]]. subst.
    destruct (has_qid q e); auto. apply log_ok_keeps; auto.
  - apply Forall_upd_qid; auto. intros. apply keeps_log_nonempty; auto.
Qed.

Lemma insts_perm_cancel {A} (rm : option A) wq w r d :
  Permutation (opt_cons rm wq) w -> Permutation (r ++ w ++ d) (r ++ wq ++ opt_cons rm d).
Proof.
  intros P. apply Permutation_app_head. destruct rm; simpl in *.
  - eapply Permutation_trans; [apply Permutation_app_tail, Permutation_sym, P|].
    simpl. apply Permutation_middle.
  - apply Permutation_app_tail. apply Permutation_sym. exact P.
Qed.

(* ---------- CancelQuery ---------- *)
(* an entry taken out of the waiting queue (CancelQuery / DeleteQuery of a query that has not
   started): it goes to the graveyard, possibly changed by f *)
Lemma Inv_unqueue mx s q f ws w : keeps f -> Inv mx s ->
  Inv mx (mkS (running s) (snd (remove_first q (waiting s))) ws
              (opt_cons (option_map f (fst (remove_first q (waiting s)))) (dead s))
              (admitted s) (nser s) w).
Proof.
  intros K I.
  pose proof (remove_first_spec q (waiting s)) as RS.
  destruct (remove_first q (waiting s)) as [rm wq]. simpl.
  destruct RS as (P & Ln & I1 & I2 & I3 & a & b & E1 & E2).
  assert (PS : Permutation (map e_ser (running s ++ waiting s ++ dead s))
                           (map e_ser (running s ++ wq ++ opt_cons (option_map f rm) (dead s)))).
  { eapply Permutation_trans; [apply Permutation_map, (insts_perm_cancel rm wq); exact P|].
    rewrite !map_app. apply Permutation_app_head, Permutation_app_head.
    destruct rm; simpl; auto. destruct (K e) as (Ks & _). rewrite Ks. reflexivity. }
  destruct I. constructor; unfold sers, insts in *; simpl; auto.
  - lia.
  - rewrite Forall_forall in *. auto.
  - eapply Permutation_NoDup; [exact PS|exact i_sers0].
  - rewrite Forall_forall in *. intros x Hx. apply i_nser0.
    eapply Permutation_in; [apply Permutation_sym, PS|exact Hx].
  - rewrite E1 in i_fifo0. rewrite E2. destruct rm; simpl in *; auto.
    rewrite !map_app in *. simpl in *. rewrite app_assoc in *.
    eapply sorted_remove_mid. exact i_fifo0.
  - rewrite !Forall_app in *. destruct i_log0 as (A & B & C). split; [|split]; auto.
    + rewrite Forall_forall in *. auto.
    + destruct rm; simpl; auto. constructor; auto. apply log_ok_keeps_gen; auto.
      rewrite Forall_forall in B. apply B. apply I2. reflexivity.
Qed.

Lemma keeps_id : keeps (fun e => e).
Proof. intros e. repeat split. exists []. split; [reflexivity|constructor]. Qed.

Lemma option_map_id {A} (x : option A) : option_map (fun e => e) x = x.
Proof. destruct x; reflexivity. Qed.

Lemma surj_pair_let {A B C} (p : A * B) (g : A -> B -> C) : (let '(a, b) := p in g a b) = g (fst p) (snd p).
Proof. destruct p; reflexivity. Qed.

Lemma Inv_cancel mx s q : Inv mx s -> Inv mx (cancel q s).
Proof.
  intros I. unfold cancel. destruct (lookup q (running s)) as [e|] eqn:L.
  - apply Inv_upd; auto. apply keeps_cancel_entry.
  - rewrite surj_pair_let. apply Inv_unqueue; auto. apply keeps_cancel_entry.
Qed.

(* ---------- DeleteQuery ---------- *)
Lemma insts_perm_delete (q : N) (r w d : list entry) :
  Permutation (r ++ w ++ d) (remove_qid q r ++ w ++ filter (has_qid q) r ++ d).
Proof.
  eapply Permutation_trans.
  - apply Permutation_app_tail. apply Permutation_sym. apply (filter_partition_perm (has_qid q)).
  - unfold remove_qid. rewrite <- app_assoc. apply Permutation_app_head.
    rewrite !app_assoc. apply Permutation_app_tail. apply Permutation_app_comm.
Qed.

Lemma Inv_delete mx s q ws w : Inv mx s ->
  Inv mx (mkS (remove_qid q (running s)) (waiting s) ws (filter (has_qid q) (running s) ++ dead s)
              (admitted s) (nser s) w).
Proof.
  intros I. destruct I. constructor; unfold sers, insts in *; simpl; auto.
  - pose proof (nonforced_remove_qid q (running s)). lia.
  - apply NoDup_remove_qid. auto.
  - eapply Permutation_NoDup; [|exact i_sers0]. apply Permutation_map. apply insts_perm_delete.
  - rewrite Forall_forall in *. intros x Hx. apply i_nser0.
    eapply Permutation_in; [|exact Hx]. apply Permutation_sym, Permutation_map, insts_perm_delete.
  - rewrite Forall_forall in *. intros x Hx. apply i_log0.
    eapply Permutation_in; [|exact Hx]. apply Permutation_sym, insts_perm_delete.
  - rewrite Forall_forall in *. intros x Hx. apply i_started0. unfold remove_qid in Hx.
    apply filter_In in Hx. tauto.
Qed.

(* ---------- withLockRunQuery of an entry that is in no table ---------- *)
Lemma insts_perm_admit (e2 : entry) q (r w d : list entry) :
  Permutation (e2 :: r ++ w ++ d) ((e2 :: remove_qid q r) ++ w ++ filter (has_qid q) r ++ d).
Proof. simpl. constructor. apply insts_perm_delete. Qed.

Lemma Inv_admit mx s0 e :
  Inv mx s0 -> e_chan e = [] -> e_log e = [] -> e_cancelled e = false ->
  ~ In (e_ser e) (sers s0) -> e_ser e < nser s0 ->
  (e_forced e = true \/ length (running s0) < mx) ->
  Inv mx (run_query e s0).
Proof.
  intros I Hc Hl Hcan Hnew Hlt Hadm. unfold run_query. rewrite Hcan. rewrite admit_fresh; auto.
  set (e2 := push RUNNING (push READY e)).
  assert (S2 : e_ser e2 = e_ser e) by reflexivity.
  assert (Q2 : e_qid e2 = e_qid e) by reflexivity.
  assert (F2 : e_forced e2 = e_forced e) by reflexivity.
  assert (L2 : e_log e2 = [RUNNING; READY]) by (unfold e2; simpl; rewrite Hl; reflexivity).
  destruct I. constructor; unfold sers, insts in *; cbn [running waiting dead admitted nser watchers wedged]; auto.
  - unfold nonforced in *. simpl.
    pose proof (nonforced_remove_qid (e_qid e) (running s0)) as R. unfold nonforced in R.
    pose proof (nonforced_le_length (running s0)) as R2. unfold nonforced in R2.
    destruct Hadm as [Hf|Hlen].
    + rewrite Hf. simpl. lia.
    + destruct (e_forced e); simpl; lia.
  - change (NoDup (map e_qid (e2 :: remove_qid (e_qid e) (running s0)))).
    apply NoDup_remove_qid_cons; auto.
  - eapply Permutation_NoDup.
    + apply Permutation_map. apply (insts_perm_admit e2 (e_qid e)).
    + simpl. constructor; auto.
  - rewrite Forall_forall in *. intros x Hx.
    assert (Hx' : In x (map e_ser (e2 :: running s0 ++ waiting s0 ++ dead s0))).
    { eapply Permutation_in; [|exact Hx]. apply Permutation_sym, Permutation_map, (insts_perm_admit e2 (e_qid e)). }
    simpl in Hx'. destruct Hx' as [Hx'|Hx']; [subst; lia|auto].
  - rewrite Forall_forall in *. intros x Hx.
    assert (Hx' : In x (e2 :: running s0 ++ waiting s0 ++ dead s0)).
    { eapply Permutation_in; [|exact Hx]. apply Permutation_sym, (insts_perm_admit e2 (e_qid e)). }
    destruct Hx' as [Hx'|Hx']; [|auto]. subst. exists []. rewrite L2. split; [constructor|right; reflexivity].
  - constructor; [rewrite L2; discriminate|].
    rewrite Forall_forall in *. intros x Hx. apply i_started0. unfold remove_qid in Hx.
    apply filter_In in Hx. tauto.
Qed.

Lemma sorted_snoc l x : StronglySorted lt l -> Forall (fun y => y < x) l -> StronglySorted lt (l ++ [x]).
Proof.
  induction l; simpl; intros S F.
  - constructor; constructor.
  - inversion S; subst. inversion F; subst. constructor; auto.
    apply Forall_app. split; auto.
Qed.

Lemma Inv_ws mx s ws w : Inv mx s ->
  Inv mx (mkS (running s) (waiting s) ws (dead s) (admitted s) (nser s) w).
Proof. intros I. destruct I. constructor; unfold sers, insts in *; simpl; auto. Qed.

Lemma Inv_bump mx s ws w : Inv mx s ->
  Inv mx (mkS (running s) (waiting s) ws (dead s) (admitted s) (S (nser s)) w).
Proof.
  intros I. destruct I. constructor; unfold sers, insts in *; simpl; auto.
  - eapply Forall_impl; [|exact i_nser0]. simpl. intros. lia.
  - eapply Forall_impl; [|exact i_adm_lt0]. simpl. intros. lia.
Qed.

(* the head of the queue taken out and logged as admitted *)
Lemma Inv_pop mx s e wq ws w : Inv mx s -> waiting s = e :: wq ->
  Inv mx (mkS (running s) wq ws (dead s) (e_ser e :: admitted s) (nser s) w) /\
  fresh e /\ ~ In (e_ser e) (map e_ser (running s ++ wq ++ dead s)) /\ e_ser e < nser s.
Proof.
  intros I E. destruct I. unfold sers, insts in *. rewrite E in *.
  assert (P : Permutation (e :: running s ++ wq ++ dead s) (running s ++ (e :: wq) ++ dead s)).
  { simpl. apply Permutation_middle. }
  assert (ND : NoDup (map e_ser (e :: running s ++ wq ++ dead s))).
  { eapply Permutation_NoDup; [|exact i_sers0]. apply Permutation_map, Permutation_sym, P. }
  simpl in ND. inversion ND as [|x l Hni Hnd]; subst.
  assert (LT : Forall (fun i => i < nser s) (map e_ser (e :: running s ++ wq ++ dead s))).
  { rewrite Forall_forall in *. intros x Hx. apply i_nser0. eapply Permutation_in; [|exact Hx].
    apply Permutation_map, P. }
  simpl in LT. inversion LT; subst.
  split; [|split; [|split]]; auto.
  - constructor; unfold sers, insts; simpl; auto.
    + simpl in i_wait0. lia.
    + inversion i_fresh0; auto.
    + simpl. rewrite <- app_assoc. simpl. exact i_fifo0.
    + rewrite Forall_forall in *. intros x Hx. apply i_log0. eapply Permutation_in; [apply P|]. right. exact Hx.
  - inversion i_fresh0; auto.
Qed.

Lemma Inv_enqueue mx s q a ws w :
  Inv mx s -> length (waiting s) < MAX_WAITING ->
  Inv mx (mkS (running s) (waiting s ++ [mkE (nser s) q a false false [] []]) ws (dead s) (admitted s) (S (nser s)) w).
Proof.
  intros I Hlen. destruct I. set (e := mkE (nser s) q a false false [] []).
  assert (P : Permutation (e :: running s ++ waiting s ++ dead s) (running s ++ (waiting s ++ [e]) ++ dead s)).
  { rewrite <- app_assoc. simpl.
    eapply Permutation_trans; [apply Permutation_middle|]. apply Permutation_app_head.
    apply Permutation_middle. }
  constructor; unfold sers, insts in *; cbn [running waiting dead admitted nser watchers wedged]; auto.
  - rewrite app_length. simpl. lia.
  - apply Forall_app. split; auto. constructor; [|constructor]. repeat split; reflexivity.
  - eapply Permutation_NoDup; [apply Permutation_map, P|]. simpl. constructor; auto.
    intros C. rewrite Forall_forall in i_nser0. apply i_nser0 in C. lia.
  - rewrite Forall_forall in *. intros x Hx.
    assert (Hx' : In x (map e_ser (e :: running s ++ waiting s ++ dead s))).
    { eapply Permutation_in; [|exact Hx]. apply Permutation_sym, Permutation_map, P. }
    simpl in Hx'. destruct Hx' as [Hx'|Hx']; [subst; lia|]. apply i_nser0 in Hx'. lia.
  - rewrite map_app. simpl. rewrite app_assoc. apply sorted_snoc; auto.
    apply Forall_app. split.
    + rewrite Forall_forall in *. intros x Hx. apply in_rev in Hx. auto.
    + rewrite Forall_forall in *. intros x Hx. apply i_nser0. rewrite !map_app, !in_app_iff. tauto.
  - eapply Forall_impl; [|exact i_adm_lt0]. simpl. intros. lia.
  - rewrite Forall_forall in *. intros x Hx.
    assert (Hx' : In x (e :: running s ++ waiting s ++ dead s)).
    { eapply Permutation_in; [|exact Hx]. apply Permutation_sym, P. }
    destruct Hx' as [Hx'|Hx']; [subst; exists []; split; [constructor|left; reflexivity]|auto].
Qed.

Lemma exec_send_Inv mx s q m : is_start_msg m = false -> Inv mx s -> Inv mx (exec_send q m s).
Proof.
  intros Hm I. unfold exec_send. destruct (lookup q (running s)); auto.
  destruct (has_room e); auto. apply Inv_upd; auto. apply keeps_push; auto.
Qed.

Local Opaque MAX_WAITING.

Theorem Inv_step mx s o : Inv mx s -> Inv mx (fst (step mx s o)).
Proof.
  intros I. unfold step. destruct (wedged s); [exact I|].
  destruct o as [q a f| |q|q|q|q|q|q]; simpl.
  - (* Start *)
    destruct (existsb (has_qid q) (running s)); [exact I|].
    destruct f; simpl.
    + apply Inv_admit; simpl; auto.
      * apply Inv_bump. exact I.
      * unfold sers, insts. simpl. intros C. destruct I. unfold sers, insts in *.
        rewrite Forall_forall in i_nser0. apply i_nser0 in C. lia.
    + destruct (Nat.leb MAX_WAITING (length (waiting s))) eqn:E; [exact I|]. simpl.
      apply Nat.leb_gt in E. apply Inv_enqueue; auto.
  - (* Pull *)
    destruct (Nat.ltb (length (running s)) mx) eqn:E; [|exact I].
    apply Nat.ltb_lt in E.
    destruct (waiting s) as [|e wq] eqn:W; [exact I|]. simpl.
    destruct (Inv_pop mx s e wq (watchers s) false I W) as (I0 & (F1 & F2 & F3 & F4) & Hni & Hlt).
    apply Inv_admit; simpl; auto.
  - apply Inv_cancel. exact I.
  - (* Fire *)
    destruct (remove_watcher_q q (watchers s)) as [[wt|] ws]; simpl; [|exact I].
    destruct (lookup q (running s)) as [e|]; simpl.
    + destruct (has_room e); simpl; [|exact I].
      apply Inv_cancel. apply Inv_upd; auto. apply keeps_push. reflexivity.
    + apply Inv_ws. exact I.
  - apply exec_send_Inv; auto.
  - apply exec_send_Inv; auto.
  - destruct (lookup q (running s)) as [e|]; simpl; [apply Inv_delete; exact I|].
    rewrite surj_pair_let. cbn [fst].
    pose proof (Inv_unqueue mx s q (fun e => e) (watchers s) false keeps_id I) as H.
    rewrite option_map_id in H. exact H.
  - destruct (lookup q (running s)) as [e|]; simpl; [|exact I].
    destruct (e_chan e); simpl; [exact I|]. apply Inv_upd; auto. apply keeps_pop.
Qed.

Theorem Inv_run mx ops : forall s, Inv mx s -> Inv mx (run mx s ops).
Proof.
  unfold run. induction ops as [|o ops IH]; simpl; intros s I; auto.
  apply IH. apply Inv_step. exact I.
Qed.

Corollary Inv_reach mx ops : Inv mx (run mx init ops).
Proof. apply Inv_run, Inv_init. Qed.

(* ------------------------------------------------------------------ *)
(* bounds, uniqueness, FIFO                                            *)
(* ------------------------------------------------------------------ *)
Theorem admission_bound mx ops : nonforced (running (run mx init ops)) <= mx.
Proof. apply (i_adm _ _ (Inv_reach mx ops)). Qed.

Theorem waiting_bound mx ops : length (waiting (run mx init ops)) <= MAX_WAITING.
Proof. apply (i_wait _ _ (Inv_reach mx ops)). Qed.

Theorem running_qids_unique mx ops : NoDup (map e_qid (running (run mx init ops))).
Proof. apply (i_qids _ _ (Inv_reach mx ops)). Qed.

Theorem fifo_admission mx ops :
  let s := run mx init ops in
  StronglySorted lt (rev (admitted s) ++ map e_ser (waiting s)).
Proof. apply (i_fifo _ _ (Inv_reach mx ops)). Qed.

Theorem serials_unique mx ops : NoDup (map e_ser (insts (run mx init ops))).
Proof. apply (i_sers _ _ (Inv_reach mx ops)). Qed.

Theorem waiting_untouched mx ops :
  Forall (fun e => e_chan e = [] /\ e_log e = [] /\ e_cancelled e = false) (waiting (run mx init ops)).
Proof.
  pose proof (i_fresh _ _ (Inv_reach mx ops)) as F.
  eapply Forall_impl; [|exact F]. intros e (A & B & C & _). auto.
Qed.

Theorem started_once mx ops : Forall log_ok (insts (run mx init ops)).
Proof. apply (i_log _ _ (Inv_reach mx ops)). Qed.

(* without forced starts the running table itself never exceeds the limit *)
Definition is_forced_start (o : op) : bool := match o with Start _ _ true => true | _ => false end.

Lemma nonforced_all l : Forall (fun e => e_forced e = false) l -> nonforced l = length l.
Proof.
  unfold nonforced. induction 1; simpl; auto. rewrite H. simpl. lia.
Qed.

Lemma Forall_nf_upd q f l : keeps f ->
  Forall (fun e => e_forced e = false) l -> Forall (fun e => e_forced e = false) (upd_qid q f l).
Proof.
  intros K. apply Forall_upd_qid. intros e _ H. destruct (K e) as (_ & _ & F & _). congruence.
Qed.

Lemma Forall_remove_qid (P : entry -> Prop) q l : Forall P l -> Forall P (remove_qid q l).
Proof.
  intros F. rewrite Forall_forall in *. intros x Hx. unfold remove_qid in Hx. apply filter_In in Hx. apply F. tauto.
Qed.

Lemma running_cancel q s :
  running (cancel q s) = match lookup q (running s) with
                         | Some _ => upd_qid q cancel_entry (running s)
                         | None => running s
                         end.
Proof.
  unfold cancel. destruct (lookup q (running s)); [reflexivity|].
  destruct (remove_first q (waiting s)); reflexivity.
Qed.

Lemma nf_cancel q s : Forall (fun e => e_forced e = false) (running s) ->
  Forall (fun e => e_forced e = false) (running (cancel q s)).
Proof.
  intros F. rewrite running_cancel. destruct (lookup q (running s)); auto.
  apply Forall_nf_upd; auto. apply keeps_cancel_entry.
Qed.

Lemma nf_step mx s o : Inv mx s -> is_forced_start o = false ->
  Forall (fun e => e_forced e = false) (running s) ->
  Forall (fun e => e_forced e = false) (running (fst (step mx s o))).
Proof.
  intros I Hf F. unfold step. destruct (wedged s); [exact F|].
  destruct o as [q a f| |q|q|q|q|q|q]; simpl.
  - destruct (existsb (has_qid q) (running s)); [exact F|].
    destruct f; [discriminate|].
    destruct (Nat.leb MAX_WAITING (length (waiting s))); exact F.
  - destruct (Nat.ltb (length (running s)) mx); [|exact F].
    destruct (waiting s) as [|e wq] eqn:W; [exact F|]. simpl.
    pose proof (i_fresh _ _ I) as Fr. rewrite W in Fr. inversion Fr as [|x l (C1 & C2 & C3 & C4) Fr']; subst.
    unfold run_query. rewrite C3. rewrite admit_fresh; auto. simpl.
    constructor; auto. apply Forall_remove_qid. exact F.
  - apply nf_cancel. exact F.
  - destruct (remove_watcher_q q (watchers s)) as [[wt|] ws]; simpl; [|exact F].
    destruct (lookup q (running s)) as [e|] eqn:L; simpl; [|exact F].
    destruct (has_room e); simpl; [|exact F].
    apply nf_cancel. simpl. apply Forall_nf_upd; auto. apply keeps_push. reflexivity.
  - unfold exec_send. destruct (lookup q (running s)); [|exact F]. destruct (has_room e); [|exact F].
    simpl. apply Forall_nf_upd; auto. apply keeps_push. reflexivity.
  - unfold exec_send. destruct (lookup q (running s)); [|exact F]. destruct (has_room e); [|exact F].
    simpl. apply Forall_nf_upd; auto. apply keeps_push. reflexivity.
  - destruct (lookup q (running s)); [simpl; apply Forall_remove_qid; exact F|].
    destruct (remove_first q (waiting s)). exact F.
  - destruct (lookup q (running s)); [|exact F]. destruct (e_chan e); [exact F|]. simpl.
    apply Forall_nf_upd; auto. apply keeps_pop.
Qed.

Theorem running_bound_without_forced mx ops :
  forallb (fun o => negb (is_forced_start o)) ops = true ->
  length (running (run mx init ops)) <= mx.
Proof.
  intros H.
  assert (G : forall s, Inv mx s -> Forall (fun e => e_forced e = false) (running s) ->
              Forall (fun e => e_forced e = false) (running (run mx s ops))).
  { unfold run. induction ops as [|o ops IH]; simpl; intros s I F; auto.
    simpl in H. apply andb_true_iff in H. destruct H as [H1 H2].
    apply IH; auto. apply Inv_step; auto. apply nf_step; auto.
    destruct (is_forced_start o); [discriminate|reflexivity]. }
  specialize (G init (Inv_init mx) (Forall_nil _)).
  rewrite <- (nonforced_all _ G). apply admission_bound.
Qed.

(* ------------------------------------------------------------------ *)
(* one terminal state                                                  *)
(* ------------------------------------------------------------------ *)
(* the same query instance later: same serial, its message log only grew *)
Definition later (e e' : entry) : Prop := e_ser e' = e_ser e /\ exists ext, e_log e' = ext ++ e_log e.

Lemma later_refl e : later e e.
Proof. split; auto. exists []. reflexivity. Qed.
Lemma later_trans a b c : later a b -> later b c -> later a c.
Proof.
  intros [S1 [x1 L1]] [S2 [x2 L2]]. split; [congruence|]. exists (x2 ++ x1). rewrite L2, L1, app_assoc. reflexivity.
Qed.
Lemma later_keeps f e : keeps f -> later e (f e).
Proof. intros K. destruct (K e) as (S & _ & _ & ext & L & _). split; auto. exists ext. auto. Qed.

Definition ext_rel (s s' : st) : Prop := forall e, In e (insts s) -> exists e', In e' (insts s') /\ later e e'.

Lemma ext_refl s : ext_rel s s.
Proof. intros e H. exists e. split; auto. apply later_refl. Qed.
Lemma ext_trans a b c : ext_rel a b -> ext_rel b c -> ext_rel a c.
Proof.
  intros H1 H2 e Hin. destruct (H1 e Hin) as [e1 [I1 L1]]. destruct (H2 e1 I1) as [e2 [I2 L2]].
  exists e2. split; auto. eapply later_trans; eauto.
Qed.

Lemma ext_same s s' : (forall e, In e (insts s) -> In e (insts s')) -> ext_rel s s'.
Proof. intros H e Hin. exists e. split; auto. apply later_refl. Qed.

Lemma ext_upd s q f ws w : keeps f ->
  ext_rel s (mkS (upd_qid q f (running s)) (waiting s) ws (dead s) (admitted s) (nser s) w).
Proof.
  intros K e Hin. unfold insts in *. simpl. rewrite !in_app_iff in *. destruct Hin as [H|H].
  - exists (if has_qid q e then f e else e). split.
    + rewrite !in_app_iff. left. apply in_upd_qid_fwd. exact H.
    + destruct (has_qid q e); [apply later_keeps; auto|apply later_refl].
  - exists e. split; [rewrite !in_app_iff; right; exact H|apply later_refl].
Qed.

Lemma ext_unqueue s q f ws w : keeps f ->
  ext_rel s (mkS (running s) (snd (remove_first q (waiting s))) ws
                 (opt_cons (option_map f (fst (remove_first q (waiting s)))) (dead s))
                 (admitted s) (nser s) w).
Proof.
  intros K.
  pose proof (remove_first_spec q (waiting s)) as RS.
  destruct (remove_first q (waiting s)) as [rm wq]. simpl.
  destruct RS as (P & Ln & I1 & I2 & I3 & _).
  intros x Hin. unfold insts in *. simpl. rewrite !in_app_iff in Hin. destruct Hin as [H|[H|H]].
  - exists x. split; [rewrite !in_app_iff; auto|apply later_refl].
  - destruct (I3 x H) as [H'|H'].
    + exists x. split; [rewrite !in_app_iff; auto|apply later_refl].
    + subst. exists (f x). split; [rewrite !in_app_iff; right; right; simpl; auto|apply later_keeps; auto].
  - exists x. split; [|apply later_refl]. rewrite !in_app_iff. right. right. destruct rm; simpl; auto.
Qed.

Lemma ext_cancel s q : ext_rel s (cancel q s).
Proof.
  unfold cancel. destruct (lookup q (running s)).
  - apply ext_upd. apply keeps_cancel_entry.
  - rewrite surj_pair_let. apply ext_unqueue. apply keeps_cancel_entry.
Qed.

Lemma in_remove_or_filter q (l : list entry) x : In x l -> In x (remove_qid q l) \/ In x (filter (has_qid q) l).
Proof.
  intros H. unfold remove_qid. rewrite !filter_In. destruct (has_qid q x); simpl; tauto.
Qed.

Lemma ext_delete s q ws w :
  ext_rel s (mkS (remove_qid q (running s)) (waiting s) ws (filter (has_qid q) (running s) ++ dead s) (admitted s) (nser s) w).
Proof.
  apply ext_same. intros e. unfold insts. simpl. rewrite !in_app_iff. intros [H|[H|H]]; auto.
  destruct (in_remove_or_filter q _ _ H); auto.
Qed.

(* admission: the entries of the tables stay, the admitted one is continued by the new table entry *)
Lemma ext_admit s0 e : e_chan e = [] -> e_cancelled e = false ->
  ext_rel s0 (run_query e s0) /\ exists e', In e' (insts (run_query e s0)) /\ later e e'.
Proof.
  intros Hc Hcan. unfold run_query. rewrite Hcan, admit_fresh; auto. split.
  - apply ext_same. intros x. unfold insts. simpl. rewrite !in_app_iff. intros [H|[H|H]]; auto.
    destruct (in_remove_or_filter (e_qid e) _ _ H); auto.
  - exists (push RUNNING (push READY e)). split; [unfold insts; simpl; auto|].
    split; [reflexivity|]. exists [RUNNING; READY]. reflexivity.
Qed.

Lemma ext_step mx s o : Inv mx s -> ext_rel s (fst (step mx s o)).
Proof.
  intros I. unfold step. destruct (wedged s); [apply ext_refl|].
  destruct o as [q a f| |q|q|q|q|q|q]; simpl.
  - destruct (existsb (has_qid q) (running s)); [apply ext_refl|].
    destruct f; simpl.
    + eapply ext_trans; [|apply ext_admit; reflexivity]. apply ext_same. auto.
    + destruct (Nat.leb MAX_WAITING (length (waiting s))); [apply ext_refl|]. simpl.
      apply ext_same. intros e. unfold insts. simpl. rewrite !in_app_iff. tauto.
  - destruct (Nat.ltb (length (running s)) mx); [|apply ext_refl].
    destruct (waiting s) as [|e wq] eqn:W; [apply ext_refl|]. simpl.
    pose proof (i_fresh _ _ I) as Fr. rewrite W in Fr. inversion Fr as [|x l (C1 & C2 & C3 & C4) Fr']; subst.
    destruct (ext_admit (mkS (running s) wq (watchers s) (dead s) (e_ser e :: admitted s) (nser s) false) e C1 C3) as [E1 [e' [E2 E3]]].
    intros x Hin. unfold insts in Hin. rewrite W in Hin. rewrite !in_app_iff in Hin. simpl in Hin.
    destruct Hin as [H|[[H|H]|H]].
    + apply E1. unfold insts. simpl. rewrite !in_app_iff. auto.
    + subst. exists e'. auto.
    + apply E1. unfold insts. simpl. rewrite !in_app_iff. auto.
    + apply E1. unfold insts. simpl. rewrite !in_app_iff. auto.
  - apply ext_cancel.
  - destruct (remove_watcher_q q (watchers s)) as [[wt|] ws]; simpl; [|apply ext_refl].
    destruct (lookup q (running s)) as [e|]; simpl.
    + destruct (has_room e); simpl; [|apply ext_refl].
      eapply ext_trans; [|apply ext_cancel]. apply ext_upd. apply keeps_push. reflexivity.
    + apply ext_same. auto.
  - unfold exec_send. destruct (lookup q (running s)); [|apply ext_refl].
    destruct (has_room e); [|apply ext_refl]. apply ext_upd. apply keeps_push. reflexivity.
  - unfold exec_send. destruct (lookup q (running s)); [|apply ext_refl].
    destruct (has_room e); [|apply ext_refl]. apply ext_upd. apply keeps_push. reflexivity.
  - destruct (lookup q (running s)); simpl; [apply ext_delete|].
    rewrite surj_pair_let. cbn [fst].
    pose proof (ext_unqueue s q (fun e => e) (watchers s) false keeps_id) as H.
    rewrite option_map_id in H. exact H.
  - destruct (lookup q (running s)); simpl; [|apply ext_refl].
    destruct (e_chan e); simpl; [apply ext_refl|]. apply ext_upd. apply keeps_pop.
Qed.

Lemma ext_run mx ops : forall s, Inv mx s -> ext_rel s (run mx s ops).
Proof.
  unfold run. induction ops as [|o ops IH]; simpl; intros s I; [apply ext_refl|].
  eapply ext_trans; [apply ext_step; exact I|]. apply IH. apply Inv_step. exact I.
Qed.

Lemma run_app mx s a b : run mx s (a ++ b) = run mx (run mx s a) b.
Proof. unfold run. apply fold_left_app. Qed.

Lemma NoDup_map_inj {A B} (f : A -> B) l a b :
  NoDup (map f l) -> In a l -> In b l -> f a = f b -> a = b.
Proof.
  induction l; simpl; intros ND Ha Hb E; [contradiction|].
  inversion ND; subst. destruct Ha as [Ha|Ha], Hb as [Hb|Hb]; subst; auto.
  - exfalso. apply H1. rewrite E. apply in_map. exact Hb.
  - exfalso. apply H1. rewrite <- E. apply in_map. exact Ha.
Qed.

Lemma term_of_later e e' t : later e e' -> term_of e = Some t -> term_of e' = Some t.
Proof.
  intros [_ [ext L]] T. unfold term_of in *. rewrite L, rev_app_distr. apply find_some_app. exact T.
Qed.

(* Once the first terminal message (COMPLETE / CANCELLED / TIMEOUT / ERROR) has been sent for a
   query instance, that terminal state is the instance's terminal state in every later state,
   whatever ops follow. *)
Theorem one_terminal_state mx ops1 ops2 e t :
  In e (insts (run mx init ops1)) -> term_of e = Some t ->
  forall e', In e' (insts (run mx init (ops1 ++ ops2))) -> e_ser e' = e_ser e -> term_of e' = Some t.
Proof.
  intros Hin T e' Hin' S. rewrite run_app in Hin'.
  destruct (ext_run mx ops2 _ (Inv_reach mx ops1) e Hin) as [e'' [I'' L'']].
  assert (e' = e'').
  { eapply (NoDup_map_inj e_ser); [| exact Hin' | exact I'' |].
    - apply (i_sers _ _ (Inv_run mx ops2 _ (Inv_reach mx ops1))).
    - destruct L'' as [S'' _]. congruence. }
  subst. eapply term_of_later; eauto.
Qed.

(* ... and the instance keeps existing (in a table or in the graveyard), so the statement above is not empty *)
Theorem instance_persists mx ops1 ops2 e :
  In e (insts (run mx init ops1)) ->
  exists e', In e' (insts (run mx init (ops1 ++ ops2))) /\ later e e'.
Proof.
  intros Hin. rewrite run_app. apply (ext_run mx ops2 _ (Inv_reach mx ops1) e Hin).
Qed.

(* ------------------------------------------------------------------ *)
(* nothing ever blocks while a table lock is held                      *)
(* ------------------------------------------------------------------ *)
Lemma wedged_cancel q s : wedged (cancel q s) = wedged s.
Proof.
  unfold cancel. destruct (lookup q (running s)); [reflexivity|].
  destruct (remove_first q (waiting s)); reflexivity.
Qed.

Lemma unwedged_step mx s o : Inv mx s -> wedged s = false -> wedged (fst (step mx s o)) = false.
Proof.
  intros I W. unfold step. rewrite W.
  destruct o as [q a f| |q|q|q|q|q|q]; simpl.
  - destruct (existsb (has_qid q) (running s)); [auto|]. destruct f; simpl; [reflexivity|].
    destruct (Nat.leb MAX_WAITING (length (waiting s))); auto.
  - destruct (Nat.ltb (length (running s)) mx); [|auto].
    destruct (waiting s) as [|e wq] eqn:Wt; [auto|]. cbn [fst].
    pose proof (i_fresh _ _ I) as Fr. rewrite Wt in Fr. inversion Fr as [|x l (C1 & C2 & C3 & C4) Fr']; subst.
    unfold run_query. rewrite C3, admit_fresh; auto.
  - rewrite wedged_cancel. exact W.
  - destruct (remove_watcher_q q (watchers s)) as [[wt|] ws]; simpl; [|auto].
    destruct (lookup q (running s)) as [e|]; simpl; [|auto].
    destruct (has_room e); simpl; [|auto]. rewrite wedged_cancel. reflexivity.
  - unfold exec_send. destruct (lookup q (running s)); [|auto]. destruct (has_room e); auto.
  - unfold exec_send. destruct (lookup q (running s)); [|auto]. destruct (has_room e); auto.
  - destruct (lookup q (running s)); [reflexivity|]. destruct (remove_first q (waiting s)); reflexivity.
  - destruct (lookup q (running s)); [|auto]. destruct (e_chan e); auto.
Qed.

Lemma unwedged_run mx ops : forall s, Inv mx s -> wedged s = false -> wedged (run mx s ops) = false.
Proof.
  unfold run. induction ops as [|o ops IH]; simpl; intros s I W; auto.
  apply IH; [apply Inv_step; exact I|apply unwedged_step; auto].
Qed.

(* FULL statement, true since fixes/C17-cancel-waiting-query: for every op sequence, no sender is
   ever blocked in a channel send while holding arqMapLock or waitingQueriesLock.  (READY and
   RUNNING are sent under arqMapLock, but always into the empty channel of a query that has never
   run; CANCELLED and TIMEOUT are sent with no lock held.) *)
Theorem no_send_on_full_channel_under_lock mx ops : wedged (run mx init ops) = false.
Proof. apply unwedged_run; [apply Inv_init|reflexivity]. Qed.

(* ------------------------------------------------------------------ *)
(* no entry after a terminal state                                     *)
(* ------------------------------------------------------------------ *)
Lemma in_table_remove_qid q l : in_table q (remove_qid q l) = false.
Proof.
  unfold in_table, remove_qid. induction l; simpl; auto.
  destruct (has_qid q a) eqn:E; simpl; auto. rewrite E. simpl. exact IHl.
Qed.

Lemma lookup_none_in_table q l : lookup q l = None -> in_table q l = false.
Proof.
  unfold lookup, in_table. induction l; simpl; auto. destruct (has_qid q a); [discriminate|auto].
Qed.

Lemma lookup_some q l e : lookup q l = Some e -> In e l /\ e_qid e = q.
Proof.
  unfold lookup. intros H. apply find_some in H. destruct H as [H1 H2]. split; auto.
  unfold has_qid in H2. apply N.eqb_eq in H2. exact H2.
Qed.

Lemma lookup_upd_qid q f l : (forall e, e_qid (f e) = e_qid e) ->
  lookup q (upd_qid q f l) = option_map f (lookup q l).
Proof.
  intros K. unfold lookup, upd_qid. induction l; simpl; auto.
  destruct (has_qid q a) eqn:E.
  - unfold has_qid in *. rewrite K, E. reflexivity.
  - rewrite E. exact IHl.
Qed.


Lemma in_table_app q a b : in_table q (a ++ b) = in_table q a || in_table q b.
Proof. unfold in_table. apply existsb_app. Qed.

Lemma in_table_iff q l : in_table q l = true <-> In q (map e_qid l).
Proof.
  unfold in_table. rewrite existsb_exists, in_map_iff. split.
  - intros [e [H1 H2]]. exists e. unfold has_qid in H2. apply N.eqb_eq in H2. auto.
  - intros [e [H1 H2]]. exists e. split; auto. unfold has_qid. apply N.eqb_eq. auto.
Qed.

Lemma in_table_false q l : in_table q l = false <-> ~ In q (map e_qid l).
Proof.
  rewrite <- in_table_iff. destruct (in_table q l); split; intros; try discriminate; auto.
  exfalso. auto.
Qed.

Lemma remove_qid_absent q l : in_table q l = false -> remove_qid q l = l.
Proof.
  unfold in_table, remove_qid. induction l; simpl; auto. intros H.
  apply orb_false_iff in H. destruct H as [H1 H2]. rewrite H1. simpl. rewrite IHl; auto.
Qed.

(* live queries have distinct qids *)
Definition dup_free (s : st) : Prop := NoDup (map e_qid (running s ++ waiting s)).

(* every live timeout-watcher goroutine belongs to an entry of the running table *)
Definition watchers_owned (s : st) : Prop :=
  forall w, In w (watchers s) -> exists e, In e (running s) /\ e_ser e = fst w /\ e_qid e = snd w.

Lemma remove_first_some q l : in_table q l = true ->
  exists e, fst (remove_first q l) = Some e /\ e_qid e = q /\ In e l.
Proof.
  unfold in_table. induction l; simpl; [discriminate|]. intros H.
  destruct (has_qid q a) eqn:E.
  - exists a. simpl. unfold has_qid in E. apply N.eqb_eq in E. auto.
  - simpl in H. destruct (IHl H) as [e [H1 [H2 H3]]]. destruct (remove_first q l). simpl in *.
    exists e. auto.
Qed.

Lemma remove_first_nodup q l : NoDup (map e_qid l) -> in_table q (snd (remove_first q l)) = false.
Proof.
  induction l; simpl; intros ND; [reflexivity|]. inversion ND; subst.
  destruct (has_qid q a) eqn:E.
  - simpl. apply in_table_false. unfold has_qid in E. apply N.eqb_eq in E. subst. exact H1.
  - specialize (IHl H2). destruct (remove_first q l). simpl in *. unfold in_table in *. simpl. rewrite E. exact IHl.
Qed.

Lemma remove_first_sub q (l : list entry) x : In x (snd (remove_first q l)) -> In x l.
Proof.
  pose proof (remove_first_spec q l) as RS. destruct (remove_first q l). simpl.
  destruct RS as (_ & _ & I1 & _). auto.
Qed.

Lemma NoDup_map_sub {A B} (f : A -> B) (l l' : list A) :
  NoDup (map f l) -> (exists x, Permutation (x ++ l') l) -> NoDup (map f l').
Proof.
  intros ND [x P]. apply (Permutation_map f) in P. apply Permutation_sym in P.
  apply (Permutation_NoDup P) in ND. rewrite map_app in ND. apply NoDup_app_remove_l in ND. exact ND.
Qed.

Lemma dup_free_unqueue q r w :
  NoDup (map e_qid (r ++ w)) -> NoDup (map e_qid (r ++ snd (remove_first q w))).
Proof.
  intros ND. pose proof (remove_first_spec q w) as RS. destruct (remove_first q w) as [rm wq]. simpl.
  destruct RS as (P & _). eapply NoDup_map_sub; [exact ND|].
  exists (opt_cons rm []). destruct rm; simpl in *.
  - eapply Permutation_trans; [apply Permutation_middle|]. apply Permutation_app_head. exact P.
  - apply Permutation_app_head. exact P.
Qed.

Lemma dup_free_remove_qid q r w :
  NoDup (map e_qid (r ++ w)) -> NoDup (map e_qid (remove_qid q r ++ w)).
Proof.
  intros ND. eapply NoDup_map_sub; [exact ND|]. exists (filter (has_qid q) r).
  rewrite app_assoc. apply Permutation_app_tail.
  eapply Permutation_trans; [apply Permutation_app_comm|]. apply (filter_partition_perm (has_qid q)).
Qed.

Lemma in_upd_same q f l e : keeps f -> In e l ->
  exists e', In e' (upd_qid q f l) /\ e_ser e' = e_ser e /\ e_qid e' = e_qid e.
Proof.
  intros K H. exists (if has_qid q e then f e else e). split; [apply in_upd_qid_fwd; exact H|].
  destruct (has_qid q e); auto. destruct (K e) as (A & B & _). auto.
Qed.

Lemma owned_upd s q f (ws : list (nat * N)) : keeps f ->
  (forall w, In w ws -> In w (watchers s)) -> watchers_owned s ->
  forall w, In w ws -> exists e, In e (upd_qid q f (running s)) /\ e_ser e = fst w /\ e_qid e = snd w.
Proof.
  intros K Sub O w Hw. destruct (O w (Sub w Hw)) as [e [H1 [H2 H3]]].
  destruct (in_upd_same q f _ e K H1) as [e' [A [B C]]]. exists e'. rewrite B, C. auto.
Qed.

Lemma owned_cancel q s : watchers_owned s -> watchers_owned (cancel q s).
Proof.
  intros O. unfold cancel. destruct (lookup q (running s)).
  - intros w Hw. simpl in *. apply (owned_upd s q cancel_entry (watchers s)); auto. apply keeps_cancel_entry.
  - destruct (remove_first q (waiting s)). exact O.
Qed.

Lemma remove_watcher_q_sub q l w : In w (snd (remove_watcher_q q l)) -> In w l.
Proof.
  induction l; simpl; auto. destruct (snd a =? q)%N; simpl; auto.
  destruct (remove_watcher_q q l). simpl in *. intros [H|H]; auto.
Qed.

Lemma qids_upd q f r w : keeps f -> map e_qid (upd_qid q f r ++ w) = map e_qid (r ++ w).
Proof. intros K. rewrite !map_app, map_qid_upd; auto. Qed.

Lemma dup_free_cancel q s : dup_free s -> dup_free (cancel q s).
Proof.
  unfold dup_free, cancel. intros D. destruct (lookup q (running s)).
  - simpl. rewrite qids_upd; auto. apply keeps_cancel_entry.
  - pose proof (dup_free_unqueue q (running s) (waiting s) D) as H.
    destruct (remove_first q (waiting s)). exact H.
Qed.

(* admission of an entry whose qid is in no table *)
Lemma admit_dup_owned e s0 :
  e_chan e = [] -> e_cancelled e = false ->
  NoDup (e_qid e :: map e_qid (running s0 ++ waiting s0)) -> watchers_owned s0 ->
  dup_free (run_query e s0) /\ watchers_owned (run_query e s0).
Proof.
  intros Hc Hcan ND O. unfold run_query. rewrite Hcan, admit_fresh; auto.
  inversion ND as [|x l Hni ND']; subst.
  assert (A : in_table (e_qid e) (running s0) = false).
  { apply in_table_false. intros C. apply Hni. rewrite map_app. apply in_or_app. auto. }
  rewrite (remove_qid_absent _ _ A). split.
  - unfold dup_free. simpl. constructor; auto.
  - intros w Hw. simpl in Hw. apply in_app_or in Hw. destruct Hw as [Hw|[Hw|[]]].
    + destruct (O w Hw) as [x [H1 H2]]. exists x. simpl. auto.
    + subst. exists (push RUNNING (push READY e)). simpl. auto.
Qed.

Definition start_fresh (s : st) (o : op) : Prop :=
  match o with Start q _ _ => in_table q (running s ++ waiting s) = false | _ => True end.

Lemma dup_owned_step mx s o : Inv mx s -> start_fresh s o ->
  dup_free s -> watchers_owned s ->
  dup_free (fst (step mx s o)) /\ watchers_owned (fst (step mx s o)).
Proof.
  intros I SF D O. unfold step. destruct (wedged s); [auto|].
  destruct o as [q a f| |q|q|q|q|q|q]; simpl.
  - destruct (existsb (has_qid q) (running s)); [auto|]. simpl in SF.
    destruct f; simpl.
    + apply admit_dup_owned; simpl; auto. constructor; auto. apply in_table_false. exact SF.
    + destruct (Nat.leb MAX_WAITING (length (waiting s))); [auto|]. simpl. split; [|exact O].
      unfold dup_free. simpl. rewrite app_assoc.
      eapply Permutation_NoDup; [apply Permutation_map, Permutation_cons_append|].
      simpl. constructor; auto. apply in_table_false. exact SF.
  - destruct (Nat.ltb (length (running s)) mx); [|auto].
    destruct (waiting s) as [|e wq] eqn:Wt; [auto|]. cbn [fst].
    pose proof (i_fresh _ _ I) as Fr. rewrite Wt in Fr. inversion Fr as [|x l (C1 & C2 & C3 & C4) Fr']; subst.
    apply admit_dup_owned; simpl; auto.
    unfold dup_free in D. rewrite Wt in D.
    eapply Permutation_NoDup; [|exact D].
    change (e_qid e :: map e_qid (running s ++ wq)) with (map e_qid (e :: running s ++ wq)).
    apply Permutation_map. apply Permutation_sym, Permutation_middle.
  - split; [apply dup_free_cancel; exact D|apply owned_cancel; exact O].
  - destruct (remove_watcher_q q (watchers s)) as [[wt|] ws] eqn:RW; simpl; [|auto].
    assert (Sub : forall w, In w ws -> In w (watchers s)).
    { intros w Hw. apply (remove_watcher_q_sub q). rewrite RW. exact Hw. }
    destruct (lookup q (running s)) as [e|]; simpl.
    + destruct (has_room e); simpl; [|auto]. split.
      * apply dup_free_cancel. unfold dup_free. simpl. rewrite qids_upd; auto. apply keeps_push; reflexivity.
      * apply owned_cancel. intros w Hw. simpl in *.
        apply (owned_upd s q (push TIMEOUT) ws); auto. apply keeps_push; reflexivity.
    + split; [exact D|]. intros w Hw. simpl in *. apply O. auto.
  - unfold exec_send. destruct (lookup q (running s)); [|auto]. destruct (has_room e); [|auto]. split.
    + unfold dup_free. simpl. rewrite qids_upd; auto. apply keeps_push; reflexivity.
    + intros w Hw. simpl in *. apply (owned_upd s q (push COMPLETE) (watchers s)); auto. apply keeps_push; reflexivity.
  - unfold exec_send. destruct (lookup q (running s)); [|auto]. destruct (has_room e); [|auto]. split.
    + unfold dup_free. simpl. rewrite qids_upd; auto. apply keeps_push; reflexivity.
    + intros w Hw. simpl in *. apply (owned_upd s q (push ERROR) (watchers s)); auto. apply keeps_push; reflexivity.
  - destruct (lookup q (running s)) as [e|] eqn:L.
    + simpl. split; [apply dup_free_remove_qid; exact D|].
      apply lookup_some in L. destruct L as [Le Lq].
      intros w Hw. simpl in Hw. unfold remove_watcher_ser in Hw. apply filter_In in Hw. destruct Hw as [Hw Hne].
      destruct (O w Hw) as [x [H1 [H2 H3]]]. exists x. simpl. split; [|auto].
      unfold remove_qid. apply filter_In. split; auto.
      destruct (has_qid q x) eqn:E; [|reflexivity]. exfalso.
      unfold has_qid in E. apply N.eqb_eq in E.
      assert (x = e).
      { apply (NoDup_map_inj e_qid (running s)); auto; [apply (i_qids _ _ I)|congruence]. }
      subst. rewrite H2, Nat.eqb_refl in Hne. discriminate.
    + pose proof (dup_free_unqueue q (running s) (waiting s) D) as H.
      destruct (remove_first q (waiting s)). simpl in *. split; [exact H|exact O].
  - destruct (lookup q (running s)); [|auto]. destruct (e_chan e); [auto|]. simpl. split.
    + unfold dup_free. simpl. rewrite qids_upd; auto. apply keeps_pop.
    + intros w Hw. simpl in *. apply (owned_upd s q pop (watchers s)); auto. apply keeps_pop.
Qed.

Lemma live_fresh_run mx ops : forall s, Inv mx s -> dup_free s -> watchers_owned s ->
  live_fresh mx s ops = true ->
  dup_free (run mx s ops) /\ watchers_owned (run mx s ops).
Proof.
  unfold run. induction ops as [|o ops IH]; simpl; intros s I D O LF; auto.
  apply andb_true_iff in LF. destruct LF as [L1 L2].
  assert (SF : start_fresh s o).
  { destruct o; simpl; auto. apply negb_true_iff in L1. exact L1. }
  destruct (dup_owned_step mx s o I SF D O) as [D' O'].
  apply IH; auto. apply Inv_step. exact I.
Qed.

Lemma live_fresh_reach mx ops : live_fresh mx init ops = true ->
  dup_free (run mx init ops) /\ watchers_owned (run mx init ops).
Proof.
  intros LF. apply live_fresh_run; auto.
  - apply Inv_init.
  - constructor.
  - intros w [].
Qed.

Theorem live_qids_unique mx ops : live_fresh mx init ops = true ->
  NoDup (map e_qid (running (run mx init ops) ++ waiting (run mx init ops))).
Proof. intros LF. apply (live_fresh_reach mx ops LF). Qed.

(* FULL statement, true since fixes/C17-cancel-waiting-query: after DeleteQuery(q) the qid is in
   neither table, wherever the query was (running or still waiting). *)
Theorem no_entry_after_terminal mx ops q : live_fresh mx init ops = true ->
  let s' := fst (step mx (run mx init ops) (Delete q)) in
  in_table q (running s') = false /\ in_table q (waiting s') = false.
Proof.
  intros LF. destruct (live_fresh_reach mx ops LF) as [D _]. set (s := run mx init ops) in *.
  pose proof (no_send_on_full_channel_under_lock mx ops : wedged s = false) as W.
  unfold step. rewrite W. unfold dup_free in D.
  destruct (lookup q (running s)) as [e|] eqn:L; simpl.
  - split; [apply in_table_remove_qid|]. apply lookup_some in L. destruct L as [Le Lq].
    apply in_table_false. intros C. rewrite map_app in D.
    eapply NoDup_app_disjoint; [exact D| |exact C]. rewrite <- Lq. apply in_map. exact Le.
  - rewrite map_app in D. apply NoDup_app_remove_l in D.
    pose proof (remove_first_nodup q (waiting s) D) as H.
    destruct (remove_first q (waiting s)). simpl in *. split; [apply lookup_none_in_table; exact L|exact H].
Qed.

(* FULL statement, true since the fix: a query cancelled while it is waiting is taken out of the queue,
   is told CANCELLED, and (with removed_instance_never_returns, started_once) is never started. *)
Theorem cancel_waiting_never_started mx ops q : live_fresh mx init ops = true ->
  in_table q (waiting (run mx init ops)) = true ->
  let s' := fst (step mx (run mx init ops) (Cancel q)) in
  in_table q (running s') = false /\ in_table q (waiting s') = false /\
  exists e', In e' (dead s') /\ e_qid e' = q /\ e_cancelled e' = true /\ e_log e' = [CANCELLED] /\
             term_of e' = Some CANCELLED.
Proof.
  intros LF Hw. destruct (live_fresh_reach mx ops LF) as [D _]. set (s := run mx init ops) in *.
  pose proof (no_send_on_full_channel_under_lock mx ops : wedged s = false) as W.
  pose proof (Inv_reach mx ops : Inv mx s) as I.
  unfold step. rewrite W. simpl. unfold cancel. unfold dup_free in D.
  assert (L : lookup q (running s) = None).
  { destruct (lookup q (running s)) as [e|] eqn:L; auto. exfalso.
    apply lookup_some in L. destruct L as [Le Lq]. rewrite map_app in D.
    eapply NoDup_app_disjoint; [exact D| |apply in_table_iff; exact Hw]. rewrite <- Lq. apply in_map. exact Le. }
  rewrite L. destruct (remove_first_some q _ Hw) as [e [E1 [E2 E3]]].
  assert (ND : NoDup (map e_qid (waiting s))) by (rewrite map_app in D; apply NoDup_app_remove_l in D; exact D).
  pose proof (remove_first_nodup q (waiting s) ND) as H.
  destruct (remove_first q (waiting s)) as [rm wq]. simpl in *. subst rm.
  split; [apply lookup_none_in_table; exact L|]. split; [exact H|].
  pose proof (i_fresh _ _ I) as Fr. rewrite Forall_forall in Fr. destruct (Fr e E3) as (C1 & C2 & C3 & C4).
  exists (cancel_entry e). simpl. split; [left; reflexivity|].
  unfold cancel_entry, has_room. rewrite C1. simpl. rewrite C2. unfold term_of. simpl. rewrite C2. auto.
Qed.

(* CancelQuery of a running query always sets the flag; with room in the channel CANCELLED is
   delivered and the query has a terminal state *)
Theorem cancel_running_terminal mx ops q e :
  let s := run mx init ops in
  lookup q (running s) = Some e ->
  let s' := fst (step mx s (Cancel q)) in
  exists e', lookup q (running s') = Some e' /\ e_ser e' = e_ser e /\ e_cancelled e' = true /\
             (has_room e = true -> e_log e' = CANCELLED :: e_log e /\ term_of e' <> None).
Proof.
  intros s L. pose proof (no_send_on_full_channel_under_lock mx ops : wedged s = false) as W.
  unfold step. rewrite W. simpl. unfold cancel. rewrite L. simpl.
  rewrite lookup_upd_qid by (intros x; apply keeps_cancel_entry). rewrite L. simpl.
  exists (cancel_entry e). unfold cancel_entry. destruct (has_room e); simpl.
  - split; [reflexivity|]. split; [reflexivity|]. split; [reflexivity|]. intros _. split; [reflexivity|].
    unfold term_of. simpl. intros C.
    assert (In CANCELLED (rev (e_log e) ++ [CANCELLED])) as Hin by (apply in_or_app; right; left; reflexivity).
    eapply find_none in C; [|exact Hin]. discriminate.
  - split; [reflexivity|]. split; [reflexivity|]. split; [reflexivity|]. discriminate.
Qed.

(* entries in the graveyard stay there unchanged, and are in no table again *)
Lemma dead_mono_step mx s o e : In e (dead s) -> In e (dead (fst (step mx s o))).
Proof.
  intros H. unfold step. destruct (wedged s); [exact H|].
  assert (DC : forall q s0, In e (dead s0) -> In e (dead (cancel q s0))).
  { intros q s0 H0. unfold cancel. destruct (lookup q (running s0)); [exact H0|].
    destruct (remove_first q (waiting s0)) as [rm wq]. simpl. destruct rm; simpl; auto. }
  destruct o as [q a f| |q|q|q|q|q|q]; simpl.
  - destruct (existsb (has_qid q) (running s)); [exact H|]. destruct f; simpl.
    + unfold run_query. simpl. apply in_or_app. auto.
    + destruct (Nat.leb MAX_WAITING (length (waiting s))); exact H.
  - destruct (Nat.ltb (length (running s)) mx); [|exact H]. destruct (waiting s); [exact H|]. simpl.
    unfold run_query. destruct (e_cancelled e0); simpl; [right; exact H|].
    match goal with |- context [send_locked RUNNING ?x] => destruct (send_locked RUNNING x) end.
    simpl. apply in_or_app. auto.
  - apply DC. exact H.
  - destruct (remove_watcher_q q (watchers s)) as [[wt|] ws]; simpl; [|exact H].
    destruct (lookup q (running s)) as [e0|]; simpl; [|exact H].
    destruct (has_room e0); simpl; [|exact H]. apply DC. exact H.
  - unfold exec_send. destruct (lookup q (running s)); [|exact H]. destruct (has_room e0); exact H.
  - unfold exec_send. destruct (lookup q (running s)); [|exact H]. destruct (has_room e0); exact H.
  - destruct (lookup q (running s)); simpl; [apply in_or_app; auto|].
    destruct (remove_first q (waiting s)) as [rm wq]. simpl. destruct rm; simpl; auto.
  - destruct (lookup q (running s)); simpl; [|exact H]. destruct (e_chan e0); exact H.
Qed.

Lemma dead_mono_run mx ops : forall s e, In e (dead s) -> In e (dead (run mx s ops)).
Proof.
  unfold run. induction ops; simpl; intros s e H; auto. apply IHops. apply dead_mono_step. exact H.
Qed.

Theorem removed_instance_never_returns mx ops1 ops2 e :
  In e (dead (run mx init ops1)) ->
  let s' := run mx init (ops1 ++ ops2) in
  In e (dead s') /\ forall x, In x (running s' ++ waiting s') -> e_ser x <> e_ser e.
Proof.
  intros H s'. unfold s'. rewrite run_app.
  assert (D : In e (dead (run mx (run mx init ops1) ops2))) by (apply dead_mono_run; exact H).
  split; auto. intros x Hx E.
  pose proof (i_sers _ _ (Inv_run mx ops2 _ (Inv_reach mx ops1))) as ND. unfold sers, insts in ND.
  rewrite app_assoc, map_app in ND.
  eapply NoDup_app_disjoint; [exact ND| |].
  - apply in_map. exact Hx.
  - rewrite E. apply in_map. exact D.
Qed.

(* ------------------------------------------------------------------ *)
(* timeout watcher goroutines                                          *)
(* ------------------------------------------------------------------ *)
(* FULL statement, true since fixes/C17-release-timeout-watcher: every live timeout watcher belongs
   to an entry of the running table; once a query has left the tables (DeleteQuery, whether it was
   cancelled, timed out or completed) no goroutine of its life cycle remains. *)
Theorem watcher_released mx ops : live_fresh mx init ops = true ->
  let s := run mx init ops in
  forall w, In w (watchers s) -> exists e, In e (running s) /\ e_ser e = fst w /\ e_qid e = snd w.
Proof. intros LF. apply (live_fresh_reach mx ops LF). Qed.

Corollary no_goroutine_when_tables_empty mx ops : live_fresh mx init ops = true ->
  running (run mx init ops) = [] -> watchers (run mx init ops) = [].
Proof.
  intros LF R. destruct (watchers (run mx init ops)) as [|w l] eqn:Wt; auto.
  destruct (watcher_released mx ops LF w) as [e [H _]]; [rewrite Wt; left; reflexivity|].
  rewrite R in H. contradiction.
Qed.

Lemma run_snoc mx s ops o : run mx s (ops ++ [o]) = fst (step mx (run mx s ops) o).
Proof. rewrite run_app. reflexivity. Qed.


(* admission never blocks (kept as its own statement; it is the reason the theorem above holds) *)
Theorem admission_never_blocks mx ops o :
  (o = Pull \/ exists q a f, o = Start q a f) ->
  wedged (fst (step mx (run mx init ops) o)) = false.
Proof.
  intros _. apply unwedged_step; [apply Inv_reach|apply no_send_on_full_channel_under_lock].
Qed.

(* ------------------------------------------------------------------ *)
(* regression witnesses of the repaired defects (fixed code)           *)
(* ------------------------------------------------------------------ *)
Example fixed_cancel_waiting :
  let s := run 2 init [Start 7 false false; Cancel 7; Pull] in
  running s = [] /\ waiting s = [] /\ map e_log (dead s) = [[CANCELLED]].
Proof. vm_compute. auto. Qed.

Example fixed_delete_waiting :
  let s := run 2 init [Start 7 false false; Delete 7; Pull] in
  running s = [] /\ waiting s = [] /\ map e_log (dead s) = [[]].
Proof. vm_compute. auto. Qed.

Example fixed_watcher_released :
  let s := run 2 init [Start 7 false true; Cancel 7; Delete 7] in
  running s = [] /\ waiting s = [] /\ watchers s = [].
Proof. vm_compute. auto. Qed.

Example fixed_cancel_full_channel_blocks_nobody :
  let s := run 2 init (Start 1 false true :: repeat (Cancel 1) 9 ++ [Start 2 false false; Pull]) in
  wedged s = false /\ in_table 2 (running s) = true.
Proof. vm_compute. auto. Qed.

(* ------------------------------------------------------------------ *)
(* PRE-FIX documentation: [step_prefix] is querystatus.go before the   *)
(* two repairs; these witnesses were confirmed on the pre-fix code     *)
(* ------------------------------------------------------------------ *)
Theorem prefix_no_entry_after_terminal_refuted :
  exists mx ops q, in_table q (waiting (run_prefix mx init (ops ++ [Delete q]))) = true.
Proof. exists 2, [Start 7 false false], 7%N. vm_compute. reflexivity. Qed.

Theorem prefix_cancel_waiting_refuted :
  exists mx ops q, in_table q (waiting (run_prefix mx init ops)) = true /\
    let s' := run_prefix mx init (ops ++ [Cancel q; Pull]) in
    exists e, lookup q (running s') = Some e /\ e_cancelled e = false /\ e_log e = [RUNNING; READY] /\ term_of e = None.
Proof.
  exists 2, [Start 7 false false], 7%N. split; [vm_compute; reflexivity|].
  eexists. vm_compute. repeat split; reflexivity.
Qed.

Theorem prefix_watcher_released_refuted :
  exists mx ops q, let s := run_prefix mx init ops in
    running s = [] /\ waiting s = [] /\ wedged s = false /\ has_watcher q s = true.
Proof. exists 2, [Start 7 false true; Cancel 7; Delete 7], 7%N. vm_compute. repeat split; reflexivity. Qed.

Theorem prefix_no_send_on_full_channel_refuted :
  exists mx ops, wedged (run_prefix mx init ops) = true /\
    wedged (run_prefix mx init (removelast ops)) = false.
Proof. exists 2, (Start 1 false true :: repeat (Cancel 1) 9). vm_compute. split; reflexivity. Qed.

(* the hypothesis of the full statements can be met by a history that exercises them *)
Example live_fresh_satisfiable :
  live_fresh 1 init [Start 1 false false; Start 2 false false; Pull; Cancel 2; Complete 1; Recv 1; Delete 1;
                     Start 1 false true; Cancel 1; Delete 1] = true.
Proof. vm_compute. reflexivity. Qed.

(* ------------------------------------------------------------------ *)
(* LOCK DISCIPLINE around the sends on StateChan ([exec] / [lrun])     *)
(* ------------------------------------------------------------------ *)

Lemma harmless_can_acq ps l m : Forall harmless ps -> can_acq ps l m = true.
Proof.
  intros H. assert (E : forall f, (forall p, harmless p -> f p = false) -> existsb f ps = false).
  { intros f Hf. induction H; simpl; [reflexivity|]. rewrite (Hf _ H), IHForall. reflexivity. }
  destruct m; simpl; rewrite E; try reflexivity; intros p [Hh [q Hw]];
    unfold holds_l, holds_w, waits_w; rewrite Hh, Hw; reflexivity.
Qed.

(* a script that keeps the discipline either runs to its end or parks holding nothing *)
Lemma exec_disciplined full ps : Forall harmless ps ->
  forall sc held, sends_unlocked full held sc = true ->
  exec full ps held sc = None \/ exists q, exec full ps held sc = Some (mkP [] (WSend q)).
Proof.
  intros Hps. induction sc as [|a r IH]; intros held Hd; simpl in *; [left; reflexivity|].
  destruct a as [l m|l|q].
  - rewrite (harmless_can_acq ps l m Hps). apply IH. exact Hd.
  - apply IH. exact Hd.
  - apply andb_true_iff in Hd. destruct Hd as [Hq Hr].
    destruct (full q) eqn:Fq.
    + simpl in Hq. destruct held; [|discriminate]. right. exists q. reflexivity.
    + apply IH. exact Hr.
Qed.

Lemma lstep_harmless ps fs : Forall harmless ps -> sends_unlocked (fst fs) [] (snd fs) = true ->
  Forall harmless (lstep ps fs).
Proof.
  intros Hps Hd. unfold lstep.
  destruct (exec_disciplined (fst fs) ps Hps (snd fs) [] Hd) as [E|[q E]]; rewrite E; [exact Hps|].
  apply Forall_app. split; [exact Hps|]. constructor; [|constructor].
  split; [reflexivity|]. exists q. reflexivity.
Qed.

(* for ANY scripts (whatever code they come from) that keep the discipline: every goroutine that
   is parked holds no lock and waits for a receiver *)
Theorem parked_senders_hold_no_lock : forall steps,
  Forall (fun fs => sends_unlocked (fst fs) [] (snd fs) = true) steps ->
  Forall harmless (lrun [] steps).
Proof.
  intros steps. unfold lrun. assert (G : forall ps, Forall harmless ps ->
    Forall (fun fs => sends_unlocked (fst fs) [] (snd fs) = true) steps ->
    Forall harmless (fold_left lstep steps ps)).
  { induction steps as [|fs r IH]; intros ps Hps Hs; simpl; [exact Hps|].
    inversion Hs; subst. apply IH; [apply lstep_harmless; assumption|assumption]. }
  apply G. constructor.
Qed.


(* ... and then a script whose own channels are not full runs to its end *)
Lemma exec_completes full ps : Forall harmless ps ->
  forall sc held, targets_not_full full sc = true -> exec full ps held sc = None.
Proof.
  intros Hps. induction sc as [|a r IH]; intros held Ht; simpl in *; [reflexivity|].
  apply andb_true_iff in Ht. destruct Ht as [Ha Hr]. destruct a as [l m|l|q].
  - rewrite (harmless_can_acq ps l m Hps). apply IH. exact Hr.
  - apply IH. exact Hr.
  - apply negb_true_iff in Ha. rewrite Ha. apply IH. exact Hr.
Qed.

(* the functions of querystatus.go keep the discipline (guard [lop_ok]: a query is started on a
   channel that is not full; no QUERY_UPDATE from IncProgressForRRCCmd / SetPipeResp) *)
Lemma release_rqs_self q m : release (LRqs q) [(LRqs q, m)] = [].
Proof. unfold release. simpl. rewrite N.eqb_refl. reflexivity. Qed.

Lemma code_scripts_disciplined full o : lop_ok full o = true -> sends_unlocked full [] (script o) = true.
Proof.
  destruct o as [q f c|h|q w|q|q|q w|q|q|q|q|q|]; simpl; intros H.
  - destruct f, c; simpl in *; rewrite ?N.eqb_refl; simpl;
      try (apply negb_true_iff in H; rewrite H); reflexivity.
  - destruct h as [q|]; simpl; [|reflexivity]. rewrite H. reflexivity.
  - destruct w; simpl; rewrite ?N.eqb_refl; simpl; rewrite ?orb_true_r; reflexivity.
  - simpl. rewrite ?N.eqb_refl. simpl. rewrite ?orb_true_r. reflexivity.
  - rewrite orb_true_r. reflexivity.
  - destruct w; simpl; rewrite ?N.eqb_refl; reflexivity.
  - rewrite orb_true_r. reflexivity.
  - rewrite ?N.eqb_refl. simpl. rewrite orb_true_r. reflexivity.
  - discriminate.
  - rewrite ?N.eqb_refl. reflexivity.
  - rewrite ?N.eqb_refl. reflexivity.
  - reflexivity.
Qed.

Lemma code_steps_disciplined steps :
  forallb (fun fo => lop_ok (fst fo) (snd fo)) steps = true ->
  Forall (fun fs => sends_unlocked (fst fs) [] (snd fs) = true) (code_steps steps).
Proof.
  induction steps as [|fo r IH]; simpl; intros H; [constructor|].
  apply andb_true_iff in H. destruct H as [H1 H2]. constructor; [|apply IH; exact H2].
  simpl. apply code_scripts_disciplined. exact H1.
Qed.

(* MAIN: in the model of the code, whatever channels are full at whatever moment and whatever
   was called in whatever order, every parked goroutine holds no lock ... *)
Theorem code_parked_hold_no_lock : forall steps,
  forallb (fun fo => lop_ok (fst fo) (snd fo)) steps = true ->
  Forall harmless (lrun [] (code_steps steps)).
Proof. intros steps H. apply parked_senders_hold_no_lock, code_steps_disciplined, H. Qed.

(* ... so a full channel of one query never blocks an operation whose own channels are not full
   (operations on other queries, and the accessors of the blocked query itself) *)
Theorem full_channel_blocks_no_other_query : forall steps full' o',
  forallb (fun fo => lop_ok (fst fo) (snd fo)) steps = true ->
  targets_not_full full' (script o') = true ->
  exec full' (lrun [] (code_steps steps)) [] (script o') = None.
Proof.
  intros steps full' o' H Ht. apply exec_completes; [|exact Ht].
  apply code_parked_hold_no_lock. exact H.
Qed.


Lemma other_query_targets_not_full full o :
  forallb (fun q => negb (full q)) (lop_qids o) = true -> targets_not_full full (script o) = true.
Proof.
  destruct o as [q f c|h|q w|q|q|q w|q|q|q|q|q|]; simpl; intros H;
    try (rewrite andb_true_r in H);
    try (destruct f, c); try (destruct w); try (destruct h); simpl in *;
    try (rewrite andb_true_r in H); rewrite ?H; reflexivity.
Qed.

Theorem full_channel_blocks_no_operation_on_other_queries : forall steps full' o',
  forallb (fun fo => lop_ok (fst fo) (snd fo)) steps = true ->
  forallb (fun q => negb (full' q)) (lop_qids o') = true ->
  exec full' (lrun [] (code_steps steps)) [] (script o') = None.
Proof.
  intros. apply full_channel_blocks_no_other_query; [assumption|].
  apply other_query_targets_not_full. assumption.
Qed.

(* CancelQuery (called directly or by the timeout watcher) holds no lock at its send, nor does the
   watcher at its TIMEOUT send *)
Theorem cancel_send_holds_no_lock : forall q w,
  Forall (fun x => snd x = []) (held_at_sends [] (script (LCancel q w))) /\
  Forall (fun x => snd x = []) (held_at_sends [] (script (LTimeoutCancel q))) /\
  Forall (fun x => snd x = []) (held_at_sends [] (script (LTimeoutSend q))).
Proof.
  intros q w. split; [destruct w|split]; simpl; rewrite ?N.eqb_refl; simpl; repeat constructor.
Qed.


(* non-vacuity: a history that meets the guard, with a canceller, a timeout watcher and an executor
   parked on the full channel of query 1 while query 2 is started, admitted, cancelled, deleted *)
Example lock_guard_satisfiable :
  let steps := [(nonefull, LStart 1 true false); (only 1, LCancel 1 InRun); (only 1, LTimeoutCancel 1);
                (only 1, LTimeoutSend 1); (only 1, LExecSend 1); (only 1, LNestedAccessor 1); (only 1, LAccessor 1);
                (only 1, LStart 2 false true); (only 1, LPull (Some 2)); (only 1, LCancel 2 InRun);
                (only 1, LDelete 2 InRun); (only 1, LCount)]%N in
  forallb (fun fo => lop_ok (fst fo) (snd fo)) steps = true /\
  lrun [] (code_steps steps) = [mkP [] (WSend 1); mkP [] (WSend 1); mkP [] (WSend 1); mkP [] (WSend 1)]%N.
Proof. vm_compute. split; reflexivity. Qed.

(* REFUTED for a send under the query's lock ("rqsLock.Lock(); defer rqsLock.Unlock()" in
   CancelQuery): the canceller parks holding rqsLock of query 1, a worker of query 1 that calls
   Get/SetAllColsInAggsForQid parks holding arqMapLock.RLock, StartQuery of query 2 parks waiting
   for arqMapLock, and then not even GetActiveQueryCount gets through *)
Theorem send_under_query_lock_refuted :
  exists full q q', q <> q' /\ full q' = false /\
    sends_unlocked full [] (cancel_script true q InRun) = false /\
    held_at_sends [] (cancel_script true q InRun) = [(q, [(LRqs q, Wr)])] /\
    let ps := lrun [] [(full, cancel_script true q InRun); (full, script (LNestedAccessor q))] in
    ps = [mkP [(LRqs q, Wr)] (WSend q); mkP [(LArq, Rd)] (WAcq (LRqs q) Wr)] /\
    exec full ps [] (script (LStart q' false false)) = Some (mkP [] (WAcq LArq Wr)) /\
    let ps' := lstep ps (full, script (LStart q' false false)) in
    exec full ps' [] (script LCount) = Some (mkP [] (WAcq LArq Rd)) /\
    exec full ps' [] (script (LDelete q' InWait)) <> None /\
    exec full ps' [] (script (LPull None)) <> None.
Proof.
  exists (only 1%N), 1%N, 2%N. vm_compute. repeat split; try reflexivity; discriminate.
Qed.

(* the same chain starts from the QUERY_UPDATE that IncProgressForRRCCmd / SetPipeResp send while
   they hold rqsLock (this IS the code: the guard [lop_ok] excludes it) *)
Theorem progress_send_under_query_lock_refuted :
  exists full q q', q <> q' /\ full q' = false /\
    lop_ok full (LProgressSend q) = false /\
    held_at_sends [] (script (LProgressSend q)) = [(q, [(LRqs q, Wr)])] /\
    let ps := lrun [] (code_steps [(full, LProgressSend q); (full, LNestedAccessor q)]) in
    exec full ps [] (script (LStart q' false false)) = Some (mkP [] (WAcq LArq Wr)) /\
    exec full (lstep ps (full, script (LStart q' false false))) [] (script LCount) <> None /\
    (* without the nested accessor only the callers that need rqsLock of q itself wait *)
    exec full (lrun [] (code_steps [(full, LProgressSend q)])) [] (script (LStart q' false false)) = None /\
    exec full (lrun [] (code_steps [(full, LProgressSend q)])) [] (script (LCancel q InRun)) = Some (mkP [] (WAcq (LRqs q) Wr)).
Proof.
  exists (only 1%N), 1%N, 2%N. vm_compute. repeat split; try reflexivity; discriminate.
Qed.

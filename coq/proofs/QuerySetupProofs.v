(* QuerySetupProofs.v — the set-up of a query (C17): for EVERY behaviour of the rest of the server at
   every point (any list of CancelQuery / timeout / DeleteQuery / failing hook) and every outcome of
   the validations of the request, each error exit of the set-up has released everything the set-up
   acquired, and after the executor has returned nothing of the query is alive. *)
From Coq Require Import List Arith NArith Bool Lia.
From SigM Require Import Base QuerySetup.
From SigP Require Import BaseProofs.
Import ListNotations.
Open Scope nat_scope.

(* ------------------------------------------------------------------ *)
(* release                                                             *)
(* ------------------------------------------------------------------ *)
Lemma mem_res_In r l : mem_res r l = true <-> In r l.
Proof.
  unfold mem_res. rewrite existsb_exists. split.
  - intros [x [Hx E]]. apply Nat.eqb_eq in E. subst. exact Hx.
  - intros H. exists r. split; [exact H|apply Nat.eqb_refl].
Qed.

Lemma incl_b_In a b : incl_b a b = true -> forall r, In r a -> In r b.
Proof.
  unfold incl_b. rewrite forallb_forall. intros H r Hr. apply mem_res_In. apply H. exact Hr.
Qed.

Lemma release_sub rs live r : In r (release rs live) -> In r live.
Proof. unfold release. rewrite filter_In. tauto. Qed.

Lemma release_all rs live : (forall r, In r live -> In r rs) -> release rs live = [].
Proof.
  intros H. unfold release. induction live as [|x l IH]; [reflexivity|].
  simpl. assert (E : mem_res x rs = true) by (apply mem_res_In; apply H; left; reflexivity).
  rewrite E. simpl. apply IH. intros r Hr. apply H. right. exact Hr.
Qed.

Lemma release_nil rs : release rs [] = [].
Proof. reflexivity. Qed.

(* ------------------------------------------------------------------ *)
(* the environment never creates a resource, and sends only CANCELLED / TIMEOUT *)
(* ------------------------------------------------------------------ *)
Lemma do_cancel_sub s r : In r (s_live (do_cancel s)) -> In r (s_live s).
Proof.
  unfold do_cancel. destruct (s_entry s); simpl; [apply release_sub|tauto].
Qed.

Lemma act_sub s a r : In r (s_live (act s a)) -> In r (s_live s).
Proof.
  destruct a; simpl.
  - apply do_cancel_sub.
  - destruct (s_entry s) eqn:E; [|tauto]. intros H. apply do_cancel_sub in H. exact H.
  - destruct (s_entry s) as [e|]; simpl; [|tauto]. destruct (e_cancelled e); [tauto|apply release_sub].
  - tauto.
  - tauto.
Qed.

Lemma fold_act_sub acts : forall s r, In r (s_live (fold_left act acts s)) -> In r (s_live s).
Proof.
  induction acts as [|a l IH]; simpl; [tauto|].
  intros s r H. apply IH in H. apply act_sub in H. exact H.
Qed.

Lemma at_point_sub env p s r : In r (s_live (at_point env p s)) -> In r (s_live s).
Proof. unfold at_point. intros H. apply fold_act_sub in H. exact H. Qed.

(* a query without a table entry is out of the reach of CancelQuery, the watcher and DeleteQuery *)
Lemma act_no_entry s a : s_entry s = None -> act s a = s.
Proof.
  intros E. destruct a; simpl; unfold do_cancel; rewrite ?E; reflexivity.
Qed.

Lemma fold_act_no_entry acts : forall s, s_entry s = None -> fold_left act acts s = s.
Proof.
  induction acts as [|a l IH]; simpl; [reflexivity|].
  intros s E. rewrite (act_no_entry s a E). apply IH. exact E.
Qed.

(* ------------------------------------------------------------------ *)
(* every error exit releases everything acquired so far                *)
(* ------------------------------------------------------------------ *)
Lemma run_steps_live_sub env inp prog : forall s ex s',
  run_steps env inp prog s = (ex, s') ->
  forall r, In r (s_live s') -> In r (s_live s) \/ In r (acquired prog).
Proof.
  induction prog as [|st rest IH]; intros s ex s' R r Hr; simpl in R.
  - inversion R; subst. left. exact Hr.
  - destruct st as [a|k rel x|rel x|p cf rel x|cb rel x]; simpl.
    + apply IH with (r := r) in R; [|exact Hr]. simpl in R. tauto.
    + destruct (inp k).
      * inversion R; subst. left. simpl in Hr. apply release_sub in Hr. exact Hr.
      * apply IH with (r := r) in R; tauto.
    + destruct (s_entry s).
      * apply IH with (r := r) in R; tauto.
      * inversion R; subst. left. simpl in Hr. apply release_sub in Hr. exact Hr.
    + destruct (cf && existsb is_fail (env p)).
      * inversion R; subst. left. simpl in Hr. apply release_sub in Hr. apply at_point_sub in Hr. exact Hr.
      * apply IH with (r := r) in R; [|exact Hr]. destruct R as [R|R]; [left; apply at_point_sub in R; exact R|tauto].
    + destruct (s_entry s).
      * apply IH with (r := r) in R; [|exact Hr]. simpl in R. tauto.
      * inversion R; subst. left. simpl in Hr. apply release_sub in Hr. exact Hr.
Qed.

Lemma run_steps_exits env inp prog : forall acq s ex s',
  exits_release acq prog = true ->
  (forall r, In r (s_live s) -> In r acq) ->
  run_steps env inp prog s = (ex, s') ->
  s_live s' = [] \/ ex = x_ok.
Proof.
  induction prog as [|st rest IH]; intros acq s ex s' C L R; simpl in R.
  - inversion R; subst. right. reflexivity.
  - destruct st as [a|k rel x|rel x|p cf rel x|cb rel x]; simpl in C.
    + eapply IH; [exact C| |exact R]. simpl. intros r [H|H]; [left; exact H|right; apply L; exact H].
    + apply andb_true_iff in C. destruct C as [C1 C2]. destruct (inp k).
      * inversion R; subst. left. simpl. apply release_all. intros r Hr. eapply incl_b_In; [exact C1|apply L; exact Hr].
      * eapply IH; eauto.
    + apply andb_true_iff in C. destruct C as [C1 C2]. destruct (s_entry s).
      * eapply IH; eauto.
      * inversion R; subst. left. simpl. apply release_all. intros r Hr. eapply incl_b_In; [exact C1|apply L; exact Hr].
    + apply andb_true_iff in C. destruct C as [C1 C2].
      destruct (cf && existsb is_fail (env p)) eqn:F.
      * inversion R; subst. left. simpl. apply release_all. intros r Hr. apply at_point_sub in Hr.
        apply andb_true_iff in F. destruct F as [F _]. subst cf. simpl in C1.
        eapply incl_b_In; [exact C1|apply L; exact Hr].
      * eapply IH; [exact C2| |exact R]. intros r Hr. apply at_point_sub in Hr. apply L. exact Hr.
    + apply andb_true_iff in C. destruct C as [C1 C2]. destruct (s_entry s).
      * eapply IH; [exact C2| |exact R]. simpl. exact L.
      * inversion R; subst. left. simpl. apply release_all. intros r Hr. eapply incl_b_In; [exact C1|apply L; exact Hr].
Qed.

(* the discipline is enough: for every program whose error exits release everything acquired before
   them, every environment and every input *)
Theorem disciplined_setup_error_exit_releases_all : forall prog env inp s ex s',
  exits_release [] prog = true -> s_live s = [] ->
  run_steps env inp prog s = (ex, s') -> ex <> x_ok -> s_live s' = [].
Proof.
  intros prog env inp s ex s' C L R N.
  destruct (run_steps_exits env inp prog [] s ex s' C) as [H|H]; [rewrite L; simpl; tauto|exact R|exact H|contradiction].
Qed.

Theorem disciplined_exec_leaves_nothing : forall setup run deferred env inp s,
  exits_release [] setup = true ->
  incl_b (acquired setup ++ acquired run) deferred = true ->
  s_live s = [] ->
  s_live (snd (exec env inp setup run deferred s)) = [].
Proof.
  intros setup run deferred env inp s C D L. unfold exec.
  assert (L0 : s_live (at_point env p_before s) = []).
  { destruct (s_live (at_point env p_before s)) as [|r l] eqn:E; [reflexivity|].
    assert (H : In r (s_live (at_point env p_before s))) by (rewrite E; left; reflexivity).
    apply at_point_sub in H. rewrite L in H. destruct H. }
  destruct (run_steps env inp setup (at_point env p_before s)) as [ex s1] eqn:R1.
  destruct (Nat.eqb ex x_ok) eqn:EX.
  - destruct (run_steps env inp run s1) as [ex2 s2] eqn:R2. simpl.
    apply release_all. intros r Hr.
    eapply incl_b_In; [exact D|]. apply in_or_app.
    destruct (run_steps_live_sub env inp run s1 ex2 s2 R2 r Hr) as [H|H]; [|right; exact H].
    destruct (run_steps_live_sub env inp setup _ ex s1 R1 r H) as [H'|H']; [rewrite L0 in H'; destruct H'|left; exact H'].
  - simpl. apply Nat.eqb_neq in EX.
    eapply disciplined_setup_error_exit_releases_all; [exact C|exact L0|exact R1|exact EX].
Qed.

(* ------------------------------------------------------------------ *)
(* the code                                                            *)
(* ------------------------------------------------------------------ *)
Lemma setup_code_disciplined : exits_release [] setup_code = true.
Proof. reflexivity. Qed.

Lemma setup_shadowed_not_disciplined : exits_release [] setup_shadowed = false.
Proof. reflexivity. Qed.

Theorem setup_error_exit_releases_all : forall env inp present ex s',
  run_steps env inp setup_code (at_point env p_before (init present)) = (ex, s') -> ex <> x_ok -> s_live s' = [].
Proof.
  intros env inp present ex s' R N.
  eapply disciplined_setup_error_exit_releases_all; [exact setup_code_disciplined| |exact R|exact N].
  destruct (s_live (at_point env p_before (init present))) as [|r l] eqn:E; [reflexivity|].
  assert (H : In r (s_live (at_point env p_before (init present)))) by (rewrite E; left; reflexivity).
  apply at_point_sub in H. destruct present; destruct H.
Qed.

Theorem exec_code_leaves_nothing : forall env inp present,
  s_live (snd (exec_code env inp (init present))) = [].
Proof.
  intros. unfold exec_code. apply disciplined_exec_leaves_nothing; [reflexivity|reflexivity|destruct present; reflexivity].
Qed.

Theorem nothing_left_after_handler_delete : forall env inp present,
  let s := after_delete (snd (exec_code env inp (init present))) in
  s_entry s = None /\ s_live s = [].
Proof.
  intros env inp present. simpl. pose proof (exec_code_leaves_nothing env inp present) as L.
  unfold after_delete. destruct (snd (exec_code env inp (init present))) as [e live msgs seen]. simpl in *. subst live.
  destruct e as [e|]; simpl; [|tauto]. split; [reflexivity|]. destruct (e_cancelled e); reflexivity.
Qed.

(* a successful set-up has handed the summary over to the table entry: the entry exists and its
   cleanup callback releases it, so CancelQuery stops the ticker of a running query *)
Lemma run_steps_register env inp cb rel x : forall pre s s',
  x <> x_ok -> exits_nonzero pre = true ->
  run_steps env inp (pre ++ [SRegister cb rel x]) s = (x_ok, s') ->
  exists e, s_entry s' = Some e /\ e_cb e = Some cb.
Proof.
  intros pre. induction pre as [|st rest IH]; intros s s' N Z R; simpl in R.
  - destruct (s_entry s) as [e|]; inversion R; subst; [|contradiction].
    eexists. split; reflexivity.
  - simpl in Z. apply andb_true_iff in Z. destruct Z as [Z1 Z2].
    destruct st as [a|k rl y|rl y|p cf rl y|c rl y].
    + eapply IH; eauto.
    + destruct (inp k); [inversion R; subst; apply negb_true_iff in Z1; apply Nat.eqb_neq in Z1; contradiction|eapply IH; eauto].
    + destruct (s_entry s); [eapply IH; eauto|inversion R; subst; apply negb_true_iff in Z1; apply Nat.eqb_neq in Z1; contradiction].
    + destruct (cf && existsb is_fail (env p)); [inversion R; subst; apply negb_true_iff in Z1; apply Nat.eqb_neq in Z1; contradiction|eapply IH; eauto].
    + destruct (s_entry s); [eapply IH; eauto|inversion R; subst; apply negb_true_iff in Z1; apply Nat.eqb_neq in Z1; contradiction].
Qed.

Theorem setup_success_hands_over : forall env inp s s',
  run_steps env inp setup_code s = (x_ok, s') ->
  exists e, s_entry s' = Some e /\ e_cb e = Some [r_summary].
Proof.
  intros env inp s s' R.
  change setup_code with (removelast setup_code ++ [SRegister [r_summary] [r_summary] x_callback]) in R.
  apply (run_steps_register env inp [r_summary] [r_summary] x_callback (removelast setup_code) s s'); [discriminate|reflexivity|exact R].
Qed.

(* ------------------------------------------------------------------ *)
(* exactly one final message of the executor                           *)
(* ------------------------------------------------------------------ *)
Definition is_final (m : N) : bool := N.eqb m 4 || N.eqb m 7.
Definition finals (l : list N) : list N := filter is_final l.

Lemma finals_app a b : finals (a ++ b) = finals a ++ finals b.
Proof. unfold finals. apply filter_app. Qed.

Lemma act_finals s a : finals (s_msgs (act s a)) = finals (s_msgs s).
Proof.
  destruct a; simpl; unfold do_cancel; try reflexivity.
  - destruct (s_entry s); simpl; [rewrite finals_app; simpl; apply app_nil_r|reflexivity].
  - destruct (s_entry s) eqn:E; [|reflexivity]. simpl. rewrite E. simpl.
    rewrite !finals_app. simpl. rewrite !app_nil_r. reflexivity.
  - destruct (s_entry s); reflexivity.
Qed.

Lemma fold_act_finals acts : forall s, finals (s_msgs (fold_left act acts s)) = finals (s_msgs s).
Proof.
  induction acts as [|a l IH]; simpl; [reflexivity|]. intros s. rewrite IH. apply act_finals.
Qed.

Lemma at_point_finals env p s : finals (s_msgs (at_point env p s)) = finals (s_msgs s).
Proof. unfold at_point. rewrite fold_act_finals. reflexivity. Qed.

Lemma run_steps_finals env inp prog : forall s ex s',
  run_steps env inp prog s = (ex, s') -> finals (s_msgs s') = finals (s_msgs s).
Proof.
  induction prog as [|st rest IH]; intros s ex s' R; simpl in R.
  - inversion R; reflexivity.
  - destruct st as [a|k rel x|rel x|p cf rel x|cb rel x].
    + apply IH in R. exact R.
    + destruct (inp k); [inversion R; reflexivity|eapply IH; eauto].
    + destruct (s_entry s); [eapply IH; eauto|inversion R; reflexivity].
    + destruct (cf && existsb is_fail (env p)).
      * inversion R; subst. simpl. apply at_point_finals.
      * apply IH in R. rewrite R. apply at_point_finals.
    + destruct (s_entry s); [apply IH in R; exact R|inversion R; reflexivity].
Qed.

Theorem exec_sends_exactly_one_final_message : forall setup run deferred env inp s,
  s_msgs s = [] ->
  let '(ex, s') := exec env inp setup run deferred s in
  finals (s_msgs s') = [if Nat.eqb ex x_ok then 4%N else 7%N].
Proof.
  intros setup run deferred env inp s M. unfold exec.
  destruct (run_steps env inp setup (at_point env p_before s)) as [ex s1] eqn:R1.
  pose proof (run_steps_finals _ _ _ _ _ _ R1) as F1. rewrite at_point_finals, M in F1. simpl in F1.
  destruct (Nat.eqb ex x_ok) eqn:EX.
  - destruct (run_steps env inp run s1) as [ex2 s2] eqn:R2.
    pose proof (run_steps_finals _ _ _ _ _ _ R2) as F2. simpl.
    rewrite finals_app, F2, F1. simpl. destruct (Nat.eqb ex2 x_ok); reflexivity.
  - simpl. rewrite finals_app, F1. rewrite EX. reflexivity.
Qed.

(* ------------------------------------------------------------------ *)
(* the shadowed-err variant                                            *)
(* ------------------------------------------------------------------ *)
Definition env1 (p : nat) (acts : list action) : nat -> list action := fun q => if Nat.eqb q p then acts else [].
Definition no_fail : nat -> bool := fun _ => false.

(* the query is cancelled and deleted while GetDistributedStreamsHook runs *)
Theorem shadowed_setup_leaks_summary :
  let '(ex, s) := exec_shadowed (env1 p_streams [ACancel; ADelete]) no_fail (init true) in
  ex = x_callback /\ s_entry s = None /\ s_live s = [r_summary] /\ s_live (after_delete s) = [r_summary].
Proof. vm_compute. repeat split; reflexivity. Qed.

(* ... and whatever CancelQuery / DeleteQuery / timeouts follow, the ticker stays *)
Theorem shadowed_leak_is_permanent : forall later : list action,
  let s := snd (exec_shadowed (env1 p_streams [ACancel; ADelete]) no_fail (init true)) in
  s_live (fold_left act later s) = [r_summary].
Proof.
  intros later s.
  assert (H : s_entry s = None /\ s_live s = [r_summary]) by (vm_compute; split; reflexivity).
  destruct H as [H1 H2]. rewrite fold_act_no_entry; assumption.
Qed.

(* the same schedule against the code *)
Theorem code_same_schedule_releases :
  let '(ex, s) := exec_code (env1 p_streams [ACancel; ADelete]) no_fail (init true) in
  ex = x_callback /\ s_entry s = None /\ s_live s = [] /\ s_msgs s = [5%N; 7%N].
Proof. vm_compute. repeat split; reflexivity. Qed.

(* the shadowed variant differs from the code on the last exit only: wherever it does not take that
   exit it releases everything as well (so only a removal in the last window shows the difference) *)
Theorem shadowed_other_exits_release : forall env inp present,
  fst (exec_shadowed env inp (init present)) <> x_callback ->
  s_live (snd (exec_shadowed env inp (init present))) = [].
Proof.
  intros env inp present. unfold exec_shadowed, exec.
  set (s0 := at_point env p_before (init present)).
  assert (L0 : s_live s0 = []).
  { destruct (s_live s0) as [|r l] eqn:E; [reflexivity|].
    assert (H : In r (s_live s0)) by (rewrite E; left; reflexivity).
    apply at_point_sub in H. destruct present; destruct H. }
  destruct (run_steps env inp setup_shadowed s0) as [ex s1] eqn:R1.
  destruct (Nat.eqb ex x_ok) eqn:EX.
  - destruct (run_steps env inp run_code s1) as [ex2 s2] eqn:R2. simpl. intros _.
    apply release_all. intros r Hr.
    destruct (run_steps_live_sub env inp run_code s1 ex2 s2 R2 r Hr) as [H|H]; [|destruct H].
    destruct (run_steps_live_sub env inp setup_shadowed s0 ex s1 R1 r H) as [H'|H']; [rewrite L0 in H'; destruct H'|].
    simpl in H'. destruct H' as [H'|[]]. subst r. left. reflexivity.
  - simpl. intros N.
    (* every exit of the shadowed program except the last one is an exit of the code *)
    revert R1. unfold setup_shadowed. simpl.
    generalize s0 L0. clear s0 L0.
    intros s0 L0.
    destruct (inp 0); [intros R; inversion R; subst; simpl; rewrite L0; reflexivity|].
    set (sa := at_point env p_dqs _).
    destruct (inp 1); [intros R; inversion R; subst; simpl|].
    { apply release_all. intros r Hr. unfold sa in Hr. apply at_point_sub in Hr. simpl in Hr. rewrite L0 in Hr. destruct Hr as [Hr|[]]. left. exact Hr. }
    assert (La : forall r, In r (s_live sa) -> r = r_summary).
    { intros r Hr. unfold sa in Hr. apply at_point_sub in Hr. simpl in Hr. rewrite L0 in Hr. destruct Hr as [Hr|[]]. symmetry. exact Hr. }
    assert (RA : forall s, (forall r, In r (s_live s) -> r = r_summary) -> release [r_summary] (s_live s) = []).
    { intros s Hs. apply release_all. intros r Hr. left. symmetry. apply Hs. exact Hr. }
    destruct (s_entry sa) eqn:Ea; [|intros R; inversion R; subst; simpl; apply RA; exact La].
    destruct (inp 2); [intros R; inversion R; subst; simpl; apply RA; exact La|].
    destruct (inp 3); [intros R; inversion R; subst; simpl; apply RA; exact La|].
    set (sb := at_point env p_streams sa).
    assert (Lb : forall r, In r (s_live sb) -> r = r_summary).
    { intros r Hr. unfold sb in Hr. apply at_point_sub in Hr. apply La. exact Hr. }
    destruct (existsb is_fail (env p_streams)); simpl; [intros R; inversion R; subst; simpl; apply RA; exact Lb|].
    destruct (inp 4); [intros R; inversion R; subst; simpl; apply RA; exact Lb|].
    set (sc := at_point env p_created sb).
    destruct (s_entry sc) eqn:Ec.
    + intros R. inversion R; subst. discriminate.
    + intros R. inversion R; subst. contradiction.
Qed.

(* ------------------------------------------------------------------ *)
(* every exit of the code is reachable (the statements above are not vacuous) *)
(* ------------------------------------------------------------------ *)
Theorem every_exit_reachable :
  fst (exec_code (fun _ => []) no_fail (init true)) = x_ok /\
  fst (exec_code (env1 p_dqs [ADelete]) no_fail (init true)) = x_prepare /\
  fst (exec_code (env1 p_streams [AFail]) no_fail (init true)) = x_processor /\
  fst (exec_code (fun _ => []) (fun k => Nat.eqb k 2) (init true)) = x_processor /\
  fst (exec_code (env1 p_created [ATimeout; ADelete]) no_fail (init true)) = x_callback /\
  fst (exec_code (env1 p_qsrs [ADelete]) no_fail (init true)) = x_run.
Proof. vm_compute. repeat split; reflexivity. Qed.

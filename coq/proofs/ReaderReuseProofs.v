(* ReaderReuseProofs.v — readers kept across blocks return what a fresh reader returns (C01) *)
From Coq Require Import Lia.
From Coq Require Import ZifyN ZifyNat ZifyBool.
From SigM Require Import Base Tlv TsEnc ColStore ReaderReuse.
From SigP Require Import BaseProofs TlvProofs TsEncProofs ColStoreProofs.
Open Scope N_scope.

(* ================================================================== *)
(* the reusable read buffer                                            *)
(* ================================================================== *)
Lemma buf_load_prefix buf blk : firstn (length blk) (buf_load buf blk) = blk.
Proof.
  unfold buf_load. destruct (Nat.ltb (length buf) (length blk)).
  - apply firstn_all.
  - apply firstn_app_exact.
Qed.

Lemma buf_load_length buf blk : length (buf_load buf blk) = Nat.max (length buf) (length blk).
Proof.
  unfold buf_load. destruct (Nat.ltb (length buf) (length blk)) eqn:E.
  - apply Nat.ltb_lt in E. lia.
  - apply Nat.ltb_ge in E. rewrite app_length, skipn_length. lia.
Qed.

(* ================================================================== *)
(* TimeRangeReader                                                     *)
(* ================================================================== *)
Theorem trr_reuse_independent : forall reqs buf,
  trr_read_seq buf reqs = map (fun r => ts_decode (fst r) (snd r)) reqs.
Proof.
  induction reqs as [|[n blk] reqs IH]; intros buf; [reflexivity|].
  cbn [trr_read_seq map fst snd]. unfold trr_read.
  rewrite buf_load_prefix. f_equal. apply IH.
Qed.

Theorem trr_reuse_roundtrip : forall tss buf,
  Forall (fun ts => ts <> [] /\ Forall (fun t => ts_ok t = true) ts /\ N.of_nat (length ts) < 65536) tss ->
  trr_read_seq buf (map (fun ts => (length ts, ts_encode ts)) tss) = map Some tss.
Proof.
  intros tss buf H. rewrite trr_reuse_independent. rewrite map_map. cbn [fst snd].
  induction H as [|ts tss [Hne [Hok Hlen]] Htss IH]; [reflexivity|].
  cbn [map]. rewrite ts_roundtrip by assumption. f_equal. exact IH.
Qed.

(* decoding the whole buffer instead of the slice [:len] loses a small block read after a block
   of more than 64 KiB: the record count goes through a uint16 conversion *)
Theorem trr_whole_buffer_refuted : exists buf ts,
  ts_decode (length ts) (ts_encode ts) = Some ts /\ (length (ts_encode ts) < length buf)%nat /\
  ts_decode (length ts) (buf_load buf (ts_encode ts)) = None.
Proof.
  exists (repeat 0 (N.to_nat 65610)), (map (fun i => 1000 + i) (seqN 0 100)).
  split; [|split].
  - vm_compute. reflexivity.
  - rewrite repeat_length. apply Nat.ltb_lt. vm_compute. reflexivity.
  - vm_compute. reflexivity.
Qed.

(* ================================================================== *)
(* SegmentFileReader                                                   *)
(* ================================================================== *)
Lemma tbl_resize_length cap n : length (tbl_resize cap n) = n.
Proof. unfold tbl_resize. rewrite app_length, firstn_length, repeat_length. lia. Qed.

Lemma apply_entries_length d : forall j tbl, length (apply_entries j d tbl) = length tbl.
Proof.
  induction d as [|e d IH]; intros j tbl; cbn [apply_entries]; auto.
  rewrite IH. apply apply_recs_length.
Qed.

(* a record some entry lists: the word it had before does not matter *)
Lemma dict_lookup_from_covered d i : forall c1 c2,
  existsb (fun e => existsb (N.eqb i) (snd e)) d = true ->
  dict_lookup_from d i c1 = dict_lookup_from d i c2.
Proof.
  induction d as [|[w recs] d IH]; intros c1 c2 H; cbn [existsb dict_lookup_from snd] in *; [discriminate|].
  destruct (existsb (N.eqb i) recs); [reflexivity|].
  cbn [orb] in H. apply IH. exact H.
Qed.

(* whatever deRecToTlv held before: with coverage the per-record view is the dictionary's *)
Lemma dict_table_any n d T :
  length T = n -> Forall (entry_ok n) d -> dict_lists_all n d ->
  map (fun wi => nth (N.to_nat wi) (map fst d) []) (apply_entries 0 d T) = map (dict_lookup d) (seqN 0 n).
Proof.
  intros LT He Hc.
  set (tbl := apply_entries 0 d T).
  assert (Lt : length tbl = n) by (unfold tbl; rewrite apply_entries_length; exact LT).
  set (f := fun wi : N => nth (N.to_nat wi) (map fst d) []).
  set (g := dict_lookup d).
  apply nth_ext with (d := []) (d' := []).
  - rewrite !map_length, seqN_length. exact Lt.
  - intros i Hi. rewrite map_length, Lt in Hi.
    rewrite (nth_indep (map f tbl) [] (f 0)) by (rewrite map_length; lia).
    rewrite (map_nth f tbl 0 i).
    rewrite (nth_indep (map g (seqN 0 n)) [] (g 0)) by (rewrite map_length, seqN_length; lia).
    rewrite (map_nth g (seqN 0 n) 0 i).
    rewrite seqN_nth by exact Hi. cbn [N.add].
    unfold f, g, dict_lookup, tbl.
    assert (He' : Forall (entry_ok (length T)) d) by (rewrite LT; exact He).
    pose proof (lookup_apply_entries i d 0 [] T _ eq_refl He' eq_refl) as L.
    cbn [app] in L. rewrite L.
    apply dict_lookup_from_covered. apply Hc. exact Hi.
Qed.

Lemma sfr_dict_covered cap n d :
  N.of_nat (length d) < 65536 -> N.of_nat n <= 65536 -> Forall (dict_entry_ok n) d -> dict_lists_all n d ->
  exists cap', sfr_dict cap n (pack_dict (N.of_nat (length d)) d)
               = (Some cap', dict_records n (pack_dict (N.of_nat (length d)) d)).
Proof.
  intros Hd Hn He Hc.
  assert (He' : Forall (entry_ok n) d) by exact He.
  unfold sfr_dict, dict_records, read_dict, pack_dict.
  rewrite rd16_le16 by exact Hd. rewrite Nat2N.id.
  rewrite <- (app_nil_r (concat (map pack_entry d))).
  assert (Lr : length (repeat 0 n) = n) by apply repeat_length.
  assert (Ls : length (tbl_resize cap n) = n) by apply tbl_resize_length.
  rewrite (rd_words_pack d 0 [] (tbl_resize cap n) []) by (rewrite Ls; assumption).
  rewrite (rd_words_pack d 0 [] (repeat 0 n) []) by (rewrite Lr; assumption).
  cbn [app].
  eexists. f_equal. f_equal.
  rewrite (dict_table_any n d (tbl_resize cap n)) by assumption.
  rewrite (dict_table_any n d (repeat 0 n)) by assumption.
  reflexivity.
Qed.

Theorem sfr_reuse_independent : forall csz reqs cap,
  Forall reuse_blk_ok reqs ->
  sfr_read_seq csz (Some cap) reqs = map (fun r => read_col csz (fst r) (snd r)) reqs.
Proof.
  intros csz. induction reqs as [|req reqs IH]; intros cap H; [reflexivity|].
  inversion H as [|? ? Hreq Hreqs]; subst.
  inversion Hreq as [n payload | n d Hd Hn He Hc]; subst; cbn [sfr_read_seq map fst snd].
  - unfold sfr_read, read_col. change (ENC_RAW =? ENC_RAW) with true. cbv iota.
    f_equal. apply IH. exact Hreqs.
  - unfold sfr_read, read_col.
    change (ENC_DICT =? ENC_RAW) with false. change (ENC_DICT =? ENC_DICT) with true. cbv iota.
    destruct (sfr_dict_covered cap n d Hd Hn He Hc) as [cap' E]. rewrite E.
    f_equal. apply IH. exact Hreqs.
Qed.

(* without coverage the stale table shows: record 1 is listed by no entry *)
Theorem sfr_reuse_uncovered_refuted : exists cap n d,
  N.of_nat (length d) < 65536 /\ Forall (dict_entry_ok n) d /\
  sfr_read_seq INCONSISTENT (Some cap) [(n, (ENC_DICT, pack_dict (N.of_nat (length d)) d))]
  <> [read_col INCONSISTENT n (ENC_DICT, pack_dict (N.of_nat (length d)) d)].
Proof.
  exists [1;1], 2%nat, [([19],[0]); ([1;1],[])].
  split; [|split].
  - cbn. lia.
  - repeat constructor; cbn; lia.
  - vm_compute. discriminate.
Qed.

(* RetentionConcProofs.v — proofs about SigM.RetentionConc: the retention pass and the publishers
   of freshly rotated segments on one metadata file, every schedule. *)
From Coq Require Import List Lia ZArith NArith Bool Permutation.
From SigM Require Import Base Retention RetentionConc.
From SigP Require Import BaseProofs RetentionProofs.
Import ListNotations.
Open Scope N_scope.

(* quiescent, is_locked, all_locked: SigM.RetentionConc *)

(* ---------------- thread lists ---------------- *)
Lemma nth_error_set_th_eq : forall l t a th, nth_error l t = Some th -> nth_error (set_th t a l) t = Some a.
Proof. induction l as [|x l IH]; intros [|t] a th H; cbn in *; try discriminate; eauto. Qed.

Lemma nth_error_set_th_same : forall l t a th, nth_error (set_th t a l) t = Some th -> th = a.
Proof. induction l as [|x l IH]; intros [|t] a th H; cbn in *; try discriminate; eauto. congruence. Qed.

Lemma nth_error_set_th_neq : forall l t j a, j <> t -> nth_error (set_th t a l) j = nth_error l j.
Proof.
  induction l as [|x l IH]; intros [|t] [|j] a H; cbn; auto; try congruence.
Qed.

Lemma set_th_set_th : forall l t a b, set_th t a (set_th t b l) = set_th t a l.
Proof. induction l as [|x l IH]; intros [|t] a b; cbn; auto. rewrite IH. reflexivity. Qed.

Lemma allth_set_th (P : thread -> Prop) l t a :
  (forall j th, j <> t -> nth_error l j = Some th -> P th) -> P a ->
  forall j th, nth_error (set_th t a l) j = Some th -> P th.
Proof.
  intros H Ha j th Hj. destruct (Nat.eq_dec j t) as [->|N].
  - apply nth_error_set_th_same in Hj. subst. exact Ha.
  - rewrite nth_error_set_th_neq in Hj by exact N. eauto.
Qed.

Lemma Forall_nth_error {A} (P : A -> Prop) l : Forall P l -> forall j x, nth_error l j = Some x -> P x.
Proof. intros H j x Hj. rewrite Forall_forall in H. apply H. eapply nth_error_In; eauto. Qed.

Lemma nth_error_Forall {A} (P : A -> Prop) l : (forall j x, nth_error l j = Some x -> P x) -> Forall P l.
Proof. intros H. apply Forall_forall. intros x Hx. apply In_nth_error in Hx as [j Hj]. eauto. Qed.

(* ---------------- 1. every schedule is a serial execution of whole sections ---------------- *)
Definition others_idle (t : nat) (l : list thread) : Prop :=
  forall j th', j <> t -> nth_error l j = Some th' -> tcur th' = None.

Definition Inv (s : mstate) : Prop :=
  (forall j th, nth_error (mths s) j = Some th -> Forall is_locked (tsecs th)) /\
  match mlock s with
  | None => forall j th, nth_error (mths s) j = Some th -> tcur th = None
  | Some t => exists th ops, nth_error (mths s) t = Some th /\ tcur th = Some (true, ops) /\ others_idle t (mths s)
  end.

Lemma run_ops_cons o r x : run_ops (o :: r) x = run_ops r (exec o x).
Proof. reflexivity. Qed.

(* a thread that does not hold the lock while somebody else does cannot move *)
Lemma step_blocked t s h : Inv s -> mlock s = Some h -> t <> h -> step t s = s.
Proof.
  intros [AL H] El N. rewrite El in H. destruct H as (th0 & ops & E0 & Ec0 & OI).
  unfold step. destruct (nth_error (mths s) t) as [th|] eqn:Et; auto.
  rewrite (OI t th N Et). pose proof (AL t th Et) as L.
  destruct (tsecs th) as [|[ops'|ops'] rest]; auto.
  - rewrite El. reflexivity.
  - inversion L as [|? ? F _]. destruct F.
Qed.

Lemma step_inv t s : Inv s -> Inv (step t s).
Proof.
  intros I. pose proof I as [AL H].
  destruct (mlock s) as [h|] eqn:El.
  - destruct (Nat.eq_dec t h) as [->|N]; [|rewrite (step_blocked t s h I El N); exact I].
    destruct H as (th & ops & Et & Ec & OI).
    unfold step. rewrite Et, Ec. destruct ops as [|o r].
    + split; cbn [mths mlock].
      * apply allth_set_th; [intros; eapply AL; eauto|]. cbn. eapply AL; eauto.
      * apply allth_set_th; [exact OI|]. reflexivity.
    + destruct (exec o (tloc th, mfs s)) as [l' fs'] eqn:Ex.
      split; cbn [mths mlock].
      * apply allth_set_th; [intros; eapply AL; eauto|]. cbn. eapply AL; eauto.
      * rewrite El. eexists; exists r. split; [eapply nth_error_set_th_eq; eauto|]. split; [reflexivity|].
        intros j th' Nj Hj. rewrite nth_error_set_th_neq in Hj by exact Nj. eauto.
  - unfold step. destruct (nth_error (mths s) t) as [th|] eqn:Et; auto.
    rewrite (H t th Et). pose proof (AL t th Et) as L.
    destruct (tsecs th) as [|[ops'|ops'] rest] eqn:Es; auto.
    + rewrite El. split; cbn [mths mlock].
      * apply allth_set_th; [intros; eapply AL; eauto|]. cbn. inversion L; auto.
      * eexists; exists ops'. split; [eapply nth_error_set_th_eq; eauto|]. split; [reflexivity|].
        intros j th' Nj Hj. rewrite nth_error_set_th_neq in Hj by exact Nj. eauto.
    + inversion L as [|? ? F _]. destruct F.
Qed.

(* a step taken while the lock is held does not change what the holder's section will have done *)
Lemma step_flush_held t s h : Inv s -> mlock s = Some h -> flush (step t s) = flush s.
Proof.
  intros I El. destruct (Nat.eq_dec t h) as [->|N]; [|rewrite (step_blocked t s h I El N); reflexivity].
  destruct I as [AL H]. rewrite El in H. destruct H as (th & ops & Et & Ec & OI).
  unfold step. rewrite Et, Ec. destruct ops as [|o r].
  - unfold flush at 2. rewrite El, Et, Ec. cbn. reflexivity.
  - unfold flush at 2. rewrite El, Et, Ec. rewrite run_ops_cons.
    destruct (exec o (tloc th, mfs s)) as [l' fs'] eqn:Ex.
    unfold flush. cbn [mlock mths mfs].
    rewrite (nth_error_set_th_eq _ _ _ _ Et). cbn [tcur tsecs tloc].
    destruct (run_ops r (l', fs')) as [l2 fs2]. rewrite set_th_set_th. reflexivity.
Qed.

Lemma flush_free s : mlock s = None -> flush s = s.
Proof. intros E. unfold flush. rewrite E. reflexivity. Qed.

Lemma run_serial_cons t ser s : run_serial (t :: ser) s = run_serial ser (serial_step t s).
Proof. reflexivity. Qed.

Lemma run_sched_cons t sch s : run_sched (t :: sch) s = run_sched sch (step t s).
Proof. reflexivity. Qed.

Lemma inv_serializable : forall sch s, Inv s -> exists ser, flush (run_sched sch s) = run_serial ser (flush s).
Proof.
  induction sch as [|t sch IH]; intros s I.
  - exists []. reflexivity.
  - rewrite run_sched_cons. destruct (IH (step t s) (step_inv t s I)) as [ser E].
    destruct (mlock s) as [h|] eqn:El.
    + exists ser. rewrite E. rewrite (step_flush_held t s h I El). reflexivity.
    + exists (t :: ser). rewrite E. rewrite run_serial_cons. rewrite (flush_free s El).
      unfold serial_step. rewrite El. reflexivity.
Qed.

Lemma quiescent_inv s : quiescent s -> all_locked s -> Inv s.
Proof.
  intros [El Q] AL. split.
  - apply Forall_nth_error. exact AL.
  - rewrite El. apply Forall_nth_error. exact Q.
Qed.

Theorem conc_serializable : forall sch s0, quiescent s0 -> all_locked s0 ->
  exists ser, flush (run_sched sch s0) = run_serial ser s0.
Proof.
  intros sch s0 Q AL. destruct (inv_serializable sch s0 (quiescent_inv s0 Q AL)) as [ser E].
  exists ser. rewrite E. rewrite (flush_free s0 (proj1 Q)). reflexivity.
Qed.

Corollary conc_serializable_finished : forall sch s0, quiescent s0 -> all_locked s0 ->
  finished (run_sched sch s0) = true -> exists ser, run_sched sch s0 = run_serial ser s0.
Proof.
  intros sch s0 Q AL F. destruct (conc_serializable sch s0 Q AL) as [ser E].
  exists ser. rewrite <- E. symmetry. apply flush_free.
  unfold finished in F. apply andb_true_iff in F as [_ F].
  destruct (mlock (run_sched sch s0)); [discriminate|reflexivity].
Qed.

(* ---------------- 3. the publisher that opens the file before it takes the lock ---------------- *)
Theorem conc_open_before_lock_refuted :
  exists needhit hz org file pubs sch,
    (forall l, In l (concat pubs) -> expired hz org l = false) /\
    (forall l, In l (concat pubs) -> in_sel (file_lines file) l = false) /\
    concat pubs <> [] /\
    finished (run_sched sch (init_state_open_first needhit hz org file pubs)) = true /\
    content (mfs (run_sched sch (init_state_open_first needhit hz org file pubs)))
      = survivors hz org (file_lines file) /\
    (* the same programs are fine when the publisher runs before the pass, and the coded publisher is fine under the witness schedule *)
    content (mfs (run_sched (sched_ahead (length pubs)) (init_state_open_first needhit hz org file pubs)))
      = survivors hz org (file_lines file) ++ concat pubs /\
    content (mfs (run_sched sch (init_state needhit hz org file pubs)))
      = survivors hz org (file_lines file) ++ concat pubs.
Proof.
  exists true, 100000, 0%Z,
    (Some [mkseg [1;1] KMet 10 20 0%Z 0 [9;1]; mkseg [1;2] KMet 10 900 0%Z 0 [9;1]]),
    [[mkseg [1;3] KMet 800 950 0%Z 0 [9;2]]], (sched_behind 1).
  split; [|split; [|split; [|split; [|split; [|split]]]]].
  - intros l [<-|[]]. vm_compute. reflexivity.
  - intros l [<-|[]]. vm_compute. reflexivity.
  - discriminate.
  - vm_compute. reflexivity.
  - vm_compute. reflexivity.
  - vm_compute. reflexivity.
  - vm_compute. reflexivity.
Qed.

(* ---------------- 2. the pass and n publishers, as coded ---------------- *)
Lemma serial_step_locked t s th ops rest :
  mlock s = None -> nth_error (mths s) t = Some th -> tcur th = None -> tsecs th = Locked ops :: rest ->
  serial_step t s = mkms (snd (run_ops ops (tloc th, mfs s))) None
                      (set_th t (mkth None rest (fst (run_ops ops (tloc th, mfs s)))) (mths s)).
Proof.
  intros El Et Ec Es. unfold serial_step. rewrite El. unfold step. rewrite Et, Ec, Es, El.
  unfold flush. cbn [mlock mths mfs]. rewrite (nth_error_set_th_eq _ _ _ _ Et). cbn [tcur tsecs tloc].
  destruct (run_ops ops (tloc th, mfs s)) as [l' fs']. rewrite set_th_set_th. reflexivity.
Qed.

Lemma serial_step_idle t s : mlock s = None ->
  (forall th, nth_error (mths s) t = Some th -> tcur th = None /\ tsecs th = []) -> serial_step t s = s.
Proof.
  intros El H. unfold serial_step. rewrite El. unfold step.
  destruct (nth_error (mths s) t) as [th|] eqn:Et.
  - destruct (H th eq_refl) as [-> ->]. apply flush_free. exact El.
  - apply flush_free. exact El.
Qed.

Lemma upd_same f i v : upd f i v i = v.
Proof. unfold upd. rewrite Nat.eqb_refl. reflexivity. Qed.

(* a publisher's section appends its lines to what a reader of the file sees, whether the file exists or not *)
Lemma pub_ops l fs ls :
  content (snd (run_ops [OOpenAppend; OWrite ls; OClose] (l, fs))) = content fs ++ ls /\
  ftmp (snd (run_ops [OOpenAppend; OWrite ls; OClose] (l, fs))) = ftmp fs.
Proof.
  unfold run_ops. cbn [fold_left]. unfold content. cbn [exec]. destruct (fname fs) as [i|] eqn:Ef.
  - cbn. rewrite Ef, upd_same. auto.
  - cbn. rewrite !upd_same. auto.
Qed.

Lemma filter_none {A} (f : A -> bool) l : (forall x, In x l -> f x = false) -> filter f l = [].
Proof.
  induction l as [|a r IH]; cbn; intros H; auto. rewrite (H a) by auto. apply IH. auto.
Qed.

Lemma filter_all {A} (f : A -> bool) l : (forall x, In x l -> f x = true) -> filter f l = l.
Proof.
  induction l as [|a r IH]; cbn; intros H; auto. rewrite (H a) by auto. f_equal. apply IH. auto.
Qed.

Lemma in_sel_sub (f : seg -> bool) c x : in_sel (filter f c) x = true -> in_sel c x = true.
Proof.
  intros H. apply in_sel_true in H as [y [Hy E]]. apply in_sel_true. exists y. split; auto.
  apply filter_In in Hy. tauto.
Qed.

Lemma keep_of_app_published (f : seg -> bool) c D :
  (forall x, In x D -> in_sel c x = false) ->
  keep_of (filter f c) (c ++ D) = keep_of (filter f c) c ++ D.
Proof.
  intros H. unfold keep_of. rewrite filter_app. f_equal. apply filter_all.
  intros x Hx. apply negb_true_iff. destruct (in_sel (filter f c) x) eqn:E; auto.
  apply in_sel_sub in E. rewrite (H x Hx) in E. discriminate.
Qed.

Lemma goes_false_keeps nh (f : seg -> bool) c D l :
  lsel l = filter f c -> lread l = c ++ D -> goes nh l = false -> keep_of (filter f c) c = c.
Proof.
  intros Hs Hr G. unfold goes in G. rewrite Hs in G.
  destruct (filter f c) as [|x r] eqn:Ef; [apply keep_of_nil|].
  destruct nh; [|discriminate]. exfalso.
  assert (Hx : In x c). { assert (In x (filter f c)) by (rewrite Ef; left; reflexivity). apply filter_In in H. tauto. }
  assert (existsb (in_sel (x :: r)) (lread l) = true).
  { apply existsb_exists. exists x. split; [rewrite Hr; apply in_or_app; auto|]. apply in_sel_self. left. reflexivity. }
  congruence.
Qed.

(* the locked rewrite of the pass: afterwards the file holds the preserved lines (if the rewrite happens at all)
   and the temporary name is unbound again *)
Lemma rewrite_ops nh l fs : ftmp fs = None ->
  ftmp (snd (run_ops [ORead; OTmp nh; ORename nh; OUnlink nh] (l, fs))) = None /\
  content (snd (run_ops [ORead; OTmp nh; ORename nh; OUnlink nh] (l, fs)))
  = if goes nh (mkloc (fd l) (lsel l) (content fs)) then keep_of (lsel l) (content fs) else content fs.
Proof.
  intros Ef. unfold run_ops. cbn [fold_left].
  change (exec ORead (l, fs)) with (mkloc (fd l) (lsel l) (content fs), fs).
  set (l1 := mkloc (fd l) (lsel l) (content fs)).
  change (keep_of (lsel l) (content fs)) with (kept l1).
  destruct (goes nh l1) eqn:G; [destruct (is_nil (kept l1)) eqn:K|].
  - cbn [exec]. rewrite G, K. cbn [andb negb]. cbn [exec]. rewrite G, K. cbn [andb negb]. cbn [exec]. rewrite G, K.
    assert (K' : kept l1 = []) by (destruct (kept l1); [reflexivity|discriminate]).
    rewrite K'. cbn [andb negb snd ftmp]. split; auto.
  - cbn [exec]. rewrite G, K, Ef. cbn [andb negb]. cbn [exec ftmp]. rewrite G, K. cbn [andb negb]. cbn [exec]. rewrite G, K.
    cbn. split; auto. unfold content. cbn. apply upd_same.
  - cbn [exec]. rewrite G. cbn [andb]. cbn [exec]. rewrite G. cbn [andb]. cbn [exec]. rewrite G. cbn. auto.
Qed.

Inductive phase := Ph2 | Ph1 | Ph0.

Definition pass_secs (nh : bool) (hz : N) (org : Z) (ph : phase) : list sect :=
  match ph with
  | Ph2 => pass_prog nh hz org
  | Ph1 => [Locked [ORead; OTmp nh; ORename nh; OUnlink nh]]
  | Ph0 => []
  end.

(* publisher threads / their batches / the batches not yet published *)
Inductive PT : list thread -> list (list seg) -> list (list seg) -> Prop :=
| PT_nil : PT [] [] []
| PT_done th ls pths pubs pend : tcur th = None -> tsecs th = [] -> PT pths pubs pend -> PT (th :: pths) (ls :: pubs) pend
| PT_pend th ls pths pubs pend : tcur th = None -> tsecs th = pub_prog ls -> PT pths pubs pend ->
    PT (th :: pths) (ls :: pubs) (ls :: pend).

Lemma PT_nth : forall pths pubs pend, PT pths pubs pend -> forall i th, nth_error pths i = Some th ->
  tcur th = None /\
  (tsecs th = [] \/
   exists ls p1 p2, tsecs th = pub_prog ls /\ pend = p1 ++ ls :: p2 /\
     forall a, tcur a = None -> tsecs a = [] -> PT (set_th i a pths) pubs (p1 ++ p2)).
Proof.
  induction 1 as [|th0 ls0 pths pubs pend Hc Hs HP IH|th0 ls0 pths pubs pend Hc Hs HP IH]; intros i th Hi.
  - destruct i; discriminate.
  - destruct i as [|i]; cbn in Hi.
    + inversion Hi; subst. auto.
    + destruct (IH i th Hi) as [E [F|(ls & p1 & p2 & E1 & E2 & E3)]]; split; auto.
      right. exists ls, p1, p2. split; auto. split; auto. intros a Ha Hb. cbn. apply PT_done; auto.
  - destruct i as [|i]; cbn in Hi.
    + inversion Hi; subst. split; auto. right. exists ls0, [], pend. split; auto. split; auto.
      intros a Ha Hb. cbn. apply PT_done; auto.
    + destruct (IH i th Hi) as [E [F|(ls & p1 & p2 & E1 & E2 & E3)]]; split; auto.
      right. exists ls, (ls0 :: p1), p2. split; auto. split; [rewrite E2; reflexivity|].
      intros a Ha Hb. cbn. apply PT_pend; auto.
Qed.

Lemma PT_init pubs : PT (map (fun p => mkth None p loc0) (map pub_prog pubs)) pubs pubs.
Proof. induction pubs as [|ls r IH]; cbn; [constructor|]. apply PT_pend; auto. Qed.

Lemma PT_finished : forall pths pubs pend, PT pths pubs pend -> forallb th_done pths = true -> pend = [].
Proof.
  induction 1 as [|th0 ls0 pths pubs pend Hc Hs HP IH|th0 ls0 pths pubs pend Hc Hs HP IH]; cbn; intros F; auto.
  - apply andb_true_iff in F as [_ F]. auto.
  - apply andb_true_iff in F as [F _]. unfold th_done in F. rewrite Hc, Hs in F. discriminate.
Qed.

Section Publication.
  Variables (nh : bool) (hz : N) (org : Z) (c : list seg) (pubs : list (list seg)).
  Hypothesis Hexp : forall l, In l (concat pubs) -> expired hz org l = false.
  Hypothesis Hsel : forall l, In l (concat pubs) -> in_sel c l = false.

  (* the quiescent states reachable by whole sections *)
  Definition SI (s : mstate) : Prop :=
    exists ph done pend pl pths,
      mlock s = None /\ ftmp (mfs s) = None /\
      mths s = mkth None (pass_secs nh hz org ph) pl :: pths /\
      (ph = Ph1 -> lsel pl = filter (expired hz org) c) /\
      PT pths pubs pend /\ Permutation (done ++ pend) pubs /\
      content (mfs s) = (match ph with Ph0 => survivors hz org c | _ => c end) ++ concat done.

  Lemma done_published done pend l : Permutation (done ++ pend) pubs -> In l (concat done) -> In l (concat pubs).
  Proof.
    intros P H. apply in_concat in H as [b [Hb Hl]]. apply in_concat. exists b. split; auto.
    eapply Permutation_in; [exact P|]. apply in_or_app. auto.
  Qed.

  Lemma SI_step t s : SI s -> SI (serial_step t s).
  Proof.
    intros (ph & done & pend & pl & pths & El & Ef & Et & Hl & HP & Hperm & Hc).
    destruct t as [|i].
    - destruct ph.
      + rewrite (serial_step_locked 0 s (mkth None (pass_prog nh hz org) pl) [OSelect hz org]
                   [Locked [ORead; OTmp nh; ORename nh; OUnlink nh]] El);
          [|rewrite Et; reflexivity|reflexivity|reflexivity].
        rewrite Et. cbn [set_th tloc]. unfold run_ops. cbn [fold_left exec fst snd].
        exists Ph1, done, pend, (mkloc (fd pl) (filter (expired hz org) (content (mfs s))) (lread pl)), pths.
        split; [reflexivity|]. split; [exact Ef|]. split; [reflexivity|]. split; [|split; [exact HP|split; [exact Hperm|exact Hc]]].
        intros _. cbn [lsel]. rewrite Hc, filter_app.
        rewrite (filter_none _ (concat done)); [apply app_nil_r|].
        intros x Hx. apply Hexp. eapply done_published; eauto.
      + rewrite (serial_step_locked 0 s (mkth None [Locked [ORead; OTmp nh; ORename nh; OUnlink nh]] pl)
                   [ORead; OTmp nh; ORename nh; OUnlink nh] [] El);
          [|rewrite Et; reflexivity|reflexivity|reflexivity].
        rewrite Et. cbn [set_th tloc].
        destruct (rewrite_ops nh pl (mfs s) Ef) as [F1 F2].
        exists Ph0, done, pend, (fst (run_ops [ORead; OTmp nh; ORename nh; OUnlink nh] (pl, mfs s))), pths.
        split; [reflexivity|]. split; [exact F1|]. split; [reflexivity|]. split; [discriminate|].
        split; [exact HP|]. split; [exact Hperm|].
        cbn [mfs]. rewrite (Hl eq_refl), Hc in F2. rewrite F2. clear F2. unfold survivors.
        assert (HD : forall x, In x (concat done) -> in_sel c x = false)
          by (intros x Hx; apply Hsel; eapply done_published; eauto).
        destruct (goes nh _) eqn:G.
        * apply keep_of_app_published. exact HD.
        * erewrite goes_false_keeps; [reflexivity| | |exact G]; reflexivity.
      + rewrite serial_step_idle; [|exact El|].
        * exists Ph0, done, pend, pl, pths. repeat split; auto.
        * rewrite Et. intros th E. inversion E. auto.
    - assert (Eth : nth_error (mths s) (S i) = nth_error pths i) by (rewrite Et; reflexivity).
      destruct (nth_error pths i) as [th|] eqn:En.
      + destruct (PT_nth _ _ _ HP i th En) as [Ec [Es|(ls & p1 & p2 & Es & Ep & Hset)]].
        * rewrite serial_step_idle; [|exact El|].
          -- exists ph, done, pend, pl, pths. repeat split; auto.
          -- rewrite Eth. intros th' E. inversion E; subst. auto.
        * rewrite (serial_step_locked (S i) s th [OOpenAppend; OWrite ls; OClose] [] El Eth Ec Es).
          rewrite Et. cbn [set_th].
          destruct (pub_ops (tloc th) (mfs s) ls) as [F1 F2].
          exists ph, (done ++ [ls]), (p1 ++ p2), pl,
            (set_th i (mkth None [] (fst (run_ops [OOpenAppend; OWrite ls; OClose] (tloc th, mfs s)))) pths).
          split; [reflexivity|]. split; [cbn [mfs]; rewrite F2; exact Ef|]. split; [reflexivity|]. split; [exact Hl|].
          split; [apply Hset; reflexivity|]. split.
          -- rewrite <- app_assoc. rewrite Ep in Hperm. eapply Permutation_trans; [|exact Hperm].
             apply Permutation_app_head. cbn. apply Permutation_middle.
          -- cbn [mfs]. rewrite F1, Hc, concat_app. cbn. rewrite app_nil_r, app_assoc. reflexivity.
      + rewrite serial_step_idle; [|exact El|].
        * exists ph, done, pend, pl, pths. repeat split; auto.
        * rewrite Eth. discriminate.
  Qed.

  Lemma SI_run ser : forall s, SI s -> SI (run_serial ser s).
  Proof. induction ser as [|t ser IH]; intros s H; [exact H|]. rewrite run_serial_cons. apply IH. apply SI_step. exact H. Qed.

  Lemma SI_finished s : SI s -> finished s = true ->
    exists order, Permutation order pubs /\ content (mfs s) = survivors hz org c ++ concat order.
  Proof.
    intros (ph & done & pend & pl & pths & El & Ef & Et & Hl & HP & Hperm & Hc) F.
    unfold finished in F. apply andb_true_iff in F as [F _]. rewrite Et in F. cbn [forallb] in F.
    apply andb_true_iff in F as [F0 F]. rewrite (PT_finished _ _ _ HP F), app_nil_r in Hperm.
    exists done. split; auto. destruct ph; [discriminate F0|discriminate F0|exact Hc].
  Qed.
End Publication.

Lemma init_quiescent nh hz org file pubs : quiescent (init_state nh hz org file pubs).
Proof.
  split; [reflexivity|]. unfold init_state, start. cbn [mths]. apply Forall_forall. intros th H.
  apply in_map_iff in H as [p [<- _]]. reflexivity.
Qed.

Lemma init_all_locked nh hz org file pubs : all_locked (init_state nh hz org file pubs).
Proof.
  unfold all_locked, init_state, start. cbn [mths]. apply Forall_forall. intros th H.
  apply in_map_iff in H as [p [<- H]]. cbn [tsecs]. destruct H as [<-|H].
  - repeat constructor.
  - apply in_map_iff in H as [ls [<- _]]. repeat constructor.
Qed.

Lemma init_SI nh hz org file pubs : SI nh hz org (file_lines file) pubs (init_state nh hz org file pubs).
Proof.
  exists Ph2, [], pubs, loc0, (map (fun p => mkth None p loc0) (map pub_prog pubs)).
  split; [reflexivity|]. split; [destruct file; reflexivity|]. split; [reflexivity|]. split; [discriminate|].
  split; [apply PT_init|]. split; [apply Permutation_refl|].
  destruct file; cbn; rewrite ?app_nil_r; reflexivity.
Qed.

Theorem conc_pass_and_publication : forall needhit hz org file pubs sch,
  (forall l, In l (concat pubs) -> expired hz org l = false) ->
  (forall l, In l (concat pubs) -> in_sel (file_lines file) l = false) ->
  finished (run_sched sch (init_state needhit hz org file pubs)) = true ->
  exists order, Permutation order pubs /\
    content (mfs (run_sched sch (init_state needhit hz org file pubs)))
    = survivors hz org (file_lines file) ++ concat order.
Proof.
  intros nh hz org file pubs sch Hexp Hsel F.
  destruct (conc_serializable_finished sch _ (init_quiescent nh hz org file pubs) (init_all_locked nh hz org file pubs) F)
    as [ser E].
  rewrite E in F |- *.
  apply (SI_finished nh hz org (file_lines file) pubs); [|exact F].
  apply SI_run; auto. apply init_SI.
Qed.

(* ---------------- 4. the survivors are the outcome of the pass in the store model ---------------- *)
Section Orders.
  Variable ord : list seg -> list seg.
  Variable ordp : list path -> list path.
  Variable ordn : list N -> list N.
  Hypothesis ord_perm : forall l, Permutation (ord l) l.
  Hypothesis ordp_perm : forall l, Permutation (ordp l) l.
  Hypothesis ordn_perm : forall l, Permutation (ordn l) l.

  Theorem conc_survivors_are_the_pass_outcome : forall hz org st, wf st = true ->
    survivors hz org (segmeta st) = segmeta (run ord ordp ordn hz org st) /\
    survivors hz org (mmeta st) = mmeta (run ord ordp ordn hz org st).
  Proof.
    intros hz org st Hwf.
    destruct (metadata_lists_survivors ord ordp ordn ord_perm ordp_perm ordn_perm hz org st Hwf) as [E1 [E2 _]].
    pose proof (wf_WF st Hwf) as W.
    rewrite E1, E2. unfold survivors. split; apply keep_of_filter.
    - apply wf_nd_seg. exact W.
    - apply wf_nd_mm. exact W.
  Qed.

  (* the pass of the store model and the publishers: both metadata files after EVERY schedule *)
  Theorem conc_store_files : forall hz org st plog pmet schl schm, wf st = true ->
    (forall l, In l (concat plog ++ concat pmet) -> expired hz org l = false) ->
    (forall l, In l (concat plog) -> in_sel (segmeta st) l = false) ->
    (forall l, In l (concat pmet) -> in_sel (mmeta st) l = false) ->
    let fl := run_sched schl (init_state false hz org (Some (segmeta st)) plog) in
    let fm := run_sched schm (init_state true hz org (Some (mmeta st)) pmet) in
    finished fl = true -> finished fm = true ->
    exists ol om, Permutation ol plog /\ Permutation om pmet /\
      content (mfs fl) = segmeta (run ord ordp ordn hz org st) ++ concat ol /\
      content (mfs fm) = mmeta (run ord ordp ordn hz org st) ++ concat om.
  Proof.
    intros hz org st plog pmet schl schm Hwf Hexp Hl Hm fl fm Fl Fm.
    destruct (conc_survivors_are_the_pass_outcome hz org st Hwf) as [S1 S2].
    destruct (conc_pass_and_publication false hz org (Some (segmeta st)) plog schl) as [ol [Pl El]]; auto.
    { intros l Hin. apply Hexp. apply in_or_app. left. exact Hin. }
    destruct (conc_pass_and_publication true hz org (Some (mmeta st)) pmet schm) as [om [Pm Em]]; auto.
    { intros l Hin. apply Hexp. apply in_or_app. right. exact Hin. }
    exists ol, om. repeat split; auto.
    - unfold fl. rewrite El. cbn [file_lines]. rewrite S1. reflexivity.
    - unfold fm. rewrite Em. cbn [file_lines]. rewrite S2. reflexivity.
  Qed.
End Orders.

Print Assumptions conc_store_files.
Print Assumptions conc_serializable.
Print Assumptions conc_serializable_finished.
Print Assumptions conc_pass_and_publication.
Print Assumptions conc_open_before_lock_refuted.
Print Assumptions conc_survivors_are_the_pass_outcome.

(* RetentionMemProofs.v — the three views of the in-memory segment metadata stay one set under
   deleteSegmentKeyWithLock, for every key, every order of deletions and every distribution of
   LatestEpochMS values (ties included); the single list [mem] of Retention.v is their abstraction. *)
From Coq Require Import Lia Permutation.
From Coq Require Import ZifyN ZifyNat ZifyBool.
From SigM Require Import Base Retention RetentionMem.
From SigP Require Import BaseProofs RetentionProofs.
Open Scope N_scope.

Definition keepk (k : path) (l : list ment) : list ment := filter (fun e => negb (key_is k e)) l.
Definition keepk_tables (k : path) (tb : list (N * list ment)) : list (N * list ment) :=
  map (fun tl => (fst tl, keepk k (snd tl))) tb.
Definition keeps_tables (ks : list path) (tb : list (N * list ment)) : list (N * list ment) :=
  map (fun tl => (fst tl, keeps ks (snd tl))) tb.

(* ------------------------------------------------------------------ small list facts *)
Lemma key_is_true k e : key_is k e = true <-> me_key e = k.
Proof. unfold key_is. apply path_eqb_eq. Qed.

Lemma key_is_false k e : key_is k e = false <-> me_key e <> k.
Proof. unfold key_is. apply path_eqb_neq. Qed.

Lemma filter_id {A} (f : A -> bool) l : (forall x, In x l -> f x = true) -> filter f l = l.
Proof.
  induction l as [|a l IH]; intros H; cbn; auto.
  rewrite (H a (or_introl eq_refl)). f_equal. apply IH. intros x Hx. apply H. right; auto.
Qed.

Lemma filter_filter {A} (f g : A -> bool) l : filter g (filter f l) = filter (fun x => f x && g x) l.
Proof.
  induction l as [|a l IH]; cbn; auto.
  destruct (f a); cbn; [destruct (g a); cbn|]; rewrite ?IH; auto.
Qed.

Lemma filter_ext' {A} (f g : A -> bool) l : (forall x, f x = g x) -> filter f l = filter g l.
Proof. intros H. induction l as [|a l IH]; cbn; auto. rewrite H, IH. reflexivity. Qed.

Lemma map_fixed {A} (f : A -> A) l : (forall x, In x l -> f x = x) -> map f l = l.
Proof.
  induction l as [|a l IH]; intros H; cbn; auto.
  rewrite (H a (or_introl eq_refl)). f_equal. apply IH. intros x Hx. apply H. right; auto.
Qed.

Lemma NoDup_filter' {A} (f : A -> bool) l : NoDup l -> NoDup (filter f l).
Proof.
  induction 1 as [|a l Ha ND IH]; cbn; [constructor|].
  destruct (f a); auto. constructor; auto. intros H. apply filter_In in H as [H _]. auto.
Qed.

Lemma NoDup_map_filter' {A B} (f : A -> B) (g : A -> bool) l : NoDup (map f l) -> NoDup (map f (filter g l)).
Proof.
  induction l as [|a l IH]; cbn; intros H; auto.
  inversion H as [|x y Hx ND]; subst. destruct (g a); cbn; auto.
  constructor; auto. intros Hi. apply Hx. apply in_map_iff in Hi as [z [E Hz]].
  apply filter_In in Hz as [Hz _]. rewrite <- E. apply in_map. exact Hz.
Qed.

Lemma NoDup_map_inj' {A B} (f : A -> B) l a b : NoDup (map f l) -> In a l -> In b l -> f a = f b -> a = b.
Proof.
  induction l as [|x l IH]; cbn; intros ND Ha Hb E; [tauto|].
  inversion ND as [|y z Hx ND']; subst.
  destruct Ha as [Ha|Ha], Hb as [Hb|Hb]; subst; auto.
  - exfalso. apply Hx. rewrite E. apply in_map. exact Hb.
  - exfalso. apply Hx. rewrite <- E. apply in_map. exact Ha.
Qed.

Lemma NoDup_app_l' {A} (a b : list A) : NoDup (a ++ b) -> NoDup a.
Proof.
  induction a as [|x a IH]; cbn; intros H; [constructor|].
  inversion H as [|y z Hx ND]; subst. constructor; auto. intros Hi. apply Hx. apply in_or_app. auto.
Qed.

Lemma NoDup_app_r' {A} (a b : list A) : NoDup (a ++ b) -> NoDup b.
Proof. induction a as [|x a IH]; cbn; intros H; auto. inversion H; subst. auto. Qed.

Lemma NoDup_app_disj' {A} (a b : list A) x : NoDup (a ++ b) -> In x a -> In x b -> False.
Proof.
  induction a as [|y a IH]; cbn; intros H Ha Hb; [tauto|].
  inversion H as [|u v Hy ND]; subst. destruct Ha as [->|Ha]; eauto.
  apply Hy. apply in_or_app. auto.
Qed.

Lemma nodup_dirs_NoDup l : nodup_dirs l = true -> NoDup l.
Proof.
  induction l as [|p l IH]; cbn; intros H; [constructor|].
  apply andb_true_iff in H as [H1 H2]. constructor; auto.
  apply negb_true_iff in H1. apply mem_path_false in H1. exact H1.
Qed.

Lemma nodup_N_NoDup l : nodup_N l = true -> NoDup l.
Proof.
  induction l as [|p l IH]; cbn; intros H; [constructor|].
  apply andb_true_iff in H as [H1 H2]. constructor; auto.
  apply negb_true_iff in H1. intros Hi.
  assert (existsb (N.eqb p) l = true) by (apply existsb_exists; exists p; split; auto; apply N.eqb_refl).
  congruence.
Qed.

Lemma ment_eqb_eq a b : ment_eqb a b = true -> a = b.
Proof.
  unfold ment_eqb. intros H.
  repeat (apply andb_true_iff in H as [H ?]).
  apply path_eqb_eq in H. destruct a, b; cbn in *.
  f_equal; auto; try (apply N.eqb_eq; assumption). apply Z.eqb_eq; assumption.
Qed.

(* ------------------------------------------------------------------ scans *)
Lemma keepk_notin k l : ~ In k (map me_key l) -> keepk k l = l.
Proof.
  intros H. apply filter_id. intros e He. apply negb_true_iff, key_is_false.
  intros E. apply H. rewrite <- E. apply in_map. exact He.
Qed.

Lemma remove_first_keepk k l : NoDup (map me_key l) -> remove_first_key k l = keepk k l.
Proof.
  induction l as [|e l IH]; cbn; intros ND; auto.
  inversion ND as [|x y Hx ND']; subst.
  destruct (key_is k e) eqn:E; cbn.
  - apply key_is_true in E. symmetry. apply keepk_notin. rewrite <- E. exact Hx.
  - f_equal. apply IH. exact ND'.
Qed.

Lemma find_key_some k l e : find_key k l = Some e -> In e l /\ me_key e = k.
Proof.
  induction l as [|x l IH]; cbn; [discriminate|].
  destruct (key_is k x) eqn:E.
  - intros H; inversion H; subst. split; auto. apply key_is_true. exact E.
  - intros H. destruct (IH H). auto.
Qed.

Lemma find_key_none k l : find_key k l = None -> ~ In k (map me_key l).
Proof.
  induction l as [|x l IH]; cbn; [tauto|].
  destruct (key_is k x) eqn:E; [discriminate|].
  intros H [Hx|Hx]; [|apply IH; auto]. apply key_is_false in E. auto.
Qed.

Lemma get_table_some t tb l : get_table t tb = Some l -> In (t, l) tb.
Proof.
  induction tb as [|[t' l'] tb IH]; cbn; [discriminate|].
  destruct (t' =? t) eqn:E.
  - intros H; inversion H; subst. apply N.eqb_eq in E; subst. auto.
  - auto.
Qed.

Lemma get_table_in t tb l : NoDup (map fst tb) -> In (t, l) tb -> get_table t tb = Some l.
Proof.
  induction tb as [|[t' l'] tb IH]; cbn; [tauto|].
  intros ND [H|H].
  - inversion H; subst. rewrite N.eqb_refl. reflexivity.
  - inversion ND as [|x y Hx ND']; subst.
    destruct (t' =? t) eqn:E.
    + apply N.eqb_eq in E; subst. exfalso. apply Hx. change t with (fst (t, l)). apply in_map. exact H.
    + auto.
Qed.

Lemma set_table_keepk k t sl tb :
  NoDup (map fst tb) -> get_table t tb = Some sl ->
  (forall t' l', In (t', l') tb -> t' <> t -> keepk k l' = l') ->
  set_table t (keepk k sl) tb = keepk_tables k tb.
Proof.
  induction tb as [|[t' l'] tb IH]; cbn; [discriminate|].
  intros ND G H. inversion ND as [|x y Hx ND']; subst.
  destruct (t' =? t) eqn:E.
  - inversion G; subst. apply N.eqb_eq in E; subst. f_equal.
    symmetry. apply map_fixed. intros [t2 l2] Hin. cbn. f_equal.
    apply (H t2 l2); auto. intros ->. apply Hx. change t with (fst (t, l2)). apply in_map. exact Hin.
  - f_equal.
    + f_equal. symmetry. apply (H t' l'); auto. apply N.eqb_neq. exact E.
    + apply IH; auto. intros t2 l2 Hin. apply H. auto.
Qed.

Lemma NoDup_tbl_part {B} (f : ment -> B) (tb : list (N * list ment)) (t : N) (l : list ment) :
  NoDup (map f (flat_map snd tb)) -> In (t, l) tb -> NoDup (map f l).
Proof.
  induction tb as [|[t' l'] tb IH]; cbn; [tauto|].
  rewrite map_app. intros ND [H|H].
  - inversion H; subst. eapply NoDup_app_l'; eauto.
  - apply IH; auto. eapply NoDup_app_r'; eauto.
Qed.

Lemma tbl_entries_keepk k tb : flat_map snd (keepk_tables k tb) = keepk k (flat_map snd tb).
Proof.
  induction tb as [|[t l] tb IH]; [reflexivity|].
  unfold keepk_tables, keepk in *. cbn. rewrite filter_app. f_equal. exact IH.
Qed.

Lemma in_tbl_entries (m : memmeta) t l e : In (t, l) (mm_tables m) -> In e l -> In e (tbl_entries m).
Proof. intros H1 H2. unfold tbl_entries. apply in_flat_map. exists (t, l). auto. Qed.

(* ------------------------------------------------------------------ reflection of the executable check *)
Lemma views_agree_consistent m : views_agree m = true -> consistent m.
Proof.
  unfold views_agree. intros H.
  repeat (apply andb_true_iff in H as [H ?]).
  rename H into A1, H6 into A2, H5 into A3, H4 into A4, H3 into A5, H2 into A6, H1 into A7, H0 into A8.
  constructor.
  - apply nodup_dirs_NoDup. exact A1.
  - apply nodup_dirs_NoDup. exact A2.
  - intros k. split; intros Hk.
    + rewrite forallb_forall in A3. apply mem_path_In. apply A3. exact Hk.
    + rewrite forallb_forall in A4. apply mem_path_In. apply A4. exact Hk.
  - apply nodup_N_NoDup. exact A5.
  - apply nodup_dirs_NoDup. exact A6.
  - intros t l e Htl He. rewrite forallb_forall in A7. specialize (A7 _ Htl). cbn in A7.
    rewrite forallb_forall in A7. specialize (A7 _ He). apply andb_true_iff in A7 as [T X].
    apply N.eqb_eq in T. apply existsb_exists in X as [e' [He' E]]. apply ment_eqb_eq in E. subst e'. auto.
  - intros e He. rewrite forallb_forall in A8. specialize (A8 _ He).
    apply existsb_exists in A8 as [[t l] [Htl X]]. cbn in X. apply andb_true_iff in X as [T X].
    apply N.eqb_eq in T. subst t. apply existsb_exists in X as [e' [He' E]]. apply ment_eqb_eq in E. subst e'.
    exists l. auto.
Qed.

(* ------------------------------------------------------------------ one deletion *)
Section OneDelete.
  Variable m : memmeta.
  Hypothesis C : consistent m.

  Lemma other_tables_untouched k e : In e (mm_all m) -> me_key e = k ->
    forall t' l', In (t', l') (mm_tables m) -> t' <> me_table e -> keepk k l' = l'.
  Proof.
    intros He Ek t' l' Hin Hne. apply keepk_notin. intros Hk.
    apply in_map_iff in Hk as [e' [Ek' He']].
    destruct (c_tbl_all m C _ _ _ Hin He') as [Ha Ht].
    assert (e' = e) by (eapply NoDup_map_inj'; [apply (c_nd_all m C)| | |]; auto; congruence).
    subst e'. auto.
  Qed.

  (* deleteSegmentKeyWithLock removes the key from all three views and touches nothing else *)
  Lemma md_delete_filter k :
    md_delete k m = mkmm (keepk k (mm_all m)) (del_path k (mm_rev m)) (keepk_tables k (mm_tables m)).
  Proof.
    unfold md_delete. destruct (find_key k (mm_all m)) as [e|] eqn:F.
    - apply find_key_some in F as [He Ek].
      destruct (c_all_tbl m C e He) as [l [Hl Hel]].
      rewrite (get_table_in _ _ _ (c_nd_names m C) Hl).
      rewrite (remove_first_keepk k (mm_all m) (c_nd_all m C)).
      rewrite (remove_first_keepk k l).
      2:{ eapply NoDup_tbl_part; [apply (c_nd_tbl m C)|exact Hl]. }
      f_equal. apply set_table_keepk.
      + apply (c_nd_names m C).
      + apply get_table_in; [apply (c_nd_names m C)|exact Hl].
      + apply other_tables_untouched; auto.
    - apply find_key_none in F. rewrite (keepk_notin _ _ F). f_equal.
      symmetry. apply map_fixed. intros [t l] Hin. cbn. f_equal.
      apply keepk_notin. intros Hk. apply in_map_iff in Hk as [e [Ek He]].
      destruct (c_tbl_all m C _ _ _ Hin He) as [Ha _]. apply F. rewrite <- Ek. apply in_map. exact Ha.
  Qed.

  Lemma md_delete_consistent k : consistent (md_delete k m).
  Proof.
    rewrite md_delete_filter. constructor; cbn.
    - apply NoDup_map_filter'. apply (c_nd_all m C).
    - apply NoDup_filter'. apply (c_nd_rev m C).
    - intros q. rewrite In_del_path, (c_rev m C). split.
      + intros [Hq Hne]. apply in_map_iff in Hq as [e [Eq He]]. apply in_map_iff. exists e. split; auto.
        apply filter_In. split; auto. apply negb_true_iff, key_is_false. congruence.
      + intros Hq. apply in_map_iff in Hq as [e [Eq He]]. apply filter_In in He as [He Hk].
        apply negb_true_iff, key_is_false in Hk. split; [apply in_map_iff; exists e; auto|congruence].
    - unfold keepk_tables. rewrite map_map. cbn. apply (c_nd_names m C).
    - unfold tbl_entries. cbn. rewrite tbl_entries_keepk. apply NoDup_map_filter'. apply (c_nd_tbl m C).
    - intros t l e Hin He. unfold keepk_tables in Hin. apply in_map_iff in Hin as [[t0 l0] [E Hin]].
      cbn in E. inversion E; subst. apply filter_In in He as [He Hk].
      destruct (c_tbl_all m C _ _ _ Hin He) as [Ha Ht]. split; auto. apply filter_In. auto.
    - intros e He. apply filter_In in He as [He Hk].
      destruct (c_all_tbl m C e He) as [l [Hl Hel]]. exists (keepk k l). split.
      + unfold keepk_tables. apply in_map_iff. exists (me_table e, l). auto.
      + apply filter_In. auto.
  Qed.

  (* the single list of Retention.v follows: DeleteSegmentKey = del_path on [mem] *)
  Lemma md_delete_abs k : mem_abs (md_delete k m) = del_path k (mem_abs m).
  Proof.
    rewrite md_delete_filter. unfold mem_abs, del_path, keepk. cbn.
    induction (mm_all m) as [|e l IH]; cbn; auto.
    unfold key_is at 1. rewrite (path_eqb_sym (me_key e) k).
    destruct (path_eqb k (me_key e)); cbn; rewrite IH; reflexivity.
  Qed.
End OneDelete.

(* ------------------------------------------------------------------ any sequence of deletions *)
Lemma keeps_cons k ks l : keeps ks (keepk k l) = keeps (k :: ks) l.
Proof.
  unfold keeps, keepk. rewrite filter_filter. apply filter_ext'. intros e.
  cbn. unfold key_is. destruct (path_eqb (me_key e) k); reflexivity.
Qed.

Lemma keeps_keys_cons k ks l : keeps_keys ks (del_path k l) = keeps_keys (k :: ks) l.
Proof.
  unfold keeps_keys, del_path. rewrite filter_filter. apply filter_ext'. intros p.
  cbn. rewrite (path_eqb_sym k p). destruct (path_eqb p k); reflexivity.
Qed.

Lemma keeps_nil l : keeps [] l = l.
Proof. apply filter_id. auto. Qed.
Lemma keeps_keys_nil l : keeps_keys [] l = l.
Proof. apply filter_id. auto. Qed.

Lemma md_deletes_filter ks : forall m, consistent m ->
  md_deletes ks m = mkmm (keeps ks (mm_all m)) (keeps_keys ks (mm_rev m)) (keeps_tables ks (mm_tables m))
  /\ consistent (md_deletes ks m).
Proof.
  induction ks as [|k ks IH]; intros m C.
  - change (md_deletes [] m) with m. split; auto. rewrite keeps_nil, keeps_keys_nil.
    assert (E : keeps_tables [] (mm_tables m) = mm_tables m).
    { apply map_fixed. intros [t0 l0] _. cbn [fst snd]. rewrite keeps_nil. reflexivity. }
    rewrite E. destruct m; reflexivity.
  - change (md_deletes (k :: ks) m) with (md_deletes ks (md_delete k m)).
    destruct (IH _ (md_delete_consistent m C k)) as [E C']. split; auto.
    rewrite E, (md_delete_filter m C k). cbn [mm_all mm_rev mm_tables]. rewrite keeps_cons, keeps_keys_cons. f_equal.
    unfold keeps_tables, keepk_tables. rewrite map_map. apply map_ext. intros [t l]. cbn [fst snd]. rewrite keeps_cons. reflexivity.
Qed.

Lemma mem_path_perm p ks ks' : Permutation ks ks' -> mem_path p ks = mem_path p ks'.
Proof.
  intros P. destruct (mem_path p ks) eqn:A, (mem_path p ks') eqn:B; auto.
  - apply mem_path_In in A. apply mem_path_false in B. exfalso. apply B. eapply Permutation_in; eauto.
  - apply mem_path_In in B. apply mem_path_false in A. exfalso. apply A. eapply Permutation_in; [apply Permutation_sym|]; eauto.
Qed.

(* the order in which Go's map iteration hands the selected segments to DeleteSegmentKey does
   not matter, whatever the LatestEpochMS values are *)
Theorem md_deletes_order_irrelevant m ks ks' : consistent m -> Permutation ks ks' ->
  md_deletes ks m = md_deletes ks' m.
Proof.
  intros C P. rewrite (proj1 (md_deletes_filter ks m C)), (proj1 (md_deletes_filter ks' m C)).
  unfold keeps, keeps_keys, keeps_tables. f_equal.
  - apply filter_ext'. intros e. rewrite (mem_path_perm _ _ _ P). reflexivity.
  - apply filter_ext'. intros e. rewrite (mem_path_perm _ _ _ P). reflexivity.
  - apply map_ext. intros [t l]. cbn. f_equal. apply filter_ext'. intros e. rewrite (mem_path_perm _ _ _ P). reflexivity.
Qed.

Lemma get_table_keeps ks t tb : get_table t (keeps_tables ks tb) = option_map (keeps ks) (get_table t tb).
Proof.
  induction tb as [|[t' l] tb IH]; cbn; auto. destruct (t' =? t); auto.
Qed.

(* what a query is handed after the deletions: what it was handed before, minus the deleted keys *)
Theorem enumerate_after_deletes m ks lo hi t org k : consistent m ->
  In k (enumerate lo hi t org (md_deletes ks m)) <-> In k (enumerate lo hi t org m) /\ ~ In k ks.
Proof.
  intros C. rewrite (proj1 (md_deletes_filter ks m C)). unfold enumerate. cbn.
  rewrite get_table_keeps. destruct (get_table t (mm_tables m)) as [l|]; cbn; [|tauto].
  rewrite !in_map_iff. split.
  - intros [e [Ek He]]. apply filter_In in He as [He P]. unfold keeps in He. apply filter_In in He as [He Hn].
    apply negb_true_iff, mem_path_false in Hn. split; [|congruence].
    exists e. split; auto. apply filter_In. auto.
  - intros [[e [Ek He]] Hn]. apply filter_In in He as [He P]. exists e. split; auto.
    apply filter_In. split; auto. apply filter_In. split; auto.
    apply negb_true_iff, mem_path_false. congruence.
Qed.

Lemma enumerate_known m lo hi t org k : consistent m -> In k (enumerate lo hi t org m) -> In k (mem_abs m).
Proof.
  intros C. unfold enumerate. destruct (get_table t (mm_tables m)) as [l|] eqn:G; cbn; [|tauto].
  intros H. apply in_map_iff in H as [e [Ek He]]. apply filter_In in He as [He _].
  apply get_table_some in G. destruct (c_tbl_all m C _ _ _ G He) as [Ha _].
  unfold mem_abs. rewrite <- Ek. apply in_map. exact Ha.
Qed.

(* ------------------------------------------------------------------ along the effects of a pass *)
Lemma apply_mem_effs_deletes es : forall m, apply_mem_effs es m = md_deletes (memdel_keys es) m.
Proof.
  induction es as [|e es IH]; intros m; auto.
  change (apply_mem_effs (e :: es) m) with (apply_mem_effs es (mem_eff m e)). rewrite IH.
  destruct e; reflexivity.
Qed.

Lemma fold_mem_keys es : forall l q, In q (fold_left step_mem es l) <-> In q l /\ ~ In q (memdel_keys es).
Proof.
  induction es as [|e es IH]; intros l q; cbn.
  - tauto.
  - rewrite IH. destruct e; cbn; try tauto.
    rewrite In_del_path. split.
    + intros [[A B] D]. split; auto. intros [E|E]; auto.
    + intros [A B]. repeat split; auto.
Qed.

(* [mem] of Retention.v is the abstraction of the three views along every effect list *)
Theorem mem_refines es : forall m st, consistent m -> mem_abs m = mem st ->
  consistent (apply_mem_effs es m) /\ mem_abs (apply_mem_effs es m) = mem (apply_effs es st).
Proof.
  induction es as [|e es IH]; intros m st C A; [split; auto|].
  change (apply_mem_effs (e :: es) m) with (apply_mem_effs es (mem_eff m e)).
  rewrite apply_effs_cons. apply IH.
  - destruct e; cbn; auto. apply md_delete_consistent. exact C.
  - destruct e; cbn; auto. rewrite md_delete_abs by exact C. rewrite A. reflexivity.
Qed.

Theorem enumerate_after_effects es m st lo hi t org k : consistent m -> mem_abs m = mem st ->
  In k (enumerate lo hi t org (apply_mem_effs es m))
  <-> In k (enumerate lo hi t org m) /\ In k (mem (apply_effs es st)).
Proof.
  intros C A. rewrite apply_mem_effs_deletes, enumerate_after_deletes by exact C.
  rewrite mem_apply, fold_mem_keys, <- A. split.
  - intros [H1 H2]. repeat split; auto. eapply enumerate_known; eauto.
  - tauto.
Qed.

(* ------------------------------------------------------------------ the whole pass *)
Section PassViews.
  Variable ord : list seg -> list seg.
  Variable ordp : list path -> list path.
  Variable ordn : list N -> list N.
  Hypothesis ord_perm : forall l, Permutation (ord l) l.
  Hypothesis ordp_perm : forall l, Permutation (ordp l) l.
  Hypothesis ordn_perm : forall l, Permutation (ordn l) l.

  Theorem pass_views m hz org st :
    views_agree m = true -> mem_abs m = mem st ->
    let st' := run ord ordp ordn hz org st in
    let m' := apply_mem_effs (pass_effs ord ordp ordn hz org st) m in
    consistent m' /\ mem_abs m' = mem st' /\
    forall lo hi t o k,
      In k (enumerate lo hi t o m') <->
      In k (enumerate lo hi t o m) /\ forall s, In s (segmeta st) -> expired hz org s = true -> s_dir s <> k.
  Proof.
    intros V A st' m'. apply views_agree_consistent in V.
    destruct (mem_refines (pass_effs ord ordp ordn hz org st) m st V A) as [C' A'].
    split; [exact C'|]. split; [exact A'|].
    intros lo hi t o k. unfold m'. rewrite (enumerate_after_effects _ m st) by assumption.
    fold (run ord ordp ordn hz org st). rewrite (run_mem ord ordp ordn ord_perm ordp_perm ordn_perm).
    split.
    - intros [H1 [H2 H3]]. split; auto. intros s Hs Ex. apply H3. unfold sel_log. apply filter_In. auto.
    - intros [H1 H2]. split; auto. split.
      + rewrite <- A. eapply enumerate_known; eauto.
      + intros s Hs. unfold sel_log in Hs. apply filter_In in Hs as [Hs Ex]. auto.
  Qed.
End PassViews.

(* ------------------------------------------------------------------ the entry looked up through the sort key *)
Definition tie_witness : memmeta :=
  let a := mkment [1;1] 7 10 50 0%Z in
  let b := mkment [1;2] 7 20 50 0%Z in
  let c := mkment [1;3] 7 60 90 0%Z in
  mkmm [c; a; b] [[1;1]; [1;2]; [1;3]] [(7, [c; a; b])].

(* two segments of one index end on the same millisecond; the second of them is deleted: the
   coded deletion leaves the views in agreement, the lookup through LatestEpochMS lands on the
   first of the tied group, removes nothing, and a query over any range that covers the deleted
   segment is still handed its key although the segment is unknown to the other two views *)
Lemma by_latest_witness :
  views_agree tie_witness = true /\ views_sorted tie_witness = true /\
  views_agree (md_delete [1;2] tie_witness) = true /\
  enumerate 0 100 7 0%Z (md_delete [1;2] tie_witness) = [[1;3]; [1;1]] /\
  views_agree (md_delete_by_latest [1;2] tie_witness) = false /\
  mem_abs (md_delete_by_latest [1;2] tie_witness) = [[1;3]; [1;1]] /\
  enumerate 0 100 7 0%Z (md_delete_by_latest [1;2] tie_witness) = [[1;3]; [1;1]; [1;2]].
Proof. vm_compute. repeat split; reflexivity. Qed.

(* without a tie the lookup through the sort key is the coded deletion *)
Lemma remove_at_latest_strict k latest l :
  (forall e, In e l -> me_latest e = latest -> me_key e = k) ->
  sorted_desc l = true -> NoDup (map me_key l) ->
  (forall e, In e l -> me_key e = k -> me_latest e = latest) ->
  remove_at_latest k latest l = remove_first_key k l.
Proof.
  induction l as [|e l IH]; intros U S ND L; cbn; auto.
  destruct (key_is k e) eqn:K.
  - apply key_is_true in K. rewrite (L e (or_introl eq_refl) K), N.leb_refl. reflexivity.
  - destruct (me_latest e <=? latest) eqn:Le.
    + (* e is not the key and not newer than it: the key cannot follow in a descending slice *)
      f_equal. symmetry.
      assert (Hn : ~ In k (map me_key l)).
      { intros Hk. apply in_map_iff in Hk as [f [Fk Hf]].
        assert (Lf : me_latest f = latest) by (apply L; [right|]; auto).
        assert (me_latest f <= me_latest e).
        { clear - S Hf. revert e S. induction l as [|x l IHl]; intros e S; [destruct Hf|].
          cbn in S. apply andb_true_iff in S as [S1 S2]. apply N.leb_le in S1.
          destruct Hf as [->|Hf]; auto. specialize (IHl Hf x S2). lia. }
        apply N.leb_le in Le. assert (me_latest e = latest) by lia.
        apply key_is_false in K. apply K. apply U; [left; reflexivity|assumption]. }
      rewrite <- (keepk_notin k l Hn) at 2. apply remove_first_keepk.
      inversion ND; auto.
    + f_equal. apply IH.
      * intros f Hf. apply U. right; auto.
      * cbn in S. destruct l; auto. apply andb_true_iff in S as [_ S]. exact S.
      * inversion ND; auto.
      * intros f Hf. apply L. right; auto.
Qed.

Lemma by_latest_guarded m k :
  views_agree m = true -> views_sorted m = true -> no_ties m = true ->
  md_delete_by_latest k m = md_delete k m.
Proof.
  intros V S T. pose proof (views_agree_consistent m V) as C.
  unfold md_delete_by_latest, md_delete.
  destruct (find_key k (mm_all m)) as [e|] eqn:F; auto.
  destruct (get_table (me_table e) (mm_tables m)) as [sl|] eqn:G; auto.
  f_equal. f_equal.
  apply find_key_some in F as [He Ek].
  pose proof (get_table_some _ _ _ G) as Hin.
  destruct (c_all_tbl m C e He) as [l [Hl Hel]].
  assert (l = sl). { rewrite (get_table_in _ _ _ (c_nd_names m C) Hl) in G. inversion G; auto. }
  subst l.
  apply remove_at_latest_strict.
  - intros f Hf Lf.
    assert (ND : NoDup (map me_latest sl)).
    { unfold no_ties in T. rewrite forallb_forall in T. specialize (T _ Hin). cbn in T. apply nodup_N_NoDup; auto. }
    assert (f = e) by (eapply NoDup_map_inj'; eauto). subst; auto.
  - unfold views_sorted in S. apply andb_true_iff in S as [_ S]. rewrite forallb_forall in S. apply (S _ Hin).
  - eapply NoDup_tbl_part; [apply (c_nd_tbl m C)|exact Hin].
  - intros f Hf Kf. destruct (c_tbl_all m C _ _ _ Hin Hf) as [Ha _].
    assert (f = e) by (eapply NoDup_map_inj'; [apply (c_nd_all m C)| | |]; auto; congruence).
    subst; auto.
Qed.

(* ------------------------------------------------------------------ statements used by props/C14.v *)
Lemma views_delete m k : views_agree m = true ->
  mm_all (md_delete k m) = filter (fun e => negb (key_is k e)) (mm_all m) /\
  mm_rev (md_delete k m) = del_path k (mm_rev m) /\
  mm_tables (md_delete k m) = map (fun tl => (fst tl, filter (fun e => negb (key_is k e)) (snd tl))) (mm_tables m) /\
  mem_abs (md_delete k m) = del_path k (mem_abs m) /\
  consistent (md_delete k m).
Proof.
  intros V. apply views_agree_consistent in V.
  pose proof (md_delete_abs m V k) as A. pose proof (md_delete_consistent m V k) as C'.
  pose proof (md_delete_filter m V k) as E.
  split; [rewrite E; reflexivity|]. split; [rewrite E; reflexivity|]. split; [rewrite E; reflexivity|].
  split; assumption.
Qed.

Lemma views_deletion_order m ks ks' : views_agree m = true -> Permutation ks ks' ->
  md_deletes ks m = md_deletes ks' m /\ consistent (md_deletes ks m) /\
  forall lo hi t org k, In k (enumerate lo hi t org (md_deletes ks m)) <-> In k (enumerate lo hi t org m) /\ ~ In k ks.
Proof.
  intros V P. apply views_agree_consistent in V. split; [|split].
  - apply md_deletes_order_irrelevant; auto.
  - apply md_deletes_filter; auto.
  - intros. apply enumerate_after_deletes; auto.
Qed.

Lemma by_latest_refuted :
  exists m k, views_agree m = true /\ views_sorted m = true /\
    (~ In k (enumerate 0 100 7 0%Z (md_delete k m)) /\ views_agree (md_delete k m) = true) /\
    In k (enumerate 0 100 7 0%Z (md_delete_by_latest k m)) /\ ~ In k (mem_abs (md_delete_by_latest k m)) /\
    views_agree (md_delete_by_latest k m) = false.
Proof.
  exists tie_witness, [1;2].
  destruct by_latest_witness as [A [B [C [D [E [F G]]]]]].
  split; [exact A|]. split; [exact B|]. split.
  - split; [|exact C]. rewrite D. cbn. intros [H|[H|[]]]; discriminate.
  - split; [rewrite G; cbn; auto|]. split; [|exact E].
    rewrite F. cbn. intros [H|[H|[]]]; discriminate.
Qed.

Lemma views_hypotheses_satisfiable :
  views_agree tie_witness = true /\ no_ties (md_delete [1;2] tie_witness) = true /\ no_ties tie_witness = false.
Proof. vm_compute. repeat split; reflexivity. Qed.

(* ------------------------------------------------------------------ one index name in two orgs *)
(* DeleteEmptyIndices keeps an index name of the org while a segmeta.json line of ANY org uses the
   name: index 7 exists in org 0 and org 1, all its segments are expired.  The pass for org 0 keeps
   the (empty) name because org 1's line still exists, the pass for org 1 removes that line; only
   the next pass for org 0 drops the name.  Each pass is idempotent on the store it finds. *)
Definition w_2o_store : store :=
  mkstore [mkseg [1;2;3;4] KLog 100 100 0 7 []; mkseg [1;2;5;4] KLog 100 100 1 7 []] []
    [[1;2;3;4]; [1;2;5;4]] []
    [[1]; [1;2]; [1;2;3]; [1;2;3;4]; [1;2;5]; [1;2;5;4]]
    [] None false [(0%Z, 7); (1%Z, 7)].

Definition cycle01 (hz : N) (st : store) : store := run idl idl idl hz 1 (run idl idl idl hz 0 st).

Lemma two_org_cycle_witness :
  wf w_2o_store = true /\
  segmeta (cycle01 500 w_2o_store) = [] /\
  vtables (cycle01 500 w_2o_store) = [(0%Z, 7)] /\
  vtables (cycle01 500 (cycle01 500 w_2o_store)) = [] /\
  run idl idl idl 500 0 (run idl idl idl 500 0 w_2o_store) = run idl idl idl 500 0 w_2o_store /\
  run idl idl idl 500 1 (cycle01 500 w_2o_store) = cycle01 500 w_2o_store.
Proof. vm_compute. repeat split; reflexivity. Qed.

(* RetentionPathsProofs.v — GetSegBaseDirFromFilename inverts the writer's key builder (C14). *)
From Coq Require Import List NArith Bool Arith Lia.
From SigM Require Import Base RetentionPaths.
From SigP Require Import BaseProofs.
Import ListNotations.
Open Scope N_scope.

Lemma p_has_prefix_nil : forall s, p_has_prefix s [] = true.
Proof. destruct s; reflexivity. Qed.

Lemma p_has_prefix_cons : forall x s y p, p_has_prefix (x :: s) (y :: p) = (x =? y) && p_has_prefix s p.
Proof. reflexivity. Qed.

Lemma p_has_prefix_app_long : forall p s t,
  (length p <= length s)%nat -> p_has_prefix (s ++ t) p = p_has_prefix s p.
Proof.
  induction p as [|y p IH]; intros s t H.
  - destruct s, t; reflexivity.
  - destruct s as [|x s]; simpl in H; [lia|].
    simpl. rewrite IH by lia. reflexivity.
Qed.

Lemma p_has_prefix_self_app : forall p t, p_has_prefix (p ++ t) p = true.
Proof.
  induction p as [|y p IH]; intros t; simpl.
  - destruct t; reflexivity.
  - rewrite N.eqb_refl, IH. reflexivity.
Qed.

Lemma index_of_unfold : forall s p,
  index_of s p = if p_has_prefix s p then Some O
                 else match s with
                      | [] => None
                      | _ :: t => match index_of t p with Some k => Some (S k) | None => None end
                      end.
Proof. destruct s; reflexivity. Qed.

(* an occurrence that ends exactly at the end of s and is the first one of s is the first one of s ++ t *)
Lemma index_of_app_at_end : forall p s t k,
  index_of s p = Some k -> (k + length p = length s)%nat -> index_of (s ++ t) p = Some k.
Proof.
  intros p s. induction s as [|x s IH]; intros t k H L.
  - rewrite index_of_unfold in H. simpl in L.
    assert (p = []) by (destruct p; simpl in L; [reflexivity|lia]). subst p.
    simpl in H. inversion H; subst. destruct t; reflexivity.
  - rewrite index_of_unfold in H. rewrite index_of_unfold.
    assert (LP : (length p <= length (x :: s))%nat) by lia.
    change ((x :: s) ++ t) with ((x :: s) ++ t).
    rewrite (p_has_prefix_app_long p (x :: s) t LP).
    destruct (p_has_prefix (x :: s) p) eqn:E.
    + exact H.
    + simpl app. destruct (index_of s p) as [k'|] eqn:E2; [|discriminate].
      inversion H; subst k. simpl in L.
      rewrite (IH t k' eq_refl) by lia. reflexivity.
Qed.

Lemma index_of_slash : forall a r,
  p_no_slash a = true -> index_of (a ++ PSL :: r) [PSL] = Some (length a).
Proof.
  induction a as [|x a IH]; intros r H.
  - simpl app. rewrite index_of_unfold. rewrite p_has_prefix_cons, p_has_prefix_nil. reflexivity.
  - simpl in H. apply andb_true_iff in H. destruct H as [Hx Ha].
    simpl app. rewrite index_of_unfold.
    assert (E : p_has_prefix (x :: a ++ PSL :: r) [PSL] = false).
    { rewrite p_has_prefix_cons. apply negb_true_iff in Hx. rewrite Hx. reflexivity. }
    rewrite E. rewrite (IH r Ha). reflexivity.
Qed.

Lemma skipn_app_exact : forall (a : pstr) c r, skipn (S (length a)) (a ++ c :: r) = r.
Proof. induction a as [|x a IH]; intros; simpl; [reflexivity|apply IH]. Qed.

Lemma skipn_app_len : forall (a b : pstr), skipn (length a) (a ++ b) = b.
Proof. induction a; intros; simpl; auto. Qed.

Lemma firstn_app_len : forall (a b : pstr), firstn (length a) (a ++ b) = a.
Proof. induction a; intros; simpl; [reflexivity|f_equal; auto]. Qed.

Lemma skip_parts_step : forall d a r,
  p_no_slash a = true ->
  skip_parts (S d) (a ++ PSL :: r)
  = match skip_parts d r with Some n => Some (S (length a) + n)%nat | None => None end.
Proof.
  intros d a r H. cbn [skip_parts]. rewrite (index_of_slash a r H). rewrite skipn_app_exact. reflexivity.
Qed.

Lemma skip_three : forall ix sid sfx rest,
  p_no_slash ix = true -> p_no_slash sid = true -> p_no_slash sfx = true ->
  skip_parts 3 (ix ++ PSL :: sid ++ PSL :: sfx ++ PSL :: rest)
  = Some (length (ix ++ PSL :: sid ++ PSL :: sfx ++ [PSL])).
Proof.
  intros ix sid sfx rest H1 H2 H3.
  rewrite (skip_parts_step 2 ix _ H1), (skip_parts_step 1 sid _ H2), (skip_parts_step 0 sfx _ H3).
  cbn [skip_parts]. f_equal. repeat (rewrite app_length; simpl). lia.
Qed.

(* main theorem: for every key the writer builds — any index name, stream id and segment number without '/',
   the index name "final" included — the helper returns the directory the writer created *)
Theorem seg_base_dir_inverts_key : forall data host ix sid sfx,
  root_ok data host = true ->
  p_no_slash ix = true -> p_no_slash sid = true -> p_no_slash sfx = true ->
  seg_base_dir (seg_key data host ix sid sfx) = Some (base_seg_dir data host ix sid sfx).
Proof.
  intros data host ix sid sfx R H1 H2 H3.
  unfold root_ok in R.
  destruct (index_of (data ++ host ++ p_final_sl) p_final_sl) as [k|] eqn:E; [|discriminate].
  apply Nat.eqb_eq in R. subst k.
  set (tail := ix ++ PSL :: sid ++ PSL :: sfx ++ PSL :: sfx).
  assert (K : seg_key data host ix sid sfx = (data ++ host ++ p_final_sl) ++ tail).
  { unfold seg_key, base_seg_dir, tail. repeat rewrite <- app_assoc. simpl.
    repeat (rewrite <- app_assoc; simpl). reflexivity. }
  assert (I : index_of (seg_key data host ix sid sfx) p_final_sl = Some (length (data ++ host))).
  { rewrite K. apply index_of_app_at_end; [exact E|].
    repeat rewrite app_length. simpl. lia. }
  unfold seg_base_dir, seg_base_dir_with. rewrite I.
  assert (P : (length (data ++ host) + length p_final_sl)%nat = length (data ++ host ++ p_final_sl)).
  { repeat rewrite app_length. lia. }
  rewrite P. rewrite K at 1. rewrite skipn_app_len.
  unfold tail. rewrite (skip_three ix sid sfx sfx H1 H2 H3).
  f_equal.
  assert (B : base_seg_dir data host ix sid sfx = (data ++ host ++ p_final_sl) ++ (ix ++ PSL :: sid ++ PSL :: sfx ++ [PSL])).
  { unfold base_seg_dir. repeat rewrite <- app_assoc. reflexivity. }
  rewrite B.
  assert (K2 : seg_key data host ix sid sfx = ((data ++ host ++ p_final_sl) ++ (ix ++ PSL :: sid ++ PSL :: sfx ++ [PSL])) ++ sfx).
  { unfold seg_key. rewrite B. reflexivity. }
  rewrite K2. rewrite <- app_length. apply firstn_app_len.
Qed.

(* the guard holds for every data path and host id without a directory called final in them; in particular it
   does not depend on the index name *)
Definition b_data_long : pstr := [47; 100; 97; 116; 97; 47].   (* /data/ *)
Definition b_host_id : pstr := [104; 46; 49].                  (* h.1 *)
Example root_ok_satisfiable : root_ok b_data_long b_host_id = true.
Proof. vm_compute. reflexivity. Qed.

Definition b_final : pstr := [102; 105; 110; 97; 108].     (* final *)
Definition b_data : pstr := [47; 100; 47].                  (* /d/ *)
Definition b_host : pstr := [104].                          (* h *)
Definition b_sid : pstr := [49; 48; 45; 48; 45; 55].        (* 10-0-7 *)
Definition b_zero : pstr := [48].                           (* 0 *)

(* the index called final, as coded: the directory the writer created *)
Example seg_base_dir_index_named_final :
  seg_base_dir (seg_key b_data b_host b_final b_sid b_zero) = Some (base_seg_dir b_data b_host b_final b_sid b_zero).
Proof. vm_compute. reflexivity. Qed.

(* anchored on the LAST "/final/": for the index called final the two occurrences overlap, the helper finds two
   parts instead of three and fails — the pass would leave the expired segment's files behind *)
Theorem seg_base_dir_last_refuted : exists data host ix sid sfx,
  root_ok data host = true /\ p_no_slash ix = true /\ p_no_slash sid = true /\ p_no_slash sfx = true /\
  seg_base_dir_last (seg_key data host ix sid sfx) <> Some (base_seg_dir data host ix sid sfx).
Proof.
  exists b_data, b_host, b_final, b_sid, b_zero.
  repeat split; try (vm_compute; reflexivity).
  intro H. vm_compute in H. discriminate H.
Qed.

(* without the guard the full statement is false for the code as well: a data path with a directory called final
   ("/final/x/") makes the helper return the host's whole final/ directory *)
Theorem seg_base_dir_unguarded_refuted : exists data host ix sid sfx,
  p_no_slash host = true /\ p_no_slash ix = true /\ p_no_slash sid = true /\ p_no_slash sfx = true /\
  seg_base_dir (seg_key data host ix sid sfx) = Some (data ++ host ++ p_final_sl) /\
  seg_base_dir (seg_key data host ix sid sfx) <> Some (base_seg_dir data host ix sid sfx).
Proof.
  exists [47; 102; 105; 110; 97; 108; 47; 120; 47], b_host, [105; 120], b_sid, b_zero.
  repeat split; try (vm_compute; reflexivity).
  intro H. vm_compute in H. discriminate H.
Qed.

(* ---- GetSegBaseDirFromSegKey (fix e0ecac0) ---- *)
Lemma take_comp_app : forall a t, p_no_slash a = true -> take_comp (a ++ PSL :: t) = a.
Proof.
  induction a as [|x a IH]; intros t H; simpl.
  - reflexivity.
  - simpl in H. apply andb_true_iff in H. destruct H as [Hx Ha].
    apply negb_true_iff in Hx. rewrite Hx. rewrite (IH t Ha). reflexivity.
Qed.

Lemma p_no_slash_rev : forall a, p_no_slash a = true -> p_no_slash (rev a) = true.
Proof.
  intros a H. unfold p_no_slash in *. rewrite forallb_forall in *.
  intros x Hx. apply H. apply in_rev. exact Hx.
Qed.

Lemma bytes_eqb_refl_p : forall a : pstr, bytes_eqb a a = true.
Proof. induction a; simpl; [reflexivity|]. unfold bytes_eqb in *. simpl. rewrite N.eqb_refl. exact IHa. Qed.

(* UNGUARDED: for every data path, host id, index name and stream id (no condition on them at all) and every
   non-empty segment number without '/', the helper the pass uses returns the directory the writer created *)
Theorem seg_base_dir_key_inverts_key : forall data host ix sid sfx,
  p_no_slash sfx = true -> sfx <> [] ->
  seg_base_dir_key (seg_key data host ix sid sfx) = Some (base_seg_dir data host ix sid sfx).
Proof.
  intros data host ix sid sfx H NE.
  set (pre := data ++ host ++ p_final_sl ++ ix ++ PSL :: sid).
  assert (B : base_seg_dir data host ix sid sfx = pre ++ PSL :: sfx ++ [PSL]).
  { unfold base_seg_dir, pre. repeat rewrite <- app_assoc. reflexivity. }
  assert (K : seg_key data host ix sid sfx = (pre ++ PSL :: sfx ++ [PSL]) ++ sfx).
  { unfold seg_key. rewrite B. reflexivity. }
  assert (Hr : p_no_slash (rev sfx) = true) by (apply p_no_slash_rev; exact H).
  assert (R : rev (seg_key data host ix sid sfx) = rev sfx ++ PSL :: (rev sfx ++ PSL :: rev pre)).
  { rewrite K. rewrite rev_app_distr. f_equal.
    rewrite rev_app_distr. simpl. rewrite rev_app_distr. simpl.
    repeat rewrite <- app_assoc. reflexivity. }
  unfold seg_base_dir_key. rewrite R.
  rewrite (take_comp_app (rev sfx) _ Hr).
  rewrite skipn_app_len.
  destruct (rev sfx) as [|c rs] eqn:E.
  { exfalso. apply NE. rewrite <- (rev_involutive sfx), E. reflexivity. }
  assert (Hc : (c =? PSL) = false).
  { simpl in Hr. apply andb_true_iff in Hr. destruct Hr as [Hc _]. apply negb_true_iff in Hc. exact Hc. }
  cbn [app]. cbn [drop_slashes]. rewrite Hc.
  change (c :: rs ++ PSL :: rev pre) with ((c :: rs) ++ PSL :: rev pre).
  rewrite <- E in *. rewrite (take_comp_app (rev sfx) _ Hr).
  rewrite bytes_eqb_refl_p.
  rewrite E. rewrite <- E.
  f_equal. rewrite rev_length. rewrite K at 1. rewrite app_length.
  replace (length (pre ++ PSL :: sfx ++ [PSL]) + length sfx - length sfx)%nat with (length (pre ++ PSL :: sfx ++ [PSL])) by lia.
  rewrite K, B. apply firstn_app_len.
Qed.

(* the helper the two callers used before the fix (first "/final/"), on the same keys: false without the guard *)
Theorem seg_base_dir_prefix_unguarded_refuted : exists data host ix sid sfx,
  p_no_slash host = true /\ p_no_slash ix = true /\ p_no_slash sid = true /\ p_no_slash sfx = true /\ sfx <> [] /\
  seg_base_dir_key (seg_key data host ix sid sfx) = Some (base_seg_dir data host ix sid sfx) /\
  seg_base_dir (seg_key data host ix sid sfx) = Some (data ++ host ++ p_final_sl) /\
  seg_base_dir (seg_key data host ix sid sfx) <> Some (base_seg_dir data host ix sid sfx).
Proof.
  exists [47; 102; 105; 110; 97; 108; 47; 120; 47], b_host, [105; 120], b_sid, b_zero.
  repeat split; try (vm_compute; reflexivity); try discriminate;
    try (intro H; vm_compute in H; discriminate H).
Qed.

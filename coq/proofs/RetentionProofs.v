(* RetentionProofs.v — lemmas and main theorems about the retention model. *)
From Coq Require Import Lia Permutation.
From Coq Require Import ZifyN ZifyNat ZifyBool.
From SigM Require Import Base Retention.
From SigP Require Import BaseProofs.
Open Scope N_scope.

(* ------------------------------------------------------------------ paths *)
Lemma path_eqb_eq (p q : path) : path_eqb p q = true <-> p = q.
Proof.
  unfold path_eqb. revert q; induction p as [|a p IH]; intros [|b q]; cbn; split; intro H; try discriminate; auto.
  - apply andb_true_iff in H as [H1 H2]. apply N.eqb_eq in H1. apply IH in H2. congruence.
  - inversion H; subst. rewrite N.eqb_refl. cbn. apply IH. reflexivity.
Qed.

Lemma path_eqb_refl p : path_eqb p p = true.
Proof. apply path_eqb_eq. reflexivity. Qed.

Lemma path_eqb_neq (p q : path) : path_eqb p q = false <-> p <> q.
Proof.
  split; intros H.
  - intros E. apply path_eqb_eq in E. congruence.
  - destruct (path_eqb p q) eqn:E; auto. apply path_eqb_eq in E. contradiction.
Qed.

Lemma path_eqb_sym p q : path_eqb p q = path_eqb q p.
Proof.
  destruct (path_eqb p q) eqn:E.
  - apply path_eqb_eq in E. subst. symmetry. apply path_eqb_refl.
  - symmetry. apply path_eqb_neq. apply path_eqb_neq in E. congruence.
Qed.

Lemma is_prefix_refl p : is_prefix p p = true.
Proof. induction p as [|a p IH]; cbn; auto. rewrite N.eqb_refl. exact IH. Qed.

Lemma is_prefix_trans p : forall q r, is_prefix p q = true -> is_prefix q r = true -> is_prefix p r = true.
Proof.
  induction p as [|a p IH]; intros [|b q] [|c r] H1 H2; cbn in *; try discriminate; auto.
  apply andb_true_iff in H1 as [E1 H1]. apply andb_true_iff in H2 as [E2 H2].
  apply N.eqb_eq in E1, E2. subst. rewrite N.eqb_refl. cbn. eapply IH; eauto.
Qed.

Lemma is_prefix_removelast p : is_prefix (removelast p) p = true.
Proof.
  induction p as [|a p IH]; cbn; auto.
  destruct p as [|b p]; auto. cbn [is_prefix]. rewrite N.eqb_refl. exact IH.
Qed.

Lemma is_prefix_length p : forall q, is_prefix p q = true -> (length p <= length q)%nat.
Proof.
  induction p as [|a p IH]; intros [|b q] H; cbn in *; try discriminate; try lia.
  apply andb_true_iff in H as [_ H]. apply IH in H. lia.
Qed.

Lemma is_prefix_antisym p : forall q, is_prefix p q = true -> is_prefix q p = true -> p = q.
Proof.
  induction p as [|a p IH]; intros [|b q] H1 H2; cbn in *; try discriminate; auto.
  apply andb_true_iff in H1 as [E1 H1]. apply andb_true_iff in H2 as [_ H2].
  apply N.eqb_eq in E1. subst. f_equal. apply IH; auto.
Qed.

Lemma removelast_length (p : path) : p <> [] -> length (removelast p) = pred (length p).
Proof.
  induction p as [|a p IH]; intros H; [congruence|].
  destruct p as [|b p]; auto. cbn [removelast length] in *. rewrite IH by discriminate. reflexivity.
Qed.

Lemma mem_path_In p ds : mem_path p ds = true <-> In p ds.
Proof.
  unfold mem_path. rewrite existsb_exists. split.
  - intros [x [Hx E]]. apply path_eqb_eq in E. subst. exact Hx.
  - intros H. exists p. split; auto. apply path_eqb_refl.
Qed.

Lemma mem_path_false p ds : mem_path p ds = false <-> ~ In p ds.
Proof.
  split; intros H.
  - intros HI. apply mem_path_In in HI. congruence.
  - destruct (mem_path p ds) eqn:E; auto. apply mem_path_In in E. contradiction.
Qed.

Lemma In_rm_tree q p ds : In q (rm_tree p ds) <-> In q ds /\ is_prefix p q = false.
Proof. unfold rm_tree. rewrite filter_In. rewrite negb_true_iff. tauto. Qed.

Lemma In_del_path q p l : In q (del_path p l) <-> In q l /\ p <> q.
Proof. unfold del_path. rewrite filter_In, negb_true_iff, path_eqb_neq. tauto. Qed.

Lemma apart_sym p q : apart p q = apart q p.
Proof. unfold apart. apply andb_comm. Qed.

Lemma apart_neq p q : apart p q = true -> p <> q.
Proof.
  unfold apart. intros H E. subst. rewrite is_prefix_refl in H. discriminate.
Qed.

(* a strict ancestor of t cannot be a directory that is apart from t *)
Lemma apart_prefix d t p : apart d t = true -> is_prefix p t = true -> p <> d.
Proof.
  unfold apart. intros H Hp E. subst. rewrite Hp in H. discriminate.
Qed.

Lemma apart_prefix_of d t p : apart d t = true -> is_prefix t p = true -> is_prefix p d = false.
Proof.
  unfold apart. intros H Hp. destruct (is_prefix p d) eqn:E; auto.
  rewrite (is_prefix_trans _ _ _ Hp E) in H. rewrite andb_false_r in H. discriminate.
Qed.

Lemma expired_spec_early hz org s : expired hz org s = true <-> s_org s = org /\ latest_ms s <= hz.
Proof. unfold expired. rewrite andb_true_iff, Z.eqb_eq, N.leb_le. tauto. Qed.

(* ------------------------------------------------------------------ projections of apply_effs *)
Definition step_dirs (ds : list path) (e : eff) : list path :=
  match e with
  | ERm p => rm_tree p ds
  | ERmEmpty p => if dir_empty p ds then del_path p ds else ds
  | _ => ds
  end.
Definition step_mem (m : list path) (e : eff) : list path :=
  match e with EMemDel p => del_path p m | _ => m end.
Definition step_mmem (m : list path) (e : eff) : list path :=
  match e with EMMemDel p => del_path p m | _ => m end.
Definition step_seg (l : list seg) (e : eff) : list seg :=
  match e with ESegSet k => k | ESegRemove => [] | _ => l end.
Definition step_mm (l : list seg) (e : eff) : list seg :=
  match e with EMmSet k => k | EMmRemove => [] | _ => l end.
Definition step_vt (v : list (Z * N)) (e : eff) : list (Z * N) :=
  match e with
  | EVtTrunc o => other_orgs o v
  | EVtSet o l => other_orgs o v ++ map (pair o) l
  | _ => v
  end.

Lemma apply_effs_cons e es st : apply_effs (e :: es) st = apply_effs es (apply_eff st e).
Proof. reflexivity. Qed.

Lemma apply_effs_app a b st : apply_effs (a ++ b) st = apply_effs b (apply_effs a st).
Proof. unfold apply_effs. apply fold_left_app. Qed.

Lemma dirs_apply es : forall st, dirs (apply_effs es st) = fold_left step_dirs es (dirs st).
Proof. induction es as [|e es IH]; intros st; auto. rewrite apply_effs_cons, IH. destruct e; reflexivity. Qed.
Lemma mem_apply es : forall st, mem (apply_effs es st) = fold_left step_mem es (mem st).
Proof. induction es as [|e es IH]; intros st; auto. rewrite apply_effs_cons, IH. destruct e; reflexivity. Qed.
Lemma mmem_apply es : forall st, mmem (apply_effs es st) = fold_left step_mmem es (mmem st).
Proof. induction es as [|e es IH]; intros st; auto. rewrite apply_effs_cons, IH. destruct e; reflexivity. Qed.
Lemma segmeta_apply es : forall st, segmeta (apply_effs es st) = fold_left step_seg es (segmeta st).
Proof. induction es as [|e es IH]; intros st; auto. rewrite apply_effs_cons, IH. destruct e; reflexivity. Qed.
Lemma mmeta_apply es : forall st, mmeta (apply_effs es st) = fold_left step_mm es (mmeta st).
Proof. induction es as [|e es IH]; intros st; auto. rewrite apply_effs_cons, IH. destruct e; reflexivity. Qed.
Lemma vtables_apply es : forall st, vtables (apply_effs es st) = fold_left step_vt es (vtables st).
Proof. induction es as [|e es IH]; intros st; auto. rewrite apply_effs_cons, IH. destruct e; reflexivity. Qed.
Lemma unrot_apply es : forall st, unrot (apply_effs es st) = unrot st.
Proof. induction es as [|e es IH]; intros st; auto. rewrite apply_effs_cons, IH. destruct e; reflexivity. Qed.

(* ------------------------------------------------------------------ directories under a list of effects *)
Lemma step_dirs_incl ds e : incl (step_dirs ds e) ds.
Proof.
  intros q H. destruct e; cbn in H; auto.
  - apply In_rm_tree in H. tauto.
  - destruct (dir_empty p ds); auto. apply In_del_path in H. tauto.
Qed.

Lemma fold_dirs_incl es : forall ds, incl (fold_left step_dirs es ds) ds.
Proof.
  induction es as [|e es IH]; intros ds; cbn; [apply incl_refl|].
  eapply incl_tran; [apply IH|apply step_dirs_incl].
Qed.

(* an effect that cannot remove directory d *)
Definition safe_for (d : path) (e : eff) : Prop :=
  match e with
  | ERm p => is_prefix p d = false
  | ERmEmpty p => p <> d
  | _ => True
  end.

Lemma fold_dirs_safe d es : forall ds, Forall (safe_for d) es -> In d ds -> In d (fold_left step_dirs es ds).
Proof.
  induction es as [|e es IH]; intros ds HF Hd; cbn; auto.
  inversion HF as [|? ? He HF']; subst. apply IH; auto.
  destruct e; cbn in *; auto.
  - apply In_rm_tree. auto.
  - destruct (dir_empty p ds); auto. apply In_del_path. auto.
Qed.

(* once RemoveAll(p) has run nothing below p is left, whatever follows *)
Lemma fold_dirs_removed p q es1 es2 ds :
  is_prefix p q = true -> ~ In q (fold_left step_dirs (es1 ++ ERm p :: es2) ds).
Proof.
  intros Hp H. rewrite fold_left_app in H. cbn [fold_left] in H.
  apply fold_dirs_incl in H. cbn in H. apply In_rm_tree in H. destruct H as [_ H]. congruence.
Qed.

(* effects that touch directories and in-memory metadata only *)
Definition dir_only (e : eff) : Prop :=
  match e with ERm _ | ERmEmpty _ | EMemDel _ | EMMemDel _ => True | _ => False end.

Lemma fold_seg_dir_only es : forall l, Forall dir_only es -> fold_left step_seg es l = l.
Proof. induction es as [|e es IH]; intros l H; cbn; auto. inversion H; subst. rewrite <- (IH l) at 2 by auto. destruct e; cbn in *; tauto || auto. Qed.
Lemma fold_mm_dir_only es : forall l, Forall dir_only es -> fold_left step_mm es l = l.
Proof. induction es as [|e es IH]; intros l H; cbn; auto. inversion H; subst. rewrite <- (IH l) at 2 by auto. destruct e; cbn in *; tauto || auto. Qed.
Lemma fold_vt_dir_only es : forall l, Forall dir_only es -> fold_left step_vt es l = l.
Proof. induction es as [|e es IH]; intros l H; cbn; auto. inversion H; subst. rewrite <- (IH l) at 2 by auto. destruct e; cbn in *; tauto || auto. Qed.

(* effects that leave the directory set alone *)
Definition nodir (e : eff) : Prop :=
  match e with ERm _ | ERmEmpty _ => False | _ => True end.

Lemma fold_dirs_nodir es : forall ds, Forall nodir es -> fold_left step_dirs es ds = ds.
Proof. induction es as [|e es IH]; intros l H; cbn; auto. inversion H; subst. rewrite <- (IH l) at 2 by auto. destruct e; cbn in *; tauto || auto. Qed.

Definition nomem (e : eff) : Prop := match e with EMemDel _ => False | _ => True end.
Definition nommem (e : eff) : Prop := match e with EMMemDel _ => False | _ => True end.
Definition noseg (e : eff) : Prop := match e with ESegSet _ | ESegRemove => False | _ => True end.
Definition nomm (e : eff) : Prop := match e with EMmSet _ | EMmRemove => False | _ => True end.
Definition novt (e : eff) : Prop := match e with EVtTrunc _ | EVtSet _ _ => False | _ => True end.

Lemma fold_mem_nomem es : forall l, Forall nomem es -> fold_left step_mem es l = l.
Proof. induction es as [|e es IH]; intros l H; cbn; auto. inversion H; subst. rewrite <- (IH l) at 2 by auto. destruct e; cbn in *; tauto || auto. Qed.
Lemma fold_mmem_nommem es : forall l, Forall nommem es -> fold_left step_mmem es l = l.
Proof. induction es as [|e es IH]; intros l H; cbn; auto. inversion H; subst. rewrite <- (IH l) at 2 by auto. destruct e; cbn in *; tauto || auto. Qed.
Lemma fold_seg_noseg es : forall l, Forall noseg es -> fold_left step_seg es l = l.
Proof. induction es as [|e es IH]; intros l H; cbn; auto. inversion H; subst. rewrite <- (IH l) at 2 by auto. destruct e; cbn in *; tauto || auto. Qed.
Lemma fold_mm_nomm es : forall l, Forall nomm es -> fold_left step_mm es l = l.
Proof. induction es as [|e es IH]; intros l H; cbn; auto. inversion H; subst. rewrite <- (IH l) at 2 by auto. destruct e; cbn in *; tauto || auto. Qed.
Lemma fold_vt_novt es : forall l, Forall novt es -> fold_left step_vt es l = l.
Proof. induction es as [|e es IH]; intros l H; cbn; auto. inversion H; subst. rewrite <- (IH l) at 2 by auto. destruct e; cbn in *; tauto || auto. Qed.

Lemma Forall_map_eff {A} (P : eff -> Prop) (f : A -> eff) l : (forall x, P (f x)) -> Forall P (map f l).
Proof. intros H. apply Forall_forall. intros e He. apply in_map_iff in He as [x [E _]]. subst. apply H. Qed.

(* RemoveAll over a list of directories *)
Lemma fold_dirs_rm {A} (f : A -> path) l : forall ds q,
  In q (fold_left step_dirs (map (fun s => ERm (f s)) l) ds) <-> In q ds /\ forall s, In s l -> is_prefix (f s) q = false.
Proof.
  induction l as [|a l IH]; intros ds q; cbn.
  - split; [intros H; split; auto; intros s []|tauto].
  - rewrite IH, In_rm_tree. split.
    + intros [[H1 H2] H3]. split; auto. intros s [E|Hs]; subst; auto.
    + intros [H1 H2]. repeat split; auto.
Qed.

Lemma fold_mem_del {A} (f : A -> path) l : forall m q,
  In q (fold_left step_mem (map (fun s => EMemDel (f s)) l) m) <-> In q m /\ forall s, In s l -> f s <> q.
Proof.
  induction l as [|a l IH]; intros m q; cbn.
  - split; [intros H; split; auto; intros s []|tauto].
  - rewrite IH, In_del_path. split.
    + intros [[H1 H2] H3]. split; auto. intros s [E|Hs]; subst; auto.
    + intros [H1 H2]. repeat split; auto.
Qed.

Lemma fold_mmem_del {A} (f : A -> path) l : forall m q,
  In q (fold_left step_mmem (map (fun s => EMMemDel (f s)) l) m) <-> In q m /\ forall s, In s l -> f s <> q.
Proof.
  induction l as [|a l IH]; intros m q; cbn.
  - split; [intros H; split; auto; intros s []|tauto].
  - rewrite IH, In_del_path. split.
    + intros [[H1 H2] H3]. split; auto. intros s [E|Hs]; subst; auto.
    + intros [H1 H2]. repeat split; auto.
Qed.

Lemma filter_true {A} (l : list A) : filter (fun _ => true) l = l.
Proof. induction l; cbn; congruence. Qed.

Lemma keep_of_nil l : keep_of [] l = l.
Proof. unfold keep_of, in_sel. cbn. apply filter_true. Qed.

Lemma in_sel_true sel s : in_sel sel s = true <-> exists x, In x sel /\ s_dir x = s_dir s.
Proof.
  unfold in_sel. rewrite existsb_exists. split; intros [x [H E]]; exists x; split; auto.
  - apply path_eqb_eq. exact E.
  - apply path_eqb_eq. exact E.
Qed.

Lemma in_sel_self sel s : In s sel -> in_sel sel s = true.
Proof. intros H. apply in_sel_true. eauto. Qed.

(* ------------------------------------------------------------------ the log half of the pass *)
Section PassLemmas.
  Variable ord : list seg -> list seg.
  Variable ordp : list path -> list path.
  Variable ordn : list N -> list N.
  Hypothesis ord_perm : forall l, Permutation (ord l) l.
  Hypothesis ordp_perm : forall l, Permutation (ordp l) l.
  Hypothesis ordn_perm : forall l, Permutation (ordn l) l.

  Lemma ord_In s l : In s (ord l) <-> In s l.
  Proof. split; apply Permutation_in; [apply ord_perm|apply Permutation_sym, ord_perm]. Qed.

  Notation log_effs := (log_effs ord).
  Notation met_effs := (met_effs ord ordp).
  Notation vt_effs := (vt_effs ordn).
  Notation pass_effs := (pass_effs ord ordp ordn).
  Notation run := (run ord ordp ordn).
  Notation interrupted := (interrupted ord ordp ordn).

  Lemma log_effs_nil hz org st : sel_log hz org st = [] -> log_effs hz org st = [].
  Proof. unfold Retention.log_effs, log_effs_gen. intros ->. reflexivity. Qed.

  Definition log_tail (hz : N) (org : Z) (st : store) : list eff :=
    match keep_of (sel_log hz org st) (segmeta st) with
    | [] => [ESegRemove]
    | keep => [ESegTmp true keep; ESegSet keep]
    end.

  Lemma log_effs_shape hz org st : sel_log hz org st <> [] ->
    log_effs hz org st =
      map (fun s => ERm (s_dir s)) (ord (sel_log hz org st))
      ++ map (fun s => EMemDel (s_dir s)) (ord (sel_log hz org st)) ++ log_tail hz org st.
  Proof. unfold Retention.log_effs, log_effs_gen, tmp_written, log_tail. destruct (sel_log hz org st); [congruence|reflexivity]. Qed.

  Lemma log_tail_nodir hz org st : Forall nodir (log_tail hz org st) /\ Forall nomem (log_tail hz org st).
  Proof. unfold log_tail. destruct (keep_of _ _); split; repeat constructor. Qed.

  Lemma log_dirs hz org st q :
    In q (dirs (apply_effs (log_effs hz org st) st)) <->
    In q (dirs st) /\ forall s, In s (sel_log hz org st) -> is_prefix (s_dir s) q = false.
  Proof.
    destruct (sel_log hz org st) eqn:E.
    - rewrite log_effs_nil by exact E. cbn. split; [intros H; split; auto; intros s []|tauto].
    - rewrite log_effs_shape by congruence. rewrite E. rewrite dirs_apply, !fold_left_app.
      rewrite (fold_dirs_nodir (log_tail hz org st)) by apply log_tail_nodir.
      rewrite (fold_dirs_nodir (map (fun s => EMemDel (s_dir s)) _)) by (apply Forall_map_eff; intros; exact I).
      rewrite fold_dirs_rm. split; intros [H1 H2]; split; auto; intros x Hx; apply H2; apply ord_In; exact Hx.
  Qed.

  Lemma log_mem hz org st q :
    In q (mem (apply_effs (log_effs hz org st) st)) <->
    In q (mem st) /\ forall s, In s (sel_log hz org st) -> s_dir s <> q.
  Proof.
    destruct (sel_log hz org st) eqn:E.
    - rewrite log_effs_nil by exact E. cbn. split; [intros H; split; auto; intros s []|tauto].
    - rewrite log_effs_shape by congruence. rewrite E. rewrite mem_apply, !fold_left_app.
      rewrite (fold_mem_nomem (log_tail hz org st)) by apply log_tail_nodir.
      rewrite fold_mem_del.
      rewrite (fold_mem_nomem (map (fun s => ERm (s_dir s)) _)) by (apply Forall_map_eff; intros; exact I).
      split; intros [H1 H2]; split; auto; intros x Hx; apply H2; apply ord_In; exact Hx.
  Qed.

  Lemma log_segmeta hz org st :
    segmeta (apply_effs (log_effs hz org st) st) = keep_of (sel_log hz org st) (segmeta st).
  Proof.
    destruct (sel_log hz org st) eqn:E.
    - rewrite log_effs_nil by exact E. cbn. symmetry. apply keep_of_nil.
    - rewrite log_effs_shape by congruence. rewrite segmeta_apply, !fold_left_app.
      rewrite (fold_seg_noseg (map (fun s => ERm (s_dir s)) _)) by (apply Forall_map_eff; intros; exact I).
      rewrite (fold_seg_noseg (map (fun s => EMemDel (s_dir s)) _)) by (apply Forall_map_eff; intros; exact I).
      unfold log_tail. rewrite E. destruct (keep_of (s :: l) (segmeta st)); reflexivity.
  Qed.

  Lemma log_effs_frame hz org st :
    Forall nommem (log_effs hz org st) /\ Forall nomm (log_effs hz org st) /\ Forall novt (log_effs hz org st).
  Proof.
    destruct (sel_log hz org st) eqn:E.
    - rewrite log_effs_nil by exact E. repeat split; constructor.
    - rewrite log_effs_shape by congruence.
      assert (T : Forall nommem (log_tail hz org st) /\ Forall nomm (log_tail hz org st) /\ Forall novt (log_tail hz org st))
        by (unfold log_tail; destruct (keep_of _ _); repeat split; repeat constructor).
      repeat split; repeat (apply Forall_app; split); try apply T; apply Forall_map_eff; intros; exact I.
  Qed.

  Lemma log_frame hz org st :
    let st1 := apply_effs (log_effs hz org st) st in
    mmeta st1 = mmeta st /\ mmem st1 = mmem st /\ vtables st1 = vtables st /\ unrot st1 = unrot st.
  Proof.
    cbn. rewrite mmeta_apply, mmem_apply, vtables_apply, unrot_apply.
    destruct (log_effs_frame hz org st) as [A [B C]].
    rewrite fold_mm_nomm, fold_mmem_nommem, fold_vt_novt by assumption. auto.
  Qed.

  (* ---------------- the metrics half ---------------- *)
  Lemma clean_parents_anc fuel : forall p ds t, In t (clean_parents fuel p ds) -> is_prefix t p = true /\ t <> p.
  Proof.
    induction fuel as [|f IH]; intros p ds t H; cbn in H; [contradiction|].
    destruct (removelast p) as [|a r] eqn:E; [contradiction|].
    assert (Hp : p <> []) by (intros ->; discriminate).
    assert (Hl : length (a :: r) = pred (length p)) by (rewrite <- E; apply removelast_length; exact Hp).
    assert (Hpre : is_prefix (a :: r) p = true) by (rewrite <- E; apply is_prefix_removelast).
    destruct (dir_empty (a :: r) ds); [|contradiction].
    destruct H as [H|H].
    - subst t. split; auto. intros Heq. rewrite Heq in Hl. destruct p; cbn in *; [congruence|lia].
    - apply IH in H as [H1 H2]. split; [eapply is_prefix_trans; eauto|].
      intros Heq. subst t. apply is_prefix_length in H1. destruct p; cbn in *; [congruence|lia].
  Qed.

  Lemma climb_start_prefix fuel : forall p ds, is_prefix (climb_start fuel p ds) p = true.
  Proof.
    induction fuel as [|f IH]; intros p ds; cbn; [apply is_prefix_refl|].
    destruct (removelast p) as [|a r] eqn:E; [apply is_prefix_refl|].
    destruct (mem_path (a :: r) ds); [apply is_prefix_refl|].
    eapply is_prefix_trans; [apply IH|]. rewrite <- E. apply is_prefix_removelast.
  Qed.

  Lemma clean_parents_from_missing_anc fuel p ds t :
    In t (clean_parents_from_missing fuel p ds) -> is_prefix t p = true /\ t <> p.
  Proof.
    unfold clean_parents_from_missing. intros H. apply clean_parents_anc in H as [H1 H2].
    pose proof (climb_start_prefix fuel p ds) as H3. split; [eapply is_prefix_trans; eauto|].
    intros ->. apply H2. apply is_prefix_antisym; auto.
  Qed.

  Arguments clean_parents_from_missing : simpl never.
  Notation met_dir_phase := (Retention.met_dir_phase clean_parents_from_missing).
  Notation tt_phase := (Retention.tt_phase clean_parents_from_missing).

  Definition eff_within (T : list path) (e : eff) : Prop :=
    match e with
    | ERm p => In p T
    | ERmEmpty p => exists t, In t T /\ is_prefix p t = true /\ p <> t
    | EMMemDel _ => True
    | _ => False
    end.

  Lemma eff_within_mono T T' e : incl T T' -> eff_within T e -> eff_within T' e.
  Proof. intros HI. destruct e; cbn; auto. intros [t [H1 H2]]. exists t. split; auto. Qed.

  Lemma eff_within_dir_only T e : eff_within T e -> dir_only e.
  Proof. destruct e; cbn; auto. Qed.

  Lemma eff_within_safe T d e : (forall t, In t T -> apart d t = true) -> eff_within T e -> safe_for d e.
  Proof.
    intros HA. destruct e; cbn; auto.
    - intros H. apply HA in H. unfold apart in H. apply andb_true_iff in H as [_ H]. apply negb_true_iff in H. exact H.
    - intros [t [H1 [H2 H3]]]. eapply apart_prefix; eauto.
  Qed.

  Lemma Forall_within_mono T T' es : incl T T' -> Forall (eff_within T) es -> Forall (eff_within T') es.
  Proof. intros HI H. eapply Forall_impl; [|exact H]. intros e. apply eff_within_mono. exact HI. Qed.

  Lemma parents_within T p fuel ds : In p T -> Forall (eff_within T) (map ERmEmpty (clean_parents_from_missing fuel p ds)).
  Proof.
    intros Hp. apply Forall_forall. intros e He. apply in_map_iff in He as [t [<- Ht]].
    apply clean_parents_from_missing_anc in Ht as [H1 H2]. cbn. exists p. auto.
  Qed.

  Lemma met_dir_phase_within sel entries : forall ds,
    Forall (eff_within (map s_dir (filter (in_sel sel) entries))) (fst (met_dir_phase sel entries ds)).
  Proof.
    induction entries as [|e r IH]; intros ds; cbn; [constructor|].
    destruct (in_sel sel e) eqn:Es.
    - match goal with |- context [met_dir_phase sel r ?d] => specialize (IH d); destruct (met_dir_phase sel r d) as [es ds3] end.
      cbn in *. constructor; [cbn; auto|]. apply Forall_app. split.
      + apply parents_within. cbn. auto.
      + eapply Forall_within_mono; [|exact IH]. intros x Hx. cbn. auto.
    - apply IH.
  Qed.

  Lemma met_dir_phase_has sel entries : forall ds e, In e entries -> in_sel sel e = true ->
    In (ERm (s_dir e)) (fst (met_dir_phase sel entries ds)).
  Proof.
    induction entries as [|a r IH]; intros ds e He Hs; [contradiction|]. cbn.
    destruct He as [->|He].
    - rewrite Hs. match goal with |- context [met_dir_phase sel r ?d] => destruct (met_dir_phase sel r d) as [es ds3] end. cbn. auto.
    - destruct (in_sel sel a).
      + match goal with |- context [met_dir_phase sel r ?d] => specialize (IH d e He Hs); destruct (met_dir_phase sel r d) as [es ds3] end.
        cbn in *. right. apply in_or_app. auto.
      + apply IH; auto.
  Qed.

  Lemma tt_phase_within tts : forall ds, Forall (eff_within tts) (tt_phase tts ds).
  Proof.
    induction tts as [|t r IH]; intros ds; cbn; [constructor|].
    constructor; [cbn; auto|]. apply Forall_app. split.
    - apply parents_within. cbn. auto.
    - eapply Forall_within_mono; [|apply IH]. intros x Hx. cbn. auto.
  Qed.

  Definition met_keep hz org st := keep_of (sel_met hz org st) (mmeta st).
  Definition met_removed hz org st := filter (in_sel (sel_met hz org st)) (mmeta st).
  Definition met_tts hz org st :=
    filter (fun t => negb (mem_path t (map s_tt (met_keep hz org st)))) (ordp (dedup (map s_tt (met_removed hz org st)))).
  Definition met_tail hz org st : list eff :=
    match met_keep hz org st with [] => [EMmRemove] | keep => [EMmTmp; EMmSet keep] end.

  Lemma met_effs_nil hz org st : sel_met hz org st = [] -> met_effs hz org st = [].
  Proof. unfold Retention.met_effs. intros ->. reflexivity. Qed.

  Lemma met_effs_shape hz org st : sel_met hz org st <> [] ->
    met_effs hz org st =
      map (fun s => EMMemDel (s_dir s)) (ord (sel_met hz org st))
      ++ fst (met_dir_phase (sel_met hz org st) (mmeta st) (dirs st))
      ++ tt_phase (met_tts hz org st) (snd (met_dir_phase (sel_met hz org st) (mmeta st) (dirs st)))
      ++ met_tail hz org st.
  Proof.
    unfold Retention.met_effs, met_tail, met_tts, met_keep, met_removed.
    destruct (sel_met hz org st) eqn:E; [congruence|]. intros _.
    destruct (met_dir_phase (s :: l) (mmeta st) (dirs st)) as [des ds1]. cbn [fst snd].
    destruct (keep_of (s :: l) (mmeta st)); reflexivity.
  Qed.

  (* the targets of the directory removals of the metrics half *)
  Definition met_targets hz org st : list path :=
    map s_dir (sel_met hz org st) ++ map s_tt (mmeta st).

  Lemma dedup_In p l : In p (dedup l) -> In p l.
  Proof.
    induction l as [|a r IH]; cbn; auto. destruct (mem_path a r); cbn; intros H; [right; auto|].
    destruct H; auto.
  Qed.

  Lemma dedup_In_conv p l : In p l -> In p (dedup l).
  Proof.
    induction l as [|a r IH]; cbn; auto. intros [->|H].
    - destruct (mem_path p r) eqn:E; [apply IH; apply mem_path_In; exact E|cbn; auto].
    - destruct (mem_path a r); [auto|cbn; auto].
  Qed.

  Lemma met_tts_incl hz org st : incl (met_tts hz org st) (map s_tt (mmeta st)).
  Proof.
    intros t H. unfold met_tts in H. apply filter_In in H as [H _].
    apply (Permutation_in _ (ordp_perm _)) in H. apply dedup_In in H.
    apply in_map_iff in H as [s [<- Hs]]. apply in_map. unfold met_removed in Hs. apply filter_In in Hs. tauto.
  Qed.

  Lemma met_removed_dirs hz org st : incl (map s_dir (met_removed hz org st)) (map s_dir (sel_met hz org st)).
  Proof.
    intros d H. apply in_map_iff in H as [s [<- Hs]]. unfold met_removed in Hs. apply filter_In in Hs as [_ Hs].
    apply in_sel_true in Hs as [x [Hx E]]. rewrite <- E. apply in_map. exact Hx.
  Qed.

  Lemma met_tail_props hz org st :
    let t := met_tail hz org st in
    Forall nodir t /\ Forall nomem t /\ Forall nommem t /\ Forall noseg t /\ Forall novt t.
  Proof. unfold met_tail. destruct (met_keep hz org st); cbn; repeat split; repeat constructor. Qed.

  Lemma within_props T es : Forall (eff_within T) es -> Forall noseg es /\ Forall nomm es /\ Forall novt es /\ Forall nomem es \/ True.
  Proof. auto. Qed.

  Lemma within_noseg T es : Forall (eff_within T) es -> Forall noseg es /\ Forall nomm es /\ Forall novt es.
  Proof.
    intros H. repeat split; (eapply Forall_impl; [|exact H]); intros e He; destruct e; cbn in *; auto.
  Qed.

  (* every effect of the metrics half is harmless for a directory apart from its targets *)
  Lemma met_effs_safe hz org st d :
    (forall t, In t (met_targets hz org st) -> apart d t = true) -> Forall (safe_for d) (met_effs hz org st).
  Proof.
    intros HA. destruct (sel_met hz org st) eqn:E.
    - rewrite met_effs_nil by exact E. constructor.
    - rewrite met_effs_shape by congruence.
      repeat (apply Forall_app; split).
      + apply Forall_map_eff. intros; exact I.
      + eapply Forall_impl; [|apply met_dir_phase_within]. intros e He. eapply eff_within_safe; [|exact He].
        intros t Ht. apply HA. unfold met_targets. apply in_or_app. left. exact (met_removed_dirs hz org st t Ht).
      + eapply Forall_impl; [|apply tt_phase_within]. intros e He. eapply eff_within_safe; [|exact He].
        intros t Ht. apply HA. unfold met_targets. apply in_or_app. right. exact (met_tts_incl hz org st t Ht).
      + unfold met_tail. destruct (met_keep hz org st); repeat constructor.
  Qed.

  Lemma within_nomem T es : Forall (eff_within T) es -> Forall nomem es.
  Proof. intros H. eapply Forall_impl; [|exact H]. intros e He. destruct e; cbn in *; auto. Qed.

  Lemma met_effs_frame hz org st :
    Forall noseg (met_effs hz org st) /\ Forall nomem (met_effs hz org st) /\ Forall novt (met_effs hz org st).
  Proof.
    destruct (sel_met hz org st) eqn:E.
    - rewrite met_effs_nil by exact E. repeat split; constructor.
    - rewrite met_effs_shape by congruence.
      pose proof (met_dir_phase_within (sel_met hz org st) (mmeta st) (dirs st)) as W2.
      pose proof (tt_phase_within (met_tts hz org st) (snd (met_dir_phase (sel_met hz org st) (mmeta st) (dirs st)))) as W3.
      pose proof (met_tail_props hz org st) as T. cbn zeta in T.
      pose proof (within_noseg _ _ W2) as W2'. pose proof (within_noseg _ _ W3) as W3'.
      pose proof (within_nomem _ _ W2) as M2. pose proof (within_nomem _ _ W3) as M3.
      repeat split; repeat (apply Forall_app; split); try tauto; apply Forall_map_eff; intros; exact I.
  Qed.

  Lemma NoDup_map_filter {A B} (f : A -> B) (g : A -> bool) l : NoDup (map f l) -> NoDup (map f (filter g l)).
  Proof.
    induction l as [|a r IH]; cbn; intros H; [constructor|]. inversion H as [|? ? Hn H']; subst.
    destruct (g a); cbn; auto. constructor; auto. intros HI. apply Hn.
    apply in_map_iff in HI as [x [E Hx]]. apply filter_In in Hx as [Hx _]. rewrite <- E. apply in_map. exact Hx.
  Qed.

  (* every selected metrics segment is known to the in-memory metadata (true after a restart) *)
  Definition mmem_ok hz org st : Prop := forall s, In s (sel_met hz org st) -> In (s_dir s) (mmem st).

  Lemma sel_met_sub hz org st s : In s (sel_met hz org st) -> In s (mmeta st) /\ expired hz org s = true.
  Proof. unfold sel_met. apply filter_In. Qed.
  Lemma sel_log_sub hz org st s : In s (sel_log hz org st) -> In s (segmeta st) /\ expired hz org s = true.
  Proof. unfold sel_log. apply filter_In. Qed.

  Lemma met_mmeta hz org st : mmeta (apply_effs (met_effs hz org st) st) = met_keep hz org st.
  Proof.
    destruct (sel_met hz org st) eqn:E.
    - rewrite met_effs_nil by exact E. unfold met_keep. rewrite E. symmetry. apply keep_of_nil.
    - rewrite met_effs_shape by congruence.
      rewrite mmeta_apply, !fold_left_app.
      rewrite (fold_mm_nomm (map _ _)) by (apply Forall_map_eff; intros; exact I).
      rewrite (fold_mm_nomm (fst (met_dir_phase _ _ _))) by (eapply within_noseg, met_dir_phase_within).
      rewrite (fold_mm_nomm (tt_phase _ _)) by (eapply within_noseg, tt_phase_within).
      unfold met_tail. destruct (met_keep hz org st); reflexivity.
  Qed.

  Lemma within_nommem_dirs T es : Forall (eff_within T) es -> Forall nomem es.
  Proof. intros H. eapply Forall_impl; [|exact H]. intros e He. destruct e; cbn in *; auto. Qed.

  Lemma met_dir_phase_nommem sel entries : forall ds, Forall nommem (fst (met_dir_phase sel entries ds)).
  Proof.
    induction entries as [|e r IH]; intros ds; cbn; [constructor|].
    destruct (in_sel sel e).
    - match goal with |- context [met_dir_phase sel r ?d] => specialize (IH d); destruct (met_dir_phase sel r d) as [es ds3] end.
      cbn in *. constructor; [exact I|]. apply Forall_app. split; auto. apply Forall_map_eff. intros; exact I.
    - apply IH.
  Qed.

  Lemma tt_phase_nommem tts : forall ds, Forall nommem (tt_phase tts ds).
  Proof.
    induction tts as [|t r IH]; intros ds; cbn; [constructor|]. constructor; [exact I|].
    apply Forall_app. split; auto. apply Forall_map_eff. intros; exact I.
  Qed.

  Lemma met_mmem hz org st q :
    (In q (mmem (apply_effs (met_effs hz org st) st)) <->
     In q (mmem st) /\ forall s, In s (sel_met hz org st) -> s_dir s <> q).
  Proof.
    destruct (sel_met hz org st) eqn:E.
    - rewrite met_effs_nil by exact E. cbn. split; [intros H; split; auto; intros s []|tauto].
    - rewrite met_effs_shape by congruence.
      rewrite mmem_apply, !fold_left_app.
      rewrite (fold_mmem_nommem (met_tail _ _ _)) by apply met_tail_props.
      rewrite (fold_mmem_nommem (tt_phase _ _)) by apply tt_phase_nommem.
      rewrite (fold_mmem_nommem (fst (met_dir_phase _ _ _))) by apply met_dir_phase_nommem.
      rewrite fold_mmem_del. rewrite E.
      split; intros [H1 H2]; split; auto; intros x Hx; apply H2; apply ord_In; exact Hx.
  Qed.

  Lemma met_dirs_gone hz org st s q :
    In s (sel_met hz org st) -> is_prefix (s_dir s) q = true -> ~ In q (dirs (apply_effs (met_effs hz org st) st)).
  Proof.
    intros Hs Hp. assert (NE : sel_met hz org st <> []) by (intros E; rewrite E in Hs; contradiction).
    rewrite met_effs_shape by exact NE.
    pose proof (met_dir_phase_has (sel_met hz org st) (mmeta st) (dirs st) s (proj1 (sel_met_sub _ _ _ _ Hs)) (in_sel_self _ _ Hs)) as HI.
    apply in_split in HI as [a [b HI]]. rewrite HI. rewrite dirs_apply.
    rewrite <- !app_assoc. rewrite app_assoc. cbn [app]. apply fold_dirs_removed. exact Hp.
  Qed.

  Lemma tt_phase_has tts : forall ds t, In t tts -> In (ERm t) (tt_phase tts ds).
  Proof.
    induction tts as [|a r IH]; intros ds t H; [contradiction|]. destruct H as [->|H]; cbn; auto.
    right. apply in_or_app. right. apply IH. exact H.
  Qed.

  (* the tags-tree directory of a removed segment that no preserved line names is gone afterwards *)
  Lemma met_tt_gone hz org st t q :
    In t (met_tts hz org st) -> is_prefix t q = true -> ~ In q (dirs (apply_effs (met_effs hz org st) st)).
  Proof.
    intros Ht Hp. assert (NE : sel_met hz org st <> []).
    { intros E. unfold met_tts, met_removed in Ht. rewrite E in Ht. apply filter_In in Ht as [Ht _].
      apply (Permutation_in _ (ordp_perm _)) in Ht. apply dedup_In in Ht. apply in_map_iff in Ht as [x [_ Hx]].
      apply filter_In in Hx as [_ Hx]. discriminate. }
    rewrite met_effs_shape by exact NE.
    pose proof (tt_phase_has (met_tts hz org st) (snd (met_dir_phase (sel_met hz org st) (mmeta st) (dirs st))) t Ht) as HI.
    apply in_split in HI as [a [b HI]]. rewrite HI. rewrite dirs_apply.
    rewrite <- !app_assoc. rewrite !app_assoc. rewrite <- (app_assoc _ (ERm t :: b)). cbn [app]. apply fold_dirs_removed. exact Hp.
  Qed.

  Lemma met_dirs_safe hz org st d : In d (dirs st) -> (forall t, In t (met_targets hz org st) -> apart d t = true) ->
    In d (dirs (apply_effs (met_effs hz org st) st)).
  Proof. intros Hd HA. rewrite dirs_apply. apply fold_dirs_safe; auto. apply met_effs_safe. exact HA. Qed.

  Lemma met_frame hz org st :
    let st1 := apply_effs (met_effs hz org st) st in
    segmeta st1 = segmeta st /\ mem st1 = mem st /\ vtables st1 = vtables st /\ unrot st1 = unrot st.
  Proof.
    cbn. rewrite segmeta_apply, mem_apply, vtables_apply, unrot_apply.
    destruct (met_effs_frame hz org st) as [A [B C]].
    rewrite fold_seg_noseg, fold_mem_nomem, fold_vt_novt by assumption. auto.
  Qed.

  (* ---------------- DeleteEmptyIndices ---------------- *)
  Lemma vt_phase_props org cands : forall cur,
    let es := vt_phase org cands cur in
    Forall nodir es /\ Forall nomem es /\ Forall nommem es /\ Forall noseg es /\ Forall nomm es.
  Proof.
    induction cands as [|t r IH]; intros cur; cbn; [repeat split; constructor|].
    destruct (IH (filter (fun x => negb (x =? t)) cur)) as [A [B [C [D E]]]].
    repeat split; repeat constructor; auto.
  Qed.

  Lemma vt_frame org st :
    let st1 := apply_effs (vt_effs org st) st in
    segmeta st1 = segmeta st /\ mmeta st1 = mmeta st /\ mem st1 = mem st /\ mmem st1 = mmem st /\ dirs st1 = dirs st /\ unrot st1 = unrot st.
  Proof.
    cbn. rewrite segmeta_apply, mmeta_apply, mem_apply, mmem_apply, dirs_apply, unrot_apply.
    unfold Retention.vt_effs. destruct (vt_phase_props org (ordn (filter (fun t => negb (existsb (N.eqb t) (in_use st))) (org_tables org st))) (org_tables org st)) as [A [B [C [D E]]]].
    rewrite fold_seg_noseg, fold_mm_nomm, fold_mem_nomem, fold_mmem_nommem, fold_dirs_nodir by assumption. auto 10.
  Qed.

  Definition rem_names (cands cur : list N) : list N :=
    fold_left (fun c t => filter (fun x => negb (x =? t)) c) cands cur.

  Lemma other_orgs_idem org vt : other_orgs org (other_orgs org vt) = other_orgs org vt.
  Proof.
    unfold other_orgs. induction vt as [|v r IH]; cbn; auto.
    destruct (negb (fst v =? org)%Z) eqn:E; cbn; rewrite ?E, IH; reflexivity.
  Qed.

  Lemma other_orgs_pairs org l : other_orgs org (map (pair org) l) = [].
  Proof. unfold other_orgs. induction l; cbn; auto. rewrite Z.eqb_refl. cbn. exact IHl. Qed.

  Lemma other_orgs_app org a b : other_orgs org (a ++ b) = other_orgs org a ++ other_orgs org b.
  Proof. unfold other_orgs. apply filter_app. Qed.

  Lemma vt_phase_fold org cands : forall cur vt, cands <> [] ->
    fold_left step_vt (vt_phase org cands cur) vt = other_orgs org vt ++ map (pair org) (rem_names cands cur).
  Proof.
    induction cands as [|t r IH]; intros cur vt NE; [congruence|].
    cbn [vt_phase fold_left step_vt].
    destruct r as [|t2 r2].
    - reflexivity.
    - rewrite IH by discriminate. rewrite other_orgs_app, other_orgs_idem, other_orgs_pairs, app_nil_r. reflexivity.
  Qed.

  Lemma rem_names_In cands : forall cur x, In x (rem_names cands cur) <-> In x cur /\ ~ In x cands.
  Proof.
    induction cands as [|t r IH]; intros cur x; cbn.
    - tauto.
    - unfold rem_names in *. cbn. rewrite IH, filter_In, negb_true_iff, N.eqb_neq. intuition congruence.
  Qed.

  Lemma In_other_orgs o t org vt : In (o, t) (other_orgs org vt) <-> In (o, t) vt /\ o <> org.
  Proof. unfold other_orgs. rewrite filter_In, negb_true_iff. cbn. rewrite Z.eqb_neq. tauto. Qed.

  Lemma In_org_tables t org st : In t (org_tables org st) <-> In (org, t) (vtables st).
  Proof.
    unfold org_tables. rewrite in_map_iff. split.
    - intros [[o x] [E H]]. cbn in E. subst. apply filter_In in H as [H E]. cbn in E. apply Z.eqb_eq in E. subst. exact H.
    - intros H. exists (org, t). split; auto. apply filter_In. split; auto. cbn. apply Z.eqb_refl.
  Qed.

  (* an index name that some segment still uses stays in the names file *)
  Lemma vt_keeps org st o t : In (o, t) (vtables st) -> In t (in_use st) ->
    In (o, t) (vtables (apply_effs (vt_effs org st) st)).
  Proof.
    intros Hv Hu. rewrite vtables_apply. unfold Retention.vt_effs.
    set (cands := ordn (filter (fun t0 => negb (existsb (N.eqb t0) (in_use st))) (org_tables org st))).
    destruct cands as [|c r] eqn:Ec; [exact Hv|].
    rewrite vt_phase_fold by discriminate. apply in_or_app.
    destruct (Z.eq_dec o org) as [->|Hne].
    - right. apply in_map. apply rem_names_In. split; [apply In_org_tables; exact Hv|].
      rewrite <- Ec. unfold cands. intros HI. apply (Permutation_in _ (ordn_perm _)) in HI.
      apply filter_In in HI as [_ HI]. apply negb_true_iff in HI.
      assert (existsb (N.eqb t) (in_use st) = true) by (apply existsb_exists; exists t; split; auto; apply N.eqb_refl).
      congruence.
    - left. apply In_other_orgs. auto.
  Qed.

  Lemma has_table_In st s : has_table st s = true <-> In (s_org s, s_table s) (vtables st).
  Proof.
    unfold has_table. rewrite existsb_exists. split.
    - intros [[o t] [H E]]. cbn in E. apply andb_true_iff in E as [E1 E2]. apply Z.eqb_eq in E1. apply N.eqb_eq in E2. subst. exact H.
    - intros H. exists (s_org s, s_table s). split; auto. cbn. rewrite Z.eqb_refl, N.eqb_refl. reflexivity.
  Qed.

  (* ---------------- the whole pass ---------------- *)
  Definition st_log hz org st := apply_effs (log_effs hz org st) st.
  Definition st_met hz org st := apply_effs (met_effs hz org (st_log hz org st)) (st_log hz org st).

  Lemma run_unfold hz org st :
    run hz org st = apply_effs (vt_effs org (st_met hz org st)) (st_met hz org st).
  Proof. unfold Retention.run, Retention.pass_effs, st_met, st_log. cbn zeta. rewrite !apply_effs_app. reflexivity. Qed.

  Lemma sel_met_log hz org st : sel_met hz org (st_log hz org st) = sel_met hz org st.
  Proof. unfold sel_met, st_log. destruct (log_frame hz org st) as [E _]. cbn in E. rewrite E. reflexivity. Qed.

  Lemma met_targets_log hz org st : met_targets hz org (st_log hz org st) = met_targets hz org st.
  Proof. unfold met_targets. rewrite sel_met_log. unfold st_log. destruct (log_frame hz org st) as [E _]. cbn in E. rewrite E. reflexivity. Qed.

  Section Run.
    Variables (hz : N) (org : Z) (st : store).


    Lemma run_segmeta : segmeta (run hz org st) = keep_of (sel_log hz org st) (segmeta st).
    Proof.
      rewrite run_unfold. destruct (vt_frame org (st_met hz org st)) as [E _]. cbn in E. rewrite E.
      unfold st_met. destruct (met_frame hz org (st_log hz org st)) as [E2 _]. cbn in E2. rewrite E2.
      apply log_segmeta.
    Qed.

    Lemma run_mmeta : mmeta (run hz org st) = keep_of (sel_met hz org st) (mmeta st).
    Proof.
      rewrite run_unfold. destruct (vt_frame org (st_met hz org st)) as [_ [E _]]. cbn in E. rewrite E.
      unfold st_met. rewrite met_mmeta. unfold met_keep. rewrite sel_met_log.
      unfold st_log. destruct (log_frame hz org st) as [E2 _]. cbn in E2. rewrite E2. reflexivity.
    Qed.

    Lemma run_unrot : unrot (run hz org st) = unrot st.
    Proof. unfold Retention.run. apply unrot_apply. Qed.

    Lemma run_mem q : In q (mem (run hz org st)) <-> In q (mem st) /\ forall s, In s (sel_log hz org st) -> s_dir s <> q.
    Proof.
      rewrite run_unfold. destruct (vt_frame org (st_met hz org st)) as [_ [_ [E _]]]. cbn in E. rewrite E.
      unfold st_met. destruct (met_frame hz org (st_log hz org st)) as [_ [E2 _]]. cbn in E2. rewrite E2.
      apply log_mem.
    Qed.

    Lemma run_mmem q : In q (mmem (run hz org st)) <-> In q (mmem st) /\ forall s, In s (sel_met hz org st) -> s_dir s <> q.
    Proof.
      rewrite run_unfold. destruct (vt_frame org (st_met hz org st)) as [_ [_ [_ [E _]]]]. cbn in E. rewrite E.
      unfold st_met. rewrite met_mmem. rewrite sel_met_log.
      unfold st_log. destruct (log_frame hz org st) as [_ [E2 _]]. cbn in E2. rewrite E2. reflexivity.
    Qed.

    Lemma run_dirs_incl : incl (dirs (run hz org st)) (dirs st).
    Proof. unfold Retention.run. rewrite dirs_apply. apply fold_dirs_incl. Qed.

    Lemma run_dirs_eq : dirs (run hz org st) = dirs (st_met hz org st).
    Proof. rewrite run_unfold. destruct (vt_frame org (st_met hz org st)) as [_ [_ [_ [_ [E _]]]]]. exact E. Qed.

    Lemma run_dirs_gone_log s q : In s (sel_log hz org st) -> is_prefix (s_dir s) q = true -> ~ In q (dirs (run hz org st)).
    Proof.
      intros Hs Hp H. rewrite run_dirs_eq in H. unfold st_met in H. rewrite dirs_apply in H.
      apply fold_dirs_incl in H. fold (st_log hz org st) in H. unfold st_log in H. apply log_dirs in H as [_ H].
      rewrite (H s Hs) in Hp. discriminate.
    Qed.

    Lemma run_dirs_gone_met s q : In s (sel_met hz org st) -> is_prefix (s_dir s) q = true -> ~ In q (dirs (run hz org st)).
    Proof.
      intros Hs Hp. rewrite run_dirs_eq. unfold st_met. apply met_dirs_gone with (s := s); auto.
      rewrite sel_met_log. exact Hs.
    Qed.

    Lemma run_dirs_safe d : In d (dirs st) ->
      (forall s, In s (sel_log hz org st) -> is_prefix (s_dir s) d = false) ->
      (forall t, In t (met_targets hz org st) -> apart d t = true) ->
      In d (dirs (run hz org st)).
    Proof.
      intros Hd HL HM. rewrite run_dirs_eq. unfold st_met. apply met_dirs_safe.
      - unfold st_log. apply log_dirs. auto.
      - rewrite met_targets_log. exact HM.
    Qed.

    Lemma run_vt_keeps o t : In (o, t) (vtables st) ->
      In t (map s_table (keep_of (sel_log hz org st) (segmeta st) ++ unrot st)) -> In (o, t) (vtables (run hz org st)).
    Proof.
      intros Hv Hu. rewrite run_unfold. apply vt_keeps.
      - unfold st_met. destruct (met_frame hz org (st_log hz org st)) as [_ [_ [E _]]]. cbn in E. rewrite E.
        unfold st_log. destruct (log_frame hz org st) as [_ [_ [E2 _]]]. cbn in E2. rewrite E2. exact Hv.
      - unfold in_use. unfold st_met at 1 2. destruct (met_frame hz org (st_log hz org st)) as [E [_ [_ E3]]]. cbn in E, E3. rewrite E, E3.
        unfold st_log. rewrite log_segmeta. destruct (log_frame hz org st) as [_ [_ [_ E4]]]. cbn in E4. rewrite E4. exact Hu.
    Qed.
    Lemma met_tts_log_gen : met_tts hz org (st_log hz org st) = met_tts hz org st.
    Proof.
      unfold met_tts, met_keep, met_removed. rewrite sel_met_log.
      unfold st_log. destruct (log_frame hz org st) as [E _]. cbn in E. rewrite E. reflexivity.
    Qed.

    Lemma run_tt_gone t q : In t (met_tts hz org st) -> is_prefix t q = true -> ~ In q (dirs (run hz org st)).
    Proof.
      intros Ht Hq. rewrite run_dirs_eq. unfold st_met. apply met_tt_gone with (t := t); auto.
      rewrite met_tts_log_gen. exact Ht.
    Qed.
  End Run.

  (* ---------------- well-formed stores ---------------- *)
  Lemma all_apart_spec l : all_apart l = true ->
    NoDup l /\ (forall p q, In p l -> In q l -> p <> q -> apart p q = true).
  Proof.
    induction l as [|a r IH]; cbn; intros H.
    - split; [constructor|intros p q []].
    - apply andb_true_iff in H as [H1 H2]. destruct (IH H2) as [ND HP]. rewrite forallb_forall in H1. split.
      + constructor; auto. intros HI. apply H1 in HI. apply apart_neq in HI. congruence.
      + intros p q [->|Hp] [->|Hq] Hne; auto; try congruence.
        rewrite apart_sym. auto.
  Qed.

  Record WF (st : store) : Prop := {
    wf_nodup : NoDup (seg_dirs st);
    wf_apart : forall p q, In p (seg_dirs st) -> In q (seg_dirs st) -> p <> q -> apart p q = true;
    wf_tt : forall t d, In t (map s_tt (mmeta st)) -> In d (seg_dirs st) -> apart d t = true;
    wf_log : forall s, In s (segmeta st ++ unrot st) -> s_kind s = KLog;
    wf_met : forall s, In s (mmeta st) -> s_kind s = KMet }.

  Lemma wf_WF st : wf st = true -> WF st.
  Proof.
    unfold wf. intros H. repeat (apply andb_true_iff in H as [H ?]).
    destruct (all_apart_spec _ H) as [ND HP]. constructor; auto.
    - intros t d Ht Hd. rewrite forallb_forall in H2. apply H2 in Ht. rewrite forallb_forall in Ht. rewrite apart_sym. auto.
    - intros s Hs. rewrite forallb_forall in H1. apply H1 in Hs. destruct (s_kind s); auto; discriminate.
    - intros s Hs. rewrite forallb_forall in H0. apply H0 in Hs. destruct (s_kind s); auto; discriminate.
  Qed.

  Lemma NoDup_app_l {A} (a b : list A) : NoDup (a ++ b) -> NoDup a.
  Proof. induction a as [|x a IH]; cbn; intros H; [constructor|]. inversion H; subst. constructor; auto. intros HI. apply H2. apply in_or_app. auto. Qed.
  Lemma NoDup_app_r {A} (a b : list A) : NoDup (a ++ b) -> NoDup b.
  Proof. induction a as [|x a IH]; cbn; intros H; auto. inversion H; subst. auto. Qed.
  Lemma NoDup_app_disj {A} (a b : list A) x : NoDup (a ++ b) -> In x a -> In x b -> False.
  Proof.
    induction a as [|y a IH]; cbn; intros H Ha Hb; [contradiction|]. inversion H; subst.
    destruct Ha as [->|Ha]; [apply H2; apply in_or_app; auto|eauto].
  Qed.

  Lemma NoDup_map_inj {A B} (f : A -> B) l a b : NoDup (map f l) -> In a l -> In b l -> f a = f b -> a = b.
  Proof.
    induction l as [|x r IH]; cbn; intros ND Ha Hb E; [contradiction|]. inversion ND as [|? ? Hn ND']; subst.
    destruct Ha as [->|Ha], Hb as [->|Hb]; auto.
    - exfalso. apply Hn. rewrite E. apply in_map. exact Hb.
    - exfalso. apply Hn. rewrite <- E. apply in_map. exact Ha.
  Qed.

  Section WFfacts.
    Variable st : store.
    Hypothesis W : WF st.

    Lemma wf_nd_seg : NoDup (map s_dir (segmeta st)).
    Proof. pose proof (wf_nodup _ W) as H. unfold seg_dirs in H. eapply NoDup_app_l; eauto. Qed.
    Lemma wf_nd_mm : NoDup (map s_dir (mmeta st)).
    Proof. pose proof (wf_nodup _ W) as H. unfold seg_dirs in H. apply NoDup_app_r in H. eapply NoDup_app_l; eauto. Qed.
    Lemma wf_nd_seg_unrot : NoDup (map s_dir (segmeta st ++ unrot st)).
    Proof.
      pose proof (wf_nodup _ W) as H. unfold seg_dirs in H. rewrite map_app.
      (* segmeta ++ mmeta ++ unrot without the middle part *)
      revert H. generalize (map s_dir (segmeta st)) (map s_dir (mmeta st)) (map s_dir (unrot st)). clear.
      intros a b c. induction a as [|x a IH]; cbn; intros H.
      - eapply NoDup_app_r; eauto.
      - inversion H; subst. constructor; auto. intros HI. apply H2. apply in_app_or in HI. apply in_or_app.
        destruct HI; auto. right. apply in_or_app. auto.
    Qed.

    Lemma in_seg_dirs s : In s (segmeta st ++ mmeta st ++ unrot st) -> In (s_dir s) (seg_dirs st).
    Proof. unfold seg_dirs. rewrite <- !map_app. apply in_map. Qed.

    (* two metadata lines (or unrotated segments) are the same line or have directories apart from each other *)
    Lemma wf_same_or_apart a b : In a (segmeta st ++ mmeta st ++ unrot st) -> In b (segmeta st ++ mmeta st ++ unrot st) ->
      a = b \/ apart (s_dir a) (s_dir b) = true.
    Proof.
      intros Ha Hb. destruct (path_eqb (s_dir a) (s_dir b)) eqn:E.
      - left. apply path_eqb_eq in E. eapply NoDup_map_inj; eauto. pose proof (wf_nodup _ W) as H. unfold seg_dirs in H.
        rewrite !map_app. exact H.
      - right. apply path_eqb_neq in E. apply (wf_apart _ W); auto using in_seg_dirs.
    Qed.
  End WFfacts.

  Lemma keep_of_filter f l : NoDup (map s_dir l) ->
    keep_of (filter f l) l = filter (fun s => negb (f s)) l.
  Proof.
    intros ND. unfold keep_of. apply filter_ext_in. intros s Hs. f_equal.
    destruct (f s) eqn:E.
    - apply in_sel_self. apply filter_In. auto.
    - destruct (in_sel (filter f l) s) eqn:E2; auto. apply in_sel_true in E2 as [x [Hx Ex]].
      apply filter_In in Hx as [Hx Fx]. assert (x = s) by (eapply NoDup_map_inj; eauto). subst. congruence.
  Qed.

  (* a selected line's tags tree that no preserved line names is in the list of trees to delete *)
  Lemma met_tts_In hz org st s : In s (sel_met hz org st) ->
    (forall s', In s' (mmeta st) -> expired hz org s' = false -> s_tt s' <> s_tt s) ->
    NoDup (map s_dir (mmeta st)) -> In (s_tt s) (met_tts hz org st).
  Proof.
    intros Hs Hn ND. unfold met_tts. apply filter_In. split.
    - apply (Permutation_in _ (Permutation_sym (ordp_perm _))). apply dedup_In_conv. apply in_map.
      unfold met_removed. apply filter_In. split; [apply filter_In in Hs; tauto|apply in_sel_self; exact Hs].
    - apply negb_true_iff. apply mem_path_false. intros HI. apply in_map_iff in HI as [x [E Hx]].
      unfold met_keep, sel_met in Hx. rewrite keep_of_filter in Hx by exact ND. apply filter_In in Hx as [Hx Fx].
      apply negb_true_iff in Fx. eapply Hn; eauto.
  Qed.

  (* ---------------- main theorems ---------------- *)
  Section Main.
    Variables (hz : N) (org : Z) (st : store).
    Hypothesis Hwf : wf st = true.
    Let W : WF st := wf_WF st Hwf.
    Let st' := run hz org st.

    Lemma listing_after s : In s (segmeta st ++ mmeta st) ->
      (In s (segmeta st' ++ mmeta st') <-> expired hz org s = false).
    Proof.
      intros Hs. unfold st'. rewrite run_segmeta, run_mmeta.
      unfold sel_log, sel_met. rewrite !keep_of_filter by (auto using wf_nd_seg, wf_nd_mm).
      rewrite in_app_iff, !filter_In, !negb_true_iff. apply in_app_or in Hs.
      split; [tauto|]. intros E. destruct Hs; auto.
    Qed.

    Lemma log_not_met_target s t : In s (segmeta st ++ mmeta st ++ unrot st) -> In t (met_targets hz org st) ->
      (forall x, In x (sel_met hz org st) -> x <> s) -> apart (s_dir s) t = true.
    Proof.
      intros Hs Ht Hx. unfold met_targets in Ht. apply in_app_or in Ht as [Ht|Ht].
      - apply in_map_iff in Ht as [x [<- Hxs]]. destruct (wf_same_or_apart st W s x) as [->|H]; auto.
        + apply sel_met_sub in Hxs as [Hxs _]. apply in_or_app. right. apply in_or_app. auto.
        + exfalso. eapply Hx; eauto.
      - apply (wf_tt _ W); auto. apply in_seg_dirs. exact Hs.
    Qed.

    Lemma survivor_dir s : In s (segmeta st ++ mmeta st ++ unrot st) ->
      (In s (unrot st) \/ expired hz org s = false) -> In (s_dir s) (dirs st) -> In (s_dir s) (dirs st').
    Proof.
      intros Hs Hne Hd. unfold st'.
      assert (NS : forall x, (In x (sel_log hz org st) \/ In x (sel_met hz org st)) -> x <> s).
      { intros x Hx ->. destruct Hne as [Hu|Hne].
        - pose proof (wf_nodup _ W) as ND. unfold seg_dirs in ND.
          destruct Hx as [Hx|Hx].
          + apply sel_log_sub in Hx as [Hx _]. eapply (NoDup_app_disj _ _ (s_dir s) ND); [apply in_map; exact Hx|].
            apply in_or_app. right. apply in_map. exact Hu.
          + apply sel_met_sub in Hx as [Hx _]. apply NoDup_app_r in ND.
            eapply (NoDup_app_disj _ _ (s_dir s) ND); apply in_map; eauto.
        - destruct Hx as [Hx|Hx]; [apply sel_log_sub in Hx|apply sel_met_sub in Hx]; destruct Hx; congruence. }
      apply run_dirs_safe; auto.
      - intros x Hx. destruct (wf_same_or_apart st W x s) as [->|H]; auto.
        + apply sel_log_sub in Hx as [Hx _]. apply in_or_app. auto.
        + exfalso. eapply NS; eauto.
        + unfold apart in H. apply andb_true_iff in H as [H _]. apply negb_true_iff in H. exact H.
      - intros t Ht. apply log_not_met_target; auto.
    Qed.

    Theorem retention_selects_exactly s : In s (segmeta st ++ mmeta st) ->
      (In s (segmeta st' ++ mmeta st') <-> expired hz org s = false) /\
      (In (s_dir s) (dirs st') <-> In (s_dir s) (dirs st) /\ expired hz org s = false).
    Proof.
      intros Hs. split; [apply listing_after; exact Hs|]. split.
      - intros H. split; [eapply run_dirs_incl; exact H|].
        destruct (expired hz org s) eqn:E; auto. exfalso. apply in_app_or in Hs as [Hs|Hs].
        + eapply (run_dirs_gone_log hz org st s); eauto using is_prefix_refl. apply filter_In. auto.
        + eapply (run_dirs_gone_met hz org st s); eauto using is_prefix_refl. apply filter_In. auto.
      - intros [Hd E]. apply survivor_dir; auto. apply in_app_or in Hs. apply in_or_app. destruct Hs; auto. right. apply in_or_app. auto.
    Qed.

    Theorem survivors_untouched s : In s (segmeta st ++ mmeta st) -> expired hz org s = false ->
      In s (segmeta st' ++ mmeta st') /\
      (In (s_dir s) (dirs st) -> In (s_dir s) (dirs st')) /\
      (searchable st s = true -> searchable st' s = true).
    Proof.
      intros Hs E. assert (Hs3 : In s (segmeta st ++ mmeta st ++ unrot st))
        by (apply in_app_or in Hs; apply in_or_app; destruct Hs; auto; right; apply in_or_app; auto).
      split; [apply listing_after; auto|]. split; [intros Hd; apply survivor_dir; auto|].
      unfold searchable. apply in_app_or in Hs as [Hs|Hs].
      - rewrite (wf_log _ W s) by (apply in_or_app; auto).
        intros H. apply andb_true_iff in H as [H H3]. apply andb_true_iff in H as [H1 H2].
        apply mem_path_In in H2, H3. apply has_table_In in H1.
        apply andb_true_iff. split; [apply andb_true_iff; split|].
        + apply has_table_In. unfold st'. apply run_vt_keeps; auto. apply in_map. apply in_or_app. left.
          unfold sel_log. rewrite keep_of_filter by (apply wf_nd_seg; exact W). apply filter_In. rewrite E. auto.
        + apply mem_path_In. unfold st'. apply run_mem. split; auto. intros x Hx Ed.
          apply sel_log_sub in Hx as [Hx Ex]. assert (x = s) by (eapply NoDup_map_inj; eauto; apply wf_nd_seg; exact W). subst. congruence.
        + apply mem_path_In. apply survivor_dir; auto.
      - rewrite (wf_met _ W s) by exact Hs.
        intros H. apply andb_true_iff in H as [H2 H3]. apply mem_path_In in H2, H3.
        apply andb_true_iff. split.
        + apply mem_path_In. unfold st'. apply run_mmem. split; auto. intros x Hx Ed.
          apply sel_met_sub in Hx as [Hx Ex]. assert (x = s) by (eapply NoDup_map_inj; eauto; apply wf_nd_mm; exact W). subst. congruence.
        + apply mem_path_In. apply survivor_dir; auto.
    Qed.

    Theorem unrotated_untouched u : In u (unrot st) ->
      In u (unrot st') /\ (In (s_dir u) (dirs st) -> In (s_dir u) (dirs st')) /\
      (has_table st u = true -> has_table st' u = true).
    Proof.
      intros Hu. unfold st'. rewrite run_unrot. split; auto. split.
      - intros Hd. apply survivor_dir; auto. apply in_or_app. right. apply in_or_app. auto.
      - intros H. apply has_table_In in H. apply has_table_In. apply run_vt_keeps; auto.
        apply in_map. apply in_or_app. auto.
    Qed.

    Theorem metadata_lists_survivors :
      segmeta st' = filter (fun s => negb (expired hz org s)) (segmeta st) /\
      mmeta st' = filter (fun s => negb (expired hz org s)) (mmeta st) /\
      (forall s, In s (segmeta st ++ mmeta st) -> In (s_dir s) (dirs st) ->
         (In s (segmeta st' ++ mmeta st') <-> In (s_dir s) (dirs st'))).
    Proof.
      split; [|split].
      - unfold st'. rewrite run_segmeta. unfold sel_log. apply keep_of_filter. apply wf_nd_seg; exact W.
      - unfold st'. rewrite run_mmeta. unfold sel_met. apply keep_of_filter. apply wf_nd_mm; exact W.
      - intros s Hs Hd. rewrite (listing_after s Hs). destruct (retention_selects_exactly s Hs) as [_ H2]. rewrite H2. tauto.
    Qed.

    Theorem deleted_not_searchable s : In s (segmeta st ++ mmeta st) -> expired hz org s = true ->
      searchable st' s = false /\ ~ In (s_dir s) (dirs st') /\ ~ In s (segmeta st' ++ mmeta st').
    Proof.
      intros Hs E.
      assert (Hd : ~ In (s_dir s) (dirs st')).
      { intros H. apply (retention_selects_exactly s Hs) in H as [_ H]. congruence. }
      repeat split; auto.
      - unfold searchable. destruct (s_kind s); apply andb_false_iff; right; apply mem_path_false; exact Hd.
      - intros H. apply (listing_after s Hs) in H. congruence.
    Qed.
  End Main.

  (* ---------------- interruption at an effect boundary, restart, full pass ---------------- *)
  Lemma firstn_split {A} k (pre : list A) x post :
    firstn k (pre ++ x :: post) = firstn k pre \/ exists j, firstn k (pre ++ x :: post) = pre ++ x :: firstn j post.
  Proof.
    rewrite firstn_app. destruct (Nat.le_gt_cases k (length pre)) as [H|H].
    - left. replace (k - length pre)%nat with 0%nat by lia. cbn. apply app_nil_r.
    - right. rewrite firstn_all2 by lia. destruct (k - length pre)%nat as [|j] eqn:E; [lia|]. exists j. reflexivity.
  Qed.

  Lemma Forall_firstn {A} (P : A -> Prop) l : Forall P l -> forall k, Forall P (firstn k l).
  Proof. induction 1; intros [|k]; cbn; constructor; auto. Qed.

  Lemma nodir_safe d e : nodir e -> safe_for d e.
  Proof. destruct e; cbn; tauto. Qed.

  Lemma seg_split_prefix (R pre2 post : list eff) setter keep l ds k :
    Forall noseg (R ++ pre2) -> Forall noseg post -> (forall l0, step_seg l0 setter = keep) ->
    let es := (R ++ pre2) ++ setter :: post in
    fold_left step_seg (firstn k es) l = l \/
    (fold_left step_seg (firstn k es) l = keep /\ incl (fold_left step_dirs (firstn k es) ds) (fold_left step_dirs R ds)).
  Proof.
    intros H1 H2 H3 es. destruct (firstn_split k (R ++ pre2) setter post) as [E|[j E]]; unfold es; rewrite E.
    - left. apply fold_seg_noseg. apply Forall_firstn. exact H1.
    - right. split.
      + rewrite fold_left_app. cbn [fold_left]. rewrite (fold_seg_noseg (R ++ pre2)) by exact H1. rewrite H3.
        apply fold_seg_noseg. apply Forall_firstn. exact H2.
      + rewrite <- app_assoc. rewrite fold_left_app. apply fold_dirs_incl.
  Qed.

  Lemma mm_split_prefix (R pre2 post : list eff) setter keep l ds k :
    Forall nomm (R ++ pre2) -> Forall nomm post -> (forall l0, step_mm l0 setter = keep) ->
    let es := (R ++ pre2) ++ setter :: post in
    fold_left step_mm (firstn k es) l = l \/
    (fold_left step_mm (firstn k es) l = keep /\ incl (fold_left step_dirs (firstn k es) ds) (fold_left step_dirs R ds)).
  Proof.
    intros H1 H2 H3 es. destruct (firstn_split k (R ++ pre2) setter post) as [E|[j E]]; unfold es; rewrite E.
    - left. apply fold_mm_nomm. apply Forall_firstn. exact H1.
    - right. split.
      + rewrite fold_left_app. cbn [fold_left]. rewrite (fold_mm_nomm (R ++ pre2)) by exact H1. rewrite H3.
        apply fold_mm_nomm. apply Forall_firstn. exact H2.
      + rewrite <- app_assoc. rewrite fold_left_app. apply fold_dirs_incl.
  Qed.

  Lemma vt_effs_props org st :
    let es := vt_effs org st in
    Forall nodir es /\ Forall nomem es /\ Forall nommem es /\ Forall noseg es /\ Forall nomm es.
  Proof. unfold Retention.vt_effs. apply vt_phase_props. Qed.

  Lemma met_effs_nomm_when_nil hz org st : sel_met hz org st = [] -> Forall nomm (met_effs hz org st).
  Proof. intros E. rewrite met_effs_nil by exact E. constructor. Qed.

  Section Interrupt.
    Variables (hz : N) (org : Z) (st : store).
    Hypothesis Hwf : wf st = true.
    Let W : WF st := wf_WF st Hwf.
    Let exp := expired hz org.
    Let nexp := fun s => negb (expired hz org s).

    Lemma pass_effs_unfold :
      pass_effs hz org st = log_effs hz org st ++ met_effs hz org (st_log hz org st) ++ vt_effs org (st_met hz org st).
    Proof. reflexivity. Qed.

    Lemma post_log_noseg : Forall noseg (met_effs hz org (st_log hz org st) ++ vt_effs org (st_met hz org st)).
    Proof. apply Forall_app. split; [apply met_effs_frame|apply vt_effs_props]. Qed.

    (* after any prefix segmeta.json is the old file, or the new one and then every selected
       log segment directory is already gone (segmeta.json is rewritten last) *)
    Lemma prefix_segmeta k :
      let X := interrupted k hz org st in
      segmeta X = segmeta st \/
      (segmeta X = filter nexp (segmeta st) /\
       forall s, In s (segmeta st) -> exp s = true -> forall q, is_prefix (s_dir s) q = true -> ~ In q (dirs X)).
    Proof.
      cbn zeta. unfold Retention.interrupted. rewrite segmeta_apply, dirs_apply, pass_effs_unfold.
      destruct (sel_log hz org st) eqn:E.
      - left. rewrite log_effs_nil by exact E. cbn [app]. apply fold_seg_noseg. apply Forall_firstn. apply post_log_noseg.
      - rewrite log_effs_shape by congruence.
        set (R := map (fun s0 => ERm (s_dir s0)) (ord (sel_log hz org st))).
        set (D := map (fun s0 => EMemDel (s_dir s0)) (ord (sel_log hz org st))).
        set (post := met_effs hz org (st_log hz org st) ++ vt_effs org (st_met hz org st)).
        assert (KF : keep_of (sel_log hz org st) (segmeta st) = filter nexp (segmeta st))
          by (unfold sel_log; apply keep_of_filter; apply wf_nd_seg; exact W).
        assert (GONE : forall s0, In s0 (segmeta st) -> exp s0 = true -> forall q, is_prefix (s_dir s0) q = true ->
                       ~ In q (fold_left step_dirs R (dirs st))).
        { intros s0 Hs Hx q Hq H. unfold R in H. apply fold_dirs_rm in H as [_ H].
          assert (In s0 (ord (sel_log hz org st))) by (apply ord_In; apply filter_In; auto).
          apply H in H0. rewrite Hq in H0. discriminate. }
        assert (NR : Forall noseg R) by (apply Forall_map_eff; intros; exact I).
        assert (NDl : Forall noseg D) by (apply Forall_map_eff; intros; exact I).
        unfold log_tail. rewrite KF. destruct (filter nexp (segmeta st)) as [|a r] eqn:EK.
        + (* nothing preserved: the file is removed *)
          replace ((R ++ D ++ [ESegRemove]) ++ post) with ((R ++ D) ++ ESegRemove :: post) by (rewrite <- !app_assoc; reflexivity).
          destruct (seg_split_prefix R D post ESegRemove [] (segmeta st) (dirs st) k) as [H|[H1 H2]]; auto.
          * apply Forall_app; auto.
          * apply post_log_noseg.
          * right. split; auto. intros s0 Hs Hx q Hq Hin. apply H2 in Hin. eapply GONE; eauto.
        + replace ((R ++ D ++ [ESegTmp true (a :: r); ESegSet (a :: r)]) ++ post) with ((R ++ (D ++ [ESegTmp true (a :: r)])) ++ ESegSet (a :: r) :: post)
            by (rewrite <- !app_assoc; reflexivity).
          destruct (seg_split_prefix R (D ++ [ESegTmp true (a :: r)]) post (ESegSet (a :: r)) (a :: r) (segmeta st) (dirs st) k) as [H|[H1 H2]]; auto.
          * repeat (apply Forall_app; split); auto. repeat constructor.
          * apply post_log_noseg.
          * right. split; auto. intros s0 Hs Hx q Hq Hin. apply H2 in Hin. eapply GONE; eauto.
    Qed.

    Let MM1 : mmeta (st_log hz org st) = mmeta st.
    Proof. unfold st_log. destruct (log_frame hz org st) as [E _]. exact E. Qed.

    Lemma met_tts_log : met_tts hz org (st_log hz org st) = met_tts hz org st.
    Proof. unfold met_tts, met_keep, met_removed. rewrite sel_met_log, MM1. reflexivity. Qed.

    (* after any prefix metricmeta.json is the old file, or the new one and then every selected
       metrics segment directory AND every tags-tree directory that goes with them is already gone
       (the file is rewritten last) *)
    Lemma prefix_mmeta k :
      let X := interrupted k hz org st in
      mmeta X = mmeta st \/
      (mmeta X = filter nexp (mmeta st) /\
       (forall s, In s (mmeta st) -> exp s = true -> ~ In (s_dir s) (dirs X)) /\
       (forall t q, In t (met_tts hz org st) -> is_prefix t q = true -> ~ In q (dirs X))).
    Proof.
      cbn zeta. unfold Retention.interrupted. rewrite mmeta_apply, dirs_apply, pass_effs_unfold.
      pose proof (log_effs_frame hz org st) as [_ [NL _]].
      pose proof (vt_effs_props org (st_met hz org st)) as [_ [_ [_ [_ NV]]]]. cbn zeta in NV.
      destruct (sel_met hz org st) eqn:E.
      - left. apply fold_mm_nomm. apply Forall_firstn. repeat (apply Forall_app; split); auto.
        apply met_effs_nomm_when_nil. rewrite sel_met_log. exact E.
      - assert (NE : sel_met hz org (st_log hz org st) <> []) by (rewrite sel_met_log; congruence).
        rewrite (met_effs_shape hz org (st_log hz org st) NE).
        set (mes := map (fun s0 => EMMemDel (s_dir s0)) (ord (sel_met hz org (st_log hz org st)))).
        set (dph := met_dir_phase (sel_met hz org (st_log hz org st)) (mmeta (st_log hz org st)) (dirs (st_log hz org st))).
        set (tts := tt_phase (met_tts hz org (st_log hz org st)) (snd dph)).
        set (le := log_effs hz org st).
        set (ve := vt_effs org (st_met hz org st)).
        assert (KF : met_keep hz org (st_log hz org st) = filter nexp (mmeta st)).
        { unfold met_keep. rewrite sel_met_log, MM1. unfold sel_met. apply keep_of_filter. apply wf_nd_mm. exact W. }
        set (R := le ++ mes ++ fst dph ++ tts).
        assert (GONE : forall s0, In s0 (mmeta st) -> exp s0 = true -> ~ In (s_dir s0) (fold_left step_dirs R (dirs st))).
        { intros s0 Hs Hx. assert (Hsel : In s0 (sel_met hz org (st_log hz org st))) by (rewrite sel_met_log; apply filter_In; auto).
          pose proof (met_dir_phase_has (sel_met hz org (st_log hz org st)) (mmeta (st_log hz org st)) (dirs (st_log hz org st)) s0) as HI.
          assert (Hs' : In s0 (mmeta (st_log hz org st))) by (rewrite MM1; exact Hs).
          specialize (HI Hs' (in_sel_self _ _ Hsel)). fold dph in HI.
          apply in_split in HI as [a [b HI]]. unfold R. rewrite HI.
          replace (le ++ mes ++ (a ++ ERm (s_dir s0) :: b) ++ tts) with ((le ++ mes ++ a) ++ ERm (s_dir s0) :: (b ++ tts)) by (rewrite <- !app_assoc; reflexivity).
          apply fold_dirs_removed. apply is_prefix_refl. }
        assert (TGONE : forall t q, In t (met_tts hz org st) -> is_prefix t q = true -> ~ In q (fold_left step_dirs R (dirs st))).
        { intros t q Ht Hq. rewrite <- met_tts_log in Ht.
          pose proof (tt_phase_has (met_tts hz org (st_log hz org st)) (snd dph) t Ht) as HI. fold tts in HI.
          apply in_split in HI as [a [b HI]]. unfold R. rewrite HI.
          replace (le ++ mes ++ fst dph ++ a ++ ERm t :: b) with ((le ++ mes ++ fst dph ++ a) ++ ERm t :: b) by (rewrite <- !app_assoc; reflexivity).
          apply fold_dirs_removed. exact Hq. }
        assert (NR : Forall nomm R).
        { unfold R. repeat (apply Forall_app; split); auto.
          - apply Forall_map_eff; intros; exact I.
          - eapply within_noseg. apply met_dir_phase_within.
          - eapply within_noseg. apply tt_phase_within. }
        unfold met_tail. rewrite KF. destruct (filter nexp (mmeta st)) as [|a r] eqn:EK.
        + replace (le ++ (mes ++ fst dph ++ tts ++ [EMmRemove]) ++ ve) with ((R ++ []) ++ EMmRemove :: ve)
            by (unfold R; rewrite <- !app_assoc; reflexivity).
          destruct (mm_split_prefix R [] ve EMmRemove [] (mmeta st) (dirs st) k) as [H|[H1 H2]]; auto.
          * rewrite app_nil_r. exact NR.
          * right. split; auto. split.
            -- intros s0 Hs Hx Hin. apply H2 in Hin. eapply GONE; eauto.
            -- intros t q Ht Hq Hin. apply H2 in Hin. eapply TGONE; eauto.
        + replace (le ++ (mes ++ fst dph ++ tts ++ [EMmTmp; EMmSet (a :: r)]) ++ ve) with ((R ++ [EMmTmp]) ++ EMmSet (a :: r) :: ve)
            by (unfold R; rewrite <- !app_assoc; reflexivity).
          destruct (mm_split_prefix R [EMmTmp] ve (EMmSet (a :: r)) (a :: r) (mmeta st) (dirs st) k) as [H|[H1 H2]]; auto.
          * apply Forall_app. split; auto. repeat constructor.
          * right. split; auto. split.
            -- intros s0 Hs Hx Hin. apply H2 in Hin. eapply GONE; eauto.
            -- intros t q Ht Hq Hin. apply H2 in Hin. eapply TGONE; eauto.
    Qed.

    Lemma prefix_unrot k : unrot (interrupted k hz org st) = unrot st.
    Proof. unfold Retention.interrupted. apply unrot_apply. Qed.

    Lemma prefix_dirs_incl k : incl (dirs (interrupted k hz org st)) (dirs st).
    Proof. unfold Retention.interrupted. rewrite dirs_apply. apply fold_dirs_incl. Qed.

    (* no effect of the pass can remove the directory of a line that is not selected *)
    Lemma pass_effs_safe s : In s (segmeta st ++ mmeta st ++ unrot st) ->
      (In s (unrot st) \/ exp s = false) -> Forall (safe_for (s_dir s)) (pass_effs hz org st).
    Proof.
      intros Hs Hne.
      assert (NS : forall x, (In x (sel_log hz org st) \/ In x (sel_met hz org st)) -> x <> s).
      { intros x Hx ->. destruct Hne as [Hu|Hne].
        - pose proof (wf_nodup _ W) as ND. unfold seg_dirs in ND.
          destruct Hx as [Hx|Hx].
          + apply sel_log_sub in Hx as [Hx _]. eapply (NoDup_app_disj _ _ (s_dir s) ND); [apply in_map; exact Hx|].
            apply in_or_app. right. apply in_map. exact Hu.
          + apply sel_met_sub in Hx as [Hx _]. apply NoDup_app_r in ND.
            eapply (NoDup_app_disj _ _ (s_dir s) ND); apply in_map; eauto.
        - unfold exp in Hne. destruct Hx as [Hx|Hx]; [apply sel_log_sub in Hx|apply sel_met_sub in Hx]; destruct Hx; congruence. }
      rewrite pass_effs_unfold. repeat (apply Forall_app; split).
      - destruct (sel_log hz org st) eqn:E.
        + rewrite log_effs_nil by exact E. constructor.
        + rewrite log_effs_shape by congruence. repeat (apply Forall_app; split).
          * apply Forall_forall. intros e He. apply in_map_iff in He as [x [<- Hx]]. cbn. apply (proj1 (ord_In _ _)) in Hx.
            assert (Hx1 : In x (segmeta st ++ mmeta st ++ unrot st))
              by (apply sel_log_sub in Hx as [Hx _]; apply in_or_app; auto).
            destruct (wf_same_or_apart st W x s Hx1 Hs) as [->|H].
            -- exfalso. eapply NS; [left; rewrite <- E; exact Hx|reflexivity].
            -- unfold apart in H. apply andb_true_iff in H as [H _]. apply negb_true_iff in H. exact H.
          * apply Forall_map_eff. intros; exact I.
          * unfold log_tail. destruct (keep_of _ _); repeat constructor.
      - apply met_effs_safe. rewrite met_targets_log. intros t Ht.
        unfold met_targets in Ht. apply in_app_or in Ht as [Ht|Ht].
        + apply in_map_iff in Ht as [x [<- Hxs]].
          assert (Hx1 : In x (segmeta st ++ mmeta st ++ unrot st))
            by (apply sel_met_sub in Hxs as [Hxs _]; apply in_or_app; right; apply in_or_app; auto).
          destruct (wf_same_or_apart st W s x Hs Hx1) as [->|H]; auto.
          exfalso. eapply NS; eauto.
        + apply (wf_tt _ W); auto. apply in_seg_dirs. exact Hs.
      - destruct (vt_effs_props org (st_met hz org st)) as [NDV _]. eapply Forall_impl; [|exact NDV]. intros e. apply nodir_safe.
    Qed.

    Lemma prefix_dirs_surv k s : In s (segmeta st ++ mmeta st ++ unrot st) ->
      (In s (unrot st) \/ exp s = false) -> In (s_dir s) (dirs st) -> In (s_dir s) (dirs (interrupted k hz org st)).
    Proof.
      intros Hs Hne Hd. unfold Retention.interrupted. rewrite dirs_apply. apply fold_dirs_safe; auto.
      apply Forall_firstn. apply pass_effs_safe; auto.
    Qed.

    (* ---- the state after restart and a full pass does not depend on where the pass was stopped ---- *)
    (* the repeated pass may run later than the interrupted one: its horizon hz2 is not older,
       so it may select more segments *)
    Variable hz2 : N.
    Hypothesis Hhz : hz <= hz2.
    Let exp2 := expired hz2 org.
    Let nexp2 := fun s => negb (expired hz2 org s).

    Lemma exp_mono s : exp s = true -> exp2 s = true.
    Proof. unfold exp, exp2. rewrite !expired_spec_early. intros [H1 H2]. split; auto. lia. Qed.
    Lemma nexp2_nexp s : nexp2 s = true -> nexp s = true.
    Proof. unfold nexp2, nexp. rewrite !negb_true_iff. intros H. destruct (expired hz org s) eqn:E; auto. apply exp_mono in E. unfold exp2 in E. congruence. Qed.
    Lemma exp2_false_exp s : exp2 s = false -> exp s = false.
    Proof. intros H. destruct (exp s) eqn:E; auto. apply exp_mono in E. congruence. Qed.

    Lemma filter_mono {A} (f g : A -> bool) l : (forall x, g x = true -> f x = true) -> filter g (filter f l) = filter g l.
    Proof.
      intros H. induction l as [|a r IH]; cbn; auto. destruct (f a) eqn:E; cbn; [rewrite IH; reflexivity|].
      destruct (g a) eqn:G; auto. apply H in G. congruence.
    Qed.

    Definition Yk (k : nat) : store := restart (interrupted k hz org st).
    Definition FL : list seg := filter nexp2 (segmeta st ++ unrot st).
    Definition FM : list seg := filter nexp2 (mmeta st).

    Lemma Yk_segmeta k : segmeta (Yk k) = segmeta (interrupted k hz org st) ++ unrot st.
    Proof. unfold Yk, restart. cbn. rewrite prefix_unrot. reflexivity. Qed.
    Lemma Yk_mmeta k : mmeta (Yk k) = mmeta (interrupted k hz org st).
    Proof. reflexivity. Qed.
    Lemma Yk_mem k : mem (Yk k) = map s_dir (segmeta (Yk k)).
    Proof. reflexivity. Qed.
    Lemma Yk_mmem k : mmem (Yk k) = map s_dir (mmeta (Yk k)).
    Proof. reflexivity. Qed.
    Lemma Yk_dirs k : dirs (Yk k) = dirs (interrupted k hz org st).
    Proof. reflexivity. Qed.

    Lemma filter_idem {A} (f : A -> bool) l : filter f (filter f l) = filter f l.
    Proof. induction l as [|a r IH]; cbn; auto. destruct (f a) eqn:E; cbn; rewrite ?E, IH; reflexivity. Qed.

    Lemma Yk_seg_filter k : filter nexp2 (segmeta (Yk k)) = FL.
    Proof.
      rewrite Yk_segmeta. unfold FL. rewrite !filter_app. f_equal.
      destruct (prefix_segmeta k) as [E|[E _]]; cbn zeta in E; rewrite E; auto. apply filter_mono. exact nexp2_nexp.
    Qed.
    Lemma Yk_mm_filter k : filter nexp2 (mmeta (Yk k)) = FM.
    Proof.
      rewrite Yk_mmeta. unfold FM.
      destruct (prefix_mmeta k) as [E|[E _]]; cbn zeta in E; rewrite E; auto. apply filter_mono. exact nexp2_nexp.
    Qed.

    Lemma Yk_seg_sub k s : In s (segmeta (Yk k)) -> In s (segmeta st ++ unrot st).
    Proof.
      rewrite Yk_segmeta. intros H. apply in_app_or in H. apply in_or_app. destruct H as [H|H]; auto. left.
      destruct (prefix_segmeta k) as [E|[E _]]; cbn zeta in E; rewrite E in H; auto. apply filter_In in H. tauto.
    Qed.
    Lemma Yk_mm_sub k s : In s (mmeta (Yk k)) -> In s (mmeta st).
    Proof.
      rewrite Yk_mmeta. intros H.
      destruct (prefix_mmeta k) as [E|[E _]]; cbn zeta in E; rewrite E in H; auto. apply filter_In in H. tauto.
    Qed.

    Lemma NoDup_map_filter_app {A B} (f : A -> B) (g : A -> bool) l u : NoDup (map f (l ++ u)) -> NoDup (map f (filter g l ++ u)).
    Proof.
      induction l as [|a r IH]; cbn; intros H; auto. inversion H as [|? ? Hn H']; subst.
      destruct (g a); cbn; auto. constructor; auto. intros HI. apply Hn.
      apply in_map_iff in HI as [x [E Hx]]. rewrite <- E. apply in_map. apply in_app_or in Hx. apply in_or_app.
      destruct Hx as [Hx|Hx]; auto. apply filter_In in Hx. tauto.
    Qed.

    Lemma Yk_seg_nd k : NoDup (map s_dir (segmeta (Yk k))).
    Proof.
      rewrite Yk_segmeta. pose proof (wf_nd_seg_unrot st W) as H.
      destruct (prefix_segmeta k) as [E|[E _]]; cbn zeta in E; rewrite E; auto. apply NoDup_map_filter_app. exact H.
    Qed.
    Lemma Yk_mm_nd k : NoDup (map s_dir (mmeta (Yk k))).
    Proof.
      rewrite Yk_mmeta. pose proof (wf_nd_mm st W) as H.
      destruct (prefix_mmeta k) as [E|[E _]]; cbn zeta in E; rewrite E; auto. apply NoDup_map_filter. exact H.
    Qed.

    Lemma listing_mem_char (f : seg -> bool) L q : NoDup (map s_dir L) ->
      (In q (map s_dir L) /\ forall s, In s (filter f L) -> s_dir s <> q) <-> In q (map s_dir (filter (fun s => negb (f s)) L)).
    Proof.
      intros ND. split.
      - intros [H1 H2]. apply in_map_iff in H1 as [s [E Hs]]. apply in_map_iff. exists s. split; auto.
        apply filter_In. split; auto. destruct (f s) eqn:F; auto. exfalso. apply (H2 s); auto. apply filter_In; auto.
      - intros H. apply in_map_iff in H as [s [E Hs]]. apply filter_In in Hs as [Hs F]. split; [apply in_map_iff; eauto|].
        intros x Hx Ex. apply filter_In in Hx as [Hx Fx].
        assert (x = s) by (eapply NoDup_map_inj; eauto; congruence). subst. rewrite Fx in F. discriminate.
    Qed.

    Lemma canon_segmeta k : segmeta (run hz2 org (Yk k)) = FL.
    Proof. rewrite run_segmeta. unfold sel_log. rewrite keep_of_filter by apply Yk_seg_nd. apply Yk_seg_filter. Qed.

    Lemma canon_mmeta k : mmeta (run hz2 org (Yk k)) = FM.
    Proof.
      rewrite run_mmeta. unfold sel_met.
      rewrite keep_of_filter by apply Yk_mm_nd. apply Yk_mm_filter.
    Qed.

    Lemma canon_mem k q : In q (mem (run hz2 org (Yk k))) <-> In q (map s_dir FL).
    Proof.
      etransitivity; [apply run_mem|]. rewrite Yk_mem.
      etransitivity; [apply (listing_mem_char exp2 (segmeta (Yk k)) q (Yk_seg_nd k))|].
      fold nexp2. rewrite Yk_seg_filter. reflexivity.
    Qed.

    Lemma canon_mmem k q : In q (mmem (run hz2 org (Yk k))) <-> In q (map s_dir FM).
    Proof.
      etransitivity; [apply (run_mmem hz2 org (Yk k))|]. rewrite Yk_mmem.
      etransitivity; [apply (listing_mem_char exp2 (mmeta (Yk k)) q (Yk_mm_nd k))|].
      fold nexp2. rewrite Yk_mm_filter. reflexivity.
    Qed.

    Lemma canon_unrot k : unrot (run hz2 org (Yk k)) = [].
    Proof. rewrite run_unrot. reflexivity. Qed.

    Lemma canon_dirs k s : In s (segmeta st ++ mmeta st ++ unrot st) ->
      (In (s_dir s) (dirs (run hz2 org (Yk k))) <-> In (s_dir s) (dirs st) /\ exp2 s = false).
    Proof.
      intros Hs. split.
      - intros H. assert (HX : In (s_dir s) (dirs (interrupted k hz org st))) by (rewrite <- Yk_dirs; eapply run_dirs_incl; exact H).
        split; [eapply prefix_dirs_incl; exact HX|].
        destruct (exp2 s) eqn:Ex; auto. exfalso.
        apply in_app_or in Hs as [Hs|Hs]; [|apply in_app_or in Hs as [Hs|Hs]].
        + pose proof (prefix_segmeta k) as PS; cbn zeta in PS; destruct PS as [E|[E G]].
          * eapply (run_dirs_gone_log hz2 org (Yk k) s); eauto using is_prefix_refl.
            apply filter_In. split; auto. rewrite Yk_segmeta, E. apply in_or_app. auto.
          * destruct (exp s) eqn:Ex1; [eapply G; eauto using is_prefix_refl|].
            eapply (run_dirs_gone_log hz2 org (Yk k) s); eauto using is_prefix_refl.
            apply filter_In. split; auto. rewrite Yk_segmeta, E. apply in_or_app. left. apply filter_In. split; auto.
            unfold nexp. unfold exp in Ex1. rewrite Ex1. reflexivity.
        + pose proof (prefix_mmeta k) as PS; cbn zeta in PS; destruct PS as [E|[E [G _]]].
          * eapply (run_dirs_gone_met hz2 org (Yk k) s); eauto using is_prefix_refl.
            apply filter_In. split; auto. rewrite Yk_mmeta, E. exact Hs.
          * destruct (exp s) eqn:Ex1; [eapply G; eauto|].
            eapply (run_dirs_gone_met hz2 org (Yk k) s); eauto using is_prefix_refl.
            apply filter_In. split; auto. rewrite Yk_mmeta, E. apply filter_In. split; auto.
            unfold nexp. unfold exp in Ex1. rewrite Ex1. reflexivity.
        + eapply (run_dirs_gone_log hz2 org (Yk k) s); eauto using is_prefix_refl.
          apply filter_In. split; auto. rewrite Yk_segmeta. apply in_or_app. auto.
      - intros [Hd Ex]. apply run_dirs_safe.
        + rewrite Yk_dirs. apply prefix_dirs_surv; auto using exp2_false_exp.
        + intros x Hx. apply sel_log_sub in Hx as [Hx Ee]. apply Yk_seg_sub in Hx.
          assert (Hx1 : In x (segmeta st ++ mmeta st ++ unrot st)).
          { apply in_app_or in Hx. apply in_or_app. destruct Hx; auto. right. apply in_or_app. auto. }
          destruct (wf_same_or_apart st W x s Hx1 Hs) as [->|H]; [unfold exp2 in Ex; congruence|].
          unfold apart in H. apply andb_true_iff in H as [H _]. apply negb_true_iff in H. exact H.
        + intros t Ht. unfold met_targets in Ht. apply in_app_or in Ht as [Ht|Ht].
          * apply in_map_iff in Ht as [x [<- Hx]]. apply sel_met_sub in Hx as [Hx Ee]. apply Yk_mm_sub in Hx.
            assert (Hx1 : In x (segmeta st ++ mmeta st ++ unrot st)) by (apply in_or_app; right; apply in_or_app; auto).
            destruct (wf_same_or_apart st W s x Hs Hx1) as [->|H]; [unfold exp2 in Ex; congruence|exact H].
          * apply in_map_iff in Ht as [x [<- Hx]]. apply Yk_mm_sub in Hx.
            apply (wf_tt _ W); [apply in_map; exact Hx|apply in_seg_dirs; exact Hs].
    Qed.

    (* no tags-tree directory of a removed metrics segment is left behind, wherever the pass was stopped *)
    Lemma tt_gone_listed k s q : In s (mmeta (Yk k)) -> exp2 s = true ->
      (forall s', In s' (mmeta st) -> exp2 s' = false -> s_tt s' <> s_tt s) ->
      is_prefix (s_tt s) q = true -> ~ In q (dirs (run hz2 org (Yk k))).
    Proof.
      intros Hs Ex Hn Hq. apply run_tt_gone with (t := s_tt s); auto.
      apply met_tts_In.
      - apply filter_In. split; auto.
      - intros s' Hs' Ex'. apply Hn; auto. apply Yk_mm_sub in Hs'. exact Hs'.
      - apply Yk_mm_nd.
    Qed.

    Theorem interrupted_tagstree_removed k s q : In s (mmeta st) -> exp2 s = true ->
      (forall s', In s' (mmeta st) -> exp2 s' = false -> s_tt s' <> s_tt s) ->
      is_prefix (s_tt s) q = true -> ~ In q (dirs (run hz2 org (Yk k))).
    Proof.
      intros Hs Ex Hn Hq.
      pose proof (prefix_mmeta k) as PS; cbn zeta in PS; destruct PS as [E|[E [_ GT]]].
      - apply (tt_gone_listed k s q); auto. rewrite Yk_mmeta, E. exact Hs.
      - destruct (exp s) eqn:Ex1.
        + (* removed by the interrupted pass; is its tags tree still named by a line that pass preserved? *)
          destruct (mem_path (s_tt s) (map s_tt (filter nexp (mmeta st)))) eqn:EM.
          * apply mem_path_In in EM. apply in_map_iff in EM as [s1 [Et Hs1]]. apply filter_In in Hs1 as [Hs1 N1].
            assert (Ex2 : exp2 s1 = true).
            { destruct (exp2 s1) eqn:E2; auto. exfalso. eapply Hn; eauto. }
            apply (tt_gone_listed k s1 q); auto.
            -- rewrite Yk_mmeta, E. apply filter_In. auto.
            -- intros s' Hs' E'. rewrite Et. apply Hn; auto.
            -- rewrite Et. exact Hq.
          * intros HI. apply run_dirs_incl in HI. rewrite Yk_dirs in HI. revert HI. apply (GT (s_tt s)); auto.
            apply met_tts_In.
            -- apply filter_In. auto.
            -- intros s' Hs' E' Et. apply mem_path_false in EM. apply EM. rewrite <- Et. apply in_map. apply filter_In. split; auto.
               unfold nexp. rewrite E'. reflexivity.
            -- apply wf_nd_mm. exact W.
        + apply (tt_gone_listed k s q); auto. rewrite Yk_mmeta, E. apply filter_In. split; auto.
          unfold nexp. unfold exp in Ex1. rewrite Ex1. reflexivity.
    Qed.

    Lemma Yk_0 : Yk 0 = restart st.
    Proof. reflexivity. Qed.

    Theorem interrupted_then_repeated_data k :
      let A := run hz2 org (restart (interrupted k hz org st)) in
      let B := run hz2 org (restart st) in
      segmeta A = segmeta B /\ mmeta A = mmeta B /\ unrot A = unrot B /\
      (forall q, In q (mem A) <-> In q (mem B)) /\
      (forall q, In q (mmem A) <-> In q (mmem B)) /\
      (forall s, In s (segmeta st ++ mmeta st ++ unrot st) -> (In (s_dir s) (dirs A) <-> In (s_dir s) (dirs B))).
    Proof.
      cbn zeta. rewrite <- Yk_0. fold (Yk k).
      rewrite !canon_segmeta, !canon_mmeta, !canon_unrot. repeat split; auto.
      - rewrite !canon_mem. auto.
      - rewrite !canon_mem. auto.
      - rewrite !canon_mmem. auto.
      - rewrite !canon_mmem. auto.
      - rewrite !canon_dirs by assumption. auto.
      - rewrite !canon_dirs by assumption. auto.
    Qed.

    (* ---- survivors stay searchable across interruption, restart and the repeated pass ---- *)
    Definition vt_safe (o : Z) (t : N) (e : eff) : Prop :=
      match e with EVtSet o' l => o' = o -> In t l | EVtTrunc o' => o' <> o | _ => True end.

    Lemma fold_vt_safe o t es : forall vt, Forall (vt_safe o t) es -> In (o, t) vt -> In (o, t) (fold_left step_vt es vt).
    Proof.
      induction es as [|e es IH]; intros vt HF Hv; cbn; auto. inversion HF as [|? ? He HF']; subst.
      apply IH; auto. destruct e; cbn in *; auto.
      - apply in_or_app. destruct (Z.eq_dec org0 o) as [->|Hne].
        + right. apply in_map. auto.
        + left. apply In_other_orgs. auto.
      - apply In_other_orgs. auto.
    Qed.

    Lemma novt_vt_safe o t e : novt e -> vt_safe o t e.
    Proof. destruct e; cbn; tauto. Qed.

    Lemma vt_phase_safe o t cands : forall cur, (o = org -> In t cur /\ ~ In t cands) -> Forall (vt_safe o t) (vt_phase org cands cur).
    Proof.
      induction cands as [|a r IH]; intros cur H; cbn; [constructor|].
      constructor; [exact I|]. constructor.
      - cbn. intros E. symmetry in E. destruct (H E) as [H1 H2]. apply filter_In. split; auto.
        apply negb_true_iff, N.eqb_neq. intros ->. apply H2. cbn. auto.
      - apply IH. intros E. destruct (H E) as [H1 H2]. split.
        + apply filter_In. split; auto. apply negb_true_iff, N.eqb_neq. intros ->. apply H2. cbn. auto.
        + intros Hr. apply H2. cbn. auto.
    Qed.

    Lemma pass_effs_vt_safe s : In s (segmeta st ++ unrot st) -> exp s = false -> In (s_org s, s_table s) (vtables st) ->
      Forall (vt_safe (s_org s) (s_table s)) (pass_effs hz org st).
    Proof.
      intros Hs Ex Hv. rewrite pass_effs_unfold. repeat (apply Forall_app; split).
      - destruct (log_effs_frame hz org st) as [_ [_ H]]. eapply Forall_impl; [|exact H]. intros e. apply novt_vt_safe.
      - destruct (met_effs_frame hz org (st_log hz org st)) as [_ [_ H]]. eapply Forall_impl; [|exact H]. intros e. apply novt_vt_safe.
      - unfold Retention.vt_effs. apply vt_phase_safe. intros Eo.
        assert (EV : vtables (st_met hz org st) = vtables st).
        { unfold st_met. destruct (met_frame hz org (st_log hz org st)) as [_ [_ [E _]]]. cbn in E. rewrite E.
          unfold st_log. destruct (log_frame hz org st) as [_ [_ [E2 _]]]. exact E2. }
        split.
        + apply In_org_tables. rewrite EV, <- Eo. exact Hv.
        + intros HI. apply (Permutation_in _ (ordn_perm _)) in HI. apply filter_In in HI as [_ HI]. apply negb_true_iff in HI.
          assert (HU : In (s_table s) (in_use (st_met hz org st))).
          { unfold in_use. apply in_map.
            assert (E2 : segmeta (st_met hz org st) = filter nexp (segmeta st)).
            { unfold st_met. destruct (met_frame hz org (st_log hz org st)) as [E _]. cbn in E. rewrite E.
              unfold st_log. rewrite log_segmeta. unfold sel_log. apply keep_of_filter. apply wf_nd_seg. exact W. }
            assert (E3 : unrot (st_met hz org st) = unrot st) by (unfold st_met, st_log; rewrite !unrot_apply; reflexivity).
            rewrite E2, E3. apply in_app_or in Hs. apply in_or_app. destruct Hs as [Hs|Hs]; auto. left.
            apply filter_In. split; auto. unfold nexp. unfold exp in Ex. rewrite Ex. reflexivity. }
          assert (existsb (N.eqb (s_table s)) (in_use (st_met hz org st)) = true)
            by (apply existsb_exists; exists (s_table s); split; auto; apply N.eqb_refl).
          congruence.
    Qed.

    Theorem interrupted_survivor_searchable k s :
      In s (segmeta st ++ mmeta st ++ unrot st) -> exp2 s = false -> In (s_dir s) (dirs st) ->
      (s_kind s = KLog -> has_table st s = true) ->
      searchable (run hz2 org (restart (interrupted k hz org st))) s = true.
    Proof.
      intros Hs Ex Hd Ht. fold (Yk k).
      assert (HD : In (s_dir s) (dirs (run hz2 org (Yk k)))) by (apply canon_dirs; auto).
      assert (NE : nexp2 s = true) by (unfold nexp2; unfold exp2 in Ex; rewrite Ex; reflexivity).
      assert (Ex1 : exp s = false) by (apply exp2_false_exp; exact Ex).
      unfold searchable.
      assert (LOG : In s (segmeta st ++ unrot st) -> s_kind s = KLog /\
                (has_table (run hz2 org (Yk k)) s && mem_path (s_dir s) (mem (run hz2 org (Yk k))) && mem_path (s_dir s) (dirs (run hz2 org (Yk k))) = true)).
      { intros Hl. assert (K : s_kind s = KLog) by (apply (wf_log _ W); exact Hl). split; auto.
        assert (FLs : In s (FL)) by (unfold FL; apply filter_In; auto).
        apply andb_true_iff. split; [apply andb_true_iff; split|].
        - apply has_table_In. specialize (Ht K). apply has_table_In in Ht.
          apply run_vt_keeps.
          + change (vtables (Yk k)) with (vtables (interrupted k hz org st)). unfold Retention.interrupted.
            rewrite vtables_apply. apply fold_vt_safe; auto. apply Forall_firstn. apply pass_effs_vt_safe; auto.
          + unfold sel_log. rewrite keep_of_filter by apply Yk_seg_nd. fold nexp2. rewrite Yk_seg_filter.
            change (unrot (Yk k)) with (@nil seg). rewrite app_nil_r. apply in_map. exact FLs.
        - apply mem_path_In. apply canon_mem. apply in_map. exact FLs.
        - apply mem_path_In. exact HD. }
      apply in_app_or in Hs as [Hs|Hs]; [|apply in_app_or in Hs as [Hs|Hs]].
      - destruct LOG as [K H]; [apply in_or_app; auto|]. rewrite K. exact H.
      - rewrite (wf_met _ W s Hs). apply andb_true_iff. split; apply mem_path_In; auto.
        apply canon_mmem. apply in_map. unfold FM. apply filter_In. auto.
      - destruct LOG as [K H]; [apply in_or_app; auto|]. rewrite K. exact H.
    Qed.
  End Interrupt.

  (* ---------------- a stale segmeta.json.tmp ---------------- *)
  (* the temporary file is opened with O_TRUNC: whatever an interrupted pass left in it, the
     pass ends with segmeta.json = the lines that were not selected *)
  Theorem stale_tmp_harmless hz org st c : wf st = true ->
    let A := run hz org (with_seg_tmp st c) in
    segmeta A = filter (fun s => negb (expired hz org s)) (segmeta st) /\
    mmeta A = filter (fun s => negb (expired hz org s)) (mmeta st) /\
    segmeta A = segmeta (run hz org st) /\
    (forall s, In s (segmeta st ++ mmeta st) -> In (s_dir s) (dirs st) ->
       (In s (segmeta A ++ mmeta A) <-> In (s_dir s) (dirs A))).
  Proof.
    intros Hwf.
    assert (Hwf' : wf (with_seg_tmp st c) = true) by exact Hwf.
    destruct (metadata_lists_survivors hz org (with_seg_tmp st c) Hwf') as [A1 [A2 A3]].
    destruct (metadata_lists_survivors hz org st Hwf) as [B1 _].
    cbn zeta. split; [exact A1|]. split; [exact A2|]. split; [rewrite B1; exact A1|]. exact A3.
  Qed.

  (* ---------------- the full statement under the guard ---------------- *)
  Definition rm_or_nodir (e : eff) : Prop := match e with ERmEmpty _ => False | _ => True end.

  Lemma filter_filter {A} (f g : A -> bool) l : filter g (filter f l) = filter (fun x => f x && g x) l.
  Proof. induction l as [|a r IH]; cbn; auto. destruct (f a); cbn; [destruct (g a)|]; rewrite IH; reflexivity. Qed.

  Lemma dirs_is_filter es : Forall rm_or_nodir es -> exists f, forall ds, fold_left step_dirs es ds = filter f ds.
  Proof.
    induction 1 as [|e es He _ [f IH]].
    - exists (fun _ => true). intros ds. cbn. symmetry. apply filter_true.
    - destruct e; try (exists f; intros ds; cbn; apply IH); try contradiction.
      exists (fun q => negb (is_prefix p q) && f q). intros ds. cbn. rewrite IH. unfold rm_tree. apply filter_filter.
  Qed.

  Lemma filter_eq_of_In (f g : path -> bool) l :
    (forall q, In q l -> (In q (filter f l) <-> In q (filter g l))) -> filter f l = filter g l.
  Proof.
    intros H. apply filter_ext_in. intros q Hq. specialize (H q Hq). rewrite !filter_In in H.
    destruct (f q), (g q); auto; exfalso; [assert (false = true) by tauto|assert (false = true) by tauto]; discriminate.
  Qed.

  Lemma vt_effs_nil org S : (forall t, In t (org_tables org S) -> In t (in_use S)) -> vt_effs org S = [].
  Proof.
    intros H. unfold Retention.vt_effs.
    assert (E : filter (fun t => negb (existsb (N.eqb t) (in_use S))) (org_tables org S) = []).
    { destruct (filter _ (org_tables org S)) as [|a r] eqn:E; auto. exfalso.
      assert (Ha : In a (a :: r)) by (cbn; auto). rewrite <- E in Ha. apply filter_In in Ha as [Ha1 Ha2].
      apply negb_true_iff in Ha2. apply H in Ha1.
      assert (existsb (N.eqb a) (in_use S) = true) by (apply existsb_exists; exists a; split; auto; apply N.eqb_refl). congruence. }
    rewrite E. pose proof (ordn_perm []) as P. apply Permutation_sym, Permutation_nil in P. rewrite P. reflexivity.
  Qed.

  Lemma log_effs_rm hz org S : Forall rm_or_nodir (log_effs hz org S).
  Proof.
    destruct (sel_log hz org S) eqn:E.
    - rewrite log_effs_nil by exact E. constructor.
    - rewrite log_effs_shape by congruence. repeat (apply Forall_app; split); try (apply Forall_map_eff; intros; exact I).
      unfold log_tail. destruct (keep_of _ _); repeat constructor.
  Qed.

  Lemma vt_effs_rm org S : Forall rm_or_nodir (vt_effs org S).
  Proof. destruct (vt_effs_props org S) as [H _]. eapply Forall_impl; [|exact H]. intros e. destruct e; cbn; tauto. Qed.

  Section Guarded.
    Variables (hz : N) (org : Z) (st : store).
    Hypothesis Hwf : wf st = true.
    Hypothesis G : interrupt_guard hz org st = true.
    Let W : WF st := wf_WF st Hwf.
    Let nexp := fun s => negb (expired hz org s).

    Lemma g_nomet S : mmeta S = mmeta st -> sel_met hz org S = [].
    Proof.
      intros E. unfold sel_met. rewrite E. unfold interrupt_guard in G. apply andb_true_iff in G as [G1 _].
      unfold no_metrics_selected in G1. rewrite forallb_forall in G1.
      destruct (filter (expired hz org) (mmeta st)) as [|a r] eqn:Ef; auto. exfalso.
      assert (Ha : In a (a :: r)) by (cbn; auto). rewrite <- Ef in Ha. apply filter_In in Ha as [H1 H2].
      apply G1 in H1. rewrite H2 in H1. discriminate.
    Qed.


    Lemma g_tables t : In (org, t) (vtables st) -> In t (map s_table (FL org st hz)).
    Proof.
      intros H. unfold interrupt_guard in G. apply andb_true_iff in G as [_ G2]. unfold no_index_emptied in G2.
      rewrite forallb_forall in G2. apply G2 in H. cbn in H. rewrite Z.eqb_refl in H. cbn in H.
      apply existsb_exists in H as [x [Hx E]]. apply N.eqb_eq in E. subst. exact Hx.
    Qed.

    (* the pass on st, and on every restarted prefix state, consists of the log half only *)
    Lemma g_pass_effs : pass_effs hz org st = log_effs hz org st.
    Proof.
      rewrite pass_effs_unfold. rewrite met_effs_nil.
      2:{ apply g_nomet. unfold st_log. destruct (log_frame hz org st) as [E _]. exact E. }
      rewrite vt_effs_nil; [rewrite !app_nil_r; reflexivity|].
      intros t Ht. apply In_org_tables in Ht.
      assert (E1 : vtables (st_met hz org st) = vtables st).
      { unfold st_met. destruct (met_frame hz org (st_log hz org st)) as [_ [_ [E _]]]. cbn in E. rewrite E.
        unfold st_log. destruct (log_frame hz org st) as [_ [_ [E2 _]]]. exact E2. }
      rewrite E1 in Ht. apply g_tables in Ht. unfold in_use.
      assert (E2 : segmeta (st_met hz org st) = filter nexp (segmeta st)).
      { unfold st_met. destruct (met_frame hz org (st_log hz org st)) as [E _]. cbn in E. rewrite E.
        unfold st_log. rewrite log_segmeta. unfold sel_log. apply keep_of_filter. apply wf_nd_seg. exact W. }
      assert (E3 : unrot (st_met hz org st) = unrot st) by (unfold st_met, st_log; rewrite !unrot_apply; reflexivity).
      rewrite E2, E3. unfold FL in Ht. rewrite filter_app in Ht. rewrite !map_app in *.
      apply in_app_or in Ht. apply in_or_app. destruct Ht as [Ht|Ht]; auto. right.
      apply in_map_iff in Ht as [x [Ex Hx]]. apply filter_In in Hx as [Hx _]. rewrite <- Ex. apply in_map. exact Hx.
    Qed.

    Lemma g_prefix_frame k :
      let X := interrupted k hz org st in mmeta X = mmeta st /\ vtables X = vtables st.
    Proof.
      cbn zeta. unfold Retention.interrupted. rewrite g_pass_effs. rewrite mmeta_apply, vtables_apply.
      destruct (log_effs_frame hz org st) as [_ [A B]].
      rewrite fold_mm_nomm, fold_vt_novt by (apply Forall_firstn; assumption). auto.
    Qed.

    Lemma g_Y_vt k : vtables (run hz org (Yk hz org st k)) = vtables st /\ Forall rm_or_nodir (pass_effs hz org (Yk hz org st k)).
    Proof.
      set (Y := Yk hz org st k).
      assert (EM : mmeta Y = mmeta st) by (unfold Y; rewrite Yk_mmeta; apply g_prefix_frame).
      assert (EV : vtables Y = vtables st) by (unfold Y, Yk, restart; cbn; apply g_prefix_frame).
      assert (M0 : met_effs hz org (st_log hz org Y) = []).
      { apply met_effs_nil. apply g_nomet. unfold st_log. destruct (log_frame hz org Y) as [E _]. cbn in E. rewrite E. exact EM. }
      assert (V0 : vt_effs org (st_met hz org Y) = []).
      { apply vt_effs_nil. intros t Ht. apply In_org_tables in Ht.
        assert (E1 : vtables (st_met hz org Y) = vtables st).
        { unfold st_met. rewrite M0. cbn. unfold st_log. destruct (log_frame hz org Y) as [_ [_ [E2 _]]]. cbn in E2. rewrite E2. exact EV. }
        rewrite E1 in Ht. apply g_tables in Ht. unfold in_use.
        assert (E2 : segmeta (st_met hz org Y) = FL org st hz).
        { unfold st_met. rewrite M0. cbn. unfold st_log. rewrite log_segmeta. unfold sel_log.
          rewrite keep_of_filter by (apply (Yk_seg_nd hz org st Hwf k)). apply (Yk_seg_filter hz org st Hwf hz (N.le_refl hz) k). }
        assert (E3 : unrot (st_met hz org Y) = []) by (unfold st_met, st_log; rewrite !unrot_apply; reflexivity).
        rewrite E2, E3, app_nil_r. exact Ht. }
      split.
      - rewrite run_unfold. rewrite V0. cbn. unfold st_met. rewrite M0. cbn.
        unfold st_log. destruct (log_frame hz org Y) as [_ [_ [E2 _]]]. cbn in E2. rewrite E2. exact EV.
      - unfold Retention.pass_effs. cbn zeta. fold (st_log hz org Y). rewrite M0. cbn [app].
        apply Forall_app. split; [apply log_effs_rm|]. cbn. fold (st_log hz org Y).
        replace (apply_effs [] (st_log hz org Y)) with (st_log hz org Y) by reflexivity.
        apply vt_effs_rm.
    Qed.

    Lemma g_dirs_char k q : In q (dirs st) ->
      (In q (dirs (run hz org (Yk hz org st k))) <->
       forall s, In s (segmeta st ++ unrot st) -> expired hz org s = true -> is_prefix (s_dir s) q = false).
    Proof.
      intros Hq. set (Y := Yk hz org st k).
      assert (M0 : met_effs hz org (st_log hz org Y) = []).
      { apply met_effs_nil. apply g_nomet. unfold st_log. destruct (log_frame hz org Y) as [E _]. cbn in E. rewrite E.
        apply g_prefix_frame. }
      assert (DA : dirs (run hz org Y) = dirs (st_log hz org Y)).
      { rewrite run_dirs_eq. unfold st_met. rewrite M0. reflexivity. }
      rewrite DA. unfold st_log. rewrite log_dirs. unfold Y at 1. rewrite Yk_dirs.
      pose proof (prefix_segmeta hz org st Hwf k) as PS. cbn zeta in PS.
      split.
      - intros [HX HS] s Hs Ex. apply in_app_or in Hs as [Hs|Hs].
        + destruct PS as [E|[E GN]].
          * apply HS. apply filter_In. split; auto. unfold Y. rewrite Yk_segmeta, E. apply in_or_app. auto.
          * destruct (is_prefix (s_dir s) q) eqn:Ep; auto. exfalso. eapply GN; eauto.
        + apply HS. apply filter_In. split; auto. unfold Y. rewrite Yk_segmeta. apply in_or_app. auto.
      - intros H. split.
        + unfold Retention.interrupted. rewrite dirs_apply. apply fold_dirs_safe; auto.
          apply Forall_firstn. rewrite g_pass_effs.
          destruct (sel_log hz org st) eqn:E.
          * rewrite log_effs_nil by exact E. constructor.
          * rewrite log_effs_shape by congruence. repeat (apply Forall_app; split).
            -- apply Forall_forall. intros e He. apply in_map_iff in He as [x [<- Hx]]. cbn.
               apply (proj1 (ord_In _ _)) in Hx. apply sel_log_sub in Hx as [Hx Ex]. apply H; auto. apply in_or_app. auto.
            -- apply Forall_map_eff. intros; exact I.
            -- unfold log_tail. destruct (keep_of _ _); repeat constructor.
        + intros s Hs. apply sel_log_sub in Hs as [Hs Ex]. apply H; auto.
          unfold Y in Hs. apply (Yk_seg_sub hz org st Hwf hz k) in Hs. exact Hs.
    Qed.

    Theorem interrupted_then_repeated_guarded k :
      let A := run hz org (restart (interrupted k hz org st)) in
      let B := run hz org (restart st) in
      segmeta A = segmeta B /\ mmeta A = mmeta B /\ unrot A = unrot B /\
      (forall q, In q (mem A) <-> In q (mem B)) /\ (forall q, In q (mmem A) <-> In q (mmem B)) /\
      dirs A = dirs B /\ vtables A = vtables B.
    Proof.
      cbn zeta. destruct (interrupted_then_repeated_data hz org st Hwf hz (N.le_refl hz) k) as [A1 [A2 [A3 [A4 [A5 _]]]]]. cbn zeta in *.
      repeat split; try assumption; try apply A4; try apply A5.
      - (* directories: both sides are filters of the directories of st with the same members *)
        change (restart st) with (Yk hz org st 0). change (restart (interrupted k hz org st)) with (Yk hz org st k).
        destruct (g_Y_vt k) as [_ Fk]. destruct (g_Y_vt 0) as [_ F0].
        destruct (dirs_is_filter _ Fk) as [fk Hk]. destruct (dirs_is_filter _ F0) as [f0 H0].
        assert (PX : Forall rm_or_nodir (firstn k (pass_effs hz org st))) by (apply Forall_firstn; rewrite g_pass_effs; apply log_effs_rm).
        destruct (dirs_is_filter _ PX) as [fx Hx].
        assert (EA : dirs (run hz org (Yk hz org st k)) = filter (fun q => fx q && fk q) (dirs st)).
        { unfold Retention.run. rewrite dirs_apply, Hk. rewrite Yk_dirs. unfold Retention.interrupted. rewrite dirs_apply, Hx. apply filter_filter. }
        assert (EB : dirs (run hz org (Yk hz org st 0)) = filter f0 (dirs st)).
        { unfold Retention.run. rewrite dirs_apply, H0. reflexivity. }
        rewrite EA, EB. apply filter_eq_of_In. intros q Hq. rewrite <- EA, <- EB.
        rewrite (g_dirs_char k q Hq), (g_dirs_char 0 q Hq). reflexivity.
      - change (restart st) with (Yk hz org st 0). change (restart (interrupted k hz org st)) with (Yk hz org st k).
        destruct (g_Y_vt k) as [Ek _]. destruct (g_Y_vt 0) as [E0 _]. congruence.
    Qed.
  End Guarded.
End PassLemmas.

(* ------------------------------------------------------------------ reading [expired] *)
Lemma expired_spec hz org s : expired hz org s = true <-> s_org s = org /\ latest_ms s <= hz.
Proof. unfold expired. rewrite andb_true_iff, Z.eqb_eq, N.leb_le. tauto. Qed.

Lemma expired_false_newer hz org s : hz < latest_ms s -> expired hz org s = false.
Proof. intros H. destruct (expired hz org s) eqn:E; auto. apply expired_spec in E. lia. Qed.

Lemma expired_older hz org s : s_org s = org -> latest_ms s < hz -> expired hz org s = true.
Proof. intros H1 H2. apply expired_spec. split; auto. lia. Qed.

Lemma expired_boundary hz org s : s_org s = org -> latest_ms s = hz -> expired hz org s = true.
Proof. intros H1 H2. apply expired_spec. split; auto. lia. Qed.

Lemma metrics_latest_scaled s : s_kind s = KMet -> latest_ms s = s_latest s * 1000.
Proof. unfold latest_ms. intros ->. reflexivity. Qed.

(* ------------------------------------------------------------------ witnesses (identity iteration order) *)
Definition idl {A} (l : list A) : list A := l.
Lemma idl_perm {A} (l : list A) : Permutation (idl l) l.
Proof. apply Permutation_refl. Qed.

(* one expired metrics segment with its own tags tree next to a surviving one; the pass is
   stopped right after metricmeta.json has been renamed *)
Definition w_tt_store : store :=
  mkstore [] [mkseg [1;2;3;4] KMet 100 100 0 0 [1;5;3;4]; mkseg [1;2;6;4] KMet 100 900 0 0 [1;5;6;4]]
    [] [[1;2;3;4]; [1;2;6;4]]
    [[1]; [1;2]; [1;2;3]; [1;2;3;4]; [1;2;6]; [1;2;6;4]; [1;5]; [1;5;3]; [1;5;3;4]; [1;5;6]; [1;5;6;4]]
    [] None false [].

(* the code before the fix removed the tags-tree directories after the rename *)
Lemma tagstree_left_behind_witness :
  wf w_tt_store = true /\ mmem_ok 500000 0 w_tt_store /\
  dirs (run_prefix idl idl idl 500000 0 (restart (interrupted_prefix idl idl idl 5 500000 0 w_tt_store)))
  <> dirs (run_prefix idl idl idl 500000 0 (restart w_tt_store)) /\
  (* the repaired pass: every stop point of this store gives the same directories *)
  forallb (fun k => list_eqb path_eqb
                      (dirs (run idl idl idl 500000 0 (restart (interrupted idl idl idl k 500000 0 w_tt_store))))
                      (dirs (run idl idl idl 500000 0 (restart w_tt_store)))) (seq 0 12) = true.
Proof.
  split; [vm_compute; reflexivity|]. split.
  - intros s Hs. vm_compute in Hs. destruct Hs as [<-|[]]. vm_compute. auto.
  - split; [vm_compute; discriminate|vm_compute; reflexivity].
Qed.

(* one expired metrics segment alone in its shard: the climb removes [1;2;3] and then [1;2]; the code
   before the fix, stopped between the two, could not resume the climb from the missing [1;2;3] *)
Definition w_cl_store : store :=
  mkstore [] [mkseg [1;2;3;4] KMet 100 100 0 0 [1;5;3;4]]
    [] [[1;2;3;4]]
    [[1]; [1;2]; [1;2;3]; [1;2;3;4]; [1;5]; [1;5;3]; [1;5;3;4]; [1;9]]
    [] None false [].

Lemma empty_parent_left_behind_witness :
  wf w_cl_store = true /\
  In [1;2] (dirs (run_prefix idl idl idl 500000 0 (restart (interrupted_prefix idl idl idl 3 500000 0 w_cl_store)))) /\
  ~ In [1;2] (dirs (run_prefix idl idl idl 500000 0 (restart w_cl_store))) /\
  forallb (fun k => list_eqb path_eqb
                      (dirs (run idl idl idl 500000 0 (restart (interrupted idl idl idl k 500000 0 w_cl_store))))
                      (dirs (run idl idl idl 500000 0 (restart w_cl_store)))) (seq 0 12) = true.
Proof.
  split; [vm_compute; reflexivity|]. split; [vm_compute; auto 10|]. split; [|vm_compute; reflexivity].
  vm_compute. intros H. repeat (destruct H as [H|H]; try discriminate). exact H.
Qed.

(* index 1 loses its only segment, index 2 keeps one; the pass OF THE CODE BEFORE THE FIX is stopped
   between the truncation of the names file and the write of the remaining name *)
Definition w_vt_store : store :=
  mkstore [mkseg [1;2;3;4] KLog 100 100 0 1 []; mkseg [1;5;6;4] KLog 100 900 0 2 []] []
    [[1;2;3;4]; [1;5;6;4]] []
    [[1]; [1;2]; [1;2;3]; [1;2;3;4]; [1;5]; [1;5;6]; [1;5;6;4]]
    [] None false [(0%Z, 1); (0%Z, 2)].
Definition w_vt_seg : seg := mkseg [1;5;6;4] KLog 100 900 0 2 [].

Lemma names_file_truncated_witness :
  wf w_vt_store = true /\ In w_vt_seg (segmeta w_vt_store) /\ expired 500 0 w_vt_seg = false /\
  searchable w_vt_store w_vt_seg = true /\
  searchable (run idl idl idl 500 0 (restart w_vt_store)) w_vt_seg = true /\
  searchable (run_unfixed idl idl idl 500 0 (restart (interrupted_unfixed idl idl idl 5 500 0 w_vt_store))) w_vt_seg = false /\
  (* the repaired pass does not bring the names back either *)
  searchable (run idl idl idl 500 0 (restart (interrupted_unfixed idl idl idl 5 500 0 w_vt_store))) w_vt_seg = false.
Proof. repeat split; try (vm_compute; reflexivity). vm_compute. auto. Qed.

(* two expired metrics segments, one of them not yet in the in-memory metadata: neither is removed *)
Definition w_ab_store : store :=
  mkstore [] [mkseg [1;2;3;4] KMet 100 100 0 0 [1;5;3;4]; mkseg [1;2;6;4] KMet 100 100 0 0 [1;5;6;4]]
    [] [[1;2;3;4]]
    [[1]; [1;2]; [1;2;3]; [1;2;3;4]; [1;2;6]; [1;2;6;4]; [1;5]; [1;5;3]; [1;5;3;4]; [1;5;6]; [1;5;6;4]]
    [] None false [].
Definition w_ab_seg : seg := mkseg [1;2;3;4] KMet 100 100 0 0 [1;5;3;4].

(* the code before the fix: DeleteMetricsSegmentData returned at the entry that is not in memory *)
Lemma metrics_abort_witness :
  wf w_ab_store = true /\ In w_ab_seg (mmeta w_ab_store) /\ expired 500000 0 w_ab_seg = true /\
  In (s_dir w_ab_seg) (mmem w_ab_store) /\
  In w_ab_seg (mmeta (run_prefix idl idl idl 500000 0 w_ab_store)) /\
  In (s_dir w_ab_seg) (dirs (run_prefix idl idl idl 500000 0 w_ab_store)) /\
  searchable (run_prefix idl idl idl 500000 0 w_ab_store) w_ab_seg = false /\
  (* the repaired pass removes both expired segments *)
  mmeta (run idl idl idl 500000 0 w_ab_store) = [] /\ ~ In (s_dir w_ab_seg) (dirs (run idl idl idl 500000 0 w_ab_store)).
Proof.
  repeat split; try (vm_compute; reflexivity); try (vm_compute; auto; fail).
Qed.

(* the guard of the full interruption theorem is satisfiable by a store in which the pass has work to do *)
Definition w_g_store : store :=
  mkstore [mkseg [1;2;3;4] KLog 100 100 0 1 []; mkseg [1;2;3;5] KLog 100 900 0 1 []] []
    [[1;2;3;4]; [1;2;3;5]] []
    [[1]; [1;2]; [1;2;3]; [1;2;3;4]; [1;2;3;5]]
    [] None false [(0%Z, 1)].

Lemma guard_satisfiable :
  wf w_g_store = true /\ interrupt_guard 500 0 w_g_store = true /\ sel_log 500 0 w_g_store <> [].
Proof. repeat split; try (vm_compute; reflexivity). vm_compute. discriminate. Qed.


(* ------------------------------------------------------------------ the temporary file without O_TRUNC *)
(* segmeta.json = [A; C; L] (L rotated after the newer C).  A pass at horizon 300 selects A and is
   stopped after segmeta.json.tmp = [C; L] has been written.  The repeated pass runs when L has
   expired as well (horizon 500) and keeps only C: written over the stale file without truncation
   the result is [C; L], and the rename makes segmeta.json list L, whose directory is gone. *)
Definition w_nt_L : seg := mkseg [1;7;8;4] KLog 350 400 0 3 [].
Definition w_nt_store : store :=
  mkstore [mkseg [1;2;3;4] KLog 100 100 0 1 []; mkseg [1;5;6;4] KLog 100 900 0 2 []; w_nt_L] []
    [[1;2;3;4]; [1;5;6;4]; [1;7;8;4]] []
    [[1]; [1;2]; [1;2;3]; [1;2;3;4]; [1;5]; [1;5;6]; [1;5;6;4]; [1;7]; [1;7;8]; [1;7;8;4]]
    [] None false [(0%Z, 1); (0%Z, 2); (0%Z, 3)].

Lemma tmp_without_truncation_witness :
  wf w_nt_store = true /\ 300 <= 500 /\ expired 300 0 w_nt_L = false /\ expired 500 0 w_nt_L = true /\
  let X := restart (apply_effs (firstn 3 (pass_effs_notrunc idl idl idl 300 0 w_nt_store)) w_nt_store) in
  let A := run_notrunc idl idl idl 500 0 X in
  In w_nt_L (segmeta A) /\ ~ In (s_dir w_nt_L) (dirs A) /\
  (* the code (O_TRUNC) on the same interrupted state *)
  ~ In w_nt_L (segmeta (run idl idl idl 500 0 X)).
Proof.
  split; [vm_compute; reflexivity|]. split; [vm_compute; discriminate|].
  split; [vm_compute; reflexivity|]. split; [vm_compute; reflexivity|].
  cbn zeta. split; [vm_compute; auto|]. split; vm_compute; intros H; repeat (destruct H as [H|H]; try discriminate); auto.
Qed.

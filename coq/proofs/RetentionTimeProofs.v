(* RetentionTimeProofs.v — the retention horizon is a function of the instant and the retention
   alone (C14); the calendar-arithmetic variant is not. *)
From Coq Require Import List ZArith NArith Bool Lia ZifyN ZifyNat ZifyBool Permutation.
From SigM Require Import Base Retention RetentionTime.
From SigP Require Import BaseProofs RetentionProofs.
Import ListNotations.
Open Scope Z_scope.

(* GetRetentionTimeMs as coded: the instant of "now" minus hours * 3 600 000 ms, for every location *)
Lemma retention_time_absolute : forall hours now z,
  retention_time_ms hours (mktime now z) = now - hours * 3600000.
Proof. intros. unfold retention_time_ms, t_unixmilli, t_add. simpl. lia. Qed.

Lemma retention_time_zone_independent : forall hours now z1 z2,
  retention_time_ms hours (mktime now z1) = retention_time_ms hours (mktime now z2)
  /\ retention_time_ms hours (mktime now z1) = now - hours * 3600000.
Proof. intros. rewrite !retention_time_absolute. split; reflexivity. Qed.

(* the horizon of the pass model (Retention.horizon, a function of two numbers) is the coded
   computation on a time.Time of any location *)
Lemma horizon_of_is_horizon : forall hours now z, 0 <= now ->
  horizon_of hours (mktime now z) = horizon (Z.to_N now) hours.
Proof.
  intros hours now z Hn. unfold horizon_of, horizon. rewrite retention_time_absolute.
  lia.
Qed.

(* selection by age as an absolute duration: a line is selected iff it belongs to the org and its newest
   event is at least [hours] hours old at the instant of the pass — no zone in the right-hand side *)
Lemma expired_at_iff : forall hours now z org s, 0 <= now -> Z.of_N hours * 3600000 <= now ->
  expired (horizon_of hours (mktime now z)) org s = true
  <-> s_org s = org /\ Z.of_N (latest_ms s) + Z.of_N hours * 3600000 <= now.
Proof.
  intros hours now z org s Hn Hh. rewrite expired_spec.
  unfold horizon_of. rewrite retention_time_absolute.
  split; intros [A B]; split; auto; lia.
Qed.

Section Orders.
  Variable ord : list seg -> list seg.
  Variable ordp : list path -> list path.
  Variable ordn : list N -> list N.

  (* the whole outcome of the pass (files, in-memory metadata, directories, index names) is the same
     whatever location the server's clock reading carries *)
  Lemma pass_zone_independent : forall hours now z1 z2 org st,
    run ord ordp ordn (horizon_of hours (mktime now z1)) org st
    = run ord ordp ordn (horizon_of hours (mktime now z2)) org st.
  Proof.
    intros. unfold horizon_of.
    destruct (retention_time_zone_independent (Z.of_N hours) now z1 z2) as [E _]. rewrite E. reflexivity.
  Qed.
End Orders.

(* ---------- the calendar variant ---------- *)

Lemma lookup_fixed : forall o u, lookup (fixed_zone o) u = (o, None, None).
Proof. reflexivity. Qed.

Lemma go_date_fixed : forall o w, go_date (fixed_zone o) w = w - o.
Proof.
  intros. unfold go_date. rewrite lookup_fixed. simpl.
  destruct (Z.eqb_spec o 0); lia.
Qed.

(* in a zone without transitions (UTC, every fixed offset) calendar days are 24-hour days: the variant
   computes the coded horizon — which is why it is invisible to a test suite run in UTC *)
Lemma calendar_fixed_offset : forall o hours now,
  retention_time_ms_calendar hours (mktime now (fixed_zone o)) = retention_time_ms hours (mktime now (fixed_zone o)).
Proof.
  intros. rewrite retention_time_absolute.
  unfold retention_time_ms_calendar, t_unixmilli, t_add, t_adddate_days, wall, offset_at. cbn [t_inst t_loc].
  rewrite go_date_fixed, lookup_fixed. cbn [fst].
  pose proof (Z.quot_rem' hours 24). lia.
Qed.

(* spring forward inside the window: server in America/New_York, pass on 2024-03-20 12:00:00 UTC, retention 15 days
   (360 h).  The calendar variant puts the horizon one hour too late: a segment whose newest event is 30 minutes
   NEWER than  now - 360 h  is selected; the coded horizon keeps it. *)
Lemma calendar_spring_forward_refuted :
  exists z now hours org s,
    0 <= now /\ Z.of_N hours * 3600000 <= now /\
    s_org s = org /\ now < Z.of_N (latest_ms s) + Z.of_N hours * 3600000 /\
    expired (horizon_of_calendar hours (mktime now z)) org s = true /\
    expired (horizon_of hours (mktime now z)) org s = false /\
    retention_time_ms_calendar (Z.of_N hours) (mktime now z) = retention_time_ms (Z.of_N hours) (mktime now z) + 3600000.
Proof.
  exists zone_new_york_2024, 1710936000000, 360%N, 0, (mkseg [1%N; 1%N] KLog 1709630000000%N 1709641800000%N 0 1%N []).
  vm_compute. repeat split; try reflexivity; discriminate.
Qed.

(* fall back inside the window: pass on 2024-11-10 12:00:00 UTC, retention 15 days: the horizon is one hour too
   early, a segment whose newest event is 30 minutes OLDER than  now - 360 h  is kept *)
Lemma calendar_fall_back_refuted :
  exists z now hours org s,
    0 <= now /\ Z.of_N hours * 3600000 <= now /\
    s_org s = org /\ Z.of_N (latest_ms s) + Z.of_N hours * 3600000 < now /\
    expired (horizon_of_calendar hours (mktime now z)) org s = false /\
    expired (horizon_of hours (mktime now z)) org s = true /\
    retention_time_ms_calendar (Z.of_N hours) (mktime now z) = retention_time_ms (Z.of_N hours) (mktime now z) - 3600000.
Proof.
  exists zone_new_york_2024, 1731240000000, 360%N, 0, (mkseg [1%N; 1%N] KLog 1729930000000%N 1729942200000%N 0 1%N []).
  vm_compute. repeat split; try reflexivity; discriminate.
Qed.

(* not even "less than a day" is safe: in the repeated hour after the clocks went back (2024-11-03 06:30 UTC =
   01:30 EST, the second 01:30 of that night) AddDate(0, 0, 0) already moves the instant to the first 01:30, so a
   retention of 1 hour gets a horizon one hour too early *)
Lemma calendar_repeated_hour_refuted :
  exists z now hours, 0 <= hours < 24 /\
    t_inst (t_adddate_days (mktime now z) 0) = now - 3600000 /\
    retention_time_ms_calendar hours (mktime now z) = retention_time_ms hours (mktime now z) - 3600000.
Proof.
  exists zone_new_york_2024, 1730615400000, 1. vm_compute. repeat split; try reflexivity; discriminate.
Qed.
